(* Simulation between two translation layers of Model/Ufs.v, on EVERY host:
   if layer A computes on [f q] what layer B computes on [q] (paths, validation,
   flags), then running the same operations through A and through B gives the
   same host calls in the same order, hence the same host state, the same
   results, and fid tables related by [f].  Instantiated in UfsProofsMirror.v
   with A = the Go layer on strings, B = the component-list layer of the spec. *)
From Coq Require Import List NArith ZArith Bool Lia.
From P9 Require Import Base.Res Model.Path Model.HostFS Model.Ufs Gen.GenConsts Proofs.UfsProofs.
Import ListNotations.
Open Scope N_scope.

Definition op_wf (o : op) : Prop :=
  match o with
  | OpOpen _ m => m < 256
  | OpCreate _ _ _ m => m < 256
  | _ => True
  end.

Section Sim.
  Context {H PA PB : Type}.
  Variable hc : H -> hcall -> H * hresult.
  Variable A : ualg PA.
  Variable B : ualg PB.
  Variable f : PB -> PA.
  Variable Pinv Pweak : PB -> Prop.

  Definition map_res (r : res PB) : res PA :=
    match r with Ok q => Ok (f q) | Err e => Err e | Panic => Panic | Hang => Hang end.

  Hypothesis inv_weak : forall q, Pinv q -> Pweak q.
  Hypothesis h_root : ua_root A = f (ua_root B) /\ Pweak (ua_root B).
  Hypothesis h_names : forall ns, ua_names_ok A ns = ua_names_ok B ns.
  Hypothesis h_cok : forall n, ua_create_ok A n = ua_create_ok B n.
  Hypothesis h_full : forall q, Pweak q -> ua_fullpath A (f q) = ua_fullpath B q.
  Hypothesis h_full_inv : forall q hp, ua_fullpath B q = Some hp -> Pinv q.
  Hypothesis h_host : forall q, Pinv q -> ua_hostpath A (f q) = ua_hostpath B q.
  Hypothesis h_walk : forall q ns, Pinv q -> ua_names_ok B ns = true -> ns <> [] ->
    ua_walk A (f q) ns = map_res (ua_walk B q ns) /\ (forall q', ua_walk B q ns = Ok q' -> Pweak q').
  Hypothesis h_create : forall q n, Pinv q ->
    ua_create A (f q) n = map_res (ua_create B q n) /\ (forall q', ua_create B q n = Ok q' -> Pweak q').
  Hypothesis h_rename : forall q n, Pinv q -> n <> [] ->
    rename_target A (f q) n = option_map (fun x => (f (fst x), snd x)) (rename_target B q n).
  Hypothesis h_isroot : forall q, Pinv q -> ua_is_root A (f q) = ua_is_root B q.
  Hypothesis h_oflags : forall m, m < 256 -> ua_oflags A m = ua_oflags B m.
  Hypothesis h_perm : forall p, ua_perm A p = ua_perm B p.
  Hypothesis b_walk_total : forall q ns, Pinv q -> ua_walk B q ns <> Panic /\ ua_walk B q ns <> Hang.
  Hypothesis b_create_total : forall q n, Pinv q -> ua_create B q n <> Panic /\ ua_create B q n <> Hang.

  Definition map_fref (e : fref PB) : fref PA :=
    {| fr_path := f (fr_path e); fr_info := fr_info e; fr_fd := fr_fd e |}.
  Definition map_sfid (r : sfid PB) : sfid PA :=
    {| sf_ent := map_fref (sf_ent r); sf_file := sf_file r; sf_mode := sf_mode r |}.
  Definition map_fids (t : list (N * sfid PB)) : list (N * sfid PA) :=
    map (fun e => (fst e, map_sfid (snd e))) t.
  Definition mapst (s : ust H PB) : ust H PA :=
    {| u_host := u_host s; u_fids := map_fids (u_fids s); u_log := u_log s; u_stuck := u_stuck s |}.
  Definition mapp {X} (p : ust H PB * X) : ust H PA * X := (mapst (fst p), snd p).

  (* B's invariant: every fid path satisfies Pinv (generic invariant of UfsProofs with a trivial host predicate) *)
  Definition invB (s : ust H PB) : Prop := inv (H:=H) Pinv (fun _ => True) s.

  Lemma b_full_ok q hp : ua_fullpath B q = Some hp -> Pinv q /\ True.
  Proof. intros E. split; [eapply h_full_inv; eauto|exact I]. Qed.
  Lemma b_host_ok q : Pinv q -> True.
  Proof. intros _; exact I. Qed.

  Lemma invB_step s o : invB s -> invB (fst (step hc B s o)).
  Proof. apply (step_inv hc B Pinv (fun _ => True) b_full_ok b_host_ok b_walk_total b_create_total). Qed.

  Lemma invB_get s fid r : invB s -> get_ref s fid = Some r -> Pinv (fr_path (sf_ent r)).
  Proof. apply get_ref_ok. Qed.
  Lemma invB_fid_get s fid r : invB s -> fid_get fid (u_fids s) = Some r -> Pinv (fr_path (sf_ent r)).
  Proof. apply fid_get_ok. Qed.

  (* ---- the plumbing commutes with the map ---- *)

  Lemma call_map s c : call hc (mapst s) c = mapp (call hc s c).
  Proof. unfold call, mapp. simpl. destruct (hc (u_host s) c); reflexivity. Qed.

  Lemma fid_get_map fid t : fid_get fid (map_fids t) = option_map map_sfid (fid_get fid t).
  Proof.
    unfold fid_get. induction t as [|[k v] t IH]; simpl; [reflexivity|].
    destruct (fid =? k); [reflexivity|exact IH].
  Qed.

  Lemma fid_del_map fid t : fid_del fid (map_fids t) = map_fids (fid_del fid t).
  Proof.
    induction t as [|[k v] t IH]; simpl; [reflexivity|].
    destruct (fid =? k); simpl; [exact IH|rewrite IH; reflexivity].
  Qed.

  Lemma fid_set_map fid v t : fid_set fid (map_sfid v) (map_fids t) = map_fids (fid_set fid v t).
  Proof. unfold fid_set. simpl. rewrite fid_del_map. reflexivity. Qed.

  Lemma get_ref_map s fid : get_ref (mapst s) fid = option_map map_sfid (get_ref s fid).
  Proof. unfold get_ref. destruct (fid =? c_NOFID); [reflexivity|]. apply fid_get_map. Qed.

  Lemma fid_free_map s fid : fid_free (mapst s) fid = fid_free s fid.
  Proof.
    unfold fid_free. simpl. rewrite fid_get_map. destruct (fid_get fid (u_fids s)); reflexivity.
  Qed.

  Lemma set_fids_map s t : set_fids (mapst s) (map_fids t) = mapst (set_fids s t).
  Proof. reflexivity. Qed.

  Lemma bind_map s fid v :
    set_fids (mapst s) (fid_set fid (map_sfid v) (u_fids (mapst s))) = mapst (set_fids s (fid_set fid v (u_fids s))).
  Proof. simpl u_fids. rewrite fid_set_map. reflexivity. Qed.

  Lemma unbind_map s fid :
    set_fids (mapst s) (fid_del fid (u_fids (mapst s))) = mapst (set_fids s (fid_del fid (u_fids s))).
  Proof. simpl u_fids. rewrite fid_del_map. reflexivity. Qed.

  Lemma new_ref_map s q : Pweak q ->
    new_ref hc A (mapst s) (f q) =
    (mapst (fst (new_ref hc B s q)), option_map map_fref (snd (new_ref hc B s q))).
  Proof.
    intros Hq. unfold new_ref. rewrite h_full by exact Hq.
    destruct (ua_fullpath B q) as [hp|]; [|reflexivity].
    rewrite call_map. unfold mapp. destruct (call hc s (HStat hp)) as [s1 r]. simpl.
    destruct r; reflexivity.
  Qed.

  Lemma ent_clunk_map s e : ent_clunk hc (mapst s) (map_fref e) = mapp (ent_clunk hc s e).
  Proof.
    unfold ent_clunk. simpl. destruct (fr_fd e) as [fd|]; [|reflexivity].
    rewrite call_map. unfold mapp. destruct (call hc s (HClose fd)) as [s1 r]. reflexivity.
  Qed.

  Lemma ent_opendir_map s e : Pinv (fr_path e) ->
    ent_opendir hc A (mapst s) (map_fref e) = mapp (ent_opendir hc B s e).
  Proof.
    intros He. unfold ent_opendir. simpl. destruct (negb (hi_dir (fr_info e))); [reflexivity|].
    rewrite h_host by exact He. rewrite call_map. unfold mapp.
    destruct (call hc s (HReadDir (ua_hostpath B (fr_path e)))) as [s1 r]. simpl. destruct r; reflexivity.
  Qed.

  (* ---- the operations ---- *)

  Lemma attach_sim s fid : do_attach hc A (mapst s) fid = mapp (do_attach hc B s fid).
  Proof.
    unfold do_attach. rewrite fid_free_map. destruct (negb (fid_free s fid)); [reflexivity|].
    destruct h_root as (Er & Hr). rewrite Er. rewrite new_ref_map by exact Hr.
    destruct (new_ref hc B s (ua_root B)) as [s1 [e|]]; simpl; [|reflexivity].
    unfold mapp. simpl. f_equal.
    apply (bind_map s1 fid {| sf_ent := e; sf_file := SFnone; sf_mode := 0 |}).
  Qed.

  Lemma walk_sim s fid newfid names : invB s ->
    do_walk hc A (mapst s) fid newfid names = mapp (do_walk hc B s fid newfid names).
  Proof.
    intros Hi. unfold do_walk. rewrite h_names.
    destruct (ua_names_ok B names) eqn:En; [|reflexivity]. simpl.
    rewrite get_ref_map. destruct (get_ref s fid) as [r|] eqn:Eg; [|reflexivity]. simpl.
    pose proof (invB_get _ _ _ Hi Eg) as Hr.
    rewrite fid_free_map.
    destruct (negb (newfid =? fid) && negb (fid_free s newfid)); [reflexivity|].
    destruct names as [|n0 names'].
    - destruct (newfid =? fid); [reflexivity|].
      rewrite new_ref_map by (apply inv_weak; exact Hr).
      destruct (new_ref hc B s (fr_path (sf_ent r))) as [s1 [e|]]; simpl; [|reflexivity].
      unfold mapp. simpl. f_equal.
      apply (bind_map s1 newfid {| sf_ent := e; sf_file := SFnone; sf_mode := 0 |}).
    - change (is_dir (map_fref (sf_ent r))) with (is_dir (sf_ent r)).
      destruct (negb (is_dir (sf_ent r))); [reflexivity|].
      destruct (h_walk (fr_path (sf_ent r)) (n0 :: names') Hr En ltac:(discriminate)) as (Ew & Hw).
      rewrite Ew.
      destruct (ua_walk B (fr_path (sf_ent r)) (n0 :: names')) as [q|err| |]; simpl; try reflexivity.
      rewrite new_ref_map by (apply Hw; reflexivity).
      destruct (new_ref hc B s q) as [s1 [e|]]; simpl; [|reflexivity].
      destruct (newfid =? fid).
      + change (ent_clunk hc (mapst s1) (map_fref (sf_ent r))) with (ent_clunk hc (mapst s1) (map_fref (sf_ent r))).
        rewrite ent_clunk_map. unfold mapp at 1.
        destruct (ent_clunk hc s1 (sf_ent r)) as [s2 b]. simpl.
        unfold mapp. simpl. f_equal.
        apply (bind_map s2 fid {| sf_ent := e; sf_file := SFnone; sf_mode := 0 |}).
      + unfold mapp. simpl. f_equal.
        apply (bind_map s1 newfid {| sf_ent := e; sf_file := SFnone; sf_mode := 0 |}).
  Qed.

  Lemma open_sim s fid mode : invB s -> mode < 256 ->
    do_open hc A (mapst s) fid mode = mapp (do_open hc B s fid mode).
  Proof.
    intros Hi Hm. unfold do_open.
    rewrite get_ref_map. destruct (get_ref s fid) as [r|] eqn:Eg; [|reflexivity]. simpl.
    pose proof (invB_get _ _ _ Hi Eg) as Hr.
    destruct (sf_file r); try reflexivity.
    change (is_dir (map_fref (sf_ent r))) with (is_dir (sf_ent r)).
    destruct (is_dir (sf_ent r)).
    - rewrite ent_opendir_map by exact Hr.
      destruct (ent_opendir hc B s (sf_ent r)) as [s1 [l|]]; simpl; [|reflexivity].
      unfold mapp. simpl. f_equal.
      apply (bind_map s1 fid {| sf_ent := sf_ent r; sf_file := SFdir l; sf_mode := mode |}).
    - rewrite h_host by exact Hr. rewrite h_oflags by exact Hm. rewrite call_map.
      destruct (call hc s (HOpen (ua_hostpath B (fr_path (sf_ent r))) (ua_oflags B mode) 0)) as [s1 res].
      unfold mapp at 1. simpl. destruct res; try reflexivity.
      unfold mapp. simpl. f_equal.
      apply (bind_map s1 fid {| sf_ent := {| fr_path := fr_path (sf_ent r); fr_info := fr_info (sf_ent r); fr_fd := Some fd |};
                                sf_file := SFfile (Some fd); sf_mode := mode |}).
  Qed.

  Lemma create_switch_map s hp perm mode : mode < 256 ->
    create_switch hc A (mapst s) hp perm mode = mapp (create_switch hc B s hp perm mode).
  Proof.
    intros Hm. unfold create_switch. rewrite !h_perm, h_oflags by exact Hm.
    destruct (negb (N.land perm c_DMDIR =? 0)).
    - rewrite call_map. destruct (call hc s (HMkdir hp (ua_perm B perm))) as [s1 r]. reflexivity.
    - destruct (negb (N.land perm c_DMSYMLINK =? 0)); [reflexivity|].
      destruct (negb (N.land perm c_DMNAMEDPIPE =? 0)); [reflexivity|].
      destruct (negb (N.land perm c_DMDEVICE =? 0)); [reflexivity|].
      rewrite call_map. destruct (call hc s _) as [s1 r]. reflexivity.
  Qed.

  Lemma create_sim s fid name perm mode : invB s -> mode < 256 ->
    do_create hc A (mapst s) fid name perm mode = mapp (do_create hc B s fid name perm mode).
  Proof.
    intros Hi Hm. unfold do_create. rewrite h_cok.
    destruct (negb (ua_create_ok B name)); [reflexivity|].
    rewrite get_ref_map. destruct (get_ref s fid) as [r|] eqn:Eg; [|reflexivity]. simpl.
    pose proof (invB_get _ _ _ Hi Eg) as Hr.
    change (is_dir (map_fref (sf_ent r))) with (is_dir (sf_ent r)).
    destruct (negb (is_dir (sf_ent r))); [reflexivity|].
    destruct (h_create (fr_path (sf_ent r)) name Hr) as (Ec & Hc). rewrite Ec.
    destruct (ua_create B (fr_path (sf_ent r)) name) as [q|err| |]; simpl; try reflexivity.
    specialize (Hc q eq_refl).
    rewrite h_full by exact Hc.
    destruct (ua_fullpath B q) as [hp|] eqn:Ef; [|reflexivity].
    pose proof (h_full_inv _ _ Ef) as Hq.
    rewrite create_switch_map by exact Hm.
    destruct (create_switch hc B s hp perm mode) as [s1 cr]. unfold mapp at 1. simpl.
    assert (Hmain : forall fdo,
      match new_ref hc A (mapst s1) (f q) with
      | (s2, None) =>
          match fdo with
          | Some fd => let '(s3, _) := call hc s2 (HClose fd) in (s3, ObErr)
          | None => (s2, ObErr)
          end
      | (s2, Some e0) =>
          let e := {| fr_path := fr_path e0; fr_info := fr_info e0; fr_fd := fdo |} in
          if is_dir e then
            match ent_opendir hc A s2 e with
            | (s3, Some l) =>
                (set_fids s3 (fid_set fid {| sf_ent := e; sf_file := SFdir l; sf_mode := mode |} (u_fids s3)), ObQid true)
            | (s3, None) =>
                let '(s4, _) := ent_clunk hc s3 e in
                (set_fids s4 (fid_del fid (u_fids s4)), ObErr)
            end
          else
            (set_fids s2 (fid_set fid {| sf_ent := e; sf_file := SFfile fdo; sf_mode := mode |} (u_fids s2)), ObQid false)
      end =
      mapp (match new_ref hc B s1 q with
      | (s2, None) =>
          match fdo with
          | Some fd => let '(s3, _) := call hc s2 (HClose fd) in (s3, ObErr)
          | None => (s2, ObErr)
          end
      | (s2, Some e0) =>
          let e := {| fr_path := fr_path e0; fr_info := fr_info e0; fr_fd := fdo |} in
          if is_dir e then
            match ent_opendir hc B s2 e with
            | (s3, Some l) =>
                (set_fids s3 (fid_set fid {| sf_ent := e; sf_file := SFdir l; sf_mode := mode |} (u_fids s3)), ObQid true)
            | (s3, None) =>
                let '(s4, _) := ent_clunk hc s3 e in
                (set_fids s4 (fid_del fid (u_fids s4)), ObErr)
            end
          else
            (set_fids s2 (fid_set fid {| sf_ent := e; sf_file := SFfile fdo; sf_mode := mode |} (u_fids s2)), ObQid false)
      end)).
    { intros fdo. rewrite new_ref_map by exact Hc.
      destruct (new_ref hc B s1 q) as [s2 [e0|]] eqn:En; simpl.
      - assert (He0 : fr_path e0 = q).
        { unfold new_ref in En. rewrite Ef in En. destruct (call hc s1 (HStat hp)) as [sx rx].
          destruct rx; inversion En; reflexivity. }
        set (e := {| fr_path := fr_path e0; fr_info := fr_info e0; fr_fd := fdo |}).
        change {| fr_path := f (fr_path e0); fr_info := fr_info e0; fr_fd := fdo |} with (map_fref e).
        change (is_dir (map_fref e)) with (is_dir e).
        assert (He : Pinv (fr_path e)) by (simpl; rewrite He0; exact Hq).
        destruct (is_dir e).
        + rewrite ent_opendir_map by exact He.
          destruct (ent_opendir hc B s2 e) as [s3 [l|]]; simpl.
          * unfold mapp. simpl. f_equal.
            apply (bind_map s3 fid {| sf_ent := e; sf_file := SFdir l; sf_mode := mode |}).
          * rewrite ent_clunk_map. destruct (ent_clunk hc s3 e) as [s4 b]. unfold mapp. simpl. f_equal.
            apply unbind_map.
        + unfold mapp. simpl. f_equal.
          apply (bind_map s2 fid {| sf_ent := e; sf_file := SFfile fdo; sf_mode := mode |}).
      - destruct fdo as [fd|]; [|reflexivity].
        rewrite call_map. destruct (call hc s2 (HClose fd)) as [s3 r3]. reflexivity. }
    destruct cr as [| |fd]; [reflexivity | exact (Hmain None) | exact (Hmain (Some fd))].
  Qed.

  Lemma read_sim s fid count off : do_read hc (mapst s) fid count off = mapp (do_read hc s fid count off).
  Proof.
    unfold do_read. rewrite get_ref_map. destruct (get_ref s fid) as [r|]; [|reflexivity]. simpl.
    destruct (sf_file r) as [|rest|[fd|]]; try reflexivity.
    - destruct (N.land (sf_mode r) c_OEXEC =? c_OWRITE); [reflexivity|].
      rewrite call_map. destruct (call hc s (HPread fd count off)) as [s1 res]. reflexivity.
    - destruct (N.land (sf_mode r) c_OEXEC =? c_OWRITE); reflexivity.
  Qed.

  Lemma write_sim s fid data off : do_write hc (mapst s) fid data off = mapp (do_write hc s fid data off).
  Proof.
    unfold do_write. rewrite get_ref_map. destruct (get_ref s fid) as [r|]; [|reflexivity]. simpl.
    destruct (sf_file r) as [|rest|[fd|]]; try reflexivity;
      destruct (negb (N.land (sf_mode r) c_OEXEC =? c_OWRITE) && negb (N.land (sf_mode r) c_OEXEC =? c_ORDWR)); try reflexivity.
    rewrite call_map. destruct (call hc s (HPwrite fd data off)) as [s1 res]. reflexivity.
  Qed.

  Lemma readdir_sim s fid : do_readdir (mapst s) fid = mapp (do_readdir s fid).
  Proof.
    unfold do_readdir. rewrite get_ref_map. destruct (get_ref s fid) as [r|]; [|reflexivity]. simpl.
    destruct (sf_file r); try reflexivity.
    destruct (N.land (sf_mode r) c_OEXEC =? c_OWRITE); [reflexivity|].
    unfold mapp. simpl. f_equal.
    apply (bind_map s fid {| sf_ent := sf_ent r; sf_file := SFdir []; sf_mode := sf_mode r |}).
  Qed.

  Lemma stat_sim s fid : do_stat (mapst s) fid = mapp (do_stat s fid).
  Proof. unfold do_stat. rewrite get_ref_map. destruct (get_ref s fid); reflexivity. Qed.

  Lemma ent_wstat_map s e name mode len uid gid : Pinv (fr_path e) ->
    ent_wstat hc A (mapst s) (map_fref e) name mode len uid gid =
    (let '(s1, e1, ok) := ent_wstat hc B s e name mode len uid gid in (mapst s1, map_fref e1, ok)).
  Proof.
    intros He. unfold ent_wstat. simpl fr_path. rewrite h_host by exact He. rewrite !h_perm.
    set (hp := ua_hostpath B (fr_path e)).
    (* chmod *)
    assert (E1 : (if mode =? NOCHANGE32 then (mapst s, true)
                  else let '(s', r) := call hc (mapst s) (HChmod hp (ua_perm B mode)) in
                       (s', match r with RDone => true | _ => false end))
               = mapp (if mode =? NOCHANGE32 then (s, true)
                       else let '(s', r) := call hc s (HChmod hp (ua_perm B mode)) in
                            (s', match r with RDone => true | _ => false end))).
    { destruct (mode =? NOCHANGE32); [reflexivity|]. rewrite call_map.
      destruct (call hc s (HChmod hp (ua_perm B mode))) as [s' r]. reflexivity. }
    rewrite E1. clear E1.
    destruct (if mode =? NOCHANGE32 then (s, true)
              else let '(s', r) := call hc s (HChmod hp (ua_perm B mode)) in
                   (s', match r with RDone => true | _ => false end)) as [sa ok1].
    unfold mapp at 1. simpl fst. simpl snd. cbv iota beta.
    destruct ok1; [|reflexivity]. cbn [negb].
    (* chown *)
    assert (E2 : (if is_empty uid && is_empty gid then (mapst sa, true)
                  else let '(sa0, ru) := call hc (mapst sa) (HLookupUser uid) in
                       match ru with
                       | RCount u =>
                           let '(sb, rg) := call hc sa0 (HLookupGroup gid) in
                           match rg with
                           | RCount g => let '(sc, r) := call hc sb (HChown hp u g) in
                                         (sc, match r with RDone => true | _ => false end)
                           | _ => (sb, false)
                           end
                       | _ => (sa0, false)
                       end)
               = mapp (if is_empty uid && is_empty gid then (sa, true)
                       else let '(sa0, ru) := call hc sa (HLookupUser uid) in
                            match ru with
                            | RCount u =>
                                let '(sb, rg) := call hc sa0 (HLookupGroup gid) in
                                match rg with
                                | RCount g => let '(sc, r) := call hc sb (HChown hp u g) in
                                              (sc, match r with RDone => true | _ => false end)
                                | _ => (sb, false)
                                end
                            | _ => (sa0, false)
                            end)).
    { destruct (is_empty uid && is_empty gid); [reflexivity|]. rewrite call_map.
      destruct (call hc sa (HLookupUser uid)) as [sa0 ru]. unfold mapp at 1. simpl fst; simpl snd.
      destruct ru; try reflexivity.
      rewrite call_map. destruct (call hc sa0 (HLookupGroup gid)) as [sb rg]. unfold mapp at 1. simpl fst; simpl snd.
      destruct rg; try reflexivity.
      rewrite call_map. destruct (call hc sb (HChown hp n n0)) as [sc r]. reflexivity. }
    rewrite E2. clear E2.
    destruct (if is_empty uid && is_empty gid then (sa, true) else _) as [sb ok2].
    unfold mapp at 1. simpl fst. simpl snd. cbv iota beta.
    destruct ok2; [|reflexivity]. cbn [negb].
    (* rename *)
    assert (E3 : (if is_empty name then (mapst sb, map_fref e, true)
                  else match rename_target A (f (fr_path e)) name with
                       | None => (mapst sb, map_fref e, false)
                       | Some (rel, newhp) =>
                           let '(s', r) := call hc (mapst sb) (HRename hp newhp) in
                           match r with
                           | RDone => (s', {| fr_path := rel; fr_info := fr_info (map_fref e); fr_fd := fr_fd (map_fref e) |}, true)
                           | _ => (s', map_fref e, false)
                           end
                       end)
               = (let '(sc, e3, ok3) :=
                    (if is_empty name then (sb, e, true)
                     else match rename_target B (fr_path e) name with
                          | None => (sb, e, false)
                          | Some (rel, newhp) =>
                              let '(s', r) := call hc sb (HRename hp newhp) in
                              match r with
                              | RDone => (s', {| fr_path := rel; fr_info := fr_info e; fr_fd := fr_fd e |}, true)
                              | _ => (s', e, false)
                              end
                          end) in (mapst sc, map_fref e3, ok3))).
    { destruct (is_empty name) eqn:En; [reflexivity|].
      rewrite h_rename; [|exact He|intros ->; discriminate].
      destruct (rename_target B (fr_path e) name) as [[rel newhp]|]; simpl; [|reflexivity].
      rewrite call_map. destruct (call hc sb (HRename hp newhp)) as [s' r]. unfold mapp. simpl.
      destruct r; reflexivity. }
    rewrite E3. clear E3.
    assert (He3 : forall sc e3 ok3,
              (if is_empty name then (sb, e, true)
               else match rename_target B (fr_path e) name with
                    | None => (sb, e, false)
                    | Some (rel, newhp) =>
                        let '(s', r) := call hc sb (HRename hp newhp) in
                        match r with
                        | RDone => (s', {| fr_path := rel; fr_info := fr_info e; fr_fd := fr_fd e |}, true)
                        | _ => (s', e, false)
                        end
                    end) = (sc, e3, ok3) -> Pinv (fr_path e3)).
    { intros sc e3 ok3. destruct (is_empty name); [intros E; inversion E; subst; exact He|].
      destruct (rename_target B (fr_path e) name) as [[rel newhp]|] eqn:Er; [|intros E; inversion E; subst; exact He].
      unfold rename_target in Er. destruct (ua_rename B (fr_path e) name) as [rel'|]; [|discriminate].
      destruct (ua_fullpath B rel') as [hp'|] eqn:Ef; [|discriminate]. inversion Er; subst rel' hp'.
      pose proof (h_full_inv _ _ Ef) as Hrel.
      destruct (call hc sb (HRename hp newhp)) as [s' r]. destruct r; intros E; inversion E; subst; auto. }
    destruct (if is_empty name then (sb, e, true) else _) as [[sc e3] ok3] eqn:Eren.
    specialize (He3 sc e3 ok3 eq_refl).
    destruct ok3; [|reflexivity]. cbn [negb].
    (* truncate *)
    destruct (len =? NOCHANGE64); [reflexivity|].
    simpl fr_path. rewrite h_host by exact He3. rewrite call_map.
    destruct (call hc sc (HTruncate (ua_hostpath B (fr_path e3)) (int64_of len))) as [sd r]. reflexivity.
  Qed.

  Lemma wstat_sim s fid name mode len uid gid : invB s ->
    do_wstat hc A (mapst s) fid name mode len uid gid = mapp (do_wstat hc B s fid name mode len uid gid).
  Proof.
    intros Hi. unfold do_wstat. rewrite get_ref_map. destruct (get_ref s fid) as [r|] eqn:Eg; [|reflexivity]. simpl.
    pose proof (invB_get _ _ _ Hi Eg) as Hr.
    rewrite ent_wstat_map by exact Hr.
    destruct (ent_wstat hc B s (sf_ent r) name mode len uid gid) as [[s1 e] ok].
    unfold mapp. simpl. f_equal.
    apply (bind_map s1 fid {| sf_ent := e; sf_file := sf_file r; sf_mode := sf_mode r |}).
  Qed.

  Lemma clunk_sim s fid : do_clunk hc (mapst s) fid = mapp (do_clunk hc s fid).
  Proof.
    unfold do_clunk. simpl u_fids. rewrite fid_get_map. destruct (fid_get fid (u_fids s)) as [r|]; [|reflexivity]. simpl.
    rewrite ent_clunk_map. destruct (ent_clunk hc s (sf_ent r)) as [s1 b]. unfold mapp. simpl. f_equal.
    apply unbind_map.
  Qed.

  Lemma remove_sim s fid : invB s -> do_remove hc A (mapst s) fid = mapp (do_remove hc B s fid).
  Proof.
    intros Hi. unfold do_remove. simpl u_fids. rewrite fid_get_map.
    destruct (fid_get fid (u_fids s)) as [r|] eqn:Eg; [|reflexivity]. simpl.
    pose proof (invB_fid_get _ _ _ Hi Eg) as Hr.
    rewrite ent_clunk_map. destruct (ent_clunk hc s (sf_ent r)) as [s1 b]. unfold mapp at 1. simpl fst.
    rewrite h_isroot by exact Hr. rewrite h_host by exact Hr. rewrite unbind_map.
    destruct (ua_is_root B (fr_path (sf_ent r))); [reflexivity|].
    rewrite call_map. destruct (call hc _ _) as [s3 res]. reflexivity.
  Qed.

  Theorem step_sim s o : invB s -> op_wf o -> step hc A (mapst s) o = mapp (step hc B s o).
  Proof.
    intros Hi Hw. unfold step. simpl u_stuck. destruct (u_stuck s); [reflexivity|].
    destruct o; simpl in Hw.
    - apply attach_sim.
    - apply walk_sim; auto.
    - apply open_sim; auto.
    - apply create_sim; auto.
    - apply read_sim.
    - apply write_sim.
    - apply stat_sim.
    - apply wstat_sim; auto.
    - apply clunk_sim.
    - apply remove_sim; auto.
    - apply readdir_sim.
  Qed.

  Theorem run_sim ops : forall s, invB s -> Forall op_wf ops ->
    run hc A (mapst s) ops = mapp (run hc B s ops).
  Proof.
    induction ops as [|o ops IH]; intros s Hi Hw; [reflexivity|].
    inversion Hw as [|? ? Ho Hops]; subst. simpl.
    rewrite step_sim by auto.
    pose proof (invB_step s o Hi) as Hi1.
    destruct (step hc B s o) as [s1 ob]. unfold mapp at 1. simpl fst. simpl snd. simpl in Hi1.
    rewrite IH by auto. destruct (run hc B s1 ops) as [s2 obs]. reflexivity.
  Qed.
End Sim.
