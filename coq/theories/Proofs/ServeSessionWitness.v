(* Concrete runs of Model/ServeSession.v (codec [demo_codec]): non-vacuity of the composed C11
   theorem, and the composed form of defect D13 on the legacy serve loop. *)
From Coq Require Import List NArith Bool Lia.
From stdpp Require Import gmap.
From P9 Require Import Model.Path Model.Serve Model.Session Model.FidSpec Model.ServeSession.
From P9 Require Import Proofs.ServeProofs Proofs.ServeProofs2 Proofs.ServeProofs4.
From P9 Require Import Proofs.SessionProofs Proofs.SessionGhost Proofs.SessionClauses Proofs.ServeSessionProofs.
Import ListNotations.
Open Scope N_scope.

Definition arrive (rid tag : N) (m : list N) : list cevent :=
  [CEv (ESend rid tag (KReq m)); CEv EReaderGet; CEv EArrive].
Definition answered (rid : N) : list cevent := [CEv (EComplete rid); CEv ETake; CEv EWriteOk].

(* Tattach fid 0 (entry 0) and a clone Twalk 0 -> 1 (entry 1) are served and answered; a third
   request [m] (request id 2, tag 3) is dispatched and its handler is still running when the
   connection's read side fails *)
Definition cs_prefix (m : list N) : list cevent :=
  arrive 0 1 [104; 0] ++ [CFinish 0 [Tok 0 true 0]] ++ answered 0 ++
  arrive 1 2 [110; 0; 1] ++ [CFinish 1 [Tok 0 true 0]] ++ answered 1 ++
  arrive 2 3 m ++ [CEv EConnErr; CEv EReaderFail].
Definition walk_a : list N := [110; 0; 2; 97].     (* Twalk 0 -> 2, one name *)
Definition attach2 : list N := [104; 2].           (* Tattach fid 2 *)
(* the loop returns (cancelling request 2); the handler returns only THEN - its walk succeeded and
   bound fid 2 to entry 2 -, leaves, and Stop runs *)
Definition cs_shutdown : list cevent :=
  [CEv EReturn; CFinish 2 [Tok 0 false 1]; CEv (EGiveUp 2); CEv EStop].

(* at the fault: two fids bound, one handler in flight; Stop is not enabled, not even after the return *)
Example ex_composed_fault : exists c tr, crun R demo_codec cinit (cs_prefix walk_a) = Some (c, tr) /\
  fault (c_sv c) = true /\ bound_fids c = [(0, 0); (1, 1)] /\ released (c_ss c) = [] /\
  (exists h, hs (c_sv c) !! 2 = Some h /\ h_st h = HRun) /\
  cstep R demo_codec c (CEv EStop) = None /\
  crun R demo_codec cinit (cs_prefix walk_a ++ [CEv EReturn; CEv EStop]) = None.
Proof. eexists _, _. split; [vm_compute; reflexivity|]. vm_compute. split_and!; try done. eauto. Qed.

(* the complete shutdown: the late walk's entry is released by Stop as well *)
Example ex_composed_shutdown : exists c tr, crun R demo_codec cinit (cs_prefix walk_a ++ cs_shutdown) = Some (c, tr) /\
  In VStop tr /\ In (OFin 2 (RMsg [111; 1])) tr /\
  bound_fids c = [] /\ table (c_ss c) = [] /\
  released (c_ss c) = [(0, RcStop); (1, RcStop); (2, RcStop)] /\ bound_ever (c_ss c) = [2; 1; 0] /\
  release_count c 0 = 1%nat /\ release_count c 1 = 1%nat /\ release_count c 2 = 1%nat /\
  c_log c = [(OAttach 0 NOFID, [Tok 0 true 0]); (OWalk 0 1 [], [Tok 0 true 0]);
             (OWalk 0 2 [[97]], [Tok 0 false 1]); (SStop, [])].
Proof. eexists _, _. split; [vm_compute; reflexivity|]. vm_compute. split_and!; auto 20. Qed.

(* D13 in the composed system: the legacy loop (no wait for the handler goroutines) lets Stop run while
   the Tattach of fid 2 is in flight; it returns afterwards, binds fid 2 - and nobody releases entry 2 *)
Example legacy_bound_after_stop : exists c tr,
  crun legacy demo_codec cinit (cs_prefix attach2 ++ [CEv EReturn; CEv EStop; CFinish 2 [Tok 0 true 0]; CEv (EGiveUp 2)]) = Some (c, tr) /\
  In VStop tr /\ bound_fids c = [(2, 2)] /\ release_count c 2 = 0%nat /\ bound_ever (c_ss c) = [2; 1; 0] /\
  exists a b, c_log c = a ++ (SStop, []) :: (OAttach 2 NOFID, [Tok 0 true 0]) :: b.
Proof.
  eexists _, _. split; [vm_compute; reflexivity|]. vm_compute. split_and!; auto 20.
  eexists [_; _], []. reflexivity.
Qed.
