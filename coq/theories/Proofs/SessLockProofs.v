(* C14 - lemmas about the lock protocol model (Model/SessLock.v).

   1. [wf p held]: the structural lock discipline of a program that currently
      holds the SFids [held] - on EVERY path (every answer of every action):
        - a Lock is taken only while nothing is held (no hold-and-wait),
        - an Unlock / a field access / a FileSys call on SFid q happens only with q held,
        - at Ret nothing is held.
      [balanced] is its lock-accounting part alone.  Both hold for every method.
   2. [inv]: the invariant of the interleaved system (each thread's ghost [t_held]
      is exactly what the mutexes say it owns, and its remaining program is [wf]
      for it), preserved by every step of every thread.
   3. mutual exclusion, no lock after return, progress, field accesses locked. *)
From stdpp Require Import gmap.
From Coq Require Import NArith List Lia.
From P9 Require Import Model.SessLock.
Local Open Scope N_scope.

(* ------------------------------------------------------------------ 1. structure *)

Fixpoint wf (p : prog) (held : list N) : Prop :=
  match p with
  | Ret _ => held = []
  | Load _ k => forall o, wf (k o) held
  | Reserve _ k => wf (k None) held /\ forall q, wf (k (Some q)) (q :: held)
  | LoadAndDelete _ k => forall o, wf (k o) held
  | Delete _ k => wf k held
  | CompareAndDelete _ _ k => forall b, wf (k b) held
  | Snapshot k => forall l, wf (k l) held
  | Pick _ _ k => forall o, wf (k o) held
  | Lock q k => held = [] /\ wf k [q]
  | Unlock q k => In q held /\ wf k (remove_one q held)
  | ReadSF q k => In q held /\ forall s, wf (k s) held
  | WriteSF q _ k => In q held /\ wf k held
  | Fs c k => (forall q, fc_on c = Some q -> In q held) /\ forall r, wf (k r) held
  end.

(* lock accounting only: every path releases exactly the locks it acquired *)
Fixpoint balanced (p : prog) (held : list N) : Prop :=
  match p with
  | Ret _ => held = []
  | Load _ k => forall o, balanced (k o) held
  | Reserve _ k => balanced (k None) held /\ forall q, balanced (k (Some q)) (q :: held)
  | LoadAndDelete _ k => forall o, balanced (k o) held
  | Delete _ k => balanced k held
  | CompareAndDelete _ _ k => forall b, balanced (k b) held
  | Snapshot k => forall l, balanced (k l) held
  | Pick _ _ k => forall o, balanced (k o) held
  | Lock q k => ~ In q held /\ balanced k (q :: held)
  | Unlock q k => In q held /\ balanced k (remove_one q held)
  | ReadSF _ k => forall s, balanced (k s) held
  | WriteSF _ _ k => balanced k held
  | Fs _ k => forall r, balanced (k r) held
  end.

Lemma wf_balanced : forall p held, wf p held -> balanced p held.
Proof.
  induction p as [r|f k IH|f k IH|f k IH|f k IH|f q k IH|k IH|vs ms k IH|q k IH|q k IH|q k IH|q g k IH|c k IH];
    intros held H; cbn [wf balanced] in *.
  - exact H.
  - intro o. apply IH, H.
  - destruct H as [H0 H1]. split; [apply IH, H0 | intro q; apply IH, H1].
  - intro o. apply IH, H.
  - apply IH, H.
  - intro b. apply IH, H.
  - intro l. apply IH, H.
  - intro o. apply IH, H.
  - destruct H as [-> H1]. split; [intros [] | apply IH, H1].
  - destruct H as [H0 H1]. split; [exact H0 | apply IH, H1].
  - destruct H as [_ H1]. intro s. apply IH, H1.
  - destruct H as [_ H1]. apply IH, H1.
  - destruct H as [_ H1]. intro r. apply IH, H1.
Qed.

Lemma remove_one_head : forall p l, remove_one p (p :: l) = l.
Proof. intros. cbn. rewrite N.eqb_refl. reflexivity. Qed.

Lemma remove_one_second : forall p q, remove_one p [q; p] = [q].
Proof.
  intros. cbn. destruct (q =? p) eqn:E.
  - apply N.eqb_eq in E. subst. reflexivity.
  - rewrite N.eqb_refl. reflexivity.
Qed.

(* the work-horse: decide [wf] of a concrete method body by walking all its paths *)
Ltac wf_step :=
  match goal with
  | |- _ /\ _ => split
  | |- forall _, _ => intro
  | |- In _ _ => cbn; tauto
  | |- _ = _ => reflexivity
  | H : fc_on (call _ ?o _) = Some _ |- _ => cbn in H; first [discriminate H | injection H as <-]
  | |- context [remove_one ?p (?p :: ?l)] => rewrite (remove_one_head p l)
  | |- context [remove_one ?p [?q; ?p]] => rewrite (remove_one_second p q)
  | |- wf _ _ => progress cbn [wf ret unlock_opt]
  | |- wf (if ?b then _ else _) _ => destruct b eqn:?
  | |- wf (match ?x with _ => _ end) _ => destruct x eqn:?
  | |- wf (unlock_opt ?a _) _ => is_var a; destruct a
  end.
Ltac wf_auto := repeat wf_step.

Lemma wf_get_ref : forall f k,
  wf (k None) [] -> (forall p s, wf (k (Some (p, s))) [p]) -> wf (get_ref f k) [].
Proof. intros f k H0 H1. unfold get_ref. wf_auto; auto. Qed.

Lemma wf_new_ref : forall f k held,
  (forall e, wf (k (inl e)) held) -> (forall p, wf (k (inr p)) (p :: held)) -> wf (new_ref f k) held.
Proof. intros f k held H0 H1. unfold new_ref. wf_auto; auto. Qed.

Lemma wf_del_ref : forall f r k, (forall c, wf (k c) []) -> wf (del_ref f r k) [].
Proof. intros f r k H. unfold del_ref. wf_auto; auto. Qed.

Lemma wf_attach_rest_none : forall f, wf (attach_rest f None) [].
Proof. intro f. unfold attach_rest. apply wf_new_ref; intros; wf_auto. Qed.

Lemma wf_attach_rest_some : forall f a, wf (attach_rest f (Some a)) [a].
Proof. intros f a. unfold attach_rest. apply wf_new_ref; intros; wf_auto. Qed.

Lemma wf_stop_visit : forall f q k, wf k [] -> wf (stop_visit f q k) [].
Proof. intros f q k H. unfold stop_visit. wf_auto; auto. Qed.

Lemma wf_stop_pass : forall n visited must again next,
  (forall n' a, wf (next n' a) []) -> wf (stop_pass n visited must again next) [].
Proof.
  induction n as [|n IH]; intros visited must again next H; cbn [stop_pass wf]; intros [[f q]|]; try apply H.
  - cbn. reflexivity.
  - apply wf_stop_visit, IH, H.
Qed.

Lemma wf_stop_loop : forall passes n, wf (stop_loop passes n) [].
Proof.
  induction passes as [|passes IH]; intro n; cbn [stop_loop]; [cbn; reflexivity|].
  cbn [wf]. intro l. apply wf_stop_pass. intros n' a. destruct a; [apply IH | cbn; reflexivity].
Qed.

Lemma wf_prog_of : forall reqauth o, wf (prog_of reqauth o) [].
Proof.
  intros reqauth o. destruct o; cbn [prog_of].
  - (* Auth *) unfold prog_auth. wf_auto. apply wf_new_ref; intros; wf_auto.
  - (* Attach *) unfold prog_attach. wf_auto.
    + apply wf_attach_rest_none.
    + apply wf_get_ref; [wf_auto|]. intros p s. wf_auto. apply wf_attach_rest_some.
  - (* Walk *) unfold prog_walk. wf_auto. apply wf_get_ref; [wf_auto|]. intros p s. cbv zeta.
    destruct (nf =? f) eqn:?.
    + wf_auto.
    + apply wf_new_ref; intros; wf_auto.
  - (* Open *) unfold prog_open. apply wf_get_ref; [wf_auto|]. intros p s. wf_auto.
  - (* Create *) unfold prog_create. wf_auto. apply wf_get_ref; [wf_auto|]. intros p s. wf_auto.
  - (* Read *) unfold prog_read. apply wf_get_ref; [wf_auto|]. intros p s. wf_auto.
  - (* Write *) unfold prog_write. apply wf_get_ref; [wf_auto|]. intros p s. wf_auto.
  - (* Stat *) unfold prog_statlike. apply wf_get_ref; [wf_auto|]. intros p s. wf_auto.
  - (* WStat *) unfold prog_statlike. apply wf_get_ref; [wf_auto|]. intros p s. wf_auto.
  - (* Clunk *) unfold prog_clunk. apply wf_del_ref. intro. wf_auto.
  - (* Remove *) unfold prog_remove. apply wf_del_ref. intro. wf_auto.
  - (* Stop *) apply wf_stop_loop.
Qed.

(* ------------------------------------------------------------------ 2. the invariant *)

Definition tinv (ow : gmap N nat) (i : nat) (th : thread) : Prop :=
  wf (t_prog th) (t_held th) /\ NoDup (t_held th) /\ forall p, In p (t_held th) <-> ow !! p = Some i.

Definition inv_core (ow : gmap N nat) (np : N) (ths : list thread) : Prop :=
  (forall i th, ths !! i = Some th -> tinv ow i th) /\
  (forall p j, ow !! p = Some j -> p < np /\ (j < length ths)%nat).

Definition inv (s : state) : Prop := inv_core (owner s) (nextp s) (threads s).

Lemma In_remove_one : forall p q l, NoDup l -> (In q (remove_one p l) <-> In q l /\ q <> p).
Proof.
  intros p q l ND. induction ND as [|x l Hx ND IH]; cbn [remove_one].
  - cbn. tauto.
  - destruct (x =? p) eqn:E.
    + apply N.eqb_eq in E. subst x. cbn. split.
      * intro H. split; [right; exact H|]. intros ->. exact (Hx H).
      * intros [[H|H] Hne]; [congruence | exact H].
    + apply N.eqb_neq in E. cbn. rewrite IH. split.
      * intros [H|[H Hne]]; [subst; split; [left; reflexivity | exact E] | split; [right; exact H | exact Hne]].
      * intros [[H|H] Hne]; [left; exact H | right; split; assumption].
Qed.

Lemma NoDup_remove_one : forall p l, NoDup l -> NoDup (remove_one p l).
Proof.
  intros p l ND. induction ND as [|x l Hx ND IH]; cbn [remove_one].
  - constructor.
  - destruct (x =? p); [exact ND|]. constructor; [|exact IH].
    intro H. apply In_remove_one in H; [|exact ND]. exact (Hx (proj1 H)).
Qed.

Lemma lookup_insert_cases : forall (ths : list thread) i th' j thj,
  (i < length ths)%nat -> <[i := th']> ths !! j = Some thj ->
  (j = i /\ thj = th') \/ (j <> i /\ ths !! j = Some thj).
Proof.
  intros ths i th' j thj Hi H. destruct (decide (j = i)) as [->|Hne].
  - rewrite list_lookup_insert in H by exact Hi. left. split; congruence.
  - rewrite list_lookup_insert_ne in H by congruence. right. split; assumption.
Qed.

(* a step that touches no mutex *)
Lemma inv_same : forall ow np ths i th th',
  inv_core ow np ths -> ths !! i = Some th ->
  t_held th' = t_held th -> wf (t_prog th') (t_held th') ->
  inv_core ow np (<[i := th']> ths).
Proof.
  intros ow np ths i th th' [Ht Ho] Hi Hh Hwf.
  assert (Hlt : (i < length ths)%nat) by (eapply lookup_lt_Some; exact Hi).
  split.
  - intros j thj Hj. destruct (lookup_insert_cases _ _ _ _ _ Hlt Hj) as [[-> ->]|[Hne Hj']].
    + destruct (Ht _ _ Hi) as (_ & ND & Hiff). split; [exact Hwf|]. rewrite Hh. split; assumption.
    + exact (Ht _ _ Hj').
  - intros p j H. rewrite insert_length. exact (Ho _ _ H).
Qed.

(* thread i takes the free mutex p (Lock, or Reserve of a new SFid) *)
Lemma inv_acquire : forall ow np np' ths i th th' p,
  inv_core ow np ths -> ths !! i = Some th -> ow !! p = None ->
  np <= np' -> p < np' ->
  t_held th' = p :: t_held th -> wf (t_prog th') (t_held th') ->
  inv_core (<[p := i]> ow) np' (<[i := th']> ths).
Proof.
  intros ow np np' ths i th th' p [Ht Ho] Hi Hfree Hnp Hp Hh Hwf.
  assert (Hlt : (i < length ths)%nat) by (eapply lookup_lt_Some; exact Hi).
  split.
  - intros j thj Hj. destruct (lookup_insert_cases _ _ _ _ _ Hlt Hj) as [[-> ->]|[Hne Hj']].
    + destruct (Ht _ _ Hi) as (_ & ND & Hiff). split; [exact Hwf|]. rewrite Hh. split.
      * constructor; [|exact ND]. intro Hin. apply Hiff in Hin. congruence.
      * intro q. destruct (decide (q = p)) as [->|Hqp].
        -- rewrite lookup_insert. split; [reflexivity | intros _; left; reflexivity].
        -- rewrite lookup_insert_ne by congruence. rewrite <- Hiff. cbn. split.
           ++ intros [E|H]; [congruence | exact H].
           ++ intro H. right. exact H.
    + destruct (Ht _ _ Hj') as (W & ND & Hiff). split; [exact W|]. split; [exact ND|].
      intro q. rewrite Hiff. destruct (decide (q = p)) as [->|Hqp].
      * rewrite lookup_insert, Hfree. split; [discriminate | intro E; congruence].
      * rewrite lookup_insert_ne by congruence. reflexivity.
  - intros q j H. rewrite insert_length. destruct (decide (q = p)) as [->|Hqp].
    + rewrite lookup_insert in H. injection H as <-. split; [exact Hp | exact Hlt].
    + rewrite lookup_insert_ne in H by congruence. destruct (Ho _ _ H) as [H1 H2]. split; [lia | exact H2].
Qed.

(* thread i releases a mutex it holds *)
Lemma inv_release : forall ow np ths i th th' p,
  inv_core ow np ths -> ths !! i = Some th -> In p (t_held th) ->
  t_held th' = remove_one p (t_held th) -> wf (t_prog th') (t_held th') ->
  inv_core (delete p ow) np (<[i := th']> ths).
Proof.
  intros ow np ths i th th' p [Ht Ho] Hi Hin Hh Hwf.
  assert (Hlt : (i < length ths)%nat) by (eapply lookup_lt_Some; exact Hi).
  destruct (Ht _ _ Hi) as (_ & NDi & Hiffi).
  assert (Hown : ow !! p = Some i) by (apply Hiffi; exact Hin).
  split.
  - intros j thj Hj. destruct (lookup_insert_cases _ _ _ _ _ Hlt Hj) as [[-> ->]|[Hne Hj']].
    + split; [exact Hwf|]. rewrite Hh. split; [apply NoDup_remove_one; exact NDi|].
      intro q. rewrite In_remove_one by exact NDi. destruct (decide (q = p)) as [->|Hqp].
      * rewrite lookup_delete. split; [intros [_ H]; congruence | discriminate].
      * rewrite lookup_delete_ne by congruence. rewrite Hiffi. tauto.
    + destruct (Ht _ _ Hj') as (W & ND & Hiff). split; [exact W|]. split; [exact ND|].
      intro q. rewrite Hiff. destruct (decide (q = p)) as [->|Hqp].
      * rewrite lookup_delete, Hown. split; [intro E; congruence | discriminate].
      * rewrite lookup_delete_ne by congruence. reflexivity.
  - intros q j H. rewrite insert_length. destruct (decide (q = p)) as [->|Hqp].
    + rewrite lookup_delete in H. discriminate.
    + rewrite lookup_delete_ne in H by congruence. exact (Ho _ _ H).
Qed.

Lemma inv_init : forall reqauth ops, inv (init reqauth ops).
Proof.
  intros reqauth ops. unfold inv, init. cbn. split.
  - intros i th H. rewrite list_lookup_imap in H.
    destruct (ops !! i) as [os|]; cbn in H; [|discriminate]. injection H as <-.
    unfold tinv, mk_thread. cbn. split; [apply wf_prog_of|]. split; [constructor|].
    intro p. rewrite lookup_empty. split; [intros [] | discriminate].
  - intros p j H. rewrite lookup_empty in H. discriminate.
Qed.

Lemma inv_step : forall s i s', inv s -> step s i = Some s' -> inv s'.
Proof.
  intros s i s' I H. unfold step in H.
  destruct (threads s !! i) as [th|] eqn:Hi; [|discriminate].
  destruct (proj1 I _ _ Hi) as (W & ND & Hiff).
  destruct (t_prog th) as [r|f k|f k|f k|f k|f q k|k|vs ms k|q k|q k|q k|q g k|c k] eqn:Hp; cbn [wf] in W.
  - discriminate.
  - (* Load *) injection H as <-. unfold inv. cbn. eapply inv_same; eauto. cbn. apply W.
  - (* Reserve *) destruct (refs s !! f).
    + injection H as <-. unfold inv. cbn. eapply inv_same; eauto. cbn. apply W.
    + injection H as <-. unfold inv. cbn.
      eapply inv_acquire with (np := nextp s) (p := nextp s); eauto; cbn; try lia.
      * destruct (owner s !! nextp s) as [j|] eqn:E; [|reflexivity].
        destruct (proj2 I _ _ E). lia.
      * apply W.
  - (* LoadAndDelete *) injection H as <-. unfold inv. cbn. eapply inv_same; eauto. cbn. apply W.
  - (* Delete *) injection H as <-. unfold inv. cbn. eapply inv_same; eauto.
  - (* CompareAndDelete *) injection H as <-. unfold inv. cbn. eapply inv_same; eauto. cbn. apply W.
  - (* Snapshot *) injection H as <-. unfold inv. cbn. eapply inv_same; eauto; cbn; try apply W.
  - (* Pick *) injection H as <-. unfold inv. cbn. eapply inv_same; eauto; cbn; try apply W.
  - (* Lock *) destruct (owner s !! q) eqn:E; [discriminate|]. injection H as <-. unfold inv. cbn.
    destruct W as [Hnil W]. eapply inv_acquire with (np := nextp s); eauto; cbn; try lia.
    rewrite Hnil. exact W.
  - (* Unlock *) destruct W as [Hin W]. assert (E : owner s !! q = Some i) by (apply Hiff; exact Hin).
    rewrite E in H. injection H as <-. unfold inv. cbn. eapply inv_release; eauto.
  - (* ReadSF *) injection H as <-. unfold inv. cbn. eapply inv_same; eauto. cbn. apply W.
  - (* WriteSF *) injection H as <-. unfold inv. cbn. eapply inv_same; eauto. cbn. apply W.
  - (* Fs *) destruct (t_incall th); injection H as <-; unfold inv; cbn; eapply inv_same; eauto; cbn;
      first [apply W | rewrite Hp; cbn [wf]; exact W].
Qed.

Lemma inv_run : forall sched s, inv s -> inv (run sched s).
Proof.
  induction sched as [|i sched IH]; intros s I; cbn [run fold_left]; [exact I|].
  apply IH. unfold step_or_stay. destruct (step s i) eqn:E; [eapply inv_step; eauto | exact I].
Qed.

Lemma inv_reachable : forall reqauth ops sched, inv (run sched (init reqauth ops)).
Proof. intros. apply inv_run, inv_init. Qed.

(* ------------------------------------------------------------------ 3. consequences *)

Lemma done_holds_nothing : forall s i th p,
  inv s -> threads s !! i = Some th -> is_done th = true -> owner s !! p <> Some i.
Proof.
  intros s i th p I Hi Hd Ho. destruct (proj1 I _ _ Hi) as (W & _ & Hiff).
  unfold is_done in Hd. destruct (t_prog th); try discriminate. cbn [wf] in W.
  apply Hiff in Ho. rewrite W in Ho. exact Ho.
Qed.

Lemma in_call_holds : forall s i th p,
  inv s -> threads s !! i = Some th -> in_call_on th = Some (Some p) -> owner s !! p = Some i.
Proof.
  intros s i th p I Hi Hc. destruct (proj1 I _ _ Hi) as (W & _ & Hiff).
  unfold in_call_on in Hc. destruct (t_prog th) as [| | | | | | | | | | | |c k]; try discriminate.
  destruct (t_incall th); [|discriminate]. injection Hc as Hc. cbn [wf] in W.
  apply Hiff. apply (proj1 W). exact Hc.
Qed.

Lemma mutex : forall s i j thi thj p,
  inv s -> threads s !! i = Some thi -> threads s !! j = Some thj ->
  in_call_on thi = Some (Some p) -> in_call_on thj = Some (Some p) -> i = j.
Proof.
  intros s i j thi thj p I Hi Hj Ci Cj.
  pose proof (in_call_holds _ _ _ _ I Hi Ci) as E1.
  pose proof (in_call_holds _ _ _ _ I Hj Cj) as E2. congruence.
Qed.

Definition field_access (th : thread) : option N :=
  match t_prog th with ReadSF q _ => Some q | WriteSF q _ _ => Some q | _ => None end.

Lemma fields_locked : forall s i th q,
  inv s -> threads s !! i = Some th -> field_access th = Some q -> owner s !! q = Some i.
Proof.
  intros s i th q I Hi Hf. destruct (proj1 I _ _ Hi) as (W & _ & Hiff).
  unfold field_access in Hf. destruct (t_prog th); try discriminate; injection Hf as <-;
    cbn [wf] in W; apply Hiff; exact (proj1 W).
Qed.

Definition waits_for_lock (th : thread) : option N :=
  match t_prog th with Lock q _ => Some q | _ => None end.

Lemma enabled_unless_done_or_lock : forall s i th,
  threads s !! i = Some th -> is_done th = false -> waits_for_lock th = None -> is_Some (step s i).
Proof.
  intros s i th Hi Hd Hw. unfold step. rewrite Hi. unfold is_done, waits_for_lock in *.
  destruct (t_prog th); try discriminate; try (eexists; reflexivity).
  - destruct (refs s !! f); eexists; reflexivity.
  - destruct (owner s !! p); eexists; reflexivity.
  - destruct (t_incall th); eexists; reflexivity.
Qed.

Lemma waiting_holds_nothing : forall s i th q p,
  inv s -> threads s !! i = Some th -> waits_for_lock th = Some q -> owner s !! p <> Some i.
Proof.
  intros s i th q p I Hi Hw Ho. destruct (proj1 I _ _ Hi) as (W & _ & Hiff).
  unfold waits_for_lock in Hw. destruct (t_prog th); try discriminate. cbn [wf] in W.
  apply Hiff in Ho. rewrite (proj1 W) in Ho. exact Ho.
Qed.

Lemma progress : forall s,
  inv s -> (exists i th, threads s !! i = Some th /\ is_done th = false) ->
  exists j s', step s j = Some s'.
Proof.
  intros s I (i & th & Hi & Hd).
  destruct (waits_for_lock th) as [q|] eqn:Hw.
  2:{ destruct (enabled_unless_done_or_lock _ _ _ Hi Hd Hw) as [s' E]. exists i, s'. exact E. }
  destruct (owner s !! q) as [u|] eqn:Ho.
  2:{ exists i. unfold step. rewrite Hi. unfold waits_for_lock in Hw.
      destruct (t_prog th); try discriminate. injection Hw as ->. rewrite Ho. eexists. reflexivity. }
  (* the holder u of q is neither returned nor itself waiting: it can move *)
  destruct (proj2 I _ _ Ho) as [_ Hu]. apply lookup_lt_is_Some in Hu. destruct Hu as [thu Hu].
  assert (Hdu : is_done thu = false).
  { destruct (is_done thu) eqn:E; [|reflexivity]. exfalso. exact (done_holds_nothing _ _ _ _ I Hu E Ho). }
  assert (Hwu : waits_for_lock thu = None).
  { destruct (waits_for_lock thu) eqn:E; [|reflexivity]. exfalso. exact (waiting_holds_nothing _ _ _ _ _ I Hu E Ho). }
  destruct (enabled_unless_done_or_lock _ _ _ Hu Hdu Hwu) as [s' E]. exists u, s'. exact E.
Qed.

Lemma quiescent_unlocked : forall s p,
  inv s -> (forall i th, threads s !! i = Some th -> is_done th = true) -> owner s !! p = None.
Proof.
  intros s p I Hall. destruct (owner s !! p) as [j|] eqn:Ho; [|reflexivity]. exfalso.
  destruct (proj2 I _ _ Ho) as [_ Hj]. apply lookup_lt_is_Some in Hj. destruct Hj as [th Hj].
  exact (done_holds_nothing _ _ _ _ I Hj (Hall _ _ Hj) Ho).
Qed.

(* ------------------------------------------------------------------ 4. the predicates have teeth, the hypotheses are satisfiable *)

(* Attach as it was before fix 6e19728 (D8), reduced to its afid part: the return for File == nil comes
   before `defer aref.Unlock()` *)
Definition prog_attach_D8 (afid : N) : prog :=
  get_ref afid (fun r =>
    match r with
    | None => ret R_UNKNOWNFID 0
    | Some (ap, s) =>
        match s_file s with
        | None => ret R_UNKNOWNFID 0
        | Some _ => Unlock ap (ret R_OK 0)
        end
    end).

Lemma D8_unbalanced : ~ balanced (prog_attach_D8 1) [].
Proof.
  intro H. unfold prog_attach_D8, get_ref in H. cbn in H. specialize (H (Some 5)). cbn in H.
  destruct H as [_ H].
  specialize (H {| s_ent := Some {| e_id := 1; e_dir := true |}; s_file := None; s_mode := 0 |}).
  cbn in H. discriminate H.
Qed.

(* Create's error path as it was before fix e096cda (D9): delRef(parent) with the parent's SFid locked *)
Definition prog_create_D9 (f : N) : prog :=
  get_ref f (fun r =>
    match r with
    | None => ret R_UNKNOWNFID 0
    | Some (p, _) => del_ref f false (fun _ => Unlock p (ret R_FSERR 0))
    end).

Lemma D9_hold_and_wait : ~ wf (prog_create_D9 0) [].
Proof.
  intro H. unfold prog_create_D9, get_ref in H. cbn in H. specialize (H (Some 5)). cbn in H.
  destruct H as [_ [_ H]].
  specialize (H {| s_ent := Some {| e_id := 1; e_dir := true |}; s_file := None; s_mode := 0 |}).
  cbn in H. specialize (H (Some 5)). cbn in H. destruct H as [H _]. discriminate H.
Qed.

(* a reachable state in which one operation is inside a FileSys call on SFid 1 (holding its mutex), another
   waits for that mutex, and a third has returned: attach(0) ran to completion, stat(0) entered Dirent.Stat,
   clunk(0) looked the fid up and waits *)
Definition ex_ops : list (op * list outcome) :=
  [(OpAttach 0 NOFID, [OOk 0 true]); (OpStat 0, [OOk 0 false]); (OpClunk 0, [OOk 0 false])].
Definition ex_sched : list nat := [0; 0; 0; 0; 0; 1; 1; 1; 1; 2; 2; 2]%nat.
Definition ex_state : state := run ex_sched (init false ex_ops).

Lemma ex_state_shape :
  (exists th, threads ex_state !! 0%nat = Some th /\ is_done th = true) /\
  (exists th, threads ex_state !! 1%nat = Some th /\ in_call_on th = Some (Some 1)) /\
  (exists th, threads ex_state !! 2%nat = Some th /\ waits_for_lock th = Some 1 /\ is_done th = false) /\
  owner ex_state !! 1 = Some 1%nat.
Proof.
  split; [|split; [|split]].
  - eexists. split; [vm_compute; reflexivity | vm_compute; reflexivity].
  - eexists. split; [vm_compute; reflexivity | vm_compute; reflexivity].
  - eexists. split; [vm_compute; reflexivity | split; vm_compute; reflexivity].
  - vm_compute. reflexivity.
Qed.

(* ------------------------------------------------------------------ 5. every operation can be driven to its return *)

(* no path of the program is longer than n actions *)
Fixpoint depth_le (p : prog) (n : nat) : Prop :=
  match p with
  | Ret _ => True
  | Load _ k => match n with O => False | S m => forall o, depth_le (k o) m end
  | Reserve _ k => match n with O => False | S m => forall o, depth_le (k o) m end
  | LoadAndDelete _ k => match n with O => False | S m => forall o, depth_le (k o) m end
  | Delete _ k => match n with O => False | S m => depth_le k m end
  | CompareAndDelete _ _ k => match n with O => False | S m => forall b, depth_le (k b) m end
  | Snapshot k => match n with O => False | S m => forall l, depth_le (k l) m end
  | Pick _ _ k => match n with O => False | S m => forall o, depth_le (k o) m end
  | Lock _ k => match n with O => False | S m => depth_le k m end
  | Unlock _ k => match n with O => False | S m => depth_le k m end
  | ReadSF _ k => match n with O => False | S m => forall s, depth_le (k s) m end
  | WriteSF _ _ k => match n with O => False | S m => depth_le k m end
  | Fs _ k => match n with O => False | S m => forall r, depth_le (k r) m end
  end.

Lemma depth_le_mono : forall p n m, depth_le p n -> (n <= m)%nat -> depth_le p m.
Proof.
  induction p as [r|f k IH|f k IH|f k IH|f k IH|f q k IH|k IH|vs ms k IH|q k IH|q k IH|q k IH|q g k IH|c k IH];
    intros n m H Hle; cbn [depth_le] in *; try exact I;
    (destruct n as [|n]; [destruct H|]); (destruct m as [|m]; [lia|]);
    try (intros; eapply IH; [apply H | lia]).
Qed.

(* the client's operations: at most 16 actions on any path *)
Ltac d_step :=
  match goal with
  | |- True => exact I
  | |- forall _, _ => intro
  | |- depth_le (let _ := _ in _) _ => cbv zeta
  | |- depth_le _ _ => progress cbn [depth_le ret unlock_opt]
  | |- depth_le (if ?b then _ else _) _ => destruct b
  | |- depth_le (match ?x with _ => _ end) _ => destruct x
  end.

Lemma depth_client_op : forall reqauth o, o <> OpStop -> depth_le (prog_of reqauth o) 16.
Proof.
  intros reqauth o Hns.
  destruct o; [| | | | | | | | | | |congruence]; cbn [prog_of];
    unfold prog_auth, prog_attach, prog_walk, prog_open, prog_create, prog_read, prog_write, prog_statlike,
           prog_clunk, prog_remove, attach_rest, get_ref, new_ref, del_ref;
    repeat d_step.
Qed.

(* Stop: two actions per pass (the Snapshot, the Pick that ends it) and at most 8 per callback *)
Lemma depth_stop_pass : forall n visited must again next D,
  (forall n' a, (n' <= n)%nat -> depth_le (next n' a) (D + 8 * n')) ->
  depth_le (stop_pass n visited must again next) (S (D + 8 * n)).
Proof.
  induction n as [|n IH]; intros visited must again next D H; cbn [stop_pass depth_le]; intros [[f q]|].
  - cbn. exact I.
  - apply H. lia.
  - replace (D + 8 * S n)%nat with (S (S (S (S (S (S (S (S (D + 8 * n))))))))) by lia.
    unfold stop_visit. cbn [depth_le]. intros _ s. destruct (s_ent s); cbn [depth_le].
    + intros _. eapply depth_le_mono; [apply IH; intros; apply H; lia | lia].
    + eapply depth_le_mono; [apply IH; intros; apply H; lia | lia].
  - eapply depth_le_mono; [apply H; lia | lia].
Qed.

Lemma depth_stop_loop : forall passes n, depth_le (stop_loop passes n) (2 * passes + 8 * n).
Proof.
  induction passes as [|passes IH]; intro n; cbn [stop_loop]; [cbn; exact I|].
  replace (2 * S passes + 8 * n)%nat with (S (S (2 * passes + 8 * n))) by lia. cbn [depth_le]. intro l.
  apply depth_stop_pass. intros n' a Hle. destruct a; [apply IH | cbn; exact I].
Qed.

Definition DEPTH : nat := 2 * S STOP_FUEL + 8 * STOP_FUEL.

Lemma depth_prog_of : forall reqauth o, depth_le (prog_of reqauth o) DEPTH.
Proof.
  intros reqauth o. destruct (match o with OpStop => true | _ => false end) eqn:E.
  - destruct o; try discriminate. cbn [prog_of]. unfold prog_stop, DEPTH. apply depth_stop_loop.
  - eapply depth_le_mono; [apply depth_client_op; intros ->; discriminate|].
    unfold DEPTH, STOP_FUEL. lia.
Qed.

(* weight of a thread: twice the remaining depth, plus one while it is not inside a FileSys call
   (entering a call keeps the program and clears that one) *)
Definition wt_ok (th : thread) (w : nat) : Prop :=
  exists n, depth_le (t_prog th) n /\ w = (2 * n + (if t_incall th then 0 else 1))%nat.

Definition total_ok (s : state) (W : nat) : Prop :=
  exists ws, Forall2 wt_ok (threads s) ws /\ (sum_list ws <= W)%nat.

Lemma step_thread_weight : forall s j s' th w,
  threads s !! j = Some th -> wt_ok th w -> step s j = Some s' ->
  exists th' w', threads s' = <[j := th']> (threads s) /\ wt_ok th' w' /\ (w' < w)%nat.
Proof.
  intros s j s' th w Hj (n & Hd & ->) H. unfold step in H. rewrite Hj in H.
  destruct (t_prog th) as [r|f k|f k|f k|f k|f q k|k|vs ms k|q k|q k|q k|q g k|c k] eqn:Hp.
  - discriminate.
  - destruct n as [|m]; [destruct Hd|]. cbn [depth_le] in Hd. injection H as <-. cbn.
    eexists _, _. split; [reflexivity|]. split; [exists m; split; [apply Hd | reflexivity]|]. cbn. destruct (t_incall th); lia.
  - destruct n as [|m]; [destruct Hd|]. cbn [depth_le] in Hd. destruct (refs s !! f); injection H as <-; cbn;
      (eexists _, _; split; [reflexivity|]; split; [exists m; split; [apply Hd | reflexivity]|]; cbn; destruct (t_incall th); lia).
  - destruct n as [|m]; [destruct Hd|]. cbn [depth_le] in Hd. injection H as <-. cbn.
    eexists _, _. split; [reflexivity|]. split; [exists m; split; [apply Hd | reflexivity]|]. cbn. destruct (t_incall th); lia.
  - destruct n as [|m]; [destruct Hd|]. cbn [depth_le] in Hd. injection H as <-. cbn.
    eexists _, _. split; [reflexivity|]. split; [exists m; split; [apply Hd | reflexivity]|]. cbn. destruct (t_incall th); lia.
  - destruct n as [|m]; [destruct Hd|]. cbn [depth_le] in Hd. injection H as <-. cbn.
    eexists _, _. split; [reflexivity|]. split; [exists m; split; [apply Hd | reflexivity]|]. cbn. destruct (t_incall th); lia.
  - destruct n as [|m]; [destruct Hd|]. cbn [depth_le] in Hd. injection H as <-. cbn.
    eexists _, _. split; [reflexivity|]. split; [exists m; split; [apply Hd | reflexivity]|]. cbn. destruct (t_incall th); lia.
  - destruct n as [|m]; [destruct Hd|]. cbn [depth_le] in Hd. injection H as <-. cbn.
    eexists _, _. split; [reflexivity|]. split; [exists m; split; [apply Hd | reflexivity]|]. cbn. destruct (t_incall th); lia.
  - destruct n as [|m]; [destruct Hd|]. cbn [depth_le] in Hd. destruct (owner s !! q); [discriminate|]. injection H as <-. cbn.
    eexists _, _. split; [reflexivity|]. split; [exists m; split; [apply Hd | reflexivity]|]. cbn. destruct (t_incall th); lia.
  - destruct n as [|m]; [destruct Hd|]. cbn [depth_le] in Hd. destruct (owner s !! q); injection H as <-; cbn.
    + eexists _, _. split; [reflexivity|]. split; [exists m; split; [apply Hd | reflexivity]|]. cbn. destruct (t_incall th); lia.
    + eexists _, _. split; [reflexivity|]. split; [exists O; split; [exact I | reflexivity]|]. cbn. destruct (t_incall th); lia.
  - destruct n as [|m]; [destruct Hd|]. cbn [depth_le] in Hd. injection H as <-. cbn.
    eexists _, _. split; [reflexivity|]. split; [exists m; split; [apply Hd | reflexivity]|]. cbn. destruct (t_incall th); lia.
  - destruct n as [|m]; [destruct Hd|]. cbn [depth_le] in Hd. injection H as <-. cbn.
    eexists _, _. split; [reflexivity|]. split; [exists m; split; [apply Hd | reflexivity]|]. cbn. destruct (t_incall th); lia.
  - destruct n as [|m]; [destruct Hd|]. destruct (t_incall th) eqn:Hc; injection H as <-; cbn.
    + cbn [depth_le] in Hd. eexists _, _. split; [reflexivity|]. split; [exists m; split; [apply Hd | reflexivity]|]. cbn. lia.
    + eexists _, _. split; [reflexivity|]. split; [exists (S m); split; [cbn [t_prog]; first [exact Hd | rewrite Hp; exact Hd] | reflexivity]|]. cbn. lia.
Qed.

Lemma sum_list_insert_lt : forall (ws : list nat) j w w',
  ws !! j = Some w -> (w' < w)%nat -> (sum_list (<[j := w']> ws) < sum_list ws)%nat.
Proof.
  induction ws as [|x ws IH]; intros j w w' Hj Hlt; [rewrite lookup_nil in Hj; discriminate|].
  destruct j as [|j].
  - cbn in Hj. injection Hj as ->. change (<[0%nat := w']> (w :: ws)) with (w' :: ws). simpl. lia.
  - cbn in Hj. change (<[S j := w']> (x :: ws)) with (x :: <[j := w']> ws). simpl.
    specialize (IH _ _ _ Hj Hlt). lia.
Qed.

Lemma step_total : forall s j s' W,
  total_ok s W -> step s j = Some s' -> exists W', (W' < W)%nat /\ total_ok s' W'.
Proof.
  intros s j s' W (ws & HF & Hs) H.
  assert (Hj : exists th, threads s !! j = Some th).
  { unfold step in H. destruct (threads s !! j) as [th|]; [exists th; reflexivity | discriminate]. }
  destruct Hj as [th Hj].
  destruct (Forall2_lookup_l _ _ _ _ _ HF Hj) as (w & Hw & Hok).
  destruct (step_thread_weight _ _ _ _ _ Hj Hok H) as (th' & w' & Ht & Hok' & Hlt).
  exists (sum_list (<[j := w']> ws)). split.
  - pose proof (sum_list_insert_lt _ _ _ _ Hw Hlt). lia.
  - exists (<[j := w']> ws). split; [|lia]. rewrite Ht. apply Forall2_insert; assumption.
Qed.

Definition all_done (s : state) : Prop := forall i th, threads s !! i = Some th -> is_done th = true.

Lemma not_all_done : forall s, forallb is_done (threads s) = false ->
  exists i th, threads s !! i = Some th /\ is_done th = false.
Proof.
  intros s H. induction (threads s) as [|x l IH]; [discriminate|]. cbn in H.
  destruct (is_done x) eqn:E.
  - cbn in H. destruct (IH H) as (i & th & Hi & Hd). exists (S i), th. split; assumption.
  - exists O, x. split; [reflexivity | exact E].
Qed.

Lemma completion_from : forall W s, inv s -> total_ok s W -> exists sched, all_done (run sched s).
Proof.
  induction W as [W IH] using lt_wf_ind. intros s I T.
  destruct (forallb is_done (threads s)) eqn:E.
  - exists []. cbn. intros i th Hi. rewrite forallb_forall in E. apply E.
    apply elem_of_list_In. eapply elem_of_list_lookup_2. exact Hi.
  - destruct (progress s I (not_all_done s E)) as (j & s' & Hs).
    destruct (step_total _ _ _ _ T Hs) as (W' & Hlt & T').
    destruct (IH W' Hlt s' (inv_step _ _ _ I Hs) T') as [sched Hd].
    exists (j :: sched). cbn [run fold_left]. unfold step_or_stay. rewrite Hs. exact Hd.
Qed.

Lemma total_run : forall sched s W, total_ok s W -> total_ok (run sched s) W.
Proof.
  induction sched as [|j sched IH]; intros s W T; cbn [run fold_left]; [exact T|].
  apply IH. unfold step_or_stay. destruct (step s j) as [s'|] eqn:E; [|exact T].
  destruct (step_total _ _ _ _ T E) as (W' & Hlt & ws & HF & Hs). exists ws. split; [exact HF | lia].
Qed.

Lemma total_init : forall reqauth ops, total_ok (init reqauth ops) ((2 * DEPTH + 1) * length ops).
Proof.
  intros reqauth ops. exists (map (fun _ => (2 * DEPTH + 1)%nat) ops). split.
  - unfold init. cbn [threads]. apply Forall2_same_length_lookup_2.
    + rewrite imap_length, map_length. reflexivity.
    + intros i th w Hi Hw. rewrite list_lookup_imap in Hi. rewrite list_lookup_fmap in Hw.
      destruct (ops !! i) as [os|]; cbn in Hi, Hw; [|discriminate]. injection Hi as <-. injection Hw as <-.
      exists DEPTH. split; [apply depth_prog_of | reflexivity].
  - remember (2 * DEPTH + 1)%nat as c. clear Heqc.
    induction ops as [|x l IH]; simpl; [lia|]. simpl in IH. rewrite Nat.mul_succ_r. lia.
Qed.

(* from EVERY reachable state the scheduler can drive every operation to its return *)
Lemma completion : forall reqauth ops sched,
  exists sched', all_done (run sched' (run sched (init reqauth ops))).
Proof.
  intros reqauth ops sched. eapply completion_from.
  - apply inv_reachable.
  - apply total_run, total_init.
Qed.

(* and no schedule, however long, makes more than (2*DEPTH+1) steps per operation *)
Fixpoint effective (sched : list nat) (s : state) : nat :=
  match sched with
  | [] => O
  | j :: r => match step s j with Some s' => S (effective r s') | None => effective r s end
  end.

Lemma effective_bound : forall sched s W, total_ok s W -> (effective sched s <= W)%nat.
Proof.
  induction sched as [|j sched IH]; intros s W T; cbn [effective]; [lia|].
  destruct (step s j) as [s'|] eqn:E; [|apply IH, T].
  destruct (step_total _ _ _ _ T E) as (W' & Hlt & T'). specialize (IH _ _ T'). lia.
Qed.

(* ------------------------------------------------------------------ 6. run alone, an operation returns *)

(* the state [seq_op] starts an operation in: the session as it is, no other operation *)
Definition alone (reqauth : bool) (s : state) (h : hop) : state :=
  {| refs := refs s; heap := heap s; owner := owner s; nextp := nextp s;
     threads := [mk_thread reqauth (h_id h) (h_op h, h_script h)] |}.

Lemma inv_alone : forall reqauth s h, owner s = ∅ -> inv (alone reqauth s h).
Proof.
  intros reqauth s h Ho. unfold inv, alone. cbn. rewrite Ho. split.
  - intros i th Hi. destruct i as [|i]; cbn in Hi; [|try rewrite lookup_nil in Hi; discriminate].
    injection Hi as <-. unfold tinv, mk_thread. cbn. split; [apply wf_prog_of|]. split; [constructor|].
    intro p. rewrite lookup_empty. split; [intros [] | discriminate].
  - intros p j H. rewrite lookup_empty in H. discriminate.
Qed.

Lemma total_alone : forall reqauth s h, total_ok (alone reqauth s h) (2 * DEPTH + 1).
Proof.
  intros. exists [(2 * DEPTH + 1)%nat]. split; [|simpl; lia].
  unfold alone. cbn [threads]. constructor; [|constructor].
  exists DEPTH. split; [apply depth_prog_of | reflexivity].
Qed.

Lemma run_alone_done : forall fuel s W th0,
  inv s -> total_ok s W -> (W < fuel)%nat -> threads s = [th0] ->
  exists th, threads (run_alone fuel s 0) = [th] /\ is_done th = true /\ inv (run_alone fuel s 0).
Proof.
  induction fuel as [|fuel IH]; intros s W th0 I T Hlt Hth; [lia|]. cbn [run_alone].
  destruct (step s 0) as [s'|] eqn:E.
  - destruct (step_total _ _ _ _ T E) as (W' & HW & T').
    assert (Hth' : exists th1, threads s' = [th1]).
    { assert (Hj : threads s !! 0%nat = Some th0) by (rewrite Hth; reflexivity).
      destruct T as (ws & HF & _). destruct (Forall2_lookup_l _ _ _ _ _ HF Hj) as (w & _ & Hok).
      destruct (step_thread_weight _ _ _ _ _ Hj Hok E) as (th' & _ & Ht & _). rewrite Ht, Hth. eexists. reflexivity. }
    destruct Hth' as [th1 Hth1].
    apply (IH s' W' th1 (inv_step _ _ _ I E) T'); [lia | exact Hth1].
  - (* thread 0 cannot move: it has returned, for otherwise [progress] finds a mover, and there is no one else *)
    exists th0. split; [exact Hth|]. split; [|exact I].
    destruct (is_done th0) eqn:Hd; [reflexivity|]. exfalso.
    destruct (progress s I) as (j & s' & Hs).
    { exists 0%nat, th0. split; [rewrite Hth; reflexivity | exact Hd]. }
    destruct j as [|j]; [congruence|].
    unfold step in Hs. rewrite Hth in Hs. cbn in Hs. try rewrite lookup_nil in Hs. discriminate.
Qed.

(* between operations no mutex is held; from such a state every operation, run alone, returns - the
   sequential semantics [seq_op] used by [lin_check] is total - and leaves every mutex free again *)
Lemma seq_op_returns : forall reqauth s h,
  owner s = ∅ ->
  exists r cs, snd (seq_op reqauth s h) = Some (r, cs) /\ owner (fst (seq_op reqauth s h)) = ∅.
Proof.
  intros reqauth s h Ho. unfold seq_op. fold (alone reqauth s h).
  destruct (run_alone_done seq_fuel (alone reqauth s h) (2 * DEPTH + 1)
              (mk_thread reqauth (h_id h) (h_op h, h_script h))
              (inv_alone reqauth s h Ho) (total_alone reqauth s h)) as (th & Hth & Hd & I).
  { unfold seq_fuel, DEPTH, STOP_FUEL. lia. }
  { reflexivity. }
  cbn [fst snd]. rewrite Hth. cbn. unfold is_done in Hd. unfold result_of.
  destruct (t_prog th) as [r| | | | | | | | | | | |] eqn:Hp; try discriminate.
  exists r, (rev (t_calls th)). split; [reflexivity|].
  apply map_eq. intro p. rewrite lookup_empty.
  apply (quiescent_unlocked _ p I). intros i th' Hi. rewrite Hth in Hi.
  destruct i as [|i]; cbn in Hi; [|try rewrite lookup_nil in Hi; discriminate]. injection Hi as <-.
  unfold is_done. rewrite Hp. reflexivity.
Qed.
