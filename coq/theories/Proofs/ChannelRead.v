(* Lemmas about Model/Channel.v: inbound framing (C03). *)
From Coq Require Import List NArith ZArith Lia Bool.
From Coq Require Import ZifyBool ZifyNat ZifyN.
From P9 Require Import Base.Res Base.Bytes Model.WireTypes Model.Spec9P Model.Wire Model.Channel
  Proofs.BytesProofs Proofs.WireProofs Proofs.WireDecode Proofs.ChannelProofs.
Import ListNotations.
Open Scope N_scope.

Arguments N.mul : simpl never.
Arguments N.add : simpl never.
Arguments N.sub : simpl never.
Arguments N.pow : simpl never.
Arguments N.modulo : simpl never.
Arguments N.ltb : simpl never.
Arguments N.leb : simpl never.
Arguments N.eqb : simpl never.
Arguments N.min : simpl never.
Arguments le : simpl never.

(* the outcome of one frame, as a function of the frame's own size field, body and msize only *)
Definition classify (msize : N) (L : N) (body : bytes) : read_out :=
  if msize <? L then ROverflow (L - msize)
  else match dec_fcall body with
       | Ok f => match maybe_truncate msize f with
                 | TOk f' => RMsg f'
                 | TOverflow k => ROverflow k
                 end
       | Err e => RErr e
       | Panic | Hang => RPanic
       end.

Definition frame_bytes (L : N) (body : bytes) : bytes := le 4 L ++ body.

Lemma rd4_le L rest : L < M32 -> rd 4 (le 4 L ++ rest) = Ok (le 4 L, rest).
Proof. intros _. apply rd_app'. rewrite len_le. reflexivity. Qed.

Lemma unle_le4 L : L < M32 -> unle (le 4 L) = L.
Proof. intros H. apply unle_le_small. exact H. Qed.

Lemma take_fill buf body : take (len body) (fill buf body) = body.
Proof. unfold fill. apply take_app_len. Qed.

(* one well-framed frame: consumed exactly, outcome = classify, whatever the buffer held *)
Theorem read_one_frame msize buf L body rest :
  4 <= L -> L < M32 -> len body = L - 4 ->
  exists buf', read_fcall msize buf (frame_bytes L body ++ rest) = (classify msize L body, buf', rest).
Proof.
  intros H4 HM Hb. unfold read_fcall, frame_bytes. rewrite <- app_assoc.
  rewrite rd4_le by exact HM. rewrite unle_le4 by exact HM.
  destruct (N.ltb_spec L 4) as [Hlt|_]; [lia|].
  unfold classify.
  destruct (N.le_gt_cases (L - 4) msize) as [Hfit|Hbig].
  - (* the body fits the buffer *)
    rewrite N.min_l by exact Hfit.
    rewrite rd_app' by exact Hb.
    destruct (N.ltb_spec msize (L - 4)) as [Hx|_]; [lia|].
    destruct (N.ltb_spec msize L) as [Hov|Hok].
    + eexists. reflexivity.
    + rewrite <- Hb, take_fill.
      destruct (dec_fcall body) as [f|e| |]; [destruct (maybe_truncate msize f)| | |]; eexists; reflexivity.
  - (* oversize: msize bytes land in the buffer, the rest is discarded *)
    rewrite N.min_r by lia.
    assert (Hsplit : body ++ rest = take msize body ++ (drop msize body ++ rest)).
    { rewrite app_assoc, take_drop. reflexivity. }
    rewrite Hsplit. rewrite rd_app' by (apply len_take; lia).
    destruct (N.ltb_spec msize (L - 4)) as [_|Hx]; [|lia].
    rewrite rd_app' by (rewrite len_drop; lia).
    destruct (N.ltb_spec msize L) as [_|Hx]; [|lia].
    eexists. reflexivity.
Qed.

(* a size field below 4: an error, and only the four header bytes are consumed *)
Theorem read_bad_size msize buf L rest : L < 4 ->
  read_fcall msize buf (le 4 L ++ rest) = (RErr E_BADSIZE, buf, rest).
Proof.
  intros H. unfold read_fcall. rewrite rd4_le by (rewrite M32_val; lia). rewrite unle_le4 by (rewrite M32_val; lia).
  destruct (N.ltb_spec L 4); [reflexivity|lia].
Qed.

(* isolation: outcome and remaining stream never depend on what the reused buffer held *)
Theorem read_isolated msize b1 b2 s :
  fst (fst (read_fcall msize b1 s)) = fst (fst (read_fcall msize b2 s)) /\
  snd (read_fcall msize b1 s) = snd (read_fcall msize b2 s).
Proof.
  unfold read_fcall.
  destruct (rd 4 s) as [[hdr s1]| | |]; cbn [fst snd]; try (split; reflexivity).
  destruct (unle hdr <? 4); cbn [fst snd]; [split; reflexivity|].
  set (L := unle hdr). set (want := N.min (L - 4) msize).
  destruct (rd want s1) as [[body s2]| | |] eqn:E; cbn [fst snd]; try (split; reflexivity).
  apply rd_inv in E as [_ Hlb].
  destruct (msize <? L - 4) eqn:E1.
  - destruct (rd (L - 4 - msize) s2) as [[x s3]| | |]; cbn [fst snd]; split; reflexivity.
  - destruct (msize <? L); cbn [fst snd]; [split; reflexivity|].
    apply N.ltb_ge in E1.
    assert (Hw : want = L - 4) by (unfold want; apply N.min_l; exact E1).
    rewrite <- Hw, <- Hlb, !take_fill.
    destruct (dec_fcall body) as [f|e| |]; [destruct (maybe_truncate msize f)| | |]; cbn [fst snd]; split; reflexivity.
Qed.

(* no byte stream makes the reader panic *)
Theorem read_no_panic msize buf s : fst (fst (read_fcall msize buf s)) <> RPanic.
Proof.
  unfold read_fcall.
  pose proof (calm_rd 4 s) as C1.
  destruct (rd 4 s) as [[hdr s1]| | |]; cbn [fst snd calm] in *; try discriminate; try contradiction.
  destruct (unle hdr <? 4); cbn [fst snd]; [discriminate|].
  set (L := unle hdr).
  pose proof (calm_rd (N.min (L - 4) msize) s1) as C2.
  destruct (rd (N.min (L - 4) msize) s1) as [[body s2]| | |]; cbn [fst snd calm] in *; try discriminate; try contradiction.
  destruct (msize <? L - 4).
  - destruct (rd (L - 4 - msize) s2) as [[x s3]| | |]; cbn [fst snd]; discriminate.
  - destruct (msize <? L); cbn [fst snd]; [discriminate|].
    pose proof (calm_dec_fcall (take (L - 4) (fill buf body))) as C3.
    destruct (dec_fcall _) as [f|e| |]; cbn [calm] in C3; try contradiction.
    + destruct (maybe_truncate msize f); cbn [fst snd]; discriminate.
    + cbn [fst snd]. discriminate.
Qed.

(* resynchronisation: reading a concatenation of well-framed frames yields their outcomes in order,
   whatever each frame is (valid, oversize, undecodable) *)
Definition well_framed (fr : N * bytes) : Prop := 4 <= fst fr /\ fst fr < M32 /\ len (snd fr) = fst fr - 4.

Theorem read_frames msize frames : forall buf tail, Forall well_framed frames ->
  read_many (length frames) msize buf (concat (map (fun fr => frame_bytes (fst fr) (snd fr)) frames) ++ tail)
  = map (fun fr => classify msize (fst fr) (snd fr)) frames.
Proof.
  induction frames as [|[L body] frames IH]; intros buf tail Hf; [reflexivity|].
  inversion Hf as [|? ? Hw Hrest]; subst. destruct Hw as (H4 & HM & Hb). cbn [fst snd] in *.
  cbn [length map concat fst snd]. rewrite <- app_assoc.
  destruct (read_one_frame msize buf L body (concat (map (fun fr => frame_bytes (fst fr) (snd fr)) frames) ++ tail) H4 HM Hb) as (buf' & E).
  cbn [read_many]. rewrite E.
  rewrite IH by exact Hrest. reflexivity.
Qed.

(* a frame of exactly msize bytes is accepted *)
Theorem read_exact_fit msize body f : len body + 4 = msize -> msize < M32 -> dec_fcall body = Ok f ->
  classify msize msize body = match maybe_truncate msize f with TOk f' => RMsg f' | TOverflow k => ROverflow k end.
Proof.
  intros Hl HM Hd. unfold classify. rewrite N.ltb_irrefl, Hd. reflexivity.
Qed.

(* receipt of a read request lowers its count so that its reply fits *)
Theorem read_tread_clamped msize L body f : 24 <= msize -> msize < M32 -> L <= msize ->
  dec_fcall body = Ok f -> wf_fcall f = true -> fc_type f = T_Tread ->
  exists fid off c c',
    fc_fields f = [VF (FInt 4 fid); VF (FInt 8 off); VF (FInt 4 c)] /\
    classify msize L body = RMsg {| fc_type := T_Tread; fc_tag := fc_tag f; fc_fields := [VF (FInt 4 fid); VF (FInt 8 off); VF (FInt 4 c')] |} /\
    c' <= c /\ 11 + c' <= msize /\ (11 + c <= msize -> c' = c).
Proof.
  intros H24 HM HL Hd Hw Ht.
  destruct (mt_tread msize f Hw Ht H24 HM) as (fid & off & c & c' & Hf & Hmt & H1 & H2 & H3 & _).
  exists fid, off, c, c'. split; [exact Hf|]. split; [|auto].
  unfold classify. destruct (N.ltb_spec msize L); [lia|]. rewrite Hd, Hmt. reflexivity.
Qed.

(* a frame within msize whose body decodes is delivered as a message: the re-check on receipt can
   never turn it into an overflow, because re-encoding a decoded message is no longer than the body *)
Theorem read_valid_is_msg msize L body f : 24 <= msize -> msize < M32 - 12 -> L <= msize -> len body + 4 = L -> allb body ->
  dec_fcall body = Ok f -> exists f', classify msize L body = RMsg f'.
Proof.
  intros H24 HM HL Hlb Hall Hd. rewrite M32_val in HM.
  assert (HM' : msize < M32) by (rewrite M32_val; lia).
  assert (Hw : wf_fcall f = true).
  { eapply dec_fcall_wf; [exact Hall| |exact Hd]. rewrite M32_val. lia. }
  pose proof (dec_fcall_len body f Hall Hd) as Hle.
  unfold classify. destruct (N.ltb_spec msize L); [lia|]. rewrite Hd.
  destruct (N.eq_dec (fc_type f) T_Tread) as [Ht|Hnt].
  - destruct (mt_tread msize f Hw Ht H24 HM') as (? & ? & ? & ? & _ & -> & _). eexists; reflexivity.
  - destruct (N.eq_dec (fc_type f) T_Twrite) as [Htw|Hntw].
    + destruct (mt_twrite msize f Hw Htw H24) as (? & ? & ? & _ & ->). eexists; reflexivity.
    + rewrite (mt_other msize f Hw Hnt Hntw).
      destruct (N.ltb_spec msize (4 + len (enc_fcall f))); [lia|]. eexists; reflexivity.
Qed.
