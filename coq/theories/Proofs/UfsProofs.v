(* Lemmas about Model/Ufs.v that hold for EVERY host and every translation
   layer: the session/ufs operations preserve "every FileRef.Path satisfies
   Pinv, every path handed to the host satisfies Hinv" as soon as the layer's
   fullPath only lets such paths through.  Instantiated for the Go layer in
   UfsProofsPath.v. *)
From Coq Require Import List NArith ZArith Bool Lia.
From P9 Require Import Base.Res Model.Path Model.HostFS Model.Ufs Gen.GenConsts.
Import ListNotations.
Open Scope N_scope.

Section Generic.
  Context {H P : Type}.
  Variable hc : H -> hcall -> H * hresult.
  Variable A : ualg P.

  Notation ust := (ust H P).
  Notation sfid := (sfid P).
  Notation fref := (fref P).

  Lemma call_spec (s s1 : ust) c r : call hc s c = (s1, r) ->
    u_fids s1 = u_fids s /\ u_log s1 = c :: u_log s /\ u_stuck s1 = u_stuck s /\ (u_host s1, r) = hc (u_host s) c.
  Proof.
    unfold call. destruct (hc (u_host s) c) as [h r0]. intros E. inversion E; subst. simpl. auto.
  Qed.

  (* ---- session filters: rejected names change nothing (no host call, no fid) ---- *)

  Lemma walk_filter s fid newfid names :
    ua_names_ok A names = false -> step hc A s (OpWalk fid newfid names) = (s, if u_stuck s then ObHang else ObErr).
  Proof. intros E. unfold step, do_walk. rewrite E. destruct (u_stuck s); reflexivity. Qed.

  Lemma create_filter s fid name perm mode :
    ua_create_ok A name = false -> step hc A s (OpCreate fid name perm mode) = (s, if u_stuck s then ObHang else ObErr).
  Proof. intros E. unfold step, do_create. rewrite E. destruct (u_stuck s); reflexivity. Qed.

  Lemma create_name_filter s fid name perm mode :
    (forall p, exists e, ua_create A p name = Err e) ->
    fst (step hc A s (OpCreate fid name perm mode)) = s.
  Proof.
    intros E. unfold step, do_create. destruct (u_stuck s); [reflexivity|].
    destruct (ua_create_ok A name); [|reflexivity]. simpl.
    destruct (get_ref s fid) as [r|]; [|reflexivity].
    destruct (is_dir (sf_ent r)); [|reflexivity]. simpl.
    destruct (E (fr_path (sf_ent r))) as [e ->]. reflexivity.
  Qed.

  (* ---- Remove on the root: refused; the only host call it can make is closing the fid's own file ---- *)

  Lemma remove_root s fid r :
    u_stuck s = false -> fid_get fid (u_fids s) = Some r -> ua_is_root A (fr_path (sf_ent r)) = true ->
    snd (step hc A s (OpRemove fid)) = ObErr /\
    (forall c, In c (u_log (fst (step hc A s (OpRemove fid)))) -> In c (u_log s) \/ exists fd, c = HClose fd).
  Proof.
    intros Hs Eg Er. unfold step. rewrite Hs. unfold do_remove. rewrite Eg.
    unfold ent_clunk. destruct (fr_fd (sf_ent r)) as [fd|].
    - destruct (call hc s (HClose fd)) as [s1 res] eqn:Ec.
      destruct (call_spec _ _ _ _ Ec) as (_ & E2 & _). rewrite Er. simpl. split; [reflexivity|].
      intros c Hc. rewrite E2 in Hc. destruct Hc as [<-|Hc]; [right; eauto|left; exact Hc].
    - rewrite Er. simpl. split; [reflexivity|]. intros c Hc; left; exact Hc.
  Qed.

  (* ---- the invariant: internal paths and host paths ---- *)

  Variable Pinv : P -> Prop.          (* what every FileRef.Path satisfies *)
  Variable Hinv : bstr -> Prop.       (* what every path handed to the host satisfies *)
  Hypothesis full_ok : forall q hp, ua_fullpath A q = Some hp -> Pinv q /\ Hinv hp.
  Hypothesis host_ok : forall q, Pinv q -> Hinv (ua_hostpath A q).
  Hypothesis walk_total : forall q ns, Pinv q -> ua_walk A q ns <> Panic /\ ua_walk A q ns <> Hang.
  Hypothesis create_total : forall q n, Pinv q -> ua_create A q n <> Panic /\ ua_create A q n <> Hang.

  Definition fid_ok (e : N * sfid) : Prop := Pinv (fr_path (sf_ent (snd e))).
  Definition call_ok (c : hcall) : Prop := Forall Hinv (hcall_paths c).
  Definition inv (s : ust) : Prop :=
    Forall fid_ok (u_fids s) /\ Forall call_ok (u_log s) /\ u_stuck s = false.

  Lemma call_inv s c s1 r : inv s -> call_ok c -> call hc s c = (s1, r) -> inv s1.
  Proof.
    intros (Hf & Hl & Hs) Hc E. destruct (call_spec _ _ _ _ E) as (E1 & E2 & E3 & _).
    unfold inv. rewrite E1, E2, E3. repeat split; auto.
  Qed.

  Lemma call_nopath_inv s c s1 r : inv s -> hcall_paths c = [] -> call hc s c = (s1, r) -> inv s1.
  Proof. intros Hi Hp. apply call_inv; auto. unfold call_ok. rewrite Hp. constructor. Qed.

  Lemma call1_ok c p : hcall_paths c = [p] -> Hinv p -> call_ok c.
  Proof. intros E Hp. unfold call_ok. rewrite E. constructor; auto. Qed.

  Lemma fid_del_ok fid t : Forall fid_ok t -> Forall fid_ok (fid_del (P:=P) fid t).
  Proof.
    induction t as [|[k v] t IH]; intros Hf; simpl; [constructor|].
    inversion Hf; subst. destruct (fid =? k); auto.
  Qed.

  Lemma fid_set_ok fid v t : Forall fid_ok t -> Pinv (fr_path (sf_ent v)) -> Forall fid_ok (fid_set fid v t).
  Proof. intros Hf Hv. unfold fid_set. constructor; [exact Hv|apply fid_del_ok; exact Hf]. Qed.

  Lemma nassoc_in {X} fid (t : list (N * X)) r : nassoc fid t = Some r -> In (fid, r) t.
  Proof.
    induction t as [|[k v] t IH]; simpl; [discriminate|].
    destruct (N.eqb_spec fid k) as [->|Hn].
    - intros E; inversion E; subst. left; reflexivity.
    - intros E. right. auto.
  Qed.

  Lemma fid_get_ok s fid r : inv s -> fid_get fid (u_fids s) = Some r -> Pinv (fr_path (sf_ent r)).
  Proof.
    intros (Hf & _) E. apply nassoc_in in E. rewrite Forall_forall in Hf. apply (Hf _ E).
  Qed.

  Lemma get_ref_ok s fid r : inv s -> get_ref s fid = Some r -> Pinv (fr_path (sf_ent r)).
  Proof. unfold get_ref. destruct (fid =? c_NOFID); [discriminate|]. apply fid_get_ok. Qed.

  Lemma set_fids_inv s t : inv s -> Forall fid_ok t -> inv (set_fids s t).
  Proof. intros (_ & Hl & Hs) Ht. repeat split; auto. Qed.

  Lemma inv_fids s : inv s -> Forall fid_ok (u_fids s).
  Proof. intros (Hf & _); exact Hf. Qed.

  Lemma new_ref_inv s p s1 o : inv s -> new_ref hc A s p = (s1, o) ->
    inv s1 /\ (forall e, o = Some e -> Pinv (fr_path e)).
  Proof.
    intros Hi. unfold new_ref. destruct (ua_fullpath A p) as [hp|] eqn:Ef.
    - destruct (full_ok _ _ Ef) as (Hp & Hh).
      destruct (call hc s (HStat hp)) as [s' r] eqn:Ec.
      assert (Hi' : inv s') by (eapply call_inv; eauto; eapply call1_ok; [reflexivity|auto]).
      destruct r; intros E; inversion E; subst; split; auto; try discriminate.
      intros e He; inversion He; subst; exact Hp.
    - intros E; inversion E; subst. split; [auto|discriminate].
  Qed.

  Lemma ent_clunk_inv s e s1 b : inv s -> ent_clunk hc s e = (s1, b) -> inv s1.
  Proof.
    intros Hi. unfold ent_clunk. destruct (fr_fd e) as [fd|].
    - destruct (call hc s (HClose fd)) as [s' r] eqn:Ec. intros E; inversion E; subst.
      eapply call_nopath_inv; [| | eassumption]; [assumption | reflexivity].
    - intros E; inversion E; subst; auto.
  Qed.

  Lemma ent_opendir_inv s e s1 o : inv s -> Pinv (fr_path e) -> ent_opendir hc A s e = (s1, o) -> inv s1.
  Proof.
    intros Hi Hp. unfold ent_opendir. destruct (negb (hi_dir (fr_info e))).
    - intros E; inversion E; subst; auto.
    - destruct (call hc s (HReadDir (ua_hostpath A (fr_path e)))) as [s' r] eqn:Ec.
      assert (Hi' : inv s') by (eapply call_inv; eauto; eapply call1_ok; [reflexivity|auto]).
      destruct r; intros E; inversion E; subst; auto.
  Qed.

  Lemma attach_inv s fid : inv s -> inv (fst (do_attach hc A s fid)).
  Proof.
    intros Hi. unfold do_attach. destruct (negb (fid_free s fid)); [exact Hi|].
    destruct (new_ref hc A s (ua_root A)) as [s1 [e|]] eqn:E;
      destruct (new_ref_inv _ _ _ _ Hi E) as (Hi1 & Hp); simpl; [|exact Hi1].
    apply set_fids_inv; [exact Hi1|]. apply fid_set_ok; [apply inv_fids; exact Hi1|]. simpl. auto.
  Qed.

  Lemma walk_inv s fid newfid names : inv s -> inv (fst (do_walk hc A s fid newfid names)).
  Proof.
    intros Hi. unfold do_walk. destruct (negb (ua_names_ok A names)); [exact Hi|].
    destruct (get_ref s fid) as [r|] eqn:Eg; [|exact Hi].
    pose proof (get_ref_ok _ _ _ Hi Eg) as Hr.
    destruct (negb (newfid =? fid) && negb (fid_free s newfid)); [exact Hi|].
    destruct names as [|n0 names'].
    - destruct (newfid =? fid); [exact Hi|].
      destruct (new_ref hc A s (fr_path (sf_ent r))) as [s1 [e|]] eqn:E;
        destruct (new_ref_inv _ _ _ _ Hi E) as (Hi1 & Hp); simpl; [|exact Hi1].
      apply set_fids_inv; [exact Hi1|]. apply fid_set_ok; [apply inv_fids; exact Hi1|]. simpl. auto.
    - destruct (negb (is_dir (sf_ent r))); [exact Hi|].
      destruct (walk_total (fr_path (sf_ent r)) (n0 :: names') Hr) as (Hnp & Hnh).
      destruct (ua_walk A (fr_path (sf_ent r)) (n0 :: names')) as [q|err| |]; [|exact Hi|congruence|congruence].
      destruct (new_ref hc A s q) as [s1 [e|]] eqn:E;
        destruct (new_ref_inv _ _ _ _ Hi E) as (Hi1 & Hp); [|exact Hi1].
      destruct (newfid =? fid).
      + destruct (ent_clunk hc s1 (sf_ent r)) as [s2 b] eqn:Ek. simpl.
        pose proof (ent_clunk_inv _ _ _ _ Hi1 Ek) as Hi2.
        apply set_fids_inv; [exact Hi2|]. apply fid_set_ok; [apply inv_fids; exact Hi2|]. simpl. auto.
      + simpl. apply set_fids_inv; [exact Hi1|]. apply fid_set_ok; [apply inv_fids; exact Hi1|]. simpl. auto.
  Qed.

  Lemma open_inv s fid mode : inv s -> inv (fst (do_open hc A s fid mode)).
  Proof.
    intros Hi. unfold do_open.
    destruct (get_ref s fid) as [r|] eqn:Eg; [|exact Hi].
    pose proof (get_ref_ok _ _ _ Hi Eg) as Hr.
    destruct (sf_file r); [|exact Hi|exact Hi].
    destruct (is_dir (sf_ent r)).
    - destruct (ent_opendir hc A s (sf_ent r)) as [s1 [l|]] eqn:E;
        pose proof (ent_opendir_inv _ _ _ _ Hi Hr E) as Hi1; simpl; [|exact Hi1].
      apply set_fids_inv; [exact Hi1|]. apply fid_set_ok; [apply inv_fids; exact Hi1|]. simpl. auto.
    - destruct (call hc s (HOpen (ua_hostpath A (fr_path (sf_ent r))) (ua_oflags A mode) 0)) as [s1 res] eqn:Ec.
      assert (Hi1 : inv s1) by (eapply call_inv; eauto; eapply call1_ok; [reflexivity|auto]).
      destruct res; simpl; try exact Hi1.
      apply set_fids_inv; [exact Hi1|]. apply fid_set_ok; [apply inv_fids; exact Hi1|]. simpl. auto.
  Qed.

  Lemma create_switch_inv s hp perm mode s1 cr : inv s -> Hinv hp ->
    create_switch hc A s hp perm mode = (s1, cr) -> inv s1.
  Proof.
    intros Hi Hh. unfold create_switch.
    destruct (negb (N.land perm c_DMDIR =? 0)).
    - destruct (call hc s (HMkdir hp (ua_perm A perm))) as [s' r] eqn:Ec. intros E; inversion E; subst.
      eapply call_inv; eauto. eapply call1_ok; [reflexivity|auto].
    - destruct (negb (N.land perm c_DMSYMLINK =? 0)); [intros E; inversion E; subst; auto|].
      destruct (negb (N.land perm c_DMNAMEDPIPE =? 0)); [intros E; inversion E; subst; auto|].
      destruct (negb (N.land perm c_DMDEVICE =? 0)); [intros E; inversion E; subst; auto|].
      destruct (call hc s (HOpen hp (with_creat (ua_oflags A mode)) (ua_perm A perm))) as [s' r] eqn:Ec.
      intros E; inversion E; subst.
      eapply call_inv; eauto. eapply call1_ok; [reflexivity|auto].
  Qed.

  Lemma create_inv s fid name perm mode : inv s -> inv (fst (do_create hc A s fid name perm mode)).
  Proof.
    intros Hi. unfold do_create. destruct (negb (ua_create_ok A name)); [exact Hi|].
    destruct (get_ref s fid) as [r|] eqn:Eg; [|exact Hi].
    pose proof (get_ref_ok _ _ _ Hi Eg) as Hr.
    destruct (negb (is_dir (sf_ent r))); [exact Hi|].
    destruct (create_total (fr_path (sf_ent r)) name Hr) as (Hnp & Hnh).
    destruct (ua_create A (fr_path (sf_ent r)) name) as [q|err| |]; [|exact Hi|congruence|congruence].
    destruct (ua_fullpath A q) as [hp|] eqn:Ef; [|exact Hi].
    destruct (full_ok _ _ Ef) as (Hq & Hh).
    destruct (create_switch hc A s hp perm mode) as [s1 cr] eqn:Ecs.
    pose proof (create_switch_inv _ _ _ _ _ _ Hi Hh Ecs) as Hi1.
    assert (Hmain : forall fdo,
      inv (fst (match new_ref hc A s1 q with
                | (s2, None) =>
                    match fdo with
                    | Some fd => let '(s3, _) := call hc s2 (HClose fd) in (s3, ObErr)
                    | None => (s2, ObErr)
                    end
                | (s2, Some e0) =>
                    let e := {| fr_path := fr_path e0; fr_info := fr_info e0; fr_fd := fdo |} in
                    if is_dir e then
                      match ent_opendir hc A s2 e with
                      | (s3, Some l) =>
                          (set_fids s3 (fid_set fid {| sf_ent := e; sf_file := SFdir l; sf_mode := mode |} (u_fids s3)), ObQid true)
                      | (s3, None) =>
                          let '(s4, _) := ent_clunk hc s3 e in
                          (set_fids s4 (fid_del fid (u_fids s4)), ObErr)
                      end
                    else
                      (set_fids s2 (fid_set fid {| sf_ent := e; sf_file := SFfile fdo; sf_mode := mode |} (u_fids s2)), ObQid false)
                end))).
    { intros fdo.
      destruct (new_ref hc A s1 q) as [s2 [e0|]] eqn:En;
        destruct (new_ref_inv _ _ _ _ Hi1 En) as (Hi2 & Hp).
      - cbv zeta.
        set (e := {| fr_path := fr_path e0; fr_info := fr_info e0; fr_fd := fdo |}).
        assert (He : Pinv (fr_path e)) by (simpl; auto).
        destruct (is_dir e).
        + destruct (ent_opendir hc A s2 e) as [s3 [l|]] eqn:Eo;
            pose proof (ent_opendir_inv _ _ _ _ Hi2 He Eo) as Hi3.
          * simpl. apply set_fids_inv; [exact Hi3|]. apply fid_set_ok; [apply inv_fids; exact Hi3|]. simpl. auto.
          * destruct (ent_clunk hc s3 e) as [s4 b] eqn:Ek. simpl.
            pose proof (ent_clunk_inv _ _ _ _ Hi3 Ek) as Hi4.
            apply set_fids_inv; [exact Hi4|]. apply fid_del_ok. apply inv_fids; exact Hi4.
        + simpl. apply set_fids_inv; [exact Hi2|]. apply fid_set_ok; [apply inv_fids; exact Hi2|]. simpl. auto.
      - destruct fdo as [fd|]; [|exact Hi2].
        destruct (call hc s2 (HClose fd)) as [s3 r3] eqn:Ec. simpl.
        eapply call_nopath_inv; [| | eassumption]; [assumption | reflexivity]. }
    destruct cr as [| |fd]; [exact Hi1 | exact (Hmain None) | exact (Hmain (Some fd))].
  Qed.

  Lemma read_inv s fid count off : inv s -> inv (fst (do_read hc s fid count off)).
  Proof.
    intros Hi. unfold do_read. destruct (get_ref s fid) as [r|]; [|exact Hi].
    destruct (sf_file r) as [|rest|[fd|]]; try exact Hi.
    - destruct (N.land (sf_mode r) c_OEXEC =? c_OWRITE); [exact Hi|].
      destruct (call hc s (HPread fd count off)) as [s1 res] eqn:Ec. simpl.
      eapply call_nopath_inv; [| | eassumption]; [assumption | reflexivity].
    - destruct (N.land (sf_mode r) c_OEXEC =? c_OWRITE); exact Hi.
  Qed.

  Lemma write_inv s fid data off : inv s -> inv (fst (do_write hc s fid data off)).
  Proof.
    intros Hi. unfold do_write. destruct (get_ref s fid) as [r|]; [|exact Hi].
    destruct (sf_file r) as [|rest|[fd|]]; try exact Hi;
      destruct (negb (N.land (sf_mode r) c_OEXEC =? c_OWRITE) && negb (N.land (sf_mode r) c_OEXEC =? c_ORDWR)); try exact Hi.
    destruct (call hc s (HPwrite fd data off)) as [s1 res] eqn:Ec. simpl.
    eapply call_nopath_inv; [| | eassumption]; [assumption | reflexivity].
  Qed.

  Lemma readdir_inv s fid : inv s -> inv (fst (do_readdir s fid)).
  Proof.
    intros Hi. unfold do_readdir. destruct (get_ref s fid) as [r|] eqn:Eg; [|exact Hi].
    pose proof (get_ref_ok _ _ _ Hi Eg) as Hr.
    destruct (sf_file r); try exact Hi.
    destruct (N.land (sf_mode r) c_OEXEC =? c_OWRITE); [exact Hi|]. simpl.
    apply set_fids_inv; [exact Hi|]. apply fid_set_ok; [apply inv_fids; exact Hi|]. simpl. auto.
  Qed.

  Lemma ent_wstat_inv s e name mode len uid gid s1 e1 ok : inv s -> Pinv (fr_path e) ->
    ent_wstat hc A s e name mode len uid gid = (s1, e1, ok) -> inv s1 /\ Pinv (fr_path e1).
  Proof.
    intros Hi He. unfold ent_wstat.
    set (hp := ua_hostpath A (fr_path e)).
    assert (Hh : Hinv hp) by (apply host_ok; auto).
    (* chmod *)
    destruct (if mode =? NOCHANGE32 then (s, true)
              else let '(s', r) := call hc s (HChmod hp (ua_perm A mode)) in
                   (s', match r with RDone => true | _ => false end)) as [sa ok1] eqn:E1.
    assert (Hia : inv sa).
    { destruct (mode =? NOCHANGE32); [inversion E1; subst; auto|].
      destruct (call hc s (HChmod hp (ua_perm A mode))) as [s' r] eqn:Ec. inversion E1; subst.
      eapply call_inv; eauto. eapply call1_ok; [reflexivity|auto]. }
    destruct ok1; simpl; [|intros E; inversion E; subst; auto].
    (* chown *)
    destruct (if is_empty uid && is_empty gid then (sa, true)
              else let '(sa0, ru) := call hc sa (HLookupUser uid) in
                   match ru with
                   | RCount u =>
                       let '(sb, rg) := call hc sa0 (HLookupGroup gid) in
                       match rg with
                       | RCount g => let '(sc, r) := call hc sb (HChown hp u g) in
                                     (sc, match r with RDone => true | _ => false end)
                       | _ => (sb, false)
                       end
                   | _ => (sa0, false)
                   end) as [sb ok2] eqn:E2.
    assert (Hib : inv sb).
    { destruct (is_empty uid && is_empty gid); [inversion E2; subst; auto|].
      destruct (call hc sa (HLookupUser uid)) as [sa0 ru] eqn:Eu.
      assert (Hi0 : inv sa0) by (eapply call_nopath_inv; [| | eassumption]; [assumption | reflexivity]).
      destruct ru; try (inversion E2; subst; exact Hi0).
      destruct (call hc sa0 (HLookupGroup gid)) as [sb0 rg] eqn:Eg.
      assert (Hi00 : inv sb0) by (eapply call_nopath_inv; [| | eassumption]; [assumption | reflexivity]).
      destruct rg; try (inversion E2; subst; exact Hi00).
      destruct (call hc sb0 (HChown hp n n0)) as [sc r] eqn:Ec. inversion E2; subst.
      eapply call_inv; eauto. eapply call1_ok; [reflexivity|auto]. }
    destruct ok2; simpl; [|intros E; inversion E; subst; auto].
    (* rename *)
    destruct (if is_empty name then (sb, e, true)
              else match rename_target A (fr_path e) name with
                   | None => (sb, e, false)
                   | Some (rel, newhp) =>
                       let '(s', r) := call hc sb (HRename hp newhp) in
                       match r with
                       | RDone => (s', {| fr_path := rel; fr_info := fr_info e; fr_fd := fr_fd e |}, true)
                       | _ => (s', e, false)
                       end
                   end) as [[sc e3] ok3] eqn:E3.
    assert (Hic : inv sc /\ Pinv (fr_path e3)).
    { destruct (is_empty name); [inversion E3; subst; auto|].
      destruct (rename_target A (fr_path e) name) as [[rel newhp]|] eqn:Er; [|inversion E3; subst; auto].
      unfold rename_target in Er.
      destruct (ua_rename A (fr_path e) name) as [rel'|]; [|discriminate].
      destruct (ua_fullpath A rel') as [hp'|] eqn:Ef; [|discriminate].
      inversion Er; subst rel' hp'.
      destruct (full_ok _ _ Ef) as (Hrel & Hnew).
      destruct (call hc sb (HRename hp newhp)) as [s' r] eqn:Ec.
      assert (Hi' : inv s').
      { eapply call_inv; eauto. unfold call_ok. simpl. constructor; [auto|constructor; [auto|constructor]]. }
      destruct r; inversion E3; subst; auto. }
    destruct Hic as (Hic & He3).
    destruct ok3; simpl; [|intros E; inversion E; subst; auto].
    (* truncate *)
    destruct (len =? NOCHANGE64); [intros E; inversion E; subst; auto|].
    destruct (call hc sc (HTruncate (ua_hostpath A (fr_path e3)) (int64_of len))) as [sd r] eqn:Ec.
    intros E; inversion E; subst. split; [|auto].
    eapply call_inv; eauto. eapply call1_ok; [reflexivity|auto].
  Qed.

  Lemma wstat_inv s fid name mode len uid gid : inv s -> inv (fst (do_wstat hc A s fid name mode len uid gid)).
  Proof.
    intros Hi. unfold do_wstat. destruct (get_ref s fid) as [r|] eqn:Eg; [|exact Hi].
    pose proof (get_ref_ok _ _ _ Hi Eg) as Hr.
    destruct (ent_wstat hc A s (sf_ent r) name mode len uid gid) as [[s1 e] ok] eqn:E.
    destruct (ent_wstat_inv _ _ _ _ _ _ _ _ _ _ Hi Hr E) as (Hi1 & He). simpl.
    apply set_fids_inv; [exact Hi1|]. apply fid_set_ok; [apply inv_fids; exact Hi1|]. simpl. auto.
  Qed.

  Lemma clunk_inv s fid : inv s -> inv (fst (do_clunk hc s fid)).
  Proof.
    intros Hi. unfold do_clunk. destruct (fid_get fid (u_fids s)) as [r|]; [|exact Hi].
    destruct (ent_clunk hc s (sf_ent r)) as [s1 b] eqn:Ek. simpl.
    pose proof (ent_clunk_inv _ _ _ _ Hi Ek) as Hi1.
    apply set_fids_inv; [exact Hi1|]. apply fid_del_ok. apply inv_fids; exact Hi1.
  Qed.

  Lemma remove_inv s fid : inv s -> inv (fst (do_remove hc A s fid)).
  Proof.
    intros Hi. unfold do_remove. destruct (fid_get fid (u_fids s)) as [r|] eqn:Eg; [|exact Hi].
    pose proof (fid_get_ok _ _ _ Hi Eg) as Hr.
    destruct (ent_clunk hc s (sf_ent r)) as [s1 b] eqn:Ek.
    pose proof (ent_clunk_inv _ _ _ _ Hi Ek) as Hi1.
    assert (Hi2 : inv (set_fids s1 (fid_del fid (u_fids s1)))).
    { apply set_fids_inv; [exact Hi1|]. apply fid_del_ok. apply inv_fids; exact Hi1. }
    destruct (ua_is_root A (fr_path (sf_ent r))); [exact Hi2|].
    destruct (call hc (set_fids s1 (fid_del fid (u_fids s1))) (HRemove (ua_hostpath A (fr_path (sf_ent r))))) as [s3 res] eqn:Ec.
    simpl. eapply call_inv; eauto. eapply call1_ok; [reflexivity|auto].
  Qed.

  Theorem step_inv s o : inv s -> inv (fst (step hc A s o)).
  Proof.
    intros Hi. unfold step. destruct (u_stuck s); [exact Hi|].
    destruct o.
    - apply attach_inv; auto.
    - apply walk_inv; auto.
    - apply open_inv; auto.
    - apply create_inv; auto.
    - apply read_inv; auto.
    - apply write_inv; auto.
    - exact (match get_ref s fid as g return inv (fst (match g with None => (s, ObErr) | Some r => (s, ObInfo (fr_info (sf_ent r))) end)) with Some _ => Hi | None => Hi end).
    - apply wstat_inv; auto.
    - apply clunk_inv; auto.
    - apply remove_inv; auto.
    - apply readdir_inv; auto.
  Qed.

  Theorem run_inv ops : forall s, inv s -> inv (fst (run hc A s ops)).
  Proof.
    induction ops as [|o ops IH]; intros s Hi; simpl; [exact Hi|].
    destruct (step hc A s o) as [s1 ob] eqn:E.
    assert (Hi1 : inv s1) by (change s1 with (fst (s1, ob)); rewrite <- E; apply step_inv; auto).
    specialize (IH s1 Hi1). destruct (run hc A s1 ops) as [s2 obs]. exact IH.
  Qed.

  Lemma init_inv h : inv (init h).
  Proof. repeat split; constructor. Qed.

  (* no operation of a run panics or hangs *)
  Theorem run_no_panic ops : forall s, inv s -> ~ In ObPanic (snd (run hc A s ops)) /\ ~ In ObHang (snd (run hc A s ops)).
  Proof.
    induction ops as [|o ops IH]; intros s Hi; simpl; [split; intros []|].
    destruct (step hc A s o) as [s1 ob] eqn:E.
    assert (Hi1 : inv s1) by (change s1 with (fst (s1, ob)); rewrite <- E; apply step_inv; auto).
    specialize (IH s1 Hi1). destruct (run hc A s1 ops) as [s2 obs]. simpl in *.
    assert (Hob : ob <> ObPanic /\ ob <> ObHang).
    { destruct Hi as (Hf & Hl & Hs). unfold step in E. rewrite Hs in E.
      assert (Hi : inv s) by (repeat split; auto).
      destruct o; simpl in E.
      - unfold do_attach in E. destruct (negb (fid_free s fid)); [inversion E; split; discriminate|].
        destruct (new_ref hc A s (ua_root A)) as [sx [e|]]; inversion E; split; discriminate.
      - unfold do_walk in E. destruct (negb (ua_names_ok A names)); [inversion E; split; discriminate|].
        destruct (get_ref s fid) as [r|] eqn:Eg; [|inversion E; split; discriminate].
        pose proof (get_ref_ok _ _ _ Hi Eg) as Hr.
        destruct (negb (newfid =? fid) && negb (fid_free s newfid)); [inversion E; split; discriminate|].
        destruct names as [|n0 names'].
        + destruct (newfid =? fid); [inversion E; split; discriminate|].
          destruct (new_ref hc A s (fr_path (sf_ent r))) as [sx [e|]]; inversion E; split; discriminate.
        + destruct (negb (is_dir (sf_ent r))); [inversion E; split; discriminate|].
          destruct (walk_total (fr_path (sf_ent r)) (n0 :: names') Hr) as (Hnp & Hnh).
          destruct (ua_walk A (fr_path (sf_ent r)) (n0 :: names')) as [q|err| |]; [|inversion E; split; discriminate|congruence|congruence].
          destruct (new_ref hc A s q) as [sx [e|]]; [|inversion E; split; discriminate].
          destruct (newfid =? fid); [destruct (ent_clunk hc sx (sf_ent r))|]; inversion E; split; discriminate.
      - unfold do_open in E. destruct (get_ref s fid) as [r|]; [|inversion E; split; discriminate].
        destruct (sf_file r); try (inversion E; split; discriminate).
        destruct (is_dir (sf_ent r)).
        + destruct (ent_opendir hc A s (sf_ent r)) as [sx [l|]]; inversion E; split; discriminate.
        + destruct (call hc s _) as [sx res]. destruct res; inversion E; split; discriminate.
      - unfold do_create in E. destruct (negb (ua_create_ok A name)); [inversion E; split; discriminate|].
        destruct (get_ref s fid) as [r|] eqn:Eg; [|inversion E; split; discriminate].
        pose proof (get_ref_ok _ _ _ Hi Eg) as Hr.
        destruct (negb (is_dir (sf_ent r))); [inversion E; split; discriminate|].
        destruct (create_total (fr_path (sf_ent r)) name Hr) as (Hnp & Hnh).
        destruct (ua_create A (fr_path (sf_ent r)) name) as [q|err| |]; [|inversion E; split; discriminate|congruence|congruence].
        destruct (ua_fullpath A q) as [hp|]; [|inversion E; split; discriminate].
        destruct (create_switch hc A s hp perm mode) as [sx cr].
        destruct cr; [inversion E; split; discriminate| |];
          (destruct (new_ref hc A sx q) as [sy [e0|]];
           [ cbv zeta in E;
             match type of E with context [if ?b then _ else _] => destruct b end;
             [ match type of E with context [ent_opendir ?a ?b ?c ?d] => destruct (ent_opendir a b c d) as [sz [l|]] end;
               [ inversion E; split; discriminate
               | match type of E with context [ent_clunk ?a ?b ?c] => destruct (ent_clunk a b c) end; inversion E; split; discriminate ]
             | inversion E; split; discriminate ]
           | try (destruct (call hc sy _)); inversion E; split; discriminate ]).
      - unfold do_read in E. destruct (get_ref s fid) as [r|]; [|inversion E; split; discriminate].
        destruct (sf_file r) as [|rest|[fd|]]; try (inversion E; split; discriminate);
          destruct (N.land (sf_mode r) c_OEXEC =? c_OWRITE); try (inversion E; split; discriminate).
        destruct (call hc s _) as [sx res]. destruct res; inversion E; split; discriminate.
      - unfold do_write in E. destruct (get_ref s fid) as [r|]; [|inversion E; split; discriminate].
        destruct (sf_file r) as [|rest|[fd|]]; try (inversion E; split; discriminate);
          destruct (negb (N.land (sf_mode r) c_OEXEC =? c_OWRITE) && negb (N.land (sf_mode r) c_OEXEC =? c_ORDWR)); try (inversion E; split; discriminate).
        destruct (call hc s _) as [sx res]. destruct res; inversion E; split; discriminate.
      - unfold do_stat in E. destruct (get_ref s fid); inversion E; split; discriminate.
      - unfold do_wstat in E. destruct (get_ref s fid) as [r|]; [|inversion E; split; discriminate].
        destruct (ent_wstat hc A s (sf_ent r) name mode len uid gid) as [[sx e] ok].
        destruct ok; inversion E; split; discriminate.
      - unfold do_clunk in E. destruct (fid_get fid (u_fids s)) as [r|]; [|inversion E; split; discriminate].
        destruct (ent_clunk hc s (sf_ent r)) as [sx b]. destruct b; inversion E; split; discriminate.
      - unfold do_remove in E. destruct (fid_get fid (u_fids s)) as [r|]; [|inversion E; split; discriminate].
        destruct (ent_clunk hc s (sf_ent r)) as [sx b].
        destruct (ua_is_root A (fr_path (sf_ent r))); [inversion E; split; discriminate|].
        destruct (call hc _ _) as [sy res]. destruct res; inversion E; split; discriminate.
      - unfold do_readdir in E. destruct (get_ref s fid) as [r|]; [|inversion E; split; discriminate].
        destruct (sf_file r); try (inversion E; split; discriminate).
        destruct (N.land (sf_mode r) c_OEXEC =? c_OWRITE); inversion E; split; discriminate. }
    destruct IH as (IH1 & IH2). destruct Hob as (Hp & Hh).
    split; intros [Heq|Hin]; auto.
  Qed.

End Generic.

(* the Go layer's filters *)
Lemma impl_walk_filter {H} (hc : H -> hcall -> H * hresult) base s fid newfid names :
  valid_path names = (-1)%Z -> fst (step hc (impl_alg base) s (OpWalk fid newfid names)) = s.
Proof. intros E. rewrite walk_filter; [reflexivity|]. simpl. rewrite E. reflexivity. Qed.
