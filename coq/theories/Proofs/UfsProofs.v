(* Lemmas about Model/Ufs.v that hold for EVERY host and every translation
   layer: the session/ufs operations preserve "every FileRef.Path satisfies
   Pinv, every path handed to the host satisfies Hinv" as soon as the layer's
   fullPath only lets such paths through.  Instantiated for the Go layer in
   UfsProofsPath.v. *)
From Coq Require Import List NArith ZArith Bool Lia.
From P9 Require Import Base.Res Model.Path Model.HostFS Model.Ufs.
Import ListNotations.
Open Scope N_scope.

Section Generic.
  Context {H P : Type}.
  Variable hc : H -> hcall -> H * hresult.
  Variable A : ualg P.

  Notation ust := (ust H P).
  Notation sfid := (sfid P).
  Notation fref := (fref P).

  Lemma call_spec (s s1 : ust) c r : call hc s c = (s1, r) ->
    u_fids s1 = u_fids s /\ u_log s1 = c :: u_log s /\ u_stuck s1 = u_stuck s /\ (u_host s1, r) = hc (u_host s) c.
  Proof.
    unfold call. destruct (hc (u_host s) c) as [h r0]. intros E. inversion E; subst. simpl. auto.
  Qed.

  (* ---- session filters: rejected names change nothing (no host call, no fid) ---- *)

  Lemma walk_filter s fid newfid names :
    ua_names_ok A names = false -> step hc A s (OpWalk fid newfid names) = (s, if u_stuck s then ObHang else ObErr).
  Proof. intros E. unfold step, do_walk. rewrite E. destruct (u_stuck s); reflexivity. Qed.

  Lemma create_filter s fid name perm mode :
    ua_create_ok A name = false -> step hc A s (OpCreate fid name perm mode) = (s, if u_stuck s then ObHang else ObErr).
  Proof. intros E. unfold step, do_create. rewrite E. destruct (u_stuck s); reflexivity. Qed.

  Lemma create_name_filter s fid name perm mode :
    (forall p, exists e, ua_create A p name = Err e) ->
    fst (step hc A s (OpCreate fid name perm mode)) = s.
  Proof.
    intros E. unfold step, do_create. destruct (u_stuck s); [reflexivity|].
    destruct (ua_create_ok A name); [|reflexivity]. simpl.
    destruct (get_ref s fid) as [r|]; [|reflexivity].
    destruct (is_dir (sf_ent r)); [|reflexivity]. simpl.
    destruct (E (fr_path (sf_ent r))) as [e ->]. reflexivity.
  Qed.
End Generic.

(* the Go layer's filters *)
Lemma impl_walk_filter {H} (hc : H -> hcall -> H * hresult) base s fid newfid names :
  valid_path names = (-1)%Z -> fst (step hc (impl_alg base) s (OpWalk fid newfid names)) = s.
Proof. intros E. rewrite walk_filter; [reflexivity|]. simpl. rewrite E. reflexivity. Qed.
