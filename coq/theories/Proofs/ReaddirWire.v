(* Discharging the Section hypotheses of C17's client theorems with the real directory-entry
   codec of Model/Wire.v: entries are Dir field lists, enc = enc_dir (EncodeDir / the Dir case of
   encode), dec = DecodeDir on the unread rest of a chunk. *)
From Coq Require Import List NArith ZArith Lia Bool.
From P9 Require Import Base.Res Base.Bytes Model.WireTypes Model.Spec9P Model.Wire Model.Readdir
  Proofs.BytesProofs Proofs.WireProofs Proofs.WireDecode Proofs.ReaddirProofs.
Import ListNotations.
Open Scope N_scope.

Definition wire_dec (bs : list N) : dres (list fval) :=
  match decode_dir bs with
  | Ok (d, r) => DOk d r
  | Err e => match e with [1] => DEof | _ => DErr end
  | _ => DErr
  end.

Definition wire_wf (d : list fval) : Prop := wf_dir d = true.

Lemma wire_dec_enc d rest : wire_wf d -> wire_dec (enc_dir d ++ rest) = DOk d rest.
Proof. intros H. unfold wire_dec. rewrite decode_dir_enc by exact H. reflexivity. Qed.

Lemma wire_dec_nil : wire_dec [] = DEof.
Proof. reflexivity. Qed.

Lemma wire_enc_nonempty d : wire_wf d -> enc_dir d <> [].
Proof. intros _. unfold enc_dir. cbn [le]. discriminate. Qed.

(* the client iterator over the real codec returns exactly the server's entries *)
Theorem client_wire script ds iounit fuel :
  lists_script script ds -> Forall wire_wf ds -> fits enc_dir ds iounit -> (length ds < fuel)%nat ->
  cl_all enc_dir wire_dec iounit fuel new_cdir (new_readdir script) = Ok ds.
Proof. exact (client enc_dir wire_wf wire_dec wire_dec_enc wire_dec_nil wire_enc_nonempty script ds iounit fuel). Qed.

Theorem client_msize_wire script ds msize fuel :
  lists_script script ds -> Forall wire_wf ds ->
  Forall (fun d => blen (enc_dir d) + 11 <= msize) ds -> (length ds < fuel)%nat ->
  cl_all enc_dir wire_dec (msize - 11) fuel new_cdir (new_readdir script) = Ok ds.
Proof. exact (client_msize enc_dir wire_wf wire_dec wire_dec_enc wire_dec_nil wire_enc_nonempty script ds msize fuel). Qed.
