(* C19: the Go translation layer [impl_alg (render bcs)] (strings; path.Clean/
   Join/Dir, WalkName, CreateName, fullPath, oflags) computes on [render q]
   what the component-list layer [spec_alg bcs] computes on [q].  With the
   generic simulation of UfsProofsSim.v this gives: for every host, the same
   host calls, host states and results. *)
From Coq Require Import List NArith ZArith Bool Lia.
From P9 Require Import Base.Res Model.Path Model.HostFS Model.Ufs Gen.GenConsts.
From P9 Require Import Proofs.PathProofs Proofs.PathExtra Proofs.UfsProofs Proofs.UfsProofsPath Proofs.UfsProofsSim.
Import ListNotations.
Open Scope N_scope.

(* ---------- names: ValidPath vs the property's predicate ---------- *)

Lemma goodb_flags s : goodb s = true ->
  is_empty s = false /\ is_dot s = false /\ is_dotdot s = false /\ has_sep s = false.
Proof.
  unfold goodb. intros E.
  apply andb_true_iff in E. destruct E as (E & E4).
  apply andb_true_iff in E. destruct E as (E & E3).
  apply andb_true_iff in E. destruct E as (E1 & E2).
  apply negb_true_iff in E1, E2, E3, E4. auto.
Qed.

Lemma valid_go_names ns : forall i n, (0 <= n <= i)%Z ->
  Z.ltb (valid_path_go ns i n) 0 = negb (names_okb (Z.eqb n i) ns).
Proof.
  induction ns as [|s r IH]; intros i n Hr; simpl.
  - destruct (Z.ltb_spec n 0); [lia|reflexivity].
  - destruct (is_dotdot s) eqn:Edd.
    + apply is_dotdot_spec in Edd. subst s. simpl.
      destruct (Z.eqb_spec n i) as [->|Hne]; simpl.
      * rewrite IH by lia. rewrite Z.eqb_refl. reflexivity.
      * reflexivity.
    + unfold goodb. rewrite Edd.
      destruct (is_empty s) eqn:E1; simpl; [reflexivity|].
      destruct (is_dot s) eqn:E2; simpl; [reflexivity|].
      destruct (has_sep s) eqn:E4; simpl; [reflexivity|].
      rewrite IH by lia. destruct (Z.eqb_spec n (i + 1)); [lia|reflexivity].
Qed.

Lemma names_ok_eq ns : negb (Z.ltb (valid_path ns) 0) = names_okb true ns.
Proof. unfold valid_path. rewrite (valid_go_names ns 0 0)%Z by lia. simpl. apply negb_involutive. Qed.

Lemma names_false_good r : names_okb false r = true -> forallb goodb r = true.
Proof.
  induction r as [|s r IH]; simpl; [reflexivity|].
  destruct (is_dotdot s); simpl; [discriminate|].
  intros E. apply andb_true_iff in E. destruct E as (E1 & E2). rewrite E1, IH; auto.
Qed.

Lemma names_decompose ns : names_okb true ns = true ->
  exists k rest, ns = repeat DOTDOT k ++ rest /\ forallb goodb rest = true.
Proof.
  induction ns as [|s r IH]; simpl; intros E.
  - exists 0%nat, []. split; reflexivity.
  - destruct (is_dotdot s) eqn:Edd.
    + apply is_dotdot_spec in Edd. subst s. simpl in E.
      destruct (IH E) as (k & rest & -> & Hr). exists (S k), rest. split; [reflexivity|exact Hr].
    + apply andb_true_iff in E. destruct E as (E1 & E2).
      exists 0%nat, (s :: r). split; [reflexivity|]. simpl. rewrite E1. simpl. apply names_false_good; exact E2.
Qed.

Lemma goodb_ordinary rest : forallb goodb rest = true -> Forall ordinary rest.
Proof.
  rewrite forallb_forall, Forall_forall. intros Hf s Hs. specialize (Hf s Hs).
  destruct (goodb_flags s Hf) as (E1 & E2 & E3 & E4).
  repeat split; auto; intros ->; discriminate.
Qed.

Lemma goodb_okc rest : forallb goodb rest = true -> Forall okc rest.
Proof.
  rewrite forallb_forall, Forall_forall. intros Hf s Hs. specialize (Hf s Hs).
  destruct (goodb_flags s Hf) as (E1 & E2 & E3 & E4). apply flags_okc; auto.
Qed.

(* ---------- stepwise resolution ---------- *)

Lemma resolve_good rest : forall d, forallb goodb rest = true -> resolve_names d rest = Ok (d ++ rest).
Proof.
  induction rest as [|s r IH]; intros d Hf; simpl.
  - rewrite app_nil_r. reflexivity.
  - simpl in Hf. apply andb_true_iff in Hf. destruct Hf as (Hs & Hr).
    destruct (goodb_flags s Hs) as (_ & _ & E3 & _). rewrite E3.
    rewrite IH by exact Hr. rewrite <- app_assoc. reflexivity.
Qed.

Lemma resolve_dotdots rest : forallb goodb rest = true -> forall k d,
  resolve_names d (repeat DOTDOT k ++ rest) =
  if Nat.leb k (length d) then Ok (rev (rev rest ++ skipn k (rev d))) else Err [].
Proof.
  intros Hr. induction k as [|k IH]; intros d.
  - simpl. rewrite resolve_good by exact Hr. rewrite rev_app_distr, !rev_involutive. reflexivity.
  - cbn [repeat app resolve_names]. change (is_dotdot DOTDOT) with true. cbv iota.
    destruct d as [|x d'] using rev_ind; [reflexivity|].
    clear IHd'. rewrite removelast_last.
    destruct (d' ++ [x]) as [|y l] eqn:Ed; [destruct d'; discriminate|]. rewrite <- Ed. clear Ed y l.
    rewrite IH. rewrite app_length, rev_unit. cbn [length skipn].
    replace (length d' + 1)%nat with (S (length d')) by lia. reflexivity.
Qed.

(* ---------- what Clean's loop does with validated names on a stack of proper components ---------- *)

Lemma clean_step_okc_any rooted c stk : okc c -> clean_step rooted stk c = c :: stk.
Proof.
  intros Hc. destruct (okc_flags c Hc) as (E1 & E2 & E3).
  unfold clean_step. rewrite E1, E2, E3. reflexivity.
Qed.

Lemma fold_push_any rooted l : forall stk, Forall okc l -> fold_left (clean_step rooted) l stk = rev l ++ stk.
Proof.
  induction l as [|c l IH]; intros stk Hf; simpl; [reflexivity|].
  inversion Hf; subst. rewrite clean_step_okc_any by auto. rewrite IH by auto.
  rewrite <- app_assoc. reflexivity.
Qed.

Lemma pop_skipn k : forall stk, Forall okc stk ->
  fold_left (clean_step true) (repeat DOTDOT k) stk = skipn k stk.
Proof.
  induction k as [|k IH]; intros stk Hs; [reflexivity|].
  cbn [repeat fold_left]. destruct stk as [|top r].
  - change (clean_step true [] DOTDOT) with (@nil bstr). rewrite IH by constructor. destruct k; reflexivity.
  - inversion Hs as [|? ? Ht Hr]; subst.
    unfold clean_step at 2. change (is_empty DOTDOT) with false. change (is_dot DOTDOT) with false.
    change (is_dotdot DOTDOT) with true. cbn [orb].
    destruct (okc_flags top Ht) as (_ & _ & E). rewrite E. apply IH. exact Hr.
Qed.

(* relative Clean keeps a leading run of ".." *)
Lemma push_dotdots_false k : forall j,
  fold_left (clean_step false) (repeat DOTDOT k) (repeat DOTDOT j) = repeat DOTDOT (k + j).
Proof.
  induction k as [|k IH]; intros j; [reflexivity|].
  cbn [repeat fold_left].
  assert (E : clean_step false (repeat DOTDOT j) DOTDOT = repeat DOTDOT (S j)).
  { destruct j; reflexivity. }
  rewrite E. rewrite IH. f_equal. lia.
Qed.

Lemma repeat_rev {X} (x : X) k : rev (repeat x k) = repeat x k.
Proof.
  induction k as [|k IH]; [reflexivity|]. simpl. rewrite IH.
  clear IH. induction k as [|k IH]; [reflexivity|]. simpl. rewrite IH. reflexivity.
Qed.

Lemma dotdot_noslash : noslash DOTDOT.
Proof. intros [H|[H|[]]]; discriminate. Qed.

Lemma goodb_noslash rest : forallb goodb rest = true -> Forall noslash rest.
Proof.
  rewrite forallb_forall, Forall_forall. intros Hf s Hs. specialize (Hf s Hs).
  destruct (goodb_flags s Hf) as (_ & _ & _ & E4). apply has_sep_false in E4. destruct E4; auto.
Qed.

Lemma names_noslash k rest : forallb goodb rest = true -> Forall noslash (repeat DOTDOT k ++ rest).
Proof.
  intros Hr. apply Forall_app. split; [|apply goodb_noslash; exact Hr].
  apply Forall_forall. intros x Hx. apply repeat_spec in Hx. subst. apply dotdot_noslash.
Qed.

Lemma filter_nonempty_names k rest : forallb goodb rest = true ->
  filter (fun e => negb (is_empty e)) (repeat DOTDOT k ++ rest) = repeat DOTDOT k ++ rest.
Proof.
  intros Hr. rewrite filter_app. f_equal.
  - induction k as [|k IH]; [reflexivity|]. simpl. rewrite IH. reflexivity.
  - induction rest as [|s r IH]; [reflexivity|]. simpl in Hr. apply andb_true_iff in Hr. destruct Hr as (Hs & Hr).
    destruct (goodb_flags s Hs) as (E1 & _). simpl. rewrite E1. simpl. rewrite IH by exact Hr. reflexivity.
Qed.

(* path.Join(names...) of a validated non-empty list is the names joined by "/" *)
Lemma join_rel ns : ns <> [] -> Forall noslash ns -> (forall s r, ns = s :: r -> s <> []) ->
  filter (fun e => negb (is_empty e)) ns = ns -> fold_left (clean_step false) ns [] = rev ns ->
  path_join ns = join_slash ns /\ join_slash ns <> [].
Proof.
  intros Hne Hns Hhead Hfil Hfold.
  assert (Hfirst : exists c0 t0, join_slash ns = c0 :: t0 /\ c0 <> SLASH).
  { destruct ns as [|s r]; [congruence|].
    pose proof (Hhead s r eq_refl) as Hs1. inversion Hns as [|? ? Hs2 _]; subst.
    destruct s as [|c0 s']; [congruence|].
    exists c0. destruct r as [|s2 r'].
    - exists s'. split; [reflexivity|]. intros ->. apply Hs2. left; reflexivity.
    - eexists. split; [rewrite join_cons by congruence; reflexivity|]. intros ->. apply Hs2. left; reflexivity. }
  destruct Hfirst as (c0 & t0 & Ej & Hc0).
  split; [|rewrite Ej; discriminate].
  unfold path_join. rewrite Hfil.
  destruct ns as [|s r] eqn:Ens; [congruence|]. rewrite <- Ens in *.
  unfold path_clean. rewrite Ej. rewrite <- Ej.
  destruct (N.eqb_spec c0 SLASH) as [|_]; [contradiction|].
  rewrite split_join by (auto; congruence).
  rewrite Hfold, rev_involutive. rewrite Ens. rewrite <- Ens. reflexivity.
Qed.

Lemma names_head k rest s r : forallb goodb rest = true -> repeat DOTDOT k ++ rest = s :: r -> s <> [].
Proof.
  intros Hr E. destruct k; simpl in E.
  - subst rest. simpl in Hr. apply andb_true_iff in Hr. destruct Hr as (Hs & _).
    destruct (goodb_flags s Hs) as (E1 & _). intros ->; discriminate.
  - inversion E; subst. discriminate.
Qed.

Lemma join_names k rest : forallb goodb rest = true -> repeat DOTDOT k ++ rest <> [] ->
  path_join (repeat DOTDOT k ++ rest) = join_slash (repeat DOTDOT k ++ rest) /\
  join_slash (repeat DOTDOT k ++ rest) <> [].
Proof.
  intros Hr Hne. apply join_rel.
  - exact Hne.
  - apply names_noslash; exact Hr.
  - intros s r E. apply (names_head k rest s r Hr E).
  - apply filter_nonempty_names; exact Hr.
  - rewrite fold_left_app.
    change (@nil bstr) with (repeat DOTDOT 0) at 1.
    rewrite (push_dotdots_false k 0). rewrite Nat.add_0_r.
    rewrite fold_push_any by (apply goodb_okc; exact Hr).
    rewrite rev_app_distr. rewrite repeat_rev. reflexivity.
Qed.

(* depth := strings.Count(dir[:len(dir)-1], "/") *)
Lemma count_app a b : count_slash (a ++ b) = (count_slash a + count_slash b)%Z.
Proof. unfold count_slash. rewrite filter_app, app_length. lia. Qed.

Lemma count_noslash a : noslash a -> count_slash a = 0%Z.
Proof.
  intros Hn. unfold count_slash. induction a as [|c a IH]; [reflexivity|]. simpl.
  destruct (N.eqb_spec c SLASH) as [->|Hc]; [exfalso; apply Hn; left; reflexivity|].
  apply IH. intros Hin. apply Hn. right; exact Hin.
Qed.

Lemma removelast_noslash a : noslash a -> noslash (removelast a).
Proof.
  intros Hn Hin. apply Hn. induction a as [|c a IH]; [destruct Hin|].
  simpl in Hin. destruct a as [|d a']; [destruct Hin|].
  destruct Hin as [<-|Hin]; [left; reflexivity|]. right. apply IH; [|exact Hin].
  intros H. apply Hn. right; exact H.
Qed.

Lemma join_nonempty c q : c <> [] -> join_slash (c :: q) <> [].
Proof.
  intros Hc. destruct q; [exact Hc|]. rewrite join_cons by congruence.
  destruct c; [congruence|discriminate].
Qed.

Lemma depth_join q : forall c, Forall okcomp (c :: q) ->
  count_slash (removelast (join_slash (c :: q))) = Z.of_nat (length q).
Proof.
  induction q as [|d q IH]; intros c Hf; inversion Hf as [|? ? [Hc Hn] Hq]; subst.
  - simpl. apply count_noslash. apply removelast_noslash. exact Hn.
  - rewrite join_cons by congruence.
    assert (Hd : d <> []) by (inversion Hq as [|? ? [[Hd _] _] _]; exact Hd).
    rewrite removelast_app by discriminate.
    assert (Hj : join_slash (d :: q) <> []) by (apply join_nonempty; exact Hd).
    change (removelast (SLASH :: join_slash (d :: q))) with
      (match join_slash (d :: q) with [] => [] | _ => SLASH :: removelast (join_slash (d :: q)) end).
    destruct (join_slash (d :: q)) as [|j0 jt] eqn:Ej; [exfalso; apply Hj; first [exact Ej | reflexivity]|]. rewrite <- Ej.
    rewrite count_app. rewrite count_noslash by exact Hn.
    change (SLASH :: removelast (join_slash (d :: q))) with ([SLASH] ++ removelast (join_slash (d :: q))).
    rewrite count_app. rewrite IH by exact Hq.
    change (count_slash [SLASH]) with 1%Z. simpl length. lia.
Qed.

Lemma depth_render q : Forall okcomp q -> count_slash (removelast (render q)) = Z.of_nat (length q).
Proof.
  intros Hf. destruct q as [|c q]; [reflexivity|].
  unfold render.
  assert (Hc : c <> []) by (inversion Hf as [|? ? [[Hc _] _] _]; exact Hc).
  pose proof (join_nonempty c q Hc) as Hj.
  change (removelast (SLASH :: join_slash (c :: q))) with
    (match join_slash (c :: q) with [] => [] | _ => SLASH :: removelast (join_slash (c :: q)) end).
  destruct (join_slash (c :: q)) as [|j0 jt] eqn:Ej; [exfalso; apply Hj; first [exact Ej | reflexivity]|]. rewrite <- Ej.
  change (SLASH :: removelast (join_slash (c :: q))) with ([SLASH] ++ removelast (join_slash (c :: q))).
  rewrite count_app. rewrite depth_join by exact Hf. change (count_slash [SLASH]) with 1%Z. simpl length. lia.
Qed.

(* Clean(render q ++ "/" ++ x): Clean's loop started on the stack [rev q] *)
Lemma clean_render_slash q x : Forall okcomp q ->
  path_clean (render q ++ SLASH :: x) = render (rev (fold_left (clean_step true) (split_slash x) (rev q))).
Proof.
  intros Hq. unfold render at 1. change ((SLASH :: join_slash q) ++ SLASH :: x) with (SLASH :: (join_slash q ++ SLASH :: x)).
  rewrite clean_abs_fold. rewrite split_app, fold_left_app.
  destruct (split_join_facts q Hq) as (Ha & Hb).
  rewrite (fold_skip_push (split_slash (join_slash q)) [] Ha). rewrite Hb, app_nil_r. reflexivity.
Qed.

Lemma okcomp_okc q : Forall okcomp q -> Forall okc q.
Proof. intros Hf. eapply Forall_impl; [|exact Hf]. intros c [Ho _]; exact Ho. Qed.

Lemma Forall_rev_iff {X} (Q : X -> Prop) l : Forall Q l -> Forall Q (rev l).
Proof. intros Hf. apply Forall_forall. intros x Hx. apply in_rev in Hx. rewrite Forall_forall in Hf. auto. Qed.

Lemma Forall_skipn {X} (Q : X -> Prop) k l : Forall Q l -> Forall Q (skipn k l).
Proof.
  intros Hf. apply Forall_forall. intros x Hx. rewrite Forall_forall in Hf. apply Hf.
  rewrite <- (firstn_skipn k l). apply in_or_app. right; exact Hx.
Qed.

(* WalkName on a canonical directory = stepwise resolution *)
Lemma walk_name_resolve q ns : Forall good q -> names_okb true ns = true -> ns <> [] ->
  walk_name (render q) ns = match resolve_names q ns with Ok q' => Ok (render q') | Err e => Err e | Panic => Panic | Hang => Hang end
  /\ (forall q', resolve_names q ns = Ok q' -> Forall good q').
Proof.
  intros Hq Hn Hne. pose proof (good_okcomp q Hq) as Hqo.
  destruct (names_decompose ns Hn) as (k & rest & -> & Hr).
  rewrite resolve_dotdots by exact Hr.
  assert (Hgood : Nat.leb k (length q) = true -> Forall good (rev (rev rest ++ skipn k (rev q)))).
  { intros _. apply Forall_rev_iff. apply Forall_app. split.
    - apply Forall_rev_iff. apply forallb_good. exact Hr.
    - apply Forall_skipn. apply Forall_rev_iff. exact Hq. }
  split.
  - unfold walk_name. unfold render at 1. cbv iota.
    change (SLASH :: join_slash q) with (render q).
    rewrite depth_render by exact Hqo.
    rewrite valid_path_accepts by (apply goodb_ordinary; exact Hr).
    destruct (Z.ltb_spec (Z.of_nat k) 0) as [Hlt|_]; [lia|]. cbn [orb].
    destruct (Nat.leb_spec k (length q)) as [Hle|Hgt].
    + destruct (Z.ltb_spec (Z.of_nat (length q)) (Z.of_nat k)) as [Hlt|_]; [lia|].
      destruct (join_names k rest Hr Hne) as (Ej & Hjn). rewrite Ej.
      f_equal. rewrite path_join2; [|discriminate|exact Hjn].
      rewrite clean_render_slash by exact Hqo.
      rewrite split_join by (auto using names_noslash).
      rewrite fold_left_app. rewrite pop_skipn by (apply Forall_rev_iff; apply okcomp_okc; exact Hqo).
      rewrite fold_push_any by (apply goodb_okc; exact Hr). reflexivity.
    + destruct (Z.ltb_spec (Z.of_nat (length q)) (Z.of_nat k)) as [_|Hge]; [reflexivity|lia].
  - intros q' E. destruct (Nat.leb k (length q)) eqn:El; [|discriminate].
    inversion E; subst. apply Hgood. reflexivity.
Qed.

(* CreateName *)
Lemma create_name_resolve q n : Forall good q ->
  create_name (render q) n = (if goodb n then Ok (render (q ++ [n])) else Err []).
Proof.
  intros Hq. pose proof (good_okcomp q Hq) as Hqo. unfold create_name, goodb.
  destruct (has_sep n) eqn:E4; [destruct (is_empty n), (is_dot n), (is_dotdot n); reflexivity|].
  destruct (is_empty n) eqn:E1; [reflexivity|].
  destruct (is_dot n) eqn:E2; [reflexivity|].
  destruct (is_dotdot n) eqn:E3; [reflexivity|]. simpl. f_equal.
  assert (Hn : okc n) by (apply flags_okc; auto).
  assert (Hns : noslash n) by (apply has_sep_false in E4; destruct E4; auto).
  rewrite path_join2; [|discriminate|intros ->; discriminate].
  rewrite clean_render_slash by exact Hqo.
  rewrite split_noslash by exact Hns. simpl fold_left. rewrite clean_step_okc by exact Hn.
  simpl rev. rewrite rev_involutive. reflexivity.
Qed.

(* path.Dir on a canonical path *)
Lemma drop_to_slash_app c x : noslash c -> drop_to_slash (rev c ++ SLASH :: x) = SLASH :: x.
Proof.
  intros Hn. assert (Hr : noslash (rev c)) by (intros Hin; apply Hn; apply in_rev; exact Hin).
  induction (rev c) as [|a l IH]; simpl; [reflexivity|].
  destruct (N.eqb_spec a SLASH) as [->|Ha]; [exfalso; apply Hr; left; reflexivity|].
  apply IH. intros Hin. apply Hr. right; exact Hin.
Qed.

Lemma render_snoc q c : render (q ++ [c]) = (match q with [] => [] | _ => render q end) ++ SLASH :: c.
Proof.
  unfold render. destruct q as [|d q]; [reflexivity|].
  cbn [app]. f_equal.
  revert d. induction q as [|e q IH]; intros d; [reflexivity|].
  cbn [app]. rewrite (join_cons d (e :: q ++ [c])) by discriminate.
  rewrite (join_cons d (e :: q)) by discriminate. rewrite IH. rewrite <- app_assoc. reflexivity.
Qed.

Lemma path_dir_render q : Forall okcomp q -> path_dir (render q) = render (removelast q).
Proof.
  intros Hq. destruct q as [|x q'] using rev_ind; [reflexivity|]. clear IHq'.
  rewrite removelast_last. apply Forall_app in Hq. destruct Hq as (Hq' & Hx).
  inversion Hx as [|? ? [_ Hxn] _]; subst.
  unfold path_dir. rewrite render_snoc. rewrite rev_app_distr. cbn [rev]. rewrite <- app_assoc. cbn [app].
  rewrite drop_to_slash_app by exact Hxn. cbn [rev]. rewrite rev_involutive.
  destruct q' as [|d q'']; [reflexivity|].
  set (qq := d :: q'') in *.
  change (render qq ++ [SLASH]) with (render qq ++ SLASH :: []).
  rewrite clean_render_slash by exact Hq'. change (split_slash []) with [@nil N]. cbn [fold_left].
  rewrite clean_step_empty, rev_involutive. reflexivity.
Qed.

(* lenient resolution = Clean's loop *)
Lemma resolve_rel_fold cs : forall d, Forall okc d ->
  rev (fold_left (clean_step true) cs (rev d)) = resolve_rel d cs.
Proof.
  induction cs as [|s r IH]; intros d Hd; simpl; [apply rev_involutive|].
  unfold clean_step at 2.
  destruct (is_empty s || is_dot s) eqn:E12; [apply IH; exact Hd|].
  destruct (is_dotdot s) eqn:E3.
  - destruct d as [|x d'] using rev_ind.
    + simpl. apply (IH [] Hd).
    + clear IHd'. rewrite rev_app_distr. cbn [rev app]. rewrite removelast_last.
      apply Forall_app in Hd. destruct Hd as (Hd' & Hx). inversion Hx as [|? ? Hxo _]; subst.
      destruct (okc_flags x Hxo) as (_ & _ & E). rewrite E. apply IH. exact Hd'.
  - apply orb_false_iff in E12. destruct E12 as (E1 & E2).
    change (s :: rev d) with ([s] ++ rev d). change [s] with (rev [s]). rewrite <- rev_app_distr.
    apply IH. apply Forall_app. split; [exact Hd|]. constructor; [apply flags_okc; auto|constructor].
Qed.

Lemma resolve_rel_okcomp cs : forall d, Forall okcomp d -> Forall noslash cs -> Forall okcomp (resolve_rel d cs).
Proof.
  induction cs as [|s r IH]; intros d Hd Hc; simpl; [exact Hd|].
  inversion Hc as [|? ? Hs Hr]; subst.
  destruct (is_empty s || is_dot s) eqn:E12; [apply IH; auto|].
  destruct (is_dotdot s) eqn:E3.
  - apply IH; [|exact Hr]. destruct d as [|x d'] using rev_ind; [constructor|].
    rewrite removelast_last. apply Forall_app in Hd. destruct Hd; assumption.
  - apply orb_false_iff in E12. destruct E12 as (E1 & E2).
    apply IH; [|exact Hr]. apply Forall_app. split; [exact Hd|].
    constructor; [|constructor]. split; [apply flags_okc; auto|exact Hs].
Qed.

Lemma removelast_okcomp q : Forall okcomp q -> Forall okcomp (removelast q).
Proof.
  intros Hq. destruct q as [|x q'] using rev_ind; [constructor|].
  rewrite removelast_last. apply Forall_app in Hq. destruct Hq; assumption.
Qed.

(* WStat's rel for a relative name *)
Lemma rename_rel_resolve q n : Forall okcomp q -> n <> [] -> path_is_abs n = false ->
  ufs_rename_rel (render q) n = render (resolve_rel (removelast q) (split_slash n)).
Proof.
  intros Hq Hn Ha. unfold ufs_rename_rel. rewrite Ha.
  rewrite path_dir_render by exact Hq.
  rewrite path_join2; [|discriminate|exact Hn].
  pose proof (removelast_okcomp q Hq) as Hq'.
  rewrite clean_render_slash by exact Hq'.
  rewrite resolve_rel_fold by (apply okcomp_okc; exact Hq'). reflexivity.
Qed.

(* fullPath on rendered proper components: only a backslash can make it refuse *)
Lemma forallb_goodb_false q : Forall okcomp q -> forallb goodb q = false -> has_bslash (render q) = true.
Proof.
  intros Hq Hf.
  destruct (has_bslash (render q)) eqn:Eb; [reflexivity|]. exfalso.
  apply has_bslash_false in Eb.
  assert (Hg : Forall good q).
  { apply Forall_forall. intros c Hc. rewrite Forall_forall in Hq. split; [apply Hq; exact Hc|].
    intros Hin. apply Eb. right. apply (join_chars q c BSLASH Hc Hin). }
  apply forallb_good in Hg. congruence.
Qed.

Lemma fullpath_weak bcs q : Forall okcomp bcs -> Forall okcomp q ->
  fs_fullpath (render bcs) (render q) = if forallb goodb q then Some (render (bcs ++ q)) else None.
Proof.
  intros Hb Hq. destruct (forallb goodb q) eqn:Ef.
  - apply forallb_good in Ef. apply (canon_fullpath bcs q Hb Ef).
  - unfold fs_fullpath. rewrite (forallb_goodb_false q Hq Ef). rewrite orb_true_r. reflexivity.
Qed.

(* ---------- flags and permissions ---------- *)

Definition oflag_eqb (a b : oflag) : bool :=
  match of_acc a, of_acc b with
  | RDONLY, RDONLY | WRONLY, WRONLY | RDWR, RDWR => true
  | _, _ => false
  end && Bool.eqb (of_trunc a) (of_trunc b) && Bool.eqb (of_creat a) (of_creat b).

Lemma oflag_eqb_eq a b : oflag_eqb a b = true -> a = b.
Proof.
  destruct a as [aa at_ ac], b as [ba bt bc]. unfold oflag_eqb. simpl.
  intros E. apply andb_true_iff in E. destruct E as (E & E3). apply andb_true_iff in E. destruct E as (E1 & E2).
  apply Bool.eqb_prop in E2, E3. subst.
  destruct aa, ba; try discriminate; reflexivity.
Qed.

Definition all_modes : list N := map N.of_nat (seq 0 256).

(* oflags against open(5), all 256 mode bytes *)
Lemma oflags_sweep : forallb (fun m => oflag_eqb (ufs_oflags m) (spec_oflags m)) all_modes = true.
Proof. vm_compute. reflexivity. Qed.

Lemma oflags_eq m : m < 256 -> ufs_oflags m = spec_oflags m.
Proof.
  intros Hm. apply oflag_eqb_eq.
  pose proof oflags_sweep as Hs. rewrite forallb_forall in Hs. apply Hs.
  unfold all_modes. rewrite <- (N2Nat.id m). apply in_map. apply in_seq. lia.
Qed.

Lemma perm_eq p : N.land p 511 = p mod 512.
Proof. change 511 with (N.ones 9). rewrite N.land_ones. reflexivity. Qed.

(* ---------- the instance ---------- *)

Section Mirror.
  Context {H : Type}.
  Variable hc : H -> hcall -> H * hresult.
  Variable bcs : list bstr.
  Hypothesis base_ok : Forall okcomp bcs.

  Let A := impl_alg (render bcs).
  Let B := spec_alg bcs.
  Let Pinv := Forall good.
  Let Pweak := Forall okcomp.

  Lemma m_full q : Pweak q -> ua_fullpath A (render q) = ua_fullpath B q.
  Proof. intros Hq. simpl. apply fullpath_weak; auto. Qed.

  Lemma m_full_inv q hp : ua_fullpath B q = Some hp -> Pinv q.
  Proof. simpl. destruct (forallb goodb q) eqn:E; [|discriminate]. intros _. apply forallb_good. exact E. Qed.

  Lemma m_host q : Pinv q -> ua_hostpath A (render q) = ua_hostpath B q.
  Proof. intros Hq. simpl. apply (canon_fullpath bcs q base_ok Hq). Qed.

  Lemma m_walk q ns : Pinv q -> ua_names_ok B ns = true -> ns <> [] ->
    ua_walk A (render q) ns = map_res render (ua_walk B q ns) /\ (forall q', ua_walk B q ns = Ok q' -> Pweak q').
  Proof.
    intros Hq Hn Hne. change (names_okb true ns = true) in Hn.
    change (ua_walk A (render q) ns) with (walk_name (render q) ns).
    change (ua_walk B q ns) with (resolve_names q ns).
    destruct (walk_name_resolve q ns Hq Hn Hne) as (E & Hg).
    split; [rewrite E; destruct (resolve_names q ns); reflexivity|].
    intros q' Eq. apply good_okcomp. apply Hg. exact Eq.
  Qed.

  Lemma m_create q n : Pinv q ->
    ua_create A (render q) n = map_res render (ua_create B q n) /\ (forall q', ua_create B q n = Ok q' -> Pweak q').
  Proof.
    intros Hq. change (ua_create A (render q) n) with (create_name (render q) n).
    change (ua_create B q n) with (if goodb n then Ok (q ++ [n]) else Err []).
    rewrite create_name_resolve by exact Hq. destruct (goodb n) eqn:Eg; cbn [map_res].
    - split; [reflexivity|]. intros q' E. inversion E; subst. apply Forall_app. split; [apply good_okcomp; exact Hq|].
      constructor; [|constructor]. apply goodb_spec in Eg. destruct Eg; assumption.
    - split; [reflexivity|discriminate].
  Qed.

  Lemma m_rename q n : Pinv q -> n <> [] ->
    rename_target A (render q) n = option_map (fun x => (render (fst x), snd x)) (rename_target B q n).
  Proof.
    intros Hq Hn. pose proof (good_okcomp q Hq) as Hqo. unfold rename_target. simpl.
    destruct (path_is_abs n) eqn:Ea.
    - unfold ufs_rename_rel. rewrite Ea. reflexivity.
    - rewrite rename_rel_resolve by auto.
      assert (Hw : Forall okcomp (resolve_rel (removelast q) (split_slash n))).
      { apply resolve_rel_okcomp; [apply removelast_okcomp; exact Hqo|apply split_noslash_all]. }
      rewrite fullpath_weak by auto.
      destruct (forallb goodb (resolve_rel (removelast q) (split_slash n))); reflexivity.
  Qed.

  Lemma m_isroot q : Pinv q -> ua_is_root A (render q) = ua_is_root B q.
  Proof.
    intros Hq. simpl. destruct q as [|c q']; [reflexivity|].
    inversion Hq as [|? ? [[[Hc _] _] _] _]; subst.
    unfold ufs_is_root, render.
    pose proof (join_nonempty c q' Hc) as Hj.
    destruct (join_slash (c :: q')) as [|j0 jt] eqn:Ej; [exfalso; apply Hj; first [exact Ej | reflexivity]|]. reflexivity.
  Qed.

  Lemma m_b_walk_total q ns : Pinv q -> ua_walk B q ns <> Panic /\ ua_walk B q ns <> Hang.
  Proof.
    intros _. simpl. revert q. induction ns as [|s r IH]; intros q; simpl; [split; discriminate|].
    destruct (is_dotdot s); [destruct q; [split; discriminate|apply IH]|apply IH].
  Qed.

  Lemma m_b_create_total q n : Pinv q -> ua_create B q n <> Panic /\ ua_create B q n <> Hang.
  Proof. intros _. simpl. destruct (goodb n); split; discriminate. Qed.

  (* C19: the Go layer and the spec layer give the same run on every host *)
  Theorem mirror ops h : Forall op_wf ops ->
    run hc A (init h) ops = mapp render (run hc B (init h) ops).
  Proof.
    intros Hw.
    change (init (P:=bstr) h) with (mapst render (init (P:=list bstr) h)).
    apply (run_sim hc A B render Pinv Pweak).
    - exact good_okcomp.
    - split; [reflexivity|constructor].
    - intros ns. simpl. apply names_ok_eq.
    - reflexivity.
    - exact m_full.
    - exact m_full_inv.
    - exact m_host.
    - exact m_walk.
    - exact m_create.
    - exact m_rename.
    - exact m_isroot.
    - intros m Hm. simpl. apply oflags_eq; exact Hm.
    - intros p. simpl. apply perm_eq.
    - exact m_b_walk_total.
    - exact m_b_create_total.
    - apply init_inv.
    - exact Hw.
  Qed.
End Mirror.
