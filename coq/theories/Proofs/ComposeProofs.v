(* Composition proof: every run of the joint system (Model/Compose.v) keeps the joint invariant
   (client half ComposeProofsCli.v + server half ComposeProofsSrv.v), and its history satisfies the
   three premises of C09_own_result - which are thereby DERIVED from Tags.hstep and Serve.step. *)
From stdpp Require Import nmap fin_maps gmap.
From Coq Require Import List Arith PeanoNat NArith Bool Lia.
From P9 Require Import Model.WireTypes Model.Pipeline Proofs.PipelineProofs Gen.GenReplyTypes
  Model.Tags Proofs.TagsProofsAlloc Proofs.TagsProofs
  Model.Serve Proofs.ServeProofs
  Model.Compose Proofs.ComposeProofsHist Proofs.ComposeProofsSrv Proofs.ComposeProofsCli.
Import ListNotations.
Open Scope N_scope.

(* ------------------------------------------------------------------ the three premises, inductively *)

(* reply_own_hyp without the indirection through [answer]: the reply is the answer to the message of
   the request it belongs to *)
Definition reply_own' (handler : bstr -> hres) (h : list gev) : Prop :=
  forall j t r, nth_error h j = Some (GRep t r) ->
    exists i c q, (i < j)%nat /\ nth_error h i = Some (GReq c t q) /\ r = reply_msg handler q /\
                  no_req_between h t i j /\ no_rep_between h t i j.

Definition H3 (handler : bstr -> hres) (h : list gev) : Prop :=
  own_reply_hyp h /\ tag_reuse_hyp h /\ reply_own' handler h.

Lemma H3_nil handler : H3 handler [].
Proof.
  split; [|split].
  - intros k c r H. destruct k; discriminate H.
  - intros i i' c c' t q q' _ H. destruct i; discriminate H.
  - intros j t r H. destruct j; discriminate H.
Qed.

Lemma nth_ext3 {A} (h : list A) x l k g : nth_error (h ++ x :: l) k = Some g ->
  ((k < length h)%nat /\ nth_error h k = Some g) \/ (k = length h /\ g = x) \/ ((length h < k)%nat /\ In g l).
Proof.
  intros H. apply nth_app_split in H as [[Hl H]|[Hl H]]; [now left|right].
  destruct (k - length h)%nat as [|n] eqn:E.
  - left. cbn in H. injection H as <-. split; [lia|reflexivity].
  - right. cbn in H. split; [lia|]. eapply nth_error_In; eauto.
Qed.

Lemma old_no_rep h o t i j : (j <= length h)%nat -> no_rep_between h t i j -> no_rep_between (h ++ o) t i j.
Proof. intros Hj H k r Hk Hn. apply (H k r Hk). rewrite nth_error_app1 in Hn by lia. exact Hn. Qed.
Lemma old_no_req h o t i j : (j <= length h)%nat -> no_req_between h t i j -> no_req_between (h ++ o) t i j.
Proof. intros Hj H k c q Hk Hn. apply (H k c q Hk). rewrite nth_error_app1 in Hn by lia. exact Hn. Qed.

Lemma open_no_rep h o t i c q : open_at h t i c q -> no_rep_between (h ++ o) t i (length h).
Proof.
  intros [_ Hq] k r Hk Hn. rewrite nth_error_app1 in Hn by lia.
  specialize (Hq k _ (proj1 Hk) Hn). rewrite about_rep in Hq. discriminate.
Qed.
Lemma open_no_req h o t i c q : open_at h t i c q -> no_req_between (h ++ o) t i (length h).
Proof.
  intros [_ Hq] k c0 q0 Hk Hn. rewrite nth_error_app1 in Hn by lia.
  specialize (Hq k _ (proj1 Hk) Hn). rewrite about_req in Hq. discriminate.
Qed.

(* what was true of the old positions stays true *)
Lemma own_reply_old h o k c r : own_reply_hyp h -> nth_error h k = Some (GDel c r) ->
  exists i j t q, (i < j < k)%nat /\ nth_error (h ++ o) i = Some (GReq c t q) /\
                  nth_error (h ++ o) j = Some (GRep t r) /\ no_rep_between (h ++ o) t i j.
Proof.
  intros Ho Hk. destruct (Ho k c r Hk) as (i & j & t & q & Hij & Hi & Hj & Hn).
  exists i, j, t, q. split; [exact Hij|]. split; [apply nth_app_l, Hi|]. split; [apply nth_app_l, Hj|].
  apply old_no_rep; [|exact Hn]. apply nth_lt in Hj. lia.
Qed.
Lemma tag_reuse_old h o i i' c c' t q q' : tag_reuse_hyp h -> (i < i')%nat ->
  nth_error h i = Some (GReq c t q) -> nth_error h i' = Some (GReq c' t q') ->
  exists k r, (i < k < i')%nat /\ nth_error (h ++ o) k = Some (GRep t r).
Proof.
  intros Ht Hl Hi Hi'. destruct (Ht _ _ _ _ _ _ _ Hl Hi Hi') as (k & r & Hk & Hr).
  exists k, r. split; [exact Hk|apply nth_app_l, Hr].
Qed.
Lemma reply_own_old handler h o j t r : reply_own' handler h -> nth_error h j = Some (GRep t r) ->
  exists i c q, (i < j)%nat /\ nth_error (h ++ o) i = Some (GReq c t q) /\ r = reply_msg handler q /\
                no_req_between (h ++ o) t i j /\ no_rep_between (h ++ o) t i j.
Proof.
  intros Hr Hj. destruct (Hr j t r Hj) as (i & c & q & Hij & Hi & Heq & N1 & N2).
  exists i, c, q. split; [exact Hij|]. split; [apply nth_app_l, Hi|]. split; [exact Heq|].
  apply nth_lt in Hj. split; [apply old_no_req|apply old_no_rep]; auto; lia.
Qed.

(* a request frame goes onto the wire with a tag all of whose earlier requests have been answered *)
Lemma H3_req handler h c t q : H3 handler h -> closed h t -> H3 handler (h ++ [GReq c t q]).
Proof.
  intros (Ho & Ht & Hr) Hc. split; [|split].
  - intros k c0 r0 Hk. apply nth_ext3 in Hk as [[_ Hk]|[[_ Hk]|[_ []]]]; [|discriminate].
    eapply own_reply_old; eauto.
  - intros i i' c0 c' t0 q0 q' Hl Hi Hi'.
    apply nth_ext3 in Hi' as [[Hl' Hi']|[[-> Hi']|[_ []]]].
    + apply nth_ext3 in Hi as [[_ Hi]|[[-> _]|[_ []]]]; [|lia]. eapply tag_reuse_old; eauto.
    + injection Hi' as <- <- <-. apply nth_ext3 in Hi as [[_ Hi]|[[-> _]|[_ []]]]; [|lia].
      destruct (Hc _ _ _ Hi) as (k & r & Hk & Hkr). exists k, r. pose proof (nth_lt _ _ _ Hkr).
      split; [lia|apply nth_app_l, Hkr].
  - intros j t0 r0 Hj. apply nth_ext3 in Hj as [[_ Hj]|[[_ Hj]|[_ []]]]; [|discriminate].
    eapply reply_own_old; eauto.
Qed.

(* a reply frame reaches the client: it answers the request that is open for its tag, and is handed
   (if at all) to the call of that request *)
Lemma H3_rep handler h t i c q dels : H3 handler h -> open_at h t i c q ->
  (forall g, In g dels -> g = GDel c (reply_msg handler q)) ->
  H3 handler (h ++ GRep t (reply_msg handler q) :: dels).
Proof.
  intros (Ho & Ht & Hr) Hop Hd. pose proof (nth_lt _ _ _ (proj1 Hop)) as Hil. split; [|split].
  - intros k c0 r0 Hk. apply nth_ext3 in Hk as [[_ Hk]|[[_ Hk]|[Hl Hk]]]; [|discriminate|].
    + eapply own_reply_old; eauto.
    + apply Hd in Hk. injection Hk as -> ->. exists i, (length h), t, q.
      split; [lia|]. split; [apply nth_app_l, (proj1 Hop)|]. split.
      * rewrite nth_error_app2 by lia. rewrite Nat.sub_diag. reflexivity.
      * eapply open_no_rep; eauto.
  - intros i0 i' c0 c' t0 q0 q' Hl Hi Hi'.
    apply nth_ext3 in Hi' as [[Hl' Hi']|[[_ Hi']|[_ Hi']]]; [|discriminate|apply Hd in Hi'; discriminate].
    apply nth_ext3 in Hi as [[_ Hi]|[[-> _]|[Hl2 _]]]; [|lia|lia]. eapply tag_reuse_old; eauto.
  - intros j t0 r0 Hj. apply nth_ext3 in Hj as [[_ Hj]|[[-> Hj]|[_ Hj]]]; [| |apply Hd in Hj; discriminate].
    + eapply reply_own_old; eauto.
    + injection Hj as -> ->. exists i, c, q. split; [exact Hil|]. split; [apply nth_app_l, (proj1 Hop)|].
      split; [reflexivity|]. split; [eapply open_no_req|eapply open_no_rep]; eauto.
Qed.

(* ------------------------------------------------------------------ the joint invariant *)

Record JInv (handler : bstr -> hres) (J : jstate) (h : list gev) : Prop := {
  ji_sinv : SInv (j_sv J);
  ji_srv : SrvI handler h (j_sent J) (j_sv J) (j_s2c J);
  ji_len : length (j_sent J) = N.to_nat (nsent (j_sv J));
  ji_cli : CliI (j_cl J) (scnt (j_sv J) (j_s2c J)) h
}.

Lemma JInv_init handler : JInv handler jinit [].
Proof.
  constructor; cbn.
  - apply SInv_init.
  - apply SrvI_init.
  - reflexivity.
  - eapply CliI_less; [apply CliI_init|]. intros t. cbn. unfold scnt, ci, cr, cw, cs, ctm. cbn. rewrite lookup_empty. lia.
Qed.

(* ---- inversion of the joint step ---- *)
Lemma jstep_JS handler J e J' g : jstep handler J (JS e) = Some (J', g) ->
  (forall a b c, e <> ESend a b c) /\ (forall a b, e <> EFinish a b) /\
  exists sv' outs, step R (j_sv J) e = Some (sv', outs) /\ g = [] /\
    J' = {| j_cl := j_cl J; j_sv := sv'; j_s2c := j_s2c J ++ sframes outs; j_sent := j_sent J |}.
Proof.
  intros H. unfold jstep in H.
  destruct e; try discriminate H;
    (split; [discriminate|]); (split; [discriminate|]);
    match type of H with context [step ?v ?s ?e] => destruct (step v s e) as [[sv' outs]|] eqn:Hs end;
    try discriminate H; injection H as <- <-; eauto.
Qed.

Lemma jstep_JC handler J e J' g : jstep handler J (JC e) = Some (J', g) ->
  (forall t r, e <> EResp t r) /\
  exists sv' sent', put_frames (j_sv J) (j_sent J) (snd (hstep (j_cl J) e)) = (sv', sent', g) /\
    J' = {| j_cl := fst (hstep (j_cl J) e); j_sv := sv'; j_s2c := j_s2c J; j_sent := sent' |}.
Proof.
  intros H. unfold jstep in H.
  destruct e; try discriminate H; (split; [discriminate|]);
    match type of H with context [hstep ?s ?e] => destruct (hstep s e) as [cl' outs] eqn:Hs end;
    cbn [fst snd];
    match type of H with context [put_frames ?a ?b ?c] => destruct (put_frames a b c) as [[sv' sent'] g'] eqn:Hp end;
    injection H as <- <-; eauto.
Qed.

Lemma put_frames_none sv sent outs : (forall t c mt, ~ In (Tags.OFrame t c mt) outs) ->
  put_frames sv sent outs = (sv, sent, []).
Proof.
  induction outs as [|o outs IH]; intros H; [reflexivity|].
  assert (Hr : forall t c mt, ~ In (Tags.OFrame t c mt) outs) by (intros t c mt Hin; apply (H t c mt); now right).
  destruct o; cbn [put_frames]; try (apply IH; exact Hr).
  exfalso. apply (H t c mt). now left.
Qed.

Lemma hstep_no_frame cl e : e <> EWrote -> forall t c mt, ~ In (Tags.OFrame t c mt) (snd (hstep cl e)).
Proof.
  intros Hne t0 c0 mt0. step_cases cl e; intros Hin;
    try (destruct Hin as [Hin|[]]; discriminate); try (destruct Hin; fail); try contradiction.
  match goal with Hf : is_flag_event _ = true |- _ => apply (flag_event_outputs _ _ Hf) in Hin end. discriminate.
Qed.

Lemma step_nsent sv e sv' o : step R sv e = Some (sv', o) -> (forall a b c, e <> ESend a b c) -> nsent sv' = nsent sv.
Proof.
  intros H Hne. destruct e; step_inv H; proj_simpl;
    repeat match goal with
    | Hc : cancel_rid _ _ = _ |- _ => rewrite (cancel_rid_frame _ _ _ _ Hc); clear Hc; proj_simpl
    | Hc : cancel_list _ _ = _ |- _ => rewrite (cancel_list_frame _ _ _ _ Hc); clear Hc; proj_simpl
    end; try reflexivity.
  exfalso. eapply Hne; reflexivity.
Qed.

Lemma scnt_cons sv f rest t : scnt sv (f :: rest) t = (scnt sv rest t + tagb t (f_tag f))%nat.
Proof. unfold scnt, cs. cbn. lia. Qed.

Lemma quiet_req t t0 c q : t <> t0 -> quiet t [GReq c t0 q].
Proof. intros Hne g [<-|[]]. cbn. apply N.eqb_neq. congruence. Qed.

Lemma hevent_wrote_dec (e : hevent) : {e = EWrote} + {e <> EWrote}.
Proof. destruct e; try (right; discriminate). left. reflexivity. Qed.

(* ---- one joint step ---- *)
Lemma jstep_inv handler J h ev J' g : JInv handler J h -> H3 handler h ->
  jstep handler J ev = Some (J', g) -> JInv handler J' (h ++ g) /\ H3 handler (h ++ g).
Proof.
  intros [Is Iv Il Ic] Hh H. destruct ev as [e|e|rid|].
  - (* client *)
    apply jstep_JC in H as (Hne & sv' & sent' & Hp & ->).
    destruct (hevent_wrote_dec e) as [->|Hnw].
    + (* the writer's WriteFcall succeeded *)
      revert Hp. cbn [hstep]. destruct (h_writer (j_cl J)) as [w|] eqn:Hw; cbn [fst snd put_frames].
      * set (m := qbody (qmsg (w_call w) (w_mt w))). set (q := qmsg (w_call w) (w_mt w)).
        set (cl' := with_data (j_cl J) (h_out (j_cl J)) (h_sel (j_cl J)) (h_pend (j_cl J)) None).
        assert (Hj : jobs (j_cl J) = w :: jobs cl') by (unfold jobs; subst cl'; simp_st; rewrite Hw; reflexivity).
        assert (Hw1 : (1 <= cj (j_cl J) (w_tag w))%nat) by (apply cj_in; rewrite Hj; now left).
        assert (Hq : forall t, (1 <= scnt (j_sv J) (j_s2c J) t)%nat -> quiet t [GReq (N.to_nat (w_call w)) (w_tag w) q]).
        { intros t Ht. apply quiet_req. intros ->. pose proof (c_cnt _ _ _ Ic (w_tag w)). lia. }
        pose proof (SrvI_hist _ _ _ _ _ _ Iv Hq) as Iv'.
        assert (Hh' : H3 handler (h ++ [GReq (N.to_nat (w_call w)) (w_tag w) q])) by (apply H3_req; [exact Hh|apply (c_jclosed _ _ _ Ic), Hw1]).
        destruct (step R (j_sv J) (ESend (nsent (j_sv J)) (w_tag w) (KReq m))) as [[sv1 o1]|] eqn:Hs;
          intros [= <- <- <-]; (split; [|exact Hh']).
        -- destruct (srv_send _ _ _ _ _ _ _ _ _ Iv' Il (ex_intro _ _ (ex_intro _ _ (ex_intro _ _ (conj (open_new h _ _ q) eq_refl)))) Hs)
             as (Iv1 & Il1 & Hc1).
           constructor; cbn [j_cl j_sv j_s2c j_sent].
           ++ eapply step_SInv; eauto.
           ++ exact Iv1.
           ++ exact Il1.
           ++ eapply cli_wrote; [exact Ic|exact Hj|reflexivity|]. intros t. rewrite Hc1. lia.
        -- constructor; cbn [j_cl j_sv j_s2c j_sent]; try assumption.
           eapply cli_wrote; [exact Ic|exact Hj|reflexivity|]. intros t. lia.
      * intros [= <- <- <-]. rewrite app_nil_r. split; [|exact Hh]. constructor; assumption.
    + (* any other client event: nothing reaches the wire *)
      rewrite (put_frames_none _ _ _ (hstep_no_frame _ _ Hnw)) in Hp. injection Hp as <- <- <-.
      rewrite app_nil_r. split; [|exact Hh]. constructor; cbn [j_cl j_sv j_s2c j_sent]; try assumption.
      apply cli_step_quiet; assumption.
  - (* server *)
    apply jstep_JS in H as (Hn1 & Hn2 & sv' & outs & Hs & -> & ->). rewrite app_nil_r. split; [|exact Hh].
    assert (Hc1 : forall t, (scnt (j_sv J) (j_s2c J) t <= 1)%nat) by (intros t; pose proof (c_cnt _ _ _ Ic t); lia).
    destruct (srv_step _ _ _ _ _ _ _ _ Is Iv Hc1 Hs Hn1 Hn2) as [Iv' Hc'].
    constructor; cbn [j_cl j_sv j_s2c j_sent].
    + eapply step_SInv; eauto.
    + exact Iv'.
    + rewrite (step_nsent _ _ _ _ Hs Hn1). exact Il.
    + eapply CliI_less; [exact Ic|exact Hc'].
  - (* the handler returns *)
    unfold jstep in H. destruct (nth_error (j_sent J) (N.to_nat rid)) as [m|] eqn:Hm; [|discriminate].
    destruct (step R (j_sv J) (EFinish rid (handler m))) as [[sv' o]|] eqn:Hs; [|discriminate].
    injection H as <- <-. rewrite app_nil_r. split; [|exact Hh].
    destruct (srv_finish _ _ _ _ _ _ _ _ _ Iv Hm Hs) as [Iv' Hc'].
    constructor; cbn [j_cl j_sv j_s2c j_sent].
    + eapply step_SInv; eauto.
    + exact Iv'.
    + rewrite (step_nsent _ _ _ _ Hs) by discriminate. exact Il.
    + eapply CliI_less; [exact Ic|]. intros t. rewrite Hc'. lia.
  - (* a reply frame reaches the client *)
    unfold jstep in H. destruct (j_s2c J) as [|f rest] eqn:Hs2c; [discriminate|].
    destruct (hstep (j_cl J) (EResp (f_tag f) (mk_reply f))) as [cl' outs] eqn:Hst. injection H as <- <-.
    destruct (v_s2c _ _ _ _ _ Iv f (or_introl eq_refl)) as (i & c & q & Hop & Hpl).
    assert (Hrm : pmsg (f_pl f) = reply_msg handler q) by (unfold reply_msg; rewrite Hpl; reflexivity).
    destruct (c_open _ _ _ Ic _ _ _ _ Hop) as (c' & Hout & Hcc).
    (* what the loop does with it *)
    assert (Hcl : jobs cl' = jobs (j_cl J) /\ (forall t0, t0 <> f_tag f -> h_out cl' !! t0 = h_out (j_cl J) !! t0) /\
                  (outs = [] \/ outs = [ODeliver c' (mk_reply f)])).
    { revert Hst. cbn [hstep]. destruct (h_running (j_cl J)); [|intros [= <- <-]; auto].
      rewrite Hout. intros [= <- <-]. split; [reflexivity|]. split; [|now right].
      intros t0 Hn. simp_st. apply lookup_delete_ne. congruence. }
    destruct Hcl as (Hj & Hoo & Houts).
    assert (Hd : forall g, In g (deliveries_of f outs) -> g = GDel c (reply_msg handler q)).
    { intros g Hg. destruct Houts as [-> | ->]; [destruct Hg|]. cbn in Hg. destruct Hg as [<-|[]]. rewrite Hrm, Hcc. reflexivity. }
    rewrite Hrm. split; [|apply (H3_rep _ _ _ i c q); assumption].
    assert (Hcnt : forall t0, (1 <= scnt (j_sv J) rest t0)%nat -> t0 <> f_tag f).
    { intros t0 Ht ->. pose proof (c_cnt _ _ _ Ic (f_tag f)) as Hle. rewrite scnt_cons, tagb_same in Hle. lia. }
    constructor; cbn [j_cl j_sv j_s2c j_sent]; try assumption.
    + apply SrvI_hist.
      * eapply SrvI_shrink; [exact Iv|..]; eauto. intros f0 Hf0. now right.
      * intros t0 Ht. apply quiet_other_rep; [apply Hcnt, Ht|].
        intros g Hg. apply Hd in Hg. eauto.
    + eapply cli_resp; [exact Ic| |exact Hj|exact Hoo|].
      * intros t0. apply scnt_cons.
      * intros g Hg. apply Hd in Hg. eauto.
Qed.

(* ---- every run ---- *)
Lemma jrun_inv handler evs : forall J0 h0 J g, JInv handler J0 h0 -> H3 handler h0 ->
  jrun handler J0 evs = Some (J, g) -> JInv handler J (h0 ++ g) /\ H3 handler (h0 ++ g).
Proof.
  induction evs as [|e evs IH]; intros J0 h0 J g I0 H0 Hr; cbn [jrun] in Hr.
  - injection Hr as <- <-. rewrite app_nil_r. auto.
  - destruct (jstep handler J0 e) as [[J1 g1]|] eqn:Hs; [|discriminate].
    destruct (jrun handler J1 evs) as [[J2 g2]|] eqn:Hr2; [|discriminate]. injection Hr as <- <-.
    destruct (jstep_inv _ _ _ _ _ _ I0 H0 Hs) as [I1 H1]. rewrite app_assoc. eapply IH; eauto.
Qed.

(* the three premises of C09_own_result hold of the history of EVERY joint run *)
Theorem joint_premises handler evs J h : jrun handler jinit evs = Some (J, h) ->
  own_reply_hyp h /\ tag_reuse_hyp h /\ reply_own_hyp (answer_at handler h) h.
Proof.
  intros Hr. destruct (jrun_inv handler evs jinit [] J h (JInv_init handler) (H3_nil handler) Hr) as [_ (Ho & Ht & Hp)].
  cbn [app] in *. split; [exact Ho|]. split; [exact Ht|].
  intros j t r Hj. destruct (Hp j t r Hj) as (i & c & q & Hij & Hi & Heq & N1 & N2).
  exists i, c, q. split; [exact Hij|]. split; [exact Hi|]. split; [|auto].
  unfold answer_at. rewrite Hi. exact Heq.
Qed.

(* concurrent callers each obtain their own results: every reply the client transport hands to a
   call is the server's answer to that call's own request message *)
Theorem own_result_composed handler evs J h : jrun handler jinit evs = Some (J, h) ->
  forall k c r, nth_error h k = Some (GDel c r) ->
    exists i t q, (i < k)%nat /\ nth_error h i = Some (GReq c t q) /\ r = reply_msg handler q.
Proof.
  intros Hr k c r Hk. destruct (joint_premises _ _ _ _ Hr) as (Ho & Ht & Hp).
  destruct (own_result (answer_at handler h) h Ho Ht Hp k c r Hk) as (i & t & q & Hik & Hi & Heq).
  exists i, t, q. split; [exact Hik|]. split; [exact Hi|]. unfold answer_at in Heq. rewrite Hi in Heq. exact Heq.
Qed.
