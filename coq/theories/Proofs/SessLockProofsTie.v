(* C14 - the tie between Model/SessLock.v and the CURRENT text of sfilesys.go that does not depend on
   any run.  Before every `make` the translator (harness/cmd/gen/sesslock.go) re-derives, through go/types,
   for every exported method of the session type the SET of event traces over all syntactic paths, with all
   same-package helpers and closures inlined: sync.Map calls, Mutex Lock/Unlock (by variable, numbered by
   first appearance), reads/writes of the fields of the mutex-carrying struct, calls through the package's
   exported interfaces (FileSys, Dirent, File, AuthFile), deferred calls at the return.  Gen/GenSessLock.v
   publishes per method the number of traces and the SHA-256 of their sorted text (and the traces in a
   comment).  Below are the values for the source the programs of Model/SessLock.v were transcribed from
   (/repo e9fb232; the traces themselves: design/C14-skeleton.txt).

   The lemma fails to compile as soon as some path's event sequence changes: a return added between a Lock
   and its defer, a moved or dropped Unlock, another table or FileSys action, a field access moved out of
   the lock, TryLock for Lock.  It does NOT fail for renames of anything unexported, re-ordered
   declarations, declaration style, helpers extracted or inlined, comments (neutral/a1..c6).  When it fails:
   diff the comment of Gen/GenSessLock.v against design/C14-skeleton.txt, re-read the function,
   re-transcribe its program, re-run [wf_prog_of], then replace the method's line here. *)
From Coq Require Import List String.
From P9 Require Import Gen.GenSessLock.
Import ListNotations.
Open Scope string_scope.

Definition transcribed_skeleton : list (string * nat * string) :=
  [ ("Attach", 51%nat, "78d381eef8348acf1d0a6d3cdc981433873c4ef781ede7663801c4adabe3e271");
    ("Auth", 9%nat, "0be1c8fb58f7b5a66bfc4ca71440b745abd009a7339e1b461a1763dc0de26574");
    ("Clunk", 5%nat, "6db9cb4cb8ae18f04bb8db6f8240fd15e201923a26053bdafbdcb3d33890f7db");
    ("Create", 76%nat, "c7ebecf40f76c05d116d284ca56b2e4b39e1336d3a700e34b5f374e74c157caa");
    ("Open", 44%nat, "07ff85e22efecf01a35bc64c49c9e7f2f81847217b67742c37f5f002efc943e4");
    ("Read", 16%nat, "a760c702daf7d2d519ee15f5e5f89c0265556b2cf373d55842036166290b8568");
    ("Remove", 5%nat, "6db9cb4cb8ae18f04bb8db6f8240fd15e201923a26053bdafbdcb3d33890f7db");
    ("Stat", 8%nat, "1997820f3e74ed655b1532021cfd15719e66aba410b0d0ea3dd9f12e59912ed4");
    ("Stop", 5%nat, "34194af991a68d43985b39c9c2961b19f2e27fa2c2d43f30d6ad2b0a526be0f6");
    ("Version", 1%nat, "85e4aea19de2d285c91b909a8dcd3d895ad511f5c888998471db1734c996c1ee");
    ("WStat", 8%nat, "a6d12da1ada1507cd10e386e8ca025f6b1eee81e7ea97da3a04a2e871d9c24ac");
    ("Walk", 163%nat, "26ccca3e545123cfcfc179959375a00984af16762123c8b44c721a3fb4ed323d");
    ("Write", 16%nat, "083ef0f91d5376f292d2a13350d6c776abb8d19a06f5c3967f78e11b0f87c96d") ].

Lemma skeleton_unchanged : sesslock_skeleton = transcribed_skeleton.
Proof. reflexivity. Qed.
