(* C14 - the tie between Model/SessLock.v and the CURRENT text of sfilesys.go that does not depend on
   any run: the translator (harness/cmd/gen/sesslock.go) re-extracts, before every `make`, the
   lock-protocol skeleton of every function the model transcribes - branch structure, returns, defers,
   Lock/Unlock, sync.Map calls, helper calls, FileSys/Dirent/File/AuthFile calls, SFid field reads and
   writes, in source order - into Gen/GenSessLock.v.  Below is the skeleton the programs of
   Model/SessLock.v were transcribed from (source as of /repo e9fb232).  The lemma fails to compile as soon
   as the source's skeleton differs: an added early return, a moved or dropped defer, a new table or FileSys
   action, a new field write.  Then: re-read the function, re-transcribe its program, re-run
   [wf_prog_of], and replace the function's line here by the generated one. *)
From Coq Require Import List String.
From P9 Require Import Gen.GenSessLock.
Import ListNotations.
Open Scope string_scope.

Definition transcribed_skeleton : list (string * list string) :=
  [ ("Stop", ["for{"; "func{"; "if{"; "return"; "}"; "lock:ref"; "refs:CompareAndDelete"; "get:Ent"; "if{"; "call:delRefAction"; "}"; "unlock:ref"; "return"; "}"; "refs:Range"; "}"; "return"]);
    ("getRef", ["if{"; "return"; "}"; "refs:Load"; "if{"; "return"; "}"; "lock:ref"; "get:Ent"; "if{"; "unlock:ref"; "return"; "}"; "return"]);
    ("link", ["set:Ent"]);
    ("newRef", ["if{"; "return"; "}"; "lock:ref"; "refs:LoadOrStore"; "if{"; "return"; "}"; "return"]);
    ("delRef", ["refs:Load"; "if{"; "return"; "}"; "lock:ref"; "defer-unlock:ref"; "refs:CompareAndDelete"; "if{"; "return"; "}"; "get:Ent"; "if{"; "return"; "}"; "call:delRefAction"; "return"]);
    ("delRefAction", ["if{"; "get:Ent"; "iface:Dirent.Remove"; "}"; "else{"; "get:Ent"; "iface:Dirent.Clunk"; "}"; "set:Ent"; "call:combine_errors"; "return"]);
    ("Auth", ["if{"; "return"; "}"; "iface:FileSys.RequireAuth"; "if{"; "return"; "}"; "call:newRef"; "if{"; "return"; "}"; "defer-unlock:aref"; "iface:FileSys.Auth"; "if{"; "refs:Delete"; "return"; "}"; "set:File"; "return"]);
    ("Attach", ["if{"; "call:getRef"; "if{"; "return"; "}"; "defer-unlock:aref"; "get:File"; "if{"; "return"; "}"; "get:File"; "if{"; "return"; "}"; "iface:AuthFile.Success"; "if{"; "return"; "}"; "}"; "call:newRef"; "if{"; "return"; "}"; "defer-unlock:ref"; "iface:FileSys.Attach"; "if{"; "refs:Delete"; "return"; "}"; "call:link"; "iface:Dirent.Qid"; "return"]);
    ("Clunk", ["call:delRef"; "return"]);
    ("Remove", ["call:delRef"; "return"]);
    ("Walk", ["if{"; "return"; "}"; "call:getRef"; "if{"; "return"; "}"; "defer{"; "unlock:ref"; "if{"; "refs:Delete"; "unlock:newref"; "}"; "}"; "if{"; "call:newRef"; "if{"; "return"; "}"; "}"; "if{"; "if{"; "return"; "}"; "get:Ent"; "iface:Dirent.Walk"; "call:EnsureNonNil"; "if{"; "return"; "}"; "}"; "else{"; "get:Ent"; "call:IsDir"; "if{"; "return"; "}"; "get:Ent"; "iface:Dirent.Walk"; "call:EnsureNonNil"; "if{"; "return"; "}"; "if{"; "return"; "}"; "}"; "if{"; "return"; "}"; "if{"; "get:Ent"; "iface:Dirent.Clunk"; "set:File"; "set:Mode"; "}"; "else{"; "unlock:ref"; "}"; "call:link"; "return"]);
    ("Read", ["call:getRef"; "if{"; "return"; "}"; "defer-unlock:ref"; "get:File"; "if{"; "return"; "}"; "get:Mode"; "if{"; "return"; "}"; "get:File"; "iface:File.Read"; "return"]);
    ("Write", ["call:getRef"; "if{"; "return"; "}"; "defer-unlock:ref"; "get:File"; "if{"; "return"; "}"; "get:Mode"; "get:Mode"; "if{"; "return"; "}"; "get:File"; "iface:File.Write"; "return"]);
    ("Open", ["call:getRef"; "if{"; "return"; "}"; "defer-unlock:ref"; "call:openLocked"; "if{"; "return"; "}"; "get:Ent"; "iface:Dirent.Qid"; "get:File"; "iface:File.IOUnit"; "return"]);
    ("openLocked", ["get:File"; "if{"; "return"; "}"; "get:Ent"; "call:IsDir"; "if{"; "get:Ent"; "iface:Dirent.OpenDir"; "if{"; "call:EnsureNonNil"; "}"; "if{"; "return"; "}"; "call:NewReaddir"; "}"; "else{"; "get:Ent"; "iface:Dirent.Open"; "call:EnsureNonNil"; "if{"; "return"; "}"; "}"; "set:File"; "set:Mode"; "return"]);
    ("Create", ["func{"; "return"; "}"; "if{"; "callvar:fail"; "return"; "}"; "call:getRef"; "if{"; "callvar:fail"; "return"; "}"; "defer-unlock:ref"; "get:Ent"; "call:IsDir"; "if{"; "callvar:fail"; "return"; "}"; "get:Ent"; "iface:Dirent.Create"; "call:EnsureNonNil"; "call:EnsureNonNil"; "if{"; "callvar:fail"; "return"; "}"; "call:IsDir"; "if{"; "call:openLocked"; "if{"; "refs:Delete"; "set:File"; "set:Mode"; "call:link"; "call:delRefAction"; "callvar:fail"; "return"; "}"; "get:File"; "}"; "set:File"; "set:Mode"; "call:link"; "set:File"; "set:Mode"; "get:Ent"; "iface:Dirent.Qid"; "iface:File.IOUnit"; "return"]);
    ("Stat", ["call:getRef"; "if{"; "return"; "}"; "defer-unlock:ref"; "get:Ent"; "iface:Dirent.Stat"; "return"]);
    ("WStat", ["call:getRef"; "if{"; "return"; "}"; "defer-unlock:ref"; "get:Ent"; "iface:Dirent.WStat"; "return"]) ].

Lemma skeleton_unchanged : sesslock_skeleton = transcribed_skeleton.
Proof. reflexivity. Qed.
