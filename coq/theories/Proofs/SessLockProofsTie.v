(* C14 - the tie between Model/SessLock.v and the CURRENT text of sfilesys.go that does not depend on
   any run.  Before every `make` the translator (harness/cmd/gen/sesslock.go) re-derives, through go/types,
   for every exported method of the session type the SET of event traces over all syntactic paths, with all
   same-package helpers and closures inlined: sync.Map calls, Mutex Lock/Unlock (by variable, numbered by
   first appearance), reads/writes of the fields of the mutex-carrying struct, calls through the package's
   exported interfaces (FileSys, Dirent, File, AuthFile), deferred calls at the return; conditions are followed
   as Go evaluates them (short-circuit && || !, a tagless switch = its if-chain) and a repeated read of a
   field within one lock epoch counts once.  Gen/GenSessLock.v
   publishes per method the number of traces and the SHA-256 of their sorted text (and the traces in a
   comment).  Below are the values for the source the programs of Model/SessLock.v were transcribed from
   (/repo e9fb232; the traces themselves: design/C14-skeleton.txt).

   The lemma fails to compile as soon as some path's event sequence changes: a return added between a Lock
   and its defer, a moved or dropped Unlock, another table or FileSys action, a field access moved out of
   the lock, TryLock for Lock.  It does NOT fail for renames of anything unexported, re-ordered
   declarations, declaration style, helpers extracted or inlined, merged/split/inverted conditions, switch
   for if-chain, comments (neutral/a1..e6).  When it fails:
   diff the comment of Gen/GenSessLock.v against design/C14-skeleton.txt, re-read the function,
   re-transcribe its program, re-run [wf_prog_of], then replace the method's line here. *)
From Coq Require Import List String.
From P9 Require Import Gen.GenSessLock.
Import ListNotations.
Open Scope string_scope.

Definition transcribed_skeleton : list (string * nat * string) :=
  [ ("Attach", 47%nat, "6be1aa19b36ec93223881def752a6ddc39b44b009bdd42a9131c7bb956e860fa");
    ("Auth", 9%nat, "0be1c8fb58f7b5a66bfc4ca71440b745abd009a7339e1b461a1763dc0de26574");
    ("Clunk", 5%nat, "e9f77e322b4fa09a4fca067724835e91d7b8addb8a3a6b1bbfa3d1b554e020c8");
    ("Create", 76%nat, "fb4e5339dcda9a60f78a211963da1a4ef2c53c5b1a3b400e39322b7c9f59c1dc");
    ("Open", 44%nat, "210457cab7f2c1419546542ac9fca03212e6d2420218bdbc616413099ef7c9bb");
    ("Read", 16%nat, "3a5520f1172109c37ce0f663d5a789bfe365fb2eaa0b4b77556081153013b653");
    ("Remove", 5%nat, "e9f77e322b4fa09a4fca067724835e91d7b8addb8a3a6b1bbfa3d1b554e020c8");
    ("Stat", 8%nat, "85e484b26a7dd1fce596b92cef393caacfd1782c440b8852e437adb70c9c6112");
    ("Stop", 5%nat, "58ef7f09fcf32c77a69f67f0d0b6751f9d619d1d7cd37a9aa04cda6def16bdaa");
    ("Version", 1%nat, "85e4aea19de2d285c91b909a8dcd3d895ad511f5c888998471db1734c996c1ee");
    ("WStat", 8%nat, "646598e027059189f17590c915686a942d17833a6b31349dc131fa68d165e382");
    ("Walk", 163%nat, "101ef9de12397d8bc32379968d056ea095dca82f04b8664887c57c8bc262638f");
    ("Write", 16%nat, "5a3217737b94aea02068cda9ec69f550ea9a9d9abedc4b5f300159ed6bebc1d3") ].

Lemma skeleton_unchanged : sesslock_skeleton = transcribed_skeleton.
Proof. reflexivity. Qed.
