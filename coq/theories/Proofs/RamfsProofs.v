(* Lemmas about Model/Ramfs.v, part 1: the store, Go slices, the byte-array
   behaviour of Read/Write/WStat (C18_bytes) and absence of panics of the
   entry-level functions. *)
From Coq Require Import List NArith ZArith Bool Lia ZifyBool ZifyNat ZifyN.
From P9 Require Import Base.Res Model.Path Model.Ramfs.
Import ListNotations.
Open Scope Z_scope.

(* ---------------------------------------------------------------- store *)

Lemma length_setn s : forall x n, length (setn s x n) = length s.
Proof. induction s as [|a s IH]; intros [|x] n; cbn; auto. Qed.

Lemma getn_setn_same s : forall x n, (x < length s)%nat -> getn (setn s x n) x = n.
Proof.
  unfold getn. induction s as [|a s IH]; intros [|x] n Hx; cbn in *; try lia; auto.
  apply IH. lia.
Qed.

Lemma getn_setn_other s : forall x y n, x <> y -> getn (setn s x n) y = getn s y.
Proof.
  unfold getn. induction s as [|a s IH]; intros [|x] [|y] n Hxy; cbn; auto; try congruence.
Qed.

Lemma setn_oob s : forall x n, (length s <= x)%nat -> setn s x n = s.
Proof. induction s as [|a s IH]; intros [|x] n Hx; cbn in *; auto; try lia. f_equal. apply IH. lia. Qed.

Lemma getn_oob s x : (length s <= x)%nat -> getn s x = dummy_node.
Proof. intros. unfold getn. apply nth_overflow. auto. Qed.

Lemma getn_app_l s t x : (x < length s)%nat -> getn (s ++ t) x = getn s x.
Proof. intros. unfold getn. apply app_nth1. auto. Qed.

Lemma getn_app_new s n : getn (s ++ [n]) (length s) = n.
Proof. unfold getn. rewrite app_nth2 by lia. rewrite Nat.sub_diag. reflexivity. Qed.

Lemma setn_app_l s t x n : (x < length s)%nat -> setn (s ++ t) x n = setn s x n ++ t.
Proof.
  revert x. induction s as [|a s IH]; intros [|x] Hx; cbn in *; try lia; auto.
  f_equal. apply IH. lia.
Qed.

(* the store split around an index *)
Lemma setn_split s x n : (x < length s)%nat ->
  exists l1 l2, s = l1 ++ getn s x :: l2 /\ setn s x n = l1 ++ n :: l2 /\ length l1 = x.
Proof.
  revert x. induction s as [|a s IH]; intros [|x] Hx; cbn in *; try lia.
  - exists [], s. auto.
  - destruct (IH x ltac:(lia)) as (l1 & l2 & E1 & E2 & E3).
    exists (a :: l1), l2. cbn. unfold getn in *. cbn. rewrite <- E1, E2. auto.
Qed.

(* ---------------------------------------------------------------- Go slices *)

Lemma zlen_nonneg {A} (l : list A) : 0 <= zlen l.
Proof. unfold zlen. lia. Qed.

Lemma go_slice_ok {A} (l : list A) lo hi : 0 <= lo -> lo <= hi -> hi <= zlen l ->
  go_slice l lo hi = Ok (firstn (Z.to_nat (hi - lo)) (skipn (Z.to_nat lo) l)).
Proof.
  intros. unfold go_slice.
  destruct (0 <=? lo) eqn:?; destruct (lo <=? hi) eqn:?; destruct (hi <=? zlen l) eqn:?; try lia. reflexivity.
Qed.

Lemma go_slice_not_panic {A} (l : list A) lo hi : 0 <= lo -> lo <= hi -> hi <= zlen l -> go_slice l lo hi <> Panic.
Proof. intros. rewrite go_slice_ok by auto. discriminate. Qed.

Lemma go_index_ok {A} (l : list A) i d : 0 <= i < zlen l -> go_index l i d = Ok (nth (Z.to_nat i) l d).
Proof.
  intros. unfold go_index. destruct (0 <=? i) eqn:?; destruct (i <? zlen l) eqn:?; try lia. reflexivity.
Qed.

Lemma to_int64_range off : - 2 ^ 63 <= to_int64 off < 2 ^ 63.
Proof.
  unfold to_int64. assert (0 <= Z.of_N off mod 2 ^ 64 < 2 ^ 64) by (apply Z.mod_pos_bound; lia).
  destruct (Z.of_N off mod 2 ^ 64 <? 2 ^ 63) eqn:?; lia.
Qed.

Lemma to_int64_small off : (off < 2 ^ 63)%N -> to_int64 off = Z.of_N off.
Proof.
  intros. unfold to_int64. rewrite Z.mod_small by lia.
  destruct (Z.of_N off <? 2 ^ 63) eqn:?; lia.
Qed.

Lemma to_int64_big off : (2 ^ 63 <= off < 2 ^ 64)%N -> to_int64 off < 0.
Proof.
  intros. unfold to_int64. rewrite Z.mod_small by lia.
  destruct (Z.of_N off <? 2 ^ 63) eqn:?; lia.
Qed.

(* ---------------------------------------------------------------- Read *)

(* the byte-array specification of a file read *)
Definition spec_read (content : list N) (off count : nat) : list N := firstn count (skipn off content).

Lemma ent_read_spec data count off :
  0 <= count -> 0 <= off <= zlen data ->
  ent_read data count off = Ok (spec_read data (Z.to_nat off) (Z.to_nat count)).
Proof.
  intros Hc Ho. unfold ent_read, spec_read.
  destruct (off <? 0) eqn:?; try lia.
  destruct (off >? zlen data) eqn:?; try lia.
  destruct (off + count >? zlen data) eqn:Hov.
  - destruct ((0 <=? zlen data - off) && (zlen data - off <=? count)) eqn:?; try lia.
    rewrite go_slice_ok by lia. f_equal.
    replace (off + (zlen data - off) - off) with (zlen data - off) by lia.
    rewrite !firstn_all2; auto; rewrite skipn_length; unfold zlen in *; lia.
  - destruct ((0 <=? count) && (count <=? count)) eqn:?; try lia.
    rewrite go_slice_ok by lia. f_equal. f_equal. f_equal. lia.
Qed.

Lemma ent_read_rejects data count off :
  (off < 0 -> ent_read data count off = Err e_badoffset) /\
  (zlen data < off -> ent_read data count off = Err e_eof).
Proof.
  unfold ent_read. pose proof (zlen_nonneg data). split; intros.
  - destruct (off <? 0) eqn:?; try lia. reflexivity.
  - destruct (off <? 0) eqn:?; try lia. destruct (off >? zlen data) eqn:?; try lia. reflexivity.
Qed.

(* accepted exactly for offsets inside the file or at its end *)
Lemma ent_read_ok_iff data count off : 0 <= count ->
  (exists d, ent_read data count off = Ok d) <-> 0 <= off <= zlen data.
Proof.
  intros Hc. split.
  - intros [d E]. destruct (Z_lt_dec off 0) as [Hn|Hn].
    + rewrite (proj1 (ent_read_rejects data count off) Hn) in E. discriminate.
    + destruct (Z_lt_dec (zlen data) off) as [Hb|Hb]; try lia.
      rewrite (proj2 (ent_read_rejects data count off) Hb) in E. discriminate.
  - intros. eexists. apply ent_read_spec; auto.
Qed.

Lemma ent_read_no_panic data count off : 0 <= count -> ent_read data count off <> Panic.
Proof.
  intros Hc. destruct (Z_lt_dec off 0) as [Hn|Hn].
  - rewrite (proj1 (ent_read_rejects data count off) Hn). discriminate.
  - destruct (Z_lt_dec (zlen data) off) as [Hb|Hb].
    + rewrite (proj2 (ent_read_rejects data count off) Hb). discriminate.
    + rewrite ent_read_spec by lia. discriminate.
Qed.

Lemma ent_read_no_hang data count off : ent_read data count off <> Hang.
Proof.
  unfold ent_read, go_slice.
  repeat match goal with |- context [if ?b then _ else _] => destruct b end; discriminate.
Qed.

(* ---------------------------------------------------------------- Write *)

(* the byte-array specification of a write at an offset inside the array or at its end *)
Definition spec_write (content : list N) (off : nat) (p : list N) : list N :=
  firstn off content ++ p ++ skipn (off + length p) content.

Lemma ent_write_spec data p off :
  0 <= off <= zlen data ->
  ent_write data p off = Ok (spec_write data (Z.to_nat off) p).
Proof.
  intros Ho. unfold ent_write, spec_write.
  pose proof (zlen_nonneg p) as Hzp.
  destruct (off <? 0) eqn:?; try lia.
  destruct (off >? zlen data) eqn:?; try lia.
  destruct (off + zlen p >? zlen data) eqn:Hov.
  - (* extends the file *)
    assert (Hs : skipn (Z.to_nat off + length p) data = []).
    { apply skipn_all2. unfold zlen in *. lia. }
    rewrite Hs, app_nil_r.
    destruct (zlen data - off >? 0) eqn:Hn2.
    + rewrite go_slice_ok by lia. cbn [bind].
      rewrite (go_slice_ok p 0 (zlen data - off)) by (unfold zlen in *; lia). cbn [bind].
      rewrite go_slice_ok by (unfold zlen in *; lia). cbn [bind]. f_equal.
      unfold splice. cbn [skipn Z.to_nat].
      rewrite Z.sub_0_r.
      assert (Hl : length (firstn (Z.to_nat (zlen data - off)) p) = Z.to_nat (zlen data - off)).
      { rewrite firstn_length. unfold zlen in *. lia. }
      rewrite Hl.
      rewrite (skipn_all2 data) by (unfold zlen in *; lia). rewrite app_nil_r.
      rewrite <- app_assoc. f_equal.
      rewrite (firstn_all2 (n := Z.to_nat (zlen p - (zlen data - off)))) by (rewrite skipn_length; unfold zlen in *; lia).
      apply firstn_skipn.
    + cbn [bind]. rewrite go_slice_ok by (unfold zlen in *; lia). cbn [bind]. f_equal.
      assert (off = zlen data) by lia. subst off.
      replace (zlen data - zlen data) with 0 by lia. cbn [Z.to_nat skipn].
      rewrite Z.sub_0_r.
      rewrite (firstn_all2 p) by (unfold zlen; lia).
      rewrite (firstn_all2 data) by (unfold zlen; lia). reflexivity.
  - rewrite go_slice_ok by lia. cbn [bind]. reflexivity.
Qed.

Lemma ent_write_rejects data p off :
  (off < 0 -> ent_write data p off = Err e_badoffset) /\
  (zlen data < off -> ent_write data p off = Err e_invalidaddr).
Proof.
  unfold ent_write. pose proof (zlen_nonneg data). split; intros.
  - destruct (off <? 0) eqn:?; try lia. reflexivity.
  - destruct (off <? 0) eqn:?; try lia. destruct (off >? zlen data) eqn:?; try lia. reflexivity.
Qed.

(* rejected iff the offset lies beyond the end (or is negative as an int64) *)
Lemma ent_write_ok_iff data p off :
  (exists d, ent_write data p off = Ok d) <-> 0 <= off <= zlen data.
Proof.
  split.
  - intros [d E]. destruct (Z_lt_dec off 0) as [Hn|Hn].
    + rewrite (proj1 (ent_write_rejects data p off) Hn) in E. discriminate.
    + destruct (Z_lt_dec (zlen data) off) as [Hb|Hb]; try lia.
      rewrite (proj2 (ent_write_rejects data p off) Hb) in E. discriminate.
  - intros. eexists. apply ent_write_spec; auto.
Qed.

Lemma ent_write_no_panic data p off : ent_write data p off <> Panic.
Proof.
  destruct (Z_lt_dec off 0) as [Hn|Hn].
  - rewrite (proj1 (ent_write_rejects data p off) Hn). discriminate.
  - destruct (Z_lt_dec (zlen data) off) as [Hb|Hb].
    + rewrite (proj2 (ent_write_rejects data p off) Hb). discriminate.
    + rewrite ent_write_spec by lia. discriminate.
Qed.

Lemma ent_write_no_hang data p off : ent_write data p off <> Hang.
Proof.
  destruct (Z_lt_dec off 0) as [Hn|Hn].
  - rewrite (proj1 (ent_write_rejects data p off) Hn). discriminate.
  - destruct (Z_lt_dec (zlen data) off) as [Hb|Hb].
    + rewrite (proj2 (ent_write_rejects data p off) Hb). discriminate.
    + rewrite ent_write_spec by lia. discriminate.
Qed.

(* position-wise: after a write every position holds the byte most recently written there *)
Lemma spec_write_length content off p : (off <= length content)%nat ->
  length (spec_write content off p) = Nat.max (length content) (off + length p).
Proof.
  intros. unfold spec_write. rewrite !app_length, firstn_length, skipn_length. lia.
Qed.

Lemma spec_write_nth content off p i d : (off <= length content)%nat ->
  nth i (spec_write content off p) d =
  if (off <=? i)%nat && (i <? off + length p)%nat then nth (i - off) p d else nth i content d.
Proof.
  intros Ho. unfold spec_write.
  assert (Hf : length (firstn off content) = off) by (rewrite firstn_length; lia).
  destruct (off <=? i)%nat eqn:H1; cbn [andb].
  - rewrite app_nth2 by lia. rewrite Hf.
    destruct (i <? off + length p)%nat eqn:H2.
    + rewrite app_nth1 by lia. reflexivity.
    + rewrite app_nth2 by lia.
      rewrite <- (firstn_skipn (off + length p) content) at 2.
      destruct (Nat.le_gt_cases (off + length p) (length content)).
      * rewrite (app_nth2 (firstn _ _)) by (rewrite firstn_length; lia).
        rewrite firstn_length. f_equal. lia.
      * rewrite skipn_all2 by lia. rewrite !nth_overflow; cbn; auto; try lia.
        rewrite app_nil_r, firstn_length. lia.
  - rewrite app_nth1 by lia.
    rewrite <- (firstn_skipn off content) at 2. rewrite app_nth1 by lia. reflexivity.
Qed.

Lemma nth_firstn_lt {A} (l : list A) d : forall n i, (i < n)%nat -> nth i (firstn n l) d = nth i l d.
Proof.
  induction l as [|a l IH]; intros [|n] [|i] H; cbn; auto; try lia. apply IH. lia.
Qed.

Lemma nth_skipn_add {A} (l : list A) d : forall off i, nth i (skipn off l) d = nth (off + i) l d.
Proof.
  induction l as [|a l IH]; intros [|off] i; cbn; auto.
  - destruct i; reflexivity.
Qed.

Lemma spec_read_nth content off count i d : (i < count)%nat ->
  nth i (spec_read content off count) d = nth (off + i) content d.
Proof.
  intros. unfold spec_read. rewrite nth_firstn_lt by auto. apply nth_skipn_add.
Qed.

(* ---------------------------------------------------------------- node level *)

Lemma node_write_spec n p off : 0 <= off <= zlen (n_data n) ->
  exists n', node_write n p off = Ok n' /\
    n_data n' = spec_write (n_data n) (Z.to_nat off) p /\
    n_ref n' = n_ref n /\ n_children n' = n_children n /\
    i_len (n_info n') = N.of_nat (length (n_data n')) /\
    i_name (n_info n') = i_name (n_info n) /\ i_qpath (n_info n') = i_qpath (n_info n) /\
    i_qtype (n_info n') = i_qtype (n_info n) /\ i_mode (n_info n') = i_mode (n_info n).
Proof.
  intros. unfold node_write. rewrite ent_write_spec by auto. cbn [bind].
  eexists. split; [reflexivity|]. cbn. repeat split; reflexivity.
Qed.

Lemma node_write_no_panic n p off : node_write n p off <> Panic.
Proof.
  unfold node_write. pose proof (ent_write_no_panic (n_data n) p off).
  destruct (ent_write (n_data n) p off); cbn; congruence.
Qed.

Lemma node_write_frame n p off n' : node_write n p off = Ok n' ->
  n_ref n' = n_ref n /\ n_children n' = n_children n /\ is_dir_mode (n_info n') = is_dir_mode (n_info n)
  /\ is_dir_qid (n_info n') = is_dir_qid (n_info n) /\ i_name (n_info n') = i_name (n_info n).
Proof.
  unfold node_write. destruct (ent_write (n_data n) p off); cbn; try discriminate.
  intros E. inversion E. cbn. auto.
Qed.

Lemma land_xor_zero a b d : N.land (N.lxor a b) d = 0%N -> N.land a d = N.land b d.
Proof.
  intros H. apply N.bits_inj. intro n.
  assert (Hn := f_equal (fun x => N.testbit x n) H). cbn beta in Hn.
  rewrite N.land_spec, N.lxor_spec, N.bits_0 in Hn. rewrite !N.land_spec.
  destruct (N.testbit a n), (N.testbit b n), (N.testbit d n); cbn in *; congruence.
Qed.

Lemma node_wstat_no_panic n mode uid gid name len : node_wstat n mode uid gid name len <> Panic.
Proof.
  unfold node_wstat.
  destruct (negb (mode =? MAXU32)%N && negb (N.land (N.lxor mode (i_mode (n_info n))) DMDIR =? 0)%N); try discriminate.
  destruct (negb (is_empty name)); try discriminate.
  destruct (len =? MAXU64)%N; try discriminate.
  destruct (N.of_nat (length (n_data n)) <? len)%N eqn:Hl; try discriminate.
  rewrite go_slice_ok by (unfold zlen; lia). cbn. discriminate.
Qed.

(* WStat: truncation only shrinks, and yields a prefix of the content *)
Lemma node_wstat_data n mode uid gid name len n' e :
  node_wstat n mode uid gid name len = Ok (n', e) ->
  n_ref n' = n_ref n /\ n_children n' = n_children n /\
  i_name (n_info n') = i_name (n_info n) /\ i_qtype (n_info n') = i_qtype (n_info n) /\
  is_dir_mode (n_info n') = is_dir_mode (n_info n) /\
  (n_data n' = n_data n \/
   (e = None /\ (N.to_nat len <= length (n_data n))%nat /\ n_data n' = firstn (N.to_nat len) (n_data n))).
Proof.
  unfold node_wstat.
  destruct (negb (mode =? MAXU32)%N && negb (N.land (N.lxor mode (i_mode (n_info n))) DMDIR =? 0)%N) eqn:Hm; try discriminate.
  assert (Hdir : forall u g, is_dir_mode
     (let i := n_info n in
      let i := if (mode =? MAXU32)%N then i else mkInfo (i_name i) (i_uid i) (i_gid i) (i_muid i) mode (i_qtype i) (i_qpath i) (i_qvers i) (i_len i) in
      let i := if is_empty u then i else mkInfo (i_name i) u (i_gid i) (i_muid i) (i_mode i) (i_qtype i) (i_qpath i) (i_qvers i) (i_len i) in
      if is_empty g then i else mkInfo (i_name i) (i_uid i) g (i_muid i) (i_mode i) (i_qtype i) (i_qpath i) (i_qvers i) (i_len i))
     = is_dir_mode (n_info n)).
  { intros u g. unfold is_dir_mode. cbn zeta.
    destruct (mode =? MAXU32)%N eqn:Hmm; destruct (is_empty u); destruct (is_empty g); cbn; auto;
      cbn in Hm; f_equal;
      destruct (N.land (N.lxor mode (i_mode (n_info n))) DMDIR =? 0)%N eqn:Hx; try discriminate;
      apply N.eqb_eq in Hx; apply land_xor_zero in Hx; rewrite Hx; reflexivity. }
  assert (Hnm : forall u g, i_name
     (let i := n_info n in
      let i := if (mode =? MAXU32)%N then i else mkInfo (i_name i) (i_uid i) (i_gid i) (i_muid i) mode (i_qtype i) (i_qpath i) (i_qvers i) (i_len i) in
      let i := if is_empty u then i else mkInfo (i_name i) u (i_gid i) (i_muid i) (i_mode i) (i_qtype i) (i_qpath i) (i_qvers i) (i_len i) in
      if is_empty g then i else mkInfo (i_name i) (i_uid i) g (i_muid i) (i_mode i) (i_qtype i) (i_qpath i) (i_qvers i) (i_len i))
     = i_name (n_info n) /\ i_qtype
     (let i := n_info n in
      let i := if (mode =? MAXU32)%N then i else mkInfo (i_name i) (i_uid i) (i_gid i) (i_muid i) mode (i_qtype i) (i_qpath i) (i_qvers i) (i_len i) in
      let i := if is_empty u then i else mkInfo (i_name i) u (i_gid i) (i_muid i) (i_mode i) (i_qtype i) (i_qpath i) (i_qvers i) (i_len i) in
      if is_empty g then i else mkInfo (i_name i) (i_uid i) g (i_muid i) (i_mode i) (i_qtype i) (i_qpath i) (i_qvers i) (i_len i))
     = i_qtype (n_info n)).
  { intros u g. cbn zeta. destruct (mode =? MAXU32)%N; destruct (is_empty u); destruct (is_empty g); cbn; auto. }
  cbn zeta in *.
  destruct (negb (is_empty name)).
  { intros E. inversion E; subst. cbn. rewrite Hdir. destruct (Hnm uid gid) as [-> ->]. auto 10. }
  destruct (len =? MAXU64)%N.
  { intros E. inversion E; subst. cbn. rewrite Hdir. destruct (Hnm uid gid) as [-> ->]. auto 10. }
  destruct (N.of_nat (length (n_data n)) <? len)%N eqn:Hl.
  { intros E. inversion E; subst. cbn. rewrite Hdir. destruct (Hnm uid gid) as [-> ->]. auto 10. }
  rewrite go_slice_ok by (unfold zlen; lia). cbn [bind].
  intros E. inversion E; subst. cbn. rewrite Hdir. destruct (Hnm uid gid) as [-> ->].
  repeat split; auto. right. repeat split; try lia.
  rewrite Z.sub_0_r. cbn [Z.to_nat skipn]. f_equal. lia.
Qed.
