(* Lemmas about Model/Ramfs.v, part 6: FileHandle.Walk's index arithmetic
   computes the plain tree walk over the handle's chain: k leading '..' go to
   the k-th ancestor on the chain (passing the ancestors nearest first), the
   remaining names are looked up child by child. *)
From Coq Require Import List NArith ZArith Bool Lia ZifyBool ZifyNat ZifyN.
From P9 Require Import Base.Res Model.Path Proofs.PathProofs Model.Ramfs Proofs.RamfsProofs Proofs.RamfsProofsRef Proofs.RamfsProofsInv.
Import ListNotations.
Open Scope Z_scope.

Lemma mapM_exact {A B} (f : A -> res B) (g : A -> B) l :
  (forall a, In a l -> f a = Ok (g a)) -> mapM f l = Ok (map g l).
Proof.
  induction l as [|a l IH]; intros H; cbn; auto.
  rewrite (H a (or_introl eq_refl)). cbn. rewrite IH by (intros; apply H; right; auto). reflexivity.
Qed.

Lemma zseq_nat n : zseq (Z.of_nat n) = map Z.of_nat (seq 0 n).
Proof. unfold zseq. rewrite Nat2Z.id. reflexivity. Qed.

(* ---------------------------------------------------------------- the plain walk *)

(* one step at a time over a chain (root first, current entry last) *)
Fixpoint spec_walk (s : store) (chain : list nat) (names : list bstr) : list nat * option (list nat) :=
  match names with
  | [] => ([], Some chain)
  | nm :: r =>
      if is_dotdot nm then
        match removelast chain with
        | [] => ([], None)
        | up => let '(v, f) := spec_walk s up r in (last up 0%nat :: v, f)
        end
      else
        match n_children (getn s (last chain 0%nat)) with
        | None => ([], None)
        | Some cs =>
            match lookup_child cs nm with
            | None => ([], None)
            | Some c => let '(v, f) := spec_walk s (chain ++ [c]) r in (c :: v, f)
            end
        end
  end.

(* forward part: names without '..' *)
Lemma spec_walk_forward s rest : forall chain,
  Forall (fun nm => is_dotdot nm = false) rest ->
  spec_walk s chain rest =
    (ent_walk s (last chain 0%nat) rest,
     if (length (ent_walk s (last chain 0%nat) rest) =? length rest)%nat
     then Some (chain ++ ent_walk s (last chain 0%nat) rest) else None).
Proof.
  induction rest as [|nm rest IH]; intros chain F.
  - cbn. rewrite app_nil_r. reflexivity.
  - inversion F as [|? ? Hn F']; subst. cbn [spec_walk ent_walk]. rewrite Hn.
    destruct (n_children (getn s (last chain 0%nat))) as [cs|]; [|reflexivity].
    destruct (lookup_child cs nm) as [c|]; [|reflexivity].
    rewrite (IH (chain ++ [c]) F'). rewrite last_last. cbn [length Nat.eqb].
    destruct (length (ent_walk s c rest) =? length rest)%nat; [|reflexivity].
    rewrite <- app_assoc. reflexivity.
Qed.

(* backward part: k leading '..' on a chain with more than k entries *)
Lemma removelast_firstn_len {A} (l : list A) : removelast l = firstn (length l - 1) l.
Proof.
  induction l as [|a l IH]; [reflexivity|].
  destruct l as [|b l]; [reflexivity|].
  cbn [removelast length]. replace (S (S (length l)) - 1)%nat with (S (length l)) by lia.
  cbn [firstn]. f_equal. cbn [length] in IH. replace (S (length l) - 1)%nat with (length l) in IH by lia.
  exact IH.
Qed.

Lemma last_nth {A} (l : list A) d : last l d = nth (length l - 1) l d.
Proof.
  induction l as [|a l IH]; [reflexivity|].
  destruct l as [|b l]; [reflexivity|].
  cbn [last length]. replace (S (S (length l)) - 1)%nat with (S (length l)) by lia.
  cbn [nth]. cbn [length] in IH. replace (S (length l) - 1)%nat with (length l) in IH by lia. exact IH.
Qed.

Lemma spec_walk_backward s rest k : forall chain, (k < length chain)%nat ->
  spec_walk s chain (repeat DOTDOT k ++ rest) =
    let up := firstn (length chain - k) chain in
    let '(v, f) := spec_walk s up rest in
    (map (fun j => nth (length chain - 2 - j) chain 0%nat) (seq 0 k) ++ v, f).
Proof.
  induction k as [|k IH]; intros chain Hk.
  - cbn [repeat app seq map]. rewrite Nat.sub_0_r, firstn_all. cbn zeta.
    destruct (spec_walk s chain rest). reflexivity.
  - cbn [repeat app spec_walk]. change (is_dotdot DOTDOT) with true. cbn iota.
    rewrite removelast_firstn_len.
    destruct (firstn (length chain - 1) chain) as [|u0 up'] eqn:Eup.
    { exfalso. assert (Hl : length (firstn (length chain - 1) chain) = (length chain - 1)%nat) by (rewrite firstn_length; lia).
      rewrite Eup in Hl. cbn in Hl. lia. }
    rewrite <- Eup. clear Eup u0 up'.
    remember (firstn (length chain - 1) chain) as up eqn:Eup.
    assert (Hup : length up = (length chain - 1)%nat) by (subst up; rewrite firstn_length; lia).
    rewrite (IH up) by lia.
    assert (E1 : firstn (length up - k) up = firstn (length chain - S k) chain).
    { subst up. rewrite firstn_firstn. f_equal. rewrite firstn_length. lia. }
    cbv zeta. rewrite E1. destruct (spec_walk s (firstn (length chain - S k) chain) rest) as [v f].
    f_equal. cbn [seq map]. rewrite app_comm_cons. f_equal. f_equal.
    + rewrite last_nth, Hup. subst up. rewrite nth_firstn_lt by lia. f_equal. lia.
    + rewrite <- seq_shift, map_map. apply map_ext_in. intros j Hj. apply in_seq in Hj.
      rewrite Hup. subst up. rewrite nth_firstn_lt by lia. f_equal. lia.
Qed.

(* ---------------------------------------------------------------- FileHandle.Walk in closed form *)

Lemma count_dotdot_split names :
  exists rest, names = repeat [DOT; DOT] (count_dotdot names) ++ rest /\
               match rest with [] => True | nm :: _ => is_dotdot nm = false end.
Proof.
  induction names as [|nm names IH].
  - exists []. cbn. auto.
  - cbn [count_dotdot]. destruct (is_dotdot nm) eqn:E.
    + destruct IH as (rest & E1 & E2). exists rest. split; auto.
      apply is_dotdot_spec in E. subst nm. cbn [repeat app]. f_equal. exact E1.
    + exists (nm :: names). cbn. auto.
Qed.

Lemma fh_walk_closed s h names qids oh s' :
  fh_walk s h names = Ok (qids, oh, s') ->
  let par := h_parents h in
  let chain := hids h in
  let k := count_dotdot names in
  (k <= length par)%nat /\
  let ref := nth (length par - k) chain 0%nat in
  let back := map (fun j => nth (length chain - 2 - j) chain 0%nat) (seq 0 k) in
  let fwd := ent_walk s ref (skipn k names) in
  qids = map (fun a => qid_of (n_info (getn s a))) (back ++ fwd) /\
  match oh with
  | Some h2 => hids h2 = firstn (length par - k) par ++ ref :: fwd /\
               length (back ++ fwd) = length names /\ s' = fold_left incref (hids h2) s
  | None => s' = s /\ length (back ++ fwd) <> length names
  end.
Proof.
  unfold fh_walk. destruct (walk_name (h_path h) names) as [newpath| | |]; try discriminate.
  set (k := count_dotdot names). set (par := h_parents h). set (lp := zlen par).
  assert (Hkn : (k <= length names)%nat) by apply count_dotdot_le.
  destruct (Z.of_nat k >? lp) eqn:Hgt; try discriminate.
  assert (Hk : (k <= length par)%nat) by (unfold lp, zlen in Hgt; lia).
  assert (Hlen : length (hids h) = S (length par)) by (unfold hids; rewrite app_length; cbn; fold par; lia).
  (* ref *)
  set (ref := nth (length par - k) (hids h) 0%nat).
  assert (Eref : (if Z.of_nat k >? 0 then go_index par (lp - Z.of_nat k) 0%nat else Ok (h_ent h)) = Ok ref).
  { unfold ref, hids. fold par. destruct (Z.of_nat k >? 0) eqn:Hk0.
    - rewrite go_index_ok by (unfold lp, zlen in *; lia). f_equal.
      rewrite app_nth1 by lia. f_equal. unfold lp, zlen. lia.
    - assert (k = 0%nat) by lia. rewrite H, Nat.sub_0_r. rewrite app_nth2 by lia. rewrite Nat.sub_diag. reflexivity. }
  rewrite Eref. cbn [bind].
  (* back *)
  set (back := map (fun j => nth (length (hids h) - 2 - j) (hids h) 0%nat) (seq 0 k)).
  assert (Eback : mapM (fun i => go_index par (lp - 1 - i) 0%nat) (zseq (Z.of_nat k)) = Ok back).
  { rewrite (mapM_exact _ (fun i => nth (Z.to_nat (lp - 1 - i)) par 0%nat)).
    - f_equal. rewrite zseq_nat, map_map. unfold back. apply map_ext_in. intros j Hj. apply in_seq in Hj.
      rewrite Hlen. unfold hids. fold par. rewrite app_nth1 by lia. f_equal. unfold lp, zlen. lia.
    - intros i Hi. apply in_zseq in Hi. apply go_index_ok. unfold lp, zlen in *. lia. }
  rewrite Eback. cbn [bind].
  rewrite go_slice_ok by (unfold zlen; lia). cbn [bind].
  replace (firstn (Z.to_nat (zlen names - Z.of_nat k)) (skipn (Z.to_nat (Z.of_nat k)) names)) with (skipn k names).
  2:{ rewrite Nat2Z.id. symmetry. apply firstn_all2. rewrite skipn_length. unfold zlen. lia. }
  set (fwd := ent_walk s ref (skipn k names)).
  set (ans := back ++ fwd).
  assert (Lback : length back = k) by (unfold back; rewrite map_length, seq_length; reflexivity).
  assert (Lans : length ans = (k + length fwd)%nat) by (unfold ans; rewrite app_length; lia).
  destruct (negb (is_nil names) && (zlen ans =? 0)) eqn:Hnf; try discriminate.
  destruct (is_nil names || (zlen ans =? zlen names)) eqn:Hsucc.
  - (* success *)
    set (total := lp - Z.of_nat k + 1 + zlen ans - Z.of_nat k).
    set (i0 := lp - Z.of_nat k + 1).
    set (newps := firstn (length par - k) par ++ ref :: fwd).
    assert (Eps : mapM (fun i => if i <? lp - Z.of_nat k then go_index par i 0%nat
                                 else if i >=? i0 then go_index ans (Z.of_nat k + i - i0) 0%nat else Ok ref) (zseq total) = Ok newps).
    { rewrite (mapM_exact _ (fun i => nth (Z.to_nat i) newps 0%nat)).
      - f_equal. unfold zseq. rewrite map_map.
        assert (Ht : Z.to_nat total = length newps).
        { unfold newps, total. rewrite app_length, firstn_length. cbn [length]. unfold lp, zlen in *. lia. }
        rewrite Ht. apply (nth_ext _ _ 0%nat 0%nat).
        + rewrite map_length, seq_length. reflexivity.
        + intros n Hn. rewrite map_length, seq_length in Hn.
          rewrite (nth_indep _ 0%nat (nth (Z.to_nat (Z.of_nat 0)) newps 0%nat)) by (rewrite map_length, seq_length; exact Hn).
          rewrite (map_nth (fun x => nth (Z.to_nat (Z.of_nat x)) newps 0%nat) (seq 0 (length newps)) 0%nat n).
          rewrite seq_nth by exact Hn. rewrite Nat2Z.id. reflexivity.
      - intros i Hi. apply in_zseq in Hi. unfold newps.
        assert (Lf : length (firstn (length par - k) par) = (length par - k)%nat) by (rewrite firstn_length; lia).
        destruct (i <? lp - Z.of_nat k) eqn:H1.
        + rewrite go_index_ok by (unfold lp, zlen in *; lia). f_equal.
          rewrite app_nth1 by (rewrite Lf; unfold lp, zlen in *; lia).
          rewrite nth_firstn_lt by (unfold lp, zlen in *; lia). reflexivity.
        + destruct (i >=? i0) eqn:H2.
          * rewrite go_index_ok by (unfold total, i0, lp, zlen in *; lia). f_equal.
            rewrite app_nth2 by (rewrite Lf; unfold i0, lp, zlen in *; lia). rewrite Lf.
            unfold ans. rewrite app_nth2 by (rewrite Lback; unfold i0, lp, zlen in *; lia). rewrite Lback.
            replace (Z.to_nat i - (length par - k))%nat with (S (Z.to_nat (Z.of_nat k + i - i0) - k)) by (unfold i0, lp, zlen in *; lia).
            reflexivity.
          * f_equal. rewrite app_nth2 by (rewrite Lf; unfold i0, lp, zlen in *; lia). rewrite Lf.
            replace (Z.to_nat i - (length par - k))%nat with 0%nat by (unfold i0, lp, zlen in *; lia). reflexivity. }
    rewrite Eps. cbn [bind].
    assert (Lps : 1 <= zlen newps) by (unfold newps, zlen; rewrite app_length; cbn [length]; lia).
    rewrite go_index_ok by lia. cbn [bind]. rewrite go_slice_ok by lia. cbn [bind].
    intros E. inversion E; subst qids oh s'. clear E.
    assert (Hids : hids (mkHandle newpath (nth (Z.to_nat (zlen newps - 1)) newps 0%nat)
                          (firstn (Z.to_nat (zlen newps - 1 - 0)) (skipn (Z.to_nat 0) newps)) (h_uname h)) = newps).
    { unfold hids. cbn [h_parents h_ent skipn Z.to_nat]. rewrite Z.sub_0_r.
      assert (newps <> []) by (intros E0; rewrite E0 in Lps; cbn in Lps; lia).
      replace (Z.to_nat (zlen newps - 1)) with (length newps - 1)%nat by (unfold zlen; lia).
      apply last_split. auto. }
    cbn [skipn Z.to_nat] in Hids |- *.
    split; [exact Hk|]. split; [reflexivity|]. rewrite Hids. split; [reflexivity|]. split; [|reflexivity].
    destruct names as [|nm names'].
    + reflexivity.
    + cbn [is_nil orb] in Hsucc. unfold zlen in Hsucc. lia.
  - intros E. inversion E; subst qids oh s'. clear E.
    split; [exact Hk|]. split; [reflexivity|]. split; [reflexivity|].
    destruct names as [|nm names']; [cbn in Hsucc; discriminate|].
    cbn [is_nil orb] in Hsucc. unfold zlen in Hsucc. lia.
Qed.

(* FileHandle.Walk agrees with the plain step-by-step walk over the handle's chain *)
Lemma fh_walk_spec s h names qids oh s' :
  fh_walk s h names = Ok (qids, oh, s') -> (0 <= valid_path names) ->
  let '(v, f) := spec_walk s (hids h) names in
  qids = map (fun a => qid_of (n_info (getn s a))) v /\
  match oh with
  | Some h2 => f = Some (hids h2) /\ length v = length names
  | None => f = None /\ s' = s
  end.
Proof.
  intros W V. pose proof (fh_walk_closed s h names qids oh s' W) as C. cbn zeta in C.
  destruct C as (Hk & Eq & Hoh).
  set (k := count_dotdot names) in *. set (par := h_parents h) in *.
  assert (Hlen : length (hids h) = S (length par)) by (unfold hids; rewrite app_length; cbn; fold par; lia).
  (* names = k dotdots, then names without dotdot *)
  destruct (valid_path_iff names (Z.to_nat (valid_path names))) as [Hv _].
  destruct (Hv ltac:(lia)) as (rest & En & Frest).
  assert (Hnd : Forall (fun nm => is_dotdot nm = false) rest).
  { eapply Forall_impl; [|exact Frest]. intros nm On. destruct (ordinary_flags nm On) as (_ & _ & D & _). exact D. }
  assert (Ek : k = Z.to_nat (valid_path names)).
  { unfold k. rewrite En at 1. generalize (Z.to_nat (valid_path names)) as m. intro m.
    induction m as [|m IHm]; cbn [repeat app count_dotdot].
    - destruct Hnd as [|nm rest' D _]; [reflexivity|]. cbn [count_dotdot]. rewrite D. reflexivity.
    - change (is_dotdot DOTDOT) with true. cbn iota. f_equal. exact IHm. }
  rewrite <- Ek in En.
  assert (Esk : skipn k names = rest).
  { rewrite En. rewrite skipn_app, repeat_length, Nat.sub_diag. cbn [skipn].
    rewrite skipn_all2 by (rewrite repeat_length; lia). reflexivity. }
  rewrite Esk in *. clear Esk Ek Hv.
  clearbody k. subst names.
  rewrite (spec_walk_backward s rest k (hids h)) by lia. cbv zeta.
  rewrite (spec_walk_forward s rest _ Hnd).
  assert (Elast : last (firstn (length (hids h) - k) (hids h)) 0%nat = nth (length par - k) (hids h) 0%nat).
  { rewrite last_nth, firstn_length. rewrite nth_firstn_lt by lia. f_equal. lia. }
  rewrite Elast. split; [exact Eq|].
  assert (Efirst : firstn (length (hids h) - k) (hids h) = firstn (length par - k) par ++ [nth (length par - k) (hids h) 0%nat]).
  { rewrite Hlen. replace (S (length par) - k)%nat with (S (length par - k)) by lia.
    unfold hids. fold par.
    destruct (Nat.eq_dec k 0) as [->|Hk0].
    - rewrite Nat.sub_0_r. rewrite app_nth2 by lia. rewrite Nat.sub_diag. cbn [nth].
      rewrite firstn_all. rewrite firstn_all2 by (rewrite app_length; cbn; lia). reflexivity.
    - rewrite app_nth1 by lia. rewrite firstn_app. replace (S (length par - k) - length par)%nat with 0%nat by lia.
      cbn [firstn]. rewrite app_nil_r.
      clear - Hk Hk0. revert k Hk Hk0. induction par as [|a par IH]; intros k Hk Hk0; cbn [length] in *; [lia|].
      destruct (Nat.eq_dec k (S (length par))) as [->|Hne].
      + rewrite Nat.sub_diag. reflexivity.
      + replace (S (length par) - k)%nat with (S (length par - k)) by lia. cbn [firstn nth app]. f_equal.
        apply IH; lia. }
  destruct oh as [h2|].
  - destruct Hoh as (Eh2 & Elen & _). rewrite !app_length, map_length, seq_length, repeat_length in *.
    assert (Efw : length (ent_walk s (nth (length par - k) (hids h) 0%nat) rest) = length rest) by lia.
    rewrite Efw, Nat.eqb_refl. split.
    + f_equal. rewrite Eh2, Efirst, <- app_assoc. reflexivity.
    + lia.
  - destruct Hoh as (Es & Hne). rewrite !app_length, map_length, seq_length, repeat_length in Hne.
    destruct (length (ent_walk s (nth (length par - k) (hids h) 0%nat) rest) =? length rest)%nat eqn:Eq2.
    + apply Nat.eqb_eq in Eq2. lia.
    + auto.
Qed.

Lemma fh_walk_valid s h names r : fh_walk s h names = Ok r -> 0 <= valid_path names.
Proof.
  unfold fh_walk. destruct (walk_name (h_path h) names) as [newpath| | |] eqn:Ew; try discriminate.
  intros _. unfold walk_name in Ew. destruct (h_path h); try discriminate.
  destruct (Z.ltb (valid_path names) 0 || _) eqn:Hc; try discriminate. lia.
Qed.

Lemma fh_walk_spec' s h names qids oh s' :
  fh_walk s h names = Ok (qids, oh, s') ->
  let '(v, f) := spec_walk s (hids h) names in
  qids = map (fun a => qid_of (n_info (getn s a))) v /\
  match oh with
  | Some h2 => f = Some (hids h2) /\ length v = length names
  | None => f = None /\ s' = s
  end.
Proof. intros W. apply fh_walk_spec; auto. eapply fh_walk_valid; eauto. Qed.
