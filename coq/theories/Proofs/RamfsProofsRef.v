(* Lemmas about Model/Ramfs.v, part 2: the reference-count invariant.

   For every node x of the store
       nref x = [x is the root] + #links to x from LIVE parents (nref > 0)
                + #handles holding x (as entry or as a parent on their chain)
                + #decrefs still owed to x (ghost; empty between operations)
   plus: children have larger ids than their parent (they are created later),
   which bounds decref's recursion depth by the store length (fuel). *)
From Coq Require Import List NArith ZArith Bool Lia ZifyBool ZifyNat ZifyN.
From P9 Require Import Base.Res Model.Path Model.Ramfs Proofs.RamfsProofs.
Import ListNotations.
Open Scope Z_scope.

(* ---------------------------------------------------------------- counting *)

Definition cnt (l : list nat) (x : nat) : Z := Z.of_nat (count_occ Nat.eq_dec l x).

Lemma cnt_nil x : cnt [] x = 0. Proof. reflexivity. Qed.
Lemma cnt_cons a l x : cnt (a :: l) x = (if Nat.eqb a x then 1 else 0) + cnt l x.
Proof.
  unfold cnt. cbn. destruct (Nat.eq_dec a x) as [E|E].
  - subst. rewrite Nat.eqb_refl. lia.
  - apply Nat.eqb_neq in E. rewrite E. lia.
Qed.
Lemma cnt_app l1 l2 x : cnt (l1 ++ l2) x = cnt l1 x + cnt l2 x.
Proof. unfold cnt. rewrite count_occ_app. lia. Qed.
Lemma cnt_rev l x : cnt (rev l) x = cnt l x.
Proof. unfold cnt. rewrite count_occ_rev. reflexivity. Qed.
Lemma cnt_nonneg l x : 0 <= cnt l x. Proof. unfold cnt. lia. Qed.
Lemma cnt_pos_in l x : In x l <-> 0 < cnt l x.
Proof. unfold cnt. rewrite (count_occ_In Nat.eq_dec). lia. Qed.
Lemma cnt_zero_notin l x : ~ In x l <-> cnt l x = 0.
Proof. unfold cnt. rewrite (count_occ_not_In Nat.eq_dec). lia. Qed.

Lemma cnt_flat_map_app {A} (f : A -> list nat) l1 l2 x :
  cnt (flat_map f (l1 ++ l2)) x = cnt (flat_map f l1) x + cnt (flat_map f l2) x.
Proof. rewrite flat_map_app. apply cnt_app. Qed.

(* ---------------------------------------------------------------- links *)

Definition live (n : node) : bool := 0 <? n_ref n.
Definition live_kids (n : node) : list nat := if live n then child_ids n else [].
Definition links (s : store) : list nat := flat_map live_kids s.

Lemma links_setn s x n' y : (x < length s)%nat ->
  cnt (links (setn s x n')) y = cnt (links s) y - cnt (live_kids (getn s x)) y + cnt (live_kids n') y.
Proof.
  intros Hx. destruct (setn_split s x n' Hx) as (l1 & l2 & E1 & E2 & _).
  unfold links. rewrite E2. set (g := getn s x) in *. clearbody g. rewrite E1.
  rewrite !cnt_flat_map_app. cbn [flat_map]. rewrite !cnt_app. lia.
Qed.

Lemma links_snoc s n y : cnt (links (s ++ [n])) y = cnt (links s) y + cnt (live_kids n) y.
Proof. unfold links. rewrite cnt_flat_map_app. cbn. rewrite app_nil_r. reflexivity. Qed.

Lemma links_in_live s p c : (p < length s)%nat -> live (getn s p) = true -> In c (child_ids (getn s p)) ->
  0 < cnt (links s) c.
Proof.
  intros Hp Hl Hc. apply cnt_pos_in. unfold links. apply in_flat_map.
  exists (getn s p). split.
  - unfold getn. apply nth_In. auto.
  - unfold live_kids. rewrite Hl. auto.
Qed.

(* ---------------------------------------------------------------- the invariant *)

Definition root_bit (x : nat) : Z := if Nat.eqb x 0 then 1 else 0.

(* hc : how many times the handles hold x;  owed : decrefs still to come *)
Definition refs_ok (s : store) (hc : nat -> Z) (owed : list nat) : Prop :=
  forall x, n_ref (getn s x) = root_bit x + cnt (links s) x + hc x + cnt owed x.

Definition ordered (s : store) : Prop :=
  forall p c, In c (child_ids (getn s p)) -> (p < c)%nat.

Definition hc_nonneg (hc : nat -> Z) : Prop := forall x, 0 <= hc x.

Lemma refs_ok_ext s hc owed hc' owed' :
  (forall x, hc x + cnt owed x = hc' x + cnt owed' x) -> refs_ok s hc owed -> refs_ok s hc' owed'.
Proof. intros E H x. specialize (H x). specialize (E x). lia. Qed.

Lemma refs_ok_inrange s hc owed x : (0 < length s)%nat -> hc_nonneg hc -> refs_ok s hc owed ->
  0 < n_ref (getn s x) -> (x < length s)%nat.
Proof.
  intros Hl Hh H Hx. destruct (Nat.lt_ge_cases x (length s)); auto.
  rewrite getn_oob in Hx by auto. cbn in Hx. lia.
Qed.

Lemma refs_ok_live_ge s hc owed x : hc_nonneg hc -> refs_ok s hc owed ->
  root_bit x + cnt (links s) x + hc x + cnt owed x <= n_ref (getn s x).
Proof. intros Hh H. rewrite (H x). lia. Qed.

Lemma held_live s hc owed x : hc_nonneg hc -> refs_ok s hc owed -> 0 < hc x -> 0 < n_ref (getn s x).
Proof.
  intros Hh H Hx. rewrite (H x). pose proof (cnt_nonneg (links s) x). pose proof (cnt_nonneg owed x).
  unfold root_bit. destruct (Nat.eqb x 0); lia.
Qed.

Lemma owed_live s hc owed x : hc_nonneg hc -> refs_ok s hc owed -> In x owed -> 0 < n_ref (getn s x).
Proof.
  intros Hh H Hx. rewrite (H x). pose proof (cnt_nonneg (links s) x). apply cnt_pos_in in Hx.
  specialize (Hh x). unfold root_bit. destruct (Nat.eqb x 0); lia.
Qed.

Lemma child_of_live_live s hc owed p c : hc_nonneg hc -> refs_ok s hc owed ->
  0 < n_ref (getn s p) -> In c (child_ids (getn s p)) -> 0 < n_ref (getn s c).
Proof.
  intros Hh H Hp Hc.
  assert (Hpr : (p < length s)%nat).
  { destruct (Nat.lt_ge_cases p (length s)); auto. rewrite getn_oob in Hp by auto. cbn in Hp. lia. }
  assert (0 < cnt (links s) c).
  { apply (links_in_live s p c); auto. unfold live. lia. }
  rewrite (H c). pose proof (cnt_nonneg owed c). specialize (Hh c).
  unfold root_bit. destruct (Nat.eqb c 0); lia.
Qed.

(* ---------------------------------------------------------------- frame: nref and children untouched *)

Lemma live_kids_same n n' : n_ref n' = n_ref n -> n_children n' = n_children n -> live_kids n' = live_kids n.
Proof. intros E1 E2. unfold live_kids, live, child_ids. rewrite E1, E2. reflexivity. Qed.

Lemma refs_ok_frame s hc owed x n' :
  n_ref n' = n_ref (getn s x) -> n_children n' = n_children (getn s x) ->
  refs_ok s hc owed -> refs_ok (setn s x n') hc owed.
Proof.
  intros E1 E2 H y.
  destruct (Nat.lt_ge_cases x (length s)) as [Hx|Hx].
  - rewrite links_setn by auto. rewrite (live_kids_same _ _ E1 E2).
    destruct (Nat.eq_dec x y) as [->|Hn].
    + rewrite getn_setn_same by auto. rewrite E1. rewrite (H y). lia.
    + rewrite getn_setn_other by auto. rewrite (H y). lia.
  - rewrite setn_oob by auto. apply H.
Qed.

Lemma ordered_frame s x n' :
  n_children n' = n_children (getn s x) \/ n_children n' = None ->
  ordered s -> ordered (setn s x n').
Proof.
  intros E Ho p c Hc.
  destruct (Nat.lt_ge_cases x (length s)) as [Hx|Hx].
  - destruct (Nat.eq_dec x p) as [->|Hn].
    + rewrite getn_setn_same in Hc by auto. unfold child_ids in Hc.
      destruct E as [E|E]; rewrite E in Hc.
      * apply (Ho p c). exact Hc.
      * destruct Hc.
    + rewrite getn_setn_other in Hc by auto. apply (Ho p c Hc).
  - rewrite setn_oob in Hc by auto. apply (Ho p c Hc).
Qed.

(* ---------------------------------------------------------------- incref *)

Lemma incref_ok s hc owed x : 0 < n_ref (getn s x) -> (x < length s)%nat ->
  refs_ok s hc owed -> refs_ok (incref s x) hc (x :: owed).
Proof.
  intros Hl Hx H y. unfold incref.
  rewrite links_setn by auto.
  assert (E : live_kids (with_ref (getn s x) (n_ref (getn s x) + 1)) = live_kids (getn s x)).
  { unfold live_kids, live, child_ids. cbn.
    destruct (0 <? n_ref (getn s x) + 1) eqn:?; destruct (0 <? n_ref (getn s x)) eqn:?; try lia. reflexivity. }
  rewrite E, cnt_cons.
  destruct (Nat.eq_dec x y) as [->|Hn].
  - rewrite getn_setn_same by auto. cbn. rewrite Nat.eqb_refl. rewrite (H y). lia.
  - rewrite getn_setn_other by auto. apply Nat.eqb_neq in Hn. rewrite Hn. rewrite (H y). lia.
Qed.

Lemma incref_length s x : length (incref s x) = length s.
Proof. unfold incref. apply length_setn. Qed.

Lemma incref_ordered s x : ordered s -> ordered (incref s x).
Proof. intros. unfold incref. apply ordered_frame; auto. Qed.

Lemma incref_nref_mono s x y : n_ref (getn s y) <= n_ref (getn (incref s x) y).
Proof.
  unfold incref. destruct (Nat.lt_ge_cases x (length s)) as [Hx|Hx].
  - destruct (Nat.eq_dec x y) as [->|Hn].
    + rewrite getn_setn_same by auto. cbn. lia.
    + rewrite getn_setn_other by auto. lia.
  - rewrite setn_oob by auto. lia.
Qed.

Lemma incref_list_ok ps : forall s hc owed,
  (0 < length s)%nat -> hc_nonneg hc ->
  (forall x, In x ps -> 0 < n_ref (getn s x)) ->
  refs_ok s hc owed -> refs_ok (fold_left incref ps s) hc (ps ++ owed).
Proof.
  induction ps as [|a ps IH]; intros s hc owed Hl Hh Hlive H; cbn [fold_left app]; auto.
  assert (Ha : (a < length s)%nat).
  { apply (refs_ok_inrange s hc owed); auto. apply Hlive. left. reflexivity. }
  eapply refs_ok_ext; [| apply (IH (incref s a) hc (a :: owed))]; auto.
  - intros x. rewrite !cnt_app, !cnt_cons, cnt_app. lia.
  - rewrite incref_length. auto.
  - intros x Hx. pose proof (incref_nref_mono s a x). specialize (Hlive x (or_intror Hx)). lia.
  - apply incref_ok; auto. apply Hlive. left. reflexivity.
Qed.

Lemma fold_incref_length ps : forall s, length (fold_left incref ps s) = length s.
Proof. induction ps as [|a ps IH]; intros s; cbn; auto. rewrite IH. apply incref_length. Qed.

Lemma fold_incref_ordered ps : forall s, ordered s -> ordered (fold_left incref ps s).
Proof. induction ps as [|a ps IH]; intros s H; cbn; auto. apply IH. apply incref_ordered. auto. Qed.

(* ---------------------------------------------------------------- decref *)

Definition dec_fold (fuel : nat) (cs : list nat) (o : option store) : option store :=
  fold_left (fun acc c => match acc with Some s' => decref fuel s' c | None => None end) cs o.

Lemma dec_fold_none fuel cs : dec_fold fuel cs None = None.
Proof. induction cs; cbn; auto. Qed.

Lemma decref_ok : forall fuel s hc owed x,
  (0 < length s)%nat -> hc_nonneg hc -> ordered s ->
  refs_ok s hc (x :: owed) -> (length s - x < fuel)%nat ->
  exists s', decref fuel s x = Some s' /\ refs_ok s' hc owed /\ ordered s' /\ length s' = length s.
Proof.
  induction fuel as [|fuel IH]; intros s hc owed x Hl Hh Ho H Hf; [lia|].
  assert (Hlive : 0 < n_ref (getn s x)) by (eapply owed_live; eauto; left; reflexivity).
  assert (Hx : (x < length s)%nat) by (eapply refs_ok_inrange; eauto).
  cbn [decref]. set (n := getn s x) in *.
  destruct (n_ref n - 1 =? 0) eqn:Hz.
  - (* last reference: detach the children, then release each *)
    assert (Hone : n_ref n = 1) by lia.
    set (s1 := setn s x (with_children (with_ref n (n_ref n - 1)) None)).
    assert (H1 : refs_ok s1 hc (child_ids n ++ owed)).
    { intros y. unfold s1. rewrite links_setn by auto. fold n.
      assert (E1 : live_kids n = child_ids n) by (unfold live_kids, live; rewrite Hone; reflexivity).
      assert (E2 : live_kids (with_children (with_ref n (n_ref n - 1)) None) = []).
      { unfold live_kids, live, child_ids. cbn. rewrite Hone. reflexivity. }
      rewrite E1, E2, cnt_nil, cnt_app. specialize (H y). rewrite cnt_cons in H.
      destruct (Nat.eq_dec x y) as [->|Hn].
      - rewrite getn_setn_same by auto. cbn. rewrite Nat.eqb_refl in H. fold n in H. lia.
      - rewrite getn_setn_other by auto. apply Nat.eqb_neq in Hn. rewrite Hn in H. lia. }
    assert (Ho1 : ordered s1) by (unfold s1; apply ordered_frame; auto).
    assert (Hl1 : length s1 = length s) by (unfold s1; apply length_setn).
    assert (Hcs : forall c, In c (child_ids n) -> (x < c)%nat) by (intros c Hc; apply (Ho x c Hc)).
    clearbody s1. clear H Hlive Hz Hone.
    revert s1 H1 Ho1 Hl1. generalize (child_ids n) as cs, Hcs. clear Hcs.
    induction cs as [|c cs IHcs]; intros Hcs s1 H1 Ho1 Hl1.
    + exists s1. cbn. auto.
    + cbn [fold_left].
      destruct (IH s1 hc (cs ++ owed) c) as (s2 & E & H2 & Ho2 & Hl2); auto; try lia.
      { specialize (Hcs c (or_introl eq_refl)). lia. }
      rewrite E.
      destruct (IHcs (fun c' Hc' => Hcs c' (or_intror Hc')) s2 H2 Ho2 ltac:(lia)) as (s3 & E3 & H3 & Ho3 & Hl3).
      exists s3. auto.
  - exists (setn s x (with_ref n (n_ref n - 1))). split; [reflexivity|]. split; [|split].
    + intros y. rewrite links_setn by auto. fold n.
      assert (E : live_kids (with_ref n (n_ref n - 1)) = live_kids n).
      { unfold live_kids, live, child_ids. cbn.
        destruct (0 <? n_ref n - 1) eqn:?; destruct (0 <? n_ref n) eqn:?; try lia. reflexivity. }
      rewrite E. specialize (H y). rewrite cnt_cons in H.
      destruct (Nat.eq_dec x y) as [->|Hn].
      * rewrite getn_setn_same by auto. cbn. rewrite Nat.eqb_refl in H. fold n in H. lia.
      * rewrite getn_setn_other by auto. apply Nat.eqb_neq in Hn. rewrite Hn in H. lia.
    + apply ordered_frame; auto.
    + apply length_setn.
Qed.

Lemma decref_top_ok s hc owed x :
  (0 < length s)%nat -> hc_nonneg hc -> ordered s -> refs_ok s hc (x :: owed) ->
  exists s', decref_top s x = Some s' /\ refs_ok s' hc owed /\ ordered s' /\ length s' = length s.
Proof. intros. unfold decref_top. apply decref_ok; auto. lia. Qed.

Lemma decref_list_ok xs : forall s hc owed,
  (0 < length s)%nat -> hc_nonneg hc -> ordered s -> refs_ok s hc (xs ++ owed) ->
  exists s', decref_list s xs = Some s' /\ refs_ok s' hc owed /\ ordered s' /\ length s' = length s.
Proof.
  induction xs as [|x xs IH]; intros s hc owed Hl Hh Ho H; cbn [decref_list app] in *.
  - exists s. auto.
  - destruct (decref_top_ok s hc (xs ++ owed) x) as (s1 & E & H1 & Ho1 & Hl1); auto.
    rewrite E. destruct (IH s1 hc owed) as (s2 & E2 & H2 & Ho2 & Hl2); auto; try lia.
    exists s2. repeat split; auto. lia.
Qed.

(* FileHandle.Clunk releases exactly what the handle holds *)
Lemma fh_clunk_ok s hc h :
  (0 < length s)%nat -> hc_nonneg hc -> ordered s -> refs_ok s hc (hids h) ->
  exists s', fh_clunk s h = Some s' /\ refs_ok s' hc [] /\ ordered s' /\ length s' = length s.
Proof.
  intros Hl Hh Ho H. unfold fh_clunk.
  apply decref_list_ok; auto.
  eapply refs_ok_ext; [|exact H]. intros x. unfold hids.
  rewrite app_nil_r, cnt_cons, cnt_rev, cnt_app, cnt_cons, cnt_nil. lia.
Qed.

(* ---------------------------------------------------------------- link / unlink *)

Lemma lookup_child_in cs name c : lookup_child cs name = Some c -> In c (map snd cs).
Proof.
  induction cs as [|[k v] cs IH]; cbn; try discriminate.
  destruct (bstr_eqb k name); intros E.
  - inversion E. auto.
  - right. auto.
Qed.

Lemma cnt_remove_child cs name c y : lookup_child cs name = Some c ->
  cnt (map snd (remove_child cs name)) y = cnt (map snd cs) y - (if Nat.eqb c y then 1 else 0).
Proof.
  induction cs as [|[k v] cs IH]; cbn; try discriminate.
  destruct (bstr_eqb k name); intros E.
  - inversion E; subst. rewrite cnt_cons. lia.
  - cbn [map snd]. rewrite !cnt_cons. rewrite IH by auto. lia.
Qed.

Lemma remove_child_incl cs name c : In c (map snd (remove_child cs name)) -> In c (map snd cs).
Proof.
  induction cs as [|[k v] cs IH]; cbn; auto.
  destruct (bstr_eqb k name); cbn; intuition.
Qed.

Lemma unlink_child_ok s hc owed p name c s1 :
  0 < n_ref (getn s p) -> (p < length s)%nat -> ordered s ->
  refs_ok s hc owed -> unlink_child s p name c = Ok s1 ->
  refs_ok s1 hc (c :: owed) /\ ordered s1 /\ length s1 = length s.
Proof.
  intros Hl Hp Ho H. unfold unlink_child.
  destruct (n_children (getn s p)) as [cs|] eqn:Ec; try discriminate.
  destruct (lookup_child cs name) as [c'|] eqn:El; try discriminate.
  destruct (Nat.eqb c' c) eqn:Ecc; try discriminate. apply Nat.eqb_eq in Ecc. subst c'.
  intros E. inversion E; subst s1. clear E. split; [|split].
  - intros y. rewrite links_setn by auto.
    assert (E1 : live_kids (getn s p) = map snd cs).
    { unfold live_kids, live, child_ids. rewrite Ec. destruct (0 <? n_ref (getn s p)) eqn:?; try lia. reflexivity. }
    assert (E2 : live_kids (with_children (getn s p) (Some (remove_child cs name))) = map snd (remove_child cs name)).
    { unfold live_kids, live, child_ids. cbn. destruct (0 <? n_ref (getn s p)) eqn:?; try lia. reflexivity. }
    rewrite E1, E2, (cnt_remove_child cs name c y El), cnt_cons.
    destruct (Nat.eq_dec p y) as [->|Hn].
    + rewrite getn_setn_same by auto. cbn. rewrite (H y). lia.
    + rewrite getn_setn_other by auto. rewrite (H y). lia.
  - intros q d Hd. destruct (Nat.eq_dec p q) as [->|Hn].
    + rewrite getn_setn_same in Hd by auto. unfold child_ids in Hd. cbn in Hd.
      apply remove_child_incl in Hd. apply (Ho q d). unfold child_ids. rewrite Ec. exact Hd.
    + rewrite getn_setn_other in Hd by auto. apply (Ho q d Hd).
  - apply length_setn.
Qed.

Lemma unlink_child_err s p name c e : unlink_child s p name c = Err e -> True.
Proof. auto. Qed.

Lemma unlink_child_res s p name c : unlink_child s p name c <> Panic /\ unlink_child s p name c <> Hang.
Proof.
  unfold unlink_child. destruct (n_children (getn s p)); [|split; discriminate].
  destruct (lookup_child l name); [|split; discriminate].
  destruct (Nat.eqb n c); split; discriminate.
Qed.

Lemma incref_snoc s1 nd : incref (s1 ++ [nd]) (length s1) = s1 ++ [with_ref nd (n_ref nd + 1)].
Proof.
  unfold incref. rewrite getn_app_new. generalize (with_ref nd (n_ref nd + 1)). intro m.
  induction s1 as [|a s1 IH]; cbn; [reflexivity|f_equal; exact IH].
Qed.

(* creating a child: link in the parent, append the node (nref 1 for the link), incref for the handle *)
Lemma create_ok s hc p name nd s1 :
  (0 < length s)%nat -> hc_nonneg hc -> ordered s -> refs_ok s hc [] ->
  0 < n_ref (getn s p) -> (p < length s)%nat ->
  link_child s p name (length s) = Ok s1 ->
  n_ref nd = 1 -> child_ids nd = [] ->
  let s2 := incref (s1 ++ [nd]) (length s) in
  refs_ok s2 (fun x => hc x + (if Nat.eqb (length s) x then 1 else 0)) [] /\ ordered s2 /\ length s2 = S (length s).
Proof.
  intros Hl Hh Ho H Hlive Hp. unfold link_child.
  destruct (n_children (getn s p)) as [cs|] eqn:Ec; try discriminate.
  destruct (lookup_child cs name); try discriminate.
  intros E Hnd Hkids. inversion E; subst s1. clear E. cbn zeta.
  set (c := length s).
  set (s1 := setn s p (with_children (getn s p) (Some (cs ++ [(name, c)])))).
  assert (Hl1 : length s1 = length s) by apply length_setn.
  assert (Hc0 : n_ref (getn s c) = 0) by (rewrite getn_oob by (unfold c; lia); reflexivity).
  assert (Hcz : cnt (links s) c = 0 /\ hc c = 0).
  { specialize (H c). rewrite Hc0 in H. pose proof (cnt_nonneg (links s) c). specialize (Hh c).
    unfold root_bit in H. rewrite cnt_nil in H. destruct (Nat.eqb c 0) eqn:?; lia. }
  assert (Ei : incref (s1 ++ [nd]) c = s1 ++ [with_ref nd (n_ref nd + 1)]) by (unfold c; rewrite <- Hl1; apply incref_snoc).
  assert (Eg : forall m, getn (s1 ++ [m]) c = m) by (intro m; unfold c; rewrite <- Hl1; apply getn_app_new).
  rewrite Ei.
  split; [|split].
  - intros y. rewrite links_snoc.
    assert (E0 : live_kids (with_ref nd (n_ref nd + 1)) = []).
    { unfold live_kids, child_ids in *. cbn. destruct (live _); auto. }
    rewrite E0, cnt_nil. unfold s1. rewrite links_setn by auto.
    assert (E1 : live_kids (getn s p) = map snd cs).
    { unfold live_kids, live, child_ids. rewrite Ec. destruct (0 <? n_ref (getn s p)) eqn:?; try lia. reflexivity. }
    assert (E2 : live_kids (with_children (getn s p) (Some (cs ++ [(name, c)]))) = map snd cs ++ [c]).
    { unfold live_kids, live, child_ids. cbn. destruct (0 <? n_ref (getn s p)) eqn:?; try lia. rewrite map_app. reflexivity. }
    rewrite E1, E2, cnt_app, cnt_cons, !cnt_nil.
    destruct (Nat.lt_ge_cases y c) as [Hy|Hy].
    + rewrite getn_app_l by (rewrite length_setn; exact Hy).
      assert (Nat.eqb c y = false) by (apply Nat.eqb_neq; lia). rewrite H0.
      destruct (Nat.eq_dec p y) as [->|Hn].
      * rewrite getn_setn_same by auto. cbn. rewrite (H y), cnt_nil. lia.
      * rewrite getn_setn_other by auto. rewrite (H y), cnt_nil. lia.
    + destruct (Nat.eq_dec y c) as [->|Hn].
      * fold s1. rewrite Eg. cbn. rewrite Nat.eqb_refl.
        destruct Hcz as [Z1 Z2]. rewrite Z1, Z2, Hnd.
        unfold root_bit. assert (Nat.eqb c 0 = false) by (apply Nat.eqb_neq; unfold c; lia). rewrite H0. lia.
      * rewrite getn_oob by (rewrite app_length, length_setn; cbn; fold c; lia).
        assert (Nat.eqb c y = false) by (apply Nat.eqb_neq; lia). rewrite H0.
        specialize (H y). rewrite getn_oob in H by (fold c; lia). rewrite cnt_nil in H. cbn in H |- *. lia.
  - intros q d Hd.
    destruct (Nat.lt_ge_cases q c) as [Hq|Hq].
    + rewrite getn_app_l in Hd by (rewrite Hl1; exact Hq).
      unfold s1 in Hd. destruct (Nat.eq_dec p q) as [->|Hn].
      * rewrite getn_setn_same in Hd by auto. unfold child_ids in Hd. cbn in Hd.
        rewrite map_app in Hd. apply in_app_or in Hd. destruct Hd as [Hd|Hd].
        -- apply (Ho q d). unfold child_ids. rewrite Ec. exact Hd.
        -- cbn in Hd. destruct Hd as [<-|[]]. exact Hq.
      * rewrite getn_setn_other in Hd by auto. apply (Ho q d Hd).
    + destruct (Nat.eq_dec q c) as [->|Hn].
      * rewrite Eg in Hd. unfold child_ids in *. cbn in Hd. rewrite Hkids in Hd. destruct Hd.
      * rewrite getn_oob in Hd by (rewrite app_length, Hl1; cbn; fold c; lia). destruct Hd.
  - rewrite app_length, Hl1. cbn. lia.
Qed.

Lemma link_child_res s p name c : link_child s p name c <> Panic /\ link_child s p name c <> Hang.
Proof.
  unfold link_child. destruct (n_children (getn s p)); [|split; discriminate].
  destruct (lookup_child l name); split; discriminate.
Qed.

Lemma link_child_err_same s p name c e : link_child s p name c = Err e -> True.
Proof. auto. Qed.
