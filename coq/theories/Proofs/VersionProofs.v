(* Lemmas about Model/Version.v (C10). *)
From Coq Require Import List NArith ZArith Lia Bool.
From Coq Require Import ZifyBool ZifyNat ZifyN.
From P9 Require Import Base.Res Base.Bytes Model.WireTypes Model.Spec9P Model.Wire Model.Channel Model.Version
  Proofs.BytesProofs Proofs.WireProofs Proofs.WireDecode Proofs.ChannelProofs Proofs.ChannelRead.
Import ListNotations.
Open Scope N_scope.

Arguments N.mul : simpl never.
Arguments N.add : simpl never.
Arguments N.sub : simpl never.
Arguments N.pow : simpl never.
Arguments N.modulo : simpl never.
Arguments N.ltb : simpl never.
Arguments N.leb : simpl never.
Arguments N.eqb : simpl never.
Arguments N.min : simpl never.
Arguments le : simpl never.

Definition mk_version (ty tag m : N) (v : bytes) : fcall :=
  {| fc_type := ty; fc_tag := tag; fc_fields := [VF (FInt 4 m); VF (FStr v)] |}.

Lemma len_enc_version ty tag m v : ty = T_Tversion \/ ty = T_Rversion ->
  len (enc_fcall (mk_version ty tag m v)) = 9 + len v.
Proof.
  intros Hty. unfold enc_fcall, enc_msg, enc_vals, mk_version. cbn [fc_type fc_tag fc_fields map concat enc_val enc_fval].
  assert (E1 : (ty =? T_Rstat) = false) by (destruct Hty; subst; reflexivity).
  assert (E2 : (ty =? T_Twstat) = false) by (destruct Hty; subst; reflexivity).
  rewrite E1, E2. unfold enc_str. rewrite ?app_nil_r, !len_app, !len_le. lia.
Qed.

Lemma wf_mk_version ty tag m v : ty = T_Tversion \/ ty = T_Rversion -> tag < M16 -> m < M32 -> wf_str v = true ->
  wf_fcall (mk_version ty tag m v) = true.
Proof.
  intros Hty Htag Hm Hv. unfold wf_fcall, mk_version, fc_type, fc_tag, fc_fields.
  assert (K : kinds_of_type ty = Some [KInt 4; KStr]) by (destruct Hty; subst; reflexivity).
  rewrite K.
  assert (H1 : kinds_match [KInt 4; KStr] [VF (FInt 4 m); VF (FStr v)] = true) by reflexivity.
  assert (H2 : forallb wf_val [VF (FInt 4 m); VF (FStr v)] = true).
  { unfold forallb, wf_val, wf_fval. rewrite Hv.
    assert (E : (m <? 2 ^ (8 * 4)) = true) by (apply N.ltb_lt; exact Hm).
    rewrite E. reflexivity. }
  assert (H3 : (tag <? M16) = true) by (apply N.ltb_lt; exact Htag).
  assert (H4 : (len (enc_vals [VF (FInt 4 m); VF (FStr v)]) <? M32 - 16) = true).
  { apply N.ltb_lt. unfold enc_vals, map, concat, enc_val, enc_fval, enc_str.
    rewrite ?app_nil_r, !len_app, !len_le.
    unfold wf_str in Hv. apply andb_true_iff in Hv as [Hl _]. apply N.ltb_lt in Hl.
    rewrite M32_val. unfold M16 in Hl. lia. }
  rewrite H1, H2, H3, H4. reflexivity.
Qed.

(* reading a frame that carries a wire-representable message other than Tread/Twrite and fits msize *)
Lemma read_wf_frame msize buf f rest : wf_fcall f = true -> fc_type f <> T_Tread -> fc_type f <> T_Twrite ->
  4 + len (enc_fcall f) <= msize ->
  exists buf', read_fcall msize buf (frame (enc_fcall f) ++ rest) = (RMsg f, buf', rest).
Proof.
  intros Hw H1 H2 Hfit. pose proof (wf_len_bound f Hw) as Hb.
  unfold frame. rewrite N.mod_small by exact Hb.
  destruct (read_one_frame msize buf (len (enc_fcall f) + 4) (enc_fcall f) rest ltac:(lia) Hb ltac:(lia)) as (buf' & E).
  exists buf'. unfold frame_bytes in E. rewrite E. f_equal. f_equal.
  unfold classify. destruct (N.ltb_spec msize (len (enc_fcall f) + 4)); [lia|].
  rewrite <- (app_nil_r (enc_fcall f)) at 1. rewrite dec_fcall_enc by exact Hw.
  rewrite (mt_other msize f Hw H1 H2).
  destruct (N.ltb_spec msize (4 + len (enc_fcall f))); [lia|reflexivity].
Qed.

Lemma min_ite c own : (if c <? own then c else own) = N.min c own.
Proof. destruct (N.ltb_spec c own); lia. Qed.

Lemma V9P2000_wf : wf_str V9P2000 = true. Proof. reflexivity. Qed.
Lemma len_V9P2000 : len V9P2000 = 6. Proof. reflexivity. Qed.

(* ---- the server ---- *)
Theorem server_spec own tag c v rest :
  own < M32 -> tag < M16 -> c < M32 -> wf_str v = true -> 13 + len v <= own ->
  server_handshake own (frame (enc_fcall (mk_version T_Tversion tag c v)) ++ rest) =
    if 19 <=? N.min c own
    then (frame (enc_fcall (mk_version T_Rversion NOTAG (N.min c own) V9P2000)), true, N.min c own)
    else ([], false, N.min c own).
Proof.
  intros Hown Htag Hc Hv Hfit.
  pose proof (wf_mk_version T_Tversion tag c v (or_introl eq_refl) Htag Hc Hv) as Hw.
  destruct (read_wf_frame own [] _ rest Hw ltac:(discriminate) ltac:(discriminate)) as (buf' & E).
  { rewrite len_enc_version by (left; reflexivity). lia. }
  unfold server_handshake. rewrite E. cbn [mk_version fc_type fc_fields].
  change (T_Tversion =? T_Tversion) with true. cbv iota. rewrite min_ite.
  set (m := N.min c own).
  assert (Hm : m < M32) by (unfold m; lia).
  pose proof (wf_mk_version T_Rversion NOTAG m V9P2000 (or_intror eq_refl) ltac:(reflexivity) Hm V9P2000_wf) as Hwr.
  fold (mk_version T_Rversion NOTAG m V9P2000).
  unfold write_fcall. cbn [negb].
  rewrite (mt_other m _ Hwr) by discriminate.
  rewrite len_enc_version by (right; reflexivity). rewrite len_V9P2000.
  destruct (N.leb_spec 19 m) as [Hge|Hlt].
  - destruct (N.ltb_spec m (4 + (9 + 6))); [lia|reflexivity].
  - destruct (N.ltb_spec m (4 + (9 + 6))); [reflexivity|lia].
Qed.

(* a first message that is not a version request is refused and nothing is written *)
Theorem server_refuses_nonversion own s :
  (forall f b r, read_fcall own [] s = (RMsg f, b, r) -> fc_type f <> T_Tversion) ->
  server_handshake own s = ([], false, own).
Proof.
  intros H. unfold server_handshake.
  destruct (read_fcall own [] s) as [[o b] r] eqn:E. destruct o as [f|k|e|]; try reflexivity.
  specialize (H f b r eq_refl). destruct (N.eqb_spec (fc_type f) T_Tversion); [contradiction|reflexivity].
Qed.

(* ---- the client ---- *)
Lemma client_request_spec proposed : 19 <= proposed -> proposed < M32 ->
  client_request proposed = (frame (enc_fcall (mk_version T_Tversion NOTAG proposed V9P2000)), WSent).
Proof.
  intros H19 HM. unfold client_request. rewrite N.mod_small by exact HM.
  fold (mk_version T_Tversion NOTAG proposed V9P2000).
  pose proof (wf_mk_version T_Tversion NOTAG proposed V9P2000 (or_introl eq_refl) ltac:(reflexivity) HM V9P2000_wf) as Hw.
  unfold write_fcall. cbn [negb]. rewrite (mt_other proposed _ Hw) by discriminate.
  rewrite len_enc_version by (left; reflexivity). rewrite len_V9P2000.
  destruct (N.ltb_spec proposed (4 + (9 + 6))); [lia|reflexivity].
Qed.

Lemma bytes_eqb_refl a : bytes_eqb a a = true.
Proof. induction a as [|x a IH]; cbn [bytes_eqb]; [reflexivity|]. rewrite N.eqb_refl, IH. reflexivity. Qed.

Theorem client_spec proposed tag s rest :
  19 <= proposed -> proposed < M32 -> tag < M16 -> s < M32 ->
  client_handshake proposed (frame (enc_fcall (mk_version T_Rversion tag s V9P2000)) ++ rest) =
    (frame (enc_fcall (mk_version T_Tversion NOTAG proposed V9P2000)), true, N.min s proposed).
Proof.
  intros H19 HM Htag Hs. unfold client_handshake. rewrite client_request_spec by assumption.
  pose proof (wf_mk_version T_Rversion tag s V9P2000 (or_intror eq_refl) Htag Hs V9P2000_wf) as Hw.
  destruct (read_wf_frame proposed [] _ rest Hw ltac:(discriminate) ltac:(discriminate)) as (buf' & E).
  { rewrite len_enc_version by (right; reflexivity). rewrite len_V9P2000. lia. }
  rewrite E. cbn [mk_version fc_type fc_fields]. change (T_Rversion =? T_Rversion) with true. cbv iota.
  rewrite bytes_eqb_refl, min_ite. reflexivity.
Qed.

(* ---- both ends run this code ---- *)
Theorem both_agree proposed own : 19 <= proposed -> proposed < M32 -> 19 <= own -> own < M32 ->
  exists req reply,
    client_request proposed = (req, WSent) /\
    server_handshake own req = (reply, true, N.min proposed own) /\
    client_handshake proposed reply = (req, true, N.min proposed own).
Proof.
  intros Hp HpM Ho HoM.
  exists (frame (enc_fcall (mk_version T_Tversion NOTAG proposed V9P2000))),
         (frame (enc_fcall (mk_version T_Rversion NOTAG (N.min proposed own) V9P2000))).
  split; [apply client_request_spec; assumption|].
  assert (HN : NOTAG < M16) by reflexivity.
  assert (Hfit : 13 + len V9P2000 <= own) by (rewrite len_V9P2000; lia).
  pose proof (server_spec own NOTAG proposed V9P2000 [] HoM HN HpM V9P2000_wf Hfit) as S.
  rewrite app_nil_r in S.
  destruct (N.leb_spec 19 (N.min proposed own)) as [_|Hlt]; [|lia].
  split; [exact S|].
  assert (Hmin : N.min proposed own < M32) by lia.
  pose proof (client_spec proposed NOTAG (N.min proposed own) [] Hp HpM HN Hmin) as C.
  rewrite app_nil_r in C. rewrite C.
  replace (N.min (N.min proposed own) proposed) with (N.min proposed own) by lia. reflexivity.
Qed.

(* at the adopted msize: a decodable frame of exactly msize is delivered, any longer frame is an overflow of the excess *)
Theorem honour_in m body f : 24 <= m -> m < M32 - 12 -> len body + 4 = m -> allb body ->
  dec_fcall body = Ok f ->
  (exists f', classify m m body = RMsg f') /\ (forall k body', 0 < k -> classify m (m + k) body' = ROverflow k).
Proof.
  intros H24 HM Hl Ha Hd. split.
  - exact (read_valid_is_msg m m body f H24 HM (N.le_refl m) Hl Ha Hd).
  - intros k body' Hk. unfold classify.
    destruct (N.ltb_spec m (m + k)) as [_|Hge]; [|lia].
    f_equal. lia.
Qed.
