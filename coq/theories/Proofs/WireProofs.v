(* Lemmas about Model/Wire.v: decode . encode = id (with any suffix), sizes, layouts. *)
From Coq Require Import List NArith ZArith Lia Bool.
From Coq Require Import ZifyBool ZifyNat ZifyN.
From P9 Require Import Base.Res Base.Bytes Model.WireTypes Model.Spec9P Model.Wire Proofs.BytesProofs.
Import ListNotations.
Open Scope N_scope.

Arguments N.mul : simpl never.
Arguments N.add : simpl never.
Arguments N.pow : simpl never.
Arguments N.modulo : simpl never.
Arguments N.div : simpl never.
Arguments N.ltb : simpl never.
Arguments N.eqb : simpl never.

(* ---------- reading ---------- *)
Lemma rd_app a rest : rd (len a) (a ++ rest) = Ok (a, rest).
Proof.
  unfold rd. destruct (N.eqb_spec (len a) 0) as [H0|H0].
  - destruct a; [reflexivity|]. rewrite len_cons in H0. lia.
  - destruct a as [|x a']; [rewrite len_nil in H0; lia|].
    change ((x :: a') ++ rest) with (x :: (a' ++ rest)).
    rewrite shorter_spec.
    change (x :: a' ++ rest) with ((x :: a') ++ rest).
    rewrite len_app.
    destruct (N.ltb_spec (len (x :: a') + len rest) (len (x :: a'))); [lia|].
    rewrite take_app_len, drop_app_len. reflexivity.
Qed.

Lemma rd_app' n a rest : len a = n -> rd n (a ++ rest) = Ok (a, rest).
Proof. intros <-. apply rd_app. Qed.

Lemma pow256 w : 256 ^ w = 2 ^ (8 * w).
Proof. rewrite N.pow_mul_r. reflexivity. Qed.

Lemma rd_int_le w n rest : n < 2 ^ (8 * w) -> rd_int w (le (N.to_nat w) n ++ rest) = Ok (n, rest).
Proof.
  intros H. unfold rd_int. rewrite rd_app' by (rewrite len_le; lia). cbn [bind fst snd].
  rewrite unle_le_small; [reflexivity|]. rewrite N2Nat.id, pow256. exact H.
Qed.

Lemma rd_int_le_nat (w : nat) n rest : n < 2 ^ (8 * N.of_nat w) -> rd_int (N.of_nat w) (le w n ++ rest) = Ok (n, rest).
Proof. intros H. rewrite <- (Nat2N.id w) at 2. apply rd_int_le; exact H. Qed.

Lemma need_ok n bs : n <= len bs -> need n bs = Ok tt.
Proof. intros H. unfold need. rewrite shorter_spec. destruct (N.ltb_spec (len bs) n); [lia|reflexivity]. Qed.

(* ---------- strings, qids, lists ---------- *)
Lemma dec_str_enc s rest : len s < M16 -> dec_str (enc_str s ++ rest) = Ok (s, rest).
Proof.
  intros H. unfold dec_str, enc_str. rewrite <- app_assoc.
  rewrite (rd_int_le_nat 2) by (unfold M16 in H; change (2 ^ (8 * N.of_nat 2)) with 65536; exact H).
  cbn [bind fst snd]. rewrite need_ok by (rewrite len_app; lia). cbn [bind].
  apply rd_app.
Qed.

Definition wfq (q : qid) : Prop := q_type q < 256 /\ q_vers q < M32 /\ q_path q < 18446744073709551616.

Lemma wf_qid_spec q : wf_qid q = true <-> wfq q.
Proof. unfold wf_qid, wfq. rewrite !andb_true_iff, !N.ltb_lt. tauto. Qed.

Lemma dec_qid_enc q rest : wfq q -> dec_qid (enc_qid q ++ rest) = Ok (q, rest).
Proof.
  intros (H1 & H2 & H3). unfold dec_qid, enc_qid. rewrite <- !app_assoc.
  rewrite (rd_int_le_nat 1) by (change (2 ^ (8 * N.of_nat 1)) with 256; exact H1). cbn [bind fst snd].
  rewrite (rd_int_le_nat 4) by (change (2 ^ (8 * N.of_nat 4)) with M32; exact H2). cbn [bind fst snd].
  rewrite (rd_int_le_nat 8) by (change (2 ^ (8 * N.of_nat 8)) with 18446744073709551616; exact H3). cbn [bind fst snd].
  destruct q; reflexivity.
Qed.

Lemma dec_many_enc {A} (dec1 : bytes -> res (A * bytes)) (enc1 : A -> bytes) (P : A -> Prop) :
  (forall x rest, P x -> dec1 (enc1 x ++ rest) = Ok (x, rest)) ->
  forall l rest, Forall P l -> dec_many dec1 (length l) (concat (map enc1 l) ++ rest) = Ok (l, rest).
Proof.
  intros Hd l; induction l as [|x l IH]; intros rest HP; cbn [length map concat dec_many].
  - reflexivity.
  - inversion HP as [|? ? Hx Hl]; subst. rewrite <- app_assoc, Hd by exact Hx. cbn [bind fst snd].
    rewrite IH by exact Hl. reflexivity.
Qed.

Lemma len_enc_str s : len (enc_str s) = 2 + len s.
Proof. unfold enc_str. rewrite len_app, len_le. reflexivity. Qed.

Lemma len_enc_qid q : len (enc_qid q) = 13.
Proof. unfold enc_qid. rewrite !len_app, !len_le. reflexivity. Qed.

Lemma len_concat_strs l : 2 * len l <= len (concat (map enc_str l)).
Proof.
  induction l as [|s l IH]; cbn [map concat].
  - unfold len; cbn [length]; lia.
  - rewrite len_app, len_enc_str, len_cons. lia.
Qed.

Lemma len_concat_qids (l : list qid) : len (concat (map enc_qid l)) = 13 * len l.
Proof.
  induction l as [|s l IH]; cbn [map concat].
  - unfold len; cbn [length]; lia.
  - rewrite len_app, len_enc_qid, len_cons. lia.
Qed.

Lemma forallb_Forall {A} (f : A -> bool) l : forallb f l = true <-> Forall (fun x => f x = true) l.
Proof.
  induction l as [|x l IH]; simpl.
  - split; auto.
  - rewrite andb_true_iff, IH. split.
    + intros [? ?]; constructor; auto.
    + intros H; inversion H; auto.
Qed.

(* ---------- flat values ---------- *)
Lemma dec_fval_enc v rest : wf_fval v = true -> dec_fval (kind_of_fval v) (enc_fval v ++ rest) = Ok (v, rest).
Proof.
  destruct v as [w n|s|d|l|q|l|t]; cbn [wf_fval kind_of_fval dec_fval enc_fval]; intros Hwf.
  - apply andb_true_iff in Hwf as [_ Hn]. apply N.ltb_lt in Hn.
    rewrite rd_int_le by exact Hn. reflexivity.
  - unfold wf_str in Hwf. apply andb_true_iff in Hwf as [Hl _]. apply N.ltb_lt in Hl.
    rewrite dec_str_enc by exact Hl. reflexivity.
  - apply andb_true_iff in Hwf as [Hl _]. apply N.ltb_lt in Hl. rewrite <- app_assoc.
    rewrite (rd_int_le_nat 4) by (change (2 ^ (8 * N.of_nat 4)) with M32; exact Hl). cbn [bind fst snd].
    rewrite need_ok by (rewrite len_app; lia). cbn [bind].
    rewrite rd_app. reflexivity.
  - apply andb_true_iff in Hwf as [Hl Hs]. apply N.ltb_lt in Hl. rewrite <- app_assoc.
    rewrite (rd_int_le_nat 2) by (change (2 ^ (8 * N.of_nat 2)) with M16; exact Hl). cbn [bind fst snd].
    rewrite need_ok by (rewrite len_app; eapply N.le_trans; [apply len_concat_strs|apply N.le_add_r]). cbn [bind].
    unfold len at 1. rewrite Nat2N.id.
    rewrite (dec_many_enc dec_str enc_str (fun s => len s < M16)).
    + reflexivity.
    + intros; apply dec_str_enc; assumption.
    + apply forallb_Forall in Hs. eapply Forall_impl; [|exact Hs].
      intros a Ha. unfold wf_str in Ha. apply andb_true_iff in Ha as [Ha _]. apply N.ltb_lt in Ha. exact Ha.
  - apply wf_qid_spec in Hwf. rewrite dec_qid_enc by exact Hwf. reflexivity.
  - apply andb_true_iff in Hwf as [Hl Hs]. apply N.ltb_lt in Hl. rewrite <- app_assoc.
    rewrite (rd_int_le_nat 2) by (change (2 ^ (8 * N.of_nat 2)) with M16; exact Hl). cbn [bind fst snd].
    rewrite need_ok by (rewrite len_app, len_concat_qids; apply N.le_add_r). cbn [bind].
    unfold len at 1. rewrite Nat2N.id.
    rewrite (dec_many_enc dec_qid enc_qid wfq).
    + reflexivity.
    + intros; apply dec_qid_enc; assumption.
    + apply forallb_Forall in Hs. eapply Forall_impl; [|exact Hs]. intros a Ha. apply wf_qid_spec; exact Ha.
  - apply andb_true_iff in Hwf as [H0 H1]. apply Z.leb_le in H0. apply Z.ltb_lt in H1.
    rewrite Z.mod_small by lia.
    rewrite (rd_int_le_nat 4) by (change (2 ^ (8 * N.of_nat 4)) with 4294967296; lia). cbn [bind fst snd].
    rewrite Z2N.id by lia. reflexivity.
Qed.

Lemma kind_eqb_eq a b : kind_eqb a b = true -> a = b.
Proof.
  destruct a, b; simpl; try discriminate; auto.
  intros H. apply N.eqb_eq in H. subst. reflexivity.
Qed.

Lemma dec_fvals_enc ks fs rest :
  kinds_match_f ks fs = true -> forallb wf_fval fs = true ->
  dec_fvals ks (enc_fvals fs ++ rest) = Ok (fs, rest).
Proof.
  revert fs rest; induction ks as [|k ks IH]; intros [|f fs] rest Hk Hw; cbn [kinds_match_f] in Hk; try discriminate.
  - reflexivity.
  - apply andb_true_iff in Hk as [Hk1 Hk2]. apply kind_eqb_eq in Hk1. subst k.
    cbn [forallb] in Hw. apply andb_true_iff in Hw as [Hw1 Hw2].
    unfold enc_fvals. cbn [map concat dec_fvals]. rewrite <- app_assoc.
    rewrite dec_fval_enc by exact Hw1. cbn [bind fst snd].
    fold (enc_fvals fs). rewrite IH by assumption. reflexivity.
Qed.

(* ---------- sizes ---------- *)
Definition sumN (l : list N) : N := fold_right N.add 0 l.

Lemma fold_add32 {A} (g : A -> N) l : forall a0, a0 + sumN (map g l) < M32 ->
  fold_left (fun a v => add32 a (g v)) l a0 = a0 + sumN (map g l).
Proof.
  induction l as [|x l IH]; intros a0 H; cbn [map sumN fold_right fold_left] in *.
  - lia.
  - fold (sumN (map g l)) in *. unfold add32 at 2. rewrite N.mod_small by lia.
    rewrite IH by lia. lia.
Qed.

Lemma len_concat_map {A} (f : A -> bytes) l : len (concat (map f l)) = sumN (map (fun x => len (f x)) l).
Proof.
  induction l as [|x l IH]; cbn [map concat sumN fold_right].
  - reflexivity.
  - rewrite len_app, IH. reflexivity.
Qed.

Lemma sumN_le_mono {A} (f g : A -> N) l : (forall x, In x l -> f x = g x) -> sumN (map f l) = sumN (map g l).
Proof.
  induction l as [|x l IH]; intros H; cbn [map sumN fold_right]; [reflexivity|].
  fold (sumN (map f l)) (sumN (map g l)). rewrite H by (left; reflexivity). rewrite IH; [reflexivity|].
  intros y Hy. apply H. right. exact Hy.
Qed.

Lemma sumN_in {A} (f : A -> N) l x : In x l -> f x <= sumN (map f l).
Proof.
  induction l as [|y l IH]; intros H; [contradiction|]. cbn [map sumN fold_right]. fold (sumN (map f l)).
  destruct H as [->|H]; [lia|]. specialize (IH H). lia.
Qed.

Lemma len_enc_fval_FInt w n : len (enc_fval (FInt w n)) = w.
Proof. cbn [enc_fval]. rewrite len_le. apply N2Nat.id. Qed.

(* the size of a value equals the number of bytes of its encoding, provided that number is below 2^32 *)
Lemma size_fval_len v : len (enc_fval v) < M32 -> size_fval v = len (enc_fval v).
Proof.
  destruct v as [w n|s|d|l|q|l|t]; cbn [size_fval]; intros H.
  - rewrite len_enc_fval_FInt. reflexivity.
  - cbn [enc_fval] in *. rewrite len_enc_str in *. unfold size_str. rewrite N.mod_small by exact H. reflexivity.
  - cbn [enc_fval] in *. rewrite len_app, len_le in *. rewrite N.mod_small by exact H. reflexivity.
  - cbn [enc_fval] in *. rewrite len_app, len_le, len_concat_map in *.
    rewrite (fold_add32 size_str).
    + f_equal. apply sumN_le_mono. intros s Hs. unfold size_str. rewrite len_enc_str. apply N.mod_small.
      pose proof (sumN_in (fun x => len (enc_str x)) l s Hs) as Hle. cbn beta in Hle. rewrite len_enc_str in Hle. lia.
    + assert (E : sumN (map size_str l) = sumN (map (fun x => len (enc_str x)) l)).
      { apply sumN_le_mono. intros s Hs. unfold size_str. rewrite len_enc_str. apply N.mod_small.
        pose proof (sumN_in (fun x => len (enc_str x)) l s Hs) as Hle. cbn beta in Hle. rewrite len_enc_str in Hle. lia. }
      rewrite E. exact H.
  - cbn [enc_fval]. rewrite len_enc_qid. reflexivity.
  - cbn [enc_fval] in *. rewrite len_app, len_le, len_concat_map in *.
    rewrite (fold_add32 (fun _ => size_qid)).
    + f_equal. all: try (apply sumN_le_mono; intros q _; rewrite len_enc_qid; reflexivity).
    + assert (E : sumN (map (fun _ : qid => size_qid) l) = sumN (map (fun x => len (enc_qid x)) l)).
      { apply sumN_le_mono. intros q _. rewrite len_enc_qid. reflexivity. }
      rewrite E. exact H.
  - cbn [enc_fval]. rewrite len_le. reflexivity.
Qed.

Lemma size_fvals_len fs : len (enc_fvals fs) < M32 -> size_fvals fs = len (enc_fvals fs).
Proof.
  intros H. unfold size_fvals, enc_fvals in *. rewrite len_concat_map in *.
  rewrite (fold_add32 size_fval).
  - rewrite N.add_0_l. apply sumN_le_mono. intros v Hv. apply size_fval_len.
    pose proof (sumN_in (fun x => len (enc_fval x)) fs v Hv) as Hle. cbn beta in Hle. lia.
  - rewrite N.add_0_l.
    assert (E : sumN (map size_fval fs) = sumN (map (fun x => len (enc_fval x)) fs)).
    { apply sumN_le_mono. intros v Hv. apply size_fval_len.
      pose proof (sumN_in (fun x => len (enc_fval x)) fs v Hv) as Hle. cbn beta in Hle. lia. }
    rewrite E. exact H.
Qed.

Lemma len_enc_dir fs : len (enc_dir fs) = 2 + len (enc_fvals fs).
Proof. unfold enc_dir. rewrite len_app, len_le. reflexivity. Qed.

Lemma size_val_len v : len (enc_val v) < M32 -> size_val v = len (enc_val v).
Proof.
  destruct v as [f|fs]; cbn [size_val enc_val]; intros H.
  - apply size_fval_len; exact H.
  - rewrite len_enc_dir in *. rewrite size_fvals_len by lia. unfold add32. rewrite N.mod_small by lia. lia.
Qed.

Lemma size_vals_len vs : len (enc_vals vs) < M32 -> size_vals vs = len (enc_vals vs).
Proof.
  intros H. unfold size_vals, enc_vals in *. rewrite len_concat_map in *.
  rewrite (fold_add32 size_val).
  - rewrite N.add_0_l. apply sumN_le_mono. intros v Hv. apply size_val_len.
    pose proof (sumN_in (fun x => len (enc_val x)) vs v Hv) as Hle. cbn beta in Hle. lia.
  - rewrite N.add_0_l.
    assert (E : sumN (map size_val vs) = sumN (map (fun x => len (enc_val x)) vs)).
    { apply sumN_le_mono. intros v Hv. apply size_val_len.
      pose proof (sumN_in (fun x => len (enc_val x)) vs v Hv) as Hle. cbn beta in Hle. lia. }
    rewrite E. exact H.
Qed.

(* ---------- Dir ---------- *)
Lemma dec_dir_enc fs rest : wf_dir fs = true -> dec_dir (enc_dir fs ++ rest) = Ok (fs, rest).
Proof.
  unfold wf_dir. rewrite !andb_true_iff. intros [[Hk Hw] Hl]. apply N.ltb_lt in Hl.
  unfold dec_dir, enc_dir. rewrite <- app_assoc.
  assert (Hs : size_fvals fs = len (enc_fvals fs)) by (apply size_fvals_len; unfold M16, M32 in *; lia).
  rewrite Hs.
  rewrite (rd_int_le_nat 2) by (change (2 ^ (8 * N.of_nat 2)) with M16; exact Hl). cbn [bind fst snd].
  rewrite need_ok by (rewrite len_app; lia). cbn [bind].
  rewrite rd_app. cbn [bind fst snd].
  rewrite <- (app_nil_r (enc_fvals fs)).
  rewrite dec_fvals_enc by assumption. reflexivity.
Qed.

Lemma dec_val_enc v rest : wf_val v = true -> dec_val (kind_of v) (enc_val v ++ rest) = Ok (v, rest).
Proof.
  destruct v as [f|fs]; cbn [wf_val kind_of enc_val]; intros H.
  - pose proof (dec_fval_enc f rest H) as E. unfold dec_val.
    destruct f; cbn [kind_of_fval] in *; rewrite E; reflexivity.
  - unfold dec_val. rewrite dec_dir_enc by exact H. reflexivity.
Qed.

Lemma dec_vals_enc ks vs rest :
  kinds_match ks vs = true -> forallb wf_val vs = true ->
  dec_vals ks (enc_vals vs ++ rest) = Ok (vs, rest).
Proof.
  revert vs rest; induction ks as [|k ks IH]; intros [|v vs] rest Hk Hw; cbn [kinds_match] in Hk; try discriminate.
  - reflexivity.
  - apply andb_true_iff in Hk as [Hk1 Hk2]. apply kind_eqb_eq in Hk1. subst k.
    cbn [forallb] in Hw. apply andb_true_iff in Hw as [Hw1 Hw2].
    unfold enc_vals. cbn [map concat dec_vals]. rewrite <- app_assoc.
    rewrite dec_val_enc by exact Hw1. cbn [bind fst snd].
    fold (enc_vals vs). rewrite IH by assumption. reflexivity.
Qed.

(* ---------- messages ---------- *)
Lemma rd_int_le_mod (w : nat) n rest : rd_int (N.of_nat w) (le w n ++ rest) = Ok (n mod 256 ^ N.of_nat w, rest).
Proof.
  unfold rd_int. rewrite rd_app' by (rewrite len_le; reflexivity). cbn [bind fst snd].
  rewrite unle_le. reflexivity.
Qed.

Lemma assoc_N_In {A} k (l : list (N * A)) v : assoc_N k l = Some v -> In (k, v) l.
Proof.
  induction l as [|[k' v'] l IH]; cbn [assoc_N]; [discriminate|].
  destruct (N.eqb_spec k k') as [->|Hn]; intros H.
  - injection H as ->. left; reflexivity.
  - right. apply IH; exact H.
Qed.

Lemma kinds_of_type_lt t ks : kinds_of_type t = Some ks -> t < 256.
Proof.
  intros H. apply assoc_N_In in H. unfold spec_kinds_table in H.
  repeat (destruct H as [H|H]; [injection H as <- _; reflexivity|]). contradiction.
Qed.

Lemma dec_msg_enc ty ks vs rest :
  kinds_match ks vs = true -> forallb wf_val vs = true ->
  dec_msg ty ks (enc_msg ty vs ++ rest) = Ok (vs, rest).
Proof.
  intros Hk Hw. unfold dec_msg, enc_msg.
  destruct (ty =? T_Rstat) eqn:E1.
  - rewrite <- app_assoc. rewrite (rd_int_le_mod 2). cbn [bind fst snd]. apply dec_vals_enc; assumption.
  - destruct (ty =? T_Twstat) eqn:E2; [|apply dec_vals_enc; assumption].
    destruct ks as [|k0 ks], vs as [|v0 vs]; cbn [kinds_match] in Hk; try discriminate; [reflexivity|].
    apply andb_true_iff in Hk as [Hk1 Hk2]. apply kind_eqb_eq in Hk1. subst k0.
    cbn [forallb] in Hw. apply andb_true_iff in Hw as [Hw1 Hw2].
    rewrite <- !app_assoc. rewrite dec_val_enc by exact Hw1. cbn [bind fst snd].
    rewrite (rd_int_le_mod 2). cbn [bind fst snd].
    rewrite dec_vals_enc by assumption. reflexivity.
Qed.

Theorem dec_fcall_enc f rest : wf_fcall f = true -> dec_fcall (enc_fcall f ++ rest) = Ok f.
Proof.
  unfold wf_fcall. destruct (kinds_of_type (fc_type f)) as [ks|] eqn:K; [|discriminate].
  rewrite !andb_true_iff. intros [[[Hk Hw] Ht] _]. apply N.ltb_lt in Ht.
  unfold dec_fcall, enc_fcall. rewrite <- !app_assoc.
  rewrite (rd_int_le_nat 1) by (change (2 ^ (8 * N.of_nat 1)) with 256; eapply kinds_of_type_lt; exact K).
  cbn [bind fst snd].
  rewrite (rd_int_le_nat 2) by (change (2 ^ (8 * N.of_nat 2)) with M16; exact Ht).
  cbn [bind fst snd]. rewrite K.
  rewrite dec_msg_enc by assumption. cbn [bind fst snd]. destruct f; reflexivity.
Qed.

(* ---------- size = number of bytes ---------- *)
Lemma len_enc_msg ty vs :
  len (enc_msg ty vs) = (if (ty =? T_Rstat) then 2 else if (ty =? T_Twstat) then match vs with [] => 0 | _ => 2 end else 0) + len (enc_vals vs).
Proof.
  unfold enc_msg. destruct (ty =? T_Rstat).
  - rewrite len_app, len_le. reflexivity.
  - destruct (ty =? T_Twstat); [|lia].
    destruct vs as [|v0 vs]; [reflexivity|].
    unfold enc_vals. cbn [map concat]. rewrite !len_app, len_le. fold (enc_vals vs). lia.
Qed.

Theorem size_fcall_len f : wf_fcall f = true -> size_fcall f = len (enc_fcall f).
Proof.
  unfold wf_fcall. destruct (kinds_of_type (fc_type f)) as [ks|] eqn:K; [|discriminate].
  rewrite !andb_true_iff. intros [[[Hk Hw] Ht] Hl]. apply N.ltb_lt in Hl.
  unfold size_fcall, enc_fcall, size_msg. rewrite !len_app, !len_le, len_enc_msg.
  assert (HM : M32 = 4294967296) by reflexivity.
  rewrite size_vals_len by lia.
  destruct (fc_type f =? T_Rstat) eqn:E1; cbn [orb].
  - unfold add32. rewrite !N.mod_small; lia.
  - destruct (fc_type f =? T_Twstat) eqn:E2.
    + destruct (fc_fields f) as [|v0 vs] eqn:EF.
      * (* Twstat has two fields *)
        apply N.eqb_eq in E2. rewrite E2 in K. vm_compute in K. injection K as <-. discriminate Hk.
      * unfold add32. rewrite !N.mod_small; lia.
    + unfold add32. rewrite !N.mod_small; lia.
Qed.
