(* C14 - unbounded linearizability, part 3: operations on pairwise disjoint fid sets, started in ANY quiescent
   session state (after any set-up), not only in the fresh session.

   [start b reqauth id0 ops]: the session state b (fid table, SFid fields, no mutex held) with the operations ops
   not yet begun (ghost ids id0, id0+1, ...).  [base_ok b]: no mutex held, distinct fids name distinct SFids, every
   SFid in the table was allocated.  For ANY such b, ANY number of client operations on pairwise disjoint fid
   sets, ANY schedule and scripts, the completed execution is linearizable relative to b: the one-at-a-time run
   by [seq_op] STARTING FROM b, in the order of return, reproduces every result and every FileSys call.
   Same argument as part 2; the renaming of operation i starts as the identity on the SFids that b binds to i's
   fids, and the one-at-a-time run keeps the other operations' fids, SFids and mutexes as b has them. *)
From stdpp Require Import gmap sorting.
From Coq Require Import NArith List Lia ZifyBool ZifyNat ZifyN Permutation.
From P9 Require Import Model.SessLock Proofs.SessLockProofs Proofs.SessLockProofsLin Proofs.SessLockProofsLinAll Proofs.SessLockProofsLinAll2.
Local Open Scope N_scope.

Definition start (b : state) (reqauth : bool) (id0 : N) (ops : list (op * list outcome)) : state :=
  {| refs := refs b; heap := heap b; owner := owner b; nextp := nextp b;
     threads := imap (fun i => mk_thread reqauth (id0 + N.of_nat i)) ops |}.

Record base_ok (b : state) : Prop := {
  bo_own : owner b = ∅;
  bo_inj : forall f g p, refs b !! f = Some p -> refs b !! g = Some p -> f = g;
  bo_lt : forall f p, refs b !! f = Some p -> p < nextp b }.

Definition history_from (b : state) (reqauth : bool) (id0 : N) (ops : list (op * list outcome)) (sched : list nat) : list hop :=
  let s0 := start b reqauth id0 ops in
  let fin := run sched s0 in
  imap (fun i os =>
    {| h_op := fst os; h_script := snd os; h_id := id0 + N.of_nat i;
       h_inv := 2 * inv_time sched s0 i 0;
       h_ret := 2 * ret_time sched s0 i 0 + 1;
       h_res := match threads fin !! i with
                | Some th => match result_of th with Some r => r | None => res_panic end
                | None => res_panic
                end;
       h_calls := match threads fin !! i with Some th => rev (t_calls th) | None => [] end |}) ops.

(* [linearization] (Proofs/SessLockProofsLin.v) with the one-at-a-time run started in b instead of the fresh session *)
Definition linearization_from (reqauth : bool) (b : state) (h : list hop) (o : list nat) : Prop :=
  Permutation o (seq 0 (length h)) /\
  exists hs, Forall2 (fun i a => h !! i = Some a) o hs /\ rt_respected hs /\
    seq_run reqauth b hs = map (fun h => Some (h_res h, h_calls h)) hs.

(* frames compose *)
Lemma frame_trans : forall (F : N -> Prop) (R R1 R2 : prn) s s1 s2,
  frame F R R1 s s1 -> frame F R1 R2 s1 s2 -> sub R1 R2 -> frame F R R2 s s2.
Proof.
  intros F R R1 R2 s s1 s2 [A1 A2 A3 A4] [B1 B2 B3 B4] Hs. constructor.
  - intros f Hf. rewrite B1, A1 by exact Hf. reflexivity.
  - intros p Hn. destruct (B2 p Hn) as [E1 E2].
    assert (Hn1 : forall p', ~ R1 p p') by (intros p' H1; exact (Hn p' (Hs _ _ H1))).
    destruct (A2 p Hn1) as [E3 E4]. rewrite E1, E2, E3, E4. split; reflexivity.
  - lia.
  - intros p p' H2. destruct (B4 _ _ H2) as [H1|H1]; [|right; lia].
    destruct (A4 _ _ H1) as [H0|H0]; [left; exact H0 | right; exact H0].
Qed.

(* [run_alone_sim] with the frame of the whole run *)
Lemma run_alone_sim_frame : forall (F : N -> Prop) fuel (R : prn) s s' th th',
  srel F R s s' -> threads s = [th] -> threads s' = [th'] -> trel F R th th' ->
  exists (R2 : prn) th2 th2',
    srel F R2 (run_alone fuel s 0) (run_alone fuel s' 0) /\
    threads (run_alone fuel s 0) = [th2] /\ threads (run_alone fuel s' 0) = [th2'] /\ trel F R2 th2 th2' /\
    sub R R2 /\ frame F R R2 s (run_alone fuel s 0).
Proof.
  intros F. induction fuel as [|fuel IH]; intros R s s' th th' HS Ht Ht' HT; cbn [run_alone].
  - exists R, th, th'. split; [exact HS|]. split; [exact Ht|]. split; [exact Ht'|]. split; [exact HT|].
    split; [apply sub_refl | apply frame_refl; reflexivity].
  - assert (Hi : threads s !! 0%nat = Some th) by (rewrite Ht; reflexivity).
    assert (Hi' : threads s' !! 0%nat = Some th') by (rewrite Ht'; reflexivity).
    destruct (step s 0) as [s1|] eqn:E.
    + destruct (step_sim _ _ _ _ _ _ _ _ _ HS Hi Hi' HT E)
        as (s1' & R' & th1 & th1' & E' & Hsub & HS1 & Hth1 & Hth1' & HT1 & Hfr).
      rewrite E'. rewrite Ht in Hth1. rewrite Ht' in Hth1'. cbn in Hth1, Hth1'.
      destruct (IH R' s1 s1' th1 th1' HS1 Hth1 Hth1' HT1) as (R2 & th2 & th2' & A & B & C & D & Hs2 & Hfr2).
      exists R2, th2, th2'. split; [exact A|]. split; [exact B|]. split; [exact C|]. split; [exact D|].
      split; [eapply sub_trans; eauto | eapply frame_trans; eauto].
    + rewrite (step_sim_none _ _ _ _ _ _ _ _ HS Hi Hi' HT E). exists R, th, th'.
      split; [exact HS|]. split; [exact Ht|]. split; [exact Ht'|]. split; [exact HT|].
      split; [apply sub_refl | apply frame_refl; reflexivity].
Qed.

Section FromBase.
Variable reqauth : bool.
Variable b : state.
Variable id0 : N.
Variable ops : list (op * list outcome).
Hypothesis Hb : base_ok b.
Hypothesis Hnostop : forall i os, ops !! i = Some os -> fst os <> OpStop.
Hypothesis Hdisj : forall i j oi oj f, i <> j -> ops !! i = Some oi -> ops !! j = Some oj ->
  opF (fst oi) f -> opF (fst oj) f -> False.

Definition hopB (i : nat) (os : op * list outcome) : hop :=
  {| h_op := fst os; h_script := snd os; h_id := id0 + N.of_nat i; h_inv := 0; h_ret := 0; h_res := res_panic; h_calls := [] |}.
Definition soloB (i : nat) (os : op * list outcome) : state := alone reqauth b (hopB i os).

(* the SFids that b binds to the fids of F, renamed to themselves *)
Definition idR (F : N -> Prop) : prn := fun p p' => p = p' /\ exists f, F f /\ refs b !! f = Some p.

Definition CIB (c : state) : Prop :=
  length (threads c) = length ops /\
  exists (Rs : nat -> prn) (reps : nat -> state),
    (forall i os, ops !! i = Some os ->
       reach0 (soloB i os) (reps i) /\ srel (opF (fst os)) (Rs i) c (reps i) /\
       exists th th', threads c !! i = Some th /\ threads (reps i) = [th'] /\ trel (opF (fst os)) (Rs i) th th') /\
    (forall i j p p1 p2, i <> j -> Rs i p p1 -> Rs j p p2 -> False) /\
    (forall i p p1, Rs i p p1 -> p < nextp c).

Lemma srel_idR : forall (F : N -> Prop) s s',
  refs s = refs b -> heap s = heap b -> owner s = owner b -> nextp s = nextp b ->
  refs s' = refs b -> heap s' = heap b -> owner s' = owner b -> nextp s' = nextp b ->
  srel F (idR F) s s'.
Proof.
  intros F s s' E1 E2 E3 E4 E1' E2' E3' E4'. constructor.
  - intros f Hf. rewrite E1, E1'. destruct (refs b !! f) as [p|] eqn:E; cbn [orel]; [|exact I].
    split; [reflexivity|]. exists f. split; assumption.
  - intros p p' [-> _]. rewrite E2, E2'. reflexivity.
  - intros p p' [-> _]. rewrite E3, E3'. reflexivity.
  - intros p p' [-> (f & _ & Hf)]. rewrite E4, E4'. pose proof (bo_lt _ Hb _ _ Hf). lia.
  - intros x y x' y' [-> _] [-> _]. reflexivity.
Qed.

Lemma CIB_init : CIB (start b reqauth id0 ops).
Proof.
  split; [unfold start; cbn; apply imap_length|].
  exists (fun i => match ops !! i with Some os => idR (opF (fst os)) | None => fun _ _ => False end),
         (fun i => match ops !! i with Some os => soloB i os | None => b end).
  split; [|split].
  - intros i os Hi. rewrite Hi. split; [apply reach0_refl|]. split.
    + apply srel_idR; reflexivity.
    + exists (mk_thread reqauth (id0 + N.of_nat i) os), (mk_thread reqauth (id0 + N.of_nat i) os).
      split; [unfold start; cbn; rewrite list_lookup_imap, Hi; reflexivity|].
      split; [unfold soloB, alone, hopB; cbn; destruct os; reflexivity|].
      constructor; try reflexivity. cbn. apply prel_prog_of. eapply Hnostop; exact Hi.
  - intros i j p p1 p2 Hne H1 H2.
    destruct (ops !! i) as [oi|] eqn:Hi; [|exact H1]. destruct (ops !! j) as [oj|] eqn:Hj; [|exact H2].
    destruct H1 as [_ (f & Hf & Hfp)]. destruct H2 as [_ (g & Hg & Hgp)].
    assert (f = g) by (eapply (bo_inj _ Hb); eauto). subst g.
    exact (Hdisj _ _ _ _ _ Hne Hi Hj Hf Hg).
  - intros i p p1 H1. destruct (ops !! i) as [oi|]; [|destruct H1].
    destruct H1 as [_ (f & _ & Hfp)]. unfold start. cbn. exact (bo_lt _ Hb _ _ Hfp).
Qed.

Lemma CIB_step : forall c j c1, CIB c -> step c j = Some c1 -> CIB c1.
Proof.
  intros c j c1 [Hlen (Rs & reps & Hall & Hdom & Hlt)] Hst.
  assert (Hj : exists thj, threads c !! j = Some thj).
  { unfold step in Hst. destruct (threads c !! j) as [thj|]; [exists thj; reflexivity | discriminate]. }
  destruct Hj as [thj Hj].
  assert (Hjlt : (j < length ops)%nat) by (rewrite <- Hlen; eapply lookup_lt_Some; exact Hj).
  destruct (lookup_lt_is_Some_2 _ _ Hjlt) as [osj Hoj].
  destruct (Hall _ _ Hoj) as (Hreach & HS & th & th' & Hth & Hth' & HT).
  assert (th = thj) by congruence. subst thj.
  assert (Hi' : threads (reps j) !! 0%nat = Some th') by (rewrite Hth'; reflexivity).
  destruct (step_sim _ _ _ _ _ _ _ _ _ HS Hth Hi' HT Hst)
    as (s1' & R' & th1 & th1' & E' & Hsub & HS1 & Hth1 & Hth1' & HT1 & Hfr).
  rewrite Hth' in Hth1'. cbn in Hth1'.
  split; [rewrite Hth1, insert_length; exact Hlen|].
  exists (fun i => if decide (i = j) then R' else Rs i), (fun i => if decide (i = j) then s1' else reps i).
  split.
  - intros i os Hi. destruct (decide (i = j)) as [->|Hne].
    + assert (os = osj) by congruence. subst os.
      split; [eapply reach0_snoc; eauto|]. split; [exact HS1|].
      exists th1, th1'. split; [rewrite Hth1; apply list_lookup_insert; eapply lookup_lt_Some; exact Hth|].
      split; [exact Hth1' | exact HT1].
    + destruct (Hall _ _ Hi) as (Hreachi & HSi & thi & thi' & Hthi & Hthi' & HTi).
      split; [exact Hreachi|]. split.
      * eapply srel_other; [exact HSi | exact Hfr | |].
        -- intros f Hfi Hfj. exact (Hdisj _ _ _ _ _ Hne Hi Hoj Hfi Hfj).
        -- intros p p1 p2 H1 H2. exact (Hdom _ _ _ _ _ Hne H1 H2).
      * exists thi, thi'. split; [rewrite Hth1, list_lookup_insert_ne by congruence; exact Hthi|].
        split; [exact Hthi' | exact HTi].
  - assert (Hnew : forall i p p1 p2, i <> j -> Rs i p p1 -> R' p p2 -> False).
    { intros i p p1 p2 Hne H1 H2. destruct (fr_dom _ _ _ _ _ Hfr _ _ H2) as [H3|H3].
      - exact (Hdom _ _ _ _ _ Hne H1 H3).
      - pose proof (Hlt _ _ _ H1). lia. }
    split.
    2:{ intros i p p1 H1. pose proof (fr_np _ _ _ _ _ Hfr). destruct (decide (i = j)) as [->|Hn].
        - destruct (sr_lt _ _ _ _ HS1 _ _ H1). assumption.
        - pose proof (Hlt _ _ _ H1). lia. }
    intros i i2 p p1 p2 Hne H1 H2.
    destruct (decide (i = j)) as [->|Hn1], (decide (i2 = j)) as [->|Hn2].
    + congruence.
    + exact (Hnew _ _ _ _ Hn2 H2 H1).
    + exact (Hnew _ _ _ _ Hn1 H1 H2).
    + exact (Hdom _ _ _ _ _ Hne H1 H2).
Qed.

Lemma CIB_run : forall sch c, CIB c -> CIB (run sch c).
Proof.
  induction sch as [|j sch IH]; intros c H; cbn [run fold_left]; [exact H|].
  apply IH. unfold step_or_stay. destruct (step c j) as [c1|] eqn:E; [|exact H].
  eapply CIB_step; eauto.
Qed.

Variable sched : list nat.
Hypothesis Hdone : all_done (run sched (start b reqauth id0 ops)).

Definition finB : state := run sched (start b reqauth id0 ops).

Lemma conc_resultB : forall i os, ops !! i = Some os ->
  exists th r, threads finB !! i = Some th /\ t_prog th = Ret r /\
    snd (seq_op reqauth b (hopB i os)) = Some (r, rev (t_calls th)).
Proof.
  intros i os Hi.
  destruct (CIB_run sched _ CIB_init) as [_ (Rs & reps & Hall & _)].
  destruct (Hall _ _ Hi) as (Hreach & HS & th & th' & Hth & Hth' & HT).
  fold finB in Hth. pose proof (Hdone _ _ Hth) as Hd. unfold is_done in Hd.
  destruct (t_prog th) as [r| | | | | | | | | | | |] eqn:Hp; try discriminate.
  exists th, r. split; [exact Hth|]. split; [exact Hp|].
  pose proof (tr_prog _ _ _ _ HT) as HP. rewrite Hp in HP. apply prel_ret_r in HP.
  assert (Hd0 : done0 (reps i)).
  { exists th'. split; [rewrite Hth'; reflexivity | unfold is_done; rewrite HP; reflexivity]. }
  destruct (seq_op_returns reqauth b (hopB i os) (bo_own _ Hb)) as (r0 & cs0 & Hres & _).
  unfold seq_op in *. fold (alone reqauth b (hopB i os)) in *. cbn [fst snd] in *.
  fold (soloB i os) in *.
  assert (Hdr : done0 (run_alone seq_fuel (soloB i os) 0)).
  { destruct (threads (run_alone seq_fuel (soloB i os) 0) !! 0%nat) as [th2|] eqn:E2; [|discriminate].
    exists th2. split; [exact E2|]. unfold result_of in Hres. unfold is_done.
    destruct (t_prog th2); try discriminate. reflexivity. }
  rewrite (run_alone_reach _ _ Hreach Hd0 _ Hdr). rewrite Hth'. cbn. unfold result_of. rewrite HP.
  rewrite (tr_calls _ _ _ _ HT). reflexivity.
Qed.

Definition histB : list hop := history_from b reqauth id0 ops sched.

Lemma histB_lookup : forall i a, histB !! i = Some a ->
  exists os th r, ops !! i = Some os /\ threads finB !! i = Some th /\ t_prog th = Ret r /\
    h_op a = fst os /\ h_script a = snd os /\ h_id a = id0 + N.of_nat i /\ h_res a = r /\ h_calls a = rev (t_calls th) /\
    h_inv a = 2 * inv_time sched (start b reqauth id0 ops) i 0 /\
    h_ret a = 2 * ret_time sched (start b reqauth id0 ops) i 0 + 1.
Proof.
  intros i a H. unfold histB, history_from in H. rewrite list_lookup_imap in H.
  destruct (ops !! i) as [os|] eqn:Hi; cbn in H; [|discriminate]. injection H as <-.
  destruct (conc_resultB _ _ Hi) as (th & r & Hth & Hp & _). fold finB.
  exists os, th, r. cbn. rewrite Hth. unfold result_of. rewrite Hp. repeat split; reflexivity.
Qed.

(* what the one-at-a-time run must keep of b for the operations still to come *)
Definition keeps (q : state) (l : list nat) : Prop :=
  nextp b <= nextp q /\
  forall i os f, In i l -> ops !! i = Some os -> opF (fst os) f ->
    refs q !! f = refs b !! f /\
    forall p, refs b !! f = Some p -> heap q !! p = heap b !! p /\ owner q !! p = None.

Lemma chainB : forall l, NoDup l ->
  forall q hs, keeps q l ->
  Forall2 (fun i a => histB !! i = Some a) l hs ->
  seq_run reqauth q hs = map (fun h => Some (h_res h, h_calls h)) hs.
Proof.
  induction l as [|i l IH]; intros ND q hs Hq HF; inversion HF as [|i' a l' hs' Ha HF']; subst; [reflexivity|].
  inversion ND as [|i' l' Hnin ND']; subst.
  destruct (histB_lookup _ _ Ha) as (os & th & r & Hi & Hth & Hp & E1 & E2 & E3 & E4 & E5 & _).
  cbn [seq_run map].
  destruct (conc_resultB _ _ Hi) as (th0 & r0 & Hth0 & Hp0 & Hseq).
  assert (th0 = th) by congruence. subst th0. assert (r0 = r) by congruence. subst r0.
  destruct Hq as [Hnp Hq].
  assert (Hal : threads (alone reqauth q a) = [mk_thread reqauth (id0 + N.of_nat i) os]).
  { unfold alone. cbn. rewrite E1, E2, E3. destruct os; reflexivity. }
  assert (Hal' : threads (soloB i os) = [mk_thread reqauth (id0 + N.of_nat i) os]).
  { unfold soloB, alone, hopB. cbn. destruct os; reflexivity. }
  assert (HS : srel (opF (fst os)) (idR (opF (fst os))) (alone reqauth q a) (soloB i os)).
  { constructor.
    - intros f Hf. cbn. destruct (Hq i os f (or_introl eq_refl) Hi Hf) as [Er _]. rewrite Er.
      destruct (refs b !! f) as [p|] eqn:E; cbn [orel]; [|exact I]. split; [reflexivity|]. exists f. split; assumption.
    - intros p p' [-> (f & Hf & Hfp)]. cbn. destruct (Hq i os f (or_introl eq_refl) Hi Hf) as [_ Hh].
      exact (proj1 (Hh _ Hfp)).
    - intros p p' [-> (f & Hf & Hfp)]. cbn. destruct (Hq i os f (or_introl eq_refl) Hi Hf) as [_ Hh].
      rewrite (proj2 (Hh _ Hfp)), (bo_own _ Hb), lookup_empty. split; reflexivity.
    - intros p p' [-> (f & Hf & Hfp)]. cbn. pose proof (bo_lt _ Hb _ _ Hfp). lia.
    - intros x y x' y' [-> _] [-> _]. reflexivity. }
  assert (HT : trel (opF (fst os)) (idR (opF (fst os))) (mk_thread reqauth (id0 + N.of_nat i) os) (mk_thread reqauth (id0 + N.of_nat i) os)).
  { constructor; try reflexivity. cbn. apply prel_prog_of. eapply Hnostop; exact Hi. }
  destruct (run_alone_sim_frame _ seq_fuel _ _ _ _ _ HS Hal Hal' HT) as (R2 & th2 & th2' & HS2 & Ht2 & Ht2' & HT2 & Hsub2 & Hfr).
  unfold seq_op in Hseq |- *. fold (alone reqauth b (hopB i os)) in Hseq. fold (soloB i os) in Hseq.
  fold (alone reqauth q a). cbn [snd] in Hseq.
  rewrite Ht2' in Hseq. cbn in Hseq. rewrite Ht2. cbn.
  destruct (result_of th2') as [r2|] eqn:Er; [|discriminate]. injection Hseq as -> Hc.
  unfold result_of in Er. destruct (t_prog th2') as [rr| | | | | | | | | | | |] eqn:Hp2; try discriminate. injection Er as ->.
  pose proof (tr_prog _ _ _ _ HT2) as HP2. rewrite Hp2 in HP2. apply prel_ret_l in HP2.
  unfold result_of. rewrite HP2. rewrite (tr_calls _ _ _ _ HT2), Hc, E4, E5. f_equal.
  apply IH; [exact ND' | | exact HF'].
  change (keeps (run_alone seq_fuel (alone reqauth q a) 0) l).
  destruct Hfr as [F1 F2 F3 F4].
  assert (Enp : nextp (alone reqauth q a) = nextp q) by reflexivity.
  split; [rewrite Enp in F3; lia|].
  intros i2 os2 f Hin Hi2 Hf.
  assert (Hne : i2 <> i) by (intros ->; exact (Hnin Hin)).
  assert (Hnf : ~ opF (fst os) f) by (intro Hfi; exact (Hdisj _ _ _ _ _ Hne Hi2 Hi Hf Hfi)).
  destruct (Hq i2 os2 f (or_intror Hin) Hi2 Hf) as [Er Hh].
  split; [rewrite F1 by exact Hnf; exact Er|].
  intros p Hfp. destruct (Hh _ Hfp) as [Eh Eo].
  assert (Hn : forall p', ~ R2 p p').
  { intros p' H2. destruct (F4 _ _ H2) as [[_ (g & Hg & Hgp)]|Hge].
    - assert (g = f) by (eapply (bo_inj _ Hb); eauto). subst g. exact (Hnf Hg).
    - rewrite Enp in Hge. pose proof (bo_lt _ Hb _ _ Hfp). lia. }
  destruct (F2 p Hn) as [G1 G2]. rewrite G1, G2. split; [exact Eh | exact Eo].
Qed.

Definition rkeyB (i : nat) : N := ret_time sched (start b reqauth id0 ops) i 0.
Definition lin_orderB : list nat := merge_sort (ordR rkeyB) (seq 0 (length ops)).

Lemma histB_length : length histB = length ops.
Proof. unfold histB, history_from. apply imap_length. Qed.

Lemma disjoint_linearization_from : linearization_from reqauth b histB lin_orderB.
Proof.
  assert (Hperm : Permutation lin_orderB (seq 0 (length ops))) by apply merge_sort_Permutation.
  split; [rewrite histB_length; exact Hperm|].
  assert (Hbd : forall x, In x lin_orderB -> (x < length histB)%nat).
  { intros x Hx. rewrite histB_length. eapply Permutation_in in Hx; [|exact Hperm]. apply in_seq in Hx. lia. }
  exists (pick histB lin_orderB). split; [apply pick_total, Hbd|]. split.
  - intros i j x y Hij Hia Hjb.
    pose proof (pick_total histB lin_orderB Hbd) as HF.
    destruct (Forall2_lookup_r _ _ _ _ _ HF Hia) as (xi & Hx & Hxa).
    destruct (Forall2_lookup_r _ _ _ _ _ HF Hjb) as (yi & Hy & Hyb).
    assert (Hs : StronglySorted (ordR rkeyB) lin_orderB) by (apply StronglySorted_merge_sort; apply _).
    pose proof (StronglySorted_lookup _ _ _ _ _ _ Hs Hij Hx Hy) as Hxy. unfold ordR, rkeyB in Hxy.
    destruct (histB_lookup _ _ Hxa) as (_ & _ & _ & _ & _ & _ & _ & _ & _ & _ & _ & Einv & _).
    destruct (histB_lookup _ _ Hyb) as (_ & _ & _ & _ & _ & _ & _ & _ & _ & _ & _ & _ & Eret).
    pose proof (inv_le_ret sched (start b reqauth id0 ops) xi 0). lia.
  - apply (chainB lin_orderB).
    + eapply Permutation_NoDup; [symmetry; exact Hperm | apply seq_NoDup].
    + split; [lia|]. intros i os f _ _ _. split; [reflexivity|]. intros p _. split; [reflexivity|].
      rewrite (bo_own _ Hb). apply lookup_empty.
    + apply pick_total, Hbd.
Qed.
End FromBase.

Theorem linearizable_disjoint_from : forall reqauth b id0 ops sched,
  base_ok b ->
  disjoint_fids (map fst ops) = true ->
  all_done (run sched (start b reqauth id0 ops)) ->
  exists o, linearization_from reqauth b (history_from b reqauth id0 ops sched) o.
Proof.
  intros reqauth b id0 ops sched Hb Hc Hd. destruct (disjoint_fids_spec ops Hc) as [H1 H2].
  exists (lin_orderB reqauth b id0 ops sched). apply disjoint_linearization_from; assumption.
Qed.

(* ------------------------------------------------------------------ every state a sequential set-up reaches is [base_ok] *)

Definition tab_ok (s : state) : Prop :=
  (forall f g p, refs s !! f = Some p -> refs s !! g = Some p -> f = g) /\
  (forall f p, refs s !! f = Some p -> p < nextp s).

Lemma tab_ok_delete : forall r (np : N) f,
  ((forall f g p, r !! f = Some p -> r !! g = Some p -> f = g) /\ (forall f p, r !! f = Some p -> p < np)) ->
  ((forall f0 g p, delete f r !! f0 = Some p -> delete f r !! g = Some p -> f0 = g) /\
   (forall f0 p, delete f (r : gmap N N) !! f0 = Some p -> p < np)).
Proof.
  intros r np f [H1 H2]. split.
  - intros f0 g p A B. apply lookup_delete_Some in A. apply lookup_delete_Some in B. eapply H1; [apply A | apply B].
  - intros f0 p A. apply lookup_delete_Some in A. eapply H2. apply A.
Qed.

Lemma tab_ok_step : forall s i s', tab_ok s -> step s i = Some s' -> tab_ok s'.
Proof.
  intros s i s' [H1 H2] H. unfold step in H.
  destruct (threads s !! i) as [th|]; [|discriminate].
  destruct (t_prog th) as [r|f k|f k|f k|f k|f q k|k|vs ms k|q k|q k|q k|q g k|c k].
  - discriminate.
  - injection H as <-. split; assumption.
  - destruct (refs s !! f) as [p0|] eqn:E; injection H as <-; [split; assumption|]. split; cbn.
    + intros f0 g p A B. destruct (decide (f0 = f)) as [->|Hn1], (decide (g = f)) as [->|Hn2]; [reflexivity| | |].
      * rewrite lookup_insert in A. rewrite lookup_insert_ne in B by congruence. injection A as <-.
        pose proof (H2 _ _ B). lia.
      * rewrite lookup_insert in B. rewrite lookup_insert_ne in A by congruence. injection B as <-.
        pose proof (H2 _ _ A). lia.
      * rewrite lookup_insert_ne in A, B by congruence. eapply H1; eauto.
    + intros f0 p A. destruct (decide (f0 = f)) as [->|Hn].
      * rewrite lookup_insert in A. injection A as <-. lia.
      * rewrite lookup_insert_ne in A by congruence. pose proof (H2 _ _ A). lia.
  - injection H as <-. apply (tab_ok_delete (refs s) (nextp s) f). split; assumption.
  - injection H as <-. apply (tab_ok_delete (refs s) (nextp s) f). split; assumption.
  - injection H as <-. cbn. destruct (match refs s !! f with Some q0 => q0 =? q | None => false end).
    + apply (tab_ok_delete (refs s) (nextp s) f). split; assumption.
    + split; assumption.
  - injection H as <-. split; assumption.
  - injection H as <-. split; assumption.
  - destruct (owner s !! q); [discriminate|]. injection H as <-. split; cbn; [exact H1|].
    intros f0 p A. pose proof (H2 _ _ A). lia.
  - destruct (owner s !! q); injection H as <-; split; assumption.
  - injection H as <-. split; assumption.
  - injection H as <-. split; assumption.
  - destruct (t_incall th); injection H as <-; split; assumption.
Qed.

Lemma tab_ok_run_alone : forall fuel s i, tab_ok s -> tab_ok (run_alone fuel s i).
Proof.
  induction fuel as [|fuel IH]; intros s i H; cbn [run_alone]; [exact H|].
  destruct (step s i) as [s'|] eqn:E; [|exact H]. apply IH. eapply tab_ok_step; eauto.
Qed.

Lemma base_ok_seq_op : forall reqauth s h, base_ok s -> base_ok (fst (seq_op reqauth s h)).
Proof.
  intros reqauth s h [B1 B2 B3].
  destruct (seq_op_returns reqauth s h B1) as (r & cs & _ & Ho).
  assert (T : tab_ok (fst (seq_op reqauth s h))).
  { unfold seq_op. cbn [fst]. apply tab_ok_run_alone. split; cbn; assumption. }
  destruct T as [T1 T2]. constructor; assumption.
Qed.

(* the session after running the operations hs one at a time *)
Definition seq_state (reqauth : bool) (s : state) (hs : list hop) : state :=
  fold_left (fun s h => fst (seq_op reqauth s h)) hs s.

Lemma base_ok_init : forall reqauth, base_ok (init reqauth []).
Proof.
  intro reqauth. constructor; cbn.
  - reflexivity.
  - intros f g p H. rewrite lookup_empty in H. discriminate.
  - intros f p H. rewrite lookup_empty in H. discriminate.
Qed.

Lemma base_ok_seq_state : forall reqauth hs s, base_ok s -> base_ok (seq_state reqauth s hs).
Proof.
  intros reqauth hs. induction hs as [|h hs IH]; intros s H; cbn; [exact H|].
  apply IH, base_ok_seq_op, H.
Qed.

(* after ANY sequential set-up [pre] of the fresh session: any number of operations on pairwise disjoint fid
   sets, any schedule, any scripts - linearizable relative to the state the set-up left *)
Theorem linearizable_disjoint_after_setup : forall reqauth pre id0 ops sched,
  disjoint_fids (map fst ops) = true ->
  all_done (run sched (start (seq_state reqauth (init reqauth []) pre) reqauth id0 ops)) ->
  exists o, linearization_from reqauth (seq_state reqauth (init reqauth []) pre)
              (history_from (seq_state reqauth (init reqauth []) pre) reqauth id0 ops sched) o.
Proof.
  intros reqauth pre id0 ops sched Hc Hd. apply linearizable_disjoint_from; [|exact Hc|exact Hd].
  apply base_ok_seq_state, base_ok_init.
Qed.

(* ------------------------------------------------------------------ non-vacuity: a populated session, real FileSys calls in parallel *)

Definition mkhop (id : N) (o : op) (sc : list outcome) : hop :=
  {| h_op := o; h_script := sc; h_id := id; h_inv := 0; h_ret := 0; h_res := res_panic; h_calls := [] |}.

(* set-up: attach(0) [a directory], clone 0->1, clone 0->2, walk 0->4 one name [a file], open(4) for read/write *)
Definition ex_setup : list hop :=
  [mkhop 0 (OpAttach 0 NOFID) [OOk 0 true]; mkhop 1 (OpWalk 0 1 0 true) [OOk 0 true];
   mkhop 2 (OpWalk 0 2 0 true) [OOk 0 true]; mkhop 3 (OpWalk 0 4 1 true) [OOk 1 false]; mkhop 4 (OpOpen 4 2) [OOk 0 false]].
(* then, concurrently: read(4), stat(2), clone 0->3, create in 1 (a file), clunk(7) of an unbound fid *)
Definition ex_conc : list (op * list outcome) :=
  [(OpRead 4, [OOk 5 false]); (OpStat 2, [OOk 0 false]); (OpWalk 0 3 0 true, [OOk 0 true]);
   (OpCreate 1 false 1, [OOk 0 false]); (OpClunk 7, [])].
Definition ex_base : state := seq_state false (init false []) ex_setup.
Definition ex_conc_sched : list nat := concat (replicate 10 [0; 1; 2; 3; 4])%nat.

Lemma ex_setup_then_disjoint :
  disjoint_fids (map fst ex_conc) = true /\
  all_done (run ex_conc_sched (start ex_base false 8 ex_conc)) /\
  overlapb (history_from ex_base false 8 ex_conc ex_conc_sched) 0 1 = true /\
  overlapb (history_from ex_base false 8 ex_conc ex_conc_sched) 2 3 = true /\
  map (fun h => (r_cls (h_res h), r_val (h_res h), length (h_calls h))) (history_from ex_base false 8 ex_conc ex_conc_sched)
    = [(R_OK, 5, 1%nat); (R_OK, 0, 1%nat); (R_OK, 0, 1%nat); (R_OK, 0, 1%nat); (R_UNKNOWNFID, 0, 0%nat)].
Proof.
  split; [vm_compute; reflexivity|]. split; [apply all_done_b; vm_compute; reflexivity|].
  split; [vm_compute; reflexivity|]. split; vm_compute; reflexivity.
Qed.
