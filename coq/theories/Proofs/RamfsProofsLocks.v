(* Lemmas for the lock-discipline clause of C18, over the table that the
   translator (harness/cmd/gen/ramfslocks.go) regenerates from /repo/ramfs on
   every run: every access to a field shared between sessions is protected. *)
From Coq Require Import List String Bool.
From P9 Require Import Gen.GenRamfsLocks.
Import ListNotations.
Local Open Scope string_scope.

Definition access_ok (a : lock_access) : bool := negb (String.eqb (la_how a) "NONE").

Lemma lockset_check : forallb access_ok ramfs_accesses = true.
Proof. vm_compute. reflexivity. Qed.

Lemma lockset_holds : Forall (fun a => la_how a <> "NONE") ramfs_accesses.
Proof.
  apply Forall_forall. intros a Ha.
  pose proof (proj1 (forallb_forall access_ok ramfs_accesses) lockset_check a Ha) as H.
  unfold access_ok in H. intros E. rewrite E in H. discriminate.
Qed.

(* the table is not empty and speaks about each of the five shared fields *)
Definition shared_fields : list string := ["nref"; "children"; "Info"; "Data"; "lastpath"].

Lemma lockset_covers :
  forallb (fun f => existsb (fun a => String.eqb (la_field a) f) ramfs_accesses) shared_fields = true.
Proof. vm_compute. reflexivity. Qed.

Lemma lockset_fields : Forall (fun a => In (la_field a) shared_fields) ramfs_accesses.
Proof.
  apply Forall_forall. intros a Ha.
  assert (H : forallb (fun a => existsb (String.eqb (la_field a)) shared_fields) ramfs_accesses = true) by (vm_compute; reflexivity).
  pose proof (proj1 (forallb_forall _ _) H a Ha) as E. cbn beta in E.
  apply existsb_exists in E. destruct E as (f & Hf & Ef). apply String.eqb_eq in Ef. subst. exact Hf.
Qed.
