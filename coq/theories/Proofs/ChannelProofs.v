(* Lemmas about Model/Channel.v: outbound framing (C02). *)
From Coq Require Import List NArith ZArith Lia Bool.
From Coq Require Import ZifyBool ZifyNat ZifyN.
From P9 Require Import Base.Res Base.Bytes Model.WireTypes Model.Spec9P Model.Wire Model.Channel
  Proofs.BytesProofs Proofs.WireProofs Proofs.WireLayout.
Import ListNotations.
Open Scope N_scope.
Ltac Zify.zify_post_hook ::= Z.div_mod_to_equations.

Arguments N.mul : simpl never.
Arguments N.add : simpl never.
Arguments N.sub : simpl never.
Arguments N.pow : simpl never.
Arguments N.modulo : simpl never.
Arguments N.div : simpl never.
Arguments N.ltb : simpl never.
Arguments N.leb : simpl never.
Arguments N.eqb : simpl never.
Arguments le : simpl never.

Lemma M32_val : M32 = 4294967296. Proof. reflexivity. Qed.

Lemma len_frame p : len (frame p) = 4 + len p.
Proof. unfold frame. rewrite len_app, len_le. reflexivity. Qed.

Lemma frame_prefix p : len p + 4 < M32 -> frame p = le 4 (len (frame p)) ++ p.
Proof. intros H. rewrite len_frame. unfold frame. rewrite N.mod_small by exact H. rewrite (N.add_comm 4). reflexivity. Qed.

Lemma msgmsize_len f : wf_fcall f = true -> msgmsize f = 4 + len (enc_fcall f).
Proof. intros H. unfold msgmsize. rewrite size_fcall_len by exact H. reflexivity. Qed.

Lemma wf_len_bound f : wf_fcall f = true -> len (enc_fcall f) + 4 < M32.
Proof.
  intros H. pose proof (size_fcall_len f H) as Hs.
  unfold wf_fcall in H. destruct (kinds_of_type (fc_type f)); [|discriminate].
  rewrite !andb_true_iff in H. destruct H as [_ Hl]. apply N.ltb_lt in Hl.
  unfold enc_fcall. rewrite !len_app, !len_le, len_enc_msg.
  rewrite M32_val in *.
  destruct (fc_type f =? T_Rstat); [lia|]. destruct (fc_type f =? T_Twstat); [|lia].
  destruct (fc_fields f); lia.
Qed.

(* ---- shapes of Tread and Twrite ---- *)
Lemma tread_shape f : wf_fcall f = true -> fc_type f = T_Tread ->
  exists fid off c, fc_fields f = [VF (FInt 4 fid); VF (FInt 8 off); VF (FInt 4 c)] /\ c < M32.
Proof.
  intros Hw Ht. unfold wf_fcall in Hw. rewrite Ht in Hw. change (kinds_of_type T_Tread) with (Some [KInt 4; KInt 8; KInt 4]) in Hw.
  rewrite !andb_true_iff in Hw. destruct Hw as [[[Hk Hwf] _] _].
  destruct (fc_fields f) as [|v0 vs] eqn:E; [discriminate|]. rewrite <- E in *. clear E v0 vs.
  remember (fc_fields f) as vs. clear Heqvs. fields_v.
  cbn [forallb wf_val wf_fval] in Hwf. rewrite !andb_true_iff in Hwf.
  destruct Hwf as (_ & _ & [[_ Hc] _]). apply N.ltb_lt in Hc.
  do 3 eexists. split; [reflexivity|]. exact Hc.
Qed.

Lemma twrite_shape f : wf_fcall f = true -> fc_type f = T_Twrite ->
  exists fid off d, fc_fields f = [VF (FInt 4 fid); VF (FInt 8 off); VF (FData d)].
Proof.
  intros Hw Ht. unfold wf_fcall in Hw. rewrite Ht in Hw. change (kinds_of_type T_Twrite) with (Some [KInt 4; KInt 8; KData]) in Hw.
  rewrite !andb_true_iff in Hw. destruct Hw as [[[Hk Hwf] _] _].
  remember (fc_fields f) as vs. clear Heqvs. fields_v.
  do 3 eexists. reflexivity.
Qed.

Lemma len_enc_tread tag fid off c :
  len (enc_fcall {| fc_type := T_Tread; fc_tag := tag; fc_fields := [VF (FInt 4 fid); VF (FInt 8 off); VF (FInt 4 c)] |}) = 19.
Proof. unfold enc_fcall, enc_msg, enc_vals. cbn [fc_type fc_tag fc_fields N.eqb Pos.eqb T_Tread T_Rstat T_Twstat map concat enc_val enc_fval].
  change (T_Tread =? T_Rstat) with false. change (T_Tread =? T_Twstat) with false. cbv iota.
  rewrite ?app_nil_r, !len_app, !len_le. reflexivity. Qed.

Lemma len_enc_twrite tag fid off d :
  len (enc_fcall {| fc_type := T_Twrite; fc_tag := tag; fc_fields := [VF (FInt 4 fid); VF (FInt 8 off); VF (FData d)] |}) = 19 + len d.
Proof. unfold enc_fcall, enc_msg, enc_vals. cbn [fc_type fc_tag fc_fields T_Twrite T_Rstat T_Twstat map concat enc_val enc_fval].
  change (T_Twrite =? T_Rstat) with false. change (T_Twrite =? T_Twstat) with false. cbv iota.
  rewrite ?app_nil_r, !len_app, !len_le. lia. Qed.

(* ---- the Tread clamp, in uint32 arithmetic ---- *)
Lemma tread_count msize c : 11 <= msize -> msize < M32 -> c < M32 ->
  let overflow := (11 + c + (M32 - msize mod M32)) mod M32 in
  let c' := if c <? overflow then c else c - overflow in
  (11 + c <= msize -> c' = c) /\ (msize < 11 + c -> c' = msize - 11).
Proof.
  intros H1 H2 H3. cbv zeta. rewrite M32_val in *.
  rewrite (N.mod_small msize) by lia.
  destruct (N.ltb_spec c ((11 + c + (4294967296 - msize)) mod 4294967296)) as [Hlt|Hge].
  - split; [reflexivity|]. intros Hover. exfalso.
    (* 11 + c > msize: 11+c-msize in (0, 2^32+11): the mod is 11+c-msize or that minus 2^32; both <= c *)
    assert ((11 + c + (4294967296 - msize)) mod 4294967296 <= c) by lia. lia.
  - split.
    + intros Hfit. lia.
    + intros Hover. lia.
Qed.

(* ---- maybeTruncate, by message kind ---- *)
Lemma mt_tread msize f : wf_fcall f = true -> fc_type f = T_Tread -> 24 <= msize -> msize < M32 ->
  exists fid off c c',
    fc_fields f = [VF (FInt 4 fid); VF (FInt 8 off); VF (FInt 4 c)] /\
    maybe_truncate msize f = TOk {| fc_type := T_Tread; fc_tag := fc_tag f; fc_fields := [VF (FInt 4 fid); VF (FInt 8 off); VF (FInt 4 c')] |} /\
    c' <= c /\ 11 + c' <= msize /\ (11 + c <= msize -> c' = c) /\ (msize < 11 + c -> c' = msize - 11).
Proof.
  intros Hw Ht H24 HM. destruct (tread_shape f Hw Ht) as (fid & off & c & Hf & Hc).
  pose proof (tread_count msize c ltac:(lia) HM Hc) as [Hfit Hover]. cbv zeta in Hfit, Hover.
  exists fid, off, c. unfold maybe_truncate. rewrite Ht, Hf. change (T_Tread =? T_Tread) with true. cbv iota.
  destruct (c <? (11 + c + (M32 - msize mod M32)) mod M32) eqn:E.
  - exists c. split; [reflexivity|]. split; [destruct f as [ty tag vs]; cbn [fc_type fc_tag fc_fields] in *; subst; reflexivity|].
    destruct (N.le_gt_cases (11 + c) msize) as [Hle|Hgt]; [lia|]. specialize (Hover Hgt). lia.
  - exists (c - (11 + c + (M32 - msize mod M32)) mod M32). split; [reflexivity|]. split; [reflexivity|].
    destruct (N.le_gt_cases (11 + c) msize) as [Hle|Hgt].
    + specialize (Hfit Hle). lia.
    + specialize (Hover Hgt). lia.
Qed.

Lemma mt_twrite msize f : wf_fcall f = true -> fc_type f = T_Twrite -> 24 <= msize ->
  exists fid off d,
    fc_fields f = [VF (FInt 4 fid); VF (FInt 8 off); VF (FData d)] /\
    maybe_truncate msize f =
      TOk (if 23 + len d <=? msize then f
           else {| fc_type := T_Twrite; fc_tag := fc_tag f; fc_fields := [VF (FInt 4 fid); VF (FInt 8 off); VF (FData (take (msize - 23) d))] |}).
Proof.
  intros Hw Ht H24. destruct (twrite_shape f Hw Ht) as (fid & off & d & Hf).
  exists fid, off, d. split; [exact Hf|].
  assert (Hsz : msgmsize f = 23 + len d).
  { rewrite msgmsize_len by exact Hw. destruct f as [ty tag vs]. cbn [fc_type fc_fields] in *. subst. rewrite len_enc_twrite. lia. }
  unfold maybe_truncate. rewrite Ht, Hf. change (T_Twrite =? T_Tread) with false. change (T_Twrite =? T_Twrite) with true. cbv iota.
  rewrite Hsz.
  destruct (N.leb_spec (23 + len d) msize) as [Hle|Hgt]; [reflexivity|].
  destruct (N.ltb_spec (len d) (23 + len d - msize)) as [Hlt|Hge]; [lia|].
  replace (len d - (23 + len d - msize)) with (msize - 23) by lia. reflexivity.
Qed.

Lemma mt_other msize f : wf_fcall f = true -> fc_type f <> T_Tread -> fc_type f <> T_Twrite ->
  maybe_truncate msize f =
    if msize <? 4 + len (enc_fcall f) then TOverflow (4 + len (enc_fcall f) - msize) else TOk f.
Proof.
  intros Hw H1 H2. unfold maybe_truncate.
  destruct (N.eqb_spec (fc_type f) T_Tread); [contradiction|].
  destruct (N.eqb_spec (fc_type f) T_Twrite); [contradiction|].
  rewrite msgmsize_len by exact Hw. reflexivity.
Qed.

(* ---- WriteFcall ---- *)
Definition one_frame (msize : N) (out : bytes) : Prop :=
  (exists body, out = le 4 (len out) ++ body) /\ len out <= msize.

Lemma one_frame_of p msize : 4 + len p <= msize -> msize < M32 -> one_frame msize (frame p).
Proof.
  intros H HM. split; [|rewrite len_frame; exact H].
  exists p. apply frame_prefix. lia.
Qed.

Theorem write_fcall_frame msize live f : wf_fcall f = true -> 24 <= msize -> msize < M32 ->
  (live = false /\ write_fcall msize live f = ([], WCtx)) \/
  (live = true /\ exists out, write_fcall msize live f = (out, WSent) /\ one_frame msize out) \/
  (live = true /\ msize < 4 + len (enc_fcall f) /\
   write_fcall msize live f = ([], WOverflow (4 + len (enc_fcall f) - msize))).
Proof.
  intros Hw H24 HM. unfold write_fcall. destruct live; cbn [negb]; [right|left; auto].
  destruct (N.eq_dec (fc_type f) T_Tread) as [Ht|Hnt].
  - left. split; [reflexivity|].
    destruct (mt_tread msize f Hw Ht H24 HM) as (fid & off & c & c' & Hf & -> & _).
    eexists. split; [reflexivity|]. apply one_frame_of; [|exact HM]. rewrite len_enc_tread. lia.
  - destruct (N.eq_dec (fc_type f) T_Twrite) as [Htw|Hntw].
    + left. split; [reflexivity|].
      destruct (mt_twrite msize f Hw Htw H24) as (fid & off & d & Hf & ->).
      eexists. split; [reflexivity|]. apply one_frame_of; [|exact HM].
      destruct (N.leb_spec (23 + len d) msize) as [Hle|Hgt].
      * destruct f as [ty tag vs]. cbn [fc_type fc_fields] in *. subst. rewrite len_enc_twrite. lia.
      * rewrite len_enc_twrite. pose proof (len_take_le (msize - 23) d). lia.
    + rewrite (mt_other msize f Hw Hnt Hntw).
      destruct (N.ltb_spec msize (4 + len (enc_fcall f))) as [Hlt|Hge].
      * right. repeat split; auto.
      * left. split; [reflexivity|]. eexists. split; [reflexivity|]. apply one_frame_of; [lia|exact HM].
Qed.

Theorem write_twrite msize f : wf_fcall f = true -> fc_type f = T_Twrite -> 24 <= msize -> msize < M32 ->
  msize < 4 + len (enc_fcall f) ->
  exists fid off d,
    fc_fields f = [VF (FInt 4 fid); VF (FInt 8 off); VF (FData d)] /\
    let f' := {| fc_type := T_Twrite; fc_tag := fc_tag f; fc_fields := [VF (FInt 4 fid); VF (FInt 8 off); VF (FData (take (msize - 23) d))] |} in
    write_fcall msize true f = (frame (enc_fcall f'), WSent) /\ len (frame (enc_fcall f')) = msize.
Proof.
  intros Hw Ht H24 HM Hbig.
  destruct (mt_twrite msize f Hw Ht H24) as (fid & off & d & Hf & Hmt).
  exists fid, off, d. split; [exact Hf|]. cbv zeta.
  assert (Hl : len (enc_fcall f) = 19 + len d).
  { destruct f as [ty tag vs]. cbn [fc_type fc_fields] in *. subst. apply len_enc_twrite. }
  unfold write_fcall. cbn [negb]. rewrite Hmt.
  destruct (N.leb_spec (23 + len d) msize) as [Hle|Hgt]; [lia|].
  split; [reflexivity|]. rewrite len_frame, len_enc_twrite, len_take by lia. lia.
Qed.

Theorem write_tread msize f : wf_fcall f = true -> fc_type f = T_Tread -> 24 <= msize -> msize < M32 ->
  exists fid off c c',
    fc_fields f = [VF (FInt 4 fid); VF (FInt 8 off); VF (FInt 4 c)] /\
    write_fcall msize true f =
      (frame (enc_fcall {| fc_type := T_Tread; fc_tag := fc_tag f; fc_fields := [VF (FInt 4 fid); VF (FInt 8 off); VF (FInt 4 c')] |}), WSent) /\
    c' <= c /\ 11 + c' <= msize /\ (11 + c <= msize -> c' = c) /\ (msize < 11 + c -> c' = msize - 11).
Proof.
  intros Hw Ht H24 HM. destruct (mt_tread msize f Hw Ht H24 HM) as (fid & off & c & c' & Hf & Hmt & H).
  exists fid, off, c, c'. split; [exact Hf|]. split; [|exact H].
  unfold write_fcall. cbn [negb]. rewrite Hmt. reflexivity.
Qed.

Theorem write_other msize f : wf_fcall f = true -> fc_type f <> T_Tread -> fc_type f <> T_Twrite ->
  write_fcall msize true f = (frame (enc_fcall f), WSent) \/
  exists k, write_fcall msize true f = ([], WOverflow k).
Proof.
  intros Hw H1 H2. unfold write_fcall. cbn [negb]. rewrite (mt_other msize f Hw H1 H2).
  destruct (msize <? 4 + len (enc_fcall f)); [right; eexists; reflexivity|left; reflexivity].
Qed.
