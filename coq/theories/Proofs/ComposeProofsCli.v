(* Composition proof, client half: the owner loop of Model/Tags.v against a peer of which only
   [S t] - the number of frames with tag t between the client's writer and the client's reader -
   is known.  At most one frame per tag exists anywhere, a tag with a frame is outstanding, a tag
   is issued only when every earlier request frame with it has been answered ("closed"), and the
   request that is open for a tag belongs to the call the tag table names. *)
From stdpp Require Import nmap fin_maps.
From Coq Require Import List Arith PeanoNat NArith Bool Lia.
From P9 Require Import Model.WireTypes Model.Pipeline Proofs.PipelineProofs Gen.GenReplyTypes Model.Tags
  Proofs.TagsProofsAlloc Proofs.TagsProofs Proofs.ComposeProofsHist Proofs.ComposeProofsSrv.
Import ListNotations.
Open Scope N_scope.

Definition cj (cl : hstate) (t : N) : nat := cnt_tags (map w_tag (jobs cl)) t.

Record CliI (cl : hstate) (S : N -> nat) (h : list gev) : Prop := {
  c_cnt : forall t, (cj cl t + S t <= 1)%nat;
  c_out : forall t, (1 <= cj cl t + S t)%nat -> is_Some (h_out cl !! t);
  c_jobs : forall w, In w (jobs cl) -> h_out cl !! w_tag w = Some (w_call w);
  c_free : forall t, h_out cl !! t = None -> closed h t;
  c_jclosed : forall t, (1 <= cj cl t)%nat -> closed h t;
  c_open : forall t i c q, open_at h t i c q -> exists c', h_out cl !! t = Some c' /\ c = N.to_nat c'
}.

Lemma CliI_init : CliI h_init (fun _ => 0%nat) [].
Proof.
  constructor; cbn.
  - intros t. lia.
  - intros t H. lia.
  - intros w [].
  - intros t _. apply closed_nil.
  - intros t _. apply closed_nil.
  - intros t i c q [H _]. destruct i; discriminate H.
Qed.

(* fewer frames at the peer *)
Lemma CliI_less cl S S' h : CliI cl S h -> (forall t, (S' t <= S t)%nat) -> CliI cl S' h.
Proof.
  intros [A B C D E F] Hle. constructor; try assumption.
  - intros t. specialize (A t). specialize (Hle t). lia.
  - intros t Ht. apply B. specialize (Hle t). lia.
Qed.

Lemma cj_in cl w : In w (jobs cl) -> (1 <= cj cl (w_tag w))%nat.
Proof. intros H. apply cnt_tags_in. apply in_map. exact H. Qed.

Lemma CliI_same cl cl' S h : CliI cl S h -> jobs cl' = jobs cl -> h_out cl' = h_out cl -> CliI cl' S h.
Proof. intros [A B C D E F] Hj Ho. constructor; unfold cj in *; rewrite ?Hj, ?Ho; assumption. Qed.

(* the writer's frame is gone (failed write), tag table untouched *)
Lemma CliI_drop_job cl cl' w S h : CliI cl S h -> jobs cl = w :: jobs cl' -> h_out cl' = h_out cl -> CliI cl' S h.
Proof.
  intros [A B C D E F] Hj Ho.
  assert (Hc : forall t, cj cl t = (tagb t (w_tag w) + cj cl' t)%nat) by (intros t; unfold cj; rewrite Hj; reflexivity).
  constructor; rewrite ?Ho.
  - intros t. specialize (A t). rewrite Hc in A. lia.
  - intros t Ht. apply B. rewrite Hc. lia.
  - intros w' Hw'. apply C. rewrite Hj. now right.
  - exact D.
  - intros t Ht. apply E. rewrite Hc. lia.
  - exact F.
Qed.

(* ... and its tag released *)
Lemma CliI_del_job cl cl' w S h : CliI cl S h -> jobs cl = w :: jobs cl' ->
  h_out cl' = delete (w_tag w) (h_out cl) -> CliI cl' S h.
Proof.
  intros [A B C D E F] Hj Ho.
  assert (Hc : forall t, cj cl t = (tagb t (w_tag w) + cj cl' t)%nat) by (intros t; unfold cj; rewrite Hj; reflexivity).
  assert (Hw1 : (1 <= cj cl (w_tag w))%nat) by (rewrite Hc, tagb_same; lia).
  assert (Hne : forall t, (1 <= cj cl' t + S t)%nat -> t <> w_tag w).
  { intros t Ht ->. specialize (A (w_tag w)). rewrite Hc, tagb_same in A. lia. }
  constructor; rewrite ?Ho.
  - intros t. specialize (A t). rewrite Hc in A. lia.
  - intros t Ht. rewrite lookup_delete_ne by (specialize (Hne t Ht); congruence). apply B. rewrite Hc. lia.
  - intros w' Hw'. assert (w_tag w' <> w_tag w) by (apply Hne; pose proof (cj_in cl' w' Hw'); lia).
    rewrite lookup_delete_ne by congruence. apply C. rewrite Hj. now right.
  - intros t Ht. destruct (N.eq_dec t (w_tag w)) as [->|Hn]; [apply E; exact Hw1|].
    rewrite lookup_delete_ne in Ht by congruence. apply D, Ht.
  - intros t Ht. apply E. rewrite Hc. lia.
  - intros t i c q Ho'. destruct (N.eq_dec t (w_tag w)) as [->|Hn].
    + exfalso. exact (open_closed _ _ _ _ _ Ho' (E _ Hw1)).
    + rewrite lookup_delete_ne by congruence. eapply F; eauto.
Qed.

(* a request is taken: a free tag is entered and its frame queued *)
Lemma CliI_add_job cl cl' w S h : CliI cl S h -> jobs cl' = jobs cl ++ [w] ->
  h_out cl' = <[w_tag w := w_call w]> (h_out cl) -> h_out cl !! w_tag w = None -> CliI cl' S h.
Proof.
  intros [A B C D E F] Hj Ho Hfree.
  assert (Hc : forall t, cj cl' t = (cj cl t + tagb t (w_tag w))%nat).
  { intros t. unfold cj. rewrite Hj, map_app, cnt_tags_app. cbn. lia. }
  assert (H0 : (cj cl (w_tag w) + S (w_tag w) = 0)%nat).
  { destruct (cj cl (w_tag w) + S (w_tag w))%nat eqn:E0; [reflexivity|].
    assert (Hs : is_Some (h_out cl !! w_tag w)) by (apply B; lia). rewrite Hfree in Hs. destruct Hs; discriminate. }
  constructor; rewrite ?Ho.
  - intros t. rewrite Hc. destruct (N.eq_dec t (w_tag w)) as [->|Hn].
    + rewrite tagb_same. lia.
    + rewrite tagb_ne by congruence. specialize (A t). lia.
  - intros t Ht. destruct (N.eq_dec t (w_tag w)) as [->|Hn]; [rewrite lookup_insert; eauto|].
    rewrite lookup_insert_ne by congruence. apply B. rewrite Hc, tagb_ne in Ht by congruence. lia.
  - intros w' Hw'. rewrite Hj in Hw'. apply in_app_or in Hw' as [Hw'|[<-|[]]]; [|apply lookup_insert].
    assert (w_tag w' <> w_tag w) by (intros Heq; pose proof (cj_in cl w' Hw') as H1; rewrite Heq in H1; lia).
    rewrite lookup_insert_ne by congruence. apply C, Hw'.
  - intros t Ht. destruct (N.eq_dec t (w_tag w)) as [->|Hn]; [rewrite lookup_insert in Ht; discriminate|].
    rewrite lookup_insert_ne in Ht by congruence. apply D, Ht.
  - intros t Ht. destruct (N.eq_dec t (w_tag w)) as [->|Hn]; [apply D, Hfree|].
    apply E. rewrite Hc, tagb_ne in Ht by congruence. lia.
  - intros t i c q Ho'. destruct (N.eq_dec t (w_tag w)) as [->|Hn].
    + exfalso. exact (open_closed _ _ _ _ _ Ho' (D _ Hfree)).
    + rewrite lookup_insert_ne by congruence. eapply F; eauto.
Qed.

(* every client event except a reply and a completed write *)
Lemma cli_step_quiet cl S h e : CliI cl S h -> (forall t r, e <> EResp t r) -> e <> EWrote ->
  CliI (fst (hstep cl e)) S h.
Proof.
  intros I Hne1 Hne2. step_cases cl e.
  - exact I.
  - exact I.
  - (* request taken *)
    match goal with Ha : allocate _ _ = inl _ |- _ => apply allocate_sound in Ha as (Hfree & _ & _) end.
    eapply (CliI_add_job cl _ {| w_call := c; w_tag := t; w_mt := mt |}); [exact I| | |exact Hfree].
    + unfold jobs. simp_st. rewrite app_assoc. reflexivity.
    + reflexivity.
  - (* hand-over *)
    eapply CliI_same; [exact I| |reflexivity].
    unfold jobs. simp_st. match goal with Hp : h_pend _ = _, Hw : h_writer _ = _ |- _ => rewrite Hp, Hw end. reflexivity.
  - contradiction.
  - (* write failed, tag released *)
    eapply (CliI_del_job cl _ w); [exact I| |reflexivity].
    unfold jobs. simp_st. match goal with Hw : h_writer _ = _ |- _ => rewrite Hw end. reflexivity.
  - eapply (CliI_drop_job cl _ w); [exact I| |reflexivity].
    unfold jobs. simp_st. match goal with Hw : h_writer _ = _ |- _ => rewrite Hw end. reflexivity.
  - eapply (CliI_drop_job cl _ w); [exact I| |reflexivity].
    unfold jobs. simp_st. match goal with Hw : h_writer _ = _ |- _ => rewrite Hw end. reflexivity.
  - exfalso. eapply Hne1; reflexivity.
  - (* flags only *)
    eapply CliI_same; [exact I| |assumption].
    unfold jobs. match goal with Hp : h_pend _ = h_pend _, Hw : h_writer _ = h_writer _ |- _ => rewrite Hp, Hw end. reflexivity.
Qed.

(* the writer's WriteFcall succeeded: the frame is on the wire (or lost there) *)
Lemma cli_wrote cl cl' w S S' h q : CliI cl S h -> jobs cl = w :: jobs cl' -> h_out cl' = h_out cl ->
  (forall t, (S' t <= S t + tagb t (w_tag w))%nat) ->
  CliI cl' S' (h ++ [GReq (N.to_nat (w_call w)) (w_tag w) q]).
Proof.
  intros [A B C D E F] Hj Ho HS.
  assert (Hc : forall t, cj cl t = (tagb t (w_tag w) + cj cl' t)%nat) by (intros t; unfold cj; rewrite Hj; reflexivity).
  assert (Hw : h_out cl !! w_tag w = Some (w_call w)) by (apply C; rewrite Hj; now left).
  assert (Hnew : forall t, t <> w_tag w -> forall c0 q0, ~ In (GReq c0 t q0) [GReq (N.to_nat (w_call w)) (w_tag w) q]).
  { intros t Hn c0 q0 [Hin|[]]. congruence. }
  constructor; rewrite ?Ho.
  - intros t. specialize (A t). specialize (HS t). rewrite Hc in A. lia.
  - intros t Ht. apply B. specialize (HS t). rewrite Hc. lia.
  - intros w' Hw'. apply C. rewrite Hj. now right.
  - intros t Ht. assert (t <> w_tag w) by congruence. apply closed_app; [apply D, Ht|apply Hnew; assumption].
  - intros t Ht. assert (t <> w_tag w).
    { intros ->. specialize (A (w_tag w)). rewrite Hc, tagb_same in A. lia. }
    apply closed_app; [apply E; rewrite Hc; lia|apply Hnew; assumption].
  - intros t i c q0 Ho'. apply open_snoc_req in Ho' as [(-> & _ & -> & _)|[Hn Ho']]; [eauto|eauto].
Qed.

(* the reader hands a frame with tag t to the loop *)
Lemma cli_resp cl cl' S S' h t rm dels : CliI cl S h ->
  (forall t0, S t0 = (S' t0 + tagb t0 t)%nat) -> jobs cl' = jobs cl ->
  (forall t0, t0 <> t -> h_out cl' !! t0 = h_out cl !! t0) ->
  (forall g, In g dels -> exists c r, g = GDel c r) ->
  CliI cl' S' (h ++ GRep t rm :: dels).
Proof.
  intros [A B C D E F] HS Hj Ho Hd.
  assert (Hc : forall t0, cj cl' t0 = cj cl t0) by (intros t0; unfold cj; rewrite Hj; reflexivity).
  assert (Hnoreq : forall t0 c q, ~ In (GReq c t0 q) dels).
  { intros t0 c q Hin. destruct (Hd _ Hin) as (? & ? & ?). discriminate. }
  assert (Hnoreq' : forall t0 c q, ~ In (GReq c t0 q) (GRep t rm :: dels)).
  { intros t0 c q [Hin|Hin]; [discriminate|exact (Hnoreq _ _ _ Hin)]. }
  assert (Hne : forall t0, (1 <= cj cl t0 + S' t0)%nat -> t0 <> t).
  { intros t0 Ht ->. specialize (A t). rewrite HS, tagb_same in A. lia. }
  constructor.
  - intros t0. rewrite Hc. specialize (A t0). rewrite HS in A. lia.
  - intros t0 Ht. rewrite Hc in Ht. rewrite Ho by (apply Hne; exact Ht). apply B. rewrite HS. lia.
  - intros w Hw. rewrite Hj in Hw. rewrite Ho; [apply C, Hw|]. apply Hne. pose proof (cj_in cl w Hw). lia.
  - intros t0 Ht. destruct (N.eq_dec t0 t) as [->|Hn]; [apply closed_rep; apply Hnoreq|].
    rewrite Ho in Ht by exact Hn. apply closed_app; [apply D, Ht|apply Hnoreq'].
  - intros t0 Ht. rewrite Hc in Ht. assert (t0 <> t) by (apply Hne; lia).
    apply closed_app; [apply E, Ht|apply Hnoreq'].
  - intros t0 i c q Ho'. destruct (N.eq_dec t0 t) as [->|Hn].
    + exfalso. exact (no_open_after_rep _ _ _ _ _ _ _ (Hnoreq t) Ho').
    + apply open_app_inv in Ho' as [Ho' _]; [|apply Hnoreq']. rewrite Ho by exact Hn. eapply F; eauto.
Qed.
