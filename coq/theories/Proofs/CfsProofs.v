(* Lemmas about Model/Cfs.v.  Property statements are in Properties/C20.v. *)
From Coq Require Import List NArith ZArith Bool Lia ZifyBool ZifyNat ZifyN.
From P9 Require Import Base.Res Model.Path Model.Cfs.
Import ListNotations.
Open Scope N_scope.

Lemma clunk_forward msize next e ans : fst (fst (do_op msize next (OClunk e) ans)) = Some (SClunk (c_fid e)).
Proof. reflexivity. Qed.
