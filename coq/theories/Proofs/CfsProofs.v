(* Lemmas about Model/Cfs.v.  Property statements are in Properties/C20.v. *)
From Coq Require Import List NArith ZArith Bool Lia ZifyBool ZifyNat ZifyN.
From P9 Require Import Base.Res Model.Path Model.Cfs.
Import ListNotations.
Open Scope N_scope.

(* ---- vocabulary of the statements ---- *)

(* the session call an operation has to issue, written from the property text: the
   corresponding call, on the entry's own fid; a fresh fid (the allocator's next) for
   the root of Attach and the target of Walk; the normalised names for Walk; nothing
   when the layer refuses locally (invalid walk path, Create's name / non-directory test,
   an AuthFile that is not the layer's own) *)
Definition expected_call (next : N) (o : op) : option scall :=
  match o with
  | OAttach u a AfOther => None
  | OAttach u a AfNil => Some (SAttach (new_fid next) NOFID u a)
  | OAttach u a (AfFile afid) => Some (SAttach (new_fid next) afid u a)
  | OWalk e names =>
      if Z.ltb (snd (normalize_path names)) 0 then None
      else Some (SWalk (c_fid e) (new_fid next) (fst (normalize_path names)))
  | OOpen e mode => Some (SOpen (c_fid e) mode)
  | OOpenDir e => Some (SOpen (c_fid e) OREAD)
  | OCreate e name perm mode =>
      if create_name_refused name || negb (is_dir e) then None
      else Some (SCreate (c_fid e) name perm mode)
  | OStat e => Some (SStat (c_fid e))
  | OWStat e d => Some (SWStat (c_fid e) d)
  | OClunk e => Some (SClunk (c_fid e))
  | ORemove e => Some (SRemove (c_fid e))
  | OAuth u a => Some (SAuth (new_fid next) u a)
  | OARead afid count off => Some (SRead afid count off)
  | OAWrite afid data off => Some (SWrite afid data off)
  | OAClose afid => if afid =? NOFID then None else Some (SClunk afid)
  end.

(* the entry an operation works on, and the fid a call works on *)
Definition op_ent (o : op) : option cEnt :=
  match o with
  | OAttach _ _ _ => None
  | OWalk e _ | OOpen e _ | OOpenDir e | OCreate e _ _ _ | OStat e | OWStat e _ | OClunk e | ORemove e => Some e
  | _ => None
  end.
(* the auth file an operation works on (by its afid) *)
Definition op_afid (o : op) : option N :=
  match o with
  | OARead a _ _ | OAWrite a _ _ | OAClose a => Some a
  | _ => None
  end.
Definition call_fid (c : scall) : N :=
  match c with
  | SAttach f _ _ _ | SWalk f _ _ | SOpen f _ | SCreate f _ _ _ | SStat f | SWStat f _ | SClunk f | SRemove f
  | SAuth f _ _ | SRead f _ _ | SWrite f _ _ => f
  end.

(* the entry a result hands to the caller *)
Definition res_entry (r : cres) : option cEnt :=
  match r with CEnt e | CWalk _ e | CCreated e _ => Some e | _ => None end.

(* does the operation take a fid from the allocator *)
Definition allocates (o : op) : bool :=
  match o with
  | OAttach _ _ _ => true
  | OWalk _ names => negb (Z.ltb (snd (normalize_path names)) 0)
  | OAuth _ _ => true
  | _ => false
  end.
Definition n_allocs (ops : list (op * sres)) : nat := length (filter (fun oa => allocates (fst oa)) ops).

Definition call_of (x : option scall * cres * N) : option scall := fst (fst x).
Definition res_of (x : option scall * cres * N) : cres := snd (fst x).
Definition next_of (x : option scall * cres * N) : N := snd x.

(* ---- forwarding ---- *)
Lemma forward msize next o ans : call_of (do_op msize next o ans) = expected_call next o.
Proof.
  destruct o as [u a af|e names|e m|e|e name perm mode|e|e d|e|e|au an|afid cnt off|afid dat off|afid]; unfold call_of; cbn [do_op expected_call].
  - destruct af; reflexivity.
  - destruct (normalize_path names) as [steps bsp]. cbn [fst snd]. destruct (Z.ltb bsp 0); reflexivity.
  - reflexivity.
  - reflexivity.
  - destruct (create_name_refused name); [reflexivity|]. cbn [orb]. destruct (negb (is_dir e)); reflexivity.
  - reflexivity.
  - reflexivity.
  - reflexivity.
  - reflexivity.
  - reflexivity.
  - reflexivity.
  - reflexivity.
  - destruct (afid =? NOFID); reflexivity.
Qed.

Lemma forward_auth_fid msize next o ans a c :
  op_afid o = Some a -> call_of (do_op msize next o ans) = Some c -> call_fid c = a.
Proof.
  rewrite forward. intros Ha Hc.
  destruct o; cbn [op_afid] in Ha; try discriminate; inversion Ha; subst; cbn [expected_call] in Hc.
  - inversion Hc; reflexivity.
  - inversion Hc; reflexivity.
  - destruct (a =? NOFID); inversion Hc; reflexivity.
Qed.

Lemma forward_own_fid msize next o ans e c :
  op_ent o = Some e -> call_of (do_op msize next o ans) = Some c -> call_fid c = c_fid e.
Proof.
  rewrite forward. intros He Hc.
  destruct o as [u a af|e' names|e' m|e'|e' name perm mode|e'|e' d|e'|e'|au an|afid cnt off|afid dat off|afid]; cbn [op_ent] in He;
    try discriminate; inversion He; subst; cbn [expected_call] in Hc.
  - destruct (Z.ltb (snd (normalize_path names)) 0); inversion Hc; reflexivity.
  - inversion Hc; reflexivity.
  - inversion Hc; reflexivity.
  - destruct (create_name_refused name || negb (is_dir e)); inversion Hc; reflexivity.
  - inversion Hc; reflexivity.
  - inversion Hc; reflexivity.
  - inversion Hc; reflexivity.
  - inversion Hc; reflexivity.
Qed.

(* ---- walk ---- *)
Lemma walk_ok msize next e names steps bsp qids :
  normalize_path names = (steps, bsp) -> (0 <= bsp)%Z -> length qids = length steps ->
  do_op msize next (OWalk e names) (AWalk qids)
  = (Some (SWalk (c_fid e) (new_fid next) steps),
     CWalk qids {| c_fid := new_fid next; c_qid := last qids (c_qid e) |},
     new_fid next).
Proof.
  intros Hn Hb Hl. cbn [do_op]. rewrite Hn.
  destruct (Z.ltb_spec bsp 0); [lia|]. rewrite Hl, Nat.eqb_refl. reflexivity.
Qed.

(* a failed or partial walk: no entry for the caller, nothing bound on the server, nothing
   added to what the caller holds; the fid that was set aside is simply never used *)
Lemma walk_fail msize st e names steps bsp ans :
  normalize_path names = (steps, bsp) -> (0 <= bsp)%Z ->
  (ans = AErr \/ exists qids, ans = AWalk qids /\ length qids <> length steps) ->
  let '(st', c, r) := step msize st (OWalk e names) ans in
  c = Some (SWalk (c_fid e) (new_fid (s_next st)) steps)
  /\ res_entry r = None
  /\ (r = CErr \/ exists qids, ans = AWalk qids /\ r = CPartial qids)
  /\ s_srv st' = s_srv st
  /\ s_live st' = s_live st.
Proof.
  intros Hn Hb Ha. unfold step. cbn [do_op]. rewrite Hn.
  destruct (Z.ltb_spec bsp 0); [lia|].
  destruct Ha as [->|(qids & -> & Hne)].
  - cbn. repeat split; auto.
  - apply Nat.eqb_neq in Hne. cbn [srv_step live_step s_srv s_live]. rewrite Hne.
    repeat split; eauto.
Qed.

(* ---- auth ---- *)
Lemma auth_spec msize st u a ans :
  let '(st', c, r) := step msize st (OAuth u a) ans in
  c = Some (SAuth (new_fid (s_next st)) u a)
  /\ match ans with
     | AQid _ => r = CAuth (new_fid (s_next st)) (msize - 11)%Z
                 /\ s_srv st' = new_fid (s_next st) :: s_srv st
                 /\ map c_fid (s_live st') = new_fid (s_next st) :: map c_fid (s_live st)
     | _ => r = CErr /\ s_srv st' = s_srv st /\ s_live st' = s_live st
     end.
Proof. unfold step. cbn [do_op]. destruct ans; cbn; repeat split; reflexivity. Qed.

(* ---- the server's table is exactly the fids of the entries the caller holds ---- *)
Lemma map_fid_replace live f e' : c_fid e' = f ->
  map c_fid (map (fun x => if c_fid x =? f then e' else x) live) = map c_fid live.
Proof.
  intros He. induction live as [|x l IH]; simpl; auto. rewrite IH. f_equal.
  destruct (N.eqb_spec (c_fid x) f); congruence.
Qed.

Lemma map_fid_filter live f :
  map c_fid (filter (fun x => negb (c_fid x =? f)) live) = unbind f (map c_fid live).
Proof.
  unfold unbind. induction live as [|x l IH]; simpl; auto.
  destruct (c_fid x =? f); simpl; rewrite IH; reflexivity.
Qed.

Definition table_inv (st : sys) : Prop := s_srv st = map c_fid (s_live st).

Lemma step_table msize st o ans : table_inv st -> table_inv (fst (fst (step msize st o ans))).
Proof.
  unfold table_inv, step. intros H.
  destruct o as [u a af|e names|e m|e|e name perm mode|e|e d|e|e|au an|afid cnt off|afid dat off|afid]; cbn [do_op].
  - destruct af; cbn [fst s_srv s_live srv_step live_step]; auto; destruct ans; simpl; congruence.
  - destruct (normalize_path names) as [steps bsp]. destruct (Z.ltb bsp 0); cbn [fst s_srv s_live srv_step live_step]; auto.
    destruct ans; auto. destruct (Nat.eqb (length qids) (length steps)); simpl; congruence.
  - cbn [fst s_srv s_live srv_step live_step]. destruct ans; auto.
  - cbn [fst s_srv s_live srv_step live_step]. destruct ans; auto;
    try (destruct (Z.ltb (io_unit msize iounit) 0); auto).
  - destruct (create_name_refused name); [cbn; auto|]. destruct (negb (is_dir e)); [cbn; auto|].
    cbn [fst s_srv s_live srv_step live_step]. destruct ans; auto.
    rewrite map_fid_replace; auto.
  - cbn [fst s_srv s_live srv_step live_step]. destruct ans; auto.
  - cbn [fst s_srv s_live srv_step live_step]. destruct ans; auto.
  - cbn [fst s_srv s_live srv_step live_step]. rewrite H. destruct ans; rewrite map_fid_filter; reflexivity.
  - cbn [fst s_srv s_live srv_step live_step]. rewrite H. destruct ans; rewrite map_fid_filter; reflexivity.
  - cbn [fst s_srv s_live srv_step live_step]. destruct ans; simpl; congruence.
  - cbn [fst s_srv s_live srv_step live_step]. destruct ans; auto.
  - cbn [fst s_srv s_live srv_step live_step]. destruct ans; auto.
  - destruct (afid =? NOFID) eqn:En; cbn [fst s_srv s_live srv_step live_step]; rewrite ?En; auto.
    rewrite H. destruct ans; rewrite map_fid_filter; reflexivity.
Qed.

Lemma run_table msize ops : forall st, table_inv st -> table_inv (run msize st ops).
Proof.
  induction ops as [|[o a] r IH]; intros st H; cbn [run]; auto. apply IH. apply step_table; auto.
Qed.

Lemma table msize ops : s_srv (run msize sys0 ops) = map c_fid (s_live (run msize sys0 ops)).
Proof. apply (run_table msize ops sys0). reflexivity. Qed.

Lemma no_leak msize ops : s_live (run msize sys0 ops) = [] -> s_srv (run msize sys0 ops) = [].
Proof. intros H. rewrite table, H. reflexivity. Qed.

(* ---- distinct fids, below the wrap of the uint32 allocator ---- *)
Definition fid_inv (st : sys) : Prop :=
  Forall (fun e => 1 <= c_fid e <= s_next st) (s_live st) /\ NoDup (map c_fid (s_live st)).

Lemma new_fid_small next : next + 1 < 2 ^ 32 -> new_fid next = next + 1.
Proof. intros H. unfold new_fid. apply N.mod_small. exact H. Qed.

Lemma next_step msize next o ans : next + 1 < 2 ^ 32 ->
  next_of (do_op msize next o ans) = if allocates o then next + 1 else next.
Proof.
  intros Hs. unfold next_of.
  destruct o as [u a af|e names|e m|e|e name perm mode|e|e d|e|e|au an|afid cnt off|afid dat off|afid]; cbn [do_op allocates]; try reflexivity.
  - destruct af; cbn [snd]; apply new_fid_small; auto.
  - destruct (normalize_path names) as [steps bsp]. cbn [snd]. destruct (Z.ltb bsp 0); cbn [snd negb]; auto.
    apply new_fid_small; auto.
  - destruct (create_name_refused name); [reflexivity|]. destruct (negb (is_dir e)); reflexivity.
  - cbn [snd]. apply new_fid_small; auto.
  - destruct (afid =? NOFID); reflexivity.
Qed.

Lemma Forall_weaken_next (live : list cEnt) a b : a <= b ->
  Forall (fun e => 1 <= c_fid e <= a) live -> Forall (fun e => 1 <= c_fid e <= b) live.
Proof. intros Hab H. eapply Forall_impl; [|exact H]. intros e He. cbv beta in *. lia. Qed.

Lemma NoDup_map_filter {A B} (f : A -> B) (p : A -> bool) l : NoDup (map f l) -> NoDup (map f (filter p l)).
Proof.
  induction l as [|x l IH]; simpl; intros H; auto. inversion H as [|? ? Hx Hl]; subst.
  destruct (p x); simpl; auto. constructor; auto.
  intros Hin. apply Hx. apply in_map_iff in Hin. destruct Hin as (y & Hy & Hf).
  apply in_map_iff. exists y. split; auto. apply filter_In in Hf. tauto.
Qed.

Lemma fresh_not_in (live : list cEnt) next :
  Forall (fun e => 1 <= c_fid e <= next) live -> ~ In (next + 1) (map c_fid live).
Proof.
  intros H Hin. apply in_map_iff in Hin. destruct Hin as (e & He & Hin).
  rewrite Forall_forall in H. specialize (H e Hin). lia.
Qed.

Lemma step_fid msize st o ans : s_next st + 1 < 2 ^ 32 -> fid_inv st ->
  fid_inv (fst (fst (step msize st o ans)))
  /\ s_next (fst (fst (step msize st o ans))) = if allocates o then s_next st + 1 else s_next st.
Proof.
  intros Hs [Hr Hd]. unfold step.
  pose proof (next_step msize (s_next st) o ans Hs) as Hn. unfold next_of in Hn.
  destruct (do_op msize (s_next st) o ans) as [[c r] next'] eqn:Hop. cbn [fst snd s_next s_live] in *.
  split; [|exact Hn]. unfold fid_inv. cbn [s_next s_live].
  assert (Hle : s_next st <= next') by (rewrite Hn; destruct (allocates o); lia).
  pose proof (Forall_weaken_next _ _ _ Hle Hr) as Hr'.
  destruct o as [u a af|e names|e m|e|e name perm mode|e|e d|e|e|au an|afid cnt off|afid dat off|afid]; cbn [do_op] in Hop.
  - (* attach *)
    cbn [allocates] in *.
    destruct af; inversion Hop; subst; cbn [live_step]; rewrite ?(new_fid_small _ Hs) in *;
      try (split; assumption);
      (destruct ans; try (split; assumption);
       split; [constructor; [cbn; lia|assumption]
              |cbn [map c_fid]; constructor; auto; apply fresh_not_in; auto]).
  - (* walk *)
    cbn [allocates] in *. destruct (normalize_path names) as [steps bsp]. cbn [snd] in *.
    destruct (Z.ltb bsp 0); inversion Hop; subst; cbn [live_step negb] in *;
      rewrite ?(new_fid_small _ Hs) in *; try (split; assumption).
    destruct ans; try (split; assumption).
    destruct (Nat.eqb (length qids) (length steps)); try (split; assumption).
    split; [constructor; [cbn; lia|assumption]|].
    cbn [map c_fid]. constructor; auto. apply fresh_not_in; auto.
  - inversion Hop; subst. destruct ans; cbn [live_step]; split; assumption.
  - inversion Hop; subst. destruct ans; cbn [live_step]; try (split; assumption);
    try (destruct (Z.ltb (io_unit msize iounit) 0); split; assumption).
  - (* create *)
    destruct (create_name_refused name); [inversion Hop; subst; split; assumption|].
    destruct (negb (is_dir e)); [inversion Hop; subst; split; assumption|].
    inversion Hop; subst. destruct ans; cbn [live_step]; try (split; assumption).
    split.
    + apply Forall_forall. intros x Hx. apply in_map_iff in Hx. destruct Hx as (y & Hy & Hin).
      rewrite Forall_forall in Hr'. specialize (Hr' y Hin).
      destruct (N.eqb_spec (c_fid y) (c_fid e)); subst; cbn [c_fid]; lia.
    + rewrite map_fid_replace; auto.
  - inversion Hop; subst. destruct ans; cbn [live_step]; split; assumption.
  - inversion Hop; subst. destruct ans; cbn [live_step]; split; assumption.
  - inversion Hop; subst. cbn [live_step]. split.
    + apply Forall_forall. intros x Hx. apply filter_In in Hx. rewrite Forall_forall in Hr'. apply Hr'. tauto.
    + apply NoDup_map_filter; auto.
  - inversion Hop; subst. cbn [live_step]. split.
    + apply Forall_forall. intros x Hx. apply filter_In in Hx. rewrite Forall_forall in Hr'. apply Hr'. tauto.
    + apply NoDup_map_filter; auto.
  - (* auth *)
    cbn [allocates] in *. inversion Hop; subst; cbn [live_step]; rewrite ?(new_fid_small _ Hs) in *.
    destruct ans; try (split; assumption).
    split; [constructor; [cbn; lia|assumption]|cbn [map c_fid]; constructor; auto; apply fresh_not_in; auto].
  - inversion Hop; subst. destruct ans; cbn [live_step]; split; assumption.
  - inversion Hop; subst. destruct ans; cbn [live_step]; split; assumption.
  - destruct (afid =? NOFID) eqn:En; inversion Hop; subst; cbn [live_step]; rewrite En; [split; assumption|].
    split.
    + apply Forall_forall. intros x Hx. apply filter_In in Hx. rewrite Forall_forall in Hr'. apply Hr'. tauto.
    + apply NoDup_map_filter; auto.
Qed.

Lemma n_allocs_cons o a r : n_allocs ((o, a) :: r) = ((if allocates o then 1 else 0) + n_allocs r)%nat.
Proof. unfold n_allocs. simpl. destruct (allocates o); reflexivity. Qed.

Lemma run_fid msize ops : forall st,
  fid_inv st -> s_next st + N.of_nat (n_allocs ops) < 2 ^ 32 - 1 ->
  fid_inv (run msize st ops) /\ s_next (run msize st ops) = s_next st + N.of_nat (n_allocs ops).
Proof.
  induction ops as [|[o a] r IH]; intros st Hi Hb.
  - cbn [run]. unfold n_allocs; simpl. split; auto. lia.
  - cbn [run]. rewrite n_allocs_cons in *.
    destruct (allocates o) eqn:Ea.
    + assert (Hs : s_next st + 1 < 2 ^ 32) by lia.
      destruct (step_fid msize st o a Hs Hi) as [Hi' Hn']. rewrite Ea in Hn'.
      destruct (IH _ Hi') as [H1 H2]; [lia|]. split; auto. lia.
    + assert (Hs : s_next st + 1 < 2 ^ 32) by lia.
      destruct (step_fid msize st o a Hs Hi) as [Hi' Hn']. rewrite Ea in Hn'.
      destruct (IH _ Hi') as [H1 H2]; [lia|]. split; auto. lia.
Qed.

Lemma distinct msize ops :
  N.of_nat (n_allocs ops) < 2 ^ 32 - 1 ->
  NoDup (map c_fid (s_live (run msize sys0 ops)))
  /\ Forall (fun e => c_fid e <> NOFID) (s_live (run msize sys0 ops)).
Proof.
  intros Hb. destruct (run_fid msize ops sys0) as [[Hr Hd] Hn].
  - split; constructor.
  - cbn [sys0 s_next]. lia.
  - split; auto. eapply Forall_impl; [|exact Hr]. intros e He. cbv beta in He.
    cbn [sys0 s_next] in Hn. unfold NOFID. lia.
Qed.
