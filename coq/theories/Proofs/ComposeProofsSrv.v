(* Composition proof, server half: what every frame in the server's pipeline
   (client->server wire [inq], reader, tag table / handler, loop, writer, server->client wire)
   knows about the request it belongs to, and that the number of frames per tag never grows
   by a server step.  [h] (history) and [sent] (messages by request id) do not change by
   server steps. *)
From Coq Require Import List Arith PeanoNat NArith Bool Lia.
From stdpp Require Import gmap.
From P9 Require Import Model.WireTypes Model.Pipeline Proofs.PipelineProofs Model.Serve
  Proofs.ServeProofs Proofs.ServeProofs2 Model.Compose Proofs.ComposeProofsHist.
Import ListNotations.
Open Scope N_scope.

(* ---- counting frames by tag ---- *)
Definition tagb (t t' : N) : nat := if t' =? t then 1%nat else 0%nat.
Fixpoint cnt_tags (l : list N) (t : N) : nat :=
  match l with [] => 0%nat | x :: r => (tagb t x + cnt_tags r t)%nat end.

Lemma cnt_tags_app a b t : cnt_tags (a ++ b) t = (cnt_tags a t + cnt_tags b t)%nat.
Proof. induction a as [|x a IH]; cbn; [reflexivity|]. rewrite IH. lia. Qed.

Lemma tagb_same t : tagb t t = 1%nat.
Proof. unfold tagb. now rewrite N.eqb_refl. Qed.
Lemma tagb_ne t t' : t' <> t -> tagb t t' = 0%nat.
Proof. intros H. unfold tagb. destruct (N.eqb_spec t' t); [contradiction|reflexivity]. Qed.
Lemma tagb_le t t' : (tagb t t' <= 1)%nat.
Proof. unfold tagb. destruct (t' =? t); lia. Qed.

Lemma cnt_tags_in l t : In t l -> (1 <= cnt_tags l t)%nat.
Proof.
  induction l as [|x l IH]; [intros []|]. intros [->|Hin]; cbn.
  - rewrite tagb_same. lia.
  - specialize (IH Hin). lia.
Qed.
Lemma cnt_tags_pos l t : (1 <= cnt_tags l t)%nat -> In t l.
Proof.
  induction l as [|x l IH]; cbn; [lia|]. intros H. unfold tagb in H.
  destruct (N.eqb_spec x t) as [->|Hne]; [now left|right; apply IH; lia].
Qed.

Definition ctm (m : gmap N N) (t : N) : nat := match m !! t with Some _ => 1%nat | None => 0%nat end.
Definition ci (sv : st) (t : N) : nat := cnt_tags (map (fun x => snd (fst x)) (inq sv)) t.
Definition cr (sv : st) (t : N) : nat := match rd sv with RHold _ t' _ => tagb t t' | _ => 0%nat end.
Definition cw (sv : st) (t : N) : nat := match wr sv with WBusy f => tagb t (f_tag f) | _ => 0%nat end.
Definition cs (s2c : list frame) (t : N) : nat := cnt_tags (map f_tag s2c) t.
(* frames with tag t anywhere between the client's writer and the client's reader *)
Definition scnt (sv : st) (s2c : list frame) (t : N) : nat :=
  (ci sv t + cr sv t + ctm (tags sv) t + cw sv t + cs s2c t)%nat.

Lemma ctm_insert m tag rid t : m !! tag = None -> ctm (<[tag := rid]> m) t = (ctm m t + tagb t tag)%nat.
Proof.
  intros Hn. unfold ctm, tagb. destruct (N.eqb_spec tag t) as [->|Hne].
  - rewrite lookup_insert, Hn. reflexivity.
  - rewrite lookup_insert_ne by congruence. destruct (m !! t); lia.
Qed.
Lemma ctm_delete m tag x t : m !! tag = Some x -> (ctm (delete tag m) t + tagb t tag)%nat = ctm m t.
Proof.
  intros Hs. unfold ctm, tagb. destruct (N.eqb_spec tag t) as [->|Hne].
  - rewrite lookup_delete, Hs. reflexivity.
  - rewrite lookup_delete_ne by congruence. destruct (m !! t); lia.
Qed.
Lemma ctm_sub m m' t : (forall rid, m' !! t = Some rid -> m !! t = Some rid) -> (ctm m' t <= ctm m t)%nat.
Proof. intros H. unfold ctm. destruct (m' !! t) as [x|]; [rewrite (H x eq_refl); lia|destruct (m !! t); lia]. Qed.

(* ---- what a frame knows ---- *)
(* request rid with tag t and message m: m is what was recorded for rid, and it is the message of the
   request that is open for t in the history *)
Definition Rq (h : list gev) (sent : list bstr) (t rid : N) (m : bstr) : Prop :=
  nth_error sent (N.to_nat rid) = Some m /\ exists i c q, open_at h t i c q /\ m = qbody q.
(* reply frame f: the answer to the request that is open for its tag *)
Definition Fr (handler : bstr -> hres) (h : list gev) (f : frame) : Prop :=
  exists i c q, open_at h (f_tag f) i c q /\ f_pl f = reply_of (handler (qbody q)).

Record SrvI (handler : bstr -> hres) (h : list gev) (sent : list bstr) (sv : st) (s2c : list frame) : Prop := {
  v_inq : forall rid t k, In (rid, t, k) (inq sv) -> exists m, k = KReq m /\ Rq h sent t rid m;
  v_rd : forall rid t k, rd sv = RHold rid t k -> exists m, k = KReq m /\ Rq h sent t rid m;
  v_tags : forall t rid, tags sv !! t = Some rid -> exists m, Rq h sent t rid m;
  v_fin : forall rid hr r, hs sv !! rid = Some hr -> h_st hr = HFin r ->
            exists m, nth_error sent (N.to_nat rid) = Some m /\ r = handler m;
  v_imm : forall f, pc sv <> SendImm f;
  v_done : forall hd f, pc sv = SendDone hd f ->
            exists m, nth_error sent (N.to_nat (f_rid f)) = Some m /\ f_pl f = reply_of (handler m);
  v_wr : forall f, wr sv = WBusy f -> Fr handler h f;
  v_s2c : forall f, In f s2c -> Fr handler h f
}.

Lemma SrvI_init handler : SrvI handler [] [] init [].
Proof.
  constructor; cbn; try discriminate; try (intros; contradiction);
    intros *; rewrite lookup_empty; discriminate.
Qed.

(* nothing new anywhere: frames only disappear, handlers do not newly finish *)
Lemma SrvI_shrink handler h sent sv s2c sv' s2c' :
  SrvI handler h sent sv s2c ->
  (forall x, In x (inq sv') -> In x (inq sv)) ->
  (forall rid t k, rd sv' = RHold rid t k -> rd sv = RHold rid t k) ->
  (forall t rid, tags sv' !! t = Some rid -> tags sv !! t = Some rid) ->
  (forall x hr r, hs sv' !! x = Some hr -> h_st hr = HFin r -> exists hr0, hs sv !! x = Some hr0 /\ h_st hr0 = HFin r) ->
  (forall f, pc sv' = SendImm f -> pc sv = SendImm f) ->
  (forall hd f, pc sv' = SendDone hd f -> pc sv = SendDone hd f) ->
  (forall f, wr sv' = WBusy f -> wr sv = WBusy f) ->
  (forall f, In f s2c' -> In f s2c) ->
  SrvI handler h sent sv' s2c'.
Proof.
  intros [A B C D E F G H] Hi Hr Ht Hh Hp1 Hp2 Hw Hs. constructor.
  - intros rid t k Hin. apply A, Hi, Hin.
  - intros rid t k Hx. apply B, Hr, Hx.
  - intros t rid Hx. apply C, Ht, Hx.
  - intros rid hr r Hx Hf. destruct (Hh _ _ _ Hx Hf) as (hr0 & H0 & H1). eapply D; eauto.
  - intros f Hx. exact (E f (Hp1 f Hx)).
  - intros hd f Hx. apply (F hd f), Hp2, Hx.
  - intros f Hx. apply G, Hw, Hx.
  - intros f Hx. apply H, Hs, Hx.
Qed.

Lemma scnt_shrink sv s2c sv' t :
  inq sv' = inq sv ->
  (forall rid t k, rd sv' = RHold rid t k -> rd sv = RHold rid t k) ->
  (forall t rid, tags sv' !! t = Some rid -> tags sv !! t = Some rid) ->
  (forall f, wr sv' = WBusy f -> wr sv = WBusy f) ->
  (scnt sv' s2c t <= scnt sv s2c t)%nat.
Proof.
  intros Hi Hr Ht Hw. unfold scnt, ci, cr, cw. rewrite Hi.
  pose proof (ctm_sub (tags sv) (tags sv') t (Ht t)) as Hc.
  assert (Hcr : (match rd sv' with RHold _ t' _ => tagb t t' | _ => 0 end <= match rd sv with RHold _ t' _ => tagb t t' | _ => 0 end)%nat).
  { destruct (rd sv') as [|rid t' k|] eqn:E; try lia. rewrite (Hr _ _ _ eq_refl). lia. }
  assert (Hcw : (match wr sv' with WBusy f => tagb t (f_tag f) | _ => 0 end <= match wr sv with WBusy f => tagb t (f_tag f) | _ => 0 end)%nat).
  { destruct (wr sv') as [|f|] eqn:E; try lia. rewrite (Hw _ eq_refl). lia. }
  lia.
Qed.

(* handlers: a step that only cancels, or sends one handler to HGone, creates no finished handler *)
Lemma hs_ins_notfin (m : gmap N hrec) rid h0 x hr r :
  (forall r', h_st h0 <> HFin r') -> <[rid := h0]> m !! x = Some hr -> h_st hr = HFin r ->
  exists hr0, m !! x = Some hr0 /\ h_st hr0 = HFin r.
Proof.
  intros Hn Hx Hf. destruct (N.eq_dec rid x) as [->|Hne].
  - rewrite lookup_insert in Hx. injection Hx as <-. exfalso. exact (Hn _ Hf).
  - rewrite lookup_insert_ne in Hx by congruence. eauto.
Qed.
Lemma hs_canc_fin rids (m m' : gmap N hrec) x hr r :
  canc_rel rids m m' -> m' !! x = Some hr -> h_st hr = HFin r -> exists hr0, m !! x = Some hr0 /\ h_st hr0 = HFin r.
Proof.
  intros Rl Hx Hf. destruct (canc_rel_bwd _ _ _ _ _ Rl Hx) as (h0 & H0 & _ & Hst & _).
  exists h0. split; [exact H0|congruence].
Qed.

Lemma sframes_cancels o : (forall x, In x o -> exists r, x = OCancel r) -> sframes o = [].
Proof.
  induction o as [|x o IH]; intros H; [reflexivity|]. unfold sframes in *. cbn.
  destruct (H x (or_introl eq_refl)) as (r & ->). cbn. apply IH. intros y Hy. apply H. now right.
Qed.
Lemma sframes_cancel_list s rids s' o : cancel_list s rids = (s', o) -> sframes o = [].
Proof.
  intros H. apply sframes_cancels. intros x Hx.
  destruct (proj1 (cancel_list_out _ _ _ _ H) x Hx) as (r & -> & _). eauto.
Qed.
Lemma sframes_app a b : sframes (a ++ b) = sframes a ++ sframes b.
Proof. unfold sframes. apply flat_map_app. Qed.

Ltac shrink_tac I :=
  split;
  [ eapply SrvI_shrink; [exact I|..]; proj_simpl; rewrite ?app_nil_r; eauto
  | intros t0; rewrite ?app_nil_r; apply scnt_shrink; proj_simpl; eauto ].

Ltac names :=
  try match goal with H : wr _ = _ |- _ => rename H into Hwr end;
  try match goal with H : rd _ = _ |- _ => rename H into Hrd end;
  try match goal with H : pc _ = _ |- _ => rename H into Hpc end;
  try match goal with H : inq _ = _ |- _ => rename H into Hinq end;
  try match goal with H : hs _ !! _ = _ |- _ => rename H into Hhs end;
  try match goal with H : h_st _ = _ |- _ => rename H into Hst end;
  try match goal with H : tags _ !! _ = None |- _ => rename H into Htn end;
  try match goal with H : tags _ !! _ = Some _ |- _ => rename H into Hts end;
  try match goal with H : cancel_list _ _ = _ |- _ => rename H into Hcl end.

(* one server step other than a frame arriving from the client and a handler returning *)
Lemma srv_step handler h sent sv s2c e sv' o :
  SInv sv -> SrvI handler h sent sv s2c -> (forall t, (scnt sv s2c t <= 1)%nat) ->
  step R sv e = Some (sv', o) ->
  (forall a b c, e <> ESend a b c) -> (forall a b, e <> EFinish a b) ->
  SrvI handler h sent sv' (s2c ++ sframes o) /\ forall t, (scnt sv' (s2c ++ sframes o) t <= scnt sv s2c t)%nat.
Proof.
  intros Is I Hc H Hne1 Hne2.
  destruct e; step_inv H; proj_simpl; cbn [sframes flat_map app]; names;
    pose proof Is as [_ Ic _]; pose proof I as [A B C D E F G Hs2c].
  - (* ESend *) exfalso. eapply Hne1; reflexivity.
  - (* EConnErr *) shrink_tac I.
  - (* EFinish *) exfalso. eapply Hne2; reflexivity.
  - (* EWriteOk *)
    split.
    + constructor; proj_simpl; try assumption.
      * discriminate.
      * intros f' Hin. apply in_app_or in Hin as [Hin|[<-|[]]]; [apply Hs2c; exact Hin|apply G; exact Hwr].
    + intros t0. unfold scnt, ci, cr, cw, cs. proj_simpl. rewrite Hwr, map_app, cnt_tags_app. cbn. lia.
  - (* EWriteFail *) shrink_tac I; discriminate.
  - (* ECtxCancel *)
    pose proof (cancel_list_rel _ _ _ _ Hcl) as Rl. pose proof (sframes_cancel_list _ _ _ _ Hcl) as Hsf.
    rewrite (cancel_list_frame _ _ _ _ Hcl) in *. proj_simpl. rewrite Hsf.
    shrink_tac I. intros x hr r. eapply hs_canc_fin; eauto.
  - (* EReaderGet *)
    split.
    + constructor; proj_simpl; try assumption.
      * intros rid0 t0 k0 Hin. apply A. rewrite Hinq. now right.
      * intros rid0 t0 k0 [= <- <- <-]. apply A. rewrite Hinq. now left.
      * rewrite app_nil_r. assumption.
    + intros t0. unfold scnt, ci, cr, cw. proj_simpl. rewrite Hrd, Hinq. cbn. rewrite app_nil_r. lia.
  - (* EReaderFail *) shrink_tac I; discriminate.
  - (* EReaderQuit *) shrink_tac I; discriminate.
  - (* EArrive duplicate: two frames with one tag *)
    exfalso. specialize (Hc tag). unfold scnt, cr, ctm in Hc. rewrite Hrd, Hts, tagb_same in Hc. lia.
  - (* EArrive dispatch, ctx done *)
    split.
    + constructor; proj_simpl; rewrite ?app_nil_r; try assumption.
      * discriminate.
      * intros t0 rid0 Hx. destruct (N.eq_dec tag t0) as [<-|Hne].
        -- rewrite lookup_insert in Hx. injection Hx as <-.
           destruct (B _ _ _ Hrd) as (m0 & [= <-] & HR). eauto.
        -- rewrite lookup_insert_ne in Hx by congruence. eauto.
      * intros rid0 hr r Hx Hf. eapply hs_ins_notfin in Hx as (hr0 & Hx0 & Hf0); [eauto| |exact Hf].
        cbn. discriminate.
    + intros t0. unfold scnt, ci, cr, cw. proj_simpl. rewrite Hrd, app_nil_r, (ctm_insert _ _ _ _ Htn). lia.
  - (* EArrive dispatch *)
    split.
    + constructor; proj_simpl; rewrite ?app_nil_r; try assumption.
      * discriminate.
      * intros t0 rid0 Hx. destruct (N.eq_dec tag t0) as [<-|Hne].
        -- rewrite lookup_insert in Hx. injection Hx as <-.
           destruct (B _ _ _ Hrd) as (m0 & [= <-] & HR). eauto.
        -- rewrite lookup_insert_ne in Hx by congruence. eauto.
      * intros rid0 hr r Hx Hf. eapply hs_ins_notfin in Hx as (hr0 & Hx0 & Hf0); [eauto| |exact Hf].
        cbn. discriminate.
    + intros t0. unfold scnt, ci, cr, cw. proj_simpl. rewrite Hrd, app_nil_r, (ctm_insert _ _ _ _ Htn). lia.
  - (* EArrive flush: the client sends none *)
    exfalso. destruct (B _ _ _ Hrd) as (m0 & Hk & _). discriminate.
  - exfalso. destruct (B _ _ _ Hrd) as (m0 & Hk & _). discriminate.
  - (* EComplete, still the holder *)
    split.
    + constructor; proj_simpl; rewrite ?app_nil_r; try assumption.
      * intros rid0 hr r0 Hx Hf. eapply hs_ins_notfin in Hx as (hr0 & Hx0 & Hf0); [eauto| |exact Hf].
        cbn. discriminate.
      * discriminate.
      * intros hd f [= <- <-]. cbn. destruct (D _ _ _ Hhs Hst) as (m0 & Hm0 & ->). eauto.
    + intros t0. rewrite app_nil_r. apply scnt_shrink; proj_simpl; auto.
  - (* EComplete, dropped *)
    shrink_tac I. intros x hr r0. apply hs_ins_notfin. cbn. discriminate.
  - shrink_tac I. intros x hr r0. apply hs_ins_notfin. cbn. discriminate.
  - (* EGiveUp *)
    shrink_tac I. intros x hr r0. apply hs_ins_notfin. cbn. discriminate.
  - (* ETake of an immediate reply: there is none *)
    exfalso. exact (E _ Hpc).
  - exfalso. exact (E _ Hpc).
  - (* ETake after a completion, ctx done: lost *)
    shrink_tac I; try discriminate; intros t1 rid1 Hx; apply lookup_delete_Some in Hx; tauto.
  - (* ETake after a completion *)
    destruct (c_done _ Ic _ _ Hpc) as (Hrid & Htag & _).
    split.
    + constructor; proj_simpl; rewrite ?app_nil_r; try assumption.
      * intros t1 rid1 Hx. apply lookup_delete_Some in Hx as [_ Hx]. eauto.
      * discriminate.
      * discriminate.
      * intros f' [= <-]. destruct (F _ _ Hpc) as (m1 & Hm1 & Hpl).
        destruct (C _ _ Htag) as (m2 & Hm2 & i & c & q & Ho & Hq).
        rewrite Hrid in Hm1. rewrite Hm1 in Hm2. injection Hm2 as <-.
        exists i, c, q. split; [exact Ho|]. rewrite Hpl, Hq. reflexivity.
    + intros t0. unfold scnt, ci, cr, cw. proj_simpl. rewrite Hwr, app_nil_r.
      pose proof (ctm_delete _ _ _ t0 Htag). lia.
  - (* EDropDone *)
    shrink_tac I; try discriminate; intros t1 rid1 Hx; apply lookup_delete_Some in Hx; tauto.
  - (* EWriterQuit *) shrink_tac I; discriminate.
  - (* EReturn *)
    pose proof (cancel_list_rel _ _ _ _ Hcl) as Rl. pose proof (sframes_cancel_list _ _ _ _ Hcl) as Hsf.
    rewrite (cancel_list_frame _ _ _ _ Hcl) in *. proj_simpl. rewrite sframes_app, Hsf. cbn [sframes flat_map app].
    shrink_tac I; try discriminate. intros x hr r. eapply hs_canc_fin; eauto.
  - (* EStop *) shrink_tac I.
Qed.

(* the handler of request rid returns [handler m], m the message recorded for rid *)
Lemma srv_finish handler h sent sv s2c rid m sv' o :
  SrvI handler h sent sv s2c -> nth_error sent (N.to_nat rid) = Some m ->
  step R sv (EFinish rid (handler m)) = Some (sv', o) ->
  SrvI handler h sent sv' s2c /\ forall t, scnt sv' s2c t = scnt sv s2c t.
Proof.
  intros I Hm H. step_inv H; proj_simpl. pose proof I as [A B C D E F G Hs2c]. split.
  - constructor; proj_simpl; try assumption.
    intros rid0 hr r Hx Hf. destruct (N.eq_dec rid rid0) as [<-|Hne].
    + rewrite lookup_insert in Hx. injection Hx as <-. cbn in Hf. injection Hf as <-. eauto.
    + rewrite lookup_insert_ne in Hx by congruence. eauto.
  - intros t. reflexivity.
Qed.

(* [sent] only grows at the end *)
Lemma Rq_sent_mono h sent x t rid m : Rq h sent t rid m -> Rq h (sent ++ x) t rid m.
Proof. intros [A B]. split; [apply nth_app_l; exact A|exact B]. Qed.

Lemma SrvI_sent_mono handler h sent x sv s2c : SrvI handler h sent sv s2c -> SrvI handler h (sent ++ x) sv s2c.
Proof.
  intros [A B C D E F G H]. constructor; try assumption.
  - intros rid t k Hin. destruct (A _ _ _ Hin) as (m & Hk & HR). exists m. split; [exact Hk|apply Rq_sent_mono, HR].
  - intros rid t k Hx. destruct (B _ _ _ Hx) as (m & Hk & HR). exists m. split; [exact Hk|apply Rq_sent_mono, HR].
  - intros t rid Hx. destruct (C _ _ Hx) as (m & HR). exists m. apply Rq_sent_mono, HR.
  - intros rid hr r Hx Hf. destruct (D _ _ _ Hx Hf) as (m & Hm & Hr). exists m. split; [apply nth_app_l; exact Hm|exact Hr].
  - intros hd f Hx. destruct (F _ _ Hx) as (m & Hm & Hr). exists m. split; [apply nth_app_l; exact Hm|exact Hr].
Qed.

(* the history grows by events that are not about the tag of any frame in the server's pipeline *)
Lemma SrvI_hist handler h o sent sv s2c :
  SrvI handler h sent sv s2c -> (forall t, (1 <= scnt sv s2c t)%nat -> quiet t o) ->
  SrvI handler (h ++ o) sent sv s2c.
Proof.
  intros [A B C D E F G H] Hq.
  assert (HR : forall t rid m, (1 <= scnt sv s2c t)%nat -> Rq h sent t rid m -> Rq (h ++ o) sent t rid m).
  { intros t rid m Ht [R1 (i & c & q & Ho & Hm)]. split; [exact R1|]. exists i, c, q. split; [apply open_app; auto|exact Hm]. }
  assert (HF : forall f, (1 <= scnt sv s2c (f_tag f))%nat -> Fr handler h f -> Fr handler (h ++ o) f).
  { intros f Ht (i & c & q & Ho & Hm). exists i, c, q. split; [apply open_app; auto|exact Hm]. }
  constructor; try assumption.
  - intros rid t k Hin. destruct (A _ _ _ Hin) as (m & Hk & R0). exists m. split; [exact Hk|]. apply HR; [|exact R0].
    unfold scnt, ci. assert (1 <= cnt_tags (map (fun x => snd (fst x)) (inq sv)) t)%nat; [|lia].
    apply cnt_tags_in. apply (in_map (fun x => snd (fst x)) _ _ Hin).
  - intros rid t k Hx. destruct (B _ _ _ Hx) as (m & Hk & R0). exists m. split; [exact Hk|]. apply HR; [|exact R0].
    unfold scnt, cr. rewrite Hx, tagb_same. lia.
  - intros t rid Hx. destruct (C _ _ Hx) as (m & R0). exists m. apply HR; [|exact R0].
    unfold scnt, ctm. rewrite Hx. lia.
  - intros f Hx. apply HF; [|apply G; exact Hx]. unfold scnt, cw. rewrite Hx, tagb_same. lia.
  - intros f Hx. apply HF; [|apply H; exact Hx]. unfold scnt, cs.
    assert (1 <= cnt_tags (map f_tag s2c) (f_tag f))%nat; [|lia]. apply cnt_tags_in. apply in_map. exact Hx.
Qed.

(* a frame of the client arrives on the conn: request rid = nsent with message m, recorded at the end of [sent] *)
Lemma srv_send handler h sent sv s2c tag m sv' o :
  SrvI handler h sent sv s2c -> length sent = N.to_nat (nsent sv) ->
  (exists i c q, open_at h tag i c q /\ m = qbody q) ->
  step R sv (ESend (nsent sv) tag (KReq m)) = Some (sv', o) ->
  SrvI handler h (sent ++ [m]) sv' s2c /\ length (sent ++ [m]) = N.to_nat (nsent sv') /\
  (forall t, scnt sv' s2c t = (scnt sv s2c t + tagb t tag)%nat).
Proof.
  intros I Hlen Hopen H. apply (SrvI_sent_mono _ _ _ [m]) in I.
  step_inv H; proj_simpl. pose proof I as [A B C D E F G Hs2c]. split; [|split].
  - constructor; proj_simpl; try assumption.
    intros rid t k Hin. apply in_app_or in Hin as [Hin|[[= <- <- <-]|[]]]; [eauto|].
    exists m. split; [reflexivity|]. split; [|exact Hopen].
    rewrite nth_error_app2 by lia. rewrite <- Hlen, Nat.sub_diag. reflexivity.
  - rewrite app_length. cbn. lia.
  - intros t. unfold scnt, ci, cr, cw. proj_simpl. rewrite map_app, cnt_tags_app. cbn. lia.
Qed.

(* the conn's read side has failed: the step is not enabled, the frame is lost *)
Lemma srv_send_none sv tag m : step R sv (ESend (nsent sv) tag (KReq m)) = None -> rerr sv = true.
Proof. cbn. rewrite N.eqb_refl. cbn. destruct (rerr sv); [reflexivity|discriminate]. Qed.
