(* C14 - unbounded linearizability, part 2: operations on pairwise disjoint fid sets.

   For ANY number of client operations whose fid sets (op_fids: fid, newfid, afid; NOFID apart) are pairwise
   disjoint, ANY schedule, ANY FileSys scripts: the completed concurrent execution
   [run sched (init reqauth ops)] is linearizable - the order "by time of return" is a permutation, respects
   real time, and the one-at-a-time run by [seq_op] reproduces every result and every FileSys call.

   Argument (isolation, on top of the step simulation of SessLockProofsLinAll.v):
   - [CI]: along every schedule each operation i stays related, up to a renaming R_i of the SFid pointers,
     to a private replica running ALONE from the fresh session; the other operations' steps leave i's fids and
     i's pointers alone ([frame]) and the renamings have disjoint domains;
   - so operation i's result and calls are those of [seq_op] on the fresh session ([conc_result]);
   - and in the one-at-a-time run the state operation i meets agrees with the fresh session on i's fids, so
     [seq_op] there returns the same again ([run_alone_sim], [chain]);
   - the order by return time respects real time because an operation is invoked before it returns. *)
From stdpp Require Import gmap sorting.
From Coq Require Import NArith List Lia ZifyBool ZifyNat ZifyN Permutation.
From P9 Require Import Model.SessLock Proofs.SessLockProofs Proofs.SessLockProofsLin Proofs.SessLockProofsLinAll.
Local Open Scope N_scope.

(* ------------------------------------------------------------------ one thread run alone *)

Inductive reach0 : state -> state -> Prop :=
| reach0_refl : forall s, reach0 s s
| reach0_step : forall s s1 s2, step s 0%nat = Some s1 -> reach0 s1 s2 -> reach0 s s2.

Lemma reach0_snoc : forall s s1 s2, reach0 s s1 -> step s1 0%nat = Some s2 -> reach0 s s2.
Proof.
  intros s s1 s2 H. induction H as [s|s sa sb Hs Hr IH]; intro H2.
  - eapply reach0_step; [exact H2 | apply reach0_refl].
  - eapply reach0_step; [exact Hs | apply IH, H2].
Qed.

Definition done0 (s : state) : Prop := exists th, threads s !! 0%nat = Some th /\ is_done th = true.

Lemma done0_stuck : forall s, done0 s -> step s 0%nat = None.
Proof.
  intros s (th & Hth & Hd). unfold step. rewrite Hth. unfold is_done in Hd.
  destruct (t_prog th); try discriminate. reflexivity.
Qed.

Lemma run_alone_reach : forall s s', reach0 s s' -> done0 s' ->
  forall fuel, done0 (run_alone fuel s 0) -> run_alone fuel s 0 = s'.
Proof.
  intros s s' H. induction H as [s|s s1 s2 Hs Hr IH]; intros Hd fuel Hdr.
  - destruct fuel; cbn [run_alone]; [reflexivity|]. rewrite (done0_stuck _ Hd). reflexivity.
  - destruct fuel; cbn [run_alone] in *.
    + rewrite (done0_stuck _ Hdr) in Hs. discriminate.
    + rewrite Hs in *. apply IH; assumption.
Qed.

(* two related single-thread states run in lock step *)
Lemma run_alone_sim : forall (F : N -> Prop) fuel (R : prn) s s' th th',
  srel F R s s' -> threads s = [th] -> threads s' = [th'] -> trel F R th th' ->
  exists (R2 : prn) th2 th2',
    srel F R2 (run_alone fuel s 0) (run_alone fuel s' 0) /\
    threads (run_alone fuel s 0) = [th2] /\ threads (run_alone fuel s' 0) = [th2'] /\ trel F R2 th2 th2' /\
    (forall f, ~ F f -> refs (run_alone fuel s 0) !! f = refs s !! f).
Proof.
  intros F. induction fuel as [|fuel IH]; intros R s s' th th' HS Ht Ht' HT; cbn [run_alone].
  - exists R, th, th'. split; [exact HS|]. split; [exact Ht|]. split; [exact Ht'|]. split; [exact HT|]. reflexivity.
  - assert (Hi : threads s !! 0%nat = Some th) by (rewrite Ht; reflexivity).
    assert (Hi' : threads s' !! 0%nat = Some th') by (rewrite Ht'; reflexivity).
    destruct (step s 0) as [s1|] eqn:E.
    + destruct (step_sim _ _ _ _ _ _ _ _ _ HS Hi Hi' HT E)
        as (s1' & R' & th1 & th1' & E' & Hsub & HS1 & Hth1 & Hth1' & HT1 & Hfr).
      rewrite E'. rewrite Ht in Hth1. rewrite Ht' in Hth1'. cbn in Hth1, Hth1'.
      destruct (IH R' s1 s1' th1 th1' HS1 Hth1 Hth1' HT1) as (R2 & th2 & th2' & A & B & C & D & E2).
      exists R2, th2, th2'. split; [exact A|]. split; [exact B|]. split; [exact C|]. split; [exact D|].
      intros f Hf. rewrite E2 by exact Hf. apply (fr_refs _ _ _ _ _ Hfr). exact Hf.
    + rewrite (step_sim_none _ _ _ _ _ _ _ _ HS Hi Hi' HT E). exists R, th, th'.
      split; [exact HS|]. split; [exact Ht|]. split; [exact Ht'|]. split; [exact HT|]. reflexivity.
Qed.

(* a step of somebody else's, on other fids and other pointers, does not disturb the relation *)
Lemma srel_other : forall (F G : N -> Prop) (Ri Rj Rj' : prn) c c1 s',
  srel F Ri c s' -> frame G Rj Rj' c c1 ->
  (forall f, F f -> ~ G f) -> (forall p p1 p2, Ri p p1 -> Rj p p2 -> False) ->
  srel F Ri c1 s'.
Proof.
  intros F G Ri Rj Rj' c c1 s' [S1 S2 S3 S4 S5] [F1 F2 F3 F4] HFG Hdis.
  assert (Hn : forall p p', Ri p p' -> forall p'', ~ Rj' p p'').
  { intros p p' Hpp p'' Hc. destruct (F4 _ _ Hc) as [Hc'|Hc']; [eapply Hdis; eauto | destruct (S4 _ _ Hpp); lia]. }
  constructor.
  - intros f Hf. rewrite F1 by (apply HFG; exact Hf). apply S1, Hf.
  - intros p p' Hpp. destruct (F2 p (Hn _ _ Hpp)) as [E1 E2]. rewrite E1. apply S2, Hpp.
  - intros p p' Hpp. destruct (F2 p (Hn _ _ Hpp)) as [E1 E2]. rewrite E2. apply S3, Hpp.
  - intros p p' Hpp. destruct (S4 _ _ Hpp). lia.
  - exact S5.
Qed.

(* ------------------------------------------------------------------ the observed history of a run *)

(* index (in the schedule) of operation i's first effective step; 0 if it never moves *)
Fixpoint inv_time (sched : list nat) (s : state) (i : nat) (t : N) : N :=
  match sched with
  | [] => 0
  | j :: r => match step s j with
              | Some s' => if Nat.eqb j i then t else inv_time r s' i (t + 1)
              | None => inv_time r s i (t + 1)
              end
  end.

(* index of the step after which operation i has returned (the end of the schedule if there is none) *)
Fixpoint ret_time (sched : list nat) (s : state) (i : nat) (t : N) : N :=
  match sched with
  | [] => t
  | j :: r => match step s j with
              | Some s' =>
                  if Nat.eqb j i && match threads s' !! i with Some th => is_done th | None => false end
                  then t else ret_time r s' i (t + 1)
              | None => ret_time r s i (t + 1)
              end
  end.

Definition res_panic : result := {| r_cls := R_PANIC; r_val := 0 |}.

(* invocation = first step at even time 2t, return at odd time 2t+1 (as in the small-scope exploration) *)
Definition history_of_run (reqauth : bool) (ops : list (op * list outcome)) (sched : list nat) : list hop :=
  let fin := run sched (init reqauth ops) in
  imap (fun i os =>
    {| h_op := fst os; h_script := snd os; h_id := N.of_nat i;
       h_inv := 2 * inv_time sched (init reqauth ops) i 0;
       h_ret := 2 * ret_time sched (init reqauth ops) i 0 + 1;
       h_res := match threads fin !! i with
                | Some th => match result_of th with Some r => r | None => res_panic end
                | None => res_panic
                end;
       h_calls := match threads fin !! i with Some th => rev (t_calls th) | None => [] end |}) ops.

Lemma ret_time_ge : forall sched s i t, t <= ret_time sched s i t.
Proof.
  induction sched as [|j r IH]; intros s i t; cbn [ret_time]; [lia|].
  destruct (step s j) as [s'|].
  - destruct (Nat.eqb j i && _); [lia|]. specialize (IH s' i (t + 1)). lia.
  - specialize (IH s i (t + 1)). lia.
Qed.

Lemma inv_le_ret : forall sched s i t, inv_time sched s i t <= ret_time sched s i t.
Proof.
  induction sched as [|j r IH]; intros s i t; cbn [inv_time ret_time]; [lia|].
  destruct (step s j) as [s'|]; [|apply IH].
  destruct (Nat.eqb j i); cbn [andb]; [|apply IH].
  destruct (match threads s' !! i with Some th => is_done th | None => false end); [lia|].
  pose proof (ret_time_ge r s' i (t + 1)). lia.
Qed.

(* ------------------------------------------------------------------ ordering by return time *)

Definition ordR (key : nat -> N) : relation nat := fun a b => key a <= key b.
Global Instance ordR_dec key x y : Decision (ordR key x y).
Proof. unfold ordR. apply _. Defined.
Global Instance ordR_trans key : Transitive (ordR key).
Proof. intros x y z. unfold ordR. lia. Qed.
Global Instance ordR_total key : Total (ordR key).
Proof. intros x y. unfold ordR. lia. Qed.

Lemma StronglySorted_lookup : forall (R : relation nat) l i j x y,
  StronglySorted R l -> (i < j)%nat -> l !! i = Some x -> l !! j = Some y -> R x y.
Proof.
  intros R l. induction l as [|a l IH]; intros i j x y HS Hij Hi Hj; [rewrite lookup_nil in Hi; discriminate|].
  inversion HS as [|a' l' HS' Hall]; subst. destruct j as [|j]; [lia|]. cbn in Hj.
  destruct i as [|i].
  - cbn in Hi. injection Hi as <-. rewrite List.Forall_forall in Hall. apply Hall.
    apply elem_of_list_In. eapply elem_of_list_lookup_2. exact Hj.
  - cbn in Hi. apply (IH i j x y HS'); [lia | exact Hi | exact Hj].
Qed.

(* ------------------------------------------------------------------ the class, as a decidable test *)

Fixpoint disj_lists (l : list (list N)) : bool :=
  match l with
  | [] => true
  | x :: r => forallb (fun y => forallb (fun f => negb (existsb (N.eqb f) y)) x) r && disj_lists r
  end.

(* no Stop among them, and the operations' fid sets are pairwise disjoint *)
Definition disjoint_fids (os : list op) : bool :=
  forallb (fun o => match o with OpStop => false | _ => true end) os && disj_lists (map op_fids os).

Lemma disj_lists_lt : forall l i j x y f, disj_lists l = true -> (i < j)%nat ->
  l !! i = Some x -> l !! j = Some y -> In f x -> In f y -> False.
Proof.
  induction l as [|a l IH]; intros i j x y f H Hij Hi Hj Hx Hy; [rewrite lookup_nil in Hi; discriminate|].
  cbn [disj_lists] in H. apply andb_prop in H. destruct H as [H1 H2].
  destruct j as [|j]; [lia|]. cbn in Hj. destruct i as [|i].
  - cbn in Hi. injection Hi as <-. rewrite forallb_forall in H1.
    assert (Hin : In y l) by (apply elem_of_list_In; eapply elem_of_list_lookup_2; exact Hj).
    specialize (H1 _ Hin). rewrite forallb_forall in H1. specialize (H1 _ Hx).
    apply negb_true_iff in H1.
    assert (E : existsb (N.eqb f) y = true) by (apply existsb_exists; exists f; split; [exact Hy | apply N.eqb_refl]).
    congruence.
  - cbn in Hi. apply (IH i j x y f H2); [lia | exact Hi | exact Hj | exact Hx | exact Hy].
Qed.

Lemma disjoint_fids_spec : forall (ops : list (op * list outcome)), disjoint_fids (map fst ops) = true ->
  (forall i os, ops !! i = Some os -> fst os <> OpStop) /\
  (forall i j oi oj f, i <> j -> ops !! i = Some oi -> ops !! j = Some oj ->
     opF (fst oi) f -> opF (fst oj) f -> False).
Proof.
  intros ops H. unfold disjoint_fids in H. apply andb_prop in H. destruct H as [H1 H2]. split.
  - intros i os Hi E. rewrite forallb_forall in H1.
    assert (Hin : In (fst os) (map fst ops)).
    { apply in_map. apply elem_of_list_In. eapply elem_of_list_lookup_2. exact Hi. }
    specialize (H1 _ Hin). rewrite E in H1. discriminate.
  - intros i j oi oj f Hne Hi Hj Hfi Hfj. unfold opF in *.
    assert (Li : map op_fids (map fst ops) !! i = Some (op_fids (fst oi))).
    { change (map op_fids (map fst ops)) with (op_fids <$> (fst <$> ops)). rewrite !list_lookup_fmap, Hi. reflexivity. }
    assert (Lj : map op_fids (map fst ops) !! j = Some (op_fids (fst oj))).
    { change (map op_fids (map fst ops)) with (op_fids <$> (fst <$> ops)). rewrite !list_lookup_fmap, Hj. reflexivity. }
    destruct (Nat.lt_ge_cases i j) as [Hlt|Hge].
    + exact (disj_lists_lt _ _ _ _ _ _ H2 Hlt Li Lj Hfi Hfj).
    + assert (Hlt : (j < i)%nat) by lia. exact (disj_lists_lt _ _ _ _ _ _ H2 Hlt Lj Li Hfj Hfi).
Qed.

(* ------------------------------------------------------------------ isolation along every schedule *)

Definition hop0 (i : nat) (os : op * list outcome) : hop :=
  {| h_op := fst os; h_script := snd os; h_id := N.of_nat i; h_inv := 0; h_ret := 0; h_res := res_panic; h_calls := [] |}.

Lemma alone_ext : forall reqauth s h h',
  h_id h = h_id h' -> h_op h = h_op h' -> h_script h = h_script h' -> alone reqauth s h = alone reqauth s h'.
Proof. intros reqauth s h h' E1 E2 E3. unfold alone. rewrite E1, E2, E3. reflexivity. Qed.

Lemma prel_ret_l : forall (F : N -> Prop) p r (R : prn), prel F p (Ret r) R -> p = Ret r.
Proof. intros F p r R H. destruct p; cbn [prel] in H; try contradiction. rewrite H. reflexivity. Qed.

Lemma prel_ret_r : forall (F : N -> Prop) p r (R : prn), prel F (Ret r) p R -> p = Ret r.
Proof. intros F p r R H. destruct p; cbn [prel] in H; try contradiction. rewrite H. reflexivity. Qed.

Section Disjoint.
Variable reqauth : bool.
Variable ops : list (op * list outcome).
Hypothesis Hnostop : forall i os, ops !! i = Some os -> fst os <> OpStop.
Hypothesis Hdisj : forall i j oi oj f, i <> j -> ops !! i = Some oi -> ops !! j = Some oj ->
  opF (fst oi) f -> opF (fst oj) f -> False.

Definition base : state := init reqauth [].
Definition solo0 (i : nat) (os : op * list outcome) : state := alone reqauth base (hop0 i os).

(* every operation is related to a private replica that runs alone from the fresh session *)
Definition CI (c : state) : Prop :=
  length (threads c) = length ops /\
  exists (Rs : nat -> prn) (reps : nat -> state),
    (forall i os, ops !! i = Some os ->
       reach0 (solo0 i os) (reps i) /\ srel (opF (fst os)) (Rs i) c (reps i) /\
       exists th th', threads c !! i = Some th /\ threads (reps i) = [th'] /\ trel (opF (fst os)) (Rs i) th th') /\
    (forall i j p p1 p2, i <> j -> Rs i p p1 -> Rs j p p2 -> False) /\
    (forall i p p1, Rs i p p1 -> p < nextp c).

Lemma CI_init : CI (init reqauth ops).
Proof.
  split; [unfold init; cbn; apply imap_length|].
  exists (fun _ _ _ => False), (fun i => match ops !! i with Some os => solo0 i os | None => base end).
  split; [|split; [intros i j p p1 p2 _ [] | intros i p p1 []]].
  intros i os Hi. rewrite Hi. split; [apply reach0_refl|]. split.
  - constructor.
    + intros f _. cbn. rewrite !lookup_empty. exact I.
    + intros p p' [].
    + intros p p' [].
    + intros p p' [].
    + intros a b a' b' [].
  - exists (mk_thread reqauth (N.of_nat i) os), (mk_thread reqauth (N.of_nat i) os).
    split; [unfold init; cbn; rewrite list_lookup_imap, Hi; reflexivity|].
    split; [unfold solo0, alone, hop0; cbn; destruct os; reflexivity|].
    constructor; try reflexivity. cbn. apply prel_prog_of. eapply Hnostop; exact Hi.
Qed.

Lemma CI_step : forall c j c1, CI c -> step c j = Some c1 -> CI c1.
Proof.
  intros c j c1 [Hlen (Rs & reps & Hall & Hdom & Hlt)] Hst.
  assert (Hj : exists thj, threads c !! j = Some thj).
  { unfold step in Hst. destruct (threads c !! j) as [thj|]; [exists thj; reflexivity | discriminate]. }
  destruct Hj as [thj Hj].
  assert (Hjlt : (j < length ops)%nat) by (rewrite <- Hlen; eapply lookup_lt_Some; exact Hj).
  destruct (lookup_lt_is_Some_2 _ _ Hjlt) as [osj Hoj].
  destruct (Hall _ _ Hoj) as (Hreach & HS & th & th' & Hth & Hth' & HT).
  assert (th = thj) by congruence. subst thj.
  assert (Hi' : threads (reps j) !! 0%nat = Some th') by (rewrite Hth'; reflexivity).
  destruct (step_sim _ _ _ _ _ _ _ _ _ HS Hth Hi' HT Hst)
    as (s1' & R' & th1 & th1' & E' & Hsub & HS1 & Hth1 & Hth1' & HT1 & Hfr).
  rewrite Hth' in Hth1'. cbn in Hth1'.
  split; [rewrite Hth1, insert_length; exact Hlen|].
  exists (fun i => if decide (i = j) then R' else Rs i), (fun i => if decide (i = j) then s1' else reps i).
  split.
  - intros i os Hi. destruct (decide (i = j)) as [->|Hne].
    + assert (os = osj) by congruence. subst os.
      split; [eapply reach0_snoc; eauto|]. split; [exact HS1|].
      exists th1, th1'. split; [rewrite Hth1; apply list_lookup_insert; eapply lookup_lt_Some; exact Hth|].
      split; [exact Hth1' | exact HT1].
    + destruct (Hall _ _ Hi) as (Hreachi & HSi & thi & thi' & Hthi & Hthi' & HTi).
      split; [exact Hreachi|]. split.
      * eapply srel_other; [exact HSi | exact Hfr | |].
        -- intros f Hfi Hfj. exact (Hdisj _ _ _ _ _ Hne Hi Hoj Hfi Hfj).
        -- intros p p1 p2 H1 H2. exact (Hdom _ _ _ _ _ Hne H1 H2).
      * exists thi, thi'. split; [rewrite Hth1, list_lookup_insert_ne by congruence; exact Hthi|].
        split; [exact Hthi' | exact HTi].
  - assert (Hnew : forall i p p1 p2, i <> j -> Rs i p p1 -> R' p p2 -> False).
    { intros i p p1 p2 Hne H1 H2. destruct (fr_dom _ _ _ _ _ Hfr _ _ H2) as [H3|H3].
      - exact (Hdom _ _ _ _ _ Hne H1 H3).
      - pose proof (Hlt _ _ _ H1). lia. }
    split.
    2:{ intros i p p1 H1. pose proof (fr_np _ _ _ _ _ Hfr). destruct (decide (i = j)) as [->|Hn].
        - destruct (sr_lt _ _ _ _ HS1 _ _ H1). assumption.
        - pose proof (Hlt _ _ _ H1). lia. }
    intros i i2 p p1 p2 Hne H1 H2.
    destruct (decide (i = j)) as [->|Hn1], (decide (i2 = j)) as [->|Hn2].
    + congruence.
    + exact (Hnew _ _ _ _ Hn2 H2 H1).
    + exact (Hnew _ _ _ _ Hn1 H1 H2).
    + exact (Hdom _ _ _ _ _ Hne H1 H2).
Qed.
End Disjoint.

Section DisjointRun.
Variable reqauth : bool.
Variable ops : list (op * list outcome).
Hypothesis Hnostop : forall i os, ops !! i = Some os -> fst os <> OpStop.
Hypothesis Hdisj : forall i j oi oj f, i <> j -> ops !! i = Some oi -> ops !! j = Some oj ->
  opF (fst oi) f -> opF (fst oj) f -> False.
Variable sched : list nat.
Hypothesis Hdone : all_done (run sched (init reqauth ops)).

Lemma CI_run : forall sch c, CI reqauth ops c -> CI reqauth ops (run sch c).
Proof.
  induction sch as [|j sch IH]; intros c H; cbn [run fold_left]; [exact H|].
  apply IH. unfold step_or_stay. destruct (step c j) as [c1|] eqn:E; [|exact H].
  eapply CI_step; eauto.
Qed.

Definition fin : state := run sched (init reqauth ops).

(* each operation's result and calls in the concurrent run are those of [seq_op] on the fresh session *)
Lemma conc_result : forall i os, ops !! i = Some os ->
  exists th r, threads fin !! i = Some th /\ t_prog th = Ret r /\
    snd (seq_op reqauth (base reqauth) (hop0 i os)) = Some (r, rev (t_calls th)).
Proof.
  intros i os Hi.
  destruct (CI_run sched _ (CI_init reqauth ops Hnostop)) as [_ (Rs & reps & Hall & _)].
  destruct (Hall _ _ Hi) as (Hreach & HS & th & th' & Hth & Hth' & HT).
  fold fin in Hth. pose proof (Hdone _ _ Hth) as Hd. unfold is_done in Hd.
  destruct (t_prog th) as [r| | | | | | | | | | | |] eqn:Hp; try discriminate.
  exists th, r. split; [exact Hth|]. split; [exact Hp|].
  pose proof (tr_prog _ _ _ _ HT) as HP. rewrite Hp in HP. apply prel_ret_r in HP.
  assert (Hd0 : done0 (reps i)).
  { exists th'. split; [rewrite Hth'; reflexivity | unfold is_done; rewrite HP; reflexivity]. }
  destruct (seq_op_returns reqauth (base reqauth) (hop0 i os) eq_refl) as (r0 & cs0 & Hres & _).
  unfold seq_op in *. fold (alone reqauth (base reqauth) (hop0 i os)) in *. cbn [fst snd] in *.
  fold (solo0 reqauth i os) in *.
  assert (Hdr : done0 (run_alone seq_fuel (solo0 reqauth i os) 0)).
  { destruct (threads (run_alone seq_fuel (solo0 reqauth i os) 0) !! 0%nat) as [th2|] eqn:E2; [|discriminate].
    exists th2. split; [exact E2|]. unfold result_of in Hres. unfold is_done.
    destruct (t_prog th2); try discriminate. reflexivity. }
  rewrite (run_alone_reach _ _ Hreach Hd0 _ Hdr). rewrite Hth'. cbn. unfold result_of. rewrite HP.
  rewrite (tr_calls _ _ _ _ HT). reflexivity.
Qed.

Definition hist : list hop := history_of_run reqauth ops sched.

Lemma hist_lookup : forall i a, hist !! i = Some a ->
  exists os th r, ops !! i = Some os /\ threads fin !! i = Some th /\ t_prog th = Ret r /\
    h_op a = fst os /\ h_script a = snd os /\ h_id a = N.of_nat i /\ h_res a = r /\ h_calls a = rev (t_calls th) /\
    h_inv a = 2 * inv_time sched (init reqauth ops) i 0 /\ h_ret a = 2 * ret_time sched (init reqauth ops) i 0 + 1.
Proof.
  intros i a H. unfold hist, history_of_run in H. rewrite list_lookup_imap in H.
  destruct (ops !! i) as [os|] eqn:Hi; cbn in H; [|discriminate]. injection H as <-.
  destruct (conc_result _ _ Hi) as (th & r & Hth & Hp & _). fold fin.
  exists os, th, r. cbn. rewrite Hth. unfold result_of. rewrite Hp. repeat split; reflexivity.
Qed.

(* the one-at-a-time run, in any order without repetition, from any session state that has none of the
   remaining operations' fids bound *)
Lemma chain : forall l, NoDup l ->
  forall q hs,
  (forall i os f, In i l -> ops !! i = Some os -> opF (fst os) f -> refs q !! f = None) ->
  Forall2 (fun i a => hist !! i = Some a) l hs ->
  seq_run reqauth q hs = map (fun h => Some (h_res h, h_calls h)) hs.
Proof.
  induction l as [|i l IH]; intros ND q hs Hq HF; inversion HF as [|i' a l' hs' Ha HF']; subst; [reflexivity|].
  inversion ND as [|i' l' Hnin ND']; subst.
  destruct (hist_lookup _ _ Ha) as (os & th & r & Hi & Hth & Hp & E1 & E2 & E3 & E4 & E5 & _).
  cbn [seq_run map].
  destruct (conc_result _ _ Hi) as (th0 & r0 & Hth0 & Hp0 & Hseq).
  assert (th0 = th) by congruence. subst th0. assert (r0 = r) by congruence. subst r0.
  (* lock step: a alone from q  ~  hop0 alone from the fresh session *)
  assert (Hal : threads (alone reqauth q a) = [mk_thread reqauth (N.of_nat i) os]).
  { unfold alone. cbn. rewrite E1, E2, E3. destruct os; reflexivity. }
  assert (Hal' : threads (solo0 reqauth i os) = [mk_thread reqauth (N.of_nat i) os]).
  { unfold solo0, alone, hop0. cbn. destruct os; reflexivity. }
  assert (HS : srel (opF (fst os)) (fun _ _ => False) (alone reqauth q a) (solo0 reqauth i os)).
  { constructor.
    - intros f Hf. cbn. rewrite (Hq i os f (or_introl eq_refl) Hi Hf), lookup_empty. exact I.
    - intros p p' [].
    - intros p p' [].
    - intros p p' [].
    - intros x y x' y' []. }
  assert (HT : trel (opF (fst os)) (fun _ _ => False) (mk_thread reqauth (N.of_nat i) os) (mk_thread reqauth (N.of_nat i) os)).
  { constructor; try reflexivity. cbn. apply prel_prog_of. eapply Hnostop; exact Hi. }
  destruct (run_alone_sim _ seq_fuel _ _ _ _ _ HS Hal Hal' HT) as (R2 & th2 & th2' & HS2 & Ht2 & Ht2' & HT2 & Hfr).
  unfold seq_op in Hseq |- *. fold (alone reqauth (base reqauth) (hop0 i os)) in Hseq. fold (solo0 reqauth i os) in Hseq.
  fold (alone reqauth q a). cbn [snd] in Hseq.
  rewrite Ht2' in Hseq. cbn in Hseq. rewrite Ht2. cbn.
  destruct (result_of th2') as [r2|] eqn:Er; [|discriminate]. injection Hseq as -> Hc.
  unfold result_of in Er. destruct (t_prog th2') as [rr| | | | | | | | | | | |] eqn:Hp2; try discriminate. injection Er as ->.
  pose proof (tr_prog _ _ _ _ HT2) as HP2. rewrite Hp2 in HP2. apply prel_ret_l in HP2.
  unfold result_of. rewrite HP2. rewrite (tr_calls _ _ _ _ HT2), Hc, E4, E5. f_equal.
  apply IH; [exact ND' | | exact HF'].
  intros i2 os2 f Hin Hi2 Hf.
  assert (Hne : i2 <> i) by (intros ->; exact (Hnin Hin)).
  rewrite Hfr.
  - cbn. apply (Hq i2 os2 f (or_intror Hin) Hi2 Hf).
  - intro Hfi. exact (Hdisj _ _ _ _ _ Hne Hi2 Hi Hf Hfi).
Qed.

Definition rkey (i : nat) : N := ret_time sched (init reqauth ops) i 0.
Definition lin_order : list nat := merge_sort (ordR rkey) (seq 0 (length ops)).

Lemma hist_length : length hist = length ops.
Proof. unfold hist, history_of_run. apply imap_length. Qed.

Lemma disjoint_linearization : linearization reqauth hist lin_order.
Proof.
  assert (Hperm : Permutation lin_order (seq 0 (length ops))) by apply merge_sort_Permutation.
  split; [rewrite hist_length; exact Hperm|].
  assert (Hb : forall x, In x lin_order -> (x < length hist)%nat).
  { intros x Hx. rewrite hist_length. eapply Permutation_in in Hx; [|exact Hperm]. apply in_seq in Hx. lia. }
  exists (pick hist lin_order). split; [apply pick_total, Hb|]. split.
  - intros i j a b Hij Hia Hjb.
    pose proof (pick_total hist lin_order Hb) as HF.
    destruct (Forall2_lookup_r _ _ _ _ _ HF Hia) as (x & Hx & Hxa).
    destruct (Forall2_lookup_r _ _ _ _ _ HF Hjb) as (y & Hy & Hyb).
    assert (Hs : StronglySorted (ordR rkey) lin_order) by (apply StronglySorted_merge_sort; apply _).
    pose proof (StronglySorted_lookup _ _ _ _ _ _ Hs Hij Hx Hy) as Hxy. unfold ordR, rkey in Hxy.
    destruct (hist_lookup _ _ Hxa) as (_ & _ & _ & _ & _ & _ & _ & _ & _ & _ & _ & Einv & _).
    destruct (hist_lookup _ _ Hyb) as (_ & _ & _ & _ & _ & _ & _ & _ & _ & _ & _ & _ & Eret).
    pose proof (inv_le_ret sched (init reqauth ops) x 0). lia.
  - unfold reproduces. apply (chain lin_order).
    + eapply Permutation_NoDup; [symmetry; exact Hperm | apply seq_NoDup].
    + intros i os f _ _ _. unfold init. cbn. apply lookup_empty.
    + apply pick_total, Hb.
Qed.
End DisjointRun.

(* for ANY number of operations on pairwise disjoint fid sets, ANY schedule, ANY FileSys scripts: the completed
   concurrent execution is linearizable, and the order of return is a linearization *)
Theorem linearizable_disjoint : forall reqauth ops sched,
  disjoint_fids (map fst ops) = true ->
  all_done (run sched (init reqauth ops)) ->
  exists o, linearization reqauth (history_of_run reqauth ops sched) o.
Proof.
  intros reqauth ops sched Hc Hd. destruct (disjoint_fids_spec ops Hc) as [H1 H2].
  exists (lin_order reqauth ops sched). apply disjoint_linearization; assumption.
Qed.

(* ------------------------------------------------------------------ non-vacuity: a schedule in the class with real overlap *)

Lemma all_done_b : forall s, forallb is_done (threads s) = true -> all_done s.
Proof.
  intros s H i th Hi. rewrite forallb_forall in H. apply H.
  apply elem_of_list_In. eapply elem_of_list_lookup_2. exact Hi.
Qed.

(* attach(0) succeeds, attach(1) fails in the FileSys and rolls back, auth(5) binds an auth fid, stat(2) finds
   nothing, walk 3->4 finds nothing: five operations on disjoint fids, interleaved action by action *)
Definition ex_dis_ops : list (op * list outcome) :=
  [(OpAttach 0 NOFID, [OOk 0 true]); (OpAttach 1 NOFID, [OErr]); (OpAuth 5, [OOk 0 true]);
   (OpStat 2, []); (OpWalk 3 4 1 true, [])].
Definition ex_dis_sched : list nat :=
  concat (replicate 8 [0; 1; 2; 3; 4])%nat.

Definition overlapb (h : list hop) (i j : nat) : bool :=
  match h !! i, h !! j with
  | Some a, Some b => (h_inv a <? h_ret b) && (h_inv b <? h_ret a)
  | _, _ => false
  end.

Lemma ex_disjoint_in_class :
  disjoint_fids (map fst ex_dis_ops) = true /\
  all_done (run ex_dis_sched (init true ex_dis_ops)) /\
  overlapb (history_of_run true ex_dis_ops ex_dis_sched) 0 1 = true /\
  overlapb (history_of_run true ex_dis_ops ex_dis_sched) 1 2 = true /\
  map (fun h => r_cls (h_res h)) (history_of_run true ex_dis_ops ex_dis_sched) = [R_OK; R_FSERR; R_OK; R_UNKNOWNFID; R_UNKNOWNFID] /\
  lin_order true ex_dis_ops ex_dis_sched = [3; 4; 0; 1; 2]%nat.
Proof.
  split; [vm_compute; reflexivity|]. split; [apply all_done_b; vm_compute; reflexivity|].
  split; [vm_compute; reflexivity|]. split; [vm_compute; reflexivity|]. split; vm_compute; reflexivity.
Qed.
