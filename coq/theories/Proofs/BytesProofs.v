From Coq Require Import List NArith ZArith Lia Bool.
From Coq Require Import ZifyBool ZifyNat ZifyN.
From P9 Require Import Base.Bytes.
Import ListNotations.
Open Scope N_scope.
Ltac Zify.zify_post_hook ::= Z.div_mod_to_equations.

Lemma le_length w n : length (le w n) = w.
Proof. revert n; induction w as [|w IH]; intros n; simpl; auto. Qed.

Lemma len_le w n : len (le w n) = N.of_nat w.
Proof. unfold len. rewrite le_length. reflexivity. Qed.

Lemma le_all_bytes w n : Forall (fun b => b < 256) (le w n).
Proof.
  revert n; induction w as [|w IH]; intros n; simpl; constructor; auto.
  apply N.mod_lt. lia.
Qed.

Lemma unle_le w n : unle (le w n) = n mod 256 ^ N.of_nat w.
Proof.
  revert n; induction w as [|w IH]; intros n.
  - simpl. rewrite N.mod_1_r. reflexivity.
  - cbn [le unle]. rewrite IH. rewrite Nat2N.inj_succ, N.pow_succ_r'.
    assert (H256 : 256 ^ N.of_nat w <> 0) by (apply N.pow_nonzero; lia).
    set (p := 256 ^ N.of_nat w) in *.
    rewrite N.mod_mul_r by lia.
    reflexivity.
Qed.

Lemma unle_le_small w n : n < 256 ^ N.of_nat w -> unle (le w n) = n.
Proof. intros H. rewrite unle_le. apply N.mod_small; auto. Qed.

Lemma len_app {A} (a b : list A) : len (a ++ b) = len a + len b.
Proof. unfold len. rewrite app_length. lia. Qed.

Lemma len_nil {A} : len (@nil A) = 0.
Proof. reflexivity. Qed.

Lemma len_cons {A} (x : A) l : len (x :: l) = 1 + len l.
Proof. unfold len. simpl length. lia. Qed.

Lemma take_app_len {A} (a b : list A) : take (len a) (a ++ b) = a.
Proof.
  unfold take, len. rewrite Nat2N.id. rewrite firstn_app, Nat.sub_diag, firstn_all. simpl. apply app_nil_r.
Qed.

Lemma drop_app_len {A} (a b : list A) : drop (len a) (a ++ b) = b.
Proof.
  unfold drop, len. rewrite Nat2N.id. rewrite skipn_app, Nat.sub_diag, skipn_all. reflexivity.
Qed.

Lemma take_all {A} (a : list A) : take (len a) a = a.
Proof. unfold take, len. rewrite Nat2N.id. apply firstn_all. Qed.

Lemma len_take {A} n (l : list A) : n <= len l -> len (take n l) = n.
Proof. unfold take, len. intros H. rewrite firstn_length. lia. Qed.

Lemma len_take_le {A} n (l : list A) : len (take n l) <= n.
Proof. unfold take, len. rewrite firstn_length. lia. Qed.

Lemma len_drop {A} n (l : list A) : len (drop n l) = len l - n.
Proof. unfold drop, len. rewrite skipn_length. lia. Qed.

Lemma take_drop {A} n (l : list A) : take n l ++ drop n l = l.
Proof. apply firstn_skipn. Qed.

Lemma shorter_spec bs : forall n, shorter bs n = (len bs <? n).
Proof.
  induction bs as [|b r IH]; intros n; simpl.
  - reflexivity.
  - rewrite len_cons. destruct (N.eqb_spec n 0) as [->|Hn].
    + symmetry. apply N.ltb_ge. lia.
    + rewrite IH. destruct (N.ltb_spec (len r) (N.pred n)); destruct (N.ltb_spec (1 + len r) n); lia.
Qed.

Lemma forallb_app_true {A} (f : A -> bool) a b : forallb f (a ++ b) = true <-> forallb f a = true /\ forallb f b = true.
Proof. rewrite forallb_app. apply andb_true_iff. Qed.
