(* The tie between the regenerated tables (Gen/GenWire.v, from the current
   source) and the hand-transcribed manual tables (Model/Spec9P.v). *)
From Coq Require Import List NArith String Bool.
From P9 Require Import Model.WireTypes Model.Spec9P Gen.GenWire.
Import ListNotations.
Open Scope string_scope.

Definition gen_kinds_table : list (N * list kind) :=
  map (fun r => (fst r, map snd (snd (snd r)))) gen_msg_table.

Definition str_in (s : string) (l : list string) : bool := existsb (String.eqb s) l.

(* every integer Go type that occurs in a field is listed (as T and *T) in the integer arm of
   encode and size9p, and as *T in decode's: otherwise the field would silently encode as nothing *)
Definition int_arms_ok : bool :=
  forallb (fun t => str_in t gen_enc_int_arm && str_in ("*" ++ t) gen_enc_int_arm
                    && str_in t gen_size_int_arm && str_in ("*" ++ t) gen_size_int_arm
                    && str_in ("*" ++ t) gen_dec_int_arm) gen_field_int_types.

(* each struct's Type() method returns the type byte under which newMessage creates it *)
Definition type_methods_ok : bool :=
  forallb (fun r => match find (fun m => String.eqb (fst m) (fst (snd r))) gen_type_methods with
                    | Some m => N.eqb (snd m) (fst r) | None => false end) gen_msg_table.

Lemma tables_agree :
  gen_kinds_table = spec_kinds_table /\
  map snd gen_dir_fields = spec_dir_kinds /\
  map snd gen_qid_fields = spec_qid_kinds /\
  map fst gen_qid_fields = gen_qid_enc_order /\ gen_qid_enc_order = gen_qid_dec_order /\ gen_qid_enc_order = gen_qid_size_order /\
  gen_fcall_enc_order = ["Type"; "Tag"; "Message"] /\ gen_fcall_dec_order = ["Type"; "Tag"] /\
  gen_fcall_size_order = gen_fcall_enc_order /\ map fst gen_fcall_fields = gen_fcall_enc_order /\
  int_arms_ok = true /\ type_methods_ok = true /\
  List.length spec_kinds_table = 27%nat.
Proof. repeat split; reflexivity. Qed.

(* The Go-side naming of the manual's fields: struct and field names with kinds, in wire order.
   intro(5) name -> Go field: msize->MSize version->Version afid->Afid uname->Uname aname->Aname
   aqid/qid->Qid ename->Ename oldtag->Oldtag fid->Fid newfid->Newfid wname->Wnames wqid->Qids
   mode->Mode iounit->IOUnit name->Name perm->Perm offset->Offset count->Count data->Data stat->Stat;
   stat(5): type dev qid mode atime->AccessTime mtime->ModTime length name uid gid muid.
   A reordering of two fields of the same kind (Fid/Afid, Uname/Aname, AccessTime/ModTime) changes
   the wire order without changing the kinds: comparing names catches it. *)
Definition expected_msg_table : list (N * (string * list (string * kind))) :=
  [(100, ("MessageTversion", [("MSize", (KInt 4)); ("Version", KStr)]));
   (101, ("MessageRversion", [("MSize", (KInt 4)); ("Version", KStr)]));
   (102, ("MessageTauth", [("Afid", (KInt 4)); ("Uname", KStr); ("Aname", KStr)]));
   (103, ("MessageRauth", [("Qid", KQid)]));
   (104, ("MessageTattach", [("Fid", (KInt 4)); ("Afid", (KInt 4)); ("Uname", KStr); ("Aname", KStr)]));
   (105, ("MessageRattach", [("Qid", KQid)]));
   (107, ("MessageRerror", [("Ename", KStr)]));
   (108, ("MessageTflush", [("Oldtag", (KInt 2))]));
   (109, ("MessageRflush", []));
   (110, ("MessageTwalk", [("Fid", (KInt 4)); ("Newfid", (KInt 4)); ("Wnames", KStrs)]));
   (111, ("MessageRwalk", [("Qids", KQids)]));
   (112, ("MessageTopen", [("Fid", (KInt 4)); ("Mode", (KInt 1))]));
   (113, ("MessageRopen", [("Qid", KQid); ("IOUnit", (KInt 4))]));
   (114, ("MessageTcreate", [("Fid", (KInt 4)); ("Name", KStr); ("Perm", (KInt 4)); ("Mode", (KInt 1))]));
   (115, ("MessageRcreate", [("Qid", KQid); ("IOUnit", (KInt 4))]));
   (116, ("MessageTread", [("Fid", (KInt 4)); ("Offset", (KInt 8)); ("Count", (KInt 4))]));
   (117, ("MessageRread", [("Data", KData)]));
   (118, ("MessageTwrite", [("Fid", (KInt 4)); ("Offset", (KInt 8)); ("Data", KData)]));
   (119, ("MessageRwrite", [("Count", (KInt 4))]));
   (120, ("MessageTclunk", [("Fid", (KInt 4))]));
   (121, ("MessageRclunk", []));
   (122, ("MessageTremove", [("Fid", (KInt 4))]));
   (123, ("MessageRremove", []));
   (124, ("MessageTstat", [("Fid", (KInt 4))]));
   (125, ("MessageRstat", [("Stat", KDir)]));
   (126, ("MessageTwstat", [("Fid", (KInt 4)); ("Stat", KDir)]));
   (127, ("MessageRwstat", []))].

Definition expected_qid_fields : list (string * kind) :=
[("Type", (KInt 1)); ("Version", (KInt 4)); ("Path", (KInt 8))].

Definition expected_dir_fields : list (string * kind) :=
[("Type", (KInt 2)); ("Dev", (KInt 4)); ("Qid", KQid); ("Mode", (KInt 4)); ("AccessTime", KTime); ("ModTime", KTime); ("Length", (KInt 8)); ("Name", KStr); ("UID", KStr); ("GID", KStr); ("MUID", KStr)].

Lemma expected_kinds_are_the_manuals :
  map (fun r => (fst r, map snd (snd (snd r)))) expected_msg_table = spec_kinds_table /\
  map snd expected_dir_fields = spec_dir_kinds /\ map snd expected_qid_fields = spec_qid_kinds.
Proof. repeat split; reflexivity. Qed.

Lemma tables_agree_named :
  gen_msg_table = expected_msg_table /\ gen_dir_fields = expected_dir_fields /\ gen_qid_fields = expected_qid_fields.
Proof. repeat split; reflexivity. Qed.

(* the doubled stat size is applied to Rstat and Twstat, passed by value or by pointer, in all of
   encode, decode and size9p (a form missing from one of them makes size and bytes disagree) *)
Definition expected_stat_arms : list string :=
  ["*MessageRstat"; "*MessageTwstat"; "MessageRstat"; "MessageTwstat"].

Lemma stat_arms_agree :
  gen_enc_stat_arms = expected_stat_arms /\ gen_dec_stat_arms = expected_stat_arms /\ gen_size_stat_arms = expected_stat_arms.
Proof. repeat split; reflexivity. Qed.
