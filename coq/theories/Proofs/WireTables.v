(* The tie between the regenerated tables (Gen/GenWire.v, from the current
   source) and the hand-transcribed manual tables (Model/Spec9P.v). *)
From Coq Require Import List NArith String Bool.
From P9 Require Import Model.WireTypes Model.Spec9P Gen.GenWire.
Import ListNotations.
Open Scope string_scope.

Definition gen_kinds_table : list (N * list kind) :=
  map (fun r => (fst r, map snd (snd (snd r)))) gen_msg_table.

Definition str_in (s : string) (l : list string) : bool := existsb (String.eqb s) l.

(* every integer Go type that occurs in a field is listed (as T and *T) in the integer arm of
   encode and size9p, and as *T in decode's: otherwise the field would silently encode as nothing *)
Definition int_arms_ok : bool :=
  forallb (fun t => str_in t gen_enc_int_arm && str_in ("*" ++ t) gen_enc_int_arm
                    && str_in t gen_size_int_arm && str_in ("*" ++ t) gen_size_int_arm
                    && str_in ("*" ++ t) gen_dec_int_arm) gen_field_int_types.

(* each struct's Type() method returns the type byte under which newMessage creates it *)
Definition type_methods_ok : bool :=
  forallb (fun r => match find (fun m => String.eqb (fst m) (fst (snd r))) gen_type_methods with
                    | Some m => N.eqb (snd m) (fst r) | None => false end) gen_msg_table.

Lemma tables_agree :
  gen_kinds_table = spec_kinds_table /\
  map snd gen_dir_fields = spec_dir_kinds /\
  map snd gen_qid_fields = spec_qid_kinds /\
  map fst gen_qid_fields = gen_qid_enc_order /\ gen_qid_enc_order = gen_qid_dec_order /\ gen_qid_enc_order = gen_qid_size_order /\
  gen_fcall_enc_order = ["Type"; "Tag"; "Message"] /\ gen_fcall_dec_order = ["Type"; "Tag"] /\
  gen_fcall_size_order = gen_fcall_enc_order /\ map fst gen_fcall_fields = gen_fcall_enc_order /\
  int_arms_ok = true /\ type_methods_ok = true /\
  List.length spec_kinds_table = 27%nat.
Proof. repeat split; reflexivity. Qed.
