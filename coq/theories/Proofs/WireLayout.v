(* The codec model produces exactly the layouts of the 9P2000 manual (Model/Spec9P.v). *)
From Coq Require Import List NArith ZArith Lia Bool.
From Coq Require Import ZifyBool ZifyNat ZifyN.
From P9 Require Import Base.Res Base.Bytes Model.WireTypes Model.Spec9P Model.Wire Proofs.BytesProofs Proofs.WireProofs.
Import ListNotations.
Open Scope N_scope.

Arguments N.mul : simpl never.
Arguments N.add : simpl never.
Arguments N.pow : simpl never.
Arguments N.modulo : simpl never.
Arguments N.ltb : simpl never.
Arguments N.eqb : simpl never.
Arguments le : simpl never.

Lemma kmf_cons k ks fs : kinds_match_f (k :: ks) fs = true ->
  exists f fs', fs = f :: fs' /\ kind_eqb k (kind_of_fval f) = true /\ kinds_match_f ks fs' = true.
Proof. destruct fs as [|f fs']; cbn [kinds_match_f]; [discriminate|]. intros H. apply andb_true_iff in H as [H1 H2]. eauto. Qed.
Lemma kmf_nil fs : kinds_match_f [] fs = true -> fs = [].
Proof. destruct fs; [reflexivity|discriminate]. Qed.
Lemma km_cons k ks vs : kinds_match (k :: ks) vs = true ->
  exists v vs', vs = v :: vs' /\ kind_eqb k (kind_of v) = true /\ kinds_match ks vs' = true.
Proof. destruct vs as [|v vs']; cbn [kinds_match]; [discriminate|]. intros H. apply andb_true_iff in H as [H1 H2]. eauto. Qed.
Lemma km_nil vs : kinds_match [] vs = true -> vs = [].
Proof. destruct vs; [reflexivity|discriminate]. Qed.

Ltac fields_f :=
  repeat match goal with
  | H : kinds_match_f (_ :: _) ?fs = true |- _ =>
      let f := fresh "f" in let fs' := fresh "fs" in let H1 := fresh "Hk" in
      apply kmf_cons in H as (f & fs' & -> & H1 & H)
  | H : kinds_match_f [] ?fs = true |- _ => apply kmf_nil in H; subst fs
  | H : kind_eqb _ (kind_of_fval ?v) = true |- _ =>
      destruct v; cbn [kind_of_fval kind_eqb] in H; try discriminate H;
      try (apply N.eqb_eq in H; subst); try clear H
  end.

Ltac fields_v :=
  repeat match goal with
  | H : kinds_match (_ :: _) ?vs = true |- _ =>
      let v := fresh "v" in let vs' := fresh "vs" in let H1 := fresh "Hk" in
      apply km_cons in H as (v & vs' & -> & H1 & H)
  | H : kinds_match [] ?vs = true |- _ => apply km_nil in H; subst vs
  | H : kind_eqb _ (kind_of ?v) = true |- _ =>
      destruct v as [[]|]; cbn [kind_of kind_of_fval kind_eqb] in H; try discriminate H;
      try (apply N.eqb_eq in H; subst); try clear H
  end.

Lemma wf_time t : wf_fval (FTime t) = true -> Z.to_N (t mod 4294967296) = Z.to_N t.
Proof.
  cbn [wf_fval]. intros H. apply andb_true_iff in H as [H0 H1]. apply Z.leb_le in H0. apply Z.ltb_lt in H1.
  rewrite Z.mod_small by lia. reflexivity.
Qed.

Lemma stat_record_enc fs : wf_dir fs = true -> stat_record fs = Some (enc_dir fs).
Proof.
  unfold wf_dir. rewrite !andb_true_iff. intros [[Hk Hw] Hl]. apply N.ltb_lt in Hl.
  assert (Hs : size_fvals fs = len (enc_fvals fs)) by (apply size_fvals_len; unfold M16, M32 in *; lia).
  unfold enc_dir. rewrite Hs. clear Hs Hl.
  cbn [map snd spec_dir_fields] in Hk. fields_f.
  cbn [forallb] in Hw. rewrite !andb_true_iff in Hw.
  destruct Hw as (_ & _ & _ & _ & Ht1 & Ht2 & _).
  unfold stat_record, enc_fvals. cbn [map concat enc_fval].
  rewrite (wf_time _ Ht1), (wf_time _ Ht2).
  unfold u16, u32, u64, s_, qid13, enc_qid, enc_str.
  rewrite ?app_nil_r, <- ?app_assoc. reflexivity.
Qed.

Lemma stat_n_enc fs : wf_dir fs = true -> stat_n fs = Some (le 2 (size_vals [VDir fs]) ++ enc_vals [VDir fs]).
Proof.
  intros H. unfold stat_n. rewrite stat_record_enc by exact H.
  unfold enc_vals. cbn [map concat enc_val]. rewrite app_nil_r.
  assert (Hl : len (enc_dir fs) < M32).
  { unfold wf_dir in H. rewrite !andb_true_iff in H. destruct H as [_ Hl]. apply N.ltb_lt in Hl.
    rewrite len_enc_dir. unfold M16, M32 in *. lia. }
  pose proof (size_vals_len [VDir fs]) as E. unfold enc_vals in E. cbn [map concat enc_val] in E.
  rewrite app_nil_r in E. rewrite E by exact Hl. reflexivity.
Qed.

Theorem layout_is_manual f : wf_fcall f = true -> spec_layout f = Some (enc_fcall f).
Proof.
  unfold wf_fcall. destruct (kinds_of_type (fc_type f)) as [ks|] eqn:K; [|discriminate].
  rewrite !andb_true_iff. intros [[[Hk Hw] Ht] Hl].
  destruct f as [ty tag vs]. cbn [fc_type fc_tag fc_fields] in *.
  apply assoc_N_In in K. unfold spec_kinds_table in K.
  unfold spec_layout, enc_fcall. cbn [fc_type fc_tag fc_fields].
  repeat (destruct K as [K|K]; [injection K as <- <-; fields_v;
      unfold spec_body, enc_msg, enc_vals, u8, u16, u32, u64, s_, qid13, enc_qid, enc_str;
      cbn [N.eqb Pos.eqb T_Rstat T_Twstat map concat enc_val enc_fval];
      rewrite ?app_nil_r, <- ?app_assoc; try reflexivity|]).
  (* the two messages carrying a stat *)
  all: try contradiction.
  - (* Rstat *)
    cbn [forallb wf_val] in Hw. rewrite andb_true_r in Hw.
    change (125 =? T_Rstat) with true. cbv iota.
    rewrite (stat_n_enc _ Hw). unfold enc_vals. cbn [map concat enc_val]. rewrite ?app_nil_r, <- ?app_assoc. reflexivity.
  - (* Twstat *)
    cbn [forallb wf_val] in Hw. rewrite andb_true_r in Hw. apply andb_true_iff in Hw as [_ Hw].
    change (126 =? T_Rstat) with false. change (126 =? T_Twstat) with true. cbv iota.
    rewrite (stat_n_enc _ Hw). unfold enc_vals. cbn [map concat enc_val enc_fval]. rewrite ?app_nil_r, <- ?app_assoc. reflexivity.
Qed.
