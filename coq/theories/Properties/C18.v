(* C18 - placeholder while the pipeline is brought up *)
From Coq Require Import List NArith ZArith Bool.
From P9 Require Import Base.Res Model.Path Model.Ramfs.
