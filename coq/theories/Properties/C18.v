(* C18 - The in-memory file server is a tree of byte arrays and never crashes.
   Only statements, each closed by [exact lemma], with Print Assumptions.
   The model (Model/Ramfs.v) is the model of the REPAIRED code (fix: commits
   34ebacc, d3563b4, 96eb152, 53d9ae4 in /repo; see design/C18.md). *)
From Coq Require Import List NArith ZArith Bool.
From P9 Require Import Base.Res Model.Path Model.Ramfs.
From P9 Require Import Proofs.RamfsProofs Proofs.RamfsProofsRef Proofs.RamfsProofsInv Proofs.RamfsProofsStep.
Import ListNotations.
Open Scope Z_scope.

(* ---- no request panics the server: all operation sequences over any number of
   sessions, all fids, all 64-bit offsets, all counts.  [run] would stop at a
   panic (or a hang); it never does: one ordinary result per operation. *)
Theorem C18_no_panic : forall nsess ops,
  Forall (fun r => r <> Panic /\ r <> Hang) (run (init_world nsess) ops) /\
  length (run (init_world nsess) ops) = length ops.
Proof. intros. split; [apply run_good | apply run_length]; apply init_inv. Qed.
Print Assumptions C18_no_panic.
