(* C18 - The in-memory file server is a tree of byte arrays and never crashes.
   Only statements, each closed by [exact lemma], with Print Assumptions.
   The model (Model/Ramfs.v) is the model of the REPAIRED code (fix: commits
   34ebacc, d3563b4, 96eb152, 53d9ae4 in /repo; see design/C18.md). *)
From Coq Require Import String.
From Coq Require Import List NArith ZArith Bool.
From P9 Require Import Base.Res Base.Sexp Model.Path Model.Ramfs.
From P9 Require Import Proofs.RamfsProofs Proofs.RamfsProofsRef Proofs.RamfsProofsInv Proofs.RamfsProofsStep Proofs.RamfsProofsSpec Proofs.RamfsProofsWalk Proofs.RamfsProofsLocks.
From P9 Require Import Gen.GenRamfsLocks.
Import ListNotations.
Open Scope Z_scope.

(* ---- no request panics the server: all operation sequences over any number of
   sessions, all fids, all 64-bit offsets, all counts.  [run] would stop at a
   panic (or a hang, which also stands for decref running out of fuel); it
   never does: one ordinary result per operation. *)
Theorem C18_no_panic : forall nsess ops,
  Forall (fun r => r <> Panic /\ r <> Hang) (run (init_world nsess) ops) /\
  length (run (init_world nsess) ops) = length ops.
Proof. intros. split; [apply run_good | apply run_length]; apply init_inv. Qed.
Print Assumptions C18_no_panic.

(* ---- reference counts: in every reachable state, for every node,
   nref = [root] + links from live parents + occurrences in the chains of bound fids *)
Theorem C18_refcount : forall nsess ops x,
  let w := run_world (init_world nsess) ops in
  n_ref (getn (wst w) x) =
    (if Nat.eqb x 0 then 1 else 0)
    + cnt (flat_map (fun n => if 0 <? n_ref n then child_ids n else []) (wst w)) x
    + cnt (flat_map hids (flat_map (fun t => map (fun e => f_h (snd e)) t) (w_sess w))) x.
Proof. exact reachable_refcount. Qed.
Print Assumptions C18_refcount.

(* when all fids are clunked every node's reference count equals its number of parent links *)
Theorem C18_refcount_all_clunked : forall nsess ops x,
  let w := run_world (init_world nsess) ops in
  Forall (fun t => t = []) (w_sess w) ->
  n_ref (getn (wst w) x) =
    (if Nat.eqb x 0 then 1 else 0)
    + cnt (flat_map (fun n => if 0 <? n_ref n then child_ids n else []) (wst w)) x.
Proof. exact clunked_refcount. Qed.
Print Assumptions C18_refcount_all_clunked.

Example C18_refcount_nonvacuous :
  let w := run_world (init_world 2)
             [OAttach 0 1 (str "u0"%string); OWalk 0 1 2 []; OCreate 0 2 (str "d"%string) (N.lor DMDIR 511) 0;
              OAttach 1 7 (str "u1"%string); OWalk 1 7 8 [str "d"%string]; OCreate 1 8 (str "f"%string) 438 2;
              OClunk 0 1; OClunk 0 2; OClunk 1 7; OClunk 1 8] in
  Forall (fun t => t = []) (w_sess w) /\ map n_ref (wst w) = [1; 1; 1] /\ length (wst w) = 3%nat.
Proof. vm_compute. repeat constructor. Qed.

(* ---- file content is a byte array *)

(* read(off, n) = firstn n (skipn off content), exactly for 0 <= off <= len *)
Theorem C18_bytes_read : forall data count off, 0 <= count ->
  (0 <= off <= zlen data ->
     ent_read data count off = Ok (firstn (Z.to_nat count) (skipn (Z.to_nat off) data))) /\
  ((exists d, ent_read data count off = Ok d) <-> 0 <= off <= zlen data).
Proof. intros. split; [apply ent_read_spec; auto | apply ent_read_ok_iff; auto]. Qed.
Print Assumptions C18_bytes_read.

(* write(off, p) splices or extends; it is rejected iff off lies beyond the end (or is negative as int64) *)
Theorem C18_bytes_write : forall data p off,
  (0 <= off <= zlen data ->
     ent_write data p off = Ok (firstn (Z.to_nat off) data ++ p ++ skipn (Z.to_nat off + length p) data)) /\
  ((exists d, ent_write data p off = Ok d) <-> 0 <= off <= zlen data).
Proof. intros. split; [apply ent_write_spec | apply ent_write_ok_iff]. Qed.
Print Assumptions C18_bytes_write.

(* after a write every position holds the byte most recently written there *)
Theorem C18_bytes_positions : forall content off p i d, (off <= length content)%nat ->
  nth i (spec_write content off p) d =
    (if (off <=? i)%nat && (i <? off + length p)%nat then nth (i - off) p d else nth i content d) /\
  length (spec_write content off p) = Nat.max (length content) (off + length p).
Proof. intros. split; [apply spec_write_nth | apply spec_write_length]; auto. Qed.
Print Assumptions C18_bytes_positions.

(* through a session: a read on a fid opened on file node x returns the bytes of x and changes nothing *)
Theorem C18_bytes_session_read : forall w s fid x mode off count,
  open_file_at w s fid x mode -> (N.land mode 3 =? 1)%N = false ->
  let data := n_data (getn (wst w) x) in
  fst (step w (ORead s fid off count)) = w /\
  ((s < length (w_sess w))%nat ->
   snd (step w (ORead s fid off count)) =
     if (0 <=? to_int64 off) && (to_int64 off <=? zlen data)
     then Ok (RData (spec_read data (Z.to_nat (to_int64 off)) (N.to_nat count)))
     else Err (if to_int64 off <? 0 then e_badoffset else e_eof)).
Proof.
  intros w s fid x mode off count H Hm. cbn zeta. unfold step. cbn [op_sess].
  destruct (negb (s <? length (w_sess w))%nat) eqn:Hs.
  - split; [reflexivity|]. intros Hlt. apply Nat.ltb_lt in Hlt. rewrite Hlt in Hs. discriminate.
  - destruct (sess_read_file w s fid x mode off count H Hm) as [A B]. split; auto.
Qed.
Print Assumptions C18_bytes_session_read.

(* a write on a fid opened for writing on file node x splices x's bytes and touches no other node *)
Theorem C18_bytes_session_write : forall w s fid x mode off p,
  open_file_at w s fid x mode -> (N.land mode 3 =? 1)%N || (N.land mode 3 =? 2)%N = true ->
  let data := n_data (getn (wst w) x) in
  let w' := fst (sess_write w s fid off p) in
  if (0 <=? to_int64 off) && (to_int64 off <=? zlen data)
  then snd (sess_write w s fid off p) = Ok (RCount (zlen p)) /\
       ((x < length (wst w))%nat -> n_data (getn (wst w') x) = spec_write data (Z.to_nat (to_int64 off)) p) /\
       (forall y, y <> x -> getn (wst w') y = getn (wst w) y) /\
       w_sess w' = w_sess w
  else w' = w /\ snd (sess_write w s fid off p) = Err (if to_int64 off <? 0 then e_badoffset else e_invalidaddr).
Proof. exact sess_write_file. Qed.
Print Assumptions C18_bytes_session_write.

Example C18_bytes_nonvacuous :
  run (init_world 1)
      [OAttach 0 0 (str "u"%string); OCreate 0 0 (str "f"%string) 438 2; OWrite 0 0 0 [1;2;3;4;5]%N; OWrite 0 0 3 [9;9;9;9]%N;
       ORead 0 0 1 4; ORead 0 0 7 10; ORead 0 0 8 1; ORead 0 0 9223372036854775808 1; OWrite 0 0 18446744073709551615 [1]%N]
  = [Ok (RQid (128, 1, 0)%N); Ok (RQid (0, 2, 0)%N); Ok (RCount 5); Ok (RCount 4);
     Ok (RData [2;3;9;9]%N); Ok (RData []); Err e_eof; Err e_badoffset; Err e_badoffset].
Proof. vm_compute. reflexivity. Qed.

(* ---- directory listings: '..' and exactly the children *)
Theorem C18_listing : forall s h l, fh_opendir s h = Ok l ->
  exists dd, l = set_name dd [DOT; DOT] :: map (fun c => n_info (getn s c)) (child_ids (getn s (h_ent h))) /\
    dd = n_info (getn s (last (h_parents h) (h_ent h))).
Proof. exact fh_opendir_listing. Qed.
Print Assumptions C18_listing.

(* the children map changes in three ways only:
   create links exactly one new name in the parent and changes no other node; *)
Theorem C18_listing_create : forall s p nm c s', link_child s p nm c = Ok s' ->
  exists cs, n_children (getn s p) = Some cs /\ lookup_child cs nm = None /\
    n_children (getn s' p) = Some (cs ++ [(nm, c)]) /\ (forall y, y <> p -> getn s' y = getn s y).
Proof. exact link_child_exact. Qed.
Print Assumptions C18_listing_create.

(* remove takes exactly the link name -> c out of the parent, and only while it still leads to c
   (a stale fid cannot remove a newer entry of the same name); *)
Theorem C18_listing_remove : forall s p nm c s', unlink_child s p nm c = Ok s' ->
  exists cs, n_children (getn s p) = Some cs /\ lookup_child cs nm = Some c /\
    n_children (getn s' p) = Some (remove_child cs nm) /\ (forall y, y <> p -> getn s' y = getn s y).
Proof. exact unlink_child_exact. Qed.
Print Assumptions C18_listing_remove.

(* releasing references clears the children of a node only when its count goes from positive to 0,
   and never touches names, metadata or bytes. *)
Theorem C18_listing_release : forall fuel s x s', decref fuel s x = Some s' ->
  forall y, n_info (getn s' y) = n_info (getn s y) /\ n_data (getn s' y) = n_data (getn s y) /\
            n_ref (getn s' y) <= n_ref (getn s y) /\
            (n_children (getn s' y) = n_children (getn s y) \/
             (n_children (getn s' y) = None /\ n_ref (getn s' y) <= 0 /\ 0 < n_ref (getn s y))).
Proof. exact decref_effect. Qed.
Print Assumptions C18_listing_release.

(* ---- walks (including '..') resolve as in a plain tree walk: [spec_walk] goes one name
   at a time over the chain root..entry by which the fid arrived - '..' drops the
   last element (the entry the fid came through, also when that link has since been
   removed), a name looks the child up in the current entry.  FileHandle.Walk's
   index arithmetic returns exactly the entries passed (as qids), and binds the new
   handle to the final chain iff every name resolved. *)
Theorem C18_walk : forall s h names qids oh s',
  fh_walk s h names = Ok (qids, oh, s') ->
  let '(v, f) := spec_walk s (hids h) names in
  qids = map (fun a => qid_of (n_info (getn s a))) v /\
  match oh with
  | Some h2 => f = Some (hids h2) /\ length v = length names
  | None => f = None /\ s' = s
  end.
Proof. exact fh_walk_spec'. Qed.
Print Assumptions C18_walk.

Example C18_walk_nonvacuous :
  run (init_world 1)
      [OAttach 0 0 (str "u"%string); OWalk 0 0 1 []; OCreate 0 1 (str "d"%string) (N.lor DMDIR 511) 0;
       OWalk 0 0 2 [str "d"%string]; OWalk 0 2 3 []; OCreate 0 3 (str "f"%string) 438 2;
       OWalk 0 2 4 [str ".."%string; str "d"%string; str "f"%string];
       OWalk 0 2 5 [str ".."%string; str "d"%string; str "x"%string];
       OWalk 0 2 6 [str ".."%string; str ".."%string]]
  = [Ok (RQid (128, 1, 0)%N); Ok (RQids []); Ok (RQid (128, 2, 0)%N);
     Ok (RQids [(128, 2, 0)%N]); Ok (RQids []); Ok (RQid (0, 3, 0)%N);
     Ok (RQids [(128, 1, 0)%N; (128, 2, 0)%N; (0, 3, 0)%N]);
     Ok (RQids [(128, 1, 0)%N; (128, 2, 0)%N]);
     Err e_invalidpath].
Proof. vm_compute. reflexivity. Qed.

(* ---- concurrent sessions: lock discipline of the CURRENT source of /repo/ramfs.
   [ramfs_accesses] is regenerated from the source on every run (translator
   harness/cmd/gen/ramfslocks.go): one entry per access to FileEnt.nref /
   .children / .Info / .Data or fServer.lastpath, with how it is protected at
   that program point ("lock": the entry's mutex is held; "atomic"; "fresh": the
   object is not yet published; "NONE").  Data-race freedom in the Go memory
   model's sense is not expressible here; this is the lockset discipline that
   implies it for these fields, and the -race runs of the harness search for
   counterexamples (design/C18.md). *)
Theorem C18_lockset : Forall (fun a => la_how a <> "NONE"%string) ramfs_accesses.
Proof. exact lockset_holds. Qed.
Print Assumptions C18_lockset.

Example C18_lockset_nonvacuous :
  forallb (fun f => existsb (fun a => String.eqb (la_field a) f) ramfs_accesses)
          ["nref"; "children"; "Info"; "Data"; "lastpath"]%string = true.
Proof. exact lockset_covers. Qed.
