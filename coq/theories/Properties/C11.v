(* C11 - server shutdown is prompt, complete and crash-free at any moment.
   Same model and notation as C06.v.  [fault s]: the conn has been closed (read error, write error, peer
   close - all end in CloseWithError) or the serving context is done.  OReturn: the serve loop leaves
   serve(); OStop: ServeConn calls handler.Stop.
   PARTIAL clause: "within bounded time" is wall-clock.  Proved here: in every fault state the loop's own
   transition to return is enabled whatever it is blocked in, afterwards every handler goroutine whose
   Handle has returned can leave by itself, and then Stop is enabled - at most 1 + (number of handlers) + 1
   own steps, each irreversible, none needing anybody else except the handlers' own return (the property's
   premise).  That these enabled steps are taken promptly is Go's scheduler; the harness supports it by
   detecting quiescence without return. *)
From Coq Require Import List NArith Bool.
From stdpp Require Import gmap.
From P9 Require Import Model.Serve Proofs.ServeProofs Proofs.ServeProofs2 Proofs.ServeProofs3 Proofs.ServeProofs4 Proofs.ServeProofs5 Proofs.ServeWitness.
Import ListNotations.
Open Scope N_scope.

(* 1a. no stuck state: in EVERY state with a fault in which the loop has not returned - idle, blocked
       sending a duplicate-tag / flush reply, or blocked handing over a completed response - its own
       transition "return" is enabled *)
Theorem C11_no_stuck_partial : forall s, fault s = true -> pc s <> PReturned ->
  exists s' o, step R s EReturn = Some (s', o) /\ pc s' = PReturned /\ In OReturn o.
Proof. exact no_stuck_return. Qed.
Print Assumptions C11_no_stuck_partial.

(* 1b. after the return, every handler goroutine whose Handle has returned can leave on its own *)
Theorem C11_no_stuck_handler : forall evs s tr, run R init evs = Some (s, tr) ->
  forall rid h r, pc s = PReturned -> hs s !! rid = Some h -> h_st h = HFin r ->
  exists s', step R s (EGiveUp rid) = Some (s', []).
Proof. exact ev_no_stuck_handler. Qed.
Print Assumptions C11_no_stuck_handler.

(* 1c. and when they have all left, Stop is enabled *)
Theorem C11_no_stuck_stop : forall s, pc s = PReturned -> stops s = 0 -> all_gone s = true ->
  exists s', step R s EStop = Some (s', [OStop]) /\ stops s' = 1.
Proof. exact no_stuck_stop. Qed.
Print Assumptions C11_no_stuck_stop.

(* 1d. progress is irreversible: returned stays returned, a goroutine that left stays gone *)
Theorem C11_returned_stable : forall s e s' o, step R s e = Some (s', o) -> pc s = PReturned -> pc s' = PReturned.
Proof. exact returned_stable. Qed.
Print Assumptions C11_returned_stable.

Theorem C11_gone_stable : forall evs s tr, run R init evs = Some (s, tr) ->
  forall e s' o rid h, step R s e = Some (s', o) -> hs s !! rid = Some h -> h_st h = HGone ->
  exists h', hs s' !! rid = Some h' /\ h_st h' = HGone.
Proof. exact ev_gone_stable. Qed.
Print Assumptions C11_gone_stable.

(* 1e. the variant: [shutdown_measure] = (1 if the loop has not returned) + (handler goroutines that have not
       left) + (1 if Stop has not run).  Each own shutdown step (EReturn, EGiveUp, EStop) decreases it
       strictly; once the loop has returned NO event increases it.  So from any fault state serving is over
       after at most shutdown_measure own steps, given that the Handle calls return (EFinish, the premise). *)
Theorem C11_variant_decreases : forall s e s' o, step R s e = Some (s', o) -> shutdown_step e ->
  (shutdown_measure s' < shutdown_measure s)%nat.
Proof. exact variant_decreases. Qed.
Print Assumptions C11_variant_decreases.

Theorem C11_variant_monotone : forall s e s' o, step R s e = Some (s', o) -> pc s = PReturned ->
  (shutdown_measure s' <= shutdown_measure s)%nat.
Proof. exact variant_monotone. Qed.
Print Assumptions C11_variant_monotone.

(* 2. cancel-all: once the loop has returned, every handler still in flight has a cancelled context *)
Theorem C11_cancel_all : forall evs s tr, run R init evs = Some (s, tr) -> In OReturn tr ->
  forall rid h, hs s !! rid = Some h -> h_st h <> HGone -> In (OCancel rid) tr.
Proof. exact ev_cancel_all. Qed.
Print Assumptions C11_cancel_all.

(* 3. Stop at most once (exactly once when 1c fires), only after the return, only when no handler is in flight *)
Theorem C11_stop_once : forall evs s tr, run R init evs = Some (s, tr) ->
  (stop_count tr <= 1)%nat /\
  (In OStop tr -> In OReturn tr /\ forall rid h, hs s !! rid = Some h -> h_st h = HGone).
Proof. exact ev_stop_once. Qed.
Print Assumptions C11_stop_once.

Theorem C11_stop_after_return : forall evs s tr, run R init evs = Some (s, tr) ->
  forall e s' o, step R s e = Some (s', o) -> In OStop o -> In OReturn tr /\ ~ In OStop tr /\ all_gone s = true.
Proof. exact ev_stop_after_return. Qed.
Print Assumptions C11_stop_after_return.

(* 4. the serve-side half of "nothing bound after stop": after Stop, for EVERY later event list, no
      handler is dispatched and none returns - no session operation runs concurrently with or after
      Stop, so what Stop released stays released.  (That session.Stop clunks every bound fid is the
      session model's theorem; the harness checks the composition on the real SFileSys session.) *)
Theorem C11_quiet_after_stop : forall evs s tr, run R init evs = Some (s, tr) -> stops s = 1 ->
  forall later s' tr', run R s later = Some (s', tr') ->
  forall x, In x tr' -> (forall rid m, x <> ODispatch rid m) /\ (forall rid r, x <> OFin rid r) /\ x <> OStop.
Proof. exact ev_quiet_after_stop. Qed.
Print Assumptions C11_quiet_after_stop.

(* non-vacuity: a fault state with a handler in flight; the write-failure state in which the repaired
   loop can return; a complete shutdown with Stop after the handler left *)
Example C11_example_fault : exists s tr, run R init run_fault = Some (s, tr) /\ fault s = true /\ pc s <> PReturned /\
  exists h, hs s !! 0 = Some h /\ h_st h = HRun.
Proof. exact ex_run_fault. Qed.
Print Assumptions C11_example_fault.

Example C11_example_wfail : exists s tr, run R init run_wfail = Some (s, tr) /\
  closed s = true /\ pc s <> PReturned /\ exists s' o, step R s EReturn = Some (s', o).
Proof. exact repaired_not_stuck. Qed.
Print Assumptions C11_example_wfail.

Example C11_example_shutdown : run R init run_stop_early = None /\
  exists s tr, run R init [ESend 0 1 (KReq m1); EReaderGet; EArrive; ECtxCancel; EReturn; EFinish 0 resA; EGiveUp 0; EStop] = Some (s, tr)
    /\ stops s = 1 /\ In OReturn tr /\ In (OCancel 0) tr.
Proof. exact repaired_stop_waits. Qed.
Print Assumptions C11_example_shutdown.

(* the code as found refuted 1a (D6: blocked for ever in `responses <- resp` after the writer died) and
   4 (D13: Stop while a handler is in flight, which returns afterwards) *)
Example C11_legacy_stuck : exists s tr, run legacy init run_wfail = Some (s, tr) /\
  closed s = true /\ pc s <> PReturned /\ quiescent legacy s = true /\ all_gone s = true /\ step legacy s EReturn = None.
Proof. exact legacy_stuck. Qed.
Print Assumptions C11_legacy_stuck.

Example C11_legacy_stop_early : exists s tr, run legacy init run_stop_early = Some (s, tr) /\
  exists a b, tr = a ++ OStop :: b /\ In (OFin 0 resA) b.
Proof. exact legacy_stop_early. Qed.
Print Assumptions C11_legacy_stop_early.
