(* C11 - server shutdown is prompt, complete and crash-free at any moment.
   Same model and notation as C06.v.  [fault s]: the conn has been closed (read error, write error, peer
   close - all end in CloseWithError) or the serving context is done.  OReturn: the serve loop leaves
   serve(); OStop: ServeConn calls handler.Stop.
   PARTIAL clause: "within bounded time" is wall-clock.  Proved here: in every fault state the loop's own
   transition to return is enabled whatever it is blocked in, afterwards every handler goroutine whose
   Handle has returned can leave by itself, and then Stop is enabled - at most 1 + (number of handlers) + 1
   own steps, each irreversible, none needing anybody else except the handlers' own return (the property's
   premise).  That these enabled steps are taken promptly is Go's scheduler; the harness supports it by
   detecting quiescence without return. *)
From Coq Require Import List NArith Bool.
From stdpp Require Import gmap.
From P9 Require Import Model.Serve Proofs.ServeProofs Proofs.ServeProofs2 Proofs.ServeProofs3 Proofs.ServeProofs4 Proofs.ServeProofs5 Proofs.ServeWitness.
Import ListNotations.
Open Scope N_scope.

(* 1a. no stuck state: in EVERY state with a fault in which the loop has not returned - idle, blocked
       sending a duplicate-tag / flush reply, or blocked handing over a completed response - its own
       transition "return" is enabled *)
Theorem C11_no_stuck_partial : forall s, fault s = true -> pc s <> PReturned ->
  exists s' o, step R s EReturn = Some (s', o) /\ pc s' = PReturned /\ In OReturn o.
Proof. exact no_stuck_return. Qed.
Print Assumptions C11_no_stuck_partial.

(* 1b. after the return, every handler goroutine whose Handle has returned can leave on its own *)
Theorem C11_no_stuck_handler : forall evs s tr, run R init evs = Some (s, tr) ->
  forall rid h r, pc s = PReturned -> hs s !! rid = Some h -> h_st h = HFin r ->
  exists s', step R s (EGiveUp rid) = Some (s', []).
Proof. exact ev_no_stuck_handler. Qed.
Print Assumptions C11_no_stuck_handler.

(* 1c. and when they have all left, Stop is enabled *)
Theorem C11_no_stuck_stop : forall s, pc s = PReturned -> stops s = 0 -> all_gone s = true ->
  exists s', step R s EStop = Some (s', [OStop]) /\ stops s' = 1.
Proof. exact no_stuck_stop. Qed.
Print Assumptions C11_no_stuck_stop.

(* 1d. progress is irreversible: returned stays returned, a goroutine that left stays gone *)
Theorem C11_returned_stable : forall s e s' o, step R s e = Some (s', o) -> pc s = PReturned -> pc s' = PReturned.
Proof. exact returned_stable. Qed.
Print Assumptions C11_returned_stable.

Theorem C11_gone_stable : forall evs s tr, run R init evs = Some (s, tr) ->
  forall e s' o rid h, step R s e = Some (s', o) -> hs s !! rid = Some h -> h_st h = HGone ->
  exists h', hs s' !! rid = Some h' /\ h_st h' = HGone.
Proof. exact ev_gone_stable. Qed.
Print Assumptions C11_gone_stable.

(* 1e. the variant: [shutdown_measure] = (1 if the loop has not returned) + (handler goroutines that have not
       left) + (1 if Stop has not run).  Each own shutdown step (EReturn, EGiveUp, EStop) decreases it
       strictly; once the loop has returned NO event increases it.  So from any fault state serving is over
       after at most shutdown_measure own steps, given that the Handle calls return (EFinish, the premise). *)
Theorem C11_variant_decreases : forall s e s' o, step R s e = Some (s', o) -> shutdown_step e ->
  (shutdown_measure s' < shutdown_measure s)%nat.
Proof. exact variant_decreases. Qed.
Print Assumptions C11_variant_decreases.

Theorem C11_variant_monotone : forall s e s' o, step R s e = Some (s', o) -> pc s = PReturned ->
  (shutdown_measure s' <= shutdown_measure s)%nat.
Proof. exact variant_monotone. Qed.
Print Assumptions C11_variant_monotone.

(* 2. cancel-all: once the loop has returned, every handler still in flight has a cancelled context *)
Theorem C11_cancel_all : forall evs s tr, run R init evs = Some (s, tr) -> In OReturn tr ->
  forall rid h, hs s !! rid = Some h -> h_st h <> HGone -> In (OCancel rid) tr.
Proof. exact ev_cancel_all. Qed.
Print Assumptions C11_cancel_all.

(* 3. Stop at most once (exactly once when 1c fires), only after the return, only when no handler is in flight *)
Theorem C11_stop_once : forall evs s tr, run R init evs = Some (s, tr) ->
  (stop_count tr <= 1)%nat /\
  (In OStop tr -> In OReturn tr /\ forall rid h, hs s !! rid = Some h -> h_st h = HGone).
Proof. exact ev_stop_once. Qed.
Print Assumptions C11_stop_once.

Theorem C11_stop_after_return : forall evs s tr, run R init evs = Some (s, tr) ->
  forall e s' o, step R s e = Some (s', o) -> In OStop o -> In OReturn tr /\ ~ In OStop tr /\ all_gone s = true.
Proof. exact ev_stop_after_return. Qed.
Print Assumptions C11_stop_after_return.

(* 4. the serve-side half of "nothing bound after stop": after Stop, for EVERY later event list, no
      handler is dispatched and none returns - no session operation runs concurrently with or after
      Stop, so what Stop released stays released.  (That session.Stop clunks every bound fid is the
      session model's theorem; the two are composed in section 5 below, C11_released_after_stop; the
      harness checks the same on the real SFileSys session.) *)
Theorem C11_quiet_after_stop : forall evs s tr, run R init evs = Some (s, tr) -> stops s = 1 ->
  forall later s' tr', run R s later = Some (s', tr') ->
  forall x, In x tr' -> (forall rid m, x <> ODispatch rid m) /\ (forall rid r, x <> OFin rid r) /\ x <> OStop.
Proof. exact ev_quiet_after_stop. Qed.
Print Assumptions C11_quiet_after_stop.

(* non-vacuity: a fault state with a handler in flight; the write-failure state in which the repaired
   loop can return; a complete shutdown with Stop after the handler left *)
Example C11_example_fault : exists s tr, run R init run_fault = Some (s, tr) /\ fault s = true /\ pc s <> PReturned /\
  exists h, hs s !! 0 = Some h /\ h_st h = HRun.
Proof. exact ex_run_fault. Qed.
Print Assumptions C11_example_fault.

Example C11_example_wfail : exists s tr, run R init run_wfail = Some (s, tr) /\
  closed s = true /\ pc s <> PReturned /\ exists s' o, step R s EReturn = Some (s', o).
Proof. exact repaired_not_stuck. Qed.
Print Assumptions C11_example_wfail.

Example C11_example_shutdown : run R init run_stop_early = None /\
  exists s tr, run R init [ESend 0 1 (KReq m1); EReaderGet; EArrive; ECtxCancel; EReturn; EFinish 0 resA; EGiveUp 0; EStop] = Some (s, tr)
    /\ stops s = 1 /\ In OReturn tr /\ In (OCancel 0) tr.
Proof. exact repaired_stop_waits. Qed.
Print Assumptions C11_example_shutdown.

(* the code as found refuted 1a (D6: blocked for ever in `responses <- resp` after the writer died) and
   4 (D13: Stop while a handler is in flight, which returns afterwards) *)
Example C11_legacy_stuck : exists s tr, run legacy init run_wfail = Some (s, tr) /\
  closed s = true /\ pc s <> PReturned /\ quiescent legacy s = true /\ all_gone s = true /\ step legacy s EReturn = None.
Proof. exact legacy_stuck. Qed.
Print Assumptions C11_legacy_stuck.

Example C11_legacy_stop_early : exists s tr, run legacy init run_stop_early = Some (s, tr) /\
  exists a b, tr = a ++ OStop :: b /\ In (OFin 0 resA) b.
Proof. exact legacy_stop_early. Qed.
Print Assumptions C11_legacy_stop_early.

(* ------------------------------------------------------------------------------------------------
   5. The last clause, composed: "after stop, and once in-flight handlers have returned, no fid remains
      bound: every file-system entry the session held has been released exactly once".

   Model/ServeSession.v is ONE transition system in which the Handler behind the loop above IS the session
   of Model/Session.v (sfilesys.go): ODispatch starts a session operation, [CFinish rid ts] (the handler's
   return) applies that operation's [sstep] to the shared session state under the file-system answers [ts],
   and the loop's OStop output performs session.Stop.  [crun] runs a list of composed events; [cd] is the
   request -> operation / result -> reply mapping of sessionHandler.Handle, universally quantified.
   Operations are applied atomically at the handler's return; that concurrent operations are atomic per
   fid is C14's statement.

     c_sv c / c_ss c      the serve state / the session state of the composed state c
     c_log c              (ghost) the session operations applied so far, oldest first, with their FS answers
     VStop / SStop        Serve.v's output "handler.Stop called" / Session.v's operation Stop
     after ops            Session.v: the session after running ops from the empty session (C13.v)
     B s f e, rel s, bound_ever s, bad_use s   as in C13.v

   For EVERY codec, EVERY composed event list (any requests, flushes, duplicate tags, any completion order,
   a read error / write error / context cancellation at any moment, any file-system behaviour) in whose
   trace Stop occurs: *)
From P9 Require Import Model.Session Model.FidSpec Model.ServeSession
  Proofs.SessionProofs Proofs.SessionGhost Proofs.SessionClauses Proofs.ServeSessionProofs Proofs.ServeSessionWitness.

Theorem C11_released_after_stop : forall cd evs c tr, crun R cd cinit evs = Some (c, tr) -> In VStop tr ->
  (* the session saw a sequential stop-free history followed by exactly one Stop, its last operation:
     C13_stop and C08_stop_empties apply to it as they stand *)
  (exists ops, no_stop ops /\ c_log c = ops ++ [(SStop, [])] /\ c_ss c = after (ops ++ [(SStop, [])]) /\
               bound_ever (c_ss c) = bound_ever (after ops)) /\
  (* (a) no fid remains bound: the fid table is empty *)
  refs (c_ss c) = ∅ /\ (forall f e, ~ B (c_ss c) f e) /\
  (* (b) every entry ever bound to a fid has been released - exactly once - and not used afterwards *)
  NoDup (rel (c_ss c)) /\ (forall e, e ∈ bound_ever (c_ss c) -> e ∈ rel (c_ss c)) /\ bad_use (c_ss c) = [] /\
  (* (d) Stop ran exactly once, after the loop returned, when no handler goroutine was left *)
  stop_count tr = 1%nat /\ In OReturn tr /\ (forall rid h, hs (c_sv c) !! rid = Some h -> h_st h = HGone).
Proof. exact released_after_stop. Qed.
Print Assumptions C11_released_after_stop.

(* (c) and from then on, for EVERY later event list, the session is not touched: no operation is applied
       (so nothing is bound later), no handler returns, no second Stop *)
Theorem C11_session_frozen_after_stop : forall cd evs c tr, crun R cd cinit evs = Some (c, tr) -> In VStop tr ->
  forall later c' tr', crun R cd c later = Some (c', tr') ->
    c_ss c' = c_ss c /\ c_log c' = c_log c /\ ~ In VStop tr' /\ (forall rid r, ~ In (OFin rid r) tr').
Proof. exact frozen_after_stop. Qed.
Print Assumptions C11_session_frozen_after_stop.

(* before Stop the session of the composed system is a session reachable in Session.v by a sequential
   stop-free operation list (its log): every C08/C13 theorem over [reach] / [after] holds of it *)
Theorem C11_session_sequential : forall cd evs c tr, crun R cd cinit evs = Some (c, tr) -> ~ In VStop tr ->
  SessionClauses.reach (c_ss c) /\ no_stop (c_log c) /\ c_ss c = after (c_log c).
Proof. exact session_reach. Qed.
Print Assumptions C11_session_sequential.

(* the serve component of a composed run is a run of Serve.v with the same outputs: theorems 1-4 above
   (and C06, C07) hold of the composed system *)
Theorem C11_composed_refines_serve : forall v cd evs c c' tr, crun v cd c evs = Some (c', tr) ->
  exists sevs, run v (c_sv c) sevs = Some (c_sv c', tr) /\ length sevs = length evs.
Proof. exact crun_serve. Qed.
Print Assumptions C11_composed_refines_serve.

(* the property's premise "once in-flight handlers have returned" is not defeated by the session: while a
   handler is running its Handle can return, whatever the file system answers (no Session call hangs) *)
Theorem C11_handler_can_return : forall cd evs c tr, crun R cd cinit evs = Some (c, tr) ->
  forall rid h, hs (c_sv c) !! rid = Some h -> h_st h = HRun ->
  forall ts, exists c' o, cstep R cd c (CFinish rid ts) = Some (c', o).
Proof. exact handler_can_return. Qed.
Print Assumptions C11_handler_can_return.

(* non-vacuity: fids 0 and 1 bound, a Twalk 0 -> 2 in flight when the read side fails; Stop is not enabled
   while it is; it returns after the loop has, binding fid 2; then Stop releases all three entries once *)
Example C11_example_composed_fault : exists c tr, crun R demo_codec cinit (cs_prefix walk_a) = Some (c, tr) /\
  fault (c_sv c) = true /\ bound_fids c = [(0, 0); (1, 1)] /\ released (c_ss c) = [] /\
  (exists h, hs (c_sv c) !! 2 = Some h /\ h_st h = HRun) /\
  cstep R demo_codec c (CEv EStop) = None /\
  crun R demo_codec cinit (cs_prefix walk_a ++ [CEv EReturn; CEv EStop]) = None.
Proof. exact ex_composed_fault. Qed.
Print Assumptions C11_example_composed_fault.

Example C11_example_composed_shutdown : exists c tr, crun R demo_codec cinit (cs_prefix walk_a ++ cs_shutdown) = Some (c, tr) /\
  In VStop tr /\ In (OFin 2 (RMsg [111; 1])) tr /\
  bound_fids c = [] /\ table (c_ss c) = [] /\
  released (c_ss c) = [(0, RcStop); (1, RcStop); (2, RcStop)] /\ bound_ever (c_ss c) = [2; 1; 0] /\
  release_count c 0 = 1%nat /\ release_count c 1 = 1%nat /\ release_count c 2 = 1%nat /\
  c_log c = [(OAttach 0 NOFID, [Tok 0 true 0]); (OWalk 0 1 [], [Tok 0 true 0]);
             (OWalk 0 2 [[97]], [Tok 0 false 1]); (SStop, [])].
Proof. exact ex_composed_shutdown. Qed.
Print Assumptions C11_example_composed_shutdown.

(* D13 in the composed system: on the legacy loop Stop runs while a Tattach is in flight; it returns
   afterwards, binds fid 2, and entry 2 is never released *)
Example C11_legacy_bound_after_stop : exists c tr,
  crun legacy demo_codec cinit (cs_prefix attach2 ++ [CEv EReturn; CEv EStop; CFinish 2 [Tok 0 true 0]; CEv (EGiveUp 2)]) = Some (c, tr) /\
  In VStop tr /\ bound_fids c = [(2, 2)] /\ release_count c 2 = 0%nat /\ bound_ever (c_ss c) = [2; 1; 0] /\
  exists a b, c_log c = a ++ (SStop, []) :: (OAttach 2 NOFID, [Tok 0 true 0]) :: b.
Proof. exact legacy_bound_after_stop. Qed.
Print Assumptions C11_legacy_bound_after_stop.
