(* C11 - placeholder while the proofs are being written *)
From P9 Require Import Model.Serve.
