(* C09 - A session served over a connection is indistinguishable from the session.
   Only statements, each closed by [exact lemma], with Print Assumptions.

   gen_client / gen_server / gen_msg_table / gen_errors / gen_owner_loop_writes
   are REGENERATED from csession.go, ssesssion.go, messages.go, errors.go and
   transport.go on every run; the theorems are re-checked against what the
   source says now.  [transfer] is what the connection does to a frame
   (framing + codec, C01-C03): the theorems ask only that the frames in
   question arrive as sent. *)
From Coq Require Import List NArith ZArith Bool String Lia.
From P9 Require Import Base.Res Base.Sexp Model.WireTypes Gen.GenWire Gen.GenDispatch
  Model.Pipeline Model.Flow Proofs.PipelineProofs Proofs.FlowProofs.
Import ListNotations.
Open Scope Z_scope.

(* 1. Arguments.  For every method of the client, all well-typed arguments,
   every connection msize in [24, 2^31) and every msize' the served session
   reports: if the call passes the client's guards (at most 16 walk names) and
   its request fits msize (reads and writes always do: they are clipped), the
   served session is called - through the generated client table, the two
   maybeTruncate passes and the generated server table - with exactly the
   caller's arguments, up to the documented limits [clip_args] (read count,
   write data, whole-second 32-bit timestamps; offsets cross as
   uint64(int64) and back unchanged). *)
Theorem C09_request : forall (transfer : message -> res message) msize smsize m args,
  In m gen_client -> wf_args m args -> 24 <= msize < 2 ^ 31 ->
  first_guard args (cm_guards m) = None ->
  request_fits msize m args ->
  (forall q, frame_sent msize m args = Some q -> transfer q = Ok q) ->
  exists c, In c gen_server /\ sc_method c = cm_name m /\
    request_path transfer msize smsize m args
    = Ok (inr (SCall c (clip_args msize smsize (cm_name m) args))).
Proof. exact request_identity. Qed.
Print Assumptions C09_request.

(* closed range facts *)
Ltac rng := vm_compute; split; [let Hx := fresh in intro Hx; discriminate Hx | first [reflexivity | let Hy := fresh in intro Hy; discriminate Hy]].

(* non-vacuity: a Read of 1000 bytes at offset -1 over msize 100 served by a
   session reporting msize 50 satisfies every premise and reaches the session
   as Read(fid, 39-byte buffer, -1) *)
Example C09_request_nonvacuous :
  exists m c, find_client "Read" = Some m /\ In m gen_client /\
    wf_args m [GInt 4294967295; GBuf 1000; GInt (-1)] /\
    first_guard [GInt 4294967295; GBuf 1000; GInt (-1)] (cm_guards m) = None /\
    request_fits 100 m [GInt 4294967295; GBuf 1000; GInt (-1)] /\
    (forall q, frame_sent 100 m [GInt 4294967295; GBuf 1000; GInt (-1)] = Some q -> transfer_id q = Ok q) /\
    request_path transfer_id 100 50 m [GInt 4294967295; GBuf 1000; GInt (-1)]
    = Ok (inr (SCall c [GInt 4294967295; GBuf 39; GInt (-1)])).
Proof.
  eexists. eexists. split; [reflexivity |]. split; [cbn; tauto |].
  split.
  { unfold wf_args. cbn [cm_params].
    constructor; [apply HKInt; rng |]. constructor; [apply HKBuf; rng |].
    constructor; [apply HKInt; rng |]. constructor. }
  split; [reflexivity |]. split; [left; reflexivity |]. split; [intros; reflexivity |].
  vm_compute. reflexivity.
Qed.

(* 2. Results.  Whatever the served session returns for the call it received
   - values or an error - the caller gets exactly that: values unchanged,
   errors as a MessageRerror carrying the error's text, with the three
   documented projections of [expected] (empty read = EOF, short write,
   whole-second timestamps), provided the reply frame fits msize and arrives
   as sent. *)
Theorem C09_reply : forall (transfer : message -> res message) msize m c args sargs o,
  In m gen_client -> find_server (cm_req m) = Some c ->
  result_wf m args sargs o ->
  (forall r, server_reply c sargs o = Ok r -> msg_size r <= msize /\ transfer r = Ok r) ->
  reply_path transfer msize m c args sargs o = Ok (expected m args o).
Proof. exact reply_identity. Qed.
Print Assumptions C09_reply.

Example C09_reply_nonvacuous :
  exists m c, find_client "Read" = Some m /\ find_server (cm_req m) = Some c /\
    result_wf m [GInt 1; GBuf 1000; GInt 0] [GInt 1; GBuf 39; GInt 0]
      {| o_vals := [GInt 3]; o_out := [7; 8; 9]%N; o_err := ENil |} /\
    reply_path transfer_id 100 m c [GInt 1; GBuf 1000; GInt 0] [GInt 1; GBuf 39; GInt 0]
      {| o_vals := [GInt 3]; o_out := [7; 8; 9]%N; o_err := ENil |}
    = Ok {| o_vals := [GInt 3]; o_out := [7; 8; 9]%N; o_err := ENil |}
    /\ reply_path transfer_id 100 m c [GInt 1; GBuf 1000; GInt 0] [GInt 1; GBuf 39; GInt 0]
      {| o_vals := []; o_out := []; o_err := EPlain (str "no such file") |}
    = Ok {| o_vals := [GInt 0]; o_out := []; o_err := ERerror (str "no such file") |}.
Proof.
  eexists. eexists. split; [reflexivity |]. split; [reflexivity |]. split.
  { intros _. split; [cbn [cm_results o_vals]; constructor; [apply HKInt; rng | constructor] |].
    split.
    - intros _. exists 39. split; [reflexivity |]. split; [reflexivity |]. rng.
    - intros Hx. discriminate Hx. }
  split; vm_compute; reflexivity.
Qed.

(* 1'/2'. The same two statements with the connection instantiated by the codec
   model of C01 (encode, decode): the "arrives as sent" premises become the
   decidable well-formedness of the frames (strings below 2^16 bytes, bytes
   below 256, field values in range, Dir below 2^16, frame below 2^32). *)
Theorem C09_request_wire : forall tag msize smsize m args,
  In m gen_client -> wf_args m args -> 24 <= msize < 2 ^ 31 ->
  first_guard args (cm_guards m) = None ->
  request_fits msize m args ->
  (forall q, frame_sent msize m args = Some q -> Wire.wf_fcall (as_fcall tag q) = true) ->
  exists c, In c gen_server /\ sc_method c = cm_name m /\
    request_path (wire_transfer tag) msize smsize m args
    = Ok (inr (SCall c (clip_args msize smsize (cm_name m) args))).
Proof. exact request_identity_wire. Qed.
Print Assumptions C09_request_wire.

Theorem C09_reply_wire : forall tag msize m c args sargs o,
  In m gen_client -> find_server (cm_req m) = Some c ->
  result_wf m args sargs o ->
  (forall r, server_reply c sargs o = Ok r -> msg_size r <= msize /\ Wire.wf_fcall (as_fcall tag r) = true) ->
  reply_path (wire_transfer tag) msize m c args sargs o = Ok (expected m args o).
Proof. exact reply_identity_wire. Qed.
Print Assumptions C09_reply_wire.

(* non-vacuity, through the actual encoder and decoder of the codec model: a
   Create with DMDIR|0755 and mode 0x12 *)
Example C09_request_wire_nonvacuous :
  exists m c q, find_client "Create" = Some m /\
    frame_sent 8192 m [GInt 7; GStr (str "dir"); GInt 2147484141; GInt 18] = Some q /\
    Wire.wf_fcall (as_fcall 65534 q) = true /\
    request_path (wire_transfer 65534) 8192 8192 m [GInt 7; GStr (str "dir"); GInt 2147484141; GInt 18]
    = Ok (inr (SCall c [GInt 7; GStr (str "dir"); GInt 2147484141; GInt 18])).
Proof.
  eexists. eexists. eexists. split; [reflexivity |]. split; [vm_compute; reflexivity |].
  split; vm_compute; reflexivity.
Qed.

(* an Rerror passes as the call's error for every method; a reply of any type
   other than the asserted one is refused *)
Theorem C09_rerror_passes : forall m args ename,
  client_result m args (rerror_type, [VF (FStr ename)]) = Ok (zero_outcome m (ERerror ename)).
Proof. exact rerror_passes. Qed.
Print Assumptions C09_rerror_passes.

Theorem C09_wrong_reply_type : forall m args t vs,
  In m gen_client -> t <> rerror_type -> t <> type_of (cm_rep m) ->
  client_result m args (t, vs) = Ok (zero_outcome m (ERerror (err_ename "ErrUnexpectedMsg"))).
Proof. exact wrong_type_refused. Qed.
Print Assumptions C09_wrong_reply_type.

Example C09_wrong_reply_type_nonvacuous :
  err_ename "ErrUnexpectedMsg" = str "unexpected message" /\
  exists m, find_client "Stat" = Some m /\
    client_result m [GInt 1] (type_of "MessageRclunk", [])
    = Ok (zero_outcome m (ERerror (str "unexpected message"))).
Proof. split; [exact unexpected_text |]. eexists. split; [reflexivity |]. vm_compute. reflexivity. Qed.

(* 3. The protocol's 16-name limit: nothing is sent, ErrWalkLimit is returned *)
Theorem C09_walk_limit : forall (transfer : message -> res message) msize smsize fid newfid names,
  16 < zlen names ->
  exists m, find_client "Walk" = Some m /\
    request_path transfer msize smsize m [fid; newfid; GStrs names]
    = Ok (inl (NotSent (zero_outcome m (ERerror (err_ename "ErrWalkLimit"))))).
Proof. exact walk_limit_not_sent. Qed.
Print Assumptions C09_walk_limit.

Example C09_walk_limit_text : err_ename "ErrWalkLimit" = str "too many wnames in walk".
Proof. exact walk_limit_text. Qed.

(* the client implements the Session interface method for method: same
   parameter kinds, variadicity and result kinds (so the same [wf_args] and
   [clip_args] speak about both ends) *)
Theorem C09_signatures : signatures_match = true.
Proof. exact client_signatures_match. Qed.
Print Assumptions C09_signatures.

(* 4. Concurrent callers obtain their own results: composition of the tag
   layers' statements over one global history (positions, because tags are
   reused): C05_own_reply (the reply handed to a call is the first reply frame
   with its tag after its request), C05_distinct (a tag is re-issued only after
   a reply with it came back), C06 (every reply frame answers the latest
   request with its tag, once, with its own handler's message).  The three
   premises are the sibling models' theorems, to be instantiated. *)
Theorem C09_own_result : forall (answer : nat -> message) (h : list gev),
  own_reply_hyp h -> tag_reuse_hyp h -> reply_own_hyp answer h ->
  forall k c r, nth_error h k = Some (GDel c r) ->
    exists i t q, (i < k)%nat /\ nth_error h i = Some (GReq c t q) /\ r = answer i.
Proof. exact own_result. Qed.
Print Assumptions C09_own_result.

(* non-vacuity: two calls in flight with tags 1 and 2, answered out of order,
   then a third call re-using tag 1 *)
Definition ex_q (n : N) : message := (120%N, [VF (FInt 4 n)]).
Definition ex_r (n : N) : message := (107%N, [VF (FStr [n])]).
Definition ex_history : list gev :=
  [GReq 0 1 (ex_q 10); GReq 1 2 (ex_q 11); GRep 2 (ex_r 21); GDel 1 (ex_r 21);
   GRep 1 (ex_r 20); GDel 0 (ex_r 20); GReq 2 1 (ex_q 12); GRep 1 (ex_r 22); GDel 2 (ex_r 22)].
Definition ex_answer (i : nat) : message :=
  match i with 0%nat => ex_r 20 | 1%nat => ex_r 21 | _ => ex_r 22 end.

Ltac pos k H := repeat (destruct k as [| k]; cbn in H; try discriminate H); try (destruct k; discriminate H).
Ltac nobetween :=
  unfold no_rep_between, no_req_between, not; intros;
  match goal with Hc0 : nth_error _ ?k0 = Some _ |- _ => pos k0 Hc0 end; lia.

Example C09_own_result_nonvacuous :
  own_reply_hyp ex_history /\ tag_reuse_hyp ex_history /\ reply_own_hyp ex_answer ex_history.
Proof.
  split; [| split].
  - intros k c r H. pos k H; inversion H; subst.
    + exists 1%nat, 2%nat, 2%N, (ex_q 11). repeat split; try lia; try reflexivity. nobetween.
    + exists 0%nat, 4%nat, 1%N, (ex_q 10). repeat split; try lia; try reflexivity. nobetween.
    + exists 6%nat, 7%nat, 1%N, (ex_q 12). repeat split; try lia; try reflexivity. nobetween.
  - intros i i' c c' t q q' Hlt Hi Hi'.
    pos i Hi; inversion Hi; subst; pos i' Hi'; inversion Hi'; subst; try lia.
    exists 4%nat, (ex_r 20). split; [lia | reflexivity].
  - intros j t r H. pos j H; inversion H; subst.
    + exists 1%nat, 1%nat, (ex_q 11). repeat split; try lia; try reflexivity; nobetween.
    + exists 0%nat, 0%nat, (ex_q 10). repeat split; try lia; try reflexivity; nobetween.
    + exists 6%nat, 2%nat, (ex_q 12). repeat split; try lia; try reflexivity; nobetween.
Qed.

(* 5. All of them complete.  The goroutine structure read off transport.go and
   serveconn.go is the one Model/Flow.v abstracts in its [Fixed] variant: the
   owner loop only selects (a dedicated goroutine writes; waking a caller is a
   buffered send), reader/serve loop/handlers/writer hand over by rendezvous in
   the places the step relation says ... *)
Definition flow_structure_ok : bool :=
  negb gen_owner_loop_writes
  && forallb (fun f => snd f) gen_flow_facts
  && Nat.eqb (List.length gen_flow_facts) 11
  (* waking the caller never blocks the owner loop *)
  && match assoc "caller.reply" gen_flow_chan_caps with Some n => N.leb 1 n | None => false end
  && match assoc "caller.err" gen_flow_chan_caps with Some n => N.leb 1 n | None => false end
  (* every hand-off channel of Flow.step exists.  Their capacities are not constrained: Flow.step treats
     them as rendezvous, the most blocking reading; capacity only adds enabled hand-offs (proved for the
     connection's capacity [cap], which C09_complete quantifies over) *)
  && forallb (fun ch => match assoc ch gen_flow_chan_caps with Some _ => true | None => false end)
       ["client.submit"; "client.replies"; "client.to-writer"; "client.write-failed";
        "server.requests"; "server.responses"; "server.completed"].

Theorem C09_flow_structure : flow_structure_ok = true.
Proof. vm_compute. reflexivity. Qed.
Print Assumptions C09_flow_structure.

(* ... and for that structure, from n concurrent calls, over a connection of
   ANY buffering capacity (0 = net.Pipe) and under EVERY schedule: no reachable
   state has all goroutines blocked while a call is pending; an execution has
   at most 12 n steps; and when nothing can move any more all n callers have
   returned. *)
Theorem C09_complete : forall cap n sched s,
  run Fixed cap (init n) sched = Some s ->
  stuck Fixed cap s = false
  /\ (List.length sched <= 12 * n)%nat
  /\ ((forall e, enabled Fixed cap s e = false) -> c_done s = n).
Proof. exact fixed_complete. Qed.
Print Assumptions C09_complete.

(* ... and a served session may hold every call until all n have arrived:
   while no handler returns, the goroutines keep moving until all n calls sit
   in running handlers (no bound on the calls in flight short of the tag space) *)
Theorem C09_all_arrive : forall cap n sched s,
  forallb (fun e => negb (is_finish e)) sched = true ->
  run Fixed cap (init n) sched = Some s ->
  (forall e, is_finish e = false -> enabled Fixed cap s e = false) ->
  h_run s = n.
Proof. exact fixed_all_arrive. Qed.
Print Assumptions C09_all_arrive.

Example C09_all_arrive_nonvacuous :
  exists sched s, forallb (fun e => negb (is_finish e)) sched = true /\
    run Fixed 0 (init 3) sched = Some s /\ (forall e, is_finish e = false -> enabled Fixed 0 s e = false) /\
    h_run s = 3%nat.
Proof.
  exists [ESubmit; ESubmit; ESubmit; EQueueToWriter; ECWrite; ESpawn; EQueueToWriter; ECWrite; ESpawn;
          EQueueToWriter; ECWrite; ESpawn].
  eexists. split; [reflexivity |]. split; [vm_compute; reflexivity |].
  split; [intros e He; destruct e; try discriminate He; reflexivity | reflexivity].
Qed.

Example C09_complete_nonvacuous :
  exists sched s, run Fixed 0 (init 2) sched = Some s /\ (forall e, enabled Fixed 0 s e = false) /\ c_done s = 2%nat.
Proof.
  exists [ESubmit; ESubmit; EQueueToWriter; ECWrite; ESpawn; EQueueToWriter; ECWrite; EFinish; ECompleted;
          EToWriter; ESpawn; ESWrite; EDeliver; EFinish; ECompleted; EToWriter; ESWrite; EDeliver].
  eexists. split; [vm_compute; reflexivity |]. split; [intros e; destruct e; reflexivity | reflexivity].
Qed.

(* D14, the structure before the repair (/repo c33bd77): with the owner loop
   performing the write itself, five concurrent calls over a connection that
   buffers nothing reach a state in which every goroutine is blocked; buffering
   only raises the number of calls needed. *)
Theorem C09_refuted_deadlock :
  exists sched s, run Current 0 (init 5) sched = Some s /\ stuck Current 0 s = true.
Proof. exact current_unbuffered_deadlocks. Qed.
Print Assumptions C09_refuted_deadlock.

Theorem C09_refuted_deadlock_buffered :
  greedy_stuck Current 1 7 = true /\ greedy_stuck Current 2 9 = true /\ greedy_stuck Current 3 11 = true.
Proof. exact current_buffered_deadlocks. Qed.
Print Assumptions C09_refuted_deadlock_buffered.

(* ---- the clamps used above are those of the channel model whose framing theorems are C02/C03/C10:
        Pipeline.chan_truncate (transcribed over the regenerated struct table, in Z) and
        Channel.maybe_truncate (in N with explicit mod 2^32) agree on every wire-representable
        message (Proofs/PipelineChannel.v) ---- *)
From P9 Require Import Model.Spec9P Model.Wire Model.Channel Proofs.PipelineChannel.

Theorem C09_truncate_is_channel_model : forall msize f, wf_fcall f = true ->
  chan_truncate (Z.of_N msize) (fc_type f, fc_fields f) = proj (maybe_truncate msize f).
Proof. exact chan_truncate_is_maybe_truncate. Qed.
Print Assumptions C09_truncate_is_channel_model.

(* ---- 4'. "Concurrent callers each obtain their own results", with the three premises of C09_own_result
        DERIVED from the sibling models instead of assumed.  Model/Compose.v joins the client's owner loop
        and writer (Tags.hstep, the model of C05/C12) and the serve loop with its reader, writer and handler
        goroutines (Serve.step repaired, the model of C06/C07/C11) by two FIFO wires; [jrun handler jinit evs
        = Some (J, h)]: the event list evs - any interleaving of client events (requests from any number of
        calls, hand-overs to the writer, completed and FAILED writes, read errors, cancelled contexts,
        shutdown, abandoned calls), server events (reader, loop, writer, dropped completions, failed writes,
        cancellation, return, stop), handler returns in any order ([JFinish rid]: Handle of request rid
        returns [handler m], m the message it was dispatched with) and reply frames reaching the client
        ([JResp]) - is a possible execution of the two step functions, and h its positional history.
        What the composition fixes is only what each sibling model leaves to its environment about the
        PEER: the server receives exactly the frames the client wrote, the client exactly the frames the
        server wrote (so C05's honest_peer is not assumed: the peer is the server model).  The client sends
        no Tflush (csession.go never does).  Tag reuse and wrap-around of the tag counter are included
        (the run may be of any length). ---- *)
From P9 Require Import Model.Compose Proofs.ComposeProofs Proofs.ComposeWitness.

(* every joint run yields a history satisfying the three premises *)
Theorem C09_composed_premises : forall (handler : Serve.bstr -> Serve.hres) evs J h,
  jrun handler jinit evs = Some (J, h) ->
  own_reply_hyp h /\ tag_reuse_hyp h /\ reply_own_hyp (answer_at handler h) h.
Proof. exact joint_premises. Qed.
Print Assumptions C09_composed_premises.

(* hence: every reply the client transport hands to a call c is the server's answer - what newFcall /
   newErrorFcall make of Handle's result - to the message of call c's OWN request frame *)
Theorem C09_own_result_composed : forall (handler : Serve.bstr -> Serve.hres) evs J h,
  jrun handler jinit evs = Some (J, h) ->
  forall k c r, nth_error h k = Some (GDel c r) ->
    exists i t q, (i < k)%nat /\ nth_error h i = Some (GReq c t q) /\ r = reply_msg handler q.
Proof. exact own_result_composed. Qed.
Print Assumptions C09_own_result_composed.

(* non-vacuity (vm_compute): calls 1, 2, 3 in flight with tags 1, 2, 3; the third is answered first, then
   the first; the tag counter goes once round the tag space (65532 requests whose write fails), call 4 is
   given tag 1 AGAIN while call 2 is still unanswered; call 4 is answered, then call 2 (with an error).
   Each of the four deliveries is the answer to its own call's message. *)
Example C09_own_result_composed_nonvacuous :
  option_map snd (jrun ex_handler jinit ex_joint_run) = Some ex_joint_history /\
  nth_error ex_joint_history 0 = Some (GReq 1 1 (qmsg 1 120)) /\
  nth_error ex_joint_history 7 = Some (GReq 4 1 (qmsg 4 120)) /\
  nth_error ex_joint_history 6 = Some (GDel 1 (reply_msg ex_handler (qmsg 1 120))) /\
  nth_error ex_joint_history 9 = Some (GDel 4 (reply_msg ex_handler (qmsg 4 120))) /\
  nth_error ex_joint_history 4 = Some (GDel 3 (reply_msg ex_handler (qmsg 3 110))) /\
  nth_error ex_joint_history 11 = Some (GDel 2 (reply_msg ex_handler (qmsg 2 116))).
Proof. split; [exact ex_joint_run_history|]. repeat split. Qed.

(* the side condition of C05_distinct DISCHARGED: the event list the client's owner loop sees in a joint
   run is a run of Model/Tags.v (ending in the joint run's client state) in which the peer is honest -
   every reply carries a tag that awaits a reply on the wire - because the peer is the server model,
   which answers only frames it has received; hence the tags awaiting a reply on the wire are pairwise
   distinct in every joint run, and every theorem of C05/C12 about Tags.run applies to it *)
From P9 Require Proofs.TagsProofs Proofs.ComposeProofsPeer.

Theorem C09_composed_peer_honest : forall (handler : Serve.bstr -> Serve.hres) evs J h,
  jrun handler jinit evs = Some (J, h) ->
  TagsProofs.honest_peer (client_events handler jinit evs) /\
  fst (Tags.run (client_events handler jinit evs)) = j_cl J /\
  List.NoDup (Tags.awaiting (Tags.wire_of (client_events handler jinit evs))).
Proof. exact ComposeProofsPeer.composed_client. Qed.
Print Assumptions C09_composed_peer_honest.

(* and the event list the server sees is a run of Model/Serve.v from its initial state (ending in the
   joint run's server state): every theorem of C06/C07/C11 about Serve.run applies to it *)
Theorem C09_composed_server_view : forall (handler : Serve.bstr -> Serve.hres) evs J h,
  jrun handler jinit evs = Some (J, h) ->
  exists tr, Serve.run Serve.repaired Serve.init (server_events handler jinit evs) = Some (j_sv J, tr).
Proof. exact ComposeProofsPeer.composed_server_view. Qed.
Print Assumptions C09_composed_server_view.
