(* C09 - A session served over a connection is indistinguishable from the session.
   Only statements, each closed by [exact lemma], with Print Assumptions. *)
From Coq Require Import List Arith Bool.
From P9 Require Import Model.Flow Proofs.FlowProofs.
Import ListNotations.

Theorem C09_refuted_deadlock :
  exists sched s, run Current 0 (init 5) sched = Some s /\ stuck Current 0 s = true.
Proof. exact current_unbuffered_deadlocks. Qed.
Print Assumptions C09_refuted_deadlock.
