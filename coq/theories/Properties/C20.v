(* C20 - The client file-system layer maps entries to fids faithfully, leaking none.
   Only statements, each closed by [exact lemma], with Print Assumptions.

   Vocabulary (Model/Cfs.v, Proofs/CfsProofs.v):
     do_op msize next o ans   one operation of the layer with fs.nextfid = next; ans is the
                              answer of the session to the call it issues; yields
                              (call issued, result for the caller, nextfid afterwards)
     step / run               the same composed with the caller's bookkeeping s_live (the objects
                              holding a fid: entries obtained from Attach/Walk and not yet clunked
                              or removed - the entry Create returns supersedes the one it was created
                              from - and auth files obtained from Auth and not yet closed, recorded
                              as (afid, zero qid)) and with the
                              abstract server's table s_srv (auth and attach bind on success, walk binds
                              newfid iff the answer has as many qids as names were sent, clunk and
                              remove unbind)
     expected_call next o     the session call the property asks for (corresponding call, the
                              entry's own fid, fresh fid for attach root / walk target)
   All theorems quantify over every operation sequence and EVERY sequence of session answers. *)
From Coq Require Import List NArith ZArith Bool.
From P9 Require Import Base.Res Model.Path Model.Cfs Proofs.CfsProofs.
Import ListNotations.
Open Scope N_scope.

(* Live entries have pairwise distinct fids, none of them NOFID.
   The unbounded statement
       forall msize ops, NoDup (map c_fid (s_live (run msize sys0 ops))) /\ Forall (fun e => c_fid e <> NOFID) ...
   is false for the code as it is: newFid is a uint32 counter that wraps after 2^32 allocations
   (the 2^32-1st allocation returns NOFID itself, the next ones repeat fids that may still be live).
   Proved: the statement for every history with fewer than 2^32-1 allocations (an Attach, or a
   Walk whose path is valid, allocates - also when it then fails). *)
Theorem C20_distinct_partial : forall msize ops,
  N.of_nat (n_allocs ops) < 2 ^ 32 - 1 ->
  NoDup (map c_fid (s_live (run msize sys0 ops)))
  /\ Forall (fun e => c_fid e <> NOFID) (s_live (run msize sys0 ops)).
Proof. exact distinct. Qed.
Print Assumptions C20_distinct_partial.

(* each operation issues exactly the corresponding session call, on the entry's own fid *)
Theorem C20_forward : forall msize next o ans,
  call_of (do_op msize next o ans) = expected_call next o.
Proof. exact forward. Qed.
Print Assumptions C20_forward.

(* the same for the auth file: Read, Write and Close work on exactly the afid that was sent in Tauth *)
Theorem C20_forward_auth_fid : forall msize next o ans a c,
  op_afid o = Some a -> call_of (do_op msize next o ans) = Some c -> call_fid c = a.
Proof. exact forward_auth_fid. Qed.
Print Assumptions C20_forward_auth_fid.

(* Auth takes a fresh fid; a refused Tauth surfaces as an error, gives the caller nothing and leaves
   the server's table as it was; an accepted one returns the auth file on that fid *)
Theorem C20_auth : forall msize st u a ans,
  let '(st', c, r) := step msize st (OAuth u a) ans in
  c = Some (SAuth (new_fid (s_next st)) u a)
  /\ match ans with
     | AQid _ => r = CAuth (new_fid (s_next st)) (msize - 11)%Z
                 /\ s_srv st' = new_fid (s_next st) :: s_srv st
                 /\ map c_fid (s_live st') = new_fid (s_next st) :: map c_fid (s_live st)
     | _ => r = CErr /\ s_srv st' = s_srv st /\ s_live st' = s_live st
     end.
Proof. exact auth_spec. Qed.
Print Assumptions C20_auth.

Theorem C20_forward_own_fid : forall msize next o ans e c,
  op_ent o = Some e -> call_of (do_op msize next o ans) = Some c -> call_fid c = c_fid e.
Proof. exact forward_own_fid. Qed.
Print Assumptions C20_forward_own_fid.

(* a walk the session completed (as many qids as normalised names) is reported as success, with an
   entry on the new fid whose qid is the last qid (the entry's own qid for a walk of no names) *)
Theorem C20_walk_ok : forall msize next e names steps bsp qids,
  normalize_path names = (steps, bsp) -> (0 <= bsp)%Z -> length qids = length steps ->
  do_op msize next (OWalk e names) (AWalk qids)
  = (Some (SWalk (c_fid e) (new_fid next) steps),
     CWalk qids {| c_fid := new_fid next; c_qid := last qids (c_qid e) |},
     new_fid next).
Proof. exact walk_ok. Qed.
Print Assumptions C20_walk_ok.

(* a failed or partial walk returns no entry and binds no fid on the server *)
Theorem C20_walk_fail : forall msize st e names steps bsp ans,
  normalize_path names = (steps, bsp) -> (0 <= bsp)%Z ->
  (ans = AErr \/ exists qids, ans = AWalk qids /\ length qids <> length steps) ->
  let '(st', c, r) := step msize st (OWalk e names) ans in
  c = Some (SWalk (c_fid e) (new_fid (s_next st)) steps)
  /\ res_entry r = None
  /\ (r = CErr \/ exists qids, ans = AWalk qids /\ r = CPartial qids)
  /\ s_srv st' = s_srv st
  /\ s_live st' = s_live st.
Proof. exact walk_fail. Qed.
Print Assumptions C20_walk_fail.

(* at every point of every history the server's table is exactly the fids of the entries the caller holds *)
Theorem C20_table : forall msize ops,
  s_srv (run msize sys0 ops) = map c_fid (s_live (run msize sys0 ops)).
Proof. exact table. Qed.
Print Assumptions C20_table.

(* so once every entry obtained has been clunked or removed the server holds no fid *)
Theorem C20_no_leak : forall msize ops,
  s_live (run msize sys0 ops) = [] -> s_srv (run msize sys0 ops) = [].
Proof. exact no_leak. Qed.
Print Assumptions C20_no_leak.

(* ---- non-vacuity ---- *)
Definition b_dir1 : bstr := [100; 105; 114; 49].    (* "dir1" *)
Definition b_x : bstr := [120].
Definition qd : qid := (128, 0, 7).
Definition root : cEnt := {| c_fid := 1; c_qid := (128, 0, 1) |}.

(* the premises of C20_walk_ok: Walk("dir1", ".") normalises to one step (the D12 input) *)
Example C20_ex_walk_ok_premises :
  normalize_path [b_dir1; [DOT]] = ([b_dir1], 0%Z) /\ length [qd] = length [b_dir1].
Proof. split; reflexivity. Qed.
Example C20_ex_walk_ok :
  do_op 65536 1 (OWalk root [b_dir1; [DOT]]) (AWalk [qd])
  = (Some (SWalk 1 2 [b_dir1]), CWalk [qd] {| c_fid := 2; c_qid := qd |}, 2).
Proof. reflexivity. Qed.
(* and Walk("x", "..") to none: the server clones the fid, the layer reports success *)
Example C20_ex_walk_clone :
  do_op 65536 1 (OWalk root [b_x; [DOT; DOT]]) (AWalk [])
  = (Some (SWalk 1 2 []), CWalk [] {| c_fid := 2; c_qid := (128, 0, 1) |}, 2).
Proof. reflexivity. Qed.

(* the premises of C20_walk_fail: a partial answer *)
Example C20_ex_walk_fail_premises :
  normalize_path [b_dir1; b_x] = ([b_dir1; b_x], 0%Z) /\ length [qd] <> length [b_dir1; b_x].
Proof. split; [reflexivity|discriminate]. Qed.

(* a history in which entries are obtained, a walk fails after taking a fid, a file is created,
   and everything is let go: distinct fids on the way, empty table at the end *)
Definition ex_ops1 : list (op * sres) :=
  [ (OAttach [] [] AfNil, AQid (128, 0, 1));
    (OWalk root [b_dir1; [DOT]], AWalk [qd]);
    (OWalk root [b_dir1; b_x], AWalk [qd]);
    (OWalk root [b_x; [DOT; DOT]], AWalk []);
    (OCreate {| c_fid := 4; c_qid := (128, 0, 1) |} b_x 420 1, AOpen (0, 0, 9) 0) ].
Definition ex_ops2 : list (op * sres) :=
  [ (OClunk root, AUnit); (ORemove {| c_fid := 2; c_qid := qd |}, AErr);
    (OClunk {| c_fid := 4; c_qid := (0, 0, 9) |}, AUnit) ].

Example C20_ex_history_mid :
  let st := run 65536 sys0 ex_ops1 in
  s_next st = 4 /\ map c_fid (s_live st) = [4; 2; 1] /\ s_srv st = [4; 2; 1]
  /\ s_live st = [ {| c_fid := 4; c_qid := (0, 0, 9) |}; {| c_fid := 2; c_qid := qd |}; root ].
Proof. vm_compute. repeat split; reflexivity. Qed.

Example C20_ex_history_end :
  let st := run 65536 sys0 (ex_ops1 ++ ex_ops2) in
  s_live st = [] /\ s_srv st = [] /\ (N.of_nat (n_allocs (ex_ops1 ++ ex_ops2)) < 2 ^ 32 - 1).
Proof. vm_compute. repeat split; reflexivity. Qed.

(* auth files hold fids like entries do: a refused Tauth spends fid 1 and leaves nothing, an accepted
   one holds fid 2 until Close clunks it; the root attached with it sends afid 2 *)
Definition ex_ops3 : list (op * sres) :=
  [ (OAuth [] [], AErr); (OAuth [] [], AQid (8, 0, 0));
    (OAttach [] [] (AfFile 2), AQid (128, 0, 1));
    (OARead 2 16 0%Z, ARead [1; 2; 3]) ].
Example C20_ex_auth_mid :
  let st := run 65536 sys0 ex_ops3 in
  s_next st = 3 /\ s_srv st = [3; 2] /\ map c_fid (s_live st) = [3; 2]
  /\ call_of (do_op 65536 2 (OAttach [] [] (AfFile 2)) (AQid (128, 0, 1))) = Some (SAttach 3 2 [] []).
Proof. vm_compute. repeat split; reflexivity. Qed.
Example C20_ex_auth_end :
  let st := run 65536 sys0 (ex_ops3 ++ [(OAClose 2, AUnit); (OClunk {| c_fid := 3; c_qid := (128, 0, 1) |}, AErr)]) in
  s_live st = [] /\ s_srv st = [].
Proof. vm_compute. split; reflexivity. Qed.
