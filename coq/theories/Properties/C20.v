(* C20 - The client file-system layer maps entries to fids faithfully, leaking none. *)
From Coq Require Import List NArith ZArith Bool.
From P9 Require Import Base.Res Model.Path Model.Cfs Proofs.CfsProofs.
Import ListNotations.

Theorem C20_forward_clunk : forall msize next e ans,
  fst (fst (do_op msize next (OClunk e) ans)) = Some (SClunk (c_fid e)).
Proof. exact clunk_forward. Qed.
Print Assumptions C20_forward_clunk.
