(* C10 - Version negotiation yields one msize that both ends then honour. (theorems being added; see Proofs/VersionProofs.v) *)
From Coq Require Import List NArith ZArith Bool.
From P9 Require Import Base.Res Base.Bytes Model.WireTypes Model.Spec9P Model.Wire Model.Channel Model.Version.
Import ListNotations.
Open Scope N_scope.

(* a client proposing 8192 to a server whose maximum is 65536: both adopt 8192 *)
Example C10_agree_example :
  let '(req, _) := client_request 8192 in
  let '(reply, ok, m) := server_handshake 65536 req in
  ok = true /\ m = 8192 /\ client_handshake 8192 reply = (req, true, 8192).
Proof. vm_compute. repeat split; reflexivity. Qed.
Print Assumptions C10_agree_example.
