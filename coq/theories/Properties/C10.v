(* C10 - Version negotiation yields one msize that both ends then honour.
   Statements only; proofs in Proofs/VersionProofs.v (and ChannelProofs/ChannelRead for clause 5). *)
From Coq Require Import List NArith ZArith Bool.
From P9 Require Import Base.Res Base.Bytes Model.WireTypes Model.Spec9P Model.Wire Model.Channel Model.Version Gen.GenConsts
  Proofs.WireDecode Proofs.ChannelProofs Proofs.ChannelRead Proofs.VersionProofs.
Import ListNotations.
Open Scope N_scope.

(* 1. Server: for every proposal c in [0,2^32), every version string and every own maximum, the
      reply carries min(c, own) -- never more than the client proposed nor than the server's maximum --
      and that is what the server adopts; a proposal that cannot even carry the 19-byte version reply
      is refused with nothing written. *)
Theorem C10_server : forall own tag c v rest,
  own < M32 -> tag < M16 -> c < M32 -> wf_str v = true -> 13 + len v <= own ->
  server_handshake own (frame (enc_fcall (mk_version T_Tversion tag c v)) ++ rest) =
    if 19 <=? N.min c own
    then (frame (enc_fcall (mk_version T_Rversion NOTAG (N.min c own) V9P2000)), true, N.min c own)
    else ([], false, N.min c own).
Proof. exact server_spec. Qed.
Print Assumptions C10_server.

(* 2. Client: for every answer s in [0,2^32) the client adopts min(s, proposed), never more than it proposed. *)
Theorem C10_client : forall proposed tag s rest,
  19 <= proposed -> proposed < M32 -> tag < M16 -> s < M32 ->
  client_handshake proposed (frame (enc_fcall (mk_version T_Rversion tag s V9P2000)) ++ rest) =
    (frame (enc_fcall (mk_version T_Tversion NOTAG proposed V9P2000)), true, N.min s proposed).
Proof. exact client_spec. Qed.
Print Assumptions C10_client.

(* 3. When both ends run this code, both adopt the minimum of the two offers. *)
Theorem C10_agree : forall proposed own, 19 <= proposed -> proposed < M32 -> 19 <= own -> own < M32 ->
  exists req reply,
    client_request proposed = (req, WSent) /\
    server_handshake own req = (reply, true, N.min proposed own) /\
    client_handshake proposed reply = (req, true, N.min proposed own).
Proof. exact both_agree. Qed.
Print Assumptions C10_agree.

(* 4. A connection whose first message is not a version request (or is not a message at all) is
      refused: nothing is written and serving never starts, so nothing reaches the handler. *)
Theorem C10_refuse : forall own s,
  (forall f b r, read_fcall own [] s = (RMsg f, b, r) -> fc_type f <> T_Tversion) ->
  server_handshake own s = ([], false, own).
Proof. exact server_refuses_nonversion. Qed.
Print Assumptions C10_refuse.

(* 5. From then on each end honours the adopted msize m: every write emits one frame of at most m
      bytes or nothing (C02_frame at msize := m), and a frame of exactly m bytes is accepted while
      any longer one is reported as an overflow of exactly the excess (C03_one_frame / classify). *)
Theorem C10_honour_out : forall m live f, wf_fcall f = true -> 24 <= m -> m < M32 ->
  (live = false /\ write_fcall m live f = ([], WCtx)) \/
  (live = true /\ exists out, write_fcall m live f = (out, WSent) /\
      (exists body, out = le 4 (len out) ++ body) /\ len out <= m) \/
  (live = true /\ m < 4 + len (enc_fcall f) /\ write_fcall m live f = ([], WOverflow (4 + len (enc_fcall f) - m))).
Proof. exact write_fcall_frame. Qed.
Print Assumptions C10_honour_out.

Theorem C10_honour_in : forall m body f, 24 <= m -> m < M32 - 12 -> len body + 4 = m -> allb body ->
  dec_fcall body = Ok f ->
  (exists f', classify m m body = RMsg f') /\ (forall k body', 0 < k -> classify m (m + k) body' = ROverflow k).
Proof. exact honour_in. Qed.
Print Assumptions C10_honour_in.

(* the constants the models use are those of the CURRENT source (regenerated on every run) *)
Theorem C10_constants :
  c_channelMessageHeaderSize = 4 /\ c_NOTAG = NOTAG /\ c_DefaultMSize = 65536 /\ s_DefaultVersion = V9P2000 /\ c_NOFID = 4294967295.
Proof. repeat split; reflexivity. Qed.
Print Assumptions C10_constants.

(* non-vacuity *)
Example C10_agree_example :
  let '(req, _) := client_request 8192 in
  let '(reply, ok, m) := server_handshake 65536 req in
  ok = true /\ m = 8192 /\ client_handshake 8192 reply = (req, true, 8192).
Proof. vm_compute. repeat split; reflexivity. Qed.
Print Assumptions C10_agree_example.

Example C10_refuse_small_example :
  server_handshake 65536 (frame (enc_fcall (mk_version T_Tversion 65535 18 V9P2000))) = ([], false, 18).
Proof. vm_compute. reflexivity. Qed.
Print Assumptions C10_refuse_small_example.
