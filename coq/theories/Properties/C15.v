(* C15 - the host-directory file server is confined to its export root.
   Only statements, each closed by [exact lemma], with Print Assumptions. *)
From Coq Require Import List NArith ZArith Bool.
From P9 Require Import Base.Res Model.Path Model.HostFS Model.Ufs Proofs.UfsProofs.
Import ListNotations.

(* names failing ValidPath never reach the file system: on every host, in every
   session state, the Walk changes nothing - no host call, no fid, no path *)
Theorem C15_session_filter_walk :
  forall (H : Type) (hc : H -> hcall -> H * hresult) base s fid newfid names,
  valid_path names = (-1)%Z -> fst (step hc (impl_alg base) s (OpWalk fid newfid names)) = s.
Proof. exact @impl_walk_filter. Qed.
Print Assumptions C15_session_filter_walk.
