(* C15 - the host-directory file server is confined to its export root.
   Only statements, each closed by [exact lemma], with Print Assumptions, and
   non-vacuity Examples.

   The operations are Model/Ufs.v's [step]/[run] over the Go translation layer
   [impl_alg Base]; the host is an ARBITRARY function [hc : H -> hcall -> H * hresult]
   (nothing is assumed about the kernel), names are arbitrary byte strings.

   FULL STATEMENT of the property, of which the theorems below are the lexical part:
     "every host object that ufs reads, creates, modifies, renames or removes lies
      inside the exported directory, and the root cannot be removed or renamed away".
   Proved: every FileRef.Path is canonical (C15_paths_canonical); every path in every
   host call is Base followed by good components (C15_host_paths); Remove on "/" is
   refused without touching the host (C15_root_remove); on the model kernel a rename
   of a directory to a path at or below itself is a no-op or an error
   (C15_root_rename_model; the rename target of "/" is such a path by C15_host_paths);
   names the session or CreateName reject cause no host call (the C15_session_filter theorems).
   NOT proved (partial clause, DESIGN.md C15): that the kernel resolves a lexically
   confined path, in a tree without symbolic links, to an object inside the export. *)
From Coq Require Import List NArith ZArith Bool.
From P9 Require Import Base.Res Model.Path Model.HostFS Model.Ufs.
From P9 Require Import Proofs.PathProofs Proofs.PathExtra Proofs.UfsProofs Proofs.UfsProofsPath.
Import ListNotations.
Open Scope N_scope.

(* 1+2: for all op sequences with arbitrary names, on every host *)
Theorem C15_paths_canonical :
  forall (H : Type) (hc : H -> hcall -> H * hresult) (bcs : list bstr), Forall okcomp bcs ->
  forall ops h fid r,
  In (fid, r) (u_fids (fst (run hc (impl_alg (render bcs)) (init h) ops))) -> canon (fr_path (sf_ent r)).
Proof. intros H hc bcs Hb ops h. exact (proj1 (impl_confined hc bcs Hb ops h)). Qed.
Print Assumptions C15_paths_canonical.

Theorem C15_host_paths :
  forall (H : Type) (hc : H -> hcall -> H * hresult) (bcs : list bstr), Forall okcomp bcs ->
  forall ops h c p,
  In c (u_log (fst (run hc (impl_alg (render bcs)) (init h) ops))) -> In p (hcall_paths c) -> under bcs p.
Proof. intros H hc bcs Hb ops h. exact (proj2 (impl_confined hc bcs Hb ops h)). Qed.
Print Assumptions C15_host_paths.

(* fullPath - the only constructor of host paths from new internal paths - accepts exactly the canonical ones *)
Theorem C15_fullpath_sound :
  forall base p hp, fs_fullpath base p = Some hp -> canon p /\ hp = fp_join base p.
Proof. exact fullpath_canon. Qed.
Print Assumptions C15_fullpath_sound.

Theorem C15_fullpath_complete :
  forall bcs cs, Forall okcomp bcs -> Forall good cs ->
  fs_fullpath (render bcs) (render cs) = Some (render (bcs ++ cs)) /\
  ref_fullpath (render bcs) (render cs) = render (bcs ++ cs).
Proof. exact canon_fullpath. Qed.
Print Assumptions C15_fullpath_complete.

(* no session call panics (WalkName's dir[:len(dir)-1]) or blocks, whatever the names *)
Theorem C15_no_panic :
  forall (H : Type) (hc : H -> hcall -> H * hresult) (bcs : list bstr), Forall okcomp bcs ->
  forall ops h,
  ~ In ObPanic (snd (run hc (impl_alg (render bcs)) (init h) ops)) /\
  ~ In ObHang (snd (run hc (impl_alg (render bcs)) (init h) ops)).
Proof. intros H hc bcs Hb ops h. exact (impl_no_panic hc bcs Hb ops h). Qed.
Print Assumptions C15_no_panic.

(* 3: the root *)
Theorem C15_root_remove :
  forall (H : Type) (hc : H -> hcall -> H * hresult) base s fid r,
  u_stuck s = false -> fid_get fid (u_fids s) = Some r -> fr_path (sf_ent r) = [SLASH] ->
  snd (step hc (impl_alg base) s (OpRemove fid)) = ObErr /\
  (forall c, In c (u_log (fst (step hc (impl_alg base) s (OpRemove fid)))) -> In c (u_log s) \/ exists fd, c = HClose fd).
Proof. exact @impl_remove_root. Qed.
Print Assumptions C15_root_remove.

Theorem C15_root_rename_model :
  forall h a b ca cb,
  kpath a = Some ca -> kpath b = Some cb -> is_prefix ca cb = true -> src_is_dir h a = true ->
  fst (h_rename h a b) = h.
Proof. exact h_rename_into_self. Qed.
Print Assumptions C15_root_rename_model.

(* the partial clause, discharged for the MODEL kernel only (Model/HostFS.v: no symbolic
   links, "." / ".." refused): a path Base/<good components> resolves, if at all, to an
   inode reached from the export root's inode by descending through directory entries *)
Theorem C15_model_resolution :
  forall h bcs cs i, Forall okcomp bcs -> Forall good cs ->
  resolve h (render (bcs ++ cs)) = Some i ->
  exists b, walk_ino (h_inodes h) ROOT_INO bcs = Some b /\ walk_ino (h_inodes h) b cs = Some i.
Proof. exact model_resolution_confined. Qed.
Print Assumptions C15_model_resolution.

Theorem C15_model_resolution_parent :
  forall h bcs cs d dm ents name, Forall okcomp bcs -> Forall good cs -> cs <> [] ->
  resolve_parent h (render (bcs ++ cs)) = Some (d, dm, ents, name) ->
  exists b, walk_ino (h_inodes h) ROOT_INO bcs = Some b /\
            walk_ino (h_inodes h) b (removelast cs) = Some d /\ name = last cs [].
Proof. exact model_parent_confined. Qed.
Print Assumptions C15_model_resolution_parent.

(* 4: the filters *)
Theorem C15_session_filter_walk :
  forall (H : Type) (hc : H -> hcall -> H * hresult) base s fid newfid names,
  valid_path names = (-1)%Z -> fst (step hc (impl_alg base) s (OpWalk fid newfid names)) = s.
Proof. exact @impl_walk_filter. Qed.
Print Assumptions C15_session_filter_walk.

Theorem C15_session_filter_create :
  forall (H : Type) (hc : H -> hcall -> H * hresult) base s fid name perm mode,
  name = [DOT] \/ name = DOTDOT -> fst (step hc (impl_alg base) s (OpCreate fid name perm mode)) = s.
Proof. exact @impl_create_filter_dots. Qed.
Print Assumptions C15_session_filter_create.

Theorem C15_create_name_filter :
  forall (H : Type) (hc : H -> hcall -> H * hresult) base s fid name perm mode,
  has_sep name = true \/ name = [] \/ name = [DOT] \/ name = DOTDOT ->
  fst (step hc (impl_alg base) s (OpCreate fid name perm mode)) = s.
Proof. exact @impl_create_filter. Qed.
Print Assumptions C15_create_name_filter.

(* ---------------- non-vacuity ---------------- *)

Definition nm_a : bstr := [97].  Definition nm_b : bstr := [98].
Definition DMDIR755 : N := 2147483648 + 493.
(* "../../../b" *)
Definition hostile_up : bstr := [46;46;47; 46;46;47; 46;46;47; 98].
(* "../outside/x" *)
Definition hostile_out : bstr := [46;46;47] ++ b_outside ++ [47; 120].
Definition demo_ops : list op :=
  [OpAttach 0; OpWalk 0 1 []; OpCreate 1 nm_a DMDIR755 0;
   OpWstat 1 hostile_up 4294967295 18446744073709551615 [] [];      (* accepted: /a -> /b *)
   OpWstat 1 hostile_out 4294967295 18446744073709551615 [] [];     (* Join("/", "../outside/x") = "/outside/x": inside, ENOENT *)
   OpWalk 0 2 [DOTDOT]; OpWalk 1 3 [DOTDOT; DOTDOT];                (* ".." at the root / beyond the depth: refused *)
   OpRemove 0].                                                     (* root: refused *)

(* the base hypothesis is satisfiable: the sandbox's /S/export *)
Example C15_base_ok : Forall okcomp [bS; b_export] /\ render [bS; b_export] = sandbox_base.
Proof.
  split; [|reflexivity].
  repeat constructor; try discriminate; intros Hin; simpl in Hin;
    repeat (destruct Hin as [Hin|Hin]; [discriminate|]); exact Hin.
Qed.
Print Assumptions C15_base_ok.

(* a concrete session on the model kernel in which a hostile rename IS accepted; the
   theorems' conclusions are visible: paths "/", "/b"; the rename went to /S/export/b *)
Example C15_demo_run :
  let s := fst (run hcall_posix (impl_alg sandbox_base) (init (sandbox 18)) demo_ops) in
  snd (run hcall_posix (impl_alg sandbox_base) (init (sandbox 18)) demo_ops)
    = [ObQid true; ObWalk 0 false; ObQid true; ObOk; ObErr; ObErr; ObErr; ObErr] /\
  map (fun e => (fst e, fr_path (sf_ent (snd e)))) (u_fids s) = [(1, SLASH :: nm_b)] /\
  In (HRename (sandbox_base ++ SLASH :: nm_a) (sandbox_base ++ SLASH :: nm_b)) (u_log s) /\
  In (HRename (sandbox_base ++ SLASH :: nm_b) (sandbox_base ++ SLASH :: b_outside ++ [47; 120])) (u_log s) /\
  dump_tree 8 (h_inodes (u_host s)) [] 4 = dump_tree 8 (h_inodes (sandbox 18)) [] 4.
Proof. vm_compute. repeat split; auto 20. Qed.
Print Assumptions C15_demo_run.

(* hypotheses of C15_root_remove and C15_root_rename_model are satisfiable *)
Example C15_root_hyps :
  let s := fst (run hcall_posix (impl_alg sandbox_base) (init (sandbox 18)) [OpAttach 0]) in
  u_stuck s = false /\
  (exists r, fid_get 0 (u_fids s) = Some r /\ fr_path (sf_ent r) = [SLASH]) /\
  (exists ca cb, kpath sandbox_base = Some ca /\ kpath (sandbox_base ++ SLASH :: nm_a) = Some cb /\
                 is_prefix ca cb = true /\ src_is_dir (sandbox 18) sandbox_base = true).
Proof.
  vm_compute. split; [reflexivity|]. split; [eexists; split; reflexivity|].
  eexists; eexists; repeat split; reflexivity.
Qed.
Print Assumptions C15_root_hyps.

(* the filter hypotheses: a rejected walk and a rejected create name exist *)
Example C15_filter_hyps :
  valid_path [nm_a; DOTDOT] = (-1)%Z /\ valid_path [[97; 47; 98]] = (-1)%Z /\ has_sep [97; 92; 98] = true.
Proof. vm_compute. auto. Qed.
Print Assumptions C15_filter_hyps.

(* C15_model_resolution's hypothesis is satisfiable: /S/export/sentinel-free path into the export *)
Example C15_model_resolution_hyps :
  Forall good [nm_a] /\
  resolve (fst (run hcall_posix (impl_alg sandbox_base) (init (sandbox 18)) demo_ops)).(u_host) (render ([bS; b_export] ++ [nm_b])) = Some 6.
Proof. split; [apply forallb_good; reflexivity|vm_compute; reflexivity]. Qed.
Print Assumptions C15_model_resolution_hyps.
