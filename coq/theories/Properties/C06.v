(* C06 - the server answers each request exactly once with its own tag and result.
   Model: Model/Serve.v (conn.serve / read / write and the handler goroutines of serveconn.go as ONE
   transition system; every scheduling and environment choice is an event).  [run R init evs = Some (s, tr)]:
   the event list evs is a possible execution of the (repaired) code, s the state reached, tr everything
   that happened (ORecv: the loop received request rid; ODispatch: Handler.Handle invoked; OFin: Handle
   returned; OTake: frame passed to conn.Write; OFrame: that write succeeded; OCancel; OReturn; OStop).
   Only statements, each closed by [exact lemma]. *)
From Coq Require Import List NArith Bool.
From stdpp Require Import gmap.
From P9 Require Import Model.Serve Proofs.ServeProofs Proofs.ServeProofs2 Proofs.ServeProofs3 Proofs.ServeProofs4 Proofs.ServeWitness.
Import ListNotations.
Open Scope N_scope.

(* 1. for EVERY event list: a request is received at most once, handed to the handler at most once, and a
      dispatch carries exactly the message of the request with that id *)
Theorem C06_dispatch_once : forall evs s tr, run R init evs = Some (s, tr) ->
  NoDup (recv_ids tr) /\ NoDup (disp_ids tr) /\
  forall rid m, In (ODispatch rid m) tr -> exists tag, In (ORecv rid tag (KReq m)) tr.
Proof. exact ev_dispatch_once. Qed.
Print Assumptions C06_dispatch_once.

(*    ... and a request whose tag is not outstanding IS dispatched, with its message, when the loop receives it *)
Theorem C06_dispatch_on_arrival : forall s rid tag m,
  pc s = Main -> rd s = RHold rid tag (KReq m) -> tags s !! tag = None ->
  exists s' o, step R s EArrive = Some (s', o) /\ In (ODispatch rid m) o /\ tags s' !! tag = Some rid /\
               exists h, hs s' !! rid = Some h /\ h_tag h = tag /\ h_st h = HRun.
Proof. exact dispatch_on_arrival. Qed.
Print Assumptions C06_dispatch_on_arrival.

(* 2. every frame handed to the conn is [own]: it carries the tag of the request it answers and is the
      duplicate-tag error for that request, a flush reply for that (flush) request, or reply_of the result
      which the handler dispatched for THAT request returned *)
Theorem C06_reply_own : forall evs s tr, run R init evs = Some (s, tr) ->
  forall f, In (OTake f) tr -> own tr f.
Proof. exact ev_reply_own. Qed.
Print Assumptions C06_reply_own.

(*    at most one frame per request is ever handed to the conn; a handler returns at most one result;
      a frame on the wire is a frame that was handed to the conn *)
Theorem C06_reply_at_most_once : forall evs s tr, run R init evs = Some (s, tr) -> NoDup (hand_ids tr).
Proof. exact ev_reply_at_most_once. Qed.
Print Assumptions C06_reply_at_most_once.

Theorem C06_result_unique : forall evs s tr, run R init evs = Some (s, tr) ->
  forall rid r1 r2, In (OFin rid r1) tr -> In (OFin rid r2) tr -> r1 = r2.
Proof. exact ev_result_unique. Qed.
Print Assumptions C06_result_unique.

Theorem C06_frame_was_taken : forall evs s tr, run R init evs = Some (s, tr) ->
  forall f, In (OFrame f) tr -> In (OTake f) tr.
Proof. exact ev_frame_was_taken. Qed.
Print Assumptions C06_frame_was_taken.

(* 3. in every fault-free quiescent state (loop idle, writer idle, nothing unread, conn open, context live,
      every handler returned and processed) every request sent has its own reply on the wire - or was
      flushed and the flush acknowledged *)
Theorem C06_reply_exists : forall evs s tr, run R init evs = Some (s, tr) -> settled s ->
  forall rid, rid < nsent s ->
    (exists f, In (OFrame f) tr /\ f_rid f = rid /\ own tr f) \/ flush_acked tr rid.
Proof. exact ev_reply_exists. Qed.
Print Assumptions C06_reply_exists.

(* 4. a request reusing an outstanding tag: Rerror "duplicate tag" with its tag is queued, it is not
      dispatched (the only output is the receipt), tag table, handlers and writer are untouched *)
Theorem C06_duptag : forall s rid tag k r0,
  pc s = Main -> rd s = RHold rid tag k -> tags s !! tag = Some r0 ->
  exists s', step R s EArrive = Some (s', [ORecv rid tag k]) /\
             pc s' = SendImm {| f_rid := rid; f_tag := tag; f_pl := PErr err_duptag |} /\
             tags s' = tags s /\ hs s' = hs s /\ wr s' = wr s.
Proof. exact duptag. Qed.
Print Assumptions C06_duptag.

(* 5. newErrorFcall: an ordinary error becomes Rerror with its Error() text, a MessageRerror value passes
      through, a message is sent as it is *)
Theorem C06_error_text : (forall e, reply_of (RErr e) = PErr e) /\ (forall e, reply_of (RErrMsg e) = PErr e) /\
                         (forall m, reply_of (RMsg m) = PMsg m).
Proof. exact error_text. Qed.
Print Assumptions C06_error_text.

(* non-vacuity: a run that ends settled with the request's reply on the wire; a state in which a
   duplicate arrives while the first request is running *)
Example C06_example_settled : exists s tr, run R init run_one = Some (s, tr) /\ settled s /\ nsent s = 1 /\
  In (OFrame {| f_rid := 0; f_tag := 5; f_pl := PMsg [121; 65] |}) tr /\ In (ODispatch 0 m1) tr.
Proof. exact ex_run_one. Qed.
Print Assumptions C06_example_settled.

Example C06_example_dup : exists s tr, run R init run_dup = Some (s, tr) /\ pc s = Main /\
  rd s = RHold 1 5 (KReq m2) /\ tags s !! 5 = Some 0.
Proof. exact ex_run_dup. Qed.
Print Assumptions C06_example_dup.
