(* C08 - the server session follows the 9P fid state machine. (theorems follow) *)
From stdpp Require Import gmap.
From P9 Require Import Model.Path Model.Session.

(* the witnesses of D8 and D9 on the repaired code *)
Example C08_attach_afid_unlocks :
  results (srun sess0 [(OAttach 0 NOFID, [Tok 0 true 0]); (OAttach 1 0, []); (OStat 0, [])])
  = [ROk 0; RErr EUnknown; ROk 0].
Proof. vm_compute. reflexivity. Qed.

Example C08_create_dir_opendir_fails_returns :
  results (srun sess0 [(OAttach 0 NOFID, [Tok 0 true 0]); (OCreate 0 [110] 0, [Tok 0 true 0; Tok 1 false 0])])
  = [ROk 0; RErr EFs].
Proof. vm_compute. reflexivity. Qed.
