(* C08 - the server session follows the 9P fid state machine.
   Stage 1 (unrepaired code): the faithful model refutes "every operation returns". *)
From stdpp Require Import gmap.
From P9 Require Import Model.Path Model.Session.

(* D8: attach with an afid that is bound but not open leaves the afid locked for ever *)
Example C08_refuted_attach_afid_leaks_lock :
  results (srun sess0 [(OAttach 0 NOFID, [Tok 0 true 0]); (OAttach 1 0, []); (OStat 0, [])])
  = [ROk 0; RErr EUnknown; RHang].
Proof. vm_compute. reflexivity. Qed.

(* D9: create of a directory whose OpenDir fails deadlocks on the parent's own lock *)
Example C08_refuted_create_dir_opendir_fails :
  results (srun sess0 [(OAttach 0 NOFID, [Tok 0 true 0]); (OCreate 0 [110] 0, [Tok 0 true 0; Tok 1 false 0])])
  = [ROk 0; RHang].
Proof. vm_compute. reflexivity. Qed.
