(* C08 - the server session follows the 9P fid state machine, for every
   operation sequence and every file-system behaviour.
   Only statements: each is closed by [exact lemma]; Print Assumptions follows.

   Vocabulary (Model/Session.v, Model/FidSpec.v, Proofs/SessionClauses.v):
     srun sess0 ops      the session model run on ops : list (op * list tok); the token list of an
                         operation fixes the outcome of each file-system call it makes
     sp_run spec0 ops    the reference fid table of the property text run on the same input
     abs s               the fid table of session state s:  fid |-> (entry, dir bit, open mode)
     reach s             s is the state after some operation sequence (without Stop) from the empty session
     fid_of s f          = sp_lookup (abs s) f: what fid f is bound to (None for NOFID and unbound fids) *)
From stdpp Require Import gmap.
From Coq Require Import NArith ZArith.
From P9 Require Import Model.Path Model.Session Model.FidSpec
  Proofs.SessionProofs Proofs.SessionGhost Proofs.SessionClauses.
From P9 Require Gen.GenConsts.
Open Scope N_scope.

(* The session behaves like the reference fid table: same results, same final table,
   and every operation returns. *)
Theorem C08_refines : ∀ ops, no_stop ops →
  let tr := srun sess0 ops in
  results tr = (sp_run spec0 ops).2 ∧
  abs (final sess0 tr) = (sp_run spec0 ops).1 ∧
  Forall (λ r, r ≠ RHang) (results tr) ∧
  length tr = length ops.
Proof. exact refines_from_empty. Qed.
Print Assumptions C08_refines.

(* the simulation step itself, from any well-formed state (no SFid locked, none a placeholder) *)
Theorem C08_step_refines : ∀ s o ts, WF s → is_stop o = false →
  refines s (sstep s o ts) (sp_step (abs s) o ts).
Proof. exact step_refines. Qed.
Print Assumptions C08_step_refines.

Theorem C08_reach_closed : ∀ s o ts, reach s → is_stop o = false → reach (sstep s o ts).1.1.
Proof. exact reach_step. Qed.
Print Assumptions C08_reach_closed.

(* NOFID and the open-mode values the model uses (mode & 3 against 1 and 2) are the source's:
   Gen/GenConsts.v is regenerated from /repo by the translator before every build *)
Theorem C08_constants_match_source :
  NOFID = GenConsts.c_NOFID ∧ GenConsts.c_OREAD = 0 ∧ GenConsts.c_OWRITE = 1 ∧
  GenConsts.c_ORDWR = 2 ∧ GenConsts.c_OEXEC = 3.
Proof. exact consts_match_source. Qed.
Print Assumptions C08_constants_match_source.

(* ---- the clauses of the property text ---- *)

(* operations on an unbound fid (or NOFID) fail and change nothing *)
Theorem C08_unbound_fails : ∀ s s' o ts r cs, reach s → sstep s o ts = (s', r, cs) →
  ∀ f, op_fid o = Some f → sp_lookup (abs s) f = None → (∃ e, r = RErr e) ∧ abs s' = abs s.
Proof. exact cl_unbound_fails. Qed.
Print Assumptions C08_unbound_fails.

(* the reserved no-fid value cannot be bound: attach onto it and walk onto it fail *)
Theorem C08_nofid_target : ∀ s s' o ts r cs, reach s → sstep s o ts = (s', r, cs) →
  ((∃ a, o = OAttach NOFID a) ∨ (∃ f names, o = OWalk f NOFID names ∧ f ≠ NOFID)) →
  (∃ e, r = RErr e) ∧ abs s' = abs s.
Proof. exact cl_nofid_target. Qed.
Print Assumptions C08_nofid_target.

(* attach / walk onto a bound fid: duplicate fid, nothing changes *)
Theorem C08_attach_dup : ∀ s s' o ts r cs, reach s → sstep s o ts = (s', r, cs) →
  ∀ f, o = OAttach f NOFID → is_Some (sp_lookup (abs s) f) → r = RErr EDup ∧ abs s' = abs s.
Proof. exact cl_attach_dup. Qed.
Print Assumptions C08_attach_dup.

Theorem C08_walk_dup : ∀ s s' o ts r cs, reach s → sstep s o ts = (s', r, cs) →
  ∀ f nf names, o = OWalk f nf names → is_Some (sp_lookup (abs s) f) → nf ≠ f →
  is_Some (sp_lookup (abs s) nf) → (0 ≤ valid_path names)%Z → r = RErr EDup ∧ abs s' = abs s.
Proof. exact cl_walk_dup. Qed.
Print Assumptions C08_walk_dup.

(* a complete walk binds newfid to the walked-to entry (the next entry the file system hands
   over), not open, and leaves every other fid - the source included - as it was; with
   newfid = fid this moves fid *)
Theorem C08_walk_complete : ∀ s s' o ts r cs, reach s → sstep s o ts = (s', r, cs) →
  ∀ f nf names, o = OWalk f nf names → ¬ (names = [] ∧ nf = f) →
  r = ROk (N.of_nat (length names)) →
  tab (abs s') = <[nf := Bind (next s) (t_dir (tokn ts 0)) None]> (tab (abs s)).
Proof. exact cl_walk_complete. Qed.
Print Assumptions C08_walk_complete.

(* a partial or failed walk binds nothing *)
Theorem C08_walk_incomplete : ∀ s s' o ts r cs, reach s → sstep s o ts = (s', r, cs) →
  ∀ f nf names, o = OWalk f nf names → r ≠ ROk (N.of_nat (length names)) → abs s' = abs s.
Proof. exact cl_walk_incomplete. Qed.
Print Assumptions C08_walk_incomplete.

(* clunk and remove always unbind the fid (whatever the file system answers) ... *)
Theorem C08_clunk_unbinds : ∀ s s' o ts r cs, reach s → sstep s o ts = (s', r, cs) →
  ∀ f, (o = OClunk f ∨ o = ORemove f) → is_Some (sp_lookup (abs s) f) →
  tab (abs s') = delete f (tab (abs s)) ∧ sp_lookup (abs s') f = None.
Proof. exact cl_del_unbinds. Qed.
Print Assumptions C08_clunk_unbinds.

(* ... and an unbound fid can be (re)used *)
Theorem C08_reuse : ∀ s s' o ts r cs, reach s → sstep s o ts = (s', r, cs) →
  ∀ f, o = OAttach f NOFID → sp_lookup (abs s) f = None → f ≠ NOFID → fs_err (tokn ts 0) = false →
  r = ROk 0 ∧ sp_lookup (abs s') f = Some (Bind (next s) (t_dir (tokn ts 0)) None).
Proof. exact cl_reuse. Qed.
Print Assumptions C08_reuse.

(* Stop returns and empties the table: afterwards every fid is unbound (and can be used again) *)
Theorem C08_stop_empties : ∀ s ts s' r cs, reach s → sstep s OStop ts = (s', r, cs) →
  r = ROk 0 ∧ abs s' = Spec ∅ (next s).
Proof. exact stop_empties. Qed.
Print Assumptions C08_stop_empties.

(* a fid can be opened at most once *)
Theorem C08_open_once : ∀ s s' o ts r cs, reach s → sstep s o ts = (s', r, cs) →
  ∀ f m b, o = OOpen f m → sp_lookup (abs s) f = Some b → is_Some (b_open b) →
  r = RErr EIsopen ∧ abs s' = abs s.
Proof. exact cl_open_once. Qed.
Print Assumptions C08_open_once.

Theorem C08_open_ok : ∀ s s' o ts r cs, reach s → sstep s o ts = (s', r, cs) →
  ∀ f m n, o = OOpen f m → r = ROk n →
  ∃ b, sp_lookup (abs s) f = Some b ∧ b_open b = None ∧
       tab (abs s') = <[f := Bind (b_ent b) (b_dir b) (Some (m, false))]> (tab (abs s)).
Proof. exact cl_open_ok. Qed.
Print Assumptions C08_open_ok.

(* create leaves the fid open on the new entry *)
Theorem C08_create_leaves_open : ∀ s s' o ts r cs, reach s → sstep s o ts = (s', r, cs) →
  ∀ f name m n, o = OCreate f name m → r = ROk n →
  tab (abs s') = <[f := Bind (next s) (t_dir (tokn ts 0)) (Some (m, false))]> (tab (abs s)).
Proof. exact cl_create_ok. Qed.
Print Assumptions C08_create_leaves_open.

(* read / write succeed only on an open fid whose mode permits them *)
Theorem C08_read_mode : ∀ s s' o ts r cs, reach s → sstep s o ts = (s', r, cs) →
  ∀ f cnt n, o = ORead f cnt → r = ROk n →
  ∃ b m dn, sp_lookup (abs s) f = Some b ∧ b_open b = Some (m, dn) ∧ N.land m 3 ≠ 1.
Proof. exact cl_read_ok. Qed.
Print Assumptions C08_read_mode.

Theorem C08_write_mode : ∀ s s' o ts r cs, reach s → sstep s o ts = (s', r, cs) →
  ∀ f n, o = OWrite f → r = ROk n →
  ∃ b m dn, sp_lookup (abs s) f = Some b ∧ b_open b = Some (m, dn) ∧ (N.land m 3 = 1 ∨ N.land m 3 = 2).
Proof. exact cl_write_ok. Qed.
Print Assumptions C08_write_mode.

(* ---- non-vacuity: a reachable state in which the hypotheses of the clauses hold ----
   fid 0: a directory, open for reading; fid 1: a file reached by a walk, not open;
   fid 2: a file created and left open for writing; fid 3: unbound. *)
Definition ex_ops : list (op * list tok) :=
  [ (OAttach 0 NOFID, [Tok 0 true 0]);
    (OWalk 0 1 [[97]], [Tok 0 false 1]);
    (OWalk 0 2 [], [Tok 0 true 0]);
    (OCreate 2 [110] 1, [Tok 0 false 0]);
    (OOpen 0 0, []) ].
Definition ex_s : sess := after ex_ops.

Example C08_ex_reach : reach ex_s.
Proof. exists ex_ops. split; [repeat constructor|reflexivity]. Qed.

Example C08_ex_table :
  map_to_list (tab (abs ex_s)) ≡ₚ
  [ (0, Bind 0 true (Some (0, false))); (1, Bind 1 false None); (2, Bind 3 false (Some (1, false))) ].
Proof. vm_compute. reflexivity. Qed.

(* the run of the example agrees with the reference and nothing hangs (C08_refines, instantiated) *)
Example C08_ex_results : results (srun sess0 ex_ops) = [ROk 0; ROk 1; ROk 0; ROk 0; ROk 0]
  ∧ (sp_run spec0 ex_ops).2 = [ROk 0; ROk 1; ROk 0; ROk 0; ROk 0].
Proof. split; vm_compute; reflexivity. Qed.

(* hypotheses of the clauses, one by one *)
Example C08_ex_unbound : op_fid (ORead 3 8) = Some 3 ∧ sp_lookup (abs ex_s) 3 = None
  ∧ (sstep ex_s (ORead 3 8) []).1.2 = RErr EUnknown
  ∧ sp_lookup (abs ex_s) NOFID = None.
Proof. vm_compute. done. Qed.

Example C08_ex_dup : is_Some (sp_lookup (abs ex_s) 0) ∧ is_Some (sp_lookup (abs ex_s) 1) ∧ 1 ≠ 0
  ∧ (0 ≤ valid_path [[97%N]])%Z
  ∧ (sstep ex_s (OWalk 0 1 [[97]]) []).1.2 = RErr EDup
  ∧ (sstep ex_s (OAttach 1 NOFID) []).1.2 = RErr EDup.
Proof. split_and!; try (vm_compute; done); vm_compute; by eexists. Qed.

Example C08_ex_walk_complete_and_partial :
  (sstep ex_s (OWalk 0 3 [[97]; [98]]) [Tok 0 false 2]).1.2 = ROk 2
  ∧ (sstep ex_s (OWalk 0 3 [[97]; [98]]) [Tok 0 false 1]).1.2 = ROk 1
  ∧ (sstep ex_s (OWalk 0 0 [[97]]) [Tok 0 true 1]).1.2 = ROk 1   (* in place: moves fid 0 *)
  ∧ sp_lookup (abs (sstep ex_s (OWalk 0 0 [[97]]) [Tok 0 true 1]).1.1) 0 = Some (Bind 4 true None).
Proof. vm_compute. done. Qed.

Example C08_ex_clunk_remove_reuse :
  (sstep ex_s (OClunk 1) [Tok 1 false 0]).1.2 = RErr EFs      (* the file system's clunk fails ... *)
  ∧ sp_lookup (abs (sstep ex_s (OClunk 1) [Tok 1 false 0]).1.1) 1 = None   (* ... the fid is unbound all the same *)
  ∧ (sstep (sstep ex_s (ORemove 1) []).1.1 (OAttach 1 NOFID) [Tok 0 true 0]).1.2 = ROk 0.
Proof. vm_compute. done. Qed.

Example C08_ex_open_once_create_modes :
  (sstep ex_s (OOpen 0 0) []).1.2 = RErr EIsopen
  ∧ (sstep ex_s (OOpen 1 2) []).1.2 = ROk 0
  ∧ (sstep ex_s (ORead 0 8) []).1.2 = ROk 0         (* open OREAD *)
  ∧ (sstep ex_s (ORead 0 0) []).2 = []              (* an empty buffer does not reach the directory *)
  ∧ (sstep ex_s (OWrite 0) []).1.2 = RErr ENowrite
  ∧ (sstep ex_s (OWrite 2) []).1.2 = ROk 0          (* created with OWRITE *)
  ∧ (sstep ex_s (ORead 2 0) []).1.2 = RErr ENoread
  ∧ (sstep ex_s (ORead 1 8) []).1.2 = RErr ENofile.
Proof. vm_compute. done. Qed.

(* the witnesses of the two repaired dead-locks now return *)
Example C08_ex_attach_afid_returns :
  results (srun sess0 [(OAttach 0 NOFID, [Tok 0 true 0]); (OAttach 1 0, []); (OStat 0, [])])
  = [ROk 0; RErr EUnknown; ROk 0].
Proof. vm_compute. reflexivity. Qed.

Example C08_ex_create_dir_opendir_fails_returns :
  results (srun sess0 [(OAttach 0 NOFID, [Tok 0 true 0]); (OCreate 0 [110] 0, [Tok 0 true 0; Tok 1 false 0]); (OStat 0, [])])
  = [ROk 0; RErr EFs; RErr EUnknown].
Proof. vm_compute. reflexivity. Qed.
