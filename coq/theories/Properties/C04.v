(* C04 - Decoding untrusted bytes is panic-free, proportionate and stable. *)
From Coq Require Import List NArith ZArith Bool.
From P9 Require Import Base.Res Base.Bytes Model.WireTypes Model.Spec9P Model.Wire.
Import ListNotations.
Open Scope N_scope.

(* the two-byte inputs that made DecodeDir panic (D3) are plain errors in the model of the repaired code *)
Example C04_d3_witnesses : decode_dir [254; 255] = Err E_UEOF /\ decode_dir [255; 255] = Err E_UEOF.
Proof. split; vm_compute; reflexivity. Qed.
Print Assumptions C04_d3_witnesses.
