(* C04 - Decoding untrusted bytes is panic-free, proportionate and stable.
   Statements only; proofs in Proofs/WireDecode.v.  The model is that of the code after the
   repairs of D3 (DecodeDir size wrap) and D4 (allocation before the input is known to be there). *)
From Coq Require Import List NArith ZArith Bool.
From P9 Require Import Base.Res Base.Bytes Model.WireTypes Model.Spec9P Model.Wire Proofs.WireDecode.
Import ListNotations.
Open Scope N_scope.

(* 1. For EVERY byte string, decoding as a message and as a directory entry ends in a value or an
      error: the Panic and Hang outcomes are unreachable (termination is by construction: the
      decoders are structurally recursive on the kind list / on a count below 2^16). *)
Theorem C04_no_panic : forall bs, calm (dec_fcall bs) /\ calm (decode_dir bs).
Proof. intros bs. split; [exact (calm_dec_fcall bs) | exact (calm_decode_dir bs)]. Qed.
Print Assumptions C04_no_panic.

(* 2. Whatever length and count fields the input claims, the sizes the decoder passes to make()
      on the path it takes sum to at most 19 bytes per input byte (20 for DecodeDir).
      PARTIAL with respect to the property text: this bounds what the repository's code requests;
      what the Go runtime and encoding/binary add on top is measured by the harness, not proved. *)
Theorem C04_alloc_partial : forall bs, alloc_fcall bs <= 19 * len bs /\ alloc_decode_dir bs <= 20 * len bs.
Proof. intros bs. split; [exact (alloc_fcall_linear bs) | exact (alloc_decode_dir_linear bs)]. Qed.
Print Assumptions C04_alloc_partial.

(* 3. Whenever decoding succeeds, the value is wire-representable, and re-encoding it and decoding
      that again yields the same value (allb: the elements of the input are bytes). *)
Theorem C04_stable : forall bs f, allb bs -> len bs < M32 - 16 -> dec_fcall bs = Ok f ->
  wf_fcall f = true /\ dec_fcall (enc_fcall f) = Ok f.
Proof. exact dec_fcall_stable. Qed.
Print Assumptions C04_stable.

Theorem C04_stable_dir : forall bs fs r, allb bs -> decode_dir bs = Ok (fs, r) ->
  wf_dir fs = true /\ decode_dir (enc_dir fs) = Ok (fs, []).
Proof. exact decode_dir_stable. Qed.
Print Assumptions C04_stable_dir.

(* non-vacuity and the witnesses of the repaired defects *)
Example C04_d3_witnesses : decode_dir [254; 255] = Err E_UEOF /\ decode_dir [255; 255] = Err E_UEOF.
Proof. split; vm_compute; reflexivity. Qed.
Print Assumptions C04_d3_witnesses.

Example C04_d4_witnesses :
  (* a 7-byte Rread claiming 2^32-1 bytes of data, a 13-byte Twalk claiming 65535 names *)
  dec_fcall [117; 0; 0; 255; 255; 255; 255] = Err E_UEOF /\ alloc_fcall [117; 0; 0; 255; 255; 255; 255] = 0 /\
  dec_fcall [110; 0; 0; 1; 0; 0; 0; 2; 0; 0; 0; 255; 255] = Err E_UEOF /\ alloc_fcall [110; 0; 0; 1; 0; 0; 0; 2; 0; 0; 0; 255; 255] = 0.
Proof. repeat split; vm_compute; reflexivity. Qed.
Print Assumptions C04_d4_witnesses.

Example C04_stable_nonvacuous :
  exists f, dec_fcall [110; 5; 0; 1; 0; 0; 0; 2; 0; 0; 0; 1; 0; 1; 0; 97; 9; 9] = Ok f /\ fc_type f = 110.
Proof. eexists. split; vm_compute; reflexivity. Qed.
Print Assumptions C04_stable_nonvacuous.
