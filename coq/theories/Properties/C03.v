(* C03 - Inbound framing stays synchronised, frame-isolated and crash-free.
   Statements only; proofs in Proofs/ChannelRead.v.  read_fcall models ReadFcall (after the repairs
   of D1 and D2) with the reused read buffer as explicit state. *)
From Coq Require Import List NArith ZArith Bool.
From P9 Require Import Base.Res Base.Bytes Model.WireTypes Model.Spec9P Model.Wire Model.Channel
  Proofs.WireDecode Proofs.ChannelRead Proofs.ChannelCompose.
Import ListNotations.
Open Scope N_scope.

(* 1. One read consumes exactly one length-prefixed frame and its outcome is [classify msize L body]:
      an overflow of exactly the excess when L > msize, else the decoded message (a read request with
      its count lowered), else the decoder's error -- a function of the frame's bytes and msize only. *)
Theorem C03_one_frame : forall msize buf L body rest,
  4 <= L -> L < M32 -> len body = L - 4 ->
  exists buf', read_fcall msize buf (frame_bytes L body ++ rest) = (classify msize L body, buf', rest).
Proof. exact read_one_frame. Qed.
Print Assumptions C03_one_frame.

(* 2. A frame with an impossible length (size field 0..3) yields an error and consumes its four bytes. *)
Theorem C03_bad_size : forall msize buf L rest, L < 4 ->
  read_fcall msize buf (le 4 L ++ rest) = (RErr E_BADSIZE, buf, rest).
Proof. exact read_bad_size. Qed.
Print Assumptions C03_bad_size.

(* 3. Isolation: for EVERY stream (well-framed or not) the outcome and the remaining stream do not
      depend on what earlier traffic left in the read buffer. *)
Theorem C03_isolation : forall msize b1 b2 s,
  fst (fst (read_fcall msize b1 s)) = fst (fst (read_fcall msize b2 s)) /\
  snd (read_fcall msize b1 s) = snd (read_fcall msize b2 s).
Proof. exact read_isolated. Qed.
Print Assumptions C03_isolation.

(* 4. No byte stream, buffer content or msize reaches the Panic outcome. *)
Theorem C03_no_panic : forall msize buf s, fst (fst (read_fcall msize buf s)) <> RPanic.
Proof. exact read_no_panic. Qed.
Print Assumptions C03_no_panic.

(* 5. Resynchronisation: successive reads over any concatenation of frames -- valid, oversize,
      undecodable in any order -- yield each frame's own outcome, so every later well-formed frame is
      still delivered. *)
Theorem C03_resync : forall msize frames buf tail, Forall well_framed frames ->
  read_many (length frames) msize buf (concat (map (fun fr => frame_bytes (fst fr) (snd fr)) frames) ++ tail)
  = map (fun fr => classify msize (fst fr) (snd fr)) frames.
Proof. exact read_frames. Qed.
Print Assumptions C03_resync.

(* 6. A frame within msize (also of exactly msize) whose body decodes is delivered as a message. *)
Theorem C03_valid_delivered : forall msize L body f,
  24 <= msize -> msize < M32 - 12 -> L <= msize -> len body + 4 = L -> allb body ->
  dec_fcall body = Ok f -> exists f', classify msize L body = RMsg f'.
Proof. exact read_valid_is_msg. Qed.
Print Assumptions C03_valid_delivered.

(* 7. A read request's count is lowered on receipt so that its reply fits in msize. *)
Theorem C03_tread_clamped : forall msize L body f, 24 <= msize -> msize < M32 -> L <= msize ->
  dec_fcall body = Ok f -> wf_fcall f = true -> fc_type f = T_Tread ->
  exists fid off c c',
    fc_fields f = [VF (FInt 4 fid); VF (FInt 8 off); VF (FInt 4 c)] /\
    classify msize L body = RMsg {| fc_type := T_Tread; fc_tag := fc_tag f;
                                   fc_fields := [VF (FInt 4 fid); VF (FInt 8 off); VF (FInt 4 c')] |} /\
    c' <= c /\ 11 + c' <= msize /\ (11 + c <= msize -> c' = c).
Proof. exact read_tread_clamped. Qed.
Print Assumptions C03_tread_clamped.

(* 8. Composition with C01 and C02: what one end's WriteFcall emits, the other end's ReadFcall (same
      msize) delivers as exactly the message that was sent -- the original, or its clamped form for a
      read/write request -- whatever follows on the stream and whatever the read buffer held. *)
Theorem C03_write_then_read : forall msize f out buf rest,
  wf_fcall f = true -> 24 <= msize -> msize < M32 ->
  write_fcall msize true f = (out, WSent) ->
  exists f' buf', sent_form msize f = Some f' /\ read_fcall msize buf (out ++ rest) = (RMsg f', buf', rest).
Proof. exact write_then_read. Qed.
Print Assumptions C03_write_then_read.

(* witnesses of the repaired defects, and non-vacuity *)
Example C03_d1_witness :
  read_many 2 64 [] ([2;0;0;0] ++ [11;0;0;0; 120; 5;0; 7;0;0;0]) =
  [RErr E_BADSIZE; RMsg {| fc_type := T_Tclunk; fc_tag := 5; fc_fields := [VF (FInt 4 7)] |}].
Proof. vm_compute. reflexivity. Qed.
Print Assumptions C03_d1_witness.

Example C03_d2_witness :
  read_many 2 64 [] ([11;0;0;0; 120; 5;0; 7;0;0;0] ++ [7;0;0;0; 120; 6;0]) =
  [RMsg {| fc_type := T_Tclunk; fc_tag := 5; fc_fields := [VF (FInt 4 7)] |}; RErr E_EOF].
Proof. vm_compute. reflexivity. Qed.
Print Assumptions C03_d2_witness.

Example C03_resync_example :
  (* oversize frame, then undecodable frame, then a valid Tclunk: the last is still delivered *)
  well_framed (40, repeat 9 36) /\ well_framed (7, [255; 0; 0]) /\ well_framed (11, [120; 5;0; 7;0;0;0]) /\
  read_many 3 32 [] (frame_bytes 40 (repeat 9 36) ++ frame_bytes 7 [255;0;0] ++ frame_bytes 11 [120; 5;0; 7;0;0;0]) =
  [ROverflow 8; RErr E_UNKNOWN; RMsg {| fc_type := T_Tclunk; fc_tag := 5; fc_fields := [VF (FInt 4 7)] |}].
Proof. repeat split; vm_compute; try reflexivity; intros H; discriminate H. Qed.
Print Assumptions C03_resync_example.
