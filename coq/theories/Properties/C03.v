(* C03 - Inbound framing stays synchronised, frame-isolated and crash-free. (theorems being added; see Proofs/ChannelProofs.v) *)
From Coq Require Import List NArith ZArith Bool.
From P9 Require Import Base.Res Base.Bytes Model.WireTypes Model.Spec9P Model.Wire Model.Channel.
Import ListNotations.
Open Scope N_scope.

(* the D1 witness: a size field of 2 is an error, and the next frame (a Tclunk of fid 7) is still delivered *)
Example C03_d1_witness :
  read_many 2 64 [] ([2;0;0;0] ++ [11;0;0;0; 120; 5;0; 7;0;0;0]) =
  [RErr E_BADSIZE; RMsg {| fc_type := T_Tclunk; fc_tag := 5; fc_fields := [VF (FInt 4 7)] |}].
Proof. vm_compute. reflexivity. Qed.
Print Assumptions C03_d1_witness.

(* the D2 witness: a Tclunk frame lacking its fid is an error although the buffer still holds the previous frame *)
Example C03_d2_witness :
  read_many 2 64 [] ([11;0;0;0; 120; 5;0; 7;0;0;0] ++ [7;0;0;0; 120; 6;0]) =
  [RMsg {| fc_type := T_Tclunk; fc_tag := 5; fc_fields := [VF (FInt 4 7)] |}; RErr E_EOF].
Proof. vm_compute. reflexivity. Qed.
Print Assumptions C03_d2_witness.
