(* C07 - flush cancels the request, silences its reply and frees the tag safely.
   Same model and notation as C06.v.  [PFlushAck v]: the Rflush reply; v is (ghost) the request the
   flush removed from the tag table.  [handed tr f]: frame f was passed to the writer's WriteFcall. *)
From Coq Require Import List NArith Bool.
From stdpp Require Import gmap.
From P9 Require Import Model.Serve Proofs.ServeProofs Proofs.ServeProofs2 Proofs.ServeProofs3 Proofs.ServeProofs4 Proofs.ServeWitness.
Import ListNotations.
Open Scope N_scope.

(* 0. what the loop does with Tflush(old) when old is outstanding: holder cancelled and removed, Rflush queued *)
Theorem C07_flush_known : forall s rid tag old ro,
  pc s = Main -> rd s = RHold rid tag (KFlush old) -> tags s !! tag = None -> tags s !! old = Some ro ->
  exists s' o, step R s EArrive = Some (s', o) /\
             pc s' = SendImm {| f_rid := rid; f_tag := tag; f_pl := PFlushAck ro |} /\
             tags s' = delete old (tags s) /\
             (forall h, hs s !! ro = Some h -> exists h', hs s' !! ro = Some h' /\ h_canc h' = true).
Proof. exact flush_known. Qed.
Print Assumptions C07_flush_known.

(* 1. cancel before ack: whenever a step hands an Rflush to the conn, the flushed request's context was
      cancelled strictly earlier *)
Theorem C07_cancel_then_ack : forall evs s tr, run R init evs = Some (s, tr) ->
  forall e s' o f v, step R s e = Some (s', o) -> In (OTake f) o -> f_pl f = PFlushAck v -> In (OCancel v) tr.
Proof. exact ev_cancel_then_ack. Qed.
Print Assumptions C07_cancel_then_ack.

(* 2. silence: once the Rflush has been handed to the conn, for EVERY later event list (the handler
      returning before, during or after, honouring the cancellation or not, the tag being reused or not)
      no frame answering the flushed request is handed to the conn *)
Theorem C07_silence : forall evs s tr, run R init evs = Some (s, tr) ->
  forall f v, handed tr f -> f_pl f = PFlushAck v ->
  forall later s' tr', run R s later = Some (s', tr') ->
  forall f', In (OTake f') tr' \/ In (OLost f') tr' -> f_rid f' <> v.
Proof. exact ev_silence. Qed.
Print Assumptions C07_silence.

(* 3. safe reuse: after the acknowledgement the flushed request holds no tag (so a request reusing its
      tag is dispatched as a new request, C06_dispatch_on_arrival), and every later frame is the own reply
      of the request it answers, never of the flushed one *)
Theorem C07_reuse : forall evs s tr, run R init evs = Some (s, tr) ->
  forall f v, handed tr f -> f_pl f = PFlushAck v ->
  (forall t, tags s !! t <> Some v) /\
  forall later s' tr', run R s later = Some (s', tr') ->
  forall f', In (OTake f') tr' -> f_rid f' <> v /\ own (tr ++ tr') f'.
Proof. exact ev_reuse. Qed.
Print Assumptions C07_reuse.

(* 4. a flush naming a tag that is not outstanding: Rerror "unknown tag" queued, nothing else changes;
      that it is sent exactly once is C06_reply_at_most_once + C06_reply_exists *)
Theorem C07_unknown : forall s rid tag old,
  pc s = Main -> rd s = RHold rid tag (KFlush old) -> tags s !! tag = None -> tags s !! old = None ->
  exists s', step R s EArrive = Some (s', [ORecv rid tag (KFlush old)]) /\
             pc s' = SendImm {| f_rid := rid; f_tag := tag; f_pl := PErr err_unknowntag |} /\
             tags s' = tags s /\ hs s' = hs s.
Proof. exact flush_unknown. Qed.
Print Assumptions C07_unknown.

(* non-vacuity: a run in which a running request is flushed and the Rflush handed to the conn; its
   continuation in which the tag is reused and the flushed handler returns late, and the new request
   receives its own reply *)
Example C07_example_flush : exists s tr, run R init run_flush = Some (s, tr) /\ handed tr ack /\ In (OCancel 0) tr /\
  tags s !! 5 = None.
Proof. exact ex_run_flush. Qed.
Print Assumptions C07_example_flush.

Example C07_example_reuse : exists s tr, run R init (run_flush ++ run_reuse_late) = Some (s, tr) /\ settled s /\
  In (OFrame {| f_rid := 2; f_tag := 5; f_pl := PErr [98; 111; 111; 109] |}) tr /\
  forall f, In (OTake f) tr -> f_rid f <> 0.
Proof. exact ex_reuse_repaired. Qed.
Print Assumptions C07_example_reuse.

(* the code as found (completions matched by tag only, D5) refuted 2 and 3: on the same schedule the
   flushed request's result is written after the Rflush and request 2 is never answered *)
Example C07_legacy_refuted : exists s tr, run legacy init (run_flush ++ run_reuse_late_legacy) = Some (s, tr) /\
  handed tr ack /\ In (OFrame {| f_rid := 0; f_tag := 5; f_pl := PMsg [121; 65] |}) tr /\
  quiescent legacy s = true /\ pc s = Main /\ closed s = false /\ ctxd s = false /\ all_gone s = true /\
  forall f, In (OTake f) tr -> f_rid f <> 2.
Proof. exact legacy_silence_refuted. Qed.
Print Assumptions C07_legacy_refuted.
