(* C12 - Client calls never hang; the client survives a misbehaving peer.
   Only statements, each closed by [exact lemma]. *)
From Coq Require Import List NArith Bool.
From stdpp Require Import nmap fin_maps.
From P9 Require Import Gen.GenReplyTypes Model.Tags Proofs.TagsProofsAlloc.
Import ListNotations.
Open Scope N_scope.

(* the allocator never reaches its "unexpected error" exit: a call is refused only when the pool is exhausted *)
Theorem C12_alloc_never_unexpected : forall (m : tagmap) h, allocate m h <> inr EAllocUnexpected.
Proof. exact allocate_never_unexpected. Qed.
