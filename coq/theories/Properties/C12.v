(* C12 - Client calls never hang; the client survives a misbehaving peer.

   Only statements, each closed by [exact lemma], plus non-vacuity Examples.
   Model: Model/Tags.v (owner loop, reader outcomes as events, the two selects
   of send as the SET of outcomes Go may choose, the type assertion of each
   session method from the regenerated table GenReplyTypes.reply_types).

   What the peer can do is an event: EResp t r with ANY tag (unknown, repeated,
   NOTAG) and ANY decodable type; undecodable input, truncated frames and a
   closed connection are EReadFatal (ReadFcall returns a non-timeout error).

   Partial clauses: "within bounded time" (no clock in the model: what is
   proved is that a ready select case exists, i.e. no step of anybody else is
   needed; the harness applies generous time-outs) and byte-level decoding
   (channel.go / encoding.go belong to C03/C04; here a frame either decodes to
   (tag, type, payload) or is a fatal read error). *)
From stdpp Require Import nmap fin_maps.
From Coq Require Import List NArith Bool.
From P9 Require Import Gen.GenReplyTypes Model.Tags
  Proofs.TagsProofsAlloc Proofs.TagsProofs Proofs.TagsProofsDeliver.
Import ListNotations.
Open Scope N_scope.

(* 1. no event list - replies with unknown, repeated or NOTAG tags, of any
   type, in any order with anything else - makes the owner goroutine panic *)
Theorem C12_no_panic : forall evs,
  h_panicked (fst (run evs)) = false /\ ~ In OPanic (trace evs).
Proof. exact run_no_panic. Qed.

Example C12_stray_replies_are_dropped :
  trace [EReq 1 120; EHand; EWrote;
         EResp 65535 {| r_type := 111; r_id := 1 |};     (* NOTAG *)
         EResp 40000 {| r_type := 121; r_id := 2 |};     (* never issued *)
         EResp 1 {| r_type := 121; r_id := 3 |};
         EResp 1 {| r_type := 121; r_id := 4 |};         (* repeated *)
         EReq 2 116; EHand; EWrote; EResp 2 {| r_type := 117; r_id := 5 |}]
  = [OFrame 1 1 120; ODeliver 1 {| r_type := 121; r_id := 3 |};
     OFrame 2 2 116; ODeliver 2 {| r_type := 117; r_id := 5 |}].
Proof. vm_compute. reflexivity. Qed.

(* a reply whose tag is not outstanding changes nothing at all, and a reply
   with an outstanding tag touches no other tag's entry: other calls are undisturbed *)
Theorem C12_stray_reply_noop : forall st t r, h_out st !! t = None -> hstep st (EResp t r) = (st, []).
Proof. exact stray_reply_noop. Qed.

Theorem C12_reply_touches_only_its_tag : forall st t r t',
  t' <> t -> h_out (fst (hstep st (EResp t r))) !! t' = h_out st !! t'.
Proof. exact reply_touches_only_its_tag. Qed.

(* 2. a reply that is neither of the type the method asserts nor Rerror
   surfaces as ErrUnexpectedMsg (table read off csession.go) *)
Theorem C12_wrong_type : forall mt r,
  r_type r <> send_error_type ->
  (forall rt, expected_reply mt = Some rt -> r_type r <> rt) ->
  client_result mt (conv_reply r) = CUnexpected.
Proof. exact wrong_type_is_unexpected. Qed.

Example C12_wrong_type_nonvacuous :
  client_result 120 (conv_reply {| r_type := 117; r_id := 1 |}) = CUnexpected /\
  client_result 120 (conv_reply {| r_type := 120; r_id := 1 |}) = CUnexpected /\
  map (fun row => (snd (fst row), snd row)) reply_types =
  [(102, 103); (104, 105); (110, 111); (112, 113); (114, 115); (116, 117);
   (118, 119); (120, 121); (122, 123); (124, 125); (126, 127)].
Proof. vm_compute. auto. Qed.

(* 3. after a fatal read error or the end of the session context:
   (a) the loop's exit case is ready and taking it closes t.closed (the owner
       goroutine is there to take it: it never panics, C12_no_panic);
   (b) the flags are never reset;
   (c) once closed, every pending send has a ready case returning ErrClosed,
       and unless a reply was already in its channel every outcome is an error;
   (d) every later send returns an error out of its first select, nobody else moving *)
Theorem C12_exit_ready : forall st,
  h_panicked st = false -> h_closed st = false -> (h_shut st || h_ctx st) = true ->
  exit_enabled st = true /\ h_closed (fst (hstep st EExit)) = true /\ snd (hstep st EExit) = [OClosed].
Proof. exact exit_ready. Qed.

Theorem C12_never_stuck_after_failure : forall evs,
  let st := fst (run evs) in
  (h_shut st || h_ctx st) = true -> h_closed st = true \/ exit_enabled st = true.
Proof. exact never_stuck_after_failure. Qed.

Theorem C12_fatal_and_ctx_arm_the_exit : forall st,
  h_shut (fst (hstep st EReadFatal)) = true /\ h_ctx (fst (hstep st ECtxDone)) = true.
Proof. intros st. split; [exact (fatal_sets_shut st) | exact (ctxdone_sets_ctx st)]. Qed.

(* the reader goroutine does not retry a timeout-class read error once the
   session context has ended (for a context whose deadline passed, ReadFcall
   fails with such an error at once, every time): it returns, arming the exit *)
Theorem C12_reader_comes_to_rest : forall st,
  (h_ctx st || h_closed st) = true -> h_shut (fst (hstep st EReadRetry)) = true.
Proof. exact reader_stops. Qed.

Theorem C12_read_timeout_harmless : forall st,
  (h_ctx st || h_closed st) = false -> hstep st EReadRetry = (st, []).
Proof. exact reader_retry_harmless. Qed.

Theorem C12_flags_monotone : forall st e,
  (h_shut st = true -> h_shut (fst (hstep st e)) = true) /\
  (h_ctx st = true -> h_ctx (fst (hstep st e)) = true) /\
  (h_closed st = true -> h_closed (fst (hstep st e)) = true).
Proof. exact flags_monotone. Qed.

Theorem C12_after_close_pending : forall own e r,
  In SErrClosed (send_wait true own e r) /\
  (forall s, In s (send_wait true own e None) -> sres_is_error s = true).
Proof. exact send_wait_closed. Qed.

Theorem C12_after_close_later : forall own owner,
  In (Some SErrClosed) (send_first true own owner) /\
  (owner = false -> forall o, In o (send_first true own owner) -> exists s, o = Some s /\ sres_is_error s = true).
Proof. exact send_first_closed. Qed.

Example C12_after_close_nonvacuous :
  let '(st, tr) := run [EReq 1 120; EHand; EWrote; EReq 2 116; EReadFatal; EExit] in
  h_closed st = true /\ h_running st = false /\ tr = [OFrame 1 1 120; OClosed] /\
  send_wait (h_closed st) false (err_slot tr 1) (resp_slot tr 1) = [SErrClosed] /\
  send_first (h_closed st) false (h_running st) = [Some SErrClosed].
Proof. vm_compute. auto 6. Qed.

(* 4. a call whose own context ends has a ready case returning that context's
   error (the only one if nothing else happened); the owner loop does not see
   the cancellation at all: its state - in particular the tag, which stays
   outstanding - and every other call's deliveries are unchanged *)
Theorem C12_own_ctx : forall closed e r,
  In SErrCtx (send_wait closed true e r) /\ send_wait false true None None = [SErrCtx].
Proof. exact send_wait_own_ctx. Qed.

Theorem C12_own_ctx_invisible : forall st c, hstep st (ECancel c) = (st, []).
Proof. exact cancel_is_invisible. Qed.

(* 5. the owner loop never blocks handing something to a call: over ALL event
   lists each call gets at most one reply and at most one error, and each of
   its two channels has capacity 1 *)
Theorem C12_owner_never_blocks_on_delivery : forall evs,
  List.NoDup (req_calls evs) ->
  List.NoDup (rcalls (trace evs)) /\ List.NoDup (ecalls (trace evs)) /\
  response_chan_cap = 1 /\ err_chan_cap = 1.
Proof.
  intros evs H. destruct (delivered_once evs H) as [Hr He]. destruct src_chan_caps as [Hc1 Hc2].
  repeat split; assumption.
Qed.

(* 6. a call is refused a tag only when 65535 tags are outstanding *)
Theorem C12_refused_only_when_exhausted : forall (m : tagmap) h,
  allocate m h <> inr EAllocUnexpected /\
  (allocate m h = inr EDepleted <-> (N.to_nat 65535 <= size m)%nat).
Proof. intros m h. split; [exact (allocate_never_unexpected m h) | exact (allocate_depleted_iff m h)]. Qed.

Print Assumptions C12_no_panic.
Print Assumptions C12_stray_replies_are_dropped.
Print Assumptions C12_stray_reply_noop.
Print Assumptions C12_reply_touches_only_its_tag.
Print Assumptions C12_wrong_type.
Print Assumptions C12_wrong_type_nonvacuous.
Print Assumptions C12_exit_ready.
Print Assumptions C12_never_stuck_after_failure.
Print Assumptions C12_fatal_and_ctx_arm_the_exit.
Print Assumptions C12_reader_comes_to_rest.
Print Assumptions C12_read_timeout_harmless.
Print Assumptions C12_flags_monotone.
Print Assumptions C12_after_close_pending.
Print Assumptions C12_after_close_later.
Print Assumptions C12_after_close_nonvacuous.
Print Assumptions C12_own_ctx.
Print Assumptions C12_own_ctx_invisible.
Print Assumptions C12_owner_never_blocks_on_delivery.
Print Assumptions C12_refused_only_when_exhausted.
