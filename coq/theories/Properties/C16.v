(* C16 - Path helpers accept exactly the safe names and never climb above root.
   Only statements, each closed by [exact lemma], with Print Assumptions. *)
From Coq Require Import List NArith ZArith Bool.
From P9 Require Import Base.Res Model.Path Proofs.PathProofs.
Import ListNotations.

(* validation accepts exactly the lists whose elements are safe and contain '..' only as a leading run;
   the value is the length of that run, and every other list yields -1 *)
Theorem C16_valid_iff : forall ns k,
  valid_path ns = Z.of_nat k <-> exists rest, ns = repeat DOTDOT k ++ rest /\ Forall ordinary rest.
Proof. exact valid_path_iff. Qed.
Print Assumptions C16_valid_iff.

Theorem C16_valid_else_minus1 : forall ns,
  valid_path ns = (-1)%Z \/ (0 <= valid_path ns)%Z.
Proof. exact valid_path_range. Qed.
Print Assumptions C16_valid_else_minus1.
