(* C16 - Path helpers accept exactly the safe names and never climb above root.
   Statements only; proofs in Proofs/PathProofs.v, PathWalk.v (on the path.Clean/Join lemmas of
   PathExtra.v and UfsProofsMirror.v).  Directories in canonical internal form are [render q] with
   every component of q good (non-empty, not "." or "..", no '/' and no '\'). *)
From Coq Require Import List NArith ZArith Bool.
From P9 Require Import Base.Res Base.GoRt Model.Path Model.Ufs Proofs.PathProofs Proofs.UfsProofsPath Proofs.UfsProofsMirror Proofs.PathWalk Gen.GenPath Proofs.GenPathEq.
Import ListNotations.

(* 1. Validation accepts exactly the lists whose elements contain no separator, are neither empty nor
      '.', and contain '..' only as a leading run; its value is the length of that run, else -1. *)
Theorem C16_valid_iff : forall ns k,
  valid_path ns = Z.of_nat k <-> exists rest, ns = repeat DOTDOT k ++ rest /\ Forall ordinary rest.
Proof. exact valid_path_iff. Qed.
Print Assumptions C16_valid_iff.

Theorem C16_valid_else_minus1 : forall ns, valid_path ns = (-1)%Z \/ (0 <= valid_path ns)%Z.
Proof. exact valid_path_range. Qed.
Print Assumptions C16_valid_else_minus1.

Theorem C16_accepted_names : forall ns, names_okb true ns = true <->
  exists k rest, ns = repeat DOTDOT k ++ rest /\ Forall ordinary rest.
Proof. exact names_okb_iff. Qed.
Print Assumptions C16_accepted_names.

(* 2. WalkName from a canonical directory: for accepted names it IS stepwise resolution
      ([resolve_names]: '..' pops a component, a name pushes one), also for the empty list, and
      the result is again canonical; it is rejected exactly when resolution would climb above
      the root, i.e. when the leading run of '..' is longer than the directory is deep;
      names that are not accepted are rejected. *)
Theorem C16_walk : forall q ns, Forall good q -> names_okb true ns = true ->
  walk_name (render q) ns = map_res render (resolve_names q ns) /\
  (forall q', resolve_names q ns = Ok q' -> Forall good q').
Proof. exact walk_name_is_resolution. Qed.
Print Assumptions C16_walk.

Theorem C16_walk_climb : forall q k rest, forallb goodb rest = true ->
  resolve_names q (repeat DOTDOT k ++ rest) =
    if Nat.leb k (length q) then Ok (firstn (length q - k) q ++ rest) else Err [].
Proof. exact resolve_climbs. Qed.
Print Assumptions C16_walk_climb.

Theorem C16_walk_rejects : forall q ns, names_okb true ns = false -> walk_name (render q) ns = Err [].
Proof. exact walk_name_rejects. Qed.
Print Assumptions C16_walk_rejects.

(* 3. CreateName accepts exactly the safe names other than '..' and yields dir/name. *)
Theorem C16_create : forall q n, Forall good q ->
  create_name (render q) n = (if goodb n then Ok (render (q ++ [n])) else Err []).
Proof. exact create_name_resolve. Qed.
Print Assumptions C16_create.

(* 4. NormalizePath: an error exactly when some element has a separator; otherwise the result is k
      leading '..' followed by ordinary names, resolving it stepwise from any directory equals
      resolving the original list leniently ('' and '.' skipped), and normalising again changes
      nothing (idempotence) while validation of the result returns the same k. *)
Theorem C16_normalize : forall ns,
  match normalize_go ns [] 0 with
  | None => existsb has_sep ns = true /\ normalize_path ns = ([], (-1)%Z)
  | Some (ms, k) =>
      normalize_path ns = (ms, k) /\ existsb has_sep ns = false /\ (0 <= k)%Z /\
      (exists ord, ms = repeat DOTDOT (Z.to_nat k) ++ ord /\ Forall ordinary ord) /\
      (forall q, resolve_names q ms = resolve_len q ns)
  end.
Proof. exact normalize_spec. Qed.
Print Assumptions C16_normalize.

Theorem C16_normalize_idempotent : forall ns ms k, normalize_path ns = (ms, k) -> (0 <= k)%Z ->
  normalize_path ms = (ms, k) /\ valid_path ms = k.
Proof. exact normalize_idempotent. Qed.
Print Assumptions C16_normalize_idempotent.

(* 5. ToWalk returns valid steps (none climbing for an absolute path) that resolve like the path. *)
Theorem C16_towalk : forall p isabs steps, to_walk p = (isabs, Ok steps) ->
  (0 <= valid_path steps)%Z /\ (isabs = true -> valid_path steps = 0%Z) /\
  (forall q, resolve_names q steps = resolve_len q (split_slash (trim_slash p))).
Proof. exact to_walk_valid. Qed.
Print Assumptions C16_towalk.

(* 6. The tie, as theorems: [Gen/GenPath.v] is the translation of the CURRENT source of path.go
      (harness/cmd/gen/gofn.go: every statement of the five helpers, regenerated before every build),
      and the model the statements above are about computes, for every input, exactly what that
      translation computes - including the panic of WalkName on an empty directory string and the
      error texts, which the model drops.  A change of path.go that changes what a helper computes
      breaks one of these proof obligations. *)
Theorem C16_source_ValidPath : forall args, gen_ValidPath args = Ret (valid_path args).
Proof. exact gen_ValidPath_eq. Qed.
Print Assumptions C16_source_ValidPath.

Theorem C16_source_NormalizePath : forall args, gen_NormalizePath args = Ret (normalize_path args).
Proof. exact gen_NormalizePath_eq. Qed.
Print Assumptions C16_source_NormalizePath.

Theorem C16_source_CreateName : forall dir name,
  gen_CreateName dir name =
    match create_name dir name with
    | Ok p => Ret (p, None)
    | _ => Ret ([], Some invalid_path_text)
    end.
Proof. exact gen_CreateName_eq. Qed.
Print Assumptions C16_source_CreateName.

Theorem C16_source_WalkName : forall dir names,
  gen_WalkName dir names =
    match walk_name dir names with
    | Ok p => Ret (p, None)
    | Err _ => Ret (dir, Some invalid_path_text)
    | _ => Pan
    end.
Proof. exact gen_WalkName_eq. Qed.
Print Assumptions C16_source_WalkName.

Theorem C16_source_ToWalk : forall p,
  gen_ToWalk p =
    match to_walk p with
    | (isabs, Ok steps) => Ret (isabs, steps, None)
    | (isabs, _) => Ret (isabs, [], Some (invalid_path_prefix ++ p))
    end.
Proof. exact gen_ToWalk_eq. Qed.
Print Assumptions C16_source_ToWalk.

(* the translated source, evaluated: "a/./../../b//" normalises to ["..","b"] with one leading "..",
   and walking [".."; "a"] from /a/b gives /a/a *)
Example C16_source_example :
  gen_NormalizePath [[97%N]; [46%N]; DOTDOT; DOTDOT; [98%N]; []] = Ret ([DOTDOT; [98%N]], 1%Z) /\
  gen_WalkName [47%N; 97%N; 47%N; 98%N] [DOTDOT; [97%N]] = Ret ([47%N; 97%N; 47%N; 97%N], None) /\
  gen_WalkName [] [] = Pan.
Proof. repeat split; vm_compute; reflexivity. Qed.

(* non-vacuity *)
Example C16_walk_example :
  let a := [97%N] in let b := [98%N] in
  Forall good [a; b] /\ names_okb true [DOTDOT; a] = true /\
  walk_name (render [a; b]) [DOTDOT; a] = Ok (render [a; a]) /\
  walk_name (render [a]) [DOTDOT; DOTDOT] = Err [] /\
  normalize_path [a; [46%N]; DOTDOT; DOTDOT; b; []] = ([DOTDOT; b], 1%Z).
Proof.
  cbv zeta. repeat split; try (vm_compute; reflexivity).
  repeat constructor; try (intros H; discriminate H); try (intros [H|H]; [discriminate H|destruct H]).
Qed.
Print Assumptions C16_walk_example.
