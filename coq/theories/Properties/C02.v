(* C02 - No frame written to a connection ever exceeds msize. (theorems being added; see Proofs/ChannelProofs.v) *)
From Coq Require Import List NArith ZArith Bool.
From P9 Require Import Base.Res Base.Bytes Model.WireTypes Model.Spec9P Model.Wire Model.Channel.
Import ListNotations.
Open Scope N_scope.

(* the Tread clamp on its uint32 wrap boundary: count 2^32-1 with msize 8192 becomes 8181 *)
Example C02_tread_wrap_example :
  maybe_truncate 8192 {| fc_type := T_Tread; fc_tag := 1; fc_fields := [VF (FInt 4 7); VF (FInt 8 0); VF (FInt 4 4294967295)] |}
  = TOk {| fc_type := T_Tread; fc_tag := 1; fc_fields := [VF (FInt 4 7); VF (FInt 8 0); VF (FInt 4 8181)] |}.
Proof. vm_compute. reflexivity. Qed.
Print Assumptions C02_tread_wrap_example.
