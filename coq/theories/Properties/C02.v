(* C02 - No frame written to a connection ever exceeds msize.
   Statements only; proofs in Proofs/ChannelProofs.v.  wf_fcall is the property's premise that the
   message is wire-representable (encoded length below 2^32); msize ranges over [24, 2^32). *)
From Coq Require Import List NArith ZArith Bool.
From Coq Require Import String.
From P9 Require Import Base.Res Base.Bytes Model.WireTypes Model.Spec9P Model.Wire Model.Channel Proofs.ChannelProofs Gen.GenChannel Gen.GenConsts.
Import ListNotations.
Open Scope N_scope.
Open Scope list_scope.

(* 1. Every write either emits exactly one complete frame whose size field equals its total length,
      which is at most msize, or emits nothing and reports by how many bytes the message is too long
      (or nothing at all under a dead context). *)
Theorem C02_frame : forall msize live f, wf_fcall f = true -> 24 <= msize -> msize < M32 ->
  (live = false /\ write_fcall msize live f = ([], WCtx)) \/
  (live = true /\ exists out, write_fcall msize live f = (out, WSent) /\
      (exists body, out = le 4 (len out) ++ body) /\ len out <= msize) \/
  (live = true /\ msize < 4 + len (enc_fcall f) /\
      write_fcall msize live f = ([], WOverflow (4 + len (enc_fcall f) - msize))).
Proof. exact write_fcall_frame. Qed.
Print Assumptions C02_frame.

(* 2. A write request that is too long is shortened so that its frame is exactly msize; its data is a
      prefix of the caller's data and every other field is unchanged. *)
Theorem C02_twrite : forall msize f, wf_fcall f = true -> fc_type f = T_Twrite -> 24 <= msize -> msize < M32 ->
  msize < 4 + len (enc_fcall f) ->
  exists fid off d,
    fc_fields f = [VF (FInt 4 fid); VF (FInt 8 off); VF (FData d)] /\
    let f' := {| fc_type := T_Twrite; fc_tag := fc_tag f;
                 fc_fields := [VF (FInt 4 fid); VF (FInt 8 off); VF (FData (take (msize - 23) d))] |} in
    write_fcall msize true f = (frame (enc_fcall f'), WSent) /\ len (frame (enc_fcall f')) = msize.
Proof. exact write_twrite. Qed.
Print Assumptions C02_twrite.

(* 3. A read request's count is lowered (never raised) so that the largest reply it permits
      (11 + count bytes) fits in msize, and is left alone when that already holds -- including the
      counts >= 2^32-11 for which the uint32 arithmetic of the code wraps. *)
Theorem C02_tread : forall msize f, wf_fcall f = true -> fc_type f = T_Tread -> 24 <= msize -> msize < M32 ->
  exists fid off c c',
    fc_fields f = [VF (FInt 4 fid); VF (FInt 8 off); VF (FInt 4 c)] /\
    write_fcall msize true f =
      (frame (enc_fcall {| fc_type := T_Tread; fc_tag := fc_tag f;
                           fc_fields := [VF (FInt 4 fid); VF (FInt 8 off); VF (FInt 4 c')] |}), WSent) /\
    c' <= c /\ 11 + c' <= msize /\ (11 + c <= msize -> c' = c) /\ (msize < 11 + c -> c' = msize - 11).
Proof. exact write_tread. Qed.
Print Assumptions C02_tread.

(* 4. Every other message goes out unmodified or not at all. *)
Theorem C02_other : forall msize f, wf_fcall f = true -> fc_type f <> T_Tread -> fc_type f <> T_Twrite ->
  write_fcall msize true f = (frame (enc_fcall f), WSent) \/
  exists k, write_fcall msize true f = ([], WOverflow k).
Proof. exact write_other. Qed.
Print Assumptions C02_other.

(* 0. The shape of maybeTruncate in the CURRENT source (regenerated on every run) is the one the model
      transcribes: exactly Tread and Twrite are special-cased, everything else takes the default arm,
      and both ReadFcall and WriteFcall go through it; the frame header is 4 bytes. *)
Theorem C02_structure :
  gen_truncate_arms = ["MessageTread"%string; "MessageTwrite"%string] /\ gen_truncate_has_default = true /\
  gen_readfcall_truncates = true /\ gen_writefcall_truncates = true /\ c_channelMessageHeaderSize = 4.
Proof. repeat split; reflexivity. Qed.
Print Assumptions C02_structure.

(* non-vacuity: the Tread clamp on its uint32 wrap boundary, and an over-long Twrite *)
Example C02_tread_wrap_example :
  maybe_truncate 8192 {| fc_type := T_Tread; fc_tag := 1; fc_fields := [VF (FInt 4 7); VF (FInt 8 0); VF (FInt 4 4294967295)] |}
  = TOk {| fc_type := T_Tread; fc_tag := 1; fc_fields := [VF (FInt 4 7); VF (FInt 8 0); VF (FInt 4 8181)] |}.
Proof. vm_compute. reflexivity. Qed.
Print Assumptions C02_tread_wrap_example.

Example C02_twrite_example :
  let f := {| fc_type := T_Twrite; fc_tag := 1; fc_fields := [VF (FInt 4 7); VF (FInt 8 0); VF (FData [1;2;3;4;5;6;7;8;9;10])] |} in
  wf_fcall f = true /\ len (fst (write_fcall 27 true f)) = 27 /\ snd (write_fcall 27 true f) = WSent.
Proof. vm_compute. repeat split; reflexivity. Qed.
Print Assumptions C02_twrite_example.
