(* C05 - Client hands every reply to exactly the call that issued the request;
   tags awaiting a reply are pairwise distinct and never NOTAG, also after the
   16-bit tag space wraps.

   Only statements, each closed by [exact lemma], plus non-vacuity Examples.
   The model (Model/Tags.v) is tied to transport.go / csession.go by the
   correspondence run of bin/check; the facts it takes from the source
   (Gen/GenReplyTypes.v, Gen/GenConsts.v) are regenerated on every run.

   Quantification: every theorem about the owner loop is over ALL event lists
   [evs] - any number of calls, any interleaving of requests, replies (any tag,
   any type), failed writes, cancellations, shutdown - hence over histories of
   any length, i.e. any number of wrap-arounds of the tag counter.

   Partial clause (not expressible in an executable model): "concurrent use is
   free of data races".  The model has ONE owner of the tag map by
   construction; the harness runs the concurrent schedules under the race
   detector in the thorough tier. *)
From stdpp Require Import nmap fin_maps.
From Coq Require Import List NArith Bool.
From Coq Require Import ZArith.
From P9 Require Import Gen.GenReplyTypes Model.Tags Base.GoRt Gen.GenAllocTag Proofs.GenAllocTagEq
  Proofs.TagsProofsAlloc Proofs.TagsProofs Proofs.TagsProofsDeliver.
Import ListNotations.
Open Scope N_scope.

(* 1. allocateTag: a tag it returns is not in the pool and is not the reserved tag ... *)
Theorem C05_alloc_sound : forall (m : tagmap) h t,
  allocate m h = inl t -> m !! t = None /\ t <> NOTAG /\ t < 65535.
Proof. exact allocate_sound. Qed.

(* ... and it finds one whenever fewer than 65535 tags are taken, whatever the hint
   (pigeonhole over the candidate sequence (hint+1+i) mod 65535; also when NOTAG
   itself was put into the map, against the function's precondition) *)
Theorem C05_alloc_complete : forall (m : tagmap) h,
  (size m < N.to_nat 65535)%nat -> exists t, allocate m h = inl t.
Proof. exact allocate_complete. Qed.

(* ... namely the first free tag after the hint, cyclically through 0..65534 *)
Theorem C05_alloc_first : forall (m : tagmap) h t,
  alloc_loop pool_fuel m h = Some t ->
  exists i, (i < N.to_nat 65535)%nat /\ t = (next_tag h + N.of_nat i) mod 65535 /\
            forall j, (j < i)%nat -> is_Some (m !! ((next_tag h + N.of_nat j) mod 65535)).
Proof. exact (alloc_loop_first pool_fuel). Qed.

Example C05_alloc_wraps_past_NOTAG :
  allocate (<[65534 := 7]> (<[0 := 8]> ∅)) 65533 = inl 1 /\ allocate ∅ 65534 = inl 0 /\
  allocate ∅ 65535 = inl 0.
Proof. vm_compute. auto. Qed.

(* 2. the tags of requests still awaiting a reply - computed from the wire
   history alone: frames written minus tags answered, so abandoned calls stay
   in - are never NOTAG after ANY event list, and pairwise distinct after any
   event list in which the peer answers only requests it has received and not
   yet answered ("any order in which the server answers them").
   [honest_peer] cannot be dropped: the loop enters a tag into `outstanding`
   when it QUEUES the frame; a peer that sends a reply carrying the tag of a
   frame still queued gets that tag released and re-issued while the first
   frame is yet to be written (see C05_distinct_needs_honest_peer). *)
Theorem C05_distinct : forall evs,
  honest_peer evs -> List.NoDup (awaiting (wire_of evs)).
Proof. exact awaiting_distinct. Qed.

Theorem C05_never_notag : forall evs, ~ In NOTAG (awaiting (wire_of evs)).
Proof. exact never_notag. Qed.

Example C05_distinct_nonvacuous :
  let evs := [EReq 1 120; EReq 2 116; EHand; EWrote; ECancel 1; EHand; EWrote;
              EReq 3 110; EHand; EWriteFailed; EReq 4 124; EHand; EWrote;
              EResp 2 {| r_type := 117; r_id := 9 |}] in
  honest_peer evs /\ awaiting (wire_of evs) = [4; 1].
Proof. vm_compute. repeat split; auto 6. Qed.

Example C05_distinct_needs_honest_peer :
  awaiting (wire_of [EReq 1 120; EResp 1 {| r_type := 121; r_id := 0 |}; EHand; EWrote;
                     EReq 2 120; EReq 3 120; EResp 2 {| r_type := 121; r_id := 0 |};
                     EHand; EWrote; EHand; EWrote]) = [3; 2; 1].
Proof. vm_compute. reflexivity. Qed.

(* 3. a reply handed to call c is the payload of a reply frame whose tag is
   the tag given to c when its request was taken ([req_allocates]), sent
   after that and before any other reply with that tag was taken; and the
   request frame of c that goes onto the wire carries exactly that tag *)
Theorem C05_own_reply : forall evs c r,
  In (ODeliver c r) (trace evs) ->
  exists evs1 evs2 evs3 t mt,
    evs = evs1 ++ EReq c mt :: evs2 ++ EResp t r :: evs3 /\
    req_allocates (fst (run evs1)) t /\ no_resp t evs2.
Proof. exact own_reply. Qed.

Theorem C05_frame_tag : forall evs t c mt,
  In (OFrame t c mt) (trace evs) ->
  exists evs1 evs2, evs = evs1 ++ EReq c mt :: evs2 /\ req_allocates (fst (run evs1)) t.
Proof. exact frame_origin. Qed.

(* ... and while the loop runs a reply whose tag is outstanding is handed over at once *)
Theorem C05_reply_delivered : forall st t r c,
  h_running st = true -> h_out st !! t = Some c ->
  snd (hstep st (EResp t r)) = [ODeliver c r] /\ h_out (fst (hstep st (EResp t r))) !! t = None.
Proof. exact resp_delivered. Qed.

(* each call (distinct sends are distinct fcallRequests) is handed at most one
   reply and at most one error: it cannot return two different replies *)
Theorem C05_once : forall evs,
  List.NoDup (req_calls evs) ->
  List.NoDup (rcalls (trace evs)) /\ List.NoDup (ecalls (trace evs)).
Proof. exact delivered_once. Qed.

Example C05_own_reply_nonvacuous :
  trace [EReq 1 120; EReq 2 116; EHand; EWrote; EHand; EWrote;
         EResp 2 {| r_type := 117; r_id := 9 |}; EResp 1 {| r_type := 107; r_id := 5 |}]
  = [OFrame 1 1 120; OFrame 2 2 116; ODeliver 2 {| r_type := 117; r_id := 9 |};
     ODeliver 1 {| r_type := 107; r_id := 5 |}].
Proof. vm_compute. reflexivity. Qed.

(* 4. an error reply becomes that call's error, whatever the method *)
Theorem C05_rerror : forall mt r,
  r_type r = send_error_type ->
  send_wait false false None (Some r) = [SRerror r] /\ client_result mt (SRerror r) = CRerror r.
Proof. exact rerror_is_the_calls_error. Qed.

(* ... and a reply of the type the method expects is its result *)
Theorem C05_right_type : forall mt rt r,
  expected_reply mt = Some rt -> r_type r = rt -> client_result mt (conv_reply r) = COk r.
Proof. exact right_type_is_ok. Qed.

Example C05_right_type_nonvacuous : expected_reply 116 = Some 117 /\ send_error_type = 107.
Proof. vm_compute. auto. Qed.

Print Assumptions C05_alloc_sound.
Print Assumptions C05_alloc_complete.
Print Assumptions C05_alloc_first.
Print Assumptions C05_alloc_wraps_past_NOTAG.
Print Assumptions C05_distinct.
Print Assumptions C05_never_notag.
Print Assumptions C05_distinct_nonvacuous.
Print Assumptions C05_distinct_needs_honest_peer.
Print Assumptions C05_own_reply.
Print Assumptions C05_frame_tag.
Print Assumptions C05_reply_delivered.
Print Assumptions C05_once.
Print Assumptions C05_own_reply_nonvacuous.
Print Assumptions C05_rerror.
Print Assumptions C05_right_type.
Print Assumptions C05_right_type_nonvacuous.

(* The tie of the allocator, as a theorem: [Gen/GenAllocTag.v] is the statement-by-statement translation
   of the CURRENT source of transport.go's allocator (harness/cmd/gen/gofn.go, regenerated before every
   build; the Go map is seen as the list of its keys, which is all the function looks at), and the model
   [allocate], about which C05_alloc_* and - through [hstep] - every theorem above is stated, computes
   for every pool and every hint exactly what that translation computes, error texts included.  An edit
   of the allocator that changes which tag it returns breaks this proof obligation. *)
Theorem C05_source_allocateTag : forall (m : tagmap) hint, hint < 65536 ->
  gen_allocateTag (keys m) (Z.of_N hint) =
    match allocate m hint with
    | inl t => Ret (Z.of_N t, None)
    | inr EDepleted => Ret (0%Z, Some depleted_text)
    | inr _ => Ret (0%Z, Some unexpected_text)
    end.
Proof. exact gen_allocateTag_eq. Qed.
Print Assumptions C05_source_allocateTag.

(* the translated source, evaluated: from hint 65533 with 65534 and 0 taken the search passes over
   65534, skips the reserved 65535, wraps, passes over 0 and returns 1 *)
Example C05_source_allocateTag_example :
  gen_allocateTag [65534%Z; 0%Z] 65533%Z = Ret (1%Z, None) /\
  allocate (<[65534 := 7]> (<[0 := 8]> ∅)) 65533 = inl 1.
Proof. split; vm_compute; reflexivity. Qed.
