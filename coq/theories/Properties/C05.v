(* C05 - Client hands every reply to exactly the call that issued the request;
   tags awaiting a reply are pairwise distinct and never NOTAG, also after the
   16-bit tag space wraps.  Only statements, each closed by [exact lemma]. *)
From Coq Require Import List NArith Bool.
From stdpp Require Import nmap fin_maps.
From P9 Require Import Gen.GenReplyTypes Model.Tags Proofs.TagsProofsAlloc.
Import ListNotations.
Open Scope N_scope.

(* allocateTag: a tag it returns is not in the pool and is not the reserved tag *)
Theorem C05_alloc_sound : forall (m : tagmap) h t,
  allocate m h = inl t -> m !! t = None /\ t <> NOTAG /\ t < 65535.
Proof. exact allocate_sound. Qed.

(* ... and it finds one whenever fewer than 65535 tags are taken, whatever the hint
   (pigeonhole over the candidate sequence (hint+1+i) mod 65535) *)
Theorem C05_alloc_complete : forall (m : tagmap) h,
  (size m < N.to_nat 65535)%nat -> exists t, allocate m h = inl t.
Proof. exact allocate_complete. Qed.
