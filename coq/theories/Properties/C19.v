(* C19 - the host-directory file server mirrors the host file system.
   Only statements, each closed by [exact lemma], with Print Assumptions, and
   non-vacuity Examples.

   FULL STATEMENT: for every sequence of create, mkdir, open, read, write,
   truncate, chmod, rename and remove operations issued through a ufs session,
   the exported host directory ends up exactly as the equivalent direct OS
   operations would leave it, data read through a fid equals the host file's
   content at that offset, and listings and stats obtained through freshly
   walked fids match the host's.

   PROVED (C19_mirror_partial): the operations of Model/Ufs.v run through the Go
   translation layer [impl_alg Base] (internal paths are Go strings built with
   path.Clean/Join/Dir, WalkName, CreateName, validated by fullPath, mapped with
   filepath.Join; open modes through oflags, permissions through perm&0777) and
   through the layer the property means [spec_alg bcs] (a fid names a list of
   components below the export root, resolved stepwise; each 9P operation is the
   direct host operation on Base/<components>; open(5)'s flag table) issue THE
   SAME host calls in the same order on EVERY host function [hc], hence leave
   equal host states and return equal results (read data, write counts, stats,
   listings, errors) after every operation, for all operation sequences.
   "_partial" because the kernel is a universally quantified function here and
   Model/HostFS.v in the correspondence check: that HostFS.v behaves like Linux
   is supported by the harness (ufs on S/export vs direct os calls on S/twin vs
   the model, after every operation), not by a theorem.  Operation modes are
   9P Flag bytes (< 256), which is what [op_wf] says. *)
From Coq Require Import List NArith ZArith Bool.
From P9 Require Import Base.Res Model.Path Model.HostFS Model.Ufs.
From Coq Require Import ZArith.
From P9 Require Import Base.GoRt Gen.GenUfsOflags Proofs.GenUfsOflagsEq.
From P9 Require Import Proofs.PathProofs Proofs.PathExtra Proofs.UfsProofs Proofs.UfsProofsPath
                       Proofs.UfsProofsSim Proofs.UfsProofsMirror.
Import ListNotations.
Open Scope N_scope.

Theorem C19_mirror_partial :
  forall (H : Type) (hc : H -> hcall -> H * hresult) (bcs : list bstr), Forall okcomp bcs ->
  forall ops h, Forall op_wf ops ->
  let ri := run hc (impl_alg (render bcs)) (init h) ops in
  let rs := run hc (spec_alg bcs) (init h) ops in
  snd ri = snd rs /\
  u_host (fst ri) = u_host (fst rs) /\
  u_log (fst ri) = u_log (fst rs) /\
  u_fids (fst ri) = map_fids render (u_fids (fst rs)) /\
  u_stuck (fst ri) = u_stuck (fst rs).
Proof.
  intros H hc bcs Hb ops h Hw. cbv zeta. rewrite (mirror hc bcs Hb ops h Hw).
  unfold mapp. simpl. auto.
Qed.
Print Assumptions C19_mirror_partial.

(* oflags against open(5), all 256 mode bytes; perm & 0777 *)
Theorem C19_oflags : forall m, m < 256 -> ufs_oflags m = spec_oflags m.
Proof. exact oflags_eq. Qed.
Print Assumptions C19_oflags.

(* ... and [ufs_oflags] is what the CURRENT source of ufs/util.go's flag mapping computes: the function is
   translated statement by statement on every run (Gen/GenUfsOflags.v, harness/cmd/gen/gofn.go) and agrees
   with the model on all 256 mode bytes (Linux numbering of the os.O_* constants: RDONLY 0, WRONLY 1, RDWR 2,
   TRUNC 512; O_CREATE is or-ed in by Create, not here) *)
Theorem C19_source_oflags : forall m, m < 256 ->
  gen_oflags (Z.of_N m) = Ret (oflag_num (ufs_oflags m)) /\ of_creat (ufs_oflags m) = false.
Proof. exact gen_oflags_eq. Qed.
Print Assumptions C19_source_oflags.

Theorem C19_perm : forall p, N.land p 511 = p mod 512.
Proof. exact perm_eq. Qed.
Print Assumptions C19_perm.

(* the path algebra behind the refinement: WalkName, CreateName and WStat's target on a
   canonical directory are stepwise resolution on components *)
Theorem C19_walk_resolve :
  forall q ns, Forall good q -> names_okb true ns = true -> ns <> [] ->
  walk_name (render q) ns = match resolve_names q ns with Ok q' => Ok (render q') | Err e => Err e | Panic => Panic | Hang => Hang end
  /\ (forall q', resolve_names q ns = Ok q' -> Forall good q').
Proof. exact walk_name_resolve. Qed.
Print Assumptions C19_walk_resolve.

Theorem C19_create_resolve :
  forall q n, Forall good q -> create_name (render q) n = (if goodb n then Ok (render (q ++ [n])) else Err []).
Proof. exact create_name_resolve. Qed.
Print Assumptions C19_create_resolve.

Theorem C19_rename_resolve :
  forall q n, Forall okcomp q -> n <> [] -> path_is_abs n = false ->
  ufs_rename_rel (render q) n = render (resolve_rel (removelast q) (split_slash n)).
Proof. exact rename_rel_resolve. Qed.
Print Assumptions C19_rename_resolve.

(* ---------------- non-vacuity ---------------- *)

Definition n_a : bstr := [97].  Definition n_b : bstr := [98].  Definition n_d : bstr := [100].
Definition DIR755 : N := 2147483648 + 493.
Definition demo : list op :=
  [OpAttach 0; OpWalk 0 1 []; OpCreate 1 n_d DIR755 0;              (* mkdir d *)
   OpWalk 0 2 []; OpCreate 2 n_a 420 18;                            (* create a, ORDWR|OTRUNC, 0644 *)
   OpWrite 2 [104; 101; 108; 108; 111] 3;                           (* pwrite "hello" at 3: hole zero-filled *)
   OpRead 2 64 0;
   OpWstat 2 [100; 47; 98] 384 2 [] [];                             (* chmod 0600, rename to d/b, truncate to 2 *)
   OpWalk 0 3 [n_d; n_b]; OpStat 3;                                 (* fresh fid: stat *)
   OpWalk 0 4 [n_d]; OpOpen 4 0; OpReadDir 4;                       (* fresh fid: listing *)
   OpRemove 3; OpRemove 0].

Example C19_demo_wf : Forall op_wf demo.
Proof. repeat constructor. Qed.
Print Assumptions C19_demo_wf.

(* the run on the model kernel: the results are what the direct operations give, and the
   host calls are the direct operations, in WStat's order chmod -> rename -> truncate *)
Definition E_ (rel : bstr) : bstr := sandbox_base ++ rel.
Example C19_demo_run :
  let r := run hcall_posix (spec_alg [bS; b_export]) (init (sandbox 18)) demo in
  snd r = [ObQid true; ObWalk 0 false; ObQid true; ObWalk 0 false; ObQid false; ObCount 5;
           ObData [0; 0; 0; 104; 101; 108; 108; 111]; ObOk;
           ObWalk 2 false; ObInfo {| hi_name := n_b; hi_dir := false; hi_mode := 384; hi_size := 2 |};
           ObWalk 1 true; ObQid true; ObList [{| hi_name := n_b; hi_dir := false; hi_mode := 384; hi_size := 2 |}];
           ObOk; ObErr] /\
  rev (u_log (fst r)) =
    [HStat (E_ []); HStat (E_ []); HMkdir (E_ [47; 100]) 493; HStat (E_ [47; 100]); HReadDir (E_ [47; 100]);
     HStat (E_ []); HOpen (E_ [47; 97]) {| of_acc := RDWR; of_trunc := true; of_creat := true |} 420; HStat (E_ [47; 97]);
     HPwrite 3 [104; 101; 108; 108; 111] 3; HPread 3 64 0;
     HChmod (E_ [47; 97]) 384; HRename (E_ [47; 97]) (E_ [47; 100; 47; 98]); HTruncate (E_ [47; 100; 47; 98]) 2;
     HStat (E_ [47; 100; 47; 98]); HStat (E_ [47; 100]); HReadDir (E_ [47; 100]); HRemove (E_ [47; 100; 47; 98])].
Proof. vm_compute. split; reflexivity. Qed.
Print Assumptions C19_demo_run.

(* and the theorem's conclusion on it: the Go layer's run is the same *)
Example C19_demo_mirror :
  snd (run hcall_posix (impl_alg sandbox_base) (init (sandbox 18)) demo)
  = snd (run hcall_posix (spec_alg [bS; b_export]) (init (sandbox 18)) demo)
  /\ u_log (fst (run hcall_posix (impl_alg sandbox_base) (init (sandbox 18)) demo))
     = u_log (fst (run hcall_posix (spec_alg [bS; b_export]) (init (sandbox 18)) demo)).
Proof. vm_compute. split; reflexivity. Qed.
Print Assumptions C19_demo_mirror.
