(* C17 - Directory reads deliver every entry exactly once, whole and in order.
   Only statements, each closed by [exact lemma], with Print Assumptions.

   Vocabulary (Proofs/ReaddirProofs.v):
     lists_script script ds   the underlying iterator, run without error, lists exactly ds:
                              non-empty batches, then an empty batch or the end of the script
     replies enc script counts  what successive Reads with these counts return, each issued at
                              the offset the reader keeps itself (sum of the lengths returned so far),
                              on NewReaddir(codec, iterator)
     reply_bytes enc r        the bytes of a reply;  ok_reply g = the error-free reply carrying
                              the encodings of the entries g
     fits enc ds count        every entry of ds encodes to at most count bytes
   The theorems hold for every entry type and every encoding function; entries encode to
   non-empty strings (a Dir encodes to >= 49 bytes). *)
From Coq Require Import List NArith ZArith Bool.
From P9 Require Import Base.Res Model.Readdir Proofs.ReaddirProofs.
Import ListNotations.
Open Scope N_scope.

(* successive reads return the encodings concatenated in listing order; no read fails; once a
   reply is empty - and one is, within |ds|+1 reads - everything has been returned *)
Theorem C17_stream : forall (E : Type) (enc : E -> list N) script ds counts,
  lists_script script ds -> Forall (fun d => enc d <> []) ds -> Forall (fits enc ds) counts ->
  (forall r, In r (replies enc script counts) -> exists g, r = ok_reply g)
  /\ (exists k, concat (map (reply_bytes enc) (replies enc script counts)) = enc_all enc (firstn k ds))
  /\ ((In (ok_reply []) (replies enc script counts) \/ (length ds < length counts)%nat) ->
      concat (map (reply_bytes enc) (replies enc script counts)) = enc_all enc ds).
Proof. exact @stream. Qed.
Print Assumptions C17_stream.

(* each reply consists of whole entries, a contiguous run of the listing continuing where the
   previous reply stopped, and of at most the requested number of bytes
   (this one needs no premise on the counts) *)
Theorem C17_whole : forall (E : Type) (enc : E -> list N) script ds counts,
  lists_script script ds ->
  exists groups,
    replies enc script counts = map ok_reply groups
    /\ (exists k, concat groups = firstn k ds)
    /\ Forall2 (fun g c => blen (enc_all enc g) <= c) groups counts.
Proof. exact @whole. Qed.
Print Assumptions C17_whole.

(* a reply is empty only when everything has been delivered before it, and the reading loop
   ends: an empty reply comes within the first |ds|+1 reads *)
Theorem C17_progress : forall (E : Type) (enc : E -> list N) script ds counts,
  lists_script script ds -> Forall (fun d => enc d <> []) ds -> Forall (fits enc ds) counts ->
  (forall i, nth_error (replies enc script counts) i = Some (ok_reply []) ->
             concat (map (reply_bytes enc) (firstn i (replies enc script counts))) = enc_all enc ds)
  /\ ((length ds < length counts)%nat ->
      exists i, (i <= length ds)%nat /\ nth_error (replies enc script counts) i = Some (ok_reply [])).
Proof. exact @progress. Qed.
Print Assumptions C17_progress.

(* the theorems above and below cover NewFixedReaddir too: it is NewReaddir over the one-batch script *)
Theorem C17_fixed : forall (E : Type) (ds : list E),
  new_fixed_readdir ds = new_readdir [BOk ds] /\ lists_script [BOk ds] ds.
Proof. exact (fun E ds => conj eq_refl (fixed_lists ds)). Qed.
Print Assumptions C17_fixed.

(* a read at any other offset is rejected and changes nothing - in every state *)
Theorem C17_offset : forall (E : Type) (enc : E -> list N) (st : rdst E) count off,
  r_off st <> off -> read enc st count off = (RdBadOff, st).
Proof. exact @read_bad_offset. Qed.
Print Assumptions C17_offset.

(* the client iterator (openDir.Next called until it returns nothing), reading iounit bytes at a
   time, obtains exactly the server's entries.  The decoder and its round trip are hypotheses,
   to be discharged by the wire-codec development (DecodeDir o Marshal = id on well-formed Dirs). *)
Section Client.
Variable E : Type.
Variable enc : E -> list N.
Variable wf : E -> Prop.
Variable dec : list N -> dres E.
Hypothesis dec_enc : forall d rest, wf d -> dec (enc d ++ rest) = DOk d rest.
Hypothesis dec_nil : dec [] = DEof.
Hypothesis enc_nonempty : forall d, wf d -> enc d <> [].

Theorem C17_client : forall script ds iounit fuel,
  lists_script script ds -> Forall wf ds -> fits enc ds iounit -> (length ds < fuel)%nat ->
  cl_all enc dec iounit fuel new_cdir (new_readdir script) = Ok ds.
Proof. exact (client enc wf dec dec_enc dec_nil enc_nonempty). Qed.

(* with Ropen's iounit 0 for directories the client reads msize-11 bytes at a time *)
Theorem C17_client_msize : forall script ds msize fuel,
  lists_script script ds -> Forall wf ds ->
  Forall (fun d => blen (enc d) + 11 <= msize) ds -> (length ds < fuel)%nat ->
  cl_all enc dec (msize - 11) fuel new_cdir (new_readdir script) = Ok ds.
Proof. exact (client_msize enc wf dec dec_enc dec_nil enc_nonempty). Qed.
End Client.
Print Assumptions C17_client.
Print Assumptions C17_client_msize.

(* ---- non-vacuity: the hypotheses are satisfiable by a concrete non-trivial listing ---- *)
Definition ex_enc (e : list N) : list N := e.
Definition ex_ds : list (list N) := [[1;2]; [3]; [4;5;6]; [7;8]].
Definition ex_script : list (batch (list N)) := [BOk [[1;2]; [3]]; BOk [[4;5;6]]; BOk [[7;8]]; BOk []; BErr []].
Definition ex_counts : list N := [3; 4; 3; 5; 3].

Example C17_ex_premises :
  lists_script ex_script ex_ds /\ Forall (fun d => ex_enc d <> []) ex_ds /\ Forall (fits ex_enc ex_ds) ex_counts
  /\ (length ex_ds < length ex_counts)%nat.
Proof.
  split; [|split; [|split]].
  - apply (LS_batch [[1;2]; [3]]); [discriminate|].
    apply (LS_batch [[4;5;6]]); [discriminate|].
    apply (LS_batch [[7;8]] _ []); [discriminate|]. apply LS_empty.
  - repeat constructor; discriminate.
  - repeat constructor; unfold blen; simpl; discriminate.
  - simpl. repeat constructor.
Qed.

(* look-ahead at work: [4;5;6] does not fit behind [1;2][3] in 3 bytes, nor [7;8] behind [4;5;6] in 4 *)
Example C17_ex_replies :
  replies ex_enc ex_script ex_counts
  = [ok_reply [[1;2]; [3]]; ok_reply [[4;5;6]]; ok_reply [[7;8]]; ok_reply []; ok_reply []].
Proof. vm_compute. reflexivity. Qed.

Example C17_ex_offset :
  let st := snd (run_reads ex_enc (new_readdir ex_script) 0%Z [3]) in
  r_off st = 3%Z /\ read ex_enc st 4 0%Z = (RdBadOff, st).
Proof. vm_compute. split; reflexivity. Qed.

(* the Section hypotheses of C17_client are satisfiable: one-byte entries *)
Definition ex1_enc (d : N) : list N := [d].
Definition ex1_dec (bs : list N) : dres N := match bs with [] => DEof | b :: r => DOk b r end.
Example C17_ex_client :
  cl_all ex1_enc ex1_dec 2 6 new_cdir (new_readdir [BOk [10; 11; 12]; BOk [13; 14]]) = Ok [10; 11; 12; 13; 14].
Proof.
  apply (C17_client N ex1_enc (fun _ => True) ex1_dec).
  - reflexivity.
  - reflexivity.
  - discriminate.
  - apply (LS_batch [10; 11; 12]); [discriminate|]. apply (LS_batch [13; 14] _ []); [discriminate|]. apply LS_end.
  - repeat constructor.
  - repeat constructor; unfold blen; simpl; discriminate.
  - simpl. repeat constructor.
Qed.

(* ---- the client theorems instantiated with the real directory-entry codec (Model/Wire.v):
        entries are Dir field lists, enc = enc_dir, dec = DecodeDir; the Section hypotheses above are
        discharged by the codec round-trip lemmas (Proofs/ReaddirWire.v) ---- *)
From P9 Require Import Model.WireTypes Model.Wire Proofs.ReaddirWire.

Theorem C17_client_wire : forall script ds iounit fuel,
  lists_script script ds -> Forall wire_wf ds -> fits enc_dir ds iounit -> (length ds < fuel)%nat ->
  cl_all enc_dir wire_dec iounit fuel new_cdir (new_readdir script) = Ok ds.
Proof. exact client_wire. Qed.
Print Assumptions C17_client_wire.

Theorem C17_client_msize_wire : forall script ds msize fuel,
  lists_script script ds -> Forall wire_wf ds ->
  Forall (fun d => blen (enc_dir d) + 11 <= msize) ds -> (length ds < fuel)%nat ->
  cl_all enc_dir wire_dec (msize - 11) fuel new_cdir (new_readdir script) = Ok ds.
Proof. exact client_msize_wire. Qed.
Print Assumptions C17_client_msize_wire.
