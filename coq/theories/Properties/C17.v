(* C17 - Directory reads deliver every entry exactly once, whole and in order. *)
From Coq Require Import List NArith ZArith Bool.
From P9 Require Import Base.Res Model.Readdir Proofs.ReaddirProofs.
Import ListNotations.

Theorem C17_offset : forall (E : Type) (enc : E -> list N) (st : rdst E) count off,
  r_off st <> off -> read enc st count off = (RdBadOff, st).
Proof. exact @read_bad_offset. Qed.
Print Assumptions C17_offset.
