(* C14 - concurrent session operations are atomic per fid and never deadlock. *)
From P9 Require Import Model.SessLock.
