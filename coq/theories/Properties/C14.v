(* C14 - concurrent session operations are atomic per fid and never deadlock.
   Only statements, each closed by [exact lemma], with Print Assumptions.

   The model (Model/SessLock.v): every method of sfilesys.go as a program over atomic
   actions; a state = fid table + SFid fields + mutex owners + one continuation per
   operation; [step s i] = one atomic action of operation i; [run sched s] = the
   interleaving [sched] (ANY list of thread ids).  [init reqauth ops] = a fresh session
   with the operations [ops] (each with the scripted outcomes of its FileSys calls)
   not yet begun; an operation that "starts later" is one that is scheduled later, so
   the reachable states [run sched (init reqauth ops)] cover every finite concurrent
   history, every thread count and every FileSys behaviour.

   [ops] may contain [OpStop], the server's Stop (since /repo e9fb232 it takes each SFid's lock): every
   theorem below that quantifies over [ops] or over [o] therefore holds with Stop running concurrently with
   the client's operations - balance, discipline, mutual exclusion per SFid, no lock after return, progress,
   completion.  Stop's loop carries fuel in the model (64 keys looked at over all passes; beyond that it
   returns the class R_FUEL, never seen by the harness); the order in which sync.Map.Range visits the keys
   and its treatment of re-stored keys are environment choices quantified like FileSys outcomes (the
   structural theorems hold for every answer of the Snapshot action).  Linearizability statements are about
   client operations only: [lin_check] is not applied to histories containing Stop. *)
From stdpp Require Import gmap.
From Coq Require Import List NArith.
From P9 Require Import Model.SessLock Proofs.SessLockProofs Proofs.SessLockProofsLin Proofs.SessLockProofsScopes Proofs.SessLockProofsTie.
From P9 Require Import Proofs.SessLockProofsLinAll Proofs.SessLockProofsLinAll2 Proofs.SessLockProofsLinAll3 Proofs.SessLockSession.
From P9 Require Import Gen.GenSessLock.

(* the programs below were transcribed from the methods whose lock-protocol trace sets (over all syntactic
   paths, helpers inlined: table calls, Lock/Unlock, protected-field accesses, FileSys calls, returns) the
   translator has just re-derived from the current source through go/types: they are still the transcribed
   ones (number of traces and SHA-256 of their text, per exported method of the session type) *)
Theorem C14_source_skeleton_unchanged : sesslock_skeleton = transcribed_skeleton.
Proof. exact skeleton_unchanged. Qed.
Print Assumptions C14_source_skeleton_unchanged.

(* "After any operation returns, successfully or not, no fid is left locked" - structurally: on every
   path of every method (every answer of every table/field/FileSys action, all error returns) each lock
   taken is released exactly once before the return, nothing else is unlocked, no lock is taken twice. *)
Theorem C14_balance : forall reqauth o, balanced (prog_of reqauth o) [].
Proof. intros. apply wf_balanced, wf_prog_of. Qed.
Print Assumptions C14_balance.

(* the full discipline: additionally, on every path a Lock is taken only while nothing is held, and every
   field access / FileSys call on an SFid's entry or file is made with that SFid locked *)
Theorem C14_discipline : forall reqauth o, wf (prog_of reqauth o) [].
Proof. exact wf_prog_of. Qed.
Print Assumptions C14_discipline.

(* ... and semantically, for ALL interleavings: an operation that has returned holds no mutex *)
Theorem C14_no_lock_after_return : forall reqauth ops sched i th p,
  threads (run sched (init reqauth ops)) !! i = Some th -> is_done th = true ->
  owner (run sched (init reqauth ops)) !! p <> Some i.
Proof. intros reqauth ops sched i th p. apply done_holds_nothing, inv_reachable. Qed.
Print Assumptions C14_no_lock_after_return.

(* ... so when no operation is in flight every SFid is unlocked *)
Theorem C14_unlocked_at_quiescence : forall reqauth ops sched p,
  (forall i th, threads (run sched (init reqauth ops)) !! i = Some th -> is_done th = true) ->
  owner (run sched (init reqauth ops)) !! p = None.
Proof. intros reqauth ops sched p. apply quiescent_unlocked, inv_reachable. Qed.
Print Assumptions C14_unlocked_at_quiescence.

(* "the file system never sees two overlapping calls on the entry or open file bound to one fid":
   for ALL interleavings no two operations are simultaneously inside FileSys calls on one SFid *)
Theorem C14_mutex : forall reqauth ops sched i j thi thj p,
  threads (run sched (init reqauth ops)) !! i = Some thi ->
  threads (run sched (init reqauth ops)) !! j = Some thj ->
  in_call_on thi = Some (Some p) -> in_call_on thj = Some (Some p) -> i = j.
Proof. intros reqauth ops sched i j thi thj p. apply mutex, inv_reachable. Qed.
Print Assumptions C14_mutex.

(* the model-level part of "free of data races": whoever is about to read or write an SFid's fields holds its mutex *)
Theorem C14_fields_locked : forall reqauth ops sched i th q,
  threads (run sched (init reqauth ops)) !! i = Some th -> field_access th = Some q ->
  owner (run sched (init reqauth ops)) !! q = Some i.
Proof. intros reqauth ops sched i th q. apply fields_locked, inv_reachable. Qed.
Print Assumptions C14_fields_locked.

(* "every operation returns provided the file system's calls return": no reachable state is stuck - if
   some operation has not returned, some operation can take a step ([step] lets a pending FileSys call
   return, which is the proviso).  Invariant: an operation waiting for a mutex holds none. *)
Theorem C14_progress : forall reqauth ops sched,
  (exists i th, threads (run sched (init reqauth ops)) !! i = Some th /\ is_done th = false) ->
  exists j s', step (run sched (init reqauth ops)) j = Some s'.
Proof. intros reqauth ops sched. apply progress, inv_reachable. Qed.
Print Assumptions C14_progress.

(* "the results are those of some sequential order of the operations consistent with real time".
   FULL STATEMENT (not proved in general):
     forall reqauth ops sched, [no two operations of ops allocate the same new fid] ->
       all_done (run sched (init reqauth ops)) ->
       exists o, linearization reqauth (history_of_run reqauth ops sched) o.
   ([history_of_run], Proofs/SessLockProofsLinAll2.v: per operation its op, script, ghost id, invocation time =
   index of its first atomic step, return time = index of the step after which it had returned, its result and
   its FileSys calls in the final state.)
   PROVED WITHOUT ANY BOUND for one class, C14_linearizable_disjoint below: operations on pairwise disjoint fid
   sets.  Not proved: operations that share a fid (the lookup -> lock window: an operation that looked a fid up,
   lost the race for the SFid's lock to a Clunk and then fails with "unknown fid" has its linearization point
   at the Clunk's unbinding, not at a step of its own - a simulation with helping; the step simulation
   [step_sim] it would be built on is proved for all client operations, not only disjoint ones).
   PROVED for arbitrary histories: the checker that the harness runs on every observed concurrent history is sound - when it
   answers [Some o], o is a permutation of the operations, no operation that had returned before another
   was invoked is placed after it, and running the operations one at a time in that order (model
   [seq_op] = the operation's program run alone, cf. C14_seq) reproduces every return value and every
   FileSys call (kind and entry identity). *)
Theorem C14_linearizable_partial : forall reqauth h o,
  lin_check reqauth h = Some o -> linearization reqauth h o.
Proof. exact lin_check_sound. Qed.
Print Assumptions C14_linearizable_partial.

(* the unbounded statement for the class "pairwise disjoint fid sets" ([disjoint_fids], a decidable test on the
   operations: no Stop, and no fid - fid, newfid or afid, NOFID apart - is named by two of them): for ANY number
   of such operations, ANY schedule of their atomic actions, ANY FileSys outcomes, the completed execution is
   linearizable: there is an order that is a permutation, respects real time (no operation that had returned
   before another took its first step is placed after it) and whose one-at-a-time run by [seq_op] from the fresh
   session reproduces every result and every FileSys call (kind and entry identity).  The order of return is
   such an order.  Proof: each operation stays related, up to a renaming of SFid pointers, to a replica running
   alone (a Kripke logical relation on the programs, [prel_prog_of], and a step simulation, [step_sim]); the
   others' steps leave its fids and pointers alone. *)
Theorem C14_linearizable_disjoint : forall reqauth ops sched,
  disjoint_fids (map fst ops) = true ->
  all_done (run sched (init reqauth ops)) ->
  exists o, linearization reqauth (history_of_run reqauth ops sched) o.
Proof. exact linearizable_disjoint. Qed.
Print Assumptions C14_linearizable_disjoint.

(* the same, started in ANY quiescent session state b instead of the fresh one ([start b reqauth id0 ops]: b's fid
   table and SFids, the operations not yet begun; [base_ok b]: no mutex held, distinct fids name distinct SFids,
   every SFid in the table was allocated; [linearization_from]: [linearization] with the one-at-a-time run started
   in b; [history_from]: [history_of_run] for that start state) ... *)
Theorem C14_linearizable_disjoint_from : forall reqauth b id0 ops sched,
  base_ok b ->
  disjoint_fids (map fst ops) = true ->
  all_done (run sched (start b reqauth id0 ops)) ->
  exists o, linearization_from reqauth b (history_from b reqauth id0 ops sched) o.
Proof. exact linearizable_disjoint_from. Qed.
Print Assumptions C14_linearizable_disjoint_from.

(* ... every state that a sequential run of operations leaves is such a state ([seq_state]: [seq_op] folded over
   the set-up) ... *)
Theorem C14_setup_state_ok : forall reqauth hs s, base_ok s -> base_ok (seq_state reqauth s hs).
Proof. exact base_ok_seq_state. Qed.
Print Assumptions C14_setup_state_ok.

(* ... so: after ANY sequential set-up [pre] of the fresh session (attach, walks, opens, creates, clunks, ... of any
   length, any scripts), any number of operations on pairwise disjoint fid sets, under any schedule, are
   linearizable relative to the session the set-up left: the set-up in its order followed by the concurrent
   operations in their order of return is a sequential explanation of the whole history *)
Theorem C14_linearizable_disjoint_after_setup : forall reqauth pre id0 ops sched,
  disjoint_fids (map fst ops) = true ->
  all_done (run sched (start (seq_state reqauth (init reqauth []) pre) reqauth id0 ops)) ->
  exists o, linearization_from reqauth (seq_state reqauth (init reqauth []) pre)
              (history_from (seq_state reqauth (init reqauth []) pre) reqauth id0 ops sched) o.
Proof. exact linearizable_disjoint_after_setup. Qed.
Print Assumptions C14_linearizable_disjoint_after_setup.

(* the tool behind it, for ALL client operations (no disjointness): two states that agree up to a pointer
   renaming R on the fids F an operation names, and in which that operation has R-related programs, take
   related steps; the step touches nothing outside F and outside the renamed pointers *)
Theorem C14_step_simulation : forall (F : N -> Prop) (R : prn) s s' i i' th th' s1,
  srel F R s s' -> threads s !! i = Some th -> threads s' !! i' = Some th' -> trel F R th th' ->
  step s i = Some s1 ->
  exists s1' (R' : prn) th1 th1',
    step s' i' = Some s1' /\ sub R R' /\ srel F R' s1 s1' /\
    threads s1 = <[i := th1]> (threads s) /\ threads s1' = <[i' := th1']> (threads s') /\
    trel F R' th1 th1' /\ frame F R R' s s1.
Proof. exact step_sim. Qed.
Print Assumptions C14_step_simulation.

(* every client operation's program is related to itself under every renaming: the programs never inspect an
   SFid pointer, they only pass it on *)
Theorem C14_programs_parametric : forall reqauth o (R : prn),
  o <> OpStop -> prel (opF o) (prog_of reqauth o) (prog_of reqauth o) R.
Proof. exact prel_prog_of. Qed.
Print Assumptions C14_programs_parametric.

(* the strong form of "every operation returns provided the file system's calls return": from EVERY
   reachable state there is a continuation of the schedule after which every operation has returned
   (no deadlock, and nothing an earlier interleaving did can make a return impossible) ... *)
Theorem C14_completion : forall reqauth ops sched,
  exists sched', all_done (run sched' (run sched (init reqauth ops))).
Proof. exact completion. Qed.
Print Assumptions C14_completion.

(* ... and no schedule, however unfair, takes more than 2*DEPTH+1 effective steps per operation (a client
   operation has at most 16 actions on any path; DEPTH = 577 covers Stop with its fuel of 64 keys): an
   operation that keeps being scheduled while it can move returns *)
Theorem C14_bounded_work : forall reqauth ops sched,
  (effective sched (init reqauth ops) <= (2 * DEPTH + 1) * length ops)%nat.
Proof. intros. apply effective_bound, total_init. Qed.
Print Assumptions C14_bounded_work.

(* support for the unproved full statement, on the MODEL: for a family of small configurations (a populated
   session, then 3-4 operations racing on one fid: clone/clunk/re-use, Create whose OpenDir fails, failing
   allocations, in-place walk, open/read/write, auth fids, double release, ...) EVERY interleaving of the
   atomic steps - including those the harness cannot drive, e.g. an operation paused between its table
   lookup and its Lock - ends with all operations returned and a history accepted by [lin_check]
   (vm_compute over all reachable states; 20..900 distinct completed histories per configuration) *)
Theorem C14_linearizable_small_scopes : forallb scenario_ok scenarios = true.
Proof. exact small_scopes_linearizable. Qed.
Print Assumptions C14_linearizable_small_scopes.

(* "one program run alone = the sequential semantics": [seq_op] (what [lin_check] replays) IS the operation's
   program run alone on the session state, by definition.  What needs proof is that this is a semantics at
   all: from a state in which no mutex is held - the state between operations, by
   C14_unlocked_at_quiescence - every operation, every script, returns a result (never the "would block
   for ever" outcome) and leaves every mutex free, so sequential runs compose.
   GAP: [seq_op] is not related to Model/Session.v's [sstep] (C08) by a THEOREM over all states: the two models
   number the FileSys' entries differently and have different environments; each is tied to the implementation
   by its own correspondence run, and the harness's linearizability oracle uses the implementation itself, run one
   operation at a time, as the sequential reference.  What exists (C14_seq_agrees_with_session_small_scopes
   below) is the translation and the state/identity relation as executable checks, and their agreement on five
   operation sequences covering every operation kind both models have - bounded evidence, not a simulation. *)
Theorem C14_seq : forall reqauth s h,
  owner s = ∅ ->
  exists r cs, snd (seq_op reqauth s h) = Some (r, cs) /\ owner (fst (seq_op reqauth s h)) = ∅.
Proof. exact seq_op_returns. Qed.
Print Assumptions C14_seq.

(* [seq_op] and Session.v's [sstep] run side by side (Proofs/SessLockSession.v: operation, script -> tokens,
   error -> result class, call -> kind and entity; the entities related by a renaming learnt call by call; the fid
   tables compared fid by fid: bound, entry/directory bit, file kind, open mode, nothing locked) agree after every
   operation of five sequences (18+14+16+23+21 operations: every client operation kind of both models, success
   and failure paths, roll-backs, in-place walks, create of a directory that cannot be opened).  BOUNDED: by
   vm_compute on these sequences; the simulation for all states is stated at the end of that file and is open. *)
Theorem C14_seq_agrees_with_session_small_scopes : forallb agree link_scenarios = true.
Proof. exact link_scenarios_agree. Qed.
Print Assumptions C14_seq_agrees_with_session_small_scopes.

(* ---- non-vacuity: the predicates reject the two defects this property was written about, the
   hypotheses of mutex/progress are satisfiable, the checker accepts and rejects ---- *)

(* D8 (Attach before fix 6e19728): a return with the afid still locked is not balanced *)
Example C14_D8_is_rejected : ~ balanced (prog_attach_D8 1) [].
Proof. exact D8_unbalanced. Qed.

(* D9 (Create before fix e096cda): taking a lock while holding one violates the discipline *)
Example C14_D9_is_rejected : ~ wf (prog_create_D9 0) [].
Proof. exact D9_hold_and_wait. Qed.

(* a reachable state with a returned operation, one inside Dirent.Stat on SFid 1 holding its mutex, and one
   waiting for that mutex (so C14_mutex, C14_progress, C14_no_lock_after_return speak about something) *)
Example C14_reachable_contended :
  (exists th, threads ex_state !! 0%nat = Some th /\ is_done th = true) /\
  (exists th, threads ex_state !! 1%nat = Some th /\ in_call_on th = Some (Some 1%N)) /\
  (exists th, threads ex_state !! 2%nat = Some th /\ waits_for_lock th = Some 1%N /\ is_done th = false) /\
  owner ex_state !! 1%N = Some 1%nat.
Proof. exact ex_state_shape. Qed.

(* the checker answers Some on an overlapping history observed on the implementation ... *)
Example C14_lin_check_accepts : lin_check false ex_hist = Some [0; 1; 2]%nat.
Proof. exact ex_lin_accepts. Qed.

(* ... and None on the history the pre-fix delRef produced (remove(2) = ok, without a call, while
   attach(2) fails) *)
Example C14_lin_check_rejects : lin_check false ex_hist_bad = None.
Proof. exact ex_lin_rejects. Qed.

(* the exhaustive exploration finds the pre-fix delRef's non-linearizable interleaving (4 operations) *)
Example C14_small_scopes_reject_old_delRef : fst old_delref_scenario = false.
Proof. exact old_delref_not_linearizable. Qed.

(* why the property excludes "the same new fid allocated from two requests at once": such a history (second
   attach = duplicate fid, first attach then fails) has no sequential explanation *)
Example C14_side_condition_needed : lin_check false ex_hist_double_alloc = None.
Proof. exact double_alloc_not_linearizable. Qed.

(* the class of C14_linearizable_disjoint is inhabited by executions with real overlap: five operations (an
   attach that succeeds, one that fails in the FileSys and rolls back, an auth, a stat and a clone of unbound
   fids) interleaved action by action; all return; attach(0) and attach(1), attach(1) and auth(5) overlap in
   real time; the order of return is [3; 4; 0; 1; 2] *)
Example C14_disjoint_class_inhabited :
  disjoint_fids (map fst ex_dis_ops) = true /\
  all_done (run ex_dis_sched (init true ex_dis_ops)) /\
  overlapb (history_of_run true ex_dis_ops ex_dis_sched) 0 1 = true /\
  overlapb (history_of_run true ex_dis_ops ex_dis_sched) 1 2 = true /\
  map (fun h => r_cls (h_res h)) (history_of_run true ex_dis_ops ex_dis_sched) = [R_OK; R_FSERR; R_OK; R_UNKNOWNFID; R_UNKNOWNFID] /\
  lin_order true ex_dis_ops ex_dis_sched = [3; 4; 0; 1; 2]%nat.
Proof. exact ex_disjoint_in_class. Qed.

(* ... and so is the class of C14_linearizable_disjoint_after_setup, with real FileSys calls in parallel: after
   attach(0), clone 0->1, clone 0->2, walk 0->4, open(4), the operations read(4), stat(2), clone 0->3,
   create in 1 and clunk(7) run interleaved action by action; read/stat and clone/create overlap in real
   time; each makes its one FileSys call and succeeds (read returns its 5 bytes), clunk(7) finds nothing *)
Example C14_disjoint_after_setup_inhabited :
  disjoint_fids (map fst ex_conc) = true /\
  all_done (run ex_conc_sched (start ex_base false 8%N ex_conc)) /\
  overlapb (history_from ex_base false 8%N ex_conc ex_conc_sched) 0 1 = true /\
  overlapb (history_from ex_base false 8%N ex_conc ex_conc_sched) 2 3 = true /\
  map (fun h => (r_cls (h_res h), r_val (h_res h), length (h_calls h))) (history_from ex_base false 8%N ex_conc ex_conc_sched)
    = [(R_OK, 5%N, 1%nat); (R_OK, 0%N, 1%nat); (R_OK, 0%N, 1%nat); (R_OK, 0%N, 1%nat); (R_UNKNOWNFID, 0%N, 0%nat)].
Proof. exact ex_setup_then_disjoint. Qed.
