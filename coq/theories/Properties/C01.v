(* C01 - Wire format conforms to 9P2000 and round-trips for every message.
   Statements only; proofs are in Proofs/WireTables.v, WireProofs.v, WireLayout.v. *)
From Coq Require Import List NArith ZArith String Bool.
From P9 Require Import Base.Res Base.Bytes Model.WireTypes Model.Spec9P Model.Wire Gen.GenWire
  Proofs.WireTables Proofs.WireProofs Proofs.WireLayout.
Import ListNotations.
Open Scope N_scope.
Open Scope list_scope.

(* 1. What the reflection-driven Go codec sees in the CURRENT source (regenerated on every run) is
      the manual's table: 27 message kinds, field order and widths, the stat and qid layouts, the
      argument orders of the hand-written Qid/Fcall cases of encode/decode/size9p, the integer case
      arms (a named integer type missing there would silently encode as nothing), the Type() methods. *)
Theorem C01_tables :
  gen_kinds_table = spec_kinds_table /\
  map snd gen_dir_fields = spec_dir_kinds /\
  map snd gen_qid_fields = spec_qid_kinds /\
  map fst gen_qid_fields = gen_qid_enc_order /\ gen_qid_enc_order = gen_qid_dec_order /\ gen_qid_enc_order = gen_qid_size_order /\
  gen_fcall_enc_order = ["Type"; "Tag"; "Message"]%string /\ gen_fcall_dec_order = ["Type"; "Tag"]%string /\
  gen_fcall_size_order = gen_fcall_enc_order /\ map fst gen_fcall_fields = gen_fcall_enc_order /\
  int_arms_ok = true /\ type_methods_ok = true /\
  List.length spec_kinds_table = 27%nat.
Proof. exact tables_agree. Qed.
Print Assumptions C01_tables.

(* 1b. ... including the ORDER OF FIELDS OF EQUAL KIND (struct field order is wire order): the
       regenerated struct and field names equal the expected Go naming of the manual's fields. *)
Theorem C01_tables_named :
  gen_msg_table = expected_msg_table /\ gen_dir_fields = expected_dir_fields /\ gen_qid_fields = expected_qid_fields.
Proof. exact tables_agree_named. Qed.
Print Assumptions C01_tables_named.

Theorem C01_stat_arms :
  gen_enc_stat_arms = expected_stat_arms /\ gen_dec_stat_arms = expected_stat_arms /\ gen_size_stat_arms = expected_stat_arms.
Proof. exact stat_arms_agree. Qed.
Print Assumptions C01_stat_arms.

Theorem C01_expected_is_manual :
  map (fun r => (fst r, map snd (snd (snd r)))) expected_msg_table = spec_kinds_table /\
  map snd expected_dir_fields = spec_dir_kinds /\ map snd expected_qid_fields = spec_qid_kinds.
Proof. exact expected_kinds_are_the_manuals. Qed.
Print Assumptions C01_expected_is_manual.

(* 2. For every wire-representable message (wf_fcall: integers within their width, strings <= 65535
      bytes, lists <= 65535 elements, stat record <= 65535 bytes, whole-second 32-bit timestamps, fields
      of the kinds its type byte prescribes) the encoder produces exactly the manual's byte layout. *)
Theorem C01_layout : forall f, wf_fcall f = true -> spec_layout f = Some (enc_fcall f).
Proof. exact layout_is_manual. Qed.
Print Assumptions C01_layout.

(* 3. The reported size (size9p, computed in uint32) equals the number of bytes produced. *)
Theorem C01_size : forall f, wf_fcall f = true -> size_fcall f = len (enc_fcall f).
Proof. exact size_fcall_len. Qed.
Print Assumptions C01_size.

(* 4. Decoding the bytes (followed by anything) yields the original message. *)
Theorem C01_roundtrip : forall f rest, wf_fcall f = true -> dec_fcall (enc_fcall f ++ rest) = Ok f.
Proof. exact dec_fcall_enc. Qed.
Print Assumptions C01_roundtrip.

(* the same for a directory entry on its own (EncodeDir / the Dir case), as used by C17 *)
Theorem C01_dir_roundtrip : forall fs rest, wf_dir fs = true -> dec_dir (enc_dir fs ++ rest) = Ok (fs, rest).
Proof. exact dec_dir_enc. Qed.
Print Assumptions C01_dir_roundtrip.

(* 5. Non-vacuity: each of the 27 type bytes has a wire-representable message. *)
Definition sample_qid : qid := {| q_type := 128; q_vers := 7; q_path := 18446744073709551615 |}.
Definition sample_dir : list fval :=
  [FInt 2 1; FInt 4 2; FQid sample_qid; FInt 4 2147484141; FTime 1600000000%Z; FTime 4294967295%Z; FInt 8 4096;
   FStr [110; 97; 109; 101]; FStr [117]; FStr []; FStr [255; 0]].
Definition sample_of_kind (k : kind) : val :=
  match k with
  | KInt w => VF (FInt w (2 ^ (8 * w) - 1))
  | KStr => VF (FStr [57; 80; 0; 255])
  | KData => VF (FData [0; 1; 2; 255])
  | KStrs => VF (FStrs [[97]; []; [46; 46]])
  | KQid => VF (FQid sample_qid)
  | KQids => VF (FQids [sample_qid; sample_qid])
  | KTime => VF (FTime 0%Z)
  | KDir => VDir sample_dir
  end.
Definition sample_fcall (t : N) : fcall :=
  {| fc_type := t; fc_tag := 65534;
     fc_fields := match kinds_of_type t with Some ks => map sample_of_kind ks | None => [] end |}.

Example C01_all_kinds :
  forallb (fun t => wf_fcall (sample_fcall t)) spec_types = true /\ List.length spec_types = 27%nat.
Proof. split; vm_compute; reflexivity. Qed.
Print Assumptions C01_all_kinds.
