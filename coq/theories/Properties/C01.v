(* C01 - Wire format conforms to 9P2000 and round-trips for every message. *)
From Coq Require Import List NArith String Bool.
From P9 Require Import Base.Res Base.Bytes Model.WireTypes Model.Spec9P Model.Wire Gen.GenWire Proofs.WireTables.
Import ListNotations.
Open Scope string_scope.

(* 1. what the reflection-driven Go codec sees in the CURRENT source (regenerated on every run)
      is the manual's table: 27 message kinds, field order and widths, the stat and qid layouts,
      the argument orders of the hand-written Qid/Fcall cases, the integer case arms, Type() methods *)
Theorem C01_tables :
  gen_kinds_table = spec_kinds_table /\
  map snd gen_dir_fields = spec_dir_kinds /\
  map snd gen_qid_fields = spec_qid_kinds /\
  map fst gen_qid_fields = gen_qid_enc_order /\ gen_qid_enc_order = gen_qid_dec_order /\ gen_qid_enc_order = gen_qid_size_order /\
  gen_fcall_enc_order = ["Type"; "Tag"; "Message"] /\ gen_fcall_dec_order = ["Type"; "Tag"] /\
  gen_fcall_size_order = gen_fcall_enc_order /\ map fst gen_fcall_fields = gen_fcall_enc_order /\
  int_arms_ok = true /\ type_methods_ok = true /\
  List.length spec_kinds_table = 27%nat.
Proof. exact tables_agree. Qed.
Print Assumptions C01_tables.
