(* C13 - every entry handed to the session is released exactly once.
   Stage 1 (unrepaired code): see C08.v; the theorems follow the repairs. *)
From stdpp Require Import gmap.
From P9 Require Import Model.Path Model.Session.

(* in-place walk of an open directory fid keeps the old entry's Readdir: use after release *)
Example C13_refuted_inplace_walk_keeps_file :
  bad_use (final sess0 (srun sess0 [(OAttach 0 NOFID, [Tok 0 true 0]); (OOpen 0 0, []);
                                    (OWalk 0 0 [[97]], [Tok 0 true 1]); (ORead 0, [])])) = [0].
Proof. vm_compute. reflexivity. Qed.
