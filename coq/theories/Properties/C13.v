(* C13 - every entry the file system hands to the session and that becomes
   bound to a fid is released exactly once, never used after its release and
   never released while it stays bound; after Stop nothing remains bound.
   For every operation sequence and every pattern of file-system failures.
   Only statements: each is closed by [exact lemma]; Print Assumptions follows.

   Vocabulary (Model/Session.v ghost state, Proofs/SessionGhost.v):
     after ops         the session state after running ops from the empty session
     B s f e           fid f is bound to entry e in s
     released s        the release events so far: (entry, cause), one per Clunk / Remove call the
                       session made on an entry or consumption of a parent's handle by a successful Create
     rel s             the entries of [released s]
     bound_ever s      every entry that has been bound to a fid
     bad_use s         entries on which the session made a file-system call (on the entry, its File
                       or its ReadNext) after their release *)
From stdpp Require Import gmap.
From Coq Require Import NArith ZArith.
From P9 Require Import Model.Path Model.Session Model.FidSpec
  Proofs.SessionProofs Proofs.SessionGhost Proofs.SessionClauses Proofs.SessionCalls.
Open Scope N_scope.

(* released at most once *)
Theorem C13_once : ∀ ops, no_stop ops → NoDup (rel (after ops)).
Proof. exact c13_once. Qed.
Print Assumptions C13_once.

(* released at least once: whatever was bound and no longer is, has been released *)
Theorem C13_all : ∀ ops e, no_stop ops →
  e ∈ bound_ever (after ops) → (∃ f, B (after ops) f e) ∨ e ∈ rel (after ops).
Proof. exact c13_all. Qed.
Print Assumptions C13_all.

(* never released while it stays bound *)
Theorem C13_not_while_bound : ∀ ops f e, no_stop ops → B (after ops) f e → e ∉ rel (after ops).
Proof. exact c13_not_while_bound. Qed.
Print Assumptions C13_not_while_bound.

(* an entry is bound to at most one fid (so releasing it through one fid cannot hit another) *)
Theorem C13_bound_once : ∀ ops f g e, no_stop ops → B (after ops) f e → B (after ops) g e → f = g.
Proof. exact c13_bound_once. Qed.
Print Assumptions C13_bound_once.

(* never used after its release *)
Theorem C13_no_use_after : ∀ ops, no_stop ops → bad_use (after ops) = [].
Proof. exact c13_no_use_after. Qed.
Print Assumptions C13_no_use_after.

(* the same on the call lists which the correspondence check compares with the calls arriving
   at the real file system: every call of an operation goes to an entry that was not released
   before the operation ... *)
Theorem C13_calls_live : ∀ s o ts c e, reach s → is_stop o = false →
  c ∈ (sstep s o ts).2 → call_ent c = Some e → e ∉ rel s.
Proof. exact calls_live_reach. Qed.
Print Assumptions C13_calls_live.

(* ... namely to the entry bound to a fid when the operation starts or to an entry handed over
   during the operation, and within the operation nothing follows a Clunk / Remove / Create-on-parent
   of the same entry *)
Theorem C13_calls_ordered : ∀ s o ts, reach s → is_stop o = false →
  (∀ c e, c ∈ (sstep s o ts).2 → call_ent c = Some e → (∃ f, B s f e) ∨ e = next s) ∧
  no_use_after (sstep s o ts).2.
Proof. exact calls_ok_reach. Qed.
Print Assumptions C13_calls_ordered.

(* the release of a once-bound entry has one of the five causes of the property text:
   clunk, remove, consumed by a successful create, replaced by an in-place walk, stop *)
Theorem C13_causes : ∀ ops e c, no_stop ops →
  (e, c) ∈ released (after ops) → e ∈ bound_ever (after ops) → bound_cause c.
Proof. exact c13_causes. Qed.
Print Assumptions C13_causes.

(* Stop at any point: afterwards nothing is bound, every entry that was ever bound has been
   released - exactly once, never used afterwards *)
Theorem C13_stop : ∀ ops ts, no_stop ops →
  let s' := after (ops ++ [(OStop, ts)]) in
  NoDup (rel s') ∧ (∀ f e, ¬ B s' f e) ∧
  bound_ever s' = bound_ever (after ops) ∧
  (∀ e, e ∈ bound_ever s' → e ∈ rel s') ∧
  bad_use s' = [] ∧
  (∀ e c, (e, c) ∈ released s' → e ∈ bound_ever s' → bound_cause c).
Proof. exact c13_stop. Qed.
Print Assumptions C13_stop.

(* Stop arriving in the middle of an operation: operation o is inside a file-system call,
   holding its fid's lock or the reservation of the fid it is about to bind, when Stop is called.
   Stop takes every SFid's lock before looking at it, so it waits for the operation and then
   releases whatever the operation has bound (Model/Session.v inflight_stop; that Stop does wait
   is what the gated-file-system family of the harness observes).  Afterwards the table is empty,
   every entry ever bound has been released, once, and not used afterwards; both return. *)
Theorem C13_stop_inflight : ∀ s o ts, reach s → is_stop o = false →
  let s3 := (inflight_stop s o ts).2.1.1 in
  NoDup (rel s3) ∧ (∀ f' e, ¬ B s3 f' e) ∧ refs s3 = ∅ ∧
  (∀ e, e ∈ bound_ever s3 → e ∈ rel s3) ∧ bad_use s3 = [] ∧
  bound_ever s3 = bound_ever (sstep s o ts).1.1 ∧
  (inflight_stop s o ts).2.1.2 = ROk 0 ∧ (inflight_stop s o ts).1.1.2 ≠ RHang.
Proof. exact c13_stop_inflight. Qed.
Print Assumptions C13_stop_inflight.

(* the invariant behind these, preserved by every single operation from any well-formed state *)
Theorem C13_step_invariant : ∀ s o ts, WF s → G s → is_stop o = false → G (sstep s o ts).1.1.
Proof. exact step_G. Qed.
Print Assumptions C13_step_invariant.

(* ---- non-vacuity: a run in which each of the five causes occurs, with file-system failures ---- *)
Definition ex13_ops : list (op * list tok) :=
  [ (OAttach 0 NOFID, [Tok 0 true 0]);            (* entry 0 *)
    (OWalk 0 1 [[97]], [Tok 0 true 1]);           (* entry 1 *)
    (OWalk 0 2 [], [Tok 0 true 0]);               (* entry 2 *)
    (OWalk 0 3 [], [Tok 0 true 0]);               (* entry 3 *)
    (OOpen 1 0, []);
    (OWalk 1 1 [[98]], [Tok 0 false 1; Tok 1 false 0]);   (* in place: entry 1 replaced by entry 4; its Clunk fails *)
    (OCreate 2 [110] 1, [Tok 0 false 0]);         (* entry 2 consumed, entry 5 *)
    (OClunk 3, [Tok 1 false 0]);                  (* Clunk of entry 3 returns an error *)
    (ORemove 1, []);                              (* entry 4 *)
    (OCreate 0 [110] 0, [Tok 0 true 0; Tok 1 false 0]) ]. (* entry 0 consumed; new dir 6 cannot be opened: dropped *)

Example C13_ex_released :
  released (after ex13_ops)
  = [(1, RcWalk); (2, RcCreate); (3, RcClunk); (4, RcRemove); (0, RcCreate); (6, RcDrop)]
  ∧ bound_ever (after ex13_ops) = [5; 4; 3; 2; 1; 0]
  ∧ bad_use (after ex13_ops) = []
  ∧ no_stop ex13_ops.
Proof. split_and!; try (vm_compute; reflexivity). repeat constructor. Qed.

Example C13_ex_bound : B (after ex13_ops) 2 5 ∧ 5 ∈ bound_ever (after ex13_ops).
Proof. split; [eexists _, _; vm_compute; done|vm_compute; set_solver]. Qed.

Example C13_ex_calls :
  (sstep (after (take 4 ex13_ops)) (OCreate 3 [110] 0) [Tok 0 true 0; Tok 1 false 0]).2
  = [CCreate 3; COpenDir 4; CClunk 4]
  ∧ no_use_after [CCreate 3; COpenDir 4; CClunk 4] ∧ ¬ no_use_after [CClunk 5; CRead 5].
Proof.
  split; [vm_compute; reflexivity|]. split.
  - cbn. split_and!; try done; intros e [= <-] c' Hc; repeat (apply elem_of_cons in Hc as [->|Hc]); try done;
      by apply elem_of_nil in Hc.
  - intros [H _]. apply (H 5 eq_refl (CRead 5)); [apply elem_of_list_singleton|]; reflexivity.
Qed.

Example C13_ex_stop :
  released (after (ex13_ops ++ [(OStop, [])]))
  = [(1, RcWalk); (2, RcCreate); (3, RcClunk); (4, RcRemove); (0, RcCreate); (6, RcDrop); (5, RcStop)].
Proof. vm_compute. reflexivity. Qed.

Example C13_ex_stop_inflight :
  let '((s1, r, cs), (s3, r3, cs3)) :=
    inflight_stop (after (take 4 ex13_ops)) (OWalk 0 100 [[97]]) [Tok 0 true 1] in
  cs = [CWalk 0 1] ∧ r = ROk 1 ∧ r3 = ROk 0 ∧ length cs3 = 5%nat ∧ (CClunk 4) ∈ cs3
  ∧ map_to_list (refs s3) = [] ∧ bound_ever s3 = [4; 3; 2; 1; 0] ∧ is_stop (OWalk 0 100 [[97]]) = false.
Proof. vm_compute. split_and!; try done. repeat constructor. Qed.

(* the in-place walk of an open directory fid no longer keeps the replaced entry's Readdir *)
Example C13_ex_inplace_walk_drops_file :
  bad_use (final sess0 (srun sess0 [(OAttach 0 NOFID, [Tok 0 true 0]); (OOpen 0 0, []);
                                    (OWalk 0 0 [[97]], [Tok 0 true 1]); (ORead 0 8, [])])) = [].
Proof. vm_compute. reflexivity. Qed.
