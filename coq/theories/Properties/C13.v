(* C13 - every entry handed to the session is released exactly once. (theorems follow) *)
From stdpp Require Import gmap.
From P9 Require Import Model.Path Model.Session.

Example C13_inplace_walk_drops_file :
  bad_use (final sess0 (srun sess0 [(OAttach 0 NOFID, [Tok 0 true 0]); (OOpen 0 0, []);
                                    (OWalk 0 0 [[97]], [Tok 0 true 1]); (ORead 0, [])])) = [].
Proof. vm_compute. reflexivity. Qed.
