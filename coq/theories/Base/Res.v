(* Outcome type of the models: Go panics and indefinite blocking are values. *)
From Coq Require Import List NArith.
Inductive res (A : Type) :=
| Ok (a : A)
| Err (e : list N)      (* an ordinary Go error; the payload is the error text when the property is about text *)
| Panic                 (* the Go code would panic here *)
| Hang.                 (* the Go code would block forever here *)
Arguments Ok {A} a. Arguments Err {A} e. Arguments Panic {A}. Arguments Hang {A}.

Definition bind {A B} (r : res A) (f : A -> res B) : res B :=
  match r with Ok a => f a | Err e => Err e | Panic => Panic | Hang => Hang end.
Notation "x <- r ;; k" := (bind r (fun x => k)) (at level 61, r at next level, right associativity).
Definition is_ok {A} (r : res A) : bool := match r with Ok _ => true | _ => false end.
