(* Little-endian fixed-width integers over byte lists (bytes are N; a byte
   string produced by the encoders has every element < 256). *)
From Coq Require Import List NArith ZArith Lia.
Import ListNotations.
Open Scope N_scope.

Definition bytes := list N.

Fixpoint le (w : nat) (n : N) : bytes :=
  match w with
  | O => []
  | S w' => (n mod 256) :: le w' (n / 256)
  end.

Fixpoint unle (bs : bytes) : N :=
  match bs with
  | [] => 0
  | b :: r => b + 256 * unle r
  end.

Definition len (A : Type) (l : list A) : N := N.of_nat (length l).
Arguments len {A} l.

Definition take {A} (n : N) (l : list A) : list A := firstn (N.to_nat n) l.
Definition drop {A} (n : N) (l : list A) : list A := skipn (N.to_nat n) l.

(* [shorter bs n] = (len bs <? n), computed in min(n, |bs|) steps and without ever turning n into a nat *)
Fixpoint shorter (bs : bytes) (n : N) : bool :=
  match bs with
  | [] => 0 <? n
  | _ :: r => if n =? 0 then false else shorter r (N.pred n)
  end.

Definition is_byte (b : N) : Prop := b < 256.
Definition all_bytes (bs : bytes) : Prop := Forall is_byte bs.
Definition all_bytesb (bs : bytes) : bool := forallb (fun b => b <? 256) bs.
