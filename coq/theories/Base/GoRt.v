(* Run-time library of the function translator (harness/cmd/gen/gofn.go).

   The translator turns the BODY of a Go function of a small imperative subset
   (locals of type int / bool / string / []string, assignments, if/else,
   switch on a value, for-range over a slice with continue and early return,
   slicing and indexed stores with their bounds checks) into a Gallina term over
   the combinators below.  A statement list becomes a term of type [ctl R V]:
   it returns from the function ([Ret r]), panics ([Pan]) or falls through with
   the values of the variables it assigned ([Nxt v]).  Go's [int] is Z (64-bit
   overflow is not modelled: the translated functions only count list
   elements); strings are byte lists; a nil slice is []; an error value is
   [option (list N)] ([None] = nil, [Some text] = an error with that text).

   Definitions only; lemmas are in Proofs/GoRtProofs.v. *)
From Coq Require Import List NArith ZArith Bool.
Import ListNotations.

Inductive ctl (R V : Type) :=
| Ret (r : R)
| Nxt (v : V)
| Pan.
Arguments Ret {R V} r. Arguments Nxt {R V} v. Arguments Pan {R V}.

(* for i, x := range xs { body } : the body sees the index, the element and the
   loop-carried variables; [Nxt] goes on (also what `continue` means), [Ret]
   and [Pan] leave the loop *)
Fixpoint go_range_from {A R V} (i : Z) (xs : list A) (body : Z -> A -> V -> ctl R V) (v : V) : ctl R V :=
  match xs with
  | [] => Nxt v
  | x :: r =>
      match body i x v with
      | Nxt v' => go_range_from (i + 1)%Z r body v'
      | Ret a => Ret a
      | Pan => Pan
      end
  end.
Definition go_range {A R V} (xs : list A) (body : Z -> A -> V -> ctl R V) (v : V) : ctl R V :=
  go_range_from 0%Z xs body v.

(* for i := 0; i < n; i++ { body } with a constant bound: [fuel] iterations *)
Fixpoint go_count_from {R V} (fuel : nat) (i : Z) (body : Z -> V -> ctl R V) (v : V) : ctl R V :=
  match fuel with
  | O => Nxt v
  | S f =>
      match body i v with
      | Nxt v' => go_count_from f (i + 1)%Z body v'
      | Ret a => Ret a
      | Pan => Pan
      end
  end.

Definition go_len {A} (l : list A) : Z := Z.of_nat (length l).

(* x[lo:hi] : panics unless 0 <= lo <= hi <= len (cap = len for the slices the
   translated functions make) *)
Definition go_slice {A} (l : list A) (lo hi : Z) : option (list A) :=
  if (Z.leb 0 lo && Z.leb lo hi && Z.leb hi (go_len l))%bool
  then Some (firstn (Z.to_nat (hi - lo)) (skipn (Z.to_nat lo) l))
  else None.

(* x[i] *)
Definition go_index {A} (l : list A) (i : Z) : option A :=
  if (Z.leb 0 i && Z.ltb i (go_len l))%bool then nth_error l (Z.to_nat i) else None.

(* x[i] = v *)
Fixpoint set_nth {A} (l : list A) (n : nat) (v : A) : list A :=
  match l, n with
  | [], _ => []
  | _ :: r, O => v :: r
  | x :: r, S k => x :: set_nth r k v
  end.
Definition go_store {A} (l : list A) (i : Z) (v : A) : option (list A) :=
  if (Z.leb 0 i && Z.ltb i (go_len l))%bool then Some (set_nth l (Z.to_nat i) v) else None.

(* make([]T, n) with zero value z; panics for n < 0 *)
Definition go_make {A} (z : A) (n : Z) : option (list A) :=
  if Z.leb 0 n then Some (repeat z (Z.to_nat n)) else None.

(* byte strings *)
Fixpoint go_str_eqb (a b : list N) : bool :=
  match a, b with
  | [], [] => true
  | x :: a, y :: b => (N.eqb x y && go_str_eqb a b)%bool
  | _, _ => false
  end.

(* strings.ContainsAny(s, chars) *)
Definition go_contains_any (s chars : list N) : bool :=
  existsb (fun c => existsb (N.eqb c) chars) s.

(* strings.Count(s, sep) for a one-byte sep *)
Definition go_count_byte (s : list N) (c : N) : Z :=
  Z.of_nat (length (filter (N.eqb c) s)).

(* a map the function only probes: the list of its keys; `_, ok := m[k]` and len(m) *)
Definition go_map_has (m : list Z) (k : Z) : bool := existsb (Z.eqb k) m.

(* fixed-width unsigned conversion *)
Definition go_wrap (bits : Z) (x : Z) : Z := Z.modulo x (Z.pow 2 bits).
