(* Case I/O for the correspondence check: S-expressions over byte lists,
   with parser and printer written in Gallina so that the OCaml glue only
   moves characters.  Syntax (one case per line, no newlines inside):
     atom  ::= decimal integer (optional leading '-')   -> SNum
             | '#' hexdigits (possibly none)            -> SBytes
             | symbol starting with a letter or '_'     -> SSym
     list  ::= '(' item* ')' , items separated by single spaces *)
From Coq Require Import List NArith ZArith Bool.
Import ListNotations.
Open Scope N_scope.

Inductive sexp :=
| SNum (z : Z)
| SBytes (bs : list N)
| SSym (s : list N)
| SList (l : list sexp).

Definition ch_lp : N := 40.   Definition ch_rp : N := 41.
Definition ch_sp : N := 32.   Definition ch_hash : N := 35.
Definition ch_minus : N := 45.

Definition hexdigit (n : N) : N := if n <? 10 then 48 + n else 87 + n.
Definition unhex (c : N) : N :=
  if (48 <=? c) && (c <=? 57) then c - 48
  else if (97 <=? c) && (c <=? 102) then c - 87
  else if (65 <=? c) && (c <=? 70) then c - 55 else 0.

Fixpoint hex_of_bytes (bs : list N) : list N :=
  match bs with
  | [] => []
  | b :: r => hexdigit (N.shiftr b 4 mod 16) :: hexdigit (b mod 16) :: hex_of_bytes r
  end.

Fixpoint bytes_of_hex (cs : list N) : list N :=
  match cs with
  | a :: b :: r => (unhex a * 16 + unhex b) :: bytes_of_hex r
  | _ => []
  end.

(* decimal printing through the standard library's Decimal representation *)
Fixpoint chars_of_uint (u : Decimal.uint) : list N :=
  match u with
  | Decimal.Nil => []
  | Decimal.D0 r => 48 :: chars_of_uint r | Decimal.D1 r => 49 :: chars_of_uint r
  | Decimal.D2 r => 50 :: chars_of_uint r | Decimal.D3 r => 51 :: chars_of_uint r
  | Decimal.D4 r => 52 :: chars_of_uint r | Decimal.D5 r => 53 :: chars_of_uint r
  | Decimal.D6 r => 54 :: chars_of_uint r | Decimal.D7 r => 55 :: chars_of_uint r
  | Decimal.D8 r => 56 :: chars_of_uint r | Decimal.D9 r => 57 :: chars_of_uint r
  end.

Definition chars_of_N (n : N) : list N :=
  match n with 0 => [48] | _ => chars_of_uint (N.to_uint n) end.

Definition chars_of_Z (z : Z) : list N :=
  match z with
  | Zneg p => ch_minus :: chars_of_N (Npos p)
  | _ => chars_of_N (Z.to_N z)
  end.

Definition N_of_chars (cs : list N) : N :=
  fold_left (fun acc c => acc * 10 + (c - 48)) cs 0.

Fixpoint print_sexp (s : sexp) : list N :=
  match s with
  | SNum z => chars_of_Z z
  | SBytes bs => ch_hash :: hex_of_bytes bs
  | SSym s => s
  | SList l =>
      let fix go (l : list sexp) : list N :=
        match l with
        | [] => []
        | [x] => print_sexp x
        | x :: r => print_sexp x ++ ch_sp :: go r
        end in
      ch_lp :: go l ++ [ch_rp]
  end.

Definition atom_of_chars (cs : list N) : sexp :=
  match cs with
  | [] => SSym []
  | c :: r =>
      if c =? ch_hash then SBytes (bytes_of_hex r)
      else if c =? ch_minus then SNum (- Z.of_N (N_of_chars r))
      else if (48 <=? c) && (c <=? 57) then SNum (Z.of_N (N_of_chars cs))
      else SSym cs
  end.

(* Parser: one pass with an explicit stack of partially built lists
   (each in reverse) and the current atom (in reverse). *)
Record pst := { p_stack : list (list sexp); p_top : list sexp; p_atom : option (list N) }.

Definition flush_atom (st : pst) : pst :=
  match p_atom st with
  | None => st
  | Some a => {| p_stack := p_stack st; p_top := atom_of_chars (rev_append a []) :: p_top st; p_atom := None |}
  end.

Definition pstep (st : pst) (c : N) : pst :=
  if c =? ch_lp then
    let st := flush_atom st in
    {| p_stack := p_top st :: p_stack st; p_top := []; p_atom := None |}
  else if c =? ch_rp then
    let st := flush_atom st in
    match p_stack st with
    | [] => st
    | parent :: rest => {| p_stack := rest; p_top := SList (rev_append (p_top st) []) :: parent; p_atom := None |}
    end
  else if c =? ch_sp then flush_atom st
  else {| p_stack := p_stack st; p_top := p_top st;
          p_atom := Some (c :: match p_atom st with Some a => a | None => [] end) |}.

Definition parse_sexp (cs : list N) : sexp :=
  let st := flush_atom (fold_left pstep cs {| p_stack := []; p_top := []; p_atom := None |}) in
  match p_top st with
  | x :: _ => x
  | [] => SList []
  end.

(* helpers used by the per-property Run files *)
Definition sym (s : list N) : sexp := SSym s.
Definition snat (n : N) : sexp := SNum (Z.of_N n).
Definition sbool (b : bool) : sexp := SNum (if b then 1 else 0)%Z.

Definition get_N (s : sexp) : N := match s with SNum z => Z.to_N z | _ => 0 end.
Definition get_Z (s : sexp) : Z := match s with SNum z => z | _ => 0%Z end.
Definition get_bytes (s : sexp) : list N := match s with SBytes b => b | SSym b => b | _ => [] end.
Definition get_list (s : sexp) : list sexp := match s with SList l => l | _ => [] end.
Definition get_bool (s : sexp) : bool := match s with SNum z => negb (Z.eqb z 0) | _ => false end.

Fixpoint list_N_eqb (a b : list N) : bool :=
  match a, b with
  | [], [] => true
  | x :: a, y :: b => (x =? y) && list_N_eqb a b
  | _, _ => false
  end.

(* ASCII symbols as byte lists without depending on Strings *)
Definition is_sym (s : sexp) (name : list N) : bool :=
  match s with SSym x => list_N_eqb x name | _ => false end.

(* ASCII literals: [str "walk"] is the byte list of the string *)
From Coq Require Import String Ascii.
Definition str (s : string) : list N := map N_of_ascii (list_ascii_of_string s).
Definition ssym (s : string) : sexp := SSym (str s).
Definition head_is (s : sexp) (name : string) : bool :=
  match s with SList (h :: _) => is_sym h (str name) | _ => false end.
Definition arg (s : sexp) (i : nat) : sexp := nth (S i) (get_list s) (SList []).
