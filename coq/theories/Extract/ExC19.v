From Coq Require Extraction.
From Coq Require Import ExtrOcamlBasic.
From P9 Require Import Run.RunC19.
Extraction "extracted/C19.ml" run_line.
