From Coq Require Extraction.
From Coq Require Import ExtrOcamlBasic.
From P9 Require Import Run.RunC15.
Extraction "extracted/C15.ml" run_line.
