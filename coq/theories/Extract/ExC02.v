From Coq Require Extraction.
From Coq Require Import ExtrOcamlBasic.
From P9 Require Import Run.RunC02.
Extraction "extracted/C02.ml" run_line.
