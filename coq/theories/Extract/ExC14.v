From Coq Require Extraction.
From Coq Require Import ExtrOcamlBasic.
From P9 Require Import Run.RunC14.
Extraction "extracted/C14.ml" run_line.
