From Coq Require Extraction.
From Coq Require Import ExtrOcamlBasic.
From P9 Require Import Run.RunC05.
Extraction "extracted/C05.ml" run_line.
