From Coq Require Extraction.
From Coq Require Import ExtrOcamlBasic.
From P9 Require Import Run.RunC09.
Extraction "extracted/C09.ml" run_line.
