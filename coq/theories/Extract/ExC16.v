From Coq Require Extraction.
From Coq Require Import ExtrOcamlBasic.
From P9 Require Import Run.RunC16.
Extraction "extracted/C16.ml" run_line.
