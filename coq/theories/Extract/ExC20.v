From Coq Require Extraction.
From Coq Require Import ExtrOcamlBasic.
From P9 Require Import Run.RunC20.
Extraction "extracted/C20.ml" run_line.
