From Coq Require Extraction.
From Coq Require Import ExtrOcamlBasic.
From P9 Require Import Run.RunC11.
Extraction "extracted/C11.ml" run_line.
