From Coq Require Extraction.
From Coq Require Import ExtrOcamlBasic.
From P9 Require Import Run.RunC01.
Extraction "extracted/C01.ml" run_line.
