From Coq Require Extraction.
From Coq Require Import ExtrOcamlBasic.
From P9 Require Import Run.RunC08.
Extraction "extracted/C08.ml" run_line.
