From Coq Require Extraction.
From Coq Require Import ExtrOcamlBasic.
From P9 Require Import Run.RunC06.
Extraction "extracted/C06.ml" run_line.
