From Coq Require Extraction.
From Coq Require Import ExtrOcamlBasic.
From P9 Require Import Run.RunC17.
Extraction "extracted/C17.ml" run_line.
