From Coq Require Extraction.
From Coq Require Import ExtrOcamlBasic.
From P9 Require Import Run.RunC12.
Extraction "extracted/C12.ml" RunC12.run_line.
