From Coq Require Extraction.
From Coq Require Import ExtrOcamlBasic.
From P9 Require Import Run.RunC18.
Extraction "extracted/C18.ml" run_line.
