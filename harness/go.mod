module verifharness

go 1.20

require github.com/frobnitzem/go-p9p v0.0.0

replace github.com/frobnitzem/go-p9p => /repo
