// Package sx builds and prints the canonical S-expressions exchanged with
// the Coq models (see coq/theories/Base/Sexp.v for the syntax).
package sx

import (
	"encoding/hex"
	"strconv"
	"strings"
)

type S interface{ write(b *strings.Builder) }

type num struct{ v string }
type byt struct{ v []byte }
type symb struct{ v string }
type lst struct{ v []S }

func (n num) write(b *strings.Builder)  { b.WriteString(n.v) }
func (n byt) write(b *strings.Builder)  { b.WriteByte('#'); b.WriteString(hex.EncodeToString(n.v)) }
func (n symb) write(b *strings.Builder) { b.WriteString(n.v) }
func (n lst) write(b *strings.Builder) {
	b.WriteByte('(')
	for i, x := range n.v {
		if i > 0 {
			b.WriteByte(' ')
		}
		x.write(b)
	}
	b.WriteByte(')')
}

func I(v int64) S    { return num{strconv.FormatInt(v, 10)} }
func U(v uint64) S   { return num{strconv.FormatUint(v, 10)} }
func B(v []byte) S   { return byt{v} }
func Str(v string) S { return byt{[]byte(v)} }
func Sym(v string) S { return symb{v} }
func L(v ...S) S     { return lst{v} }
func List(v []S) S   { return lst{v} }
func Bool(v bool) S {
	if v {
		return num{"1"}
	}
	return num{"0"}
}
func Strs(v []string) S {
	out := make([]S, len(v))
	for i, s := range v {
		out[i] = Str(s)
	}
	return lst{out}
}

func String(s S) string {
	var b strings.Builder
	s.write(&b)
	return b.String()
}
