// Package lconn: scripted in-memory net.Conn for the channel harnesses.
package lconn

import (
	"io"
	"net"
	"sync"
	"time"
)

type addr struct{}

func (addr) Network() string { return "mem" }
func (addr) String() string  { return "mem" }

// Script delivers the given chunks, one per Read call (split further when the
// caller's buffer is smaller), then io.EOF; it records everything written.
type Script struct {
	mu      sync.Mutex
	chunks  [][]byte
	Written []byte
	// WriteErr, when non-nil, is returned by every Write (nothing recorded).
	WriteErr error
	// Hold, when non-nil, makes Read block at the end of the script until
	// Close is called (the peer stays connected but silent).
	Hold     chan struct{}
	holdOnce sync.Once
	// OnWriteDeadline, when non-nil, is called by SetWriteDeadline (i.e. inside a WriteFcall, after its
	// entry check of the context).
	OnWriteDeadline func()
}

// NewHeld is NewScript for a peer that stays connected after its script.
func NewHeld(chunks [][]byte) *Script { return &Script{chunks: chunks, Hold: make(chan struct{})} }

// WrittenCopy returns a snapshot of what was written so far.
func (s *Script) WrittenCopy() []byte {
	s.mu.Lock()
	defer s.mu.Unlock()
	return append([]byte{}, s.Written...)
}

func NewScript(chunks [][]byte) *Script { return &Script{chunks: chunks} }

func (s *Script) Read(p []byte) (int, error) {
	s.mu.Lock()
	defer s.mu.Unlock()
	for len(s.chunks) > 0 && len(s.chunks[0]) == 0 {
		s.chunks = s.chunks[1:]
	}
	if len(s.chunks) == 0 {
		if s.Hold != nil {
			s.mu.Unlock()
			<-s.Hold
			s.mu.Lock()
		}
		return 0, io.EOF
	}
	n := copy(p, s.chunks[0])
	s.chunks[0] = s.chunks[0][n:]
	return n, nil
}

func (s *Script) Write(p []byte) (int, error) {
	s.mu.Lock()
	defer s.mu.Unlock()
	if s.WriteErr != nil {
		return 0, s.WriteErr
	}
	s.Written = append(s.Written, p...)
	return len(p), nil
}

func (s *Script) Close() error {
	if s.Hold != nil {
		s.holdOnce.Do(func() { close(s.Hold) })
	}
	return nil
}
func (s *Script) LocalAddr() net.Addr               { return addr{} }
func (s *Script) RemoteAddr() net.Addr              { return addr{} }
func (s *Script) SetDeadline(t time.Time) error     { return nil }
func (s *Script) SetReadDeadline(t time.Time) error { return nil }
func (s *Script) SetWriteDeadline(t time.Time) error {
	if s.OnWriteDeadline != nil {
		s.OnWriteDeadline()
	}
	return nil
}

// Chunk splits stream according to mode: 0 = one chunk, 1 = single bytes,
// 2 = at the given boundaries, 3 = random sizes from next().
func Chunk(stream []byte, mode int, bounds []int, next func() int) [][]byte {
	switch mode {
	case 1:
		out := make([][]byte, len(stream))
		for i := range stream {
			out[i] = stream[i : i+1]
		}
		return out
	case 2:
		var out [][]byte
		prev := 0
		for _, b := range bounds {
			if b > prev && b <= len(stream) {
				out = append(out, stream[prev:b])
				prev = b
			}
		}
		if prev < len(stream) {
			out = append(out, stream[prev:])
		}
		return out
	case 3:
		var out [][]byte
		for i := 0; i < len(stream); {
			n := next()
			if n < 1 {
				n = 1
			}
			if i+n > len(stream) {
				n = len(stream) - i
			}
			out = append(out, stream[i:i+n])
			i += n
		}
		return out
	}
	return [][]byte{stream}
}
