// Package wiregen: 9P message values for the harnesses — canonical sexp form
// (matching coq/theories/Run/WireSexp.v), a reference encoder written straight
// from the 9P2000 manual (no reflection, independent of /repo's codec), and
// boundary-dense generators.
package wiregen

import (
	"encoding/binary"
	"reflect"
	"time"

	p9p "github.com/frobnitzem/go-p9p"

	"verifharness/internal/prng"
	"verifharness/internal/sx"
)

func fi(w int, n uint64) sx.S { return sx.L(sx.Sym("i"), sx.I(int64(w)), sx.U(n)) }
func fs(s string) sx.S        { return sx.L(sx.Sym("s"), sx.Str(s)) }
func fd(d []byte) sx.S        { return sx.L(sx.Sym("d"), sx.B(d)) }
func fq(q p9p.Qid) sx.S {
	return sx.L(sx.Sym("q"), sx.U(uint64(q.Type)), sx.U(uint64(q.Version)), sx.U(q.Path))
}
func ft(t time.Time) sx.S { return sx.L(sx.Sym("t"), sx.I(t.Unix())) }

func DirFields(d p9p.Dir) []sx.S {
	return []sx.S{fi(2, uint64(d.Type)), fi(4, uint64(d.Dev)), fq(d.Qid), fi(4, uint64(d.Mode)), ft(d.AccessTime), ft(d.ModTime),
		fi(8, d.Length), fs(d.Name), fs(d.UID), fs(d.GID), fs(d.MUID)}
}
func fdir(d p9p.Dir) sx.S { return sx.L(sx.Sym("dir"), sx.List(DirFields(d))) }

// MessageFields lists a message's fields in struct order, as sexps; ok=false for an unknown message type.
func MessageFields(m p9p.Message) (out []sx.S, ok bool) {
	ok = true
	if rv := reflect.ValueOf(m); rv.IsValid() && rv.Kind() == reflect.Ptr && !rv.IsNil() {
		if pm, isMsg := rv.Elem().Interface().(p9p.Message); isMsg {
			m = pm // pointer form: same fields
		}
	}
	switch v := m.(type) {
	case p9p.MessageTversion:
		out = []sx.S{fi(4, uint64(v.MSize)), fs(v.Version)}
	case p9p.MessageRversion:
		out = []sx.S{fi(4, uint64(v.MSize)), fs(v.Version)}
	case p9p.MessageTauth:
		out = []sx.S{fi(4, uint64(v.Afid)), fs(v.Uname), fs(v.Aname)}
	case p9p.MessageRauth:
		out = []sx.S{fq(v.Qid)}
	case p9p.MessageTattach:
		out = []sx.S{fi(4, uint64(v.Fid)), fi(4, uint64(v.Afid)), fs(v.Uname), fs(v.Aname)}
	case p9p.MessageRattach:
		out = []sx.S{fq(v.Qid)}
	case p9p.MessageRerror:
		out = []sx.S{fs(v.Ename)}
	case p9p.MessageTflush:
		out = []sx.S{fi(2, uint64(v.Oldtag))}
	case p9p.MessageRflush:
		out = []sx.S{}
	case p9p.MessageTwalk:
		out = []sx.S{fi(4, uint64(v.Fid)), fi(4, uint64(v.Newfid)), sx.L(sx.Sym("ss"), sx.Strs(v.Wnames))}
	case p9p.MessageRwalk:
		qs := make([]sx.S, len(v.Qids))
		for i, q := range v.Qids {
			qs[i] = sx.L(sx.U(uint64(q.Type)), sx.U(uint64(q.Version)), sx.U(q.Path))
		}
		out = []sx.S{sx.L(sx.Sym("qs"), sx.List(qs))}
	case p9p.MessageTopen:
		out = []sx.S{fi(4, uint64(v.Fid)), fi(1, uint64(v.Mode))}
	case p9p.MessageRopen:
		out = []sx.S{fq(v.Qid), fi(4, uint64(v.IOUnit))}
	case p9p.MessageTcreate:
		out = []sx.S{fi(4, uint64(v.Fid)), fs(v.Name), fi(4, uint64(v.Perm)), fi(1, uint64(v.Mode))}
	case p9p.MessageRcreate:
		out = []sx.S{fq(v.Qid), fi(4, uint64(v.IOUnit))}
	case p9p.MessageTread:
		out = []sx.S{fi(4, uint64(v.Fid)), fi(8, v.Offset), fi(4, uint64(v.Count))}
	case p9p.MessageRread:
		out = []sx.S{fd(v.Data)}
	case p9p.MessageTwrite:
		out = []sx.S{fi(4, uint64(v.Fid)), fi(8, v.Offset), fd(v.Data)}
	case p9p.MessageRwrite:
		out = []sx.S{fi(4, uint64(v.Count))}
	case p9p.MessageTclunk:
		out = []sx.S{fi(4, uint64(v.Fid))}
	case p9p.MessageRclunk:
		out = []sx.S{}
	case p9p.MessageTremove:
		out = []sx.S{fi(4, uint64(v.Fid))}
	case p9p.MessageRremove:
		out = []sx.S{}
	case p9p.MessageTstat:
		out = []sx.S{fi(4, uint64(v.Fid))}
	case p9p.MessageRstat:
		out = []sx.S{fdir(v.Stat)}
	case p9p.MessageTwstat:
		out = []sx.S{fi(4, uint64(v.Fid)), fdir(v.Stat)}
	case p9p.MessageRwstat:
		out = []sx.S{}
	default:
		ok = false
	}
	return
}

// FcallSexp: (fcall type tag (fields...)); a nil or foreign Message prints as (fcall type tag nomsg).
func FcallSexp(fc *p9p.Fcall) sx.S {
	fields, ok := MessageFields(fc.Message)
	if !ok {
		return sx.L(sx.Sym("fcall"), sx.U(uint64(fc.Type)), sx.U(uint64(fc.Tag)), sx.Sym("nomsg"))
	}
	return sx.L(sx.Sym("fcall"), sx.U(uint64(fc.Type)), sx.U(uint64(fc.Tag)), sx.List(fields))
}

// ---------------- reference encoder, from intro(5)/stat(5) ----------------

type buf struct{ b []byte }

func (w *buf) u8(v uint8)   { w.b = append(w.b, v) }
func (w *buf) u16(v uint16) { w.b = binary.LittleEndian.AppendUint16(w.b, v) }
func (w *buf) u32(v uint32) { w.b = binary.LittleEndian.AppendUint32(w.b, v) }
func (w *buf) u64(v uint64) { w.b = binary.LittleEndian.AppendUint64(w.b, v) }
func (w *buf) s(v string)   { w.u16(uint16(len(v))); w.b = append(w.b, v...) }
func (w *buf) qid(q p9p.Qid) {
	w.u8(uint8(q.Type))
	w.u32(q.Version)
	w.u64(q.Path)
}

// RefStat is a stat record: size[2] then the fields.
func RefStat(d p9p.Dir) []byte {
	var w buf
	w.u16(d.Type)
	w.u32(d.Dev)
	w.qid(d.Qid)
	w.u32(d.Mode)
	w.u32(uint32(d.AccessTime.Unix()))
	w.u32(uint32(d.ModTime.Unix()))
	w.u64(d.Length)
	w.s(d.Name)
	w.s(d.UID)
	w.s(d.GID)
	w.s(d.MUID)
	var o buf
	o.u16(uint16(len(w.b)))
	return append(o.b, w.b...)
}

// RefEncode is type[1] tag[2] body, i.e. the frame without the channel's size[4]. ok=false for unknown messages.
func RefEncode(fc *p9p.Fcall) ([]byte, bool) {
	if rv := reflect.ValueOf(fc.Message); rv.IsValid() && rv.Kind() == reflect.Ptr && !rv.IsNil() {
		if pm, isMsg := rv.Elem().Interface().(p9p.Message); isMsg {
			c := *fc
			c.Message = pm
			fc = &c
		}
	}
	var w buf
	w.u8(uint8(fc.Type))
	w.u16(uint16(fc.Tag))
	switch v := fc.Message.(type) {
	case p9p.MessageTversion:
		w.u32(v.MSize)
		w.s(v.Version)
	case p9p.MessageRversion:
		w.u32(v.MSize)
		w.s(v.Version)
	case p9p.MessageTauth:
		w.u32(uint32(v.Afid))
		w.s(v.Uname)
		w.s(v.Aname)
	case p9p.MessageRauth:
		w.qid(v.Qid)
	case p9p.MessageTattach:
		w.u32(uint32(v.Fid))
		w.u32(uint32(v.Afid))
		w.s(v.Uname)
		w.s(v.Aname)
	case p9p.MessageRattach:
		w.qid(v.Qid)
	case p9p.MessageRerror:
		w.s(v.Ename)
	case p9p.MessageTflush:
		w.u16(uint16(v.Oldtag))
	case p9p.MessageRflush:
	case p9p.MessageTwalk:
		w.u32(uint32(v.Fid))
		w.u32(uint32(v.Newfid))
		w.u16(uint16(len(v.Wnames)))
		for _, n := range v.Wnames {
			w.s(n)
		}
	case p9p.MessageRwalk:
		w.u16(uint16(len(v.Qids)))
		for _, q := range v.Qids {
			w.qid(q)
		}
	case p9p.MessageTopen:
		w.u32(uint32(v.Fid))
		w.u8(uint8(v.Mode))
	case p9p.MessageRopen:
		w.qid(v.Qid)
		w.u32(v.IOUnit)
	case p9p.MessageTcreate:
		w.u32(uint32(v.Fid))
		w.s(v.Name)
		w.u32(v.Perm)
		w.u8(uint8(v.Mode))
	case p9p.MessageRcreate:
		w.qid(v.Qid)
		w.u32(v.IOUnit)
	case p9p.MessageTread:
		w.u32(uint32(v.Fid))
		w.u64(v.Offset)
		w.u32(v.Count)
	case p9p.MessageRread:
		w.u32(uint32(len(v.Data)))
		w.b = append(w.b, v.Data...)
	case p9p.MessageTwrite:
		w.u32(uint32(v.Fid))
		w.u64(v.Offset)
		w.u32(uint32(len(v.Data)))
		w.b = append(w.b, v.Data...)
	case p9p.MessageRwrite:
		w.u32(v.Count)
	case p9p.MessageTclunk:
		w.u32(uint32(v.Fid))
	case p9p.MessageRclunk:
	case p9p.MessageTremove:
		w.u32(uint32(v.Fid))
	case p9p.MessageRremove:
	case p9p.MessageTstat:
		w.u32(uint32(v.Fid))
	case p9p.MessageRstat:
		st := RefStat(v.Stat)
		w.u16(uint16(len(st)))
		w.b = append(w.b, st...)
	case p9p.MessageTwstat:
		w.u32(uint32(v.Fid))
		st := RefStat(v.Stat)
		w.u16(uint16(len(st)))
		w.b = append(w.b, st...)
	case p9p.MessageRwstat:
	default:
		return nil, false
	}
	return w.b, true
}

// ---------------- generators ----------------

var strLens = []int{0, 0, 1, 1, 2, 3, 7, 8, 15, 16, 17, 100, 255, 256, 257, 1000}
var bigStrLens = []int{65534, 65535}

func GenString(r *prng.R, allowBig bool) string {
	n := strLens[r.Intn(len(strLens))]
	if allowBig && r.Chance(1, 300) {
		n = bigStrLens[r.Intn(len(bigStrLens))]
	}
	b := make([]byte, n)
	switch r.Intn(4) {
	case 0: // arbitrary bytes incl. NUL and non-UTF-8
		for i := range b {
			b[i] = byte(r.U64())
		}
	case 1:
		for i := range b {
			b[i] = "abc/.\\\x00\xff"[r.Intn(8)]
		}
	default:
		for i := range b {
			b[i] = byte('a' + r.Intn(26))
		}
	}
	return string(b)
}

func GenU8(r *prng.R) uint8 {
	return uint8(r.PickU64(0, 1, 2, 3, 0x10, 0x40, 0x7f, 0x80, 0xfe, 0xff, r.U64()&0xff))
}
func GenU16(r *prng.R) uint16 {
	return uint16(r.PickU64(0, 1, 0xff, 0x100, 0x7fff, 0x8000, 0xfffe, 0xffff, r.U64()&0xffff))
}
func GenU32(r *prng.R) uint32 {
	return uint32(r.PickU64(0, 1, 0xff, 0xffff, 0x10000, 0x7fffffff, 0x80000000, 0xfffffffe, 0xffffffff, r.U64()&0xffffffff, uint64(r.Intn(100000))))
}
func GenU64(r *prng.R) uint64 {
	return r.PickU64(0, 1, 0xffffffff, 0x100000000, 0x7fffffffffffffff, 0x8000000000000000, 0xfffffffffffffffe, 0xffffffffffffffff, r.U64(), uint64(r.Intn(100000)))
}
func GenQid(r *prng.R) p9p.Qid {
	return p9p.Qid{Type: p9p.QType(GenU8(r)), Version: GenU32(r), Path: GenU64(r)}
}

// GenTime: whole seconds within the 32-bit range (the property's premise).
func GenTime(r *prng.R) time.Time {
	return time.Unix(int64(GenU32(r)), 0).UTC()
}

func GenDir(r *prng.R) p9p.Dir {
	return p9p.Dir{Type: GenU16(r), Dev: GenU32(r), Qid: GenQid(r), Mode: GenU32(r), AccessTime: GenTime(r), ModTime: GenTime(r),
		Length: GenU64(r), Name: GenString(r, false), UID: GenString(r, false), GID: GenString(r, false), MUID: GenString(r, false)}
}

func GenData(r *prng.R, max int) []byte {
	n := r.Pick(0, 0, 1, 2, 23, 24, 100, 4096, 8192)
	if r.Chance(1, 150) {
		n = r.Pick(65535, 65536, 70000)
	}
	if n > max {
		n = max
	}
	if r.Chance(1, 3) {
		n = r.Intn(max/64 + 2)
	}
	return r.Bytes(n)
}

func GenNames(r *prng.R) []string {
	n := r.Pick(0, 0, 1, 1, 2, 3, 16, 17, 40)
	if r.Chance(1, 150) {
		n = r.Pick(300, 65535)
	}
	out := make([]string, n)
	for i := range out {
		if n > 100 {
			out[i] = "ab"[:r.Intn(3)]
		} else {
			out[i] = GenString(r, false)
		}
	}
	return out
}

func GenQids(r *prng.R) []p9p.Qid {
	n := r.Pick(0, 0, 1, 2, 16, 17)
	if r.Chance(1, 150) {
		n = r.Pick(300, 65535)
	}
	out := make([]p9p.Qid, n)
	for i := range out {
		out[i] = GenQid(r)
	}
	return out
}

// AllTypes are the 27 message type bytes in order.
var AllTypes = []p9p.FcallType{p9p.Tversion, p9p.Rversion, p9p.Tauth, p9p.Rauth, p9p.Tattach, p9p.Rattach, p9p.Rerror, p9p.Tflush, p9p.Rflush,
	p9p.Twalk, p9p.Rwalk, p9p.Topen, p9p.Ropen, p9p.Tcreate, p9p.Rcreate, p9p.Tread, p9p.Rread, p9p.Twrite, p9p.Rwrite, p9p.Tclunk, p9p.Rclunk,
	p9p.Tremove, p9p.Rremove, p9p.Tstat, p9p.Rstat, p9p.Twstat, p9p.Rwstat}

// GenMessage builds a wire-representable message of the given type.
func GenMessage(r *prng.R, t p9p.FcallType, maxData int) p9p.Message {
	switch t {
	case p9p.Tversion:
		return p9p.MessageTversion{MSize: GenU32(r), Version: GenString(r, true)}
	case p9p.Rversion:
		return p9p.MessageRversion{MSize: GenU32(r), Version: GenString(r, true)}
	case p9p.Tauth:
		return p9p.MessageTauth{Afid: p9p.Fid(GenU32(r)), Uname: GenString(r, true), Aname: GenString(r, false)}
	case p9p.Rauth:
		return p9p.MessageRauth{Qid: GenQid(r)}
	case p9p.Tattach:
		return p9p.MessageTattach{Fid: p9p.Fid(GenU32(r)), Afid: p9p.Fid(GenU32(r)), Uname: GenString(r, false), Aname: GenString(r, true)}
	case p9p.Rattach:
		return p9p.MessageRattach{Qid: GenQid(r)}
	case p9p.Rerror:
		return p9p.MessageRerror{Ename: GenString(r, true)}
	case p9p.Tflush:
		return p9p.MessageTflush{Oldtag: p9p.Tag(GenU16(r))}
	case p9p.Rflush:
		return p9p.MessageRflush{}
	case p9p.Twalk:
		return p9p.MessageTwalk{Fid: p9p.Fid(GenU32(r)), Newfid: p9p.Fid(GenU32(r)), Wnames: GenNames(r)}
	case p9p.Rwalk:
		return p9p.MessageRwalk{Qids: GenQids(r)}
	case p9p.Topen:
		return p9p.MessageTopen{Fid: p9p.Fid(GenU32(r)), Mode: p9p.Flag(GenU8(r))}
	case p9p.Ropen:
		return p9p.MessageRopen{Qid: GenQid(r), IOUnit: GenU32(r)}
	case p9p.Tcreate:
		return p9p.MessageTcreate{Fid: p9p.Fid(GenU32(r)), Name: GenString(r, true), Perm: GenU32(r), Mode: p9p.Flag(GenU8(r))}
	case p9p.Rcreate:
		return p9p.MessageRcreate{Qid: GenQid(r), IOUnit: GenU32(r)}
	case p9p.Tread:
		return p9p.MessageTread{Fid: p9p.Fid(GenU32(r)), Offset: GenU64(r), Count: GenU32(r)}
	case p9p.Rread:
		return p9p.MessageRread{Data: GenData(r, maxData)}
	case p9p.Twrite:
		return p9p.MessageTwrite{Fid: p9p.Fid(GenU32(r)), Offset: GenU64(r), Data: GenData(r, maxData)}
	case p9p.Rwrite:
		return p9p.MessageRwrite{Count: GenU32(r)}
	case p9p.Tclunk:
		return p9p.MessageTclunk{Fid: p9p.Fid(GenU32(r))}
	case p9p.Rclunk:
		return p9p.MessageRclunk{}
	case p9p.Tremove:
		return p9p.MessageTremove{Fid: p9p.Fid(GenU32(r))}
	case p9p.Rremove:
		return p9p.MessageRremove{}
	case p9p.Tstat:
		return p9p.MessageTstat{Fid: p9p.Fid(GenU32(r))}
	case p9p.Rstat:
		return p9p.MessageRstat{Stat: GenDir(r)}
	case p9p.Twstat:
		return p9p.MessageTwstat{Fid: p9p.Fid(GenU32(r)), Stat: GenDir(r)}
	case p9p.Rwstat:
		return p9p.MessageRwstat{}
	}
	return nil
}

func GenFcall(r *prng.R, t p9p.FcallType, maxData int) *p9p.Fcall {
	m := GenMessage(r, t, maxData)
	return &p9p.Fcall{Type: m.Type(), Tag: p9p.Tag(GenU16(r)), Message: m}
}

// Pointer returns the same message in pointer form (&MessageXxx{...}): the message structs have value
// receivers, so both forms implement p9p.Message and the codec lists both in its type switches.
func Pointer(m p9p.Message) p9p.Message {
	v := reflect.New(reflect.TypeOf(m))
	v.Elem().Set(reflect.ValueOf(m))
	return v.Interface().(p9p.Message)
}
