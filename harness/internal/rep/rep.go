// Package rep writes what a harness run produced, for bin/check:
//
//	<out>/cases.txt    one line per case: case-sexp TAB observed-sexp
//	<out>/oracle.jsonl one JSON object per failure found by a direct oracle
//	                   on the implementation: {"key","what","case",...}
//	<out>/stats.json   counts measured in this run (evaluations, distinct
//	                   non-trivial cases, branch histogram, samples, ...)
package rep

import (
	"bufio"
	"encoding/json"
	"flag"
	"fmt"
	"os"
	"path/filepath"
	"runtime/debug"
	"strconv"
	"strings"

	"verifharness/internal/sx"
)

type Report struct {
	Out        string
	Tier       string
	Seed       uint64
	cases      *bufio.Writer
	casesF     *os.File
	oracle     *os.File
	seen       map[string]struct{}
	nontrivial map[string]struct{}
	Evals      int
	Hist       map[string]int
	Samples    []string
	Failures   int
	Rule       string
	Extra      map[string]interface{}
	maxSamples int
	last       sx.S // the last case recorded (context for a panic report)
}

// Open parses the common flags (-out, -tier, -seed; VERIF_SEED overrides the
// default seed) and creates the output files.
func Open() *Report {
	out := flag.String("out", "", "output directory")
	tier := flag.String("tier", "quick", "quick|thorough")
	seed := flag.Uint64("seed", 1, "PRNG seed")
	flag.Parse()
	if *out == "" {
		fmt.Fprintln(os.Stderr, "need -out")
		os.Exit(2)
	}
	if s := os.Getenv("VERIF_SEED"); s != "" && !isFlagSet("seed") {
		if v, err := strconv.ParseUint(s, 10, 64); err == nil {
			*seed = v
		}
	}
	if err := os.MkdirAll(*out, 0o755); err != nil {
		panic(err)
	}
	cf, err := os.Create(filepath.Join(*out, "cases.txt"))
	if err != nil {
		panic(err)
	}
	of, err := os.Create(filepath.Join(*out, "oracle.jsonl"))
	if err != nil {
		panic(err)
	}
	return &Report{Out: *out, Tier: *tier, Seed: *seed, cases: bufio.NewWriterSize(cf, 1<<20), casesF: cf, oracle: of,
		seen: map[string]struct{}{}, nontrivial: map[string]struct{}{}, Hist: map[string]int{}, Extra: map[string]interface{}{}, maxSamples: 5}
}

func isFlagSet(name string) bool {
	set := false
	flag.Visit(func(f *flag.Flag) {
		if f.Name == name {
			set = true
		}
	})
	return set
}

func (r *Report) Thorough() bool { return r.Tier == "thorough" }

// N picks the case count by tier.
func (r *Report) N(quick, thorough int) int {
	if r.Thorough() {
		return thorough
	}
	return quick
}

// Case records one case with what the implementation did. branch is a label
// for the histogram; nontrivial says whether the case counts as non-trivial
// under the property's stated rule.
func (r *Report) Case(c, observed sx.S, branch string, nontrivial bool) {
	r.last = c
	cs := sx.String(c)
	r.cases.WriteString(cs)
	r.cases.WriteByte('\t')
	r.cases.WriteString(sx.String(observed))
	r.cases.WriteByte('\n')
	r.Evals++
	r.Hist[branch]++
	if nontrivial {
		key := cs
		if len(key) > 200 {
			key = key[:200] + "#" + strconv.Itoa(len(cs)) + "#" + strconv.FormatUint(fnv(cs), 16)
		}
		r.nontrivial[key] = struct{}{}
	}
	if len(r.Samples) < r.maxSamples && nontrivial && len(cs) < 400 && r.Evals%7 == 1 {
		r.Samples = append(r.Samples, cs+" => "+sx.String(observed))
	}
}

func fnv(s string) uint64 {
	h := uint64(14695981039346656037)
	for i := 0; i < len(s); i++ {
		h ^= uint64(s[i])
		h *= 1099511628211
	}
	return h
}

// Fail records a failure found by a direct oracle on the implementation.
// key is the stable identity used by known_findings.txt.
func (r *Report) Fail(key, what string, c sx.S, detail map[string]interface{}) {
	r.Failures++
	m := map[string]interface{}{"key": key, "what": what}
	if c != nil {
		m["case"] = sx.String(c)
	}
	for k, v := range detail {
		m[k] = v
	}
	b, _ := json.Marshal(m)
	r.oracle.Write(append(b, '\n'))
}

// panicInImplementation: is the function that panicked (the first frame below the run-time's own)
// one of the library under test?
func panicInImplementation(stack string) bool {
	repo := os.Getenv("VERIF_REPO")
	if repo == "" {
		repo = "/repo"
	}
	lines := strings.Split(stack, "\n")
	seenPanic := false
	for i, l := range lines {
		if strings.HasPrefix(l, "\t") || l == "" {
			continue
		}
		if !seenPanic {
			if strings.HasPrefix(l, "panic(") {
				seenPanic = true
			}
			continue
		}
		if strings.HasPrefix(l, "runtime.") || strings.HasPrefix(l, "panic(") {
			continue
		}
		// the frame's source file is on the next line (function names are unreliable: inlined
		// closures of the library are named after their caller)
		file := ""
		if i+1 < len(lines) {
			file = strings.TrimSpace(lines[i+1])
		}
		return strings.HasPrefix(l, "github.com/frobnitzem/go-p9p") || strings.HasPrefix(file, repo+"/")
	}
	return false
}

// Close finishes the output files.  Called as `defer r.Close()` from main it also turns a panic of
// the implementation on the harness's main goroutine into a recorded failure with the panic text,
// the stack and the last completed case (instead of a harness that merely died), and lets the
// run end normally so that bin/check reports it with that replay.
func (r *Report) Close() {
	if p := recover(); p != nil {
		stack := string(debug.Stack())
		if !panicInImplementation(stack) {
			panic(p) // a fault of the harness itself
		}
		if len(stack) > 6000 {
			stack = stack[:6000]
		}
		r.Fail("implementation.panic", fmt.Sprintf("the implementation panicked on the case after the one shown (case %d of this run): %v", r.Evals+1, p), r.last,
			map[string]interface{}{"stack": stack})
		r.Extra["stopped_by_panic"] = fmt.Sprint(p)
	}
	r.cases.Flush()
	r.casesF.Close()
	r.oracle.Close()
	st := map[string]interface{}{
		"evaluations":         r.Evals,
		"distinct_nontrivial": len(r.nontrivial),
		"rule":                r.Rule,
		"histogram":           r.Hist,
		"samples":             r.Samples,
		"oracle_failures":     r.Failures,
		"seed":                r.Seed,
		"tier":                r.Tier,
	}
	for k, v := range r.Extra {
		st[k] = v
	}
	b, _ := json.MarshalIndent(st, "", " ")
	os.WriteFile(filepath.Join(r.Out, "stats.json"), b, 0o644)
}
