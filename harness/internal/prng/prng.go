// Package prng is a splitmix64 generator: every random choice of a harness
// run derives from one seed (VERIF_SEED), so disagreements replay exactly.
package prng

type R struct{ s uint64 }

func New(seed uint64) *R { return &R{s: seed*0x9E3779B97F4A7C15 + 0x1234567} }

func (r *R) U64() uint64 {
	r.s += 0x9E3779B97F4A7C15
	z := r.s
	z = (z ^ (z >> 30)) * 0xBF58476D1CE4E5B9
	z = (z ^ (z >> 27)) * 0x94D049BB133111EB
	return z ^ (z >> 31)
}

// Intn returns a value in [0,n); n must be > 0.
func (r *R) Intn(n int) int { return int(r.U64() % uint64(n)) }

// Range returns a value in [lo,hi].
func (r *R) Range(lo, hi int) int { return lo + r.Intn(hi-lo+1) }

func (r *R) Bool() bool { return r.U64()&1 == 1 }

// Chance is true with probability num/den.
func (r *R) Chance(num, den int) bool { return r.Intn(den) < num }

func (r *R) Bytes(n int) []byte {
	b := make([]byte, n)
	for i := range b {
		b[i] = byte(r.U64())
	}
	return b
}

// Pick returns one of the given ints.
func (r *R) Pick(xs ...int) int { return xs[r.Intn(len(xs))] }

// PickU64 returns one of the given values.
func (r *R) PickU64(xs ...uint64) uint64 { return xs[r.Intn(len(xs))] }

// Fork derives an independent generator (for per-case replay).
func (r *R) Fork() *R { return New(r.U64()) }
