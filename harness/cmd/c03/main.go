// C03 harness: Channel.ReadFcall on scripted byte streams: sequences of
// frames (valid of every kind, oversize by k, undecodable bodies, bodies
// shorter than their message needs, size fields 0..3, stream ending
// mid-frame) x msize x chunkings of the stream into Read() results.
// Observed: the outcome of each successive ReadFcall (message / overflow k /
// error class / panic).  Direct oracle: the outcome each frame must have by
// construction, independent of the model.
package main

import (
	"context"
	"encoding/binary"
	"fmt"
	"io"

	p9p "github.com/frobnitzem/go-p9p"

	"verifharness/internal/lconn"
	"verifharness/internal/prng"
	"verifharness/internal/rep"
	"verifharness/internal/sx"
	"verifharness/internal/wiregen"
)

type expect struct {
	kind string // msg | overflow | error | end
	msg  string // canonical text of the expected message
	k    int
	what string
}

func frameOf(body []byte) []byte {
	out := make([]byte, 4, 4+len(body))
	binary.LittleEndian.PutUint32(out, uint32(len(body)+4))
	return append(out, body...)
}

func errClass(err error) string {
	switch {
	case err == io.EOF:
		return "eof"
	case err == io.ErrUnexpectedEOF:
		return "ueof"
	case err != nil && err.Error() == "unknown message type":
		return "unknown"
	case err != nil && err.Error() == "p9p: invalid message size":
		return "badsize"
	}
	return "other"
}

func main() {
	r := rep.Open()
	defer r.Close()
	r.Rule = "sequences of 1..7 frames drawn from {valid of each of the 27 kinds, oversize by k in 1..40 or 2*msize, unknown type byte, body cut short by 1..8 bytes, runt bodies of 0..2 bytes, size field 0..3, final frame cut at a random offset} x msize in {64..9000} x chunking {whole, single bytes, frame-aligned, random}. Non-trivial: every sequence; distinct by canonical text."
	rng := prng.New(r.Seed)
	n := r.N(1500, 40000)
	for i := 0; i < n; i++ {
		sequence(r, rng)
	}
}

func sequence(r *rep.Report, rng *prng.R) {
	msize := rng.Pick(64, 100, 128, 255, 256, 512, 1000, 4096, 8192, 9000)
	// one sequence in five renegotiates in mid-stream: the first k frames are read at a larger msize0,
	// then SetMSize(msize) is called while later frames may already sit in the channel's read buffer
	msize0, k0 := 0, 0
	if rng.Chance(1, 5) {
		msize0 = rng.Pick(9000, 16384, 65536)
	}
	nframes := rng.Range(1, 7)
	var stream []byte
	var bounds []int
	var exp []expect
	cutLast := rng.Chance(1, 5)
	if msize0 > 0 {
		k0 = rng.Range(1, nframes)
	}
	for f := 0; f < nframes; f++ {
		final := msize
		if f < k0 {
			msize = msize0 // this frame is read (and judged) under the earlier, larger msize
		}
		kind := rng.Intn(10)
		t := wiregen.AllTypes[rng.Intn(len(wiregen.AllTypes))]
		fc := wiregen.GenFcall(rng, t, msize/2)
		body, _ := wiregen.RefEncode(fc)
		switch {
		case kind <= 4: // valid (may turn out oversize for this msize)
			fr := frameOf(body)
			stream = append(stream, fr...)
			if len(fr) > msize {
				exp = append(exp, expect{kind: "overflow", k: len(fr) - msize, what: "oversize frame"})
			} else {
				want := *fc
				if m, ok := fc.Message.(p9p.MessageTread); ok && 11+uint64(m.Count) > uint64(msize) {
					m.Count = uint32(msize - 11)
					want.Message = m
				}
				exp = append(exp, expect{kind: "msg", msg: sx.String(wiregen.FcallSexp(&want)), what: "well-formed " + t.String()})
			}
		case kind == 5: // oversize by k
			k := rng.Pick(1, 2, 3, 4, 5, 8, 16, 40, 2*msize)
			pad := msize + k - 4
			b := append(append([]byte{}, body...), rng.Bytes(pad)...)[:pad]
			stream = append(stream, frameOf(b)...)
			exp = append(exp, expect{kind: "overflow", k: k, what: fmt.Sprintf("frame %d bytes over msize", k)})
		case kind == 6: // exactly msize, padded valid message (trailing bytes are ignored by the decoder)
			if len(body)+4 <= msize {
				b := append(append([]byte{}, body...), make([]byte, msize-4-len(body))...)
				stream = append(stream, frameOf(b)...)
				want := *fc
				if m, ok := fc.Message.(p9p.MessageTread); ok && 11+uint64(m.Count) > uint64(msize) {
					m.Count = uint32(msize - 11)
					want.Message = m
				}
				exp = append(exp, expect{kind: "msg", msg: sx.String(wiregen.FcallSexp(&want)), what: "frame of exactly msize"})
			} else {
				stream = append(stream, frameOf(body)...)
				exp = append(exp, expect{kind: "overflow", k: len(body) + 4 - msize, what: "oversize frame"})
			}
		case kind == 7: // unknown type byte
			b := append([]byte{byte(rng.Pick(0, 1, 99, 106, 128, 200, 255)), 1, 0}, rng.Bytes(rng.Intn(20))...)
			stream = append(stream, frameOf(b)...)
			exp = append(exp, expect{kind: "error", what: "unknown type byte"})
		case kind == 8: // body shorter than the message needs
			if rng.Intn(3) == 0 {
				// a runt: a well-framed body too short even for type[1] tag[2] (size field 4, 5 or 6); it is
				// consumed in full, reported as an error, and the frames after it are still delivered
				n := rng.Intn(3)
				b := append([]byte{}, body...)
				if rng.Intn(2) == 0 {
					b = rng.Bytes(3)
				}
				stream = append(stream, frameOf(b[:n])...)
				exp = append(exp, expect{kind: "error", what: fmt.Sprintf("runt frame, body of %d bytes", n)})
			} else if len(body) > 3 && len(body)+4 <= msize {
				cut := rng.Range(1, 8)
				if cut > len(body)-3 {
					cut = len(body) - 3
				}
				stream = append(stream, frameOf(body[:len(body)-cut])...)
				exp = append(exp, expect{kind: "error", what: fmt.Sprintf("%v body short by %d", t, cut)})
			} else {
				stream = append(stream, frameOf([]byte{byte(p9p.Tclunk), 0, 0, 9})...)
				exp = append(exp, expect{kind: "error", what: "Tclunk body short by 3"})
			}
		default: // impossible size field
			var h [4]byte
			binary.LittleEndian.PutUint32(h[:], uint32(rng.Intn(4)))
			stream = append(stream, h[:]...)
			exp = append(exp, expect{kind: "error", what: "size field below 4"})
		}
		bounds = append(bounds, len(stream))
		msize = final
	}
	if cutLast && len(bounds) > 0 {
		start := 0
		if len(bounds) > 1 {
			start = bounds[len(bounds)-2]
		}
		if bounds[len(bounds)-1]-start > 1 {
			cut := start + 1 + rng.Intn(bounds[len(bounds)-1]-start-1)
			last := exp[len(exp)-1]
			// a cut that still leaves a complete size field below 4 keeps its "error" expectation
			if !(last.what == "size field below 4") {
				stream = stream[:cut]
				exp[len(exp)-1] = expect{kind: "end", what: "stream ends inside the frame"}
			}
		}
	}
	mode := rng.Intn(4)
	chunks := lconn.Chunk(append([]byte{}, stream...), mode, bounds, func() int { return rng.Pick(1, 2, 3, 5, 7, 13, 64, 500) })
	conn := lconn.NewScript(chunks)
	var ch p9p.Channel
	if msize0 > 0 {
		ch = p9p.NewChannel(conn, msize0)
	} else {
		switch rng.Intn(3) { // the msize is reached directly or through SetMSize, as negotiation does
		case 0:
			ch = p9p.NewChannel(conn, msize)
		case 1:
			ch = p9p.NewChannel(conn, msize+rng.Pick(1, 4, 100, 65536))
			ch.SetMSize(msize)
		default:
			ch = p9p.NewChannel(conn, msize/2)
			ch.SetMSize(msize)
		}
	}
	reads := nframes + 2
	c := sx.L(sx.Sym("read"), sx.I(int64(msize)), sx.I(int64(reads)), sx.B(stream), sx.I(int64(mode)))
	if msize0 > 0 {
		c = sx.L(sx.Sym("read2"), sx.I(int64(msize0)), sx.I(int64(k0)), sx.I(int64(msize)), sx.I(int64(reads-k0)), sx.B(stream), sx.I(int64(mode)))
	}
	var obs []sx.S
	var got []string
	panicked := false
	for i := 0; i < reads && !panicked; i++ {
		if msize0 > 0 && i == k0 {
			ch.SetMSize(msize)
		}
		var fc p9p.Fcall
		var err error
		func() {
			defer func() {
				if rec := recover(); rec != nil {
					panicked = true
				}
			}()
			err = ch.ReadFcall(context.Background(), &fc)
		}()
		switch {
		case panicked:
			obs = append(obs, sx.L(sx.Sym("panic")))
			got = append(got, "panic")
		case err == nil:
			obs = append(obs, sx.L(sx.Sym("msg"), wiregen.FcallSexp(&fc)))
			got = append(got, "msg "+sx.String(wiregen.FcallSexp(&fc)))
		case p9p.Overflow(err) > 0:
			obs = append(obs, sx.L(sx.Sym("overflow"), sx.I(int64(p9p.Overflow(err)))))
			got = append(got, fmt.Sprintf("overflow %d", p9p.Overflow(err)))
		default:
			obs = append(obs, sx.L(sx.Sym("err"), sx.Sym(errClass(err))))
			got = append(got, "err "+errClass(err))
		}
	}
	r.Case(c, sx.List(obs), fmt.Sprintf("read:%dframes", nframes), true)

	// ---- direct oracle ----
	if panicked {
		r.Fail("channel.ReadFcall.panic", fmt.Sprintf("ReadFcall panicked at read %d (%s)", len(got), exp[minInt(len(got)-1, len(exp)-1)].what), c, nil)
		return
	}
	for i, e := range exp {
		g := got[i]
		switch e.kind {
		case "msg":
			if g != "msg "+e.msg {
				r.Fail("channel.ReadFcall.frame-outcome", fmt.Sprintf("frame %d (%s) was not delivered as its message: got %.120s", i, e.what, g), c, map[string]interface{}{"want": e.msg})
				return
			}
		case "overflow":
			if g != fmt.Sprintf("overflow %d", e.k) {
				r.Fail("channel.ReadFcall.overflow", fmt.Sprintf("frame %d (%s): expected an overflow of %d, got %.80s", i, e.what, e.k, g), c, nil)
				return
			}
		case "error":
			if len(g) < 4 || g[:3] != "err" {
				r.Fail("channel.ReadFcall.bad-frame-accepted", fmt.Sprintf("frame %d (%s) must yield an error, got %.160s", i, e.what, g), c, nil)
				return
			}
		case "end":
			if len(g) < 4 || g[:3] != "err" {
				r.Fail("channel.ReadFcall.truncated-stream", fmt.Sprintf("frame %d (%s) must yield an error, got %.80s", i, e.what, g), c, nil)
			}
			return
		}
	}
	for i := len(exp); i < len(got); i++ {
		if got[i] != "err eof" {
			r.Fail("channel.ReadFcall.after-end", fmt.Sprintf("read %d after the last frame returned %.80s instead of end of stream", i, got[i]), c, nil)
			return
		}
	}
}

func minInt(a, b int) int {
	if a < b {
		return a
	}
	if b < 0 {
		return 0
	}
	return b
}
