// C18 harness: drives /repo/ramfs through p9p.SFileSys sessions.
//
// Sequential mode (default): 1-3 sessions over one fresh server
// (ramfs.VerifNewServer), sequentially interleaved operations generated from
// the PRNG; every operation's projected result is printed for the Coq model
// (Model/Ramfs.v, extracted) to be compared with, and checked against a
// reference tree of byte arrays kept here (written from the property text:
// no reference counts, no release - just named nodes with bytes or children).
// After clunk-all the hook's nref/links table is checked (nref == links).
// Every operation runs under recover: a panic is an observation and ends the
// sequence (the server process would be gone).
//
// Concurrent mode (-mode conc): the same kind of sessions run as goroutines at
// the same time in a child process; under -race (thorough tier) the child's race
// reports are parsed and become oracle failures keyed by the racing functions.
package main

import (
	"bytes"
	"context"
	"flag"
	"fmt"
	"os"
	"os/exec"
	"path/filepath"
	"regexp"
	"sort"
	"strings"
	"sync"
	"time"

	p9p "github.com/frobnitzem/go-p9p"
	"github.com/frobnitzem/go-p9p/ramfs"

	"verifharness/internal/prng"
	"verifharness/internal/rep"
	"verifharness/internal/sx"
)

var ctx = context.Background()

const bigCount = 16384

// ---------------------------------------------------------------- operations

type op struct {
	kind   string
	s      int
	fid    uint32
	newfid uint32
	names  []string
	name   string
	perm   uint32
	mode   uint8
	off    uint64
	count  int
	data   []byte
	wmode  uint32
	uid    string
	gid    string
	wname  string
	wlen   uint64
	uname  string
}

func (o op) sexp() sx.S {
	s, f := sx.I(int64(o.s)), sx.U(uint64(o.fid))
	switch o.kind {
	case "attach":
		return sx.L(sx.Sym("attach"), s, f, sx.Str(o.uname))
	case "walk":
		return sx.L(sx.Sym("walk"), s, f, sx.U(uint64(o.newfid)), sx.Strs(o.names))
	case "create":
		return sx.L(sx.Sym("create"), s, f, sx.Str(o.name), sx.U(uint64(o.perm)), sx.U(uint64(o.mode)))
	case "open":
		return sx.L(sx.Sym("open"), s, f, sx.U(uint64(o.mode)))
	case "read":
		return sx.L(sx.Sym("read"), s, f, sx.U(o.off), sx.I(int64(o.count)))
	case "write":
		return sx.L(sx.Sym("write"), s, f, sx.U(o.off), sx.B(o.data))
	case "stat":
		return sx.L(sx.Sym("stat"), s, f)
	case "wstat":
		return sx.L(sx.Sym("wstat"), s, f, sx.U(uint64(o.wmode)), sx.Str(o.uid), sx.Str(o.gid), sx.Str(o.wname), sx.U(o.wlen))
	case "remove":
		return sx.L(sx.Sym("remove"), s, f)
	case "clunk":
		return sx.L(sx.Sym("clunk"), s, f)
	case "reftable":
		return sx.L(sx.Sym("reftable"))
	}
	panic("bad op")
}

// what the implementation did, in a form both the printer and the oracles use
type result struct {
	panicked bool
	pval     string
	err      error
	qid      p9p.Qid
	qids     []p9p.Qid
	data     []byte
	dirs     []p9p.Dir
	isDirs   bool
	n        int
	nerr     int // the count returned TOGETHER with an error
	stat     p9p.Dir
	tab      []ramfs.VerifNode
	gone     [][3]int64 // tracked nodes no longer reachable from the root: qid path, nref, number of children (-1: no map)
}

var errClass = map[string]string{
	"9p: unknown fid":                          "unknownfid",
	"9p: duplicate fid":                        "dupfid",
	"9p: Non-normalized path":                  "nonnorm",
	"9p: not a directory":                      "notdir",
	"9p: Invalid path":                         "invalidpath",
	"9p: invalid path":                         "invalidpath2",
	"9p: file not found":                       "notfound",
	"9p: illegal filename":                     "illegal",
	"9p: 9p: unknown fid":                      "c_unknownfid",
	"9p: create in non-directory":              "createnondir",
	"9p: 9p: Invalid path":                     "c_invalidpath",
	"9p: 9p: not a directory":                  "c_notdir",
	"9p: duplicate file name":                  "dupname",
	"9p: not a directory.":                     "rmnotdir",
	"9p: already open":                         "alreadyopen",
	"9p: no file open":                         "nofile",
	"9p: read prohibited":                      "noread",
	"9p: write prohibited":                     "nowrite",
	"EOF":                                      "eof",
	"9p: invalid address":                      "invalidaddr",
	"9p: invalid":                              "invalid",
	"9p: bad offset":                           "badoffset",
	"9p: not implemented":                      "notimpl",
	"9p: Size larger than file":                "toolarge",
	"9p: cannot remove root":                   "rmroot",
	"9p: wstat -- attempt to change directory": "wstatdir",
	"not found":                                "rmnotfound",
	"not a directory.":                         "rmnotdir",
}

func classOf(err error) string {
	if c, ok := errClass[err.Error()]; ok {
		return c
	}
	var b strings.Builder
	b.WriteString("other_")
	for _, c := range err.Error() {
		if c >= 'a' && c <= 'z' || c >= 'A' && c <= 'Z' || c >= '0' && c <= '9' {
			b.WriteRune(c)
		} else {
			b.WriteByte('_')
		}
	}
	return b.String()
}

func qidS(q p9p.Qid) sx.S { return sx.L(sx.U(uint64(q.Type)), sx.U(q.Path), sx.U(uint64(q.Version))) }

func dirS(d p9p.Dir) sx.S {
	return sx.L(sx.Str(d.Name), sx.U(uint64(d.Qid.Type)), sx.U(d.Qid.Path), sx.U(uint64(d.Qid.Version)),
		sx.U(uint64(d.Mode)), sx.U(d.Length), sx.Str(d.UID), sx.Str(d.GID), sx.Str(d.MUID))
}

func (res result) sexp(o op) sx.S {
	if res.panicked {
		return sx.Sym("panic")
	}
	if res.err != nil {
		return sx.L(sx.Sym("err"), sx.Sym(classOf(res.err)))
	}
	ok := sx.Sym("ok")
	switch o.kind {
	case "attach", "create", "open":
		return sx.L(ok, qidS(res.qid))
	case "walk":
		l := []sx.S{sx.Sym("qids")}
		for _, q := range res.qids {
			l = append(l, qidS(q))
		}
		return sx.L(ok, sx.List(l))
	case "read":
		if res.isDirs {
			ds := append([]p9p.Dir{}, res.dirs...)
			sort.Slice(ds, func(i, j int) bool { return ds[i].Name < ds[j].Name })
			l := []sx.S{sx.Sym("dirs")}
			for _, d := range ds {
				l = append(l, dirS(d))
			}
			return sx.L(ok, sx.List(l))
		}
		return sx.L(ok, sx.B(res.data))
	case "write":
		return sx.L(ok, sx.I(int64(res.n)))
	case "stat":
		return sx.L(ok, sx.L(sx.Sym("stat"), dirS(res.stat)))
	case "reftable":
		rows := append([]ramfs.VerifNode{}, res.tab...)
		sort.Slice(rows, func(i, j int) bool { return rows[i].Path < rows[j].Path })
		l := []sx.S{sx.Sym("tab")}
		for _, n := range rows {
			l = append(l, sx.L(sx.Str(n.Path), sx.I(int64(n.Nref)), sx.I(int64(n.Links)), sx.Bool(n.IsDir), sx.I(int64(n.Len))))
		}
		g := []sx.S{sx.Sym("gone")}
		for _, n := range res.gone {
			g = append(g, sx.L(sx.I(n[0]), sx.I(n[1]), sx.I(n[2])))
		}
		return sx.L(ok, sx.List(l), sx.List(g))
	}
	return sx.L(ok)
}

// ---------------------------------------------------------------- implementation under test

type impl struct {
	fs    p9p.FileSys
	sess  []p9p.Session
	isDir []map[uint32]bool            // per session: fid -> last opened as a directory (from the returned qid)
	nodes map[uint64]ramfs.VerifEntRef // every node a fid ever held, by qid path
}

// track remembers the nodes the fid's handle holds (entry and parent chain).
func (im *impl) track(s int, fid uint32) {
	ent, _, ok := p9p.VerifFidEnt(im.sess[s], p9p.Fid(fid))
	if !ok || ent == nil {
		return
	}
	refs, ok := ramfs.VerifHandleEnts(ent)
	if !ok {
		return
	}
	for _, r := range refs {
		qp, _, _ := r.State()
		im.nodes[qp] = r
	}
}

// the package-global tree ramfs.NewServer serves is used by ONE sequence per process, the first, while it is
// still in the state the package initialises it to: model, reference and the nref/links table are thereby
// also compared with the SHIPPED initial state (root reference count, root mode, first qid path), not only
// with the copy of it in the VerifNewServer hook
var shippedUsed bool

func newImpl(nsess int) *impl {
	var fs p9p.FileSys
	if !shippedUsed {
		shippedUsed = true
		fs = ramfs.NewServer(context.Background())
	} else {
		fs = ramfs.VerifNewServer()
	}
	im := &impl{fs: fs, nodes: map[uint64]ramfs.VerifEntRef{}}
	for i := 0; i < nsess; i++ {
		im.sess = append(im.sess, p9p.SFileSys(im.fs))
		im.isDir = append(im.isDir, map[uint32]bool{})
	}
	return im
}

func decodeDirs(b []byte) ([]p9p.Dir, error) {
	var out []p9p.Dir
	rd := bytes.NewReader(b)
	codec := p9p.NewCodec()
	for rd.Len() > 0 {
		var d p9p.Dir
		if err := p9p.DecodeDir(codec, rd, &d); err != nil {
			return out, err
		}
		out = append(out, d)
	}
	return out, nil
}

func (im *impl) do(o op) (res result) {
	defer func() {
		if v := recover(); v != nil {
			res = result{panicked: true, pval: fmt.Sprint(v)}
		}
	}()
	if o.kind == "reftable" {
		tab, ok := ramfs.VerifRefTable(im.fs)
		if !ok {
			panic("VerifRefTable: not a ramfs server")
		}
		var qps []uint64
		for qp := range im.nodes {
			qps = append(qps, qp)
		}
		sort.Slice(qps, func(i, j int) bool { return qps[i] < qps[j] })
		var gone [][3]int64
		for _, qp := range qps {
			if r := im.nodes[qp]; !ramfs.VerifLinked(im.fs, r) {
				_, nref, nk := r.State()
				gone = append(gone, [3]int64{int64(qp), int64(nref), int64(nk)})
			}
		}
		return result{tab: tab, gone: gone}
	}
	s := im.sess[o.s]
	fid := p9p.Fid(o.fid)
	switch o.kind {
	case "attach":
		res.qid, res.err = s.Attach(ctx, fid, p9p.NOFID, o.uname, "/")
		if res.err == nil {
			im.track(o.s, o.fid)
		}
	case "walk":
		res.qids, res.err = s.Walk(ctx, fid, p9p.Fid(o.newfid), o.names...)
		if res.err == nil && len(res.qids) == len(o.names) && o.newfid != o.fid {
			delete(im.isDir[o.s], o.newfid)
		}
		if res.err == nil && len(res.qids) == len(o.names) {
			im.track(o.s, o.newfid)
		}
	case "create":
		res.qid, _, res.err = s.Create(ctx, fid, o.name, o.perm, p9p.Flag(o.mode))
		if res.err == nil {
			im.isDir[o.s][o.fid] = res.qid.Type&p9p.QTDIR != 0
			im.track(o.s, o.fid)
		}
	case "open":
		res.qid, _, res.err = s.Open(ctx, fid, p9p.Flag(o.mode))
		if res.err == nil {
			im.isDir[o.s][o.fid] = res.qid.Type&p9p.QTDIR != 0
		}
	case "read":
		p := make([]byte, o.count)
		var n int
		n, res.err = s.Read(ctx, fid, p, int64(o.off))
		if res.err != nil {
			res.nerr = n
		}
		if res.err == nil {
			if n < 0 || n > len(p) {
				panic(fmt.Sprintf("Read returned n=%d for a %d byte buffer", n, len(p)))
			}
			if im.isDir[o.s][o.fid] {
				res.isDirs = true
				res.dirs, res.err = decodeDirs(p[:n])
				res.n = n
			} else {
				res.data = p[:n]
			}
		}
	case "write":
		res.n, res.err = s.Write(ctx, fid, o.data, int64(o.off))
		if res.err != nil {
			res.nerr = res.n
		}
	case "stat":
		res.stat, res.err = s.Stat(ctx, fid)
	case "wstat":
		res.err = s.WStat(ctx, fid, p9p.Dir{Mode: o.wmode, UID: o.uid, GID: o.gid, Name: o.wname, Length: o.wlen})
	case "remove":
		res.err = s.Remove(ctx, fid)
		delete(im.isDir[o.s], o.fid)
	case "clunk":
		res.err = s.Clunk(ctx, fid)
		delete(im.isDir[o.s], o.fid)
	}
	return res
}

// ---------------------------------------------------------------- reference tree (the property's "model tree")

type rnode struct {
	dir   bool
	kids  map[string]*rnode
	data  []byte
	name  string
	qpath uint64
}

type rfid struct {
	chain   []*rnode // root ... entry, the links by which the fid arrived
	open    bool
	openDir bool
	mode    uint8
	listing []string // names expected from a directory read (snapshot at open)
	ddPath  uint64   // qid path expected for ".."
	rdoff   int64    // bytes delivered so far by directory reads
	rdDone  bool
}

func (f *rfid) ent() *rnode { return f.chain[len(f.chain)-1] }

type ref struct {
	root *rnode
	fids []map[uint32]*rfid
}

func newRef(nsess int) *ref {
	r := &ref{root: &rnode{dir: true, kids: map[string]*rnode{}, name: "/", qpath: 1}}
	for i := 0; i < nsess; i++ {
		r.fids = append(r.fids, map[uint32]*rfid{})
	}
	return r
}

func safeName(s string) bool { return s != "" && s != "." && !strings.ContainsAny(s, "/\\") }

// validNames: safe elements, ".." only as a leading run; returns the run length or -1
func validNames(ns []string) int {
	n, lead := 0, true
	for _, s := range ns {
		if !safeName(s) {
			return -1
		}
		if s == ".." {
			if !lead {
				return -1
			}
			n++
		} else {
			lead = false
		}
	}
	return n
}

// resolve names from a chain in the reference tree: the chain after the longest
// resolvable prefix and the nodes passed; climbed = it would leave the root.
func (f *rfid) resolve(names []string) (chain []*rnode, passed []*rnode, climbed bool) {
	chain = append([]*rnode{}, f.chain...)
	for _, nm := range names {
		if nm == ".." {
			if len(chain) == 1 {
				return chain, passed, true
			}
			chain = chain[:len(chain)-1]
		} else {
			c, ok := chain[len(chain)-1].kids[nm]
			if !ok {
				return chain, passed, false
			}
			chain = append(chain, c)
		}
		passed = append(passed, chain[len(chain)-1])
	}
	return chain, passed, false
}

func (r *ref) snapshotListing(f *rfid) {
	f.listing = []string{".."}
	for nm := range f.ent().kids {
		f.listing = append(f.listing, nm)
	}
	sort.Strings(f.listing)
	if len(f.chain) > 1 {
		f.ddPath = f.chain[len(f.chain)-2].qpath
	} else {
		f.ddPath = f.ent().qpath
	}
}

type failFn func(key, what string)

// check compares what the implementation did with the reference tree and then
// advances the reference.  Only what the property text speaks about is judged.
func (r *ref) check(o op, res result, fail failFn) {
	if res.panicked {
		fail("ramfs.panic:"+o.kind, "request panicked the server: "+res.pval)
		return
	}
	if o.kind == "reftable" {
		r.checkTable(res.tab, fail)
		nfids := 0
		for _, m := range r.fids {
			nfids += len(m)
		}
		for _, g := range res.gone {
			if g[1] < 0 || (nfids == 0 && g[1] != 0) {
				fail("ramfs.refcount:unlinked-nref", fmt.Sprintf("node with qid path %d is no longer in the tree (no parent links) but has nref=%d with %d fids bound", g[0], g[1], nfids))
			}
			if nfids == 0 && g[2] > 0 {
				fail("ramfs.refcount:unlinked-children", fmt.Sprintf("node with qid path %d left the tree and no fid is bound, but it still links %d children", g[0], g[2]))
			}
		}
		return
	}
	fids := r.fids[o.s]
	f := fids[o.fid]
	live := f != nil && o.fid != 0xFFFFFFFF
	ok := res.err == nil
	switch o.kind {
	case "attach":
		if ok {
			if f != nil {
				fail("ramfs.attach:dup-accepted", "attach on a fid in use succeeded")
			}
			fids[o.fid] = &rfid{chain: []*rnode{r.root}}
			if res.qid.Path != 1 {
				fail("ramfs.attach:qid", "attach did not return the root")
			}
		}
	case "walk":
		if !live {
			if ok {
				fail("ramfs.walk:unknown-fid-accepted", "walk from an unknown fid succeeded")
			}
			return
		}
		nd := validNames(o.names)
		chain, passed, climbed := f.resolve(o.names)
		newInUse := o.newfid != o.fid && (fids[o.newfid] != nil || o.newfid == 0xFFFFFFFF)
		switch {
		case nd < 0 || climbed || newInUse || (len(o.names) > 0 && !f.ent().dir):
			if ok {
				fail("ramfs.walk:accepted", fmt.Sprintf("walk that the model tree rejects succeeded (valid=%d climbed=%v newfid-in-use=%v)", nd, climbed, newInUse))
			}
		case len(o.names) > 0 && len(passed) == 0:
			if ok {
				fail("ramfs.walk:first-missing", "walk whose first name does not exist succeeded")
			}
		default:
			if !ok {
				fail("ramfs.walk:rejected", "walk that resolves in the model tree failed: "+res.err.Error())
				return
			}
			if len(res.qids) != len(passed) {
				fail("ramfs.walk:length", fmt.Sprintf("walk resolved %d names, the model tree resolves %d", len(res.qids), len(passed)))
				return
			}
			for i, q := range res.qids {
				if q.Path != passed[i].qpath || (q.Type&p9p.QTDIR != 0) != passed[i].dir {
					fail("ramfs.walk:resolve", fmt.Sprintf("walk step %d reached qid path %d, the model tree reaches %d", i, q.Path, passed[i].qpath))
				}
			}
			if len(passed) == len(o.names) && !(len(o.names) == 0 && o.newfid == o.fid) {
				nf := &rfid{chain: chain}
				if o.newfid == o.fid {
					nf.open, nf.openDir, nf.mode, nf.listing, nf.ddPath, nf.rdoff = f.open, f.openDir, f.mode, f.listing, f.ddPath, f.rdoff
				}
				fids[o.newfid] = nf
			}
		}
	case "create":
		if !live {
			if ok {
				fail("ramfs.create:unknown-fid-accepted", "create on an unknown fid succeeded")
			}
			return
		}
		p := f.ent()
		_, exists := p.kids[o.name]
		if !safeName(o.name) || o.name == ".." || !p.dir || exists {
			if ok {
				fail("ramfs.create:accepted", "create that the model tree rejects succeeded")
			}
			return
		}
		if !ok {
			fail("ramfs.create:rejected", "create of a fresh valid name in a directory failed: "+res.err.Error())
			return
		}
		c := &rnode{dir: o.perm&p9p.DMDIR != 0, name: o.name, qpath: res.qid.Path}
		if c.dir {
			c.kids = map[string]*rnode{}
		}
		if (res.qid.Type&p9p.QTDIR != 0) != c.dir {
			fail("ramfs.create:type", "created entry has the wrong type")
		}
		p.kids[o.name] = c
		nf := &rfid{chain: append(append([]*rnode{}, f.chain...), c), open: true, openDir: c.dir, mode: o.mode}
		if c.dir {
			r.snapshotListing(nf)
		}
		fids[o.fid] = nf
	case "open":
		if !live {
			return
		}
		if f.open {
			if ok {
				fail("ramfs.open:twice", "second open of a fid succeeded")
			}
			return
		}
		if !ok {
			fail("ramfs.open:rejected", "open of a live entry failed: "+res.err.Error())
			return
		}
		f.open, f.openDir, f.mode = true, f.ent().dir, o.mode
		if f.openDir {
			r.snapshotListing(f)
		}
	case "read":
		if !live || !f.open || f.mode&3 == 1 {
			if ok {
				fail("ramfs.read:accepted", "read on a fid that is not open for reading succeeded")
			}
			return
		}
		if f.openDir {
			if !ok {
				if int64(o.off) == f.rdoff {
					fail("ramfs.listing:rejected", "directory read at the running offset failed: "+res.err.Error())
				}
				return
			}
			if int64(o.off) != f.rdoff {
				fail("ramfs.listing:offset", "directory read at a wrong offset succeeded")
				return
			}
			f.rdoff += int64(res.n)
			if o.count < bigCount {
				return // too small to carry the listing: only progress is judged (C17's subject)
			}
			var got []string
			for _, d := range res.dirs {
				got = append(got, d.Name)
				if d.Name == ".." && d.Qid.Path != f.ddPath {
					fail("ramfs.listing:dotdot", fmt.Sprintf("'..' entry has qid path %d, the model tree's parent has %d", d.Qid.Path, f.ddPath))
				}
			}
			sort.Strings(got)
			want := f.listing
			if f.rdDone {
				want = nil
			}
			f.rdDone = true
			if strings.Join(got, "\x00") != strings.Join(want, "\x00") {
				fail("ramfs.listing:set", fmt.Sprintf("directory read lists %q, created and not yet removed children plus '..' are %q", got, want))
			}
			return
		}
		n := f.ent()
		off := int64(o.off)
		if off < 0 || off > int64(len(n.data)) {
			if ok && len(res.data) > 0 {
				fail("ramfs.read:beyond-end", "read beyond the end of the file returned bytes")
			}
			return
		}
		if !ok {
			fail("ramfs.read:rejected", "read inside the file failed: "+res.err.Error())
			return
		}
		end := off + int64(o.count)
		if end > int64(len(n.data)) {
			end = int64(len(n.data))
		}
		if !bytes.Equal(res.data, n.data[off:end]) {
			fail("ramfs.read:data", fmt.Sprintf("read(off=%d,count=%d) returned %x, most recently written bytes are %x", off, o.count, res.data, n.data[off:end]))
		}
	case "write":
		if !live || !f.open || (f.mode&3 != 1 && f.mode&3 != 2) {
			if ok {
				fail("ramfs.write:accepted", "write on a fid that is not open for writing succeeded")
			}
			return
		}
		if f.openDir {
			if ok {
				fail("ramfs.write:directory", "write to a directory succeeded")
			}
			return
		}
		n := f.ent()
		off := int64(o.off)
		if off < 0 || off > int64(len(n.data)) {
			if ok {
				fail("ramfs.write:beyond-end", "write at an offset beyond the end of the file was accepted")
			}
			return
		}
		if !ok {
			fail("ramfs.write:rejected", "write at an offset inside the file (or at its end) failed: "+res.err.Error())
			return
		}
		if res.n != len(o.data) {
			fail("ramfs.write:count", fmt.Sprintf("write of %d bytes reported %d", len(o.data), res.n))
		}
		nd := append([]byte{}, n.data...)
		for int64(len(nd)) < off+int64(len(o.data)) {
			nd = append(nd, 0)
		}
		copy(nd[off:], o.data)
		n.data = nd
	case "stat":
		if live && !ok {
			fail("ramfs.stat:rejected", "stat of a live fid failed")
		}
		if live && ok && (res.stat.Qid.Path != f.ent().qpath || res.stat.Name != f.ent().name) {
			fail("ramfs.stat:identity", "stat describes a different entry")
		}
	case "wstat":
		if live && ok && o.wlen != ^uint64(0) {
			n := f.ent()
			if o.wlen > uint64(len(n.data)) {
				fail("ramfs.wstat:extend", "wstat to a length beyond the end of the file succeeded")
			} else {
				n.data = n.data[:o.wlen]
			}
		}
	case "remove":
		if !live {
			if ok {
				fail("ramfs.remove:unknown-fid-accepted", "remove of an unknown fid succeeded")
			}
			return
		}
		delete(fids, o.fid)
		if len(f.chain) == 1 {
			if ok {
				fail("ramfs.remove:root", "remove of the root succeeded")
			}
			return
		}
		p, e := f.chain[len(f.chain)-2], f.ent()
		if p.kids[e.name] == e {
			if !ok {
				fail("ramfs.remove:rejected", "remove of a linked entry failed: "+res.err.Error())
				return
			}
			delete(p.kids, e.name)
		} else if ok {
			fail("ramfs.remove:stale-accepted", "remove through a link that was already removed reported success")
		}
	case "clunk":
		if live {
			delete(fids, o.fid)
			if !ok {
				fail("ramfs.clunk:rejected", "clunk of a live fid failed")
			}
		} else if ok {
			fail("ramfs.clunk:unknown-fid-accepted", "clunk of an unknown fid succeeded")
		}
	}
}

func (r *ref) paths(n *rnode, p string, out map[string]*rnode) {
	out[p] = n
	for nm, c := range n.kids {
		q := p + "/" + nm
		if p == "/" {
			q = "/" + nm
		}
		r.paths(c, q, out)
	}
}

func (r *ref) checkTable(tab []ramfs.VerifNode, fail failFn) {
	nfids := 0
	for _, m := range r.fids {
		nfids += len(m)
	}
	want := map[string]*rnode{}
	r.paths(r.root, "/", want)
	got := map[string]bool{}
	for _, row := range tab {
		got[row.Path] = true
		n, ok := want[row.Path]
		if !ok {
			fail("ramfs.tree:extra", fmt.Sprintf("server tree has %q which was removed or never created", row.Path))
			continue
		}
		if !n.dir && row.Len != len(n.data) {
			fail("ramfs.tree:length", fmt.Sprintf("%q holds %d bytes, %d were written", row.Path, row.Len, len(n.data)))
		}
		if nfids == 0 && row.Nref != row.Links {
			fail("ramfs.refcount:nref-ne-links", fmt.Sprintf("all fids clunked: %q has nref=%d but %d parent links", row.Path, row.Nref, row.Links))
		}
		if row.Nref < row.Links {
			fail("ramfs.refcount:below-links", fmt.Sprintf("%q has nref=%d below its %d parent links", row.Path, row.Nref, row.Links))
		}
	}
	for p := range want {
		if !got[p] {
			fail("ramfs.tree:missing", fmt.Sprintf("%q was created and not removed but is not in the server tree", p))
		}
	}
}

// ---------------------------------------------------------------- generation

var uint64Specials = []uint64{1 << 31, 1<<63 - 1, 1 << 63, 1<<64 - 1, 1<<63 + 1, 1<<64 - 2, 1 << 32}
var goodNames = []string{"a", "b", "c", "d", "e", "f"}
var badNames = []string{"", ".", "..", "a/b", "x\\y", "..."}

type gen struct {
	rng     *prng.R
	r       *ref
	nsess   int
	pending []op // rest of a scripted scenario
}

func chainNames(f *rfid) []string {
	var out []string
	for _, n := range f.chain[1:] {
		out = append(out, n.name)
	}
	return out
}

// scenario queues a scripted pattern around the directory of an unopened fid:
//
//	stale remove: two fids reach the same entry; one removes it, the name is
//	created again, the other (stale) fid is removed - the new entry must stay;
//	removed directory: a fid deep below a directory that is then removed walks
//	'..' back through it, lists it and creates in it;
//	deep tree: a tree three levels below the directory is built, a fid walks to
//	the leaf, then '..'^k ++ names (siblings / cousins) to a NEW fid with the
//	source fid kept, used again ('..' from it) and both clunked in either order.
func (g *gen) scenario() bool {
	rng := g.rng
	s := rng.Intn(g.nsess)
	d, ok := g.pickFid(s, func(f *rfid) bool { return !f.open && f.ent().dir })
	if !ok {
		return false
	}
	used := map[uint32]bool{}
	fresh := func(ss int) uint32 {
		for {
			f := uint32(20 + rng.Intn(60))
			if g.r.fids[ss][f] == nil && !used[f] {
				used[f] = true
				return f
			}
		}
	}
	nm := goodNames[rng.Intn(len(goodNames))]
	perm := uint32(0666)
	if rng.Bool() {
		perm = p9p.DMDIR | 0777
	}
	var q []op
	clone := func(ss int, from uint32) uint32 {
		c := fresh(ss)
		q = append(q, op{kind: "walk", s: ss, fid: from, newfid: c})
		return c
	}
	if rng.Chance(1, 3) { // deep tree: up k levels and down again from a leaf, the source fid kept
		n1, n2, n3 := goodNames[rng.Intn(len(goodNames))], goodNames[rng.Intn(len(goodNames))], goodNames[rng.Intn(len(goodNames))]
		sib := goodNames[rng.Intn(len(goodNames))]
		for sib == n2 {
			sib = goodNames[rng.Intn(len(goodNames))]
		}
		mk := func(at uint32, nm string, p uint32) {
			c := clone(s, at)
			q = append(q, op{kind: "create", s: s, fid: c, name: nm, perm: p, mode: 0}, op{kind: "clunk", s: s, fid: c})
		}
		dirPerm := uint32(p9p.DMDIR | 0777)
		mk(d, n1, dirPerm)
		f1 := fresh(s)
		q = append(q, op{kind: "walk", s: s, fid: d, newfid: f1, names: []string{n1}})
		mk(f1, n2, dirPerm)
		mk(f1, sib, perm)
		f2 := fresh(s)
		q = append(q, op{kind: "walk", s: s, fid: f1, newfid: f2, names: []string{n2}})
		mk(f2, n3, dirPerm)
		src := fresh(s)
		q = append(q, op{kind: "walk", s: s, fid: d, newfid: src, names: []string{n1, n2, n3}})
		var names []string
		switch rng.Intn(4) {
		case 0:
			names = []string{"..", n3}
		case 1:
			names = []string{"..", "..", "..", n1, sib}
		default:
			names = []string{"..", "..", sib}
		}
		dst := fresh(s)
		if rng.Chance(1, 6) {
			dst = src // in place: the source is released by the walk itself
		}
		q = append(q, op{kind: "walk", s: s, fid: src, newfid: dst, names: names})
		if dst != src {
			// the source fid still names /n1/n2/n3 through the same chain
			t := fresh(s)
			q = append(q, op{kind: "walk", s: s, fid: src, newfid: t, names: []string{".."}}, op{kind: "stat", s: s, fid: t})
			t2 := fresh(s)
			q = append(q, op{kind: "walk", s: s, fid: src, newfid: t2, names: []string{"..", "..", n2, n3}})
			if rng.Bool() {
				q = append(q, op{kind: "clunk", s: s, fid: src}, op{kind: "clunk", s: s, fid: dst})
			} else {
				q = append(q, op{kind: "clunk", s: s, fid: dst}, op{kind: "clunk", s: s, fid: src})
			}
			q = append(q, op{kind: "clunk", s: s, fid: t}, op{kind: "clunk", s: s, fid: t2})
		} else {
			q = append(q, op{kind: "clunk", s: s, fid: dst})
		}
		if rng.Bool() {
			q = append(q, op{kind: "clunk", s: s, fid: f1}, op{kind: "clunk", s: s, fid: f2}, op{kind: "reftable"})
		}
	} else if rng.Bool() { // stale remove
		c1 := clone(s, d)
		q = append(q, op{kind: "create", s: s, fid: c1, name: nm, perm: perm, mode: 2}, op{kind: "clunk", s: s, fid: c1})
		a, b := fresh(s), fresh(s)
		q = append(q, op{kind: "walk", s: s, fid: d, newfid: a, names: []string{nm}})
		s2, from := s, d
		var names = []string{nm}
		if g.nsess > 1 && rng.Bool() { // the stale fid belongs to another session
			s2 = (s + 1 + rng.Intn(g.nsess-1)) % g.nsess
			b = fresh(s2)
			from = fresh(s2)
			q = append(q, op{kind: "attach", s: s2, fid: from, uname: "u1"})
			names = append(chainNames(g.r.fids[s][d]), nm)
		}
		q = append(q, op{kind: "walk", s: s2, fid: from, newfid: b, names: names})
		q = append(q, op{kind: "remove", s: s, fid: a})
		c2 := clone(s, d)
		perm2 := perm
		if rng.Chance(1, 3) {
			perm2 ^= p9p.DMDIR
		}
		q = append(q, op{kind: "create", s: s, fid: c2, name: nm, perm: perm2, mode: 2})
		if rng.Bool() {
			q = append(q, op{kind: "clunk", s: s, fid: c2})
		}
		q = append(q, op{kind: "remove", s: s2, fid: b})
		c3 := clone(s, d)
		q = append(q, op{kind: "open", s: s, fid: c3, mode: 0}, op{kind: "read", s: s, fid: c3, count: bigCount}, op{kind: "clunk", s: s, fid: c3})
		if s2 != s {
			q = append(q, op{kind: "clunk", s: s2, fid: from})
		}
	} else { // '..' through a removed directory
		x, y := nm, goodNames[rng.Intn(len(goodNames))]
		c1 := clone(s, d)
		q = append(q, op{kind: "create", s: s, fid: c1, name: x, perm: p9p.DMDIR | 0777, mode: 0}, op{kind: "clunk", s: s, fid: c1})
		dx := fresh(s)
		q = append(q, op{kind: "walk", s: s, fid: d, newfid: dx, names: []string{x}})
		c2 := clone(s, dx)
		q = append(q, op{kind: "create", s: s, fid: c2, name: y, perm: perm, mode: 2}, op{kind: "write", s: s, fid: c2, data: rng.Bytes(4)}, op{kind: "clunk", s: s, fid: c2})
		deep := fresh(s)
		q = append(q, op{kind: "walk", s: s, fid: d, newfid: deep, names: []string{x, y}})
		q = append(q, op{kind: "remove", s: s, fid: dx})                                       // removes the non-empty directory x; deep still holds it
		q = append(q, op{kind: "walk", s: s, fid: d, newfid: fresh(s), names: []string{x, y}}) // must fail now
		if perm&p9p.DMDIR == 0 {
			up := fresh(s)
			q = append(q, op{kind: "open", s: s, fid: deep, mode: 0}, op{kind: "read", s: s, fid: deep, count: 10})
			_ = up
		} else {
			up := fresh(s)
			q = append(q, op{kind: "walk", s: s, fid: deep, newfid: up, names: []string{".."}})
			q = append(q, op{kind: "open", s: s, fid: up, mode: 0}, op{kind: "read", s: s, fid: up, count: bigCount})
			up2 := fresh(s)
			q = append(q, op{kind: "walk", s: s, fid: deep, newfid: up2, names: []string{"..", "..", x}}) // x is gone from d
			in := fresh(s)
			q = append(q, op{kind: "walk", s: s, fid: deep, newfid: in, names: []string{"..", y}})
			q = append(q, op{kind: "create", s: s, fid: in, name: "z", perm: 0666, mode: 1}, op{kind: "clunk", s: s, fid: in}, op{kind: "clunk", s: s, fid: up})
		}
		if rng.Bool() {
			q = append(q, op{kind: "clunk", s: s, fid: deep}, op{kind: "reftable"})
		}
	}
	g.pending = q
	return true
}

func (g *gen) pickFid(s int, pred func(*rfid) bool) (uint32, bool) {
	var c []uint32
	for k, f := range g.r.fids[s] {
		if pred == nil || pred(f) {
			c = append(c, k)
		}
	}
	if len(c) == 0 {
		return 0, false
	}
	sort.Slice(c, func(i, j int) bool { return c[i] < c[j] })
	return c[g.rng.Intn(len(c))], true
}

func (g *gen) freshFid(s int) uint32 {
	for i := 0; i < 50; i++ {
		f := uint32(g.rng.Intn(10))
		if g.r.fids[s][f] == nil {
			return f
		}
	}
	return uint32(10 + g.rng.Intn(1000))
}

func (g *gen) junkFid(s int) uint32 {
	switch g.rng.Intn(3) {
	case 0:
		return 0xFFFFFFFF
	default:
		return uint32(50 + g.rng.Intn(5))
	}
}

func (g *gen) offset(length int) uint64 {
	switch g.rng.Intn(10) {
	case 0:
		return 0
	case 1:
		return 1
	case 2:
		return uint64(int64(length) - 1) // wraps to 2^64-1 for an empty file
	case 3, 4:
		return uint64(length)
	case 5:
		return uint64(length + 1)
	case 6:
		return uint64Specials[g.rng.Intn(len(uint64Specials))]
	default:
		return uint64(g.rng.Intn(length + 2))
	}
}

func (g *gen) walkNames(f *rfid) []string {
	n := g.rng.Pick(0, 1, 1, 1, 2, 2, 3, 4)
	var out []string
	chain := append([]*rnode{}, f.chain...)
	ndd := 0
	if g.rng.Chance(1, 3) {
		ndd = g.rng.Intn(len(chain) + 1)
		if g.rng.Chance(1, 10) {
			ndd = len(chain) + g.rng.Intn(2)
		}
	}
	for i := 0; i < ndd; i++ {
		out = append(out, "..")
		if len(chain) > 1 {
			chain = chain[:len(chain)-1]
		}
	}
	for i := 0; i < n; i++ {
		cur := chain[len(chain)-1]
		var nm string
		switch {
		case g.rng.Chance(1, 25):
			nm = badNames[g.rng.Intn(len(badNames))]
		case len(cur.kids) > 0 && g.rng.Chance(4, 5):
			var ks []string
			for k := range cur.kids {
				ks = append(ks, k)
			}
			sort.Strings(ks)
			nm = ks[g.rng.Intn(len(ks))]
		default:
			nm = goodNames[g.rng.Intn(len(goodNames))]
		}
		out = append(out, nm)
		if c, ok := cur.kids[nm]; ok {
			chain = append(chain, c)
		}
	}
	return out
}

// next chooses the next operation from the reference state (which mirrors
// what the implementation did so far, as far as the property determines it).
func (g *gen) next() op {
	rng := g.rng
	if len(g.pending) == 0 && rng.Chance(1, 30) {
		g.scenario()
	}
	if len(g.pending) > 0 {
		o := g.pending[0]
		g.pending = g.pending[1:]
		if o.kind == "wstat" {
			o.wmode, o.wlen = ^uint32(0), ^uint64(0)
		}
		return o
	}
	s := rng.Intn(g.nsess)
	fids := g.r.fids[s]
	unopened := func(f *rfid) bool { return !f.open }
	unopenedDir := func(f *rfid) bool { return !f.open && f.ent().dir }
	openFile := func(f *rfid) bool { return f.open && !f.openDir }
	openDir := func(f *rfid) bool { return f.open && f.openDir }
	if len(fids) == 0 || rng.Chance(1, 30) {
		fid := g.freshFid(s)
		if rng.Chance(1, 8) {
			if k, ok := g.pickFid(s, nil); ok {
				fid = k
			} else {
				fid = 0xFFFFFFFF
			}
		}
		return op{kind: "attach", s: s, fid: fid, uname: []string{"u0", "u1", "glenda"}[rng.Intn(3)]}
	}
	for tries := 0; tries < 20; tries++ {
		switch rng.Intn(100) {
		case 0, 1:
			return op{kind: "reftable"}
		case 2, 3: // junk fid on a random operation
			k := []string{"walk", "create", "open", "read", "write", "stat", "wstat", "remove", "clunk"}[rng.Intn(9)]
			return op{kind: k, s: s, fid: g.junkFid(s), newfid: g.freshFid(s), name: "a", names: []string{"a"}, count: 3, wmode: ^uint32(0), wlen: ^uint64(0), data: []byte{1}}
		}
		switch w := rng.Intn(100); {
		case w < 26: // walk (never from an open fid: 9P forbids it and the session layer's treatment is not C18's subject)
			fid, ok := g.pickFid(s, unopened)
			if !ok {
				continue
			}
			f := fids[fid]
			nf := g.freshFid(s)
			switch rng.Intn(12) {
			case 0:
				nf = fid
			case 1:
				if k, ok := g.pickFid(s, nil); ok {
					nf = k
				}
			case 2:
				nf = 0xFFFFFFFF
			}
			return op{kind: "walk", s: s, fid: fid, newfid: nf, names: g.walkNames(f)}
		case w < 44: // create
			pred := unopenedDir
			if rng.Chance(1, 12) {
				pred = unopened
			}
			fid, ok := g.pickFid(s, pred)
			if !ok {
				continue
			}
			nm := goodNames[rng.Intn(len(goodNames))]
			if rng.Chance(1, 15) {
				nm = badNames[rng.Intn(len(badNames))]
			}
			perm := uint32(rng.Pick(0644, 0666, 0777, 0600, 0, 1, 0x7FFFFFFF))
			if rng.Chance(2, 5) {
				perm = p9p.DMDIR | uint32(rng.Pick(0755, 0777, 0700, 0, 0x7FFFFFFF, 0x7FFFFFFE))
			}
			mode := uint8(rng.Pick(0, 1, 2, 2, 2, 3, 0x11, 0x42))
			return op{kind: "create", s: s, fid: fid, name: nm, perm: perm, mode: mode}
		case w < 54: // open
			pred := unopened
			if rng.Chance(1, 10) {
				pred = nil
			}
			fid, ok := g.pickFid(s, pred)
			if !ok {
				continue
			}
			return op{kind: "open", s: s, fid: fid, mode: uint8(rng.Pick(0, 1, 2, 2, 2, 3, 0x12, 0x40))}
		case w < 68: // read
			if rng.Chance(1, 3) {
				if fid, ok := g.pickFid(s, openDir); ok {
					f := fids[fid]
					o := op{kind: "read", s: s, fid: fid, off: uint64(f.rdoff), count: bigCount}
					switch rng.Intn(8) {
					case 0:
						o.off = uint64(f.rdoff + 1 + int64(rng.Intn(3)))
					case 1:
						o.off = uint64Specials[rng.Intn(len(uint64Specials))]
					case 2:
						o.count = 0
					}
					return o
				}
			}
			pred := openFile
			if rng.Chance(1, 15) {
				pred = unopened
			}
			fid, ok := g.pickFid(s, pred)
			if !ok {
				continue
			}
			f := fids[fid]
			if f.open && f.openDir {
				continue
			}
			return op{kind: "read", s: s, fid: fid, off: g.offset(len(f.ent().data)), count: rng.Pick(0, 1, 2, 3, 5, 8, 13, 40, 200)}
		case w < 82: // write
			pred := openFile
			if rng.Chance(1, 12) {
				pred = nil
			}
			fid, ok := g.pickFid(s, pred)
			if !ok {
				continue
			}
			f := fids[fid]
			return op{kind: "write", s: s, fid: fid, off: g.offset(len(f.ent().data)), data: rng.Bytes(rng.Pick(0, 1, 2, 3, 5, 8, 13))}
		case w < 85: // stat
			fid, ok := g.pickFid(s, nil)
			if !ok {
				continue
			}
			return op{kind: "stat", s: s, fid: fid}
		case w < 90: // wstat
			fid, ok := g.pickFid(s, nil)
			if !ok {
				continue
			}
			f := fids[fid]
			o := op{kind: "wstat", s: s, fid: fid, wmode: ^uint32(0), wlen: ^uint64(0)}
			if rng.Chance(1, 3) {
				keep := uint32(0)
				if f.ent().dir {
					keep = p9p.DMDIR
				}
				o.wmode = keep | uint32(rng.Pick(0600, 0644, 0755, 0, 0x7FFFFFFF, 0x7FFFFFFE))
				if rng.Chance(1, 4) {
					o.wmode ^= p9p.DMDIR // try to flip the directory bit (0xFFFFFFFF = "don't touch", 0xFFFFFFFE is a mode)
				}
			}
			if rng.Chance(1, 4) {
				o.uid = "u2"
			}
			if rng.Chance(1, 4) {
				o.gid = "g2"
			}
			if rng.Chance(1, 8) {
				o.wname = "zz"
			}
			if rng.Chance(1, 2) && (!f.ent().dir || rng.Chance(1, 4)) {
				// the same boundary set as the offsets: a Twstat length is a full uint64
				// (len-1 of an empty file is 2^64-1 = "don't touch")
				l := len(f.ent().data)
				switch rng.Intn(3) {
				case 0:
					o.wlen = uint64Specials[rng.Intn(len(uint64Specials))]
				default:
					o.wlen = uint64(int64(rng.Pick(0, 1, l-1, l, l+1, l/2)))
				}
			}
			return o
		case w < 95: // remove
			fid, ok := g.pickFid(s, nil)
			if !ok {
				continue
			}
			return op{kind: "remove", s: s, fid: fid}
		default:
			fid, ok := g.pickFid(s, nil)
			if !ok {
				continue
			}
			return op{kind: "clunk", s: s, fid: fid}
		}
	}
	return op{kind: "reftable"}
}

// ---------------------------------------------------------------- sequential mode

func runSequential(r *rep.Report) {
	rng := prng.New(r.Seed)
	r.Rule = "each case is one sequence of 8..60 operations (attach/walk incl. '..' and through removed directories/create file or directory/open/read/write/stat/wstat/remove/clunk, plus junk fids and names) over 1..3 sessions sharing one fresh ramfs server, then clunk of every fid and the nref/links table; offsets and wstat lengths from {0,1,len-1,len,len+1,2^31,2^32,2^63-1,2^63,2^63+1,2^64-2,2^64-1,random}; create perm / wstat mode incl. 0, 2^31-1, 2^31, 2^32-2, 2^32-1; counts 0..200. Non-trivial: at least one successful create and one successful read or write. Distinct by canonical case text."
	nseq := r.N(600, 20000)
	panics := 0
	for i := 0; i < nseq; i++ {
		nsess := rng.Pick(1, 2, 2, 3)
		im := newImpl(nsess)
		rf := newRef(nsess)
		g := &gen{rng: rng.Fork(), r: rf, nsess: nsess}
		nops := rng.Range(8, 60)
		var ops []sx.S
		var obs []sx.S
		feats := map[string]bool{}
		type pend struct{ key, what string }
		var fails []pend
		stopped := false
		exec := func(o op) bool {
			res := im.do(o)
			ops = append(ops, o.sexp())
			obs = append(obs, res.sexp(o))
			if res.err == nil && !res.panicked {
				feats[o.kind] = true
				if o.kind == "walk" && len(o.names) > 0 && o.names[0] == ".." {
					feats["dotdot"] = true
				}
			}
			rf.check(o, res, func(key, what string) {
				fails = append(fails, pend{key, fmt.Sprintf("op %d %s: %s", len(ops)-1, sx.String(o.sexp()), what)})
			})
			if res.err != nil && res.nerr != 0 && (o.kind == "read" || o.kind == "write") {
				// a refused read or write that claims bytes: bytes nobody wrote handed to the reader, or a write
				// acknowledged in part although the file is unchanged
				fails = append(fails, pend{"ramfs." + o.kind + ":count-with-error", fmt.Sprintf("op %d %s: failed with %q yet reports %d bytes", len(ops)-1, sx.String(o.sexp()), res.err.Error(), res.nerr)})
			}
			if res.panicked {
				panics++
				stopped = true
			}
			return !res.panicked
		}
		for j := 0; j < nops && !stopped; j++ {
			exec(g.next())
		}
		if !stopped {
			// clunk everything, then the table
			for s := 0; s < nsess && !stopped; s++ {
				var ks []uint32
				for k := range rf.fids[s] {
					ks = append(ks, k)
				}
				sort.Slice(ks, func(a, b int) bool { return ks[a] < ks[b] })
				for _, k := range ks {
					if !exec(op{kind: "clunk", s: s, fid: k}) {
						break
					}
				}
			}
			if !stopped {
				exec(op{kind: "reftable"})
			}
		}
		c := sx.List(append([]sx.S{sx.Sym("seq"), sx.I(int64(nsess))}, ops...))
		nt := feats["create"] && (feats["read"] || feats["write"])
		label := fmt.Sprintf("sess%d", nsess)
		for _, k := range []string{"create", "remove", "dotdot", "wstat"} {
			if feats[k] {
				label += "+" + k
			}
		}
		if stopped {
			label += "+panic"
		}
		r.Case(c, sx.List(obs), label, nt)
		seen := map[string]bool{}
		for _, f := range fails {
			if !seen[f.key] {
				seen[f.key] = true
				r.Fail(f.key, f.what, c, nil)
			}
		}
	}
	r.Extra["sequences_ended_by_panic"] = panics
}

// ---------------------------------------------------------------- concurrent mode

// One client goroutine: works in shared directories but on files it alone names
// (prefix per client), so its own reads have a determined answer, while walks,
// creates, removes and listings run against nodes other clients are changing.
func concClient(im *impl, s int, seed uint64, nops int, fails chan<- [2]string) {
	rng := prng.New(seed)
	sess := im.sess[s]
	fail := func(key, what string) { fails <- [2]string{key, fmt.Sprintf("client %d: %s", s, what)} }
	defer func() {
		if v := recover(); v != nil {
			fail("ramfs.panic:concurrent", fmt.Sprint("request panicked the server: ", v))
		}
	}()
	const root, dirFid, fileFid, tmp = p9p.Fid(0), p9p.Fid(1), p9p.Fid(2), p9p.Fid(3)
	if _, err := sess.Attach(ctx, root, p9p.NOFID, fmt.Sprintf("u%d", s), "/"); err != nil {
		fail("ramfs.conc:attach", err.Error())
		return
	}
	shared := []string{"d0", "d1"}
	mine := map[string][]byte{} // "dir/name" -> content of my live files
	for i := 0; i < nops; i++ {
		d := shared[rng.Intn(len(shared))]
		name := fmt.Sprintf("c%d_%d", s, rng.Intn(4))
		key := d + "/" + name
		switch rng.Intn(7) {
		case 0: // make the shared directory (races with the other clients doing the same)
			if _, err := sess.Walk(ctx, root, tmp); err == nil {
				sess.Create(ctx, tmp, d, p9p.DMDIR|0777, p9p.OREAD)
				sess.Clunk(ctx, tmp)
			}
		case 1, 2: // create my file, write it
			if _, ok := mine[key]; ok {
				continue
			}
			if qs, err := sess.Walk(ctx, root, dirFid, d); err != nil || len(qs) != 1 {
				continue
			}
			if _, _, err := sess.Create(ctx, dirFid, name, 0666, p9p.ORDWR); err != nil {
				fail("ramfs.conc:create", "create of a name only this client uses failed: "+err.Error())
				sess.Clunk(ctx, dirFid)
				continue
			}
			data := rng.Bytes(1 + rng.Intn(40))
			if n, err := sess.Write(ctx, dirFid, data, 0); err != nil || n != len(data) {
				fail("ramfs.conc:write", fmt.Sprint("write failed: ", err))
			}
			mine[key] = data
			sess.Clunk(ctx, dirFid)
		case 3: // read my file back, append
			want, ok := mine[key]
			if !ok {
				continue
			}
			if qs, err := sess.Walk(ctx, root, fileFid, d, name); err != nil || len(qs) != 2 {
				fail("ramfs.conc:walk", fmt.Sprintf("walk to my own live file %s resolved %d names (%v)", key, len(qs), err))
				continue
			}
			if _, _, err := sess.Open(ctx, fileFid, p9p.ORDWR); err != nil {
				fail("ramfs.conc:open", err.Error())
			} else {
				p := make([]byte, 100)
				n, err := sess.Read(ctx, fileFid, p, 0)
				if err != nil || !bytes.Equal(p[:n], want) {
					fail("ramfs.conc:read", fmt.Sprintf("read %x (%v), written %x", p[:n], err, want))
				}
				more := rng.Bytes(rng.Intn(6))
				off := rng.Intn(len(want) + 1)
				if _, err := sess.Write(ctx, fileFid, more, int64(off)); err != nil {
					fail("ramfs.conc:write", err.Error())
				} else {
					nd := append([]byte{}, want...)
					for len(nd) < off+len(more) {
						nd = append(nd, 0)
					}
					copy(nd[off:], more)
					mine[key] = nd
				}
			}
			sess.Clunk(ctx, fileFid)
		case 4: // remove my file
			if _, ok := mine[key]; !ok {
				continue
			}
			if qs, err := sess.Walk(ctx, root, fileFid, d, name); err != nil || len(qs) != 2 {
				fail("ramfs.conc:walk", fmt.Sprintf("walk to my own live file %s resolved %d names (%v)", key, len(qs), err))
				continue
			}
			if err := sess.Remove(ctx, fileFid); err != nil {
				fail("ramfs.conc:remove", err.Error())
			}
			delete(mine, key)
		case 5: // list the shared directory: my live files are there, my removed ones are not
			if qs, err := sess.Walk(ctx, root, dirFid, d); err != nil || len(qs) != 1 {
				continue
			}
			if _, _, err := sess.Open(ctx, dirFid, p9p.OREAD); err == nil {
				p := make([]byte, 1<<16)
				n, err := sess.Read(ctx, dirFid, p, 0)
				ds, derr := decodeDirs(p[:n])
				if err != nil || derr != nil {
					fail("ramfs.conc:listing", fmt.Sprint("directory read failed: ", err, derr))
				} else {
					got := map[string]bool{}
					for _, e := range ds {
						got[e.Name] = true
					}
					if !got[".."] {
						fail("ramfs.conc:listing-dotdot", "listing lacks '..'")
					}
					for j := 0; j < 4; j++ {
						nm := fmt.Sprintf("c%d_%d", s, j)
						_, live := mine[d+"/"+nm]
						if live != got[nm] {
							fail("ramfs.conc:listing-set", fmt.Sprintf("listing of %s has %s=%v but live=%v", d, nm, got[nm], live))
						}
					}
				}
			}
			sess.Clunk(ctx, dirFid)
		case 6: // stat / wstat / walk with '..' through the shared directory
			if qs, err := sess.Walk(ctx, root, tmp, d); err == nil && len(qs) == 1 {
				sess.Stat(ctx, tmp)
				sess.WStat(ctx, tmp, p9p.Dir{Mode: ^uint32(0), UID: fmt.Sprintf("u%d", s), Length: ^uint64(0)})
				if qs, err := sess.Walk(ctx, tmp, tmp, ".."); err != nil || len(qs) != 1 || qs[0].Path != 1 {
					fail("ramfs.conc:dotdot", fmt.Sprint("'..' from a shared directory did not reach the root: ", qs, err))
				}
				sess.Clunk(ctx, tmp)
			}
			// reach for a file another client may be creating or removing right now
			// (walk racing remove): only "no crash" and the final counts are judged
			other := fmt.Sprintf("c%d_%d", (s+1)%len(im.sess), rng.Intn(4))
			if qs, err := sess.Walk(ctx, root, tmp, d, other); err == nil && len(qs) == 2 {
				sess.Stat(ctx, tmp)
				if _, _, err := sess.Open(ctx, tmp, p9p.OREAD); err == nil {
					sess.Read(ctx, tmp, make([]byte, 16), 0)
				}
				sess.Clunk(ctx, tmp)
			}
		}
	}
	sess.Clunk(ctx, root)
	for _, f := range []p9p.Fid{dirFid, fileFid, tmp} {
		sess.Clunk(ctx, f) // unknown fid unless something above leaked one
	}
}

// child process: rounds of concurrent clients; prints one line per finding.
func concChild(seed uint64, rounds, nclients, nops int) {
	rng := prng.New(seed)
	for round := 0; round < rounds; round++ {
		im := newImpl(nclients)
		fails := make(chan [2]string, 10000)
		var wg sync.WaitGroup
		for s := 0; s < nclients; s++ {
			wg.Add(1)
			sd := rng.U64()
			go func(s int) {
				defer wg.Done()
				concClient(im, s, sd, nops, fails)
			}(s)
		}
		done := make(chan struct{})
		go func() { wg.Wait(); close(done) }()
		select {
		case <-done:
		case <-time.After(120 * time.Second):
			fmt.Printf("FAIL\tramfs.conc:stuck\tround %d: clients did not finish within 120 s (deadlock)\n", round)
			os.Stdout.Sync()
			os.Exit(0)
		}
		close(fails)
		for f := range fails {
			fmt.Printf("FAIL\t%s\tround %d: %s\n", f[0], round, strings.ReplaceAll(f[1], "\n", " "))
		}
		tab, _ := ramfs.VerifRefTable(im.fs)
		for _, n := range tab {
			if n.Nref != n.Links {
				fmt.Printf("FAIL\tramfs.refcount:nref-ne-links-concurrent\tround %d: all fids clunked: %q has nref=%d but %d parent links\n", round, n.Path, n.Nref, n.Links)
			}
		}
		fmt.Printf("ROUND\t%d\t%d\n", round, len(tab))
	}
}

var raceFrame = regexp.MustCompile(`(?m)^  (?:github\.com/frobnitzem/go-p9p/)?(ramfs\.[^\s(]+(?:\([^)]*\))?[.\w]*)\(\)`)

func runConcurrent(r *rep.Report) {
	rounds := r.N(30, 300)
	nclients, nops := 3, 120
	r.Rule = fmt.Sprintf("concurrent search (no model comparison): %d rounds of %d client goroutines x %d operations on one fresh server, each client on its own file names inside shared directories; oracles: no panic, own reads/listings exact, '..' reaches the root, nref==links after clunk-all; under -race every DATA RACE report becomes a failure keyed by the two ramfs functions involved", rounds, nclients, nops)
	logp := filepath.Join(r.Out, "race")
	cmd := exec.Command(os.Args[0], "-child", "-out", r.Out, "-seed", fmt.Sprint(r.Seed),
		"-rounds", fmt.Sprint(rounds), "-clients", fmt.Sprint(nclients), "-nops", fmt.Sprint(nops))
	cmd.Env = append(os.Environ(), "GORACE=halt_on_error=0 exitcode=0 log_path="+logp)
	var stdout, stderr bytes.Buffer
	cmd.Stdout, cmd.Stderr = &stdout, &stderr
	err := cmd.Run()
	roundsDone := 0
	seen := map[string]int{}
	for _, line := range strings.Split(stdout.String(), "\n") {
		parts := strings.SplitN(line, "\t", 3)
		switch {
		case len(parts) == 3 && parts[0] == "FAIL":
			seen[parts[1]]++
			if seen[parts[1]] == 1 {
				r.Fail(parts[1], parts[2], sx.L(sx.Sym("conc"), sx.U(r.Seed), sx.I(int64(rounds)), sx.I(int64(nclients)), sx.I(int64(nops))), nil)
			}
		case len(parts) == 3 && parts[0] == "ROUND":
			roundsDone++
		}
	}
	concCase := sx.L(sx.Sym("conc"), sx.U(r.Seed), sx.I(int64(rounds)), sx.I(int64(nclients)), sx.I(int64(nops)))
	if err != nil || roundsDone != rounds {
		if seen["ramfs.conc:stuck"] == 0 {
			// the Go runtime kills the process on an unsynchronised map access ("fatal error:
			// concurrent map read and map write"): name the ramfs function it happened in
			es := stderr.String()
			key := "ramfs.crash:child-exit"
			if i := strings.Index(es, "fatal error:"); i >= 0 {
				es = es[i:]
				key = "ramfs.crash:" + strings.ReplaceAll(strings.TrimSpace(strings.SplitN(es[len("fatal error:"):], "\n", 2)[0]), " ", "-")
				if m := regexp.MustCompile(`go-p9p/(ramfs\.[^\s(]+(?:\([^)]*\))?[.\w]*)\(`).FindStringSubmatch(es); m != nil {
					key += ":" + m[1]
				}
			}
			if len(es) > 1800 {
				es = es[:1800]
			}
			r.Fail(key, fmt.Sprintf("concurrent sessions crashed the server process after %d of %d rounds (%v): %s", roundsDone, rounds, err, es), concCase, nil)
		}
	}
	r.Samples = append(r.Samples, sx.String(concCase)+fmt.Sprintf(" => %d rounds completed", roundsDone))
	// race reports
	nraces := 0
	logs, _ := filepath.Glob(logp + ".*")
	for _, lf := range logs {
		b, _ := os.ReadFile(lf)
		for _, rpt := range strings.Split(string(b), "==================") {
			if !strings.Contains(rpt, "DATA RACE") {
				continue
			}
			nraces++
			// first ramfs frame of each of the two accesses
			var fns []string
			for _, sec := range regexp.MustCompile(`(?m)^(?:Write|Read|Previous write|Previous read|Atomic|Previous atomic)[^\n]*\n`).Split(rpt, -1)[1:] {
				if m := raceFrame.FindStringSubmatch(sec); m != nil {
					fns = append(fns, m[1])
				} else {
					fns = append(fns, "?")
				}
				if len(fns) == 2 {
					break
				}
			}
			sort.Strings(fns)
			key := "ramfs.race:" + strings.Join(fns, "/")
			seen[key]++
			if seen[key] == 1 {
				if len(rpt) > 2500 {
					rpt = rpt[:2500]
				}
				r.Fail(key, "data race between concurrent sessions: "+strings.Join(fns, " vs "), sx.L(sx.Sym("conc"), sx.U(r.Seed), sx.I(int64(rounds)), sx.I(int64(nclients)), sx.I(int64(nops))), map[string]interface{}{"report": rpt})
			}
		}
	}
	r.Extra["concurrent_rounds"] = roundsDone
	r.Extra["race_detector"] = raceEnabled
	r.Extra["race_reports"] = nraces
	r.Hist["conc-rounds"] += roundsDone
	r.Evals += roundsDone
}

func main() {
	mode := flag.String("mode", "seq", "seq|conc")
	child := flag.Bool("child", false, "internal: run the concurrent clients")
	rounds := flag.Int("rounds", 10, "internal")
	clients := flag.Int("clients", 3, "internal")
	nops := flag.Int("nops", 100, "internal")
	// rep.Open parses the flags (ours are registered above)
	if len(os.Args) > 1 && os.Args[1] == "-child" {
		out := flag.String("out", "", "")
		seed := flag.Uint64("seed", 1, "")
		flag.Parse()
		_ = out
		concChild(*seed, *rounds, *clients, *nops)
		return
	}
	r := rep.Open()
	defer r.Close()
	_ = child
	if *mode == "conc" {
		runConcurrent(r)
	} else {
		runSequential(r)
	}
}
