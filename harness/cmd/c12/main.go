// C12 harness: a hostile / failing peer against the real client
// (p9p.CSession -> transport.go, csession.go, channel.go's ReadFcall).
//
// The client runs in a CHILD PROCESS (this binary re-executed with -child):
// a panic in one of the client's goroutines kills that process, which the
// parent observes as the exit status.  The parent generates scripts from the
// PRNG seed; the child executes them one after the other and streams, per
// script, the events as executed (with concrete tags), every byte string it
// wrote to the client, what each call returned, and direct-oracle failures.
//
// Script steps: start a call (wait for its frame); reply to a pending call
// (right type / Rerror / any other decodable type); stray replies (a tag never
// issued, a tag already answered, NOTAG, the tag of an abandoned call), each
// followed by a reply to a pending call as a barrier; cancel one call's own
// context; then one failure (peer closes the connection, garbage, truncated
// frame, undecodable type byte, frame larger than msize, body shorter than a
// header, session context cancelled) with 0..16 calls pending, after which
// every pending call and a few later calls must return an error.
//
// Direct oracles: process alive; every pending and later call returns an error
// within a generous time-out; own-context cancellation returns that context's
// error and disturbs nobody; wrong-typed replies are errors; pending calls
// still get exactly their own reply after stray traffic.
// Correspondence: the same event list is run through Model/Tags.v
// (Run/RunC12.v); every per-event observation must agree.
package main

import (
	"bufio"
	"context"
	"encoding/hex"
	"encoding/json"
	"flag"
	"fmt"
	"io"
	"log"
	"os"
	"os/exec"
	"sort"
	"strings"
	"syscall"
	"time"

	p9p "github.com/frobnitzem/go-p9p"

	"verifharness/cmd/c05/peer"
	"verifharness/internal/prng"
	"verifharness/internal/rep"
	"verifharness/internal/sx"
)

type step struct {
	Op    string `json:"op"`            // req | reply | stray | cancel | fail | late | racefail
	MT    uint8  `json:"mt,omitempty"`  // request type (req, late)
	Idx   int    `json:"idx,omitempty"` // which pending call (index into the sorted list, modulo its length)
	Kind  int    `json:"kind,omitempty"`
	How   string `json:"how,omitempty"`
	Ty    uint8  `json:"ty,omitempty"`
	Bytes string `json:"bytes,omitempty"` // hex, for fail:garbage
	N     int    `json:"n,omitempty"`
}

type script struct {
	I        int    `json:"i"`
	Steps    []step `json:"steps"`
	Deadline int    `json:"deadline,omitempty"` // ms: the session context is context.WithTimeout(…)
	Faulty   bool   `json:"faulty,omitempty"`   // the client's connection is a peer.FaultConn (read errors can be injected)
	// hostile version negotiation: the peer answers Tversion with these bytes (hex), then closes if HSClose
	Handshake string `json:"handshake,omitempty"`
	HSClose   bool   `json:"hsclose,omitempty"`
	HSWhat    string `json:"hswhat,omitempty"`
}

// ---------------------------------------------------------------- child

type child struct {
	out       *bufio.Writer
	ctx       context.Context
	stop      context.CancelFunc
	sess      p9p.Session
	peer      *peer.Peer
	awaiting  map[uint16]uint32
	live      map[uint32]*peer.Pending
	tagOf     map[uint32]uint16
	answered  []uint16 // tags already answered (for "repeated")
	abandoned []uint16
	issued    map[uint16]bool
	nextCall  uint32
	nextRid   uint32
	dead      bool // the transport has been failed by the script
	deadline  bool // the session context carries a deadline
	noisy     bool // the process burnt CPU before this script's session existed
	wfailed   bool // a WriteFcall has failed on this session (connection healthy)
	broken    bool // an oracle failed in a way that makes the rest of the script meaningless
}

func (c *child) emit(kind string, s string) {
	c.out.WriteString(kind)
	c.out.WriteByte(' ')
	c.out.WriteString(s)
	c.out.WriteByte('\n')
	c.out.Flush()
}
func (c *child) ev(s sx.S)  { c.emit("E", sx.String(s)) }
func (c *child) obs(s sx.S) { c.emit("O", sx.String(s)) }

// hangs counts time-outs in this child: each costs peer.Wait, so after a few
// the remaining scripts are given up (the failures found are reported).
var hangs int

func (c *child) fail(key, what string) {
	if strings.Contains(key, "hang") || strings.Contains(key, "no-return") || strings.Contains(key, "no-frame") || strings.Contains(key, "dead-after") || strings.Contains(key, "stops-on") {
		hangs++
	}
	b, _ := json.Marshal(map[string]string{"key": key, "what": what})
	c.emit("F", string(b))
}

func (c *child) send(raw []byte) bool {
	c.emit("W", hex.EncodeToString(raw))
	if err := c.peer.Send(raw); err != nil {
		c.fail("harness.send", "writing to the client failed: "+err.Error())
		c.broken = true
		return false
	}
	return true
}

func (c *child) liveList() []uint32 {
	out := make([]uint32, 0, len(c.live))
	for k := range c.live {
		out = append(out, k)
	}
	sort.Slice(out, func(i, j int) bool { return out[i] < out[j] })
	return out
}

func (c *child) req(mt uint8) {
	id := c.nextCall
	c.nextCall++
	p := peer.Start(context.Background(), c.sess, mt, id, false)
	f, err := c.peer.NextFrame()
	if err != nil {
		if c.deadline && c.ctx.Err() != nil {
			// the machine was too slow to get the calls out before the session deadline: not an observation
			c.emit("X", "deadline passed before the script reached it")
			c.broken = true
			return
		}
		if c.wfailed {
			c.fail("transport.writer:dead-after-failed-write", fmt.Sprintf("call %d: %v - an earlier WriteFcall on this session failed (request larger than msize, or the call's context had ended) while the connection is healthy; later requests must still be written", id, err))
		} else {
			c.fail("transport.handle:no-frame", fmt.Sprintf("call %d: %v", id, err))
		}
		c.broken = true
		return
	}
	if f.Fid != id || f.Type != mt {
		c.fail("transport.handle:wrong-frame", fmt.Sprintf("expected the frame of call %d type %d, got fid %d type %d", id, mt, f.Fid, f.Type))
		c.broken = true
		return
	}
	c.live[id] = p
	c.awaiting[f.Tag] = id
	c.tagOf[id] = f.Tag
	c.issued[f.Tag] = true
	c.ev(sx.L(sx.Sym("req"), sx.U(uint64(id)), sx.U(uint64(mt)), sx.I(1)))
	c.obs(sx.L(sx.Sym("f"), sx.U(uint64(f.Tag))))
}

// failedWrite: a request larger than msize; WriteFcall fails before touching
// the wire, the call gets that error, the connection stays healthy.
func (c *child) failedWrite() {
	id := c.nextCall
	c.nextCall++
	c.ev(sx.L(sx.Sym("req"), sx.U(uint64(id)), sx.U(110), sx.I(0)))
	p := peer.Start(context.Background(), c.sess, 110, id, true)
	res, ok := p.Await()
	if !ok {
		c.fail("transport.send:no-return", fmt.Sprintf("call %d (request larger than msize) did not return", id))
		c.broken = true
		return
	}
	c.wfailed = true
	c.obs(sx.L(sx.Sym("d"), sx.U(uint64(id)), res.Sexp()))
	if res.Class != "werr" {
		c.fail("transport.handle:write-error-lost", fmt.Sprintf("call %d: WriteFcall failed (message larger than msize) but the call returned %s %q", id, res.Class, res.Text))
	}
}

// stall: the peer stops reading, so the writer goroutine blocks in call A's
// write; call B is queued behind it and abandoned (its WriteFcall will fail on
// the context check, touching nothing); call C is queued behind B.  When the
// peer reads again A's and C's frames must arrive - a failed write must not
// stop the writer.
func (c *child) stall(mtA, mtB, mtC uint8) {
	const settle = 40 * time.Millisecond
	c.peer.PauseAfterNext()
	paused := true
	resume := func() {
		if paused {
			c.peer.Resume()
			paused = false
		}
	}
	defer resume()
	c.req(120) // taken by the read that was already under way; from now on nobody reads
	if c.broken {
		return
	}
	t0 := c.tagOf[c.nextCall-1]
	idA, idB, idC := c.nextCall, c.nextCall+1, c.nextCall+2
	c.nextCall += 3
	pA := peer.Start(context.Background(), c.sess, mtA, idA, false)
	time.Sleep(settle)
	pB := peer.Start(context.Background(), c.sess, mtB, idB, false)
	time.Sleep(settle)
	pB.Cancel()
	resB, ok := pB.Await()
	if !ok {
		c.fail("transport.send:no-return-on-own-ctx", fmt.Sprintf("call %d (queued behind a blocked write) did not return after its own context was cancelled", idB))
		c.broken = true
		return
	}
	pC := peer.Start(context.Background(), c.sess, mtC, idC, false)
	time.Sleep(settle)
	for _, q := range []*peer.Pending{pA, pC} {
		if r, done := q.Returned(); done {
			c.fail("transport.send:spurious-return", fmt.Sprintf("call %d returned %s %q while its frame was waiting for a peer that had stopped reading", q.C, r.Class, r.Text))
			c.broken = true
			return
		}
	}
	c.wfailed = true
	resume()
	fA, errA := c.peer.NextFrame()
	if errA != nil {
		c.fail("transport.handle:no-frame", fmt.Sprintf("call %d after the peer resumed reading: %v", idA, errA))
		c.broken = true
		return
	}
	fC, errC := c.peer.NextFrame()
	if errC != nil {
		c.fail("transport.writer:dead-after-failed-write", fmt.Sprintf("call %d was queued behind call %d, whose context ended while its frame waited in the queue (its WriteFcall fails without touching the wire); the peer reads again, the connection is healthy, but the frame of call %d never arrives: %v", idC, idB, idC, errC))
		c.broken = true
		return
	}
	if fA.Fid != idA || fA.Type != mtA || fC.Fid != idC || fC.Type != mtC {
		// the three sends did not reach the loop in the order they were started (slow machine): not an observation
		c.emit("X", "calls were not taken in start order")
		c.broken = true
		return
	}
	var accepted bool
	switch {
	case fA.Tag == t0+1 && fC.Tag == t0+3:
		accepted = true
	case fA.Tag == t0+1 && fC.Tag == t0+2:
		accepted = false // B's context ended before the loop took its request
	default:
		for _, f := range []peer.Frame{fA, fC} {
			if _, dup := c.awaiting[f.Tag]; dup || f.Tag == peer.NOTAG || fA.Tag == fC.Tag {
				c.fail("transport.allocateTag:duplicate-tag", fmt.Sprintf("frame of call %d carries tag %d which is reserved or still awaits a reply", f.Fid, f.Tag))
				c.broken = true
				return
			}
		}
		c.emit("X", "tags do not fit the start order")
		c.broken = true
		return
	}
	seq := func(e sx.S, o sx.S) { c.ev(e); c.obs(o) }
	none := sx.Sym("none")
	seq(sx.L(sx.Sym("q"), sx.U(uint64(idA)), sx.U(uint64(mtA))), none)
	seq(sx.L(sx.Sym("hand")), none)
	if accepted {
		seq(sx.L(sx.Sym("q"), sx.U(uint64(idB)), sx.U(uint64(mtB))), none)
	}
	seq(sx.L(sx.Sym("cancel"), sx.U(uint64(idB))), sx.L(sx.Sym("d"), sx.U(uint64(idB)), resB.Sexp()))
	seq(sx.L(sx.Sym("q"), sx.U(uint64(idC)), sx.U(uint64(mtC))), none)
	seq(sx.L(sx.Sym("wrote")), sx.L(sx.Sym("f"), sx.U(uint64(fA.Tag))))
	seq(sx.L(sx.Sym("hand")), none)
	if accepted {
		seq(sx.L(sx.Sym("wfail")), none)
		seq(sx.L(sx.Sym("hand")), none)
	}
	seq(sx.L(sx.Sym("wrote")), sx.L(sx.Sym("f"), sx.U(uint64(fC.Tag))))
	if resB.Class != "ctx" {
		c.fail("transport.send:own-ctx-result", fmt.Sprintf("call %d: own context cancelled while queued, returned %s %q", idB, resB.Class, resB.Text))
	}
	for _, x := range []struct {
		p *peer.Pending
		f peer.Frame
	}{{pA, fA}, {pC, fC}} {
		c.live[x.p.C] = x.p
		c.awaiting[x.f.Tag] = x.p.C
		c.tagOf[x.p.C] = x.f.Tag
		c.issued[x.f.Tag] = true
	}
}

// deadlineThenPlain: a call whose context has a deadline completes in time; the
// deadline passes; then a call with context.Background() must go through: no
// per-call deadline may stay behind on the connection.
func (c *child) deadlineThenPlain(mtA, mtB uint8) {
	const dl = 400 * time.Millisecond
	idA := c.nextCall
	c.nextCall++
	ctxA, cancelA := context.WithTimeout(context.Background(), dl)
	start := time.Now()
	pA := peer.StartCtx(ctxA, cancelA, c.sess, mtA, idA)
	f, err := c.peer.NextFrame()
	if err != nil {
		if ctxA.Err() != nil {
			c.emit("X", "the deadline passed before the call's frame arrived")
		} else {
			c.fail("transport.handle:no-frame", fmt.Sprintf("call %d: %v", idA, err))
		}
		c.broken = true
		return
	}
	if f.Fid != idA || f.Type != mtA {
		c.fail("transport.handle:wrong-frame", fmt.Sprintf("expected the frame of call %d type %d, got fid %d type %d", idA, mtA, f.Fid, f.Type))
		c.broken = true
		return
	}
	c.awaiting[f.Tag], c.tagOf[idA], c.issued[f.Tag] = idA, f.Tag, true
	c.ev(sx.L(sx.Sym("req"), sx.U(uint64(idA)), sx.U(uint64(mtA)), sx.I(1)))
	c.obs(sx.L(sx.Sym("f"), sx.U(uint64(f.Tag))))
	rid := c.nextRid
	c.nextRid++
	c.ev(sx.L(sx.Sym("resp"), sx.U(uint64(f.Tag)), sx.U(uint64(mtA+1)), sx.U(uint64(rid))))
	if !c.send(peer.Reply(f.Tag, mtA+1, rid)) {
		return
	}
	delete(c.awaiting, f.Tag)
	c.answered = append(c.answered, f.Tag)
	resA, ok := pA.Await()
	if !ok {
		c.fail("transport.send:no-return", fmt.Sprintf("call %d (context with a deadline) did not return", idA))
		c.broken = true
		return
	}
	if resA.Class == "ctx" {
		c.emit("X", "the machine was too slow to answer within the call's deadline")
		c.broken = true
		return
	}
	c.obs(sx.L(sx.Sym("d"), sx.U(uint64(idA)), resA.Sexp()))
	want := rid
	if !peer.HasPayload(mtA) {
		want = 0
	}
	if resA.Class != "ok" || resA.ID != want {
		c.fail("transport.handle:call-disturbed", fmt.Sprintf("call %d (context with a deadline, answered in time) returned %s %d %q", idA, resA.Class, resA.ID, resA.Text))
	}
	// let the deadline pass (a longer sleep only makes the point stronger)
	time.Sleep(time.Until(start.Add(dl + 150*time.Millisecond)))
	idB := c.nextCall
	c.nextCall++
	pB := peer.Start(context.Background(), c.sess, mtB, idB, false)
	fB, resB, err := c.peer.NextFrameOrReturn(pB)
	switch {
	case err != nil:
		c.fail("transport.handle:no-frame", fmt.Sprintf("call %d: %v", idB, err))
		c.broken = true
	case resB != nil:
		c.fail("channel.WriteFcall:stale-deadline", fmt.Sprintf("call %d was made with context.Background() on a healthy connection %v after call %d, whose context had a %v deadline, had completed; it returned %s %q without its request reaching the peer: the earlier call's deadline was left on the connection", idB, time.Since(start).Round(time.Millisecond), idA, dl, resB.Class, resB.Text))
		c.broken = true
	case fB.Fid != idB || fB.Type != mtB:
		c.fail("transport.handle:wrong-frame", fmt.Sprintf("expected the frame of call %d type %d, got fid %d type %d", idB, mtB, fB.Fid, fB.Type))
		c.broken = true
	default:
		c.live[idB] = pB
		c.awaiting[fB.Tag], c.tagOf[idB], c.issued[fB.Tag] = idB, fB.Tag, true
		c.ev(sx.L(sx.Sym("req"), sx.U(uint64(idB)), sx.U(uint64(mtB)), sx.I(1)))
		c.obs(sx.L(sx.Sym("f"), sx.U(uint64(fB.Tag))))
	}
}

// readFault: the connection's Read fails n times in a row with a net.Error that
// is Timeout() and/or Temporary() (how = "tt", "tf", "ft").  The reader
// goroutine must retry: nothing is lost, calls pending go on waiting, the
// steps that follow (a new call, replies) work as if nothing had happened.
func (c *child) readFault(how string, n int) {
	if c.peer.Faults == nil {
		return
	}
	rf := peer.ReadFault{NetError: true, IsTimeout: how[0] == 't', IsTemp: how[1] == 't'}
	for i := 0; i < n; i++ {
		c.ev(sx.L(sx.Sym("readretry")))
		c.obs(sx.Sym("none"))
		if !c.peer.Faults.Inject(rf) {
			c.fail("transport.reader:stops-on-retryable-read-error", fmt.Sprintf("read error %d of %d in a row (net.Error, Timeout=%v, Temporary=%v): the client's reader goroutine never came back to read from the connection within %v", i+1, n, rf.IsTimeout, rf.IsTemp, peer.Wait))
			c.broken = true
			return
		}
	}
	for _, id := range c.liveList() {
		if r, done := c.live[id].Returned(); done {
			c.fail("transport.reader:stops-on-retryable-read-error", fmt.Sprintf("call %d returned %s %q after a read error that is a net.Error with Timeout=%v, Temporary=%v: such an error must be retried, the connection is healthy", id, r.Class, r.Text, rf.IsTimeout, rf.IsTemp))
			c.broken = true
			return
		}
	}
}

// replyLive answers pending call number idx.
func (c *child) replyLive(idx int, kind int, ty uint8) {
	l := c.liveList()
	if len(l) == 0 {
		return
	}
	id := l[idx%len(l)]
	p := c.live[id]
	tag := c.tagOf[id]
	rid := c.nextRid
	c.nextRid++
	switch kind {
	case 0:
		ty = p.MT + 1
	case 1:
		ty = 107
	default:
		if ty == p.MT+1 || ty == 107 {
			ty = 100
		}
	}
	c.ev(sx.L(sx.Sym("resp"), sx.U(uint64(tag)), sx.U(uint64(ty)), sx.U(uint64(rid))))
	if !c.send(peer.Reply(tag, ty, rid)) {
		return
	}
	delete(c.awaiting, tag)
	c.answered = append(c.answered, tag)
	res, ok := p.Await()
	if !ok {
		c.fail("transport.send:no-return", fmt.Sprintf("call %d did not return although a reply with its tag %d was sent", id, tag))
		c.broken = true
		return
	}
	delete(c.live, id)
	c.obs(sx.L(sx.Sym("d"), sx.U(uint64(id)), res.Sexp()))
	want := peer.Result{Class: "ok", ID: rid}
	switch {
	case kind == 1:
		want = peer.Result{Class: "rerror", ID: rid}
	case kind >= 2:
		want = peer.Result{Class: "unexpected"}
	case !peer.HasPayload(p.MT):
		want.ID = 0
	}
	if res.Class != want.Class || res.ID != want.ID {
		key := "transport.handle:call-disturbed"
		if kind >= 2 {
			key = "csession:wrong-type-reply-not-an-error"
		}
		c.fail(key, fmt.Sprintf("call %d (type %d, tag %d) answered with type %d payload %d returned %s %d %q; expected %s %d", id, p.MT, tag, ty, rid, res.Class, res.ID, res.Text, want.Class, want.ID))
	}
}

// stray sends a reply nobody waits for, then answers a pending call (barrier).
func (c *child) stray(how string, ty uint8) {
	if len(c.live) == 0 {
		c.req(120)
		if c.broken {
			return
		}
	}
	var tag uint16
	switch how {
	case "notag":
		tag = peer.NOTAG
	case "repeated":
		if len(c.answered) == 0 {
			return
		}
		tag = c.answered[len(c.answered)-1]
		if _, again := c.awaiting[tag]; again {
			return // the tag has been reissued meanwhile: it is not stray
		}
	case "abandoned":
		if len(c.abandoned) == 0 {
			return
		}
		tag = c.abandoned[0]
		c.abandoned = c.abandoned[1:]
		delete(c.awaiting, tag)
	default: // a tag that was never issued on this session
		tag = 40000
		for c.issued[tag] {
			tag++
		}
	}
	rid := c.nextRid
	c.nextRid++
	// a repeated reply is sent twice: a loop that forgot to release the tag
	// would deliver the first copy into the (emptied) channel of the call that
	// has returned and block for ever on the second
	copies := 1
	if how == "repeated" {
		copies = 2
	}
	for i := 0; i < copies; i++ {
		c.ev(sx.L(sx.Sym("resp"), sx.U(uint64(tag)), sx.U(uint64(ty)), sx.U(uint64(rid))))
		c.obs(sx.Sym("none"))
		if !c.send(peer.Reply(tag, ty, rid)) {
			return
		}
	}
	c.replyLive(0, 0, 0)
}

func (c *child) cancel(idx int) {
	l := c.liveList()
	if len(l) == 0 {
		return
	}
	id := l[idx%len(l)]
	p := c.live[id]
	others := len(l) - 1
	p.Cancel()
	c.ev(sx.L(sx.Sym("cancel"), sx.U(uint64(id))))
	res, ok := p.Await()
	if !ok {
		c.fail("transport.send:no-return-on-own-ctx", fmt.Sprintf("call %d did not return after its own context was cancelled", id))
		c.broken = true
		return
	}
	delete(c.live, id)
	c.abandoned = append(c.abandoned, c.tagOf[id])
	c.obs(sx.L(sx.Sym("d"), sx.U(uint64(id)), res.Sexp()))
	if res.Class != "ctx" {
		c.fail("transport.send:own-ctx-result", fmt.Sprintf("call %d: own context cancelled, returned %s %q", id, res.Class, res.Text))
	}
	// nobody else may have been disturbed
	n := 0
	for _, o := range c.liveList() {
		if r, done := c.live[o].Returned(); done {
			c.fail("transport.send:cancel-disturbs-others", fmt.Sprintf("call %d returned %s %q when call %d was cancelled", o, r.Class, r.Text, id))
		} else {
			n++
		}
	}
	_ = others
}

func (c *child) failTransport(how string, garbage []byte) {
	switch how {
	case "ctx":
		c.stop()
		c.ev(sx.L(sx.Sym("ctxdone")))
		c.obs(sx.Sym("none"))
	case "deadline":
		select {
		case <-c.ctx.Done():
		case <-time.After(peer.Wait):
		}
		c.ev(sx.L(sx.Sym("ctxdone")))
		c.obs(sx.Sym("none"))
	case "readerr-ff", "readerr-plain":
		// the connection's Read fails with a net.Error that is neither Timeout() nor
		// Temporary(), or with an error that is no net.Error: fatal for the transport
		c.ev(sx.L(sx.Sym("fatal")))
		c.obs(sx.Sym("none"))
		if c.peer.Faults == nil || !c.peer.Faults.Inject(peer.ReadFault{NetError: how == "readerr-ff"}) {
			c.fail("harness.inject", "the read fault could not be delivered: the client is not reading")
			c.broken = true
			return
		}
	case "close":
		c.peer.Conn.Close()
		c.ev(sx.L(sx.Sym("fatal")))
		c.obs(sx.Sym("none"))
	default:
		// bytes, then end of stream.  Only an undecodable type byte and a frame
		// larger than msize are left without the close: they must fail the
		// transport on their own, whatever the decoder makes of the rest.
		c.emit("W", hex.EncodeToString(garbage))
		wrote := make(chan struct{})
		conn := c.peer.Conn
		go func() {
			conn.SetWriteDeadline(time.Now().Add(peer.Wait))
			conn.Write(garbage) // the client may stop reading half-way: errors are expected
			close(wrote)
		}()
		if how != "badtype" && how != "oversize" {
			select {
			case <-wrote:
			case <-time.After(2 * time.Second):
			}
			conn.Close()
		}
		c.ev(sx.L(sx.Sym("fatal")))
		c.obs(sx.Sym("none"))
	}
	c.dead = true
	c.ev(sx.L(sx.Sym("exit")))
	c.obs(sx.Sym("closed"))
	// every pending call must return an error
	for _, id := range c.liveList() {
		p := c.live[id]
		c.ev(sx.L(sx.Sym("ret"), sx.U(uint64(id))))
		res, ok := p.Await()
		if !ok {
			c.fail("transport.send:pending-call-hangs-after-failure", fmt.Sprintf("call %d was pending when the transport failed (%s) and did not return within %v", id, how, peer.Wait))
			c.obs(sx.L(sx.Sym("blocked"), sx.U(uint64(id))))
			c.broken = true
			return
		}
		delete(c.live, id)
		c.obs(sx.L(sx.Sym("d"), sx.U(uint64(id)), res.Sexp()))
		if !res.IsError() {
			c.fail("transport.send:pending-call-ok-after-failure", fmt.Sprintf("call %d was pending when the transport failed (%s) and returned success", id, how))
		}
	}
}

func cpuTime() time.Duration {
	var ru syscall.Rusage
	syscall.Getrusage(syscall.RUSAGE_SELF, &ru)
	return time.Duration(ru.Utime.Nano() + ru.Stime.Nano())
}

// atRest: after the session context's deadline the client's goroutines must
// stop working.  The script is idle during the window, so an idle process uses
// (almost) no CPU; a goroutine spinning on an error it keeps retrying uses
// about one CPU.  A loaded machine can only lower what a spinner gets.
func (c *child) atRest() {
	if c.noisy {
		return // the process was already busy before this session existed: the measurement would say nothing
	}
	time.Sleep(150 * time.Millisecond)
	const window = 400 * time.Millisecond
	// a spinner burns CPU in every window; garbage collection or the tail of an
	// earlier script's goroutines does not keep it up for three in a row
	var used [3]time.Duration
	for i := range used {
		c0 := cpuTime()
		time.Sleep(window)
		used[i] = cpuTime() - c0
		if used[i] <= window/2 {
			return
		}
	}
	c.fail("transport.handle:reader-spins-after-ctx-deadline", fmt.Sprintf("the session context's deadline has passed, every call has returned, the script is idle (and the process was idle before this session was set up), yet the client process burnt %v, %v and %v of CPU in three consecutive windows of %v: a goroutine of the client retries an error that will never go away", used[0], used[1], used[2], window))
}

// quietBefore measures the process while nothing of this script exists yet.
func quietBefore() bool {
	const window = 250 * time.Millisecond
	c0 := cpuTime()
	time.Sleep(window)
	return cpuTime()-c0 < window/8
}

// late: calls started after (or while) the transport fails must return an error.
func (c *child) late(mt uint8, n int) {
	for i := 0; i < n; i++ {
		id := c.nextCall
		c.nextCall++
		c.ev(sx.L(sx.Sym("late"), sx.U(uint64(id)), sx.U(uint64(mt))))
		p := peer.Start(context.Background(), c.sess, mt, id, false)
		res, ok := p.Await()
		if !ok {
			c.fail("transport.send:later-call-hangs-after-failure", fmt.Sprintf("call %d started after the transport failed did not return within %v", id, peer.Wait))
			c.obs(sx.L(sx.Sym("blocked"), sx.U(uint64(id))))
			c.broken = true
			return
		}
		if res.IsError() {
			c.obs(sx.L(sx.Sym("d"), sx.U(uint64(id)), sx.Sym("err")))
		} else {
			c.obs(sx.L(sx.Sym("d"), sx.U(uint64(id)), res.Sexp()))
			c.fail("transport.send:later-call-ok-after-failure", fmt.Sprintf("call %d started after the transport failed returned success", id))
		}
	}
}

// runHandshake: CSession against a peer whose answer to Tversion is hostile.
// No model here (version.go is C10's): only "returns, does not crash, and a
// session that was established still answers or fails its calls".
func runHandshake(out *bufio.Writer, s script) {
	c := &child{out: out}
	ctx, stop := context.WithCancel(context.Background())
	defer stop()
	ans, _ := hex.DecodeString(s.Handshake)
	c.emit("W", s.Handshake)
	sess, p, err, ok := peer.DialHostile(ctx, ans, s.HSClose)
	defer p.Conn.Close()
	if !ok {
		c.fail("version.clientnegotiate:hangs", fmt.Sprintf("CSession did not return within %v after the peer answered Tversion with %s (%s)", peer.Wait, s.HSWhat, s.Handshake))
		return
	}
	if err != nil || sess == nil {
		return // refused: fine
	}
	// a session was established: writes on it must come back with an error or a
	// count (tiny msize values exercise the Twrite truncation arithmetic of WriteFcall) ...
	for _, n := range []int{0, 1, 8, 40} {
		wctx, wcancel := context.WithTimeout(context.Background(), peer.Wait)
		done := make(chan struct{})
		go func() {
			sess.Write(wctx, 1, make([]byte, n), 0)
			close(done)
		}()
		select {
		case <-done:
		case f, okf := <-p.Frames:
			if okf {
				p.Send(peer.Reply(f.Tag, 119, uint32(n)))
			}
			<-done
		}
		wcancel()
	}
	// ... and a call on it must come back (reply it if its frame arrives)
	pc := peer.Start(context.Background(), sess, 120, 1, false)
	select {
	case <-pc.Done:
		return
	case f, okf := <-p.Frames:
		if okf {
			p.Send(peer.Reply(f.Tag, 121, 0))
		}
	case <-time.After(peer.Wait):
	}
	p.Conn.Close()
	if _, ok := pc.Await(); !ok {
		c.fail("transport.send:call-hangs-after-hostile-version", fmt.Sprintf("a call on the session established after the peer answered Tversion with %s (%s) did not return although the peer then closed the connection", s.HSWhat, s.Handshake))
	}
}

func runScript(out *bufio.Writer, s script) {
	if s.HSWhat != "" {
		runHandshake(out, s)
		return
	}
	c := &child{out: out, awaiting: map[uint16]uint32{}, live: map[uint32]*peer.Pending{}, tagOf: map[uint32]uint16{}, issued: map[uint16]bool{}, nextCall: 1, nextRid: 500000}
	c.ctx, c.stop = context.WithCancel(context.Background())
	defer func() {
		c.stop()
		if c.peer != nil {
			c.peer.Conn.Close()
		}
	}()
	if s.Deadline > 0 {
		c.noisy = !quietBefore()
		c.stop()
		c.ctx, c.stop = context.WithTimeout(context.Background(), time.Duration(s.Deadline)*time.Millisecond)
		c.deadline = true
	}
	sess, p, err := peer.DialFaulty(c.ctx, s.Faulty)
	if err != nil {
		if c.deadline && c.ctx.Err() != nil {
			c.emit("X", "deadline passed during the version negotiation")
			return
		}
		c.fail("harness.dial", err.Error())
		return
	}
	c.sess, c.peer = sess, p
	for _, st := range s.Steps {
		if c.broken {
			return
		}
		if c.dead && st.Op != "late" {
			continue
		}
		switch st.Op {
		case "req":
			c.req(st.MT)
		case "reply":
			c.replyLive(st.Idx, st.Kind, st.Ty)
		case "stray":
			c.stray(st.How, st.Ty)
		case "cancel":
			c.cancel(st.Idx)
		case "wfail":
			c.failedWrite()
		case "stall":
			c.stall(st.MT, st.Ty, uint8(st.N))
		case "dlcall":
			c.deadlineThenPlain(st.MT, st.Ty)
		case "readfault":
			c.readFault(st.How, st.N)
		case "fail":
			g, _ := hex.DecodeString(st.Bytes)
			c.failTransport(st.How, g)
			if st.How == "deadline" && !c.broken {
				c.atRest()
			}
		case "late":
			c.late(st.MT, st.N)
		}
	}
	if !c.dead && !c.broken {
		// a session that was never failed: everybody still pending gets the own reply
		for len(c.live) > 0 && !c.broken {
			c.replyLive(0, 0, 0)
		}
	}
}

func childMain(file string, from int) {
	log.SetOutput(io.Discard)
	f, err := os.Open(file)
	if err != nil {
		fmt.Fprintln(os.Stderr, err)
		os.Exit(3)
	}
	out := bufio.NewWriter(os.Stdout)
	sc := bufio.NewScanner(f)
	sc.Buffer(make([]byte, 1<<20), 1<<26)
	for sc.Scan() {
		var s script
		if err := json.Unmarshal(sc.Bytes(), &s); err != nil {
			fmt.Fprintln(os.Stderr, "bad script line:", err)
			os.Exit(3)
		}
		if s.I < from {
			continue
		}
		fmt.Fprintf(out, "S %d\n", s.I)
		out.Flush()
		runScript(out, s)
		fmt.Fprintf(out, "D %d\n", s.I)
		out.Flush()
		if hangs >= 3 {
			fmt.Fprintf(out, "Q %d\n", s.I)
			out.Flush()
			os.Exit(0)
		}
	}
	os.Exit(0)
}

// ---------------------------------------------------------------- parent

func le32(v uint32) []byte { return []byte{byte(v), byte(v >> 8), byte(v >> 16), byte(v >> 24)} }

// malformed builds the byte string of one failure kind.
func malformed(rng *prng.R, how string, withDecoderDefects bool) []byte {
	switch how {
	case "garbage":
		n := rng.Range(1, 40)
		b := rng.Bytes(n)
		if n >= 4 { // keep the size field away from 0..3 unless asked for (readmsg D1)
			sz := uint32(rng.Pick(7, 11, 64, 5000, 70000, 1<<31, 0xFFFFFFFF))
			copy(b, le32(sz))
		}
		if n >= 5 { // whatever frame the first bytes may form, its type byte is not a 9P message type
			b[4] = byte(rng.Pick(0, 7, 99, 128, 0xEE, 0xFF))
		}
		return b
	case "truncated":
		full := peer.Reply(uint16(50000+rng.Intn(10000)), uint8(rng.Pick(101, 103, 105, 107, 111, 113, 117, 119, 121, 125)), 7)
		return full[:rng.Range(1, len(full)-1)]
	case "badtype":
		ty := uint8(rng.Pick(0, 1, 99, 106, 128, 129, 200, 255))
		body := append([]byte{ty, byte(rng.Intn(256)), byte(rng.Intn(256))}, rng.Bytes(rng.Intn(12))...)
		return append(le32(uint32(len(body)+4)), body...)
	case "oversize":
		n := 64<<10 + rng.Range(1, 300) // larger than the negotiated msize
		body := make([]byte, n-4)
		body[0] = 117
		return append(le32(uint32(n)), body...)
	case "shortbody": // size 4..6: not even type+tag
		n := rng.Range(4, 6)
		return append(le32(uint32(n)), rng.Bytes(n-4)...)
	case "badbody": // decodable type, body too short / inconsistent for it
		ty := uint8(rng.Pick(103, 105, 107, 111, 113, 115, 119))
		full := peer.Reply(uint16(50000+rng.Intn(10000)), ty, 9)
		cut := rng.Range(8, len(full)-1)
		b := append([]byte{}, full[:cut]...)
		copy(b, le32(uint32(cut)))
		return b
	case "tinysize": // size field 0..3 (readmsg, D1)
		return le32(uint32(rng.Intn(4)))
	case "baddir": // Rstat whose stat size fields are 0xFFFE / 0xFFFF (DecodeDir, D3)
		full := peer.Reply(uint16(50000+rng.Intn(10000)), 125, 9)
		b := append([]byte{}, full...)
		v := uint16(rng.Pick(0xFFFE, 0xFFFF))
		switch rng.Intn(3) {
		case 0: // outer size (body offset 3 = frame offset 7)
			b[7], b[8] = byte(v), byte(v>>8)
		case 1: // inner size
			b[9], b[10] = byte(v), byte(v>>8)
		default:
			b[7], b[8], b[9], b[10] = byte(v), byte(v>>8), byte(v), byte(v>>8)
		}
		return b
	case "hugecount": // count / nwqid far beyond the bytes that follow (D4)
		tag := uint16(50000 + rng.Intn(10000))
		var body []byte
		if rng.Bool() { // Rread count[4] data
			c := uint32(rng.Pick(0xFFFFFFFF, 0xFFFFFFF0, 0x7FFFFFFF, 1<<30, 70000))
			body = append([]byte{117, byte(tag), byte(tag >> 8)}, le32(c)...)
		} else { // Rwalk nwqid[2] qids
			n := uint16(rng.Pick(0xFFFF, 0x8000, 17, 1000))
			body = []byte{111, byte(tag), byte(tag >> 8), byte(n), byte(n >> 8)}
		}
		body = append(body, rng.Bytes(rng.Intn(20))...)
		return append(le32(uint32(len(body)+4)), body...)
	}
	panic("malformed: " + how)
}

func rversion(tag uint16, msize uint32, version string) []byte {
	raw, err := peer.Encode(&p9p.Fcall{Type: p9p.Rversion, Tag: p9p.Tag(tag), Message: p9p.MessageRversion{MSize: msize, Version: version}})
	if err != nil {
		panic(err)
	}
	return raw
}

// genHandshake: hostile answers to Tversion.
func genHandshake(rng *prng.R, i int) script {
	s := script{I: i}
	// the first handshake scripts of every run walk through the msize values around
	// the size of an empty Twrite (23 bytes), where WriteFcall's truncation arithmetic lives
	fixed := []uint32{19, 20, 21, 22, 23, 18, 24, 0, 7, 27, 11, 1}
	if j := i / 10; j < len(fixed) {
		m := fixed[j]
		s.HSWhat, s.Handshake = fmt.Sprintf("Rversion msize=%d", m), hex.EncodeToString(rversion(peer.NOTAG, m, "9P2000"))
		return s
	}
	switch rng.Intn(9) {
	case 0:
		m := uint32(rng.Pick(0, 1, 3, 4, 6, 7, 8, 11, 18, 19, 20, 21, 22, 23, 24, 27, 31, 100))
		s.HSWhat, s.Handshake = fmt.Sprintf("Rversion msize=%d", m), hex.EncodeToString(rversion(peer.NOTAG, m, "9P2000"))
	case 1:
		m := uint32(rng.Pick(65537, 1<<20, 1<<31, 0xFFFFFFFF))
		s.HSWhat, s.Handshake = fmt.Sprintf("Rversion msize=%d", m), hex.EncodeToString(rversion(peer.NOTAG, m, "9P2000"))
	case 2:
		v := []string{"", "unknown", "9P2000.L", "9P1999", strings.Repeat("v", 300)}[rng.Intn(5)]
		short := v
		if len(short) > 12 {
			short = short[:12]
		}
		s.HSWhat, s.Handshake = "Rversion version="+short, hex.EncodeToString(rversion(peer.NOTAG, 65536, v))
	case 3:
		s.HSWhat, s.Handshake = "Rversion tag=7", hex.EncodeToString(rversion(7, 65536, "9P2000"))
	case 4:
		s.HSWhat, s.Handshake = "Rerror", hex.EncodeToString(peer.Reply(peer.NOTAG, 107, 1))
	case 5:
		ty := uint8(rng.Pick(100, 103, 111, 117, 121, 125))
		s.HSWhat, s.Handshake = fmt.Sprintf("reply type %d", ty), hex.EncodeToString(peer.Reply(peer.NOTAG, ty, 1))
	case 6:
		s.HSWhat, s.Handshake, s.HSClose = "close", "", true
	case 7:
		s.HSWhat, s.Handshake, s.HSClose = "garbage", hex.EncodeToString(malformed(rng, "garbage", true)), true
	default:
		k := []string{"tinysize", "shortbody", "badtype", "truncated", "hugecount"}[rng.Intn(5)]
		s.HSWhat, s.Handshake, s.HSClose = k, hex.EncodeToString(malformed(rng, k, true)), true
	}
	return s
}

func genScript(rng *prng.R, i int, decoderDefects bool, deadline bool, dlcall bool) script {
	sc := genScript1(rng, i, decoderDefects, deadline, dlcall)
	for _, st := range sc.Steps {
		if st.Op == "readfault" || (st.Op == "fail" && strings.HasPrefix(st.How, "readerr")) {
			sc.Faulty = true
		}
	}
	return sc
}

func genScript1(rng *prng.R, i int, decoderDefects bool, deadline bool, dlcall bool) script {
	var st []step
	faulty := !deadline && !dlcall && rng.Chance(1, 4) // read errors of the connection itself
	dlLive := 0
	if dlcall {
		// a call under a context deadline, the deadline passes, then a call without one
		st = append(st, step{Op: "dlcall", MT: peer.Methods[rng.Intn(len(peer.Methods))], Ty: peer.Methods[rng.Intn(len(peer.Methods))]})
		dlLive = 1
	}
	if deadline {
		// the session context carries a deadline which passes with 0..4 calls pending
		for k := rng.Intn(5); k > 0; k-- {
			st = append(st, step{Op: "req", MT: peer.Methods[rng.Intn(len(peer.Methods))]})
		}
		st = append(st, step{Op: "fail", How: "deadline"})
		st = append(st, step{Op: "late", MT: peer.Methods[rng.Intn(len(peer.Methods))], N: rng.Range(1, 2)})
		return script{I: i, Steps: st, Deadline: 500}
	}
	stalls := 0
	pend := rng.Pick(0, 0, 1, 1, 2, 3, 4, 6, 8, 12, 16)
	nsteps := rng.Range(0, 25)
	live := dlLive
	for k := 0; k < nsteps; k++ {
		x := rng.Intn(100)
		switch {
		case x < 40 && live < 16:
			st = append(st, step{Op: "req", MT: peer.Methods[rng.Intn(len(peer.Methods))]})
			live++
		case x < 60 && live > 0:
			kind := rng.Pick(0, 0, 1, 2, 2)
			ty := uint8(rng.Range(100, 127))
			if ty == 106 {
				ty = 100
			}
			st = append(st, step{Op: "reply", Idx: rng.Intn(16), Kind: kind, Ty: ty})
			live--
		case x < 72 && live > 0:
			st = append(st, step{Op: "cancel", Idx: rng.Intn(16)})
			live--
		case faulty && x >= 88:
			// the connection's Read fails, retryably, once or several times in a row; then a call and a reply
			st = append(st, step{Op: "readfault", How: []string{"tt", "tf", "ft"}[rng.Intn(3)], N: rng.Pick(1, 1, 2, 3, 5)})
			if live < 16 {
				st = append(st, step{Op: "req", MT: peer.Methods[rng.Intn(len(peer.Methods))]})
				live++
			}
			st = append(st, step{Op: "reply", Idx: rng.Intn(16), Kind: 0})
			live--
		case x < 77:
			// a write that fails on a healthy connection; whatever follows must still be written
			st = append(st, step{Op: "wfail"})
			if live < 16 {
				st = append(st, step{Op: "req", MT: peer.Methods[rng.Intn(len(peer.Methods))]})
				live++
			}
		case x < 80 && live <= 12 && stalls < 1:
			// peer stops reading; a call abandoned while its frame is queued; another behind it
			m := func() uint8 { return peer.Methods[rng.Intn(len(peer.Methods))] }
			st = append(st, step{Op: "stall", MT: m(), Ty: m(), N: int(m())})
			live += 3
			stalls++
		case x < 95:
			ty := uint8(rng.Range(100, 127))
			if ty == 106 {
				ty = 107
			}
			how := []string{"unused", "unused", "repeated", "notag", "abandoned"}[rng.Intn(5)]
			st = append(st, step{Op: "stray", How: how, Ty: ty})
			if live == 0 {
				live = 1
			}
			live--
		}
	}
	for live < pend {
		st = append(st, step{Op: "req", MT: peer.Methods[rng.Intn(len(peer.Methods))]})
		live++
	}
	if rng.Chance(9, 10) {
		kinds := []string{"close", "close", "ctx", "garbage", "truncated", "badtype", "oversize", "badbody"}
		if decoderDefects {
			kinds = append(kinds, "tinysize", "shortbody", "baddir", "hugecount")
		}
		how := kinds[rng.Intn(len(kinds))]
		if faulty && rng.Chance(1, 2) {
			how = []string{"readerr-ff", "readerr-plain"}[rng.Intn(2)]
		}
		f := step{Op: "fail", How: how}
		if how != "close" && how != "ctx" && !strings.HasPrefix(how, "readerr") {
			f.Bytes = hex.EncodeToString(malformed(rng, how, decoderDefects))
		}
		st = append(st, f)
		st = append(st, step{Op: "late", MT: peer.Methods[rng.Intn(len(peer.Methods))], N: rng.Range(1, 3)})
	}
	return script{I: i, Steps: st}
}

type scriptResult struct {
	skipped     bool
	events, obs []string
	writes      []string
	fails       []map[string]string
	started     bool
	done        bool
}

func main() {
	childFile := flag.String("child", "", "(internal) run the scripts of this file in this process")
	from := flag.Int("from", 0, "(internal) first script index")
	light := flag.Bool("light", false, "a tenth of the scripts, other seed stream (second run: under the race detector in the thorough tier)")
	decoderDefects := flag.Bool("decoder-defects", true, "also send the frames that used to crash the reader through channel.go/encoding.go (D1 size field 0..3, D2 body shorter than a header, D3 stat sizes 0xFFFE/0xFFFF, D4 huge counts)")
	// the child must not call rep.Open (it would create output files)
	for i, a := range os.Args {
		if a == "-child" && i+1 < len(os.Args) {
			f := 0
			for j, b := range os.Args {
				if b == "-from" && j+1 < len(os.Args) {
					fmt.Sscan(os.Args[j+1], &f)
				}
			}
			childMain(os.Args[i+1], f)
			return
		}
	}
	_ = childFile
	_ = from
	r := rep.Open()
	defer r.Close()
	r.Samples = []string{}
	r.Rule = "one script = one client session in a child process against a hostile peer: 0..25 steps (start call / reply right-type, Rerror or wrong type / stray reply with an unissued, repeated, NOTAG or abandoned tag / cancel one call's context), then with 0..16 calls pending one failure (close, ctx, session deadline, garbage, truncated frame, undecodable type, frame > msize, size field 0..6, inconsistent body, stat sizes 0xFFFE/0xFFFF, counts far beyond the input) and 1..3 later calls. Non-trivial when the script has a stray reply, a wrong-typed reply, or a failure with >=1 call pending. Distinct by canonical event text."
	rng := prng.New(r.Seed)
	n := r.N(300, 6000)
	if *light {
		rng = prng.New(r.Seed + 4242)
		n = r.N(30, 600)
	}
	scripts := make([]script, n)
	everyDL := n / r.N(8, 60) // this many scripts begin with a call under a context deadline that is then let pass (~0.6 s each)
	every := n / r.N(6, 40)   // this many scripts let a session-context deadline pass (each costs ~1.3 s of waiting)
	file := r.Out + "/scripts.jsonl"
	f, err := os.Create(file)
	if err != nil {
		panic(err)
	}
	w := bufio.NewWriter(f)
	for i := range scripts {
		if i%10 == 7 {
			scripts[i] = genHandshake(rng.Fork(), i)
		} else {
			scripts[i] = genScript(rng.Fork(), i, *decoderDefects, i%every == 3, i%everyDL == 5 && i%every != 3)
		}
		b, _ := json.Marshal(scripts[i])
		w.Write(b)
		w.WriteByte('\n')
	}
	w.Flush()
	f.Close()

	results := make([]scriptResult, n)
	raceReported := false
	crashes := 0
	next := 0
	for next < n {
		cmd := exec.Command(os.Args[0], "-child", file, "-from", fmt.Sprint(next))
		cmd.Env = append(os.Environ(), "GORACE=exitcode=0") // race reports are read from stderr, not from the exit status
		stdout, _ := cmd.StdoutPipe()
		var stderr strings.Builder
		cmd.Stderr = &limitedWriter{b: &stderr, max: 1 << 16}
		if err := cmd.Start(); err != nil {
			panic(err)
		}
		cur := -1
		gaveUp := false
		lines := make(chan string, 1024)
		go func() {
			sc := bufio.NewScanner(stdout)
			sc.Buffer(make([]byte, 1<<20), 1<<26)
			for sc.Scan() {
				lines <- sc.Text()
			}
			close(lines)
		}()
		hung := false
	read:
		for {
			select {
			case ln, ok := <-lines:
				if !ok {
					break read
				}
				if len(ln) < 2 {
					continue
				}
				body := ln[2:]
				switch ln[0] {
				case 'S':
					fmt.Sscan(body, &cur)
					results[cur].started = true
				case 'D':
					results[cur].done = true
				case 'X':
					results[cur].skipped = true
				case 'Q':
					gaveUp = true
				case 'E':
					results[cur].events = append(results[cur].events, body)
				case 'O':
					results[cur].obs = append(results[cur].obs, body)
				case 'W':
					results[cur].writes = append(results[cur].writes, body)
				case 'F':
					var m map[string]string
					json.Unmarshal([]byte(body), &m)
					results[cur].fails = append(results[cur].fails, m)
				}
			case <-time.After(4 * peer.Wait):
				hung = true
				cmd.Process.Kill()
				break read
			}
		}
		err := cmd.Wait()
		if msg := stderr.String(); strings.Contains(msg, "DATA RACE") && !raceReported {
			raceReported = true
			i := strings.Index(msg, "WARNING: DATA RACE")
			r.Fail("client:data-race", "the race detector reported a data race in the client process: "+tail(msg[i:], 1500), nil, nil)
		}
		if hung {
			if cur < 0 {
				cur = next
			}
			results[cur].fails = append(results[cur].fails, map[string]string{"key": "client:process-hangs", "what": "the child process made no progress for " + (4 * peer.Wait).String()})
			next = cur + 1
			continue
		}
		if err == nil {
			if gaveUp {
				r.Extra["gave_up_after_script"] = cur
			}
			next = n
			continue
		}
		// the child died while running script cur
		crashes++
		if cur < 0 || results[cur].done {
			// died between scripts (or before the first): harness problem, not an observation
			r.Fail("harness.child", fmt.Sprintf("child process failed outside a script: %v: %s", err, tail(stderr.String(), 600)), nil, nil)
			break
		}
		msg := stderr.String()
		key := "client:process-died"
		switch {
		case strings.Contains(msg, "unknown tag received"):
			key = "transport.handle:panic-unknown-tag"
		case strings.Contains(msg, "maybeTruncate"):
			key = "channel.maybeTruncate:panic"
		case strings.Contains(msg, "readmsg"):
			key = "channel.readmsg:panic"
		case strings.Contains(msg, "DecodeDir") || strings.Contains(msg, "encoding.go"):
			key = "encoding.decode:panic"
		case strings.Contains(msg, "out of memory") || strings.Contains(msg, "cannot allocate"):
			key = "encoding.decode:alloc"
		case strings.Contains(msg, "DATA RACE"):
			key = "client:data-race"
		}
		first := msg
		if i := strings.Index(first, "\n\n"); i > 0 {
			first = first[:i]
		}
		results[cur].fails = append(results[cur].fails, map[string]string{"key": key, "what": fmt.Sprintf("the client process died (%v) while the peer ran this script: %s", err, tail(first, 400))})
		// A stray reply is recorded as `none` when it is written; if the process
		// died, the last such reply is the one whose processing killed it (the
		// script may have run a little further meanwhile): cut the history there.
		ev, ob := results[cur].events, results[cur].obs
		k := -1
		for j := range ob {
			if j < len(ev) && ob[j] == "none" && strings.HasPrefix(ev[j], "(resp ") {
				k = j
			}
		}
		if k >= 0 {
			ob[k] = "panic"
			results[cur].events, results[cur].obs = ev[:k+1], ob[:k+1]
		} else if len(ev) > len(ob) {
			results[cur].events = ev[:len(ob)]
		}
		next = cur + 1
		if crashes > 2000 {
			break
		}
	}

	skipped, handshakes := 0, 0
	for i := range results {
		res := &results[i]
		if !res.started || res.skipped {
			if res.skipped {
				skipped++
			}
			continue
		}
		if scripts[i].HSWhat != "" {
			handshakes++
			for _, fl := range res.fails {
				r.Fail(fl["key"], fl["what"], sx.Sym("(handshake "+scripts[i].Handshake+")"), map[string]interface{}{"answer_to_Tversion": scripts[i].Handshake, "answer": scripts[i].HSWhat})
			}
			continue
		}
		nt := false
		label := "nofail"
		for _, st := range scripts[i].Steps {
			if st.Op == "stray" || st.Op == "stall" || st.Op == "dlcall" || st.Op == "readfault" || st.Op == "wfail" || (st.Op == "reply" && st.Kind >= 2) {
				nt = true
			}
			if st.Op == "fail" {
				label = "fail:" + st.How
			}
		}
		for _, e := range res.events {
			if strings.HasPrefix(e, "(ret ") {
				nt = true
			}
		}
		c := sx.Sym("(sched (" + strings.Join(res.events, " ") + "))") // already canonical text
		o := sx.Sym("(" + strings.Join(res.obs, " ") + ")")
		if len(res.obs) == len(res.events) {
			r.Case(c, o, label, nt)
		}
		for _, fl := range res.fails {
			r.Fail(fl["key"], fl["what"], c, map[string]interface{}{"bytes_sent_to_client": res.writes, "script": scripts[i].Steps})
		}
	}
	r.Extra["scripts_skipped_machine_too_slow"] = skipped
	r.Extra["hostile_version_negotiations"] = handshakes
	r.Extra["child_crashes"] = crashes
	r.Extra["scripts"] = n
}

type limitedWriter struct {
	b   *strings.Builder
	max int
}

func (l *limitedWriter) Write(p []byte) (int, error) {
	if l.b.Len() < l.max {
		l.b.Write(p)
	}
	return len(p), nil
}

func tail(s string, n int) string {
	if len(s) > n {
		return s[:n]
	}
	return s
}
