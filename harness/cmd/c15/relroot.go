package main

// Relative export roots, run in CHILD processes (the working directory is
// process-wide):
//
//	deleted: chdir into a temp directory, remove it, then ufs.NewServer(ctx,
//	         "export" and other relative spellings).  Nothing exists there: every
//	         attach must fail.  Only attach / walk / stat are issued (read-only),
//	         because a defective server might resolve such a root to the host's "/".
//	live:    chdir into a sandbox S and serve its export through relative spellings;
//	         every operation must answer exactly as a server created from the
//	         absolute path of a second, identical sandbox, and leave the same tree.
//	         Mutating operations run only after the server's own idea of the root
//	         (ufs.VerifFullPath("/"), made absolute against the cwd) has been
//	         confirmed to be S/export.

import (
	"context"
	"encoding/json"
	"fmt"
	"os"
	"os/exec"
	"path/filepath"
	"strconv"
	"time"

	"github.com/frobnitzem/go-p9p/ufs"

	"verifharness/cmd/c15/drv"
	"verifharness/internal/prng"
	"verifharness/internal/rep"
	"verifharness/internal/sx"
)

type relFailure struct {
	Key  string `json:"key"`
	What string `json:"what"`
	Case string `json:"case"`
}

type relCase struct {
	Case     string `json:"case"`
	Observed string `json:"observed"`
	Branch   string `json:"branch"`
}

type relOut struct {
	Cases    []relCase    `json:"cases"`
	Failures []relFailure `json:"failures"`
	Sessions int          `json:"sessions"`
	Ops      int          `json:"ops"`
}

var relSpellings = []string{"export", "./export", "export/", "x/../export", "export/."}

// hostRootNames: names that exist in the host's root directory but must not be
// reachable through an export that does not exist.
var hostRootNames = []string{"etc", "proc", "tmp", "usr", "dev"}

func relChild() {
	mode := os.Getenv("VERIF_C15_CHILD")
	top := os.Getenv("VERIF_C15_TOP")
	seed, _ := strconv.ParseUint(os.Getenv("VERIF_C15_SEED"), 10, 64)
	var out relOut
	switch mode {
	case "deleted":
		relDeleted(top, &out)
	case "live":
		relLive(top, prng.New(seed), &out)
	}
	json.NewEncoder(os.Stdout).Encode(out)
}

func relDeleted(top string, out *relOut) {
	d, err := os.MkdirTemp(top, "gone")
	if err != nil {
		return
	}
	if os.Chdir(d) != nil || os.Remove(d) != nil {
		return
	}
	for _, root := range relSpellings {
		sess := drv.NewSess(root)
		ops := []drv.Op{{Kind: "attach", Fid: 0}}
		for i, n := range hostRootNames {
			ops = append(ops, drv.Op{Kind: "walk", Fid: 0, NewFid: uint32(1 + i), Names: []string{n}}, drv.Op{Kind: "stat", Fid: uint32(1 + i)})
		}
		ops = append(ops, drv.Op{Kind: "walk", Fid: 0, NewFid: 9}, drv.Op{Kind: "stat", Fid: 0}, drv.Op{Kind: "attach", Fid: 20})
		caseL := []sx.S{sx.Sym("relseq"), sx.Str(root), sx.I(0)}
		obsL := []sx.S{sx.Sym("obs")}
		for _, o := range ops {
			caseL = append(caseL, o.Sexp())
		}
		cs := sx.String(sx.List(caseL))
		for i, o := range ops {
			res, _ := sess.Do(o)
			obsL = append(obsL, res)
			if res != drv.SErr {
				out.Failures = append(out.Failures, relFailure{"ufs.relroot.deleted-cwd." + o.Kind,
					fmt.Sprintf("NewServer(%q) under a removed working directory: op %d %s answered %s although the export does not exist (fids now %s)",
						root, i, sx.String(o.Sexp()), sx.String(res), sx.String(drv.FidsSexp(sess.Fids()))), cs})
			}
			out.Ops++
		}
		out.Cases = append(out.Cases, relCase{cs, sx.String(sx.List(obsL)), "relroot:deleted-cwd"})
		out.Sessions++
	}
}

func relLive(top string, rng *prng.R, out *relOut) {
	for _, spelling := range append(relSpellings, "outside/../export", "../SELF/export") {
		sbR, err := drv.NewSandbox(top, false)
		if err != nil {
			return
		}
		sbA, err := drv.NewSandbox(top, false)
		if err != nil {
			return
		}
		root := spelling
		if spelling == "../SELF/export" {
			root = "../" + filepath.Base(sbR.S) + "/export"
		}
		if os.Chdir(sbR.S) != nil {
			return
		}
		crng := rng.Fork()
		ops := setupOps(crng)
		hostiles := 0
		for j := 0; j < 30; j++ {
			ops = append(ops, genOp(crng, &hostiles))
		}
		caseL := []sx.S{sx.Sym("relative-root"), sx.Str(spelling)}
		for _, o := range ops {
			caseL = append(caseL, o.Sexp())
		}
		cs := sx.String(sx.List(caseL))
		// where does the server think the root is?
		hp, herr := ufs.VerifFullPath(ufs.NewServer(context.Background(), root), "/")
		abs := hp
		if !filepath.IsAbs(abs) {
			abs = filepath.Join(sbR.S, hp)
		}
		if herr != nil || abs != sbR.Export {
			out.Failures = append(out.Failures, relFailure{"ufs.relroot.live-cwd.base",
				fmt.Sprintf("NewServer(%q) with cwd %q maps the internal root to %q (%v), not to the export %q", root, sbR.S, hp, herr, sbR.Export), cs})
			sbR.Remove()
			sbA.Remove()
			continue
		}
		sessR, sessA := drv.NewSess(root), drv.NewSess(sbA.Export)
		sbR.Events()
		for i, o := range ops {
			rR, _ := sessR.Do(o)
			rA, _ := sessA.Do(o)
			what := fmt.Sprintf("NewServer(%q) in cwd S: op %d %s", spelling, i, sx.String(o.Sexp()))
			if len(what) > 300 {
				what = what[:300] + "..."
			}
			if a, b := sx.String(rR), sx.String(rA); a != b {
				out.Failures = append(out.Failures, relFailure{"ufs.relroot.live-cwd." + o.Kind + ".result", what + ": answered " + a + ", the server created from the absolute path answers " + b, cs})
			}
			if a, b := sx.String(drv.FidsSexp(sessR.Fids())), sx.String(drv.FidsSexp(sessA.Fids())); a != b {
				out.Failures = append(out.Failures, relFailure{"ufs.relroot.live-cwd." + o.Kind + ".fids", what + ": fid table " + a + " vs " + b, cs})
			}
			if d := drv.TreesEqual(drv.Tree(sbR.Export, true), drv.Tree(sbA.Export, true)); d != "" {
				out.Failures = append(out.Failures, relFailure{"ufs.relroot.live-cwd." + o.Kind + ".tree", what + ": trees differ: " + d, cs})
			}
			if ev := sbR.Events(); len(ev) > 0 {
				out.Failures = append(out.Failures, relFailure{"ufs.relroot.live-cwd." + o.Kind + ".outside-touched", what + fmt.Sprintf(": %v", ev), cs})
			}
			if msg := sbR.RootIntact(); msg != "" {
				out.Failures = append(out.Failures, relFailure{"ufs.relroot.live-cwd." + o.Kind + ".root", what + ": " + msg, cs})
			}
			out.Ops++
			if len(out.Failures) > 200 {
				break
			}
		}
		sessR.Close()
		sessA.Close()
		os.Chdir(top)
		sbR.Remove()
		sbA.Remove()
		out.Sessions++
	}
}

// relRoots runs the two child families and files their cases and failures.
func relRoots(r *rep.Report, top string) {
	for _, mode := range []string{"deleted", "live"} {
		cmd := exec.Command(os.Args[0])
		cmd.Env = append(os.Environ(), "VERIF_C15_CHILD="+mode, "VERIF_C15_TOP="+top, "VERIF_C15_SEED="+strconv.FormatUint(r.Seed, 10))
		cmd.Dir = top
		cmd.Stderr = os.Stderr
		done := make(chan struct{})
		var raw []byte
		var err error
		go func() { raw, err = cmd.Output(); close(done) }()
		select {
		case <-done:
		case <-time.After(300 * time.Second):
			// a slow machine must not raise an alarm: the family is skipped and says so
			if cmd.Process != nil {
				cmd.Process.Kill()
			}
			<-done
			r.Extra["relroot_"+mode] = "skipped: child did not finish within 300 s"
			continue
		}
		var out relOut
		if err != nil || json.Unmarshal(raw, &out) != nil {
			r.Fail("ufs.relroot."+mode+".child", fmt.Sprintf("child process failed: %v; output %.300q", err, raw), nil, nil)
			continue
		}
		for _, c := range out.Cases {
			r.Case(sx.Sym(c.Case), sx.Sym(c.Observed), c.Branch, true)
		}
		for _, f := range out.Failures {
			r.Fail(f.Key, f.What, sx.Sym(f.Case), nil)
		}
		r.Extra["relroot_"+mode] = map[string]int{"sessions": out.Sessions, "operations": out.Ops, "failures": len(out.Failures)}
	}
}
