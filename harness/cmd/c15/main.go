// C15 harness: a real ufs session on a fresh sandbox S/{export,outside};
// hostile names in every name-carrying field (walk names, create name, wstat
// Name) from every depth.  Per operation it prints the result, the session's
// fid table with the internal path of every FileRef (verif hooks) and the
// export tree, for comparison with the Coq model; direct oracles: S/outside and
// the export root itself are untouched (inotify + snapshots), no read returns
// outside data, every internal path is canonical, only validated names reach
// the FileSys.
package main

import (
	"bytes"
	"context"
	"fmt"
	"os"
	"os/signal"
	"path"
	"path/filepath"
	"strings"
	"syscall"

	"github.com/frobnitzem/go-p9p/ufs"

	"verifharness/cmd/c15/drv"
	"verifharness/internal/prng"
	"verifharness/internal/rep"
	"verifharness/internal/sx"
)

var plain = []string{"a", "b", "c", "d", "f", "g"}

// legal names that merely CONTAIN dots: the host takes them, so must ufs
var dotted = []string{"notes..txt", "..hidden", "v1..", "a...b", "...", ".a", "a.", "x..y", "..."}

// anames of Tattach: ufs exports one tree, whatever is asked for
var anames = []string{"", "", "", "/", "sub", "/sub", "a", "a/b", "..", "../outside", "sub/../..", "/..", "a/../../..",
	"../..", "a/..", "./..", "..\\outside", "outside", "a\x00b", strings.Repeat("../", 30), strings.Repeat("A", 5000)}

func hostile(rng *prng.R, depthHint int) string {
	switch rng.Intn(30) {
	case 0:
		return ".."
	case 1:
		return "."
	case 2:
		return ""
	case 3:
		return "a/b"
	case 4:
		return "a\\b"
	case 5:
		return "/"
	case 6:
		return "/etc/passwd"
	case 7:
		return "/" + plain[rng.Intn(len(plain))]
	case 8:
		return "../" + plain[rng.Intn(len(plain))]
	case 9:
		return strings.Repeat("../", rng.Range(1, 3)) + plain[rng.Intn(len(plain))]
	case 10:
		return strings.Repeat("../", depthHint+rng.Range(1, 12)) + "outside/sentinel"
	case 11:
		return strings.Repeat("../", depthHint+1) + "outside/x"
	case 12:
		return strings.Repeat("../", depthHint+rng.Range(0, 2)) + "export"
	case 13:
		return "\x00"
	case 14:
		return "a\x00b"
	case 15:
		if rng.Chance(1, 8) {
			return strings.Repeat("A", 4096)
		}
		return strings.Repeat("A", rng.Pick(1100, 600, 300))
	case 16:
		return strings.Repeat("n", 255)
	case 17:
		return strings.Repeat("n", 256)
	case 18:
		return "..."
	case 19:
		return "..a"
	case 20:
		return "\\"
	case 21:
		return plain[rng.Intn(len(plain))] + "/.."
	case 22:
		return plain[rng.Intn(len(plain))] + "/../.."
	case 23:
		return "./" + plain[rng.Intn(len(plain))]
	case 24:
		return plain[rng.Intn(len(plain))] + "/" + plain[rng.Intn(len(plain))]
	case 25:
		return strings.Repeat("../", depthHint+rng.Range(0, 3))
	case 26:
		return "..\\..\\outside"
	case 27:
		return strings.Repeat("../", rng.Range(1, 40))
	case 28:
		return string(rng.Bytes(rng.Range(1, 6)))
	default:
		return "../../outside/sentinel"
	}
}

func name(rng *prng.R, hostilePct, depth int) (string, bool) {
	if rng.Intn(100) < hostilePct {
		return hostile(rng, depth), true
	}
	if rng.Chance(1, 6) {
		return dotted[rng.Intn(len(dotted))], false
	}
	return plain[rng.Intn(len(plain))], false
}

func pickFid(rng *prng.R) uint32 {
	switch rng.Intn(40) {
	case 0:
		return drv.NOFID
	case 1:
		return 9 // never bound on purpose... unless a walk binds it
	}
	return uint32(rng.Intn(6))
}

func genOp(rng *prng.R, hostiles *int) drv.Op {
	depth := rng.Intn(4)
	switch k := rng.Intn(100); {
	case k < 7:
		return drv.Op{Kind: "attach", Fid: pickFid(rng), Aname: anames[rng.Intn(len(anames))]}
	case k < 37:
		o := drv.Op{Kind: "walk", Fid: pickFid(rng), NewFid: pickFid(rng)}
		if rng.Chance(1, 4) {
			o.NewFid = o.Fid
		}
		n := rng.Pick(0, 1, 1, 1, 2, 2, 3, 4)
		lead := rng.Pick(0, 0, 0, 1, 2, 3, 5)
		for i := 0; i < lead && rng.Chance(1, 2); i++ {
			o.Names = append(o.Names, "..")
		}
		for i := 0; i < n; i++ {
			s, h := name(rng, 30, depth)
			if h {
				*hostiles++
			}
			o.Names = append(o.Names, s)
		}
		if len(o.Names) > 16 {
			o.Names = o.Names[:16]
		}
		return o
	case k < 55:
		s, h := name(rng, 35, depth)
		if h {
			*hostiles++
		}
		o := drv.Op{Kind: "create", Fid: pickFid(rng), Name: s, Perm: uint32(rng.Intn(512)), Mode: uint8(rng.Pick(0, 1, 2, 3, 0x10, 0x11, 0x12, 0x13, 0x40, int(rng.Intn(256))))}
		switch rng.Intn(12) {
		case 0, 1, 2, 3, 4:
			o.Perm |= 0x80000000
			if rng.Chance(2, 3) {
				o.Perm |= 0o700
			}
		case 5:
			o.Perm |= 0x02000000
		case 6:
			o.Perm |= 0x00200000
		case 7:
			o.Perm |= 0x00800000
		default:
			if rng.Chance(2, 3) {
				o.Perm |= 0o600
			}
		}
		return o
	case k < 72:
		s, h := name(rng, 65, depth)
		if h {
			*hostiles++
		}
		o := drv.Op{Kind: "wstat", Fid: pickFid(rng), Name: s, WMode: 0xFFFFFFFF, WLen: ^uint64(0)}
		if rng.Chance(1, 8) {
			o.Name = ""
		}
		if rng.Chance(1, 5) {
			o.WMode = uint32(rng.Intn(512))
			if rng.Chance(1, 4) {
				o.WMode |= 0x80000000
			}
		}
		if rng.Chance(1, 6) {
			o.WLen = rng.PickU64(0, 1, 5, 300, 1<<63, 1<<63+5, ^uint64(0)-1)
		}
		switch rng.Intn(12) {
		case 0:
			o.UID, o.GID = "root", "root"
		case 1:
			o.UID = "root"
		case 2:
			o.UID, o.GID = "nosuchuser_verif", "root"
		case 3:
			o.GID = "nosuchgroup_verif"
		}
		return o
	case k < 79:
		return drv.Op{Kind: "remove", Fid: pickFid(rng)}
	case k < 84:
		return drv.Op{Kind: "open", Fid: pickFid(rng), Mode: uint8(rng.Pick(0, 1, 2, 3, 0x10, 0x12, 0x41, int(rng.Intn(256))))}
	case k < 88:
		return drv.Op{Kind: "read", Fid: pickFid(rng), Count: rng.Pick(0, 1, 4, 64, 4096), Off: int64(rng.Pick(0, 0, 1, 3, 100, -1))}
	case k < 92:
		return drv.Op{Kind: "write", Fid: pickFid(rng), Data: rng.Bytes(rng.Pick(0, 1, 3, 17)), Off: int64(rng.Pick(0, 0, 2, 40, -1))}
	case k < 95:
		return drv.Op{Kind: "stat", Fid: pickFid(rng)}
	case k < 98:
		return drv.Op{Kind: "clunk", Fid: pickFid(rng)}
	default:
		return drv.Op{Kind: "readdir", Fid: pickFid(rng)}
	}
}

// setup: a session that starts with a small tree and fids at several depths.
func setupOps(rng *prng.R) []drv.Op {
	ops := []drv.Op{{Kind: "attach", Fid: 0}}
	if rng.Chance(1, 3) {
		ops[0].Aname = anames[rng.Intn(len(anames))]
	}
	nochange := func(name string) drv.Op {
		return drv.Op{Kind: "wstat", Fid: 0, Name: name, WMode: 0xFFFFFFFF, WLen: ^uint64(0)}
	}
	d := uint32(0x80000000 | 0o755)
	// attacks on the root itself while the export is EMPTY (rmdir / rename of an
	// empty directory would succeed on the host if ufs let them through)
	switch rng.Intn(14) {
	case 0: // fresh attach
		return append(ops, drv.Op{Kind: "remove", Fid: 0})
	case 1: // a clone of the root
		return append(ops, drv.Op{Kind: "walk", Fid: 0, NewFid: 1}, drv.Op{Kind: "remove", Fid: 1})
	case 2: // a fid walked back to the root with "..", export emptied again first
		return append(ops,
			drv.Op{Kind: "walk", Fid: 0, NewFid: 1},
			drv.Op{Kind: "create", Fid: 1, Name: "a", Perm: d, Mode: 0},
			drv.Op{Kind: "walk", Fid: 1, NewFid: 2, Names: []string{".."}},
			drv.Op{Kind: "remove", Fid: 1},
			drv.Op{Kind: "remove", Fid: 2})
	case 3: // rename of the empty root: to a sibling, into the outside directory, onto itself
		return append(ops, nochange([]string{"x", "../x", "../outside/x", "..", ".", "../export2", "a/b"}[rng.Intn(7)]),
			drv.Op{Kind: "remove", Fid: 0})
	}
	if rng.Chance(1, 8) {
		return ops
	}
	// fid 1: /a (dir), fid 2: /a/b (dir), fid 3: /a/b/c (dir or file), fid 4: /f (file)
	ops = append(ops,
		drv.Op{Kind: "walk", Fid: 0, NewFid: 1},
		drv.Op{Kind: "create", Fid: 1, Name: "a", Perm: d, Mode: 0},
		drv.Op{Kind: "walk", Fid: 1, NewFid: 2},
		drv.Op{Kind: "create", Fid: 2, Name: "b", Perm: d, Mode: 0})
	if rng.Bool() {
		ops = append(ops, drv.Op{Kind: "walk", Fid: 2, NewFid: 3})
		if rng.Bool() {
			ops = append(ops, drv.Op{Kind: "create", Fid: 3, Name: "c", Perm: d, Mode: 0})
		} else {
			ops = append(ops, drv.Op{Kind: "create", Fid: 3, Name: "c", Perm: 0o644, Mode: 2},
				drv.Op{Kind: "write", Fid: 3, Data: []byte("inside-c"), Off: 0})
		}
	}
	if rng.Chance(1, 5) {
		// a fid with an open file whose file is removed through another fid, then
		// removed itself: the Tremove fails, the open file must be released all the same
		nm := append(append([]string{}, plain...), dotted...)[rng.Intn(len(plain)+len(dotted))]
		ops = append(ops, drv.Op{Kind: "walk", Fid: 0, NewFid: 5},
			drv.Op{Kind: "create", Fid: 5, Name: nm, Perm: 0o644, Mode: 2},
			drv.Op{Kind: "walk", Fid: 0, NewFid: 9, Names: []string{nm}},
			drv.Op{Kind: "remove", Fid: 9},
			drv.Op{Kind: "remove", Fid: 5})
	}
	if rng.Bool() {
		ops = append(ops, drv.Op{Kind: "walk", Fid: 0, NewFid: 4},
			drv.Op{Kind: "create", Fid: 4, Name: "f", Perm: 0o600, Mode: 1},
			drv.Op{Kind: "write", Fid: 4, Data: []byte("inside-f"), Off: 0})
	}
	return ops
}

func main() {
	if os.Getenv("VERIF_C15_CHILD") != "" {
		relChild()
		return
	}
	r := rep.Open()
	defer r.Close()
	r.Rule = "each case is one ufs session of up to 70 calls on a fresh sandbox whose server is created from one of 8 equivalent spellings of the export path (clean, trailing '/', '/.', '//', 'x/../export'): a short set-up (fids at depth 0..3, or - 4 in 14 - Remove / WStat-rename of a root fid while the export is empty, from a fresh attach, a clone and a fid walked back with '..') followed by random Attach/Walk/Create/WStat/Remove/Open/Read/Write/Stat/Clunk calls on fids 0..5, 9 and NOFID; ~30% of walk names, ~35% of create names and ~65% of wstat names are hostile ('..', '.', '', embedded / and \\, absolute, ../ chains longer than the depth, NUL, 255/256/4096-byte names, names of the sandbox's own outside/ directory). Plain names include legal dotted ones ('notes..txt', '..hidden', '...', '.a'); Tattach carries benign and hostile anames ('..', '../outside', 'sub/../..', NUL, 5000 bytes) which ufs must ignore; one session in five removes an open fid's file through a second fid and then Tremoves the first (descriptor-leak oracle over /proc/self/fd). A case is non-trivial when it contains at least one hostile name; distinct by canonical case text. Before the sessions: fServer.fullPath, FileRef.fullPath and path.Dir on every string of length <= 6 over {/ . a \\} for six export roots, three of them relative (exhaustive grid); and, in child processes, servers created from relative roots under a removed working directory (read-only calls, all must fail) and under a live one (must behave exactly like the absolute spelling)."
	rng := prng.New(r.Seed)

	top, err := os.MkdirTemp("", "verif-c15-")
	if err != nil {
		panic(err)
	}
	cleanup := func() { os.RemoveAll(top) }
	defer cleanup()
	sig := make(chan os.Signal, 1)
	signal.Notify(sig, syscall.SIGINT, syscall.SIGTERM, syscall.SIGHUP)
	go func() { <-sig; cleanup(); os.Exit(3) }()
	defer func() {
		if p := recover(); p != nil {
			cleanup()
			panic(p)
		}
	}()

	gridCases(r)
	relRoots(r, top)

	nseq := r.N(500, 10000)
	totalHostile, hostileAccepted, opsTotal, escapes := 0, 0, 0, 0
	spellings := map[int]int{}
	rootRemoves := 0
	maxDepth := 0
	for i := 0; i < nseq; i++ {
		crng := rng.Fork()
		umask := crng.Pick(0, 0o22, 0o77, 0o27)
		ops := setupOps(crng)
		hostiles := 0
		n := crng.Range(20, 60)
		for j := 0; j < n; j++ {
			ops = append(ops, genOp(crng, &hostiles))
		}
		totalHostile += hostiles
		opsTotal += len(ops)

		sb, err := drv.NewSandbox(top, false)
		if err != nil {
			panic(err)
		}
		old := syscall.Umask(umask)
		spelling := crng.Intn(drv.NSpellings)
		spellings[spelling]++
		sess := drv.NewSess(sb.Spelling(spelling))
		before := sb.OutsideSnapshot()
		sb.Events() // the snapshot itself reads S/outside: drop those events

		// (root K): which spelling of the export path the server was created from; the
		// model's Base is the cleaned path, so the item changes nothing there
		times := drv.NewTimeOracle(sb.Export)
		caseL := []sx.S{sx.Sym("seq"), sx.I(int64(umask)), sx.L(sx.Sym("root"), sx.I(int64(spelling)))}
		obsL := []sx.S{sx.Sym("obs")}
		prevTree := ""
		for _, o := range ops {
			caseL = append(caseL, o.Sexp())
		}
		c := sx.List(caseL)
		branch := "plain"
		for oi, o := range ops {
			if o.Kind == "remove" {
				for _, f := range sess.Fids() {
					if f.Fid == o.Fid && f.Path == "/" {
						rootRemoves++
					}
				}
			}
			res, data := sess.Do(o)
			if sess.Dead != "" {
				r.Fail("ufs.session."+o.Kind+".dead", fmt.Sprintf("op %d %s: %s", oi, sx.String(o.Sexp()), sess.Dead), c, nil)
			}
			fids := sess.Fids()
			tree := drv.Tree(sb.Export, false)
			ts := drv.TreeSexp(tree)
			tstr := sx.String(ts)
			if tstr == prevTree {
				ts = sx.Sym("same")
			}
			prevTree = tstr
			obsL = append(obsL, sx.L(res, drv.FidsSexp(fids), ts))

			// ---- direct oracles, per operation
			what := fmt.Sprintf("op %d %s", oi, sx.String(o.Sexp()))
			if len(what) > 300 {
				what = what[:300] + "..."
			}
			if ev := sb.Events(); len(ev) > 0 {
				escapes++
				r.Fail("ufs."+o.Kind+".outside-touched", what+": host objects outside the export were accessed: "+strings.Join(ev, "; "), c, nil)
			}
			if msg := sb.RootIntact(); msg != "" {
				escapes++
				r.Fail("ufs."+o.Kind+".root", what+": "+msg, c, nil)
			}
			if bytes.Contains(data, []byte(drv.SentinelToken)) {
				escapes++
				r.Fail("ufs."+o.Kind+".outside-read", what+": returned the content of S/outside/sentinel", c, nil)
			}
			for _, tf := range times.After(sess, o, res, fids) {
				r.Fail("ufs."+o.Kind+"."+tf[0], what+": "+tf[1], c, nil)
			}
			nOpenFiles := 0
			for _, f := range fids {
				if f.Open == 2 {
					nOpenFiles++
				}
				if f.Path == "/" && f.QidPath != sb.ExportIno() {
					escapes++
					r.Fail("ufs."+o.Kind+".root-identity", fmt.Sprintf("%s: fid %d has internal path \"/\" but is bound to host inode %d, the export root is inode %d", what, f.Fid, f.QidPath, sb.ExportIno()), c, nil)
				}
			}
			if o.Kind == "clunk" || o.Kind == "remove" || o.Kind == "walk" {
				if fds := drv.FdsInto(sb.S); len(fds) > nOpenFiles {
					r.Fail("ufs.fd-leak", fmt.Sprintf("%s: %d descriptors into the sandbox are open but only %d fids have a file open: %v", what, len(fds), nOpenFiles, fds), c, nil)
				}
			}
			for _, f := range fids {
				if !drv.Canonical(f.Path) {
					r.Fail("ufs."+o.Kind+".noncanonical-path", fmt.Sprintf("%s: fid %d now has internal path %q", what, f.Fid, f.Path), c, nil)
				}
				if d := strings.Count(f.Path, "/"); f.Path != "/" && d > maxDepth {
					maxDepth = d
				}
			}
			for _, sc := range sess.TakeSpy() {
				switch sc.Kind {
				case "walk":
					if !drv.ValidNames(sc.Names) {
						r.Fail("sfilesys.Walk.filter", fmt.Sprintf("%s: names %q reached FileRef.Walk", what, sc.Names), c, nil)
					}
				case "create":
					if sc.Names[0] == "." || sc.Names[0] == ".." {
						r.Fail("sfilesys.Create.filter", fmt.Sprintf("%s: name %q reached FileRef.Create", what, sc.Names[0]), c, nil)
					}
				}
			}
			if res != drv.SErr && hostileOp(o) {
				hostileAccepted++
				branch = "hostile-accepted"
			}
		}
		sess.Close()
		if fds := drv.FdsInto(sb.S); len(fds) > 0 && sess.Dead == "" {
			r.Fail("ufs.fd-leak", fmt.Sprintf("after the session was stopped %d descriptors into the sandbox are still open: %v", len(fds), fds), c, nil)
		}
		if ev := sb.Events(); len(ev) > 0 {
			r.Fail("ufs.stop.outside-touched", "closing the session touched: "+strings.Join(ev, "; "), c, nil)
		}
		after := sb.OutsideSnapshot()
		intact := after == before && sb.RootIntact() == ""
		if after != before {
			escapes++
			r.Fail("ufs.outside-modified", "S/outside differs after the session:\nbefore:\n"+before+"after:\n"+after, c, nil)
		}
		final := drv.Tree(sb.Export, true)
		obsL = append(obsL, sx.L(sx.Sym("final"), drv.ContentSexp(final), sx.L(sx.Sym("outside"), sx.Bool(intact))))
		if branch == "plain" && hostiles > 0 {
			branch = "hostile-all-rejected"
		}
		r.Case(c, sx.List(obsL), branch, hostiles > 0)
		if len(r.Samples) < 3 {
			cs := sx.String(c)
			if len(cs) > 700 {
				cs = cs[:700] + " ...)"
			}
			r.Samples = append(r.Samples, cs)
		}
		syscall.Umask(old)
		sb.Remove()
	}
	r.Extra["sequences"] = nseq
	r.Extra["operations"] = opsTotal
	r.Extra["hostile_names"] = totalHostile
	r.Extra["ops_with_hostile_name_accepted"] = hostileAccepted
	r.Extra["max_depth_reached"] = maxDepth
	r.Extra["escapes_observed"] = escapes
	r.Extra["removes_attempted_on_a_root_fid"] = rootRemoves
	r.Extra["sessions_by_root_spelling"] = spellings
}

// gridCases: fServer.fullPath / FileRef.fullPath (the only constructors of host
// paths) and path.Dir on every string of length <= 6 over {/ . a \}, for
// three export roots.
func gridCases(r *rep.Report) {
	sym := []byte{'/', '.', 'a', '\\'}
	var strs []string
	var gens func(cur []byte, depth int)
	gens = func(cur []byte, depth int) {
		strs = append(strs, string(cur))
		if depth == 0 {
			return
		}
		for _, a := range sym {
			gens(append(cur, a), depth-1)
		}
	}
	gens(nil, 6)
	// absolute roots and relative ones (Base = Clean(root), whatever the working directory)
	for _, root := range []string{"/S/export", "/", "/b//x/../y/", "export", "", "./x/../e/"} {
		fs := ufs.NewServer(context.Background(), root)
		base := filepath.Clean(root)
		for _, p := range strs {
			c := sx.L(sx.Sym("fullpath"), sx.Str(root), sx.Str(p))
			hp, err := ufs.VerifFullPath(fs, p)
			if err != nil {
				r.Case(c, sx.L(sx.Sym("err")), "fullpath:err", p != "")
				if drv.Canonical(p) {
					r.Fail("ufs.fullPath.reject", fmt.Sprintf("fullPath(%q) with Base %q rejected a canonical internal path", p, base), c, nil)
				}
			} else {
				r.Case(c, sx.L(sx.Sym("ok"), sx.Str(hp)), "fullpath:ok", p != "")
				inside := hp == base || strings.HasPrefix(hp, strings.TrimSuffix(base, "/")+"/") || !filepath.IsAbs(root)
				if !drv.Canonical(p) || !inside || strings.Contains(hp+"/", "/../") {
					r.Fail("ufs.fullPath.accept", fmt.Sprintf("fullPath(%q) with Base %q = %q: accepted a non-canonical path or left the base", p, base, hp), c, nil)
				}
			}
			if drv.Canonical(p) {
				c = sx.L(sx.Sym("reffull"), sx.Str(root), sx.Str(p))
				r.Case(c, sx.Str(ufs.VerifRefFullPath(fs, p)), "reffull", true)
			}
		}
	}
	for _, p := range strs {
		r.Case(sx.L(sx.Sym("dir"), sx.Str(p)), sx.Str(path.Dir(p)), "path.Dir", p != "")
	}
	r.Extra["grid_strings"] = len(strs)
}

// hostileOp: the op carries a name that is not a plain single component.
func hostileOp(o drv.Op) bool {
	isPlain := func(s string) bool {
		for _, p := range plain {
			if s == p {
				return true
			}
		}
		for _, p := range dotted {
			if s == p {
				return true
			}
		}
		return false
	}
	switch o.Kind {
	case "walk":
		for _, s := range o.Names {
			if !isPlain(s) {
				return true
			}
		}
	case "create":
		return !isPlain(o.Name)
	case "wstat":
		return o.Name != "" && !isPlain(o.Name)
	}
	return false
}
