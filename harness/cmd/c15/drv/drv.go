// Package drv drives a real ufs session (p9p.SFileSys over ufs.NewServer) on a
// throw-away sandbox directory and prints, per operation, the canonical
// observation the Coq model (Run/RunC15.v) prints for the same case.  Shared
// by the C15 and C19 harnesses.
package drv

import (
	"bytes"
	"context"
	"fmt"
	"os"
	"path/filepath"
	"sort"
	"strings"
	"syscall"
	"time"

	p9p "github.com/frobnitzem/go-p9p"
	"github.com/frobnitzem/go-p9p/ufs"

	"verifharness/internal/sx"
)

const NOFID = uint32(0xFFFFFFFF)

// Op is one session call.
type Op struct {
	Kind   string // attach walk open create read write stat wstat clunk remove readdir
	Fid    uint32
	NewFid uint32
	Names  []string
	Name   string // create / wstat
	Mode   uint8  // open / create
	Perm   uint32 // create
	Count  int
	Off    int64
	Data   []byte
	WMode  uint32 // wstat
	WLen   uint64
	UID    string
	GID    string
	Aname  string // attach: the file tree asked for (ufs serves one tree and ignores it)
	WMtime int64  // wstat: modification time asked for (seconds; 0 = the zero time.Time)
	Rel    string // hosttime: path below the export root whose times the HOST changes
	Secs   int64  // hosttime: the new modification time
}

// NameSexp prints a name as #hex, or - when it contains a long run of one byte -
// as (cat PART...) with PART = #hex | (rep BYTE COUNT), so that 4 KiB names stay
// short atoms (the Gallina S-expression reader is slow on long atoms).
func NameSexp(s string) sx.S {
	if len(s) < 48 {
		return sx.Str(s)
	}
	var parts []sx.S
	lit := []byte{}
	flush := func() {
		if len(lit) > 0 {
			parts = append(parts, sx.B(append([]byte{}, lit...)))
			lit = lit[:0]
		}
	}
	for i := 0; i < len(s); {
		j := i
		for j < len(s) && s[j] == s[i] {
			j++
		}
		if j-i >= 24 {
			flush()
			parts = append(parts, sx.L(sx.Sym("rep"), sx.I(int64(s[i])), sx.I(int64(j-i))))
		} else {
			lit = append(lit, s[i:j]...)
		}
		i = j
	}
	flush()
	return sx.List(append([]sx.S{sx.Sym("cat")}, parts...))
}

func NamesSexp(ns []string) sx.S {
	l := make([]sx.S, len(ns))
	for i, s := range ns {
		l[i] = NameSexp(s)
	}
	return sx.List(l)
}

func (o Op) Sexp() sx.S {
	f := sx.U(uint64(o.Fid))
	switch o.Kind {
	case "attach":
		return sx.L(sx.Sym("attach"), f, NameSexp(o.Aname))
	case "stat", "clunk", "remove", "readdir":
		return sx.L(sx.Sym(o.Kind), f)
	case "walk":
		return sx.L(sx.Sym("walk"), f, sx.U(uint64(o.NewFid)), NamesSexp(o.Names))
	case "open":
		return sx.L(sx.Sym("open"), f, sx.U(uint64(o.Mode)))
	case "create":
		return sx.L(sx.Sym("create"), f, NameSexp(o.Name), sx.U(uint64(o.Perm)), sx.U(uint64(o.Mode)))
	case "read":
		return sx.L(sx.Sym("read"), f, sx.I(int64(o.Count)), sx.I(o.Off))
	case "write":
		return sx.L(sx.Sym("write"), f, sx.B(o.Data), sx.I(o.Off))
	case "wstat":
		l := []sx.S{sx.Sym("wstat"), f, NameSexp(o.Name), sx.U(uint64(o.WMode)), sx.U(o.WLen), sx.Str(o.UID), sx.Str(o.GID)}
		if o.WMtime != 0 {
			l = append(l, sx.I(o.WMtime)) // ufs ignores times in WStat; the model does not read this item
		}
		return sx.List(l)
	case "hosttime":
		// not a session call: the host (os.Chtimes) changes a file's times; the model skips it
		return sx.L(sx.Sym("hosttime"), sx.Str(o.Rel), sx.I(o.Secs))
	}
	panic("bad op kind " + o.Kind)
}

// ---------------------------------------------------------------- sandbox

const SentinelToken = "SENTINEL"

// Sandbox is S/{export,outside,twin}; S is a fresh mktemp -d directory.
type Sandbox struct {
	S, Export, Outside, Twin string
	ino                      uint64 // inode of Export at creation
	inofd                    int
	watchS, watchOut         int
}

func NewSandbox(parent string, withTwin bool) (*Sandbox, error) {
	s, err := os.MkdirTemp(parent, "sb")
	if err != nil {
		return nil, err
	}
	sb := &Sandbox{S: s, Export: filepath.Join(s, "export"), Outside: filepath.Join(s, "outside"), inofd: -1}
	old := syscall.Umask(0)
	defer syscall.Umask(old)
	if err := os.Mkdir(sb.Export, 0o755); err != nil {
		return nil, err
	}
	if err := os.Mkdir(sb.Outside, 0o755); err != nil {
		return nil, err
	}
	if err := os.WriteFile(filepath.Join(sb.Outside, "sentinel"), []byte(SentinelToken), 0o644); err != nil {
		return nil, err
	}
	if withTwin {
		sb.Twin = filepath.Join(s, "twin")
		if err := os.Mkdir(sb.Twin, 0o755); err != nil {
			return nil, err
		}
	}
	var st syscall.Stat_t
	if err := syscall.Stat(sb.Export, &st); err != nil {
		return nil, err
	}
	sb.ino = st.Ino
	// inotify: any event at all below outside; structural events on S itself
	fd, err := syscall.InotifyInit1(syscall.IN_NONBLOCK | syscall.IN_CLOEXEC)
	if err == nil {
		sb.inofd = fd
		sb.watchOut, _ = syscall.InotifyAddWatch(fd, sb.Outside, syscall.IN_ALL_EVENTS)
		sb.watchS, _ = syscall.InotifyAddWatch(fd, sb.S, syscall.IN_CREATE|syscall.IN_DELETE|syscall.IN_MOVED_FROM|syscall.IN_MOVED_TO|syscall.IN_DELETE_SELF|syscall.IN_MOVE_SELF)
	}
	return sb, nil
}

func (sb *Sandbox) Remove() {
	if sb.inofd >= 0 {
		syscall.Close(sb.inofd)
		sb.inofd = -1
	}
	// directories may have been chmod-ed to 0; we are root, RemoveAll copes
	os.RemoveAll(sb.S)
}

// ExportIno is the inode number of the export root when the sandbox was made.
func (sb *Sandbox) ExportIno() uint64 { return sb.ino }

// FdsInto lists the descriptors of this process that refer to objects in or
// below dir (by /proc/self/fd; unlinked files keep their old path there).
func FdsInto(dir string) []string {
	ents, err := os.ReadDir("/proc/self/fd")
	if err != nil {
		return nil
	}
	var out []string
	for _, e := range ents {
		l, err := os.Readlink("/proc/self/fd/" + e.Name())
		if err != nil {
			continue
		}
		if l == dir || strings.HasPrefix(l, dir+"/") || strings.HasPrefix(l, dir+" (deleted)") {
			out = append(out, e.Name()+"->"+l)
		}
	}
	return out
}

// Events returns a description of every inotify event since the last call
// (events in outside, structural changes of S).  Empty = nothing happened.
func (sb *Sandbox) Events() []string {
	if sb.inofd < 0 {
		return nil
	}
	var out []string
	buf := make([]byte, 16384)
	for {
		n, err := syscall.Read(sb.inofd, buf)
		if n <= 0 || err != nil {
			break
		}
		off := 0
		for off+syscall.SizeofInotifyEvent <= n {
			wd := int32(uint32(buf[off]) | uint32(buf[off+1])<<8 | uint32(buf[off+2])<<16 | uint32(buf[off+3])<<24)
			mask := uint32(buf[off+4]) | uint32(buf[off+5])<<8 | uint32(buf[off+6])<<16 | uint32(buf[off+7])<<24
			l := int(uint32(buf[off+12]) | uint32(buf[off+13])<<8 | uint32(buf[off+14])<<16 | uint32(buf[off+15])<<24)
			name := strings.TrimRight(string(buf[off+16:off+16+l]), "\x00")
			where := "S"
			if int(wd) == sb.watchOut {
				where = "outside"
			}
			out = append(out, fmt.Sprintf("%s/%s mask=%#x", where, name, mask))
			off += syscall.SizeofInotifyEvent + l
		}
	}
	return out
}

// RootIntact: the export root is still the same directory at the same place.
func (sb *Sandbox) RootIntact() string {
	var st syscall.Stat_t
	if err := syscall.Lstat(sb.Export, &st); err != nil {
		return "export root is gone: " + err.Error()
	}
	if st.Ino != sb.ino || st.Mode&syscall.S_IFMT != syscall.S_IFDIR {
		return fmt.Sprintf("export root is a different object now (ino %d -> %d, mode %#o)", sb.ino, st.Ino, st.Mode)
	}
	ents, err := os.ReadDir(sb.S)
	if err != nil {
		return "cannot list sandbox: " + err.Error()
	}
	var names []string
	for _, e := range ents {
		names = append(names, e.Name())
	}
	want := "export,outside"
	if sb.Twin != "" {
		want = "export,outside,twin"
	}
	if strings.Join(names, ",") != want {
		return "sandbox entries are now " + strings.Join(names, ",")
	}
	return ""
}

// OutsideSnapshot: names, modes, sizes, content of everything below outside.
func (sb *Sandbox) OutsideSnapshot() string {
	var b strings.Builder
	filepath.Walk(sb.Outside, func(p string, info os.FileInfo, err error) error {
		if err != nil {
			fmt.Fprintf(&b, "%s: error %v\n", p, err)
			return nil
		}
		rel, _ := filepath.Rel(sb.Outside, p)
		fmt.Fprintf(&b, "%s %v %d %d", rel, info.Mode(), info.Size(), info.ModTime().UnixNano())
		if info.Mode().IsRegular() {
			c, _ := os.ReadFile(p)
			fmt.Fprintf(&b, " %x", c)
		}
		b.WriteByte('\n')
		return nil
	})
	return b.String()
}

// ---------------------------------------------------------------- tree dumps

type Node struct {
	Rel     string
	Dir     bool
	Mode    uint32
	Size    int64
	Content []byte
}

// Tree lists root itself (Rel "") and everything below it, depth first,
// children sorted by name.
func Tree(root string, withContent bool) []Node {
	var out []Node
	st, err := os.Lstat(root)
	if err != nil {
		return nil
	}
	out = append(out, Node{Rel: "", Dir: true, Mode: uint32(st.Mode() & 0o777)})
	var rec func(dir, rel string)
	rec = func(dir, rel string) {
		ents, err := os.ReadDir(dir)
		if err != nil {
			return
		}
		for _, e := range ents {
			info, err := e.Info()
			if err != nil {
				continue
			}
			r := e.Name()
			if rel != "" {
				r = rel + "/" + e.Name()
			}
			n := Node{Rel: r, Dir: info.IsDir(), Mode: uint32(info.Mode() & 0o777)}
			if !n.Dir {
				n.Size = info.Size()
				if withContent {
					n.Content, _ = os.ReadFile(filepath.Join(dir, e.Name()))
				}
			}
			out = append(out, n)
			if n.Dir {
				rec(filepath.Join(dir, e.Name()), r)
			}
		}
	}
	rec(root, "")
	return out
}

func TreeSexp(t []Node) sx.S {
	var l []sx.S
	for _, n := range t {
		l = append(l, sx.L(sx.Str(n.Rel), sx.Bool(n.Dir), sx.U(uint64(n.Mode)), sx.I(n.Size)))
	}
	return sx.List(l)
}

func ContentSexp(t []Node) sx.S {
	var l []sx.S
	for _, n := range t {
		if !n.Dir {
			l = append(l, sx.L(sx.Str(n.Rel), sx.B(n.Content)))
		}
	}
	return sx.List(l)
}

func TreesEqual(a, b []Node) string {
	if len(a) != len(b) {
		return fmt.Sprintf("%d entries vs %d", len(a), len(b))
	}
	for i := range a {
		x, y := a[i], b[i]
		if x.Rel != y.Rel || x.Dir != y.Dir || x.Mode != y.Mode || x.Size != y.Size || !bytes.Equal(x.Content, y.Content) {
			return fmt.Sprintf("entry %q: (dir %v mode %#o size %d content %x) vs %q (dir %v mode %#o size %d content %x)",
				x.Rel, x.Dir, x.Mode, x.Size, x.Content, y.Rel, y.Dir, y.Mode, y.Size, y.Content)
		}
	}
	return ""
}

// ---------------------------------------------------------------- spy

// SpyCall is one name-carrying call that reached the FileSys.
type SpyCall struct {
	Kind  string // walk | create | wstat
	Path  string // FileRef.Path of the receiver at the time of the call
	Names []string
}

type spy struct{ calls []SpyCall }

type spyFS struct {
	p9p.FileSys
	sp *spy
}

type spyEnt struct {
	*ufs.FileRef
	sp *spy
}

func (f spyFS) Attach(ctx context.Context, uname, aname string, af p9p.AuthFile) (p9p.Dirent, error) {
	ent, err := f.FileSys.Attach(ctx, uname, aname, af)
	if err != nil {
		return nil, err
	}
	return spyEnt{ent.(*ufs.FileRef), f.sp}, nil
}

func (e spyEnt) Walk(ctx context.Context, names ...string) ([]p9p.Qid, p9p.Dirent, error) {
	e.sp.calls = append(e.sp.calls, SpyCall{"walk", e.FileRef.Path, append([]string{}, names...)})
	q, d, err := e.FileRef.Walk(ctx, names...)
	if err != nil {
		return q, nil, err
	}
	return q, spyEnt{d.(*ufs.FileRef), e.sp}, nil
}

func (e spyEnt) Create(ctx context.Context, name string, perm uint32, mode p9p.Flag) (p9p.Dirent, p9p.File, error) {
	e.sp.calls = append(e.sp.calls, SpyCall{"create", e.FileRef.Path, []string{name}})
	d, f, err := e.FileRef.Create(ctx, name, perm, mode)
	if err != nil {
		return nil, nil, err
	}
	return spyEnt{d.(*ufs.FileRef), e.sp}, f, nil
}

func (e spyEnt) WStat(ctx context.Context, dir p9p.Dir) error {
	e.sp.calls = append(e.sp.calls, SpyCall{"wstat", e.FileRef.Path, []string{dir.Name}})
	return e.FileRef.WStat(ctx, dir)
}

// ---------------------------------------------------------------- session driver

type Sess struct {
	S        p9p.Session
	sp       *spy
	diroff   map[uint32]int64
	Dead     string    // non-empty once a call hung or panicked
	LastDirs []p9p.Dir // what the last successful stat (one entry) or readdir returned
}

// NSpellings is the number of equivalent spellings Spelling knows.
const NSpellings = 8

// Spelling returns the k-th spelling of the sandbox's export directory: all of
// them name S/export (filepath.Clean gives sb.Export), none is resolved through
// S/outside by the kernel unless the server hands the uncleaned text to it.
func (sb *Sandbox) Spelling(k int) string {
	switch k % NSpellings {
	case 1:
		return sb.Export + "/"
	case 2:
		return sb.Export + "/."
	case 3:
		return sb.S + "//export"
	case 4:
		return sb.S + "/./export/"
	case 5:
		return sb.S + "/export/../export"
	case 6:
		return sb.Export + "//./"
	case 7:
		return sb.S + "/nosuch/../export/"
	}
	return sb.Export
}

// NewSess serves the directory named by root (any spelling of it) through a
// fresh session.
func NewSess(root string) *Sess {
	sp := &spy{}
	fs := spyFS{ufs.NewServer(context.Background(), root), sp}
	return &Sess{S: p9p.SFileSys(fs), sp: sp, diroff: map[uint32]int64{}}
}

// TakeSpy returns and clears the calls seen by the FileSys since the last call.
func (s *Sess) TakeSpy() []SpyCall {
	c := s.sp.calls
	s.sp.calls = nil
	return c
}

type FidState struct {
	Fid     uint32
	Path    string
	Open    int    // 0 not open, 1 directory stream, 2 file
	QidPath uint64 // the entry's Qid.Path: the host inode number newRef saw
}

// Fids reads the session's fid table through the verif hooks.
func (s *Sess) Fids() []FidState {
	tab, _ := p9p.VerifFidTable(s.S)
	var out []FidState
	for _, e := range tab {
		ent, file, ok := p9p.VerifFidEnt(s.S, e.Fid)
		if !ok || ent == nil {
			continue
		}
		st := FidState{Fid: uint32(e.Fid), QidPath: ent.Qid().Path}
		if se, isSpy := ent.(spyEnt); isSpy {
			st.Path = se.FileRef.Path
		} else if fr, isRef := ent.(*ufs.FileRef); isRef {
			st.Path = fr.Path
		}
		switch file.(type) {
		case nil:
			st.Open = 0
		case *p9p.Readdir:
			st.Open = 1
		default:
			st.Open = 2
		}
		out = append(out, st)
	}
	sort.Slice(out, func(i, j int) bool { return out[i].Fid < out[j].Fid })
	return out
}

func FidsSexp(f []FidState) sx.S {
	var l []sx.S
	for _, e := range f {
		l = append(l, sx.L(sx.U(uint64(e.Fid)), sx.Str(e.Path), sx.I(int64(e.Open))))
	}
	return sx.List(l)
}

// openKind: -1 fid not bound, 0 not open, 1 directory stream, 2 file
func (s *Sess) openKind(fid uint32) int {
	ent, file, ok := p9p.VerifFidEnt(s.S, p9p.Fid(fid))
	if !ok || ent == nil || fid == NOFID {
		return -1
	}
	switch file.(type) {
	case nil:
		return 0
	case *p9p.Readdir:
		return 1
	}
	return 2
}

func InfoSexp(name string, dir bool, mode uint32, size uint64) sx.S {
	if dir {
		size = 0
	}
	return sx.L(sx.Sym("info"), sx.Str(name), sx.Bool(dir), sx.U(uint64(mode)), sx.U(size))
}

func dirSexp(d p9p.Dir) sx.S {
	return InfoSexp(d.Name, d.Mode&p9p.DMDIR != 0, d.Mode&0o777, d.Length)
}

var (
	SErr        = sx.Sym("err")
	SOk         = sx.Sym("ok")
	SUnmodelled = sx.Sym("unmodelled")
)

func qidSexp(q p9p.Qid) sx.S { return sx.L(sx.Sym("qid"), sx.Bool(q.Type&p9p.QTDIR != 0)) }

// Do executes one operation on the real session and returns the canonical
// result.  Data read is also returned raw (for the sentinel oracle).
func (s *Sess) Do(o Op) (res sx.S, data []byte) {
	if s.Dead != "" {
		return sx.Sym("hang"), nil
	}
	type ret struct {
		res  sx.S
		data []byte
		pan  interface{}
	}
	ch := make(chan ret, 1)
	go func() {
		var r ret
		defer func() {
			if p := recover(); p != nil {
				r.pan = p
				r.res = sx.Sym("panic")
			}
			ch <- r
		}()
		r.res, r.data = s.do(o)
	}()
	select {
	case r := <-ch:
		if r.pan != nil {
			s.Dead = fmt.Sprintf("panic: %v", r.pan)
		}
		return r.res, r.data
	case <-time.After(60 * time.Second):
		s.Dead = "call did not return within 60 s"
		return sx.Sym("hang"), nil
	}
}

func (s *Sess) do(o Op) (sx.S, []byte) {
	ctx := context.Background()
	fid := p9p.Fid(o.Fid)
	switch o.Kind {
	case "attach":
		q, err := s.S.Attach(ctx, fid, p9p.NOFID, "u", o.Aname)
		if err != nil {
			return SErr, nil
		}
		return qidSexp(q), nil
	case "walk":
		qs, err := s.S.Walk(ctx, fid, p9p.Fid(o.NewFid), o.Names...)
		if err != nil {
			return SErr, nil
		}
		last := false
		if len(qs) > 0 {
			last = qs[len(qs)-1].Type&p9p.QTDIR != 0
		}
		if len(qs) == len(o.Names) && o.NewFid != o.Fid {
			delete(s.diroff, o.NewFid) // a fresh binding; an in-place walk keeps the fid's File
		}
		return sx.L(sx.Sym("walk"), sx.I(int64(len(qs))), sx.Bool(last)), nil
	case "open":
		q, _, err := s.S.Open(ctx, fid, p9p.Flag(o.Mode))
		if err != nil {
			return SErr, nil
		}
		s.diroff[o.Fid] = 0
		return qidSexp(q), nil
	case "create":
		q, _, err := s.S.Create(ctx, fid, o.Name, o.Perm, p9p.Flag(o.Mode))
		if err != nil {
			return SErr, nil
		}
		s.diroff[o.Fid] = 0
		return qidSexp(q), nil
	case "read":
		if s.openKind(o.Fid) == 1 {
			return SUnmodelled, nil // byte-offset reads of a directory stream: C17
		}
		buf := make([]byte, o.Count)
		n, err := s.S.Read(ctx, fid, buf, o.Off)
		if err != nil {
			return SErr, nil
		}
		return sx.L(sx.Sym("data"), sx.B(buf[:n])), buf[:n]
	case "readdir":
		switch s.openKind(o.Fid) {
		case -1:
			return SErr, nil // unknown fid
		case 1:
		default:
			return SUnmodelled, nil
		}
		var all []byte
		for {
			buf := make([]byte, 65536)
			n, err := s.S.Read(ctx, fid, buf, s.diroff[o.Fid])
			if err != nil {
				return SErr, nil
			}
			if n == 0 {
				break
			}
			s.diroff[o.Fid] += int64(n)
			all = append(all, buf[:n]...)
		}
		l := []sx.S{sx.Sym("list")}
		rd := bytes.NewReader(all)
		codec := p9p.NewCodec()
		var dirs []p9p.Dir
		for rd.Len() > 0 {
			var d p9p.Dir
			if err := p9p.DecodeDir(codec, rd, &d); err != nil {
				return sx.Sym("undecodable"), all
			}
			l = append(l, dirSexp(d))
			dirs = append(dirs, d)
		}
		s.LastDirs = dirs
		return sx.List(l), all
	case "write":
		n, err := s.S.Write(ctx, fid, o.Data, o.Off)
		if err != nil {
			return SErr, nil
		}
		return sx.L(sx.Sym("count"), sx.I(int64(n))), nil
	case "stat":
		d, err := s.S.Stat(ctx, fid)
		if err != nil {
			return SErr, nil
		}
		s.LastDirs = []p9p.Dir{d}
		return dirSexp(d), nil
	case "wstat":
		d := p9p.Dir{Name: o.Name, Mode: o.WMode, Length: o.WLen, UID: o.UID, GID: o.GID}
		if o.WMtime != 0 {
			d.ModTime = time.Unix(o.WMtime, 0)
		}
		if err := s.S.WStat(ctx, fid, d); err != nil {
			return SErr, nil
		}
		return SOk, nil
	case "clunk":
		delete(s.diroff, o.Fid)
		if err := s.S.Clunk(ctx, fid); err != nil {
			return SErr, nil
		}
		return SOk, nil
	case "remove":
		delete(s.diroff, o.Fid)
		if err := s.S.Remove(ctx, fid); err != nil {
			return SErr, nil
		}
		return SOk, nil
	}
	panic("bad op")
}

// Close clunks every fid still bound (closing host files).
func (s *Sess) Close() {
	if s.Dead != "" {
		return
	}
	s.S.Stop(nil)
}

// ---------------------------------------------------------------- oracles on internal state

// Canonical: the invariant ufs states for internal paths.
func Canonical(p string) bool {
	if !strings.HasPrefix(p, "/") || strings.Contains(p, "\\") {
		return false
	}
	if p == "/" {
		return true
	}
	for _, c := range strings.Split(p[1:], "/") {
		if c == "" || c == "." || c == ".." {
			return false
		}
	}
	return true
}

// SafeName: contains no separator, neither empty nor ".".
func SafeName(s string) bool { return s != "" && s != "." && !strings.ContainsAny(s, "/\\") }

// ValidNames: the lists the session may hand to Walk.
func ValidNames(ns []string) bool {
	lead := true
	for _, s := range ns {
		if !SafeName(s) {
			return false
		}
		if s == ".." {
			if !lead {
				return false
			}
		} else {
			lead = false
		}
	}
	return true
}

// ---------------------------------------------------------------- modification times

// EntStat asks the entry bound to fid for its Dir (the Info cached by newRef).
func (s *Sess) EntStat(fid uint32) (p9p.Dir, bool) {
	ent, _, ok := p9p.VerifFidEnt(s.S, p9p.Fid(fid))
	if !ok || ent == nil {
		return p9p.Dir{}, false
	}
	d, err := ent.Stat(context.Background())
	return d, err == nil
}

// TimeOracle compares the modification times ufs reports with the host's own,
// at the points where both were taken from the same state of the host: right
// after an operation bound a fid (newRef has just called os.Stat), and for
// listings against os.ReadDir taken right after the directory was opened.
// Whole seconds, as the wire carries them (uint32).  Access times are left
// out: the harness's own reads of the tree change them.
type TimeOracle struct {
	export string
	snap   map[uint32]map[string]uint32
	Checks int
}

func NewTimeOracle(export string) *TimeOracle {
	return &TimeOracle{export: export, snap: map[uint32]map[string]uint32{}}
}

// After is called after every operation with its result and the fid table;
// it returns (key suffix, text) pairs for every disagreement.
func (t *TimeOracle) After(s *Sess, o Op, res sx.S, fids []FidState) [][2]string {
	var out [][2]string
	ok := res != SErr && res != SUnmodelled
	find := func(fid uint32) *FidState {
		for i := range fids {
			if fids[i].Fid == fid {
				return &fids[i]
			}
		}
		return nil
	}
	fresh := uint32(NOFID)
	switch o.Kind {
	case "attach", "create":
		if ok {
			fresh = o.Fid
		}
	case "walk":
		if ok && !(len(o.Names) == 0 && o.NewFid == o.Fid) {
			fresh = o.NewFid
		}
	}
	switch o.Kind {
	case "clunk", "remove":
		delete(t.snap, o.Fid)
	case "walk":
		if ok && o.NewFid == o.Fid && len(o.Names) > 0 {
			delete(t.snap, o.Fid)
		}
	case "create":
		if ok {
			delete(t.snap, o.Fid)
		}
	}
	if fresh != NOFID {
		if f := find(fresh); f != nil {
			d, have := s.EntStat(fresh)
			hi, err := os.Lstat(filepath.Join(t.export, f.Path))
			if have && err == nil {
				t.Checks++
				if d.ModTime.Unix() != hi.ModTime().Unix() {
					out = append(out, [2]string{"mtime", fmt.Sprintf("fid %d was just bound to %q: its Dir carries modification time %d (%s), the host's os.Lstat says %d (%s)",
						fresh, f.Path, d.ModTime.Unix(), d.ModTime.UTC().Format(time.RFC3339), hi.ModTime().Unix(), hi.ModTime().UTC().Format(time.RFC3339))})
				}
			}
		}
	}
	if (o.Kind == "open" || o.Kind == "create") && ok {
		if f := find(o.Fid); f != nil && f.Open == 1 {
			m := map[string]uint32{}
			if ents, err := os.ReadDir(filepath.Join(t.export, f.Path)); err == nil {
				for _, e := range ents {
					if i, err := e.Info(); err == nil {
						m[e.Name()] = uint32(i.ModTime().Unix())
					}
				}
				t.snap[o.Fid] = m
			}
		}
	}
	if o.Kind == "readdir" && ok {
		if m := t.snap[o.Fid]; m != nil {
			for _, d := range s.LastDirs {
				if want, have := m[d.Name]; have {
					t.Checks++
					if uint32(d.ModTime.Unix()) != want {
						out = append(out, [2]string{"listing-mtime", fmt.Sprintf("listing read through fid %d: entry %q carries modification time %d, os.ReadDir taken when the directory was opened says %d",
							o.Fid, d.Name, uint32(d.ModTime.Unix()), want)})
					}
				}
			}
		}
	}
	return out
}
