// C10 harness: version negotiation.  (a) a raw client against ServeConn:
// proposals over a boundary-dense grid of msize values and version strings,
// or a first message that is not Tversion; followed by a maximal read request
// so that the msize the server adopted shows in the count its handler sees
// and in the size of the reply it emits.  (b) a raw server against CSession
// answering with every msize of the grid (and wrong replies); the adopted
// msize is read from Session.Version() and a maximal write is measured.
package main

import (
	"context"
	"encoding/binary"
	"fmt"
	"io"
	"log"
	"strings"
	"sync"
	"time"

	p9p "github.com/frobnitzem/go-p9p"

	"verifharness/internal/lconn"
	"verifharness/internal/prng"
	"verifharness/internal/rep"
	"verifharness/internal/sx"
	"verifharness/internal/wiregen"
)

var grid = []uint32{0, 1, 4, 7, 11, 18, 19, 20, 22, 23, 24, 25, 26, 27, 30, 34, 35, 64, 100, 255, 256, 1000, 4096, 8192, 65535, 65536, 65537, 70000,
	1 << 20, 1 << 24, 0x7fffffff, 0x80000000, 0xfffffffe, 0xffffffff}

func frameOf(body []byte) []byte {
	out := make([]byte, 4, 4+len(body))
	binary.LittleEndian.PutUint32(out, uint32(len(body)+4))
	return append(out, body...)
}

type recHandler struct {
	mu    sync.Mutex
	seen  []p9p.Message
	stops int
}

func (h *recHandler) Handle(ctx context.Context, msg p9p.Message) (p9p.Message, error) {
	h.mu.Lock()
	h.seen = append(h.seen, msg)
	h.mu.Unlock()
	switch m := msg.(type) {
	case p9p.MessageTread:
		return p9p.MessageRread{Data: make([]byte, m.Count)}, nil
	case p9p.MessageTopen:
		return p9p.MessageRopen{Qid: p9p.Qid{Type: p9p.QTFILE, Version: 1, Path: 2}, IOUnit: 0}, nil // 24 bytes on the wire
	case p9p.MessageTattach:
		return p9p.MessageRattach{Qid: p9p.Qid{Type: p9p.QTDIR, Path: 1}}, nil // 20 bytes
	case p9p.MessageTcreate:
		return p9p.MessageRcreate{Qid: p9p.Qid{Path: 3}, IOUnit: 0}, nil // 24 bytes
	case p9p.MessageTwrite:
		return p9p.MessageRwrite{Count: uint32(len(m.Data))}, nil // 11 bytes
	}
	return p9p.MessageRclunk{}, nil
}
func (h *recHandler) Stop(err error) error {
	h.mu.Lock()
	h.stops++
	h.mu.Unlock()
	return err
}

func splitFrames(b []byte) (frames [][]byte, ok bool) {
	for len(b) > 0 {
		if len(b) < 4 {
			return frames, false
		}
		l := int(binary.LittleEndian.Uint32(b))
		if l < 4 || l > len(b) {
			return frames, false
		}
		frames = append(frames, b[:l])
		b = b[l:]
	}
	return frames, true
}

func main() {
	log.SetOutput(io.Discard)
	r := rep.Open()
	defer r.Close()
	r.Rule = "server side: first frame = Tversion with msize from a 34-point grid (0..2^32-1, dense around 19..27 and 65536) x version strings, or a non-version / undecodable / oversize first frame; then a Tread with count 2^32-1, or (per msize) a Topen/Tattach/Tcreate/Tclunk whose fixed-size reply may exceed a tiny agreed msize; refused first frames also followed at once by a well-formed Tversion. client side: server answers Rversion with msize from the same grid x version strings, or Rerror / wrong type / garbage. Non-trivial: every handshake; distinct by canonical text."
	rng := prng.New(r.Seed)
	versions := []string{"9P2000", "9P2000", "9P2000", "9P2000.u", "9P2000.L", "", "unknown", "9p2000", strings.Repeat("x", 300)}

	// ---------------- (a) server side ----------------
	var cases [][]byte // first frames
	var labels []string
	for _, c := range grid {
		for vi, v := range versions {
			if vi > 2 && !r.Thorough() && rng.Chance(1, 2) {
				continue
			}
			fc := &p9p.Fcall{Type: p9p.Tversion, Tag: p9p.NOTAG, Message: p9p.MessageTversion{MSize: c, Version: v}}
			if rng.Chance(1, 10) {
				fc.Tag = p9p.Tag(rng.Intn(65536))
			}
			b, _ := wiregen.RefEncode(fc)
			cases = append(cases, frameOf(b))
			labels = append(labels, "tversion")
		}
	}
	for i := 0; i < r.N(60, 1500); i++ {
		t := wiregen.AllTypes[rng.Intn(len(wiregen.AllTypes))]
		if t == p9p.Tversion {
			continue
		}
		b, _ := wiregen.RefEncode(wiregen.GenFcall(rng, t, 200))
		cases = append(cases, frameOf(b))
		labels = append(labels, "not-version")
	}
	for i := 0; i < r.N(30, 600); i++ {
		switch rng.Intn(3) {
		case 0:
			cases = append(cases, frameOf(rng.Bytes(rng.Range(0, 30))))
			labels = append(labels, "garbage")
		case 1:
			cases = append(cases, []byte{byte(rng.Intn(4)), 0, 0, 0})
			labels = append(labels, "badsize")
		default:
			cases = append(cases, rng.Bytes(rng.Range(0, 3)))
			labels = append(labels, "short")
		}
	}
	tread, _ := wiregen.RefEncode(&p9p.Fcall{Type: p9p.Tread, Tag: 1, Message: p9p.MessageTread{Fid: 1, Offset: 0, Count: 0xffffffff}})
	// other requests whose fixed-size replies are longer than a tiny agreed msize (Ropen/Rcreate 24, Rattach 20 bytes)
	topen, _ := wiregen.RefEncode(&p9p.Fcall{Type: p9p.Topen, Tag: 1, Message: p9p.MessageTopen{Fid: 1, Mode: 0}})                                     // 12 bytes
	tattach, _ := wiregen.RefEncode(&p9p.Fcall{Type: p9p.Tattach, Tag: 1, Message: p9p.MessageTattach{Fid: 1, Afid: p9p.NOFID, Uname: "", Aname: ""}}) // 19 bytes
	tcreate, _ := wiregen.RefEncode(&p9p.Fcall{Type: p9p.Tcreate, Tag: 1, Message: p9p.MessageTcreate{Fid: 1, Name: "", Perm: 0, Mode: 0}})            // 18 bytes
	tclunk, _ := wiregen.RefEncode(&p9p.Fcall{Type: p9p.Tclunk, Tag: 1, Message: p9p.MessageTclunk{Fid: 1}})
	goodVersion, _ := wiregen.RefEncode(&p9p.Fcall{Type: p9p.Tversion, Tag: p9p.NOTAG, Message: p9p.MessageTversion{MSize: 8192, Version: "9P2000"}})
	for i, first := range cases {
		stream := append(append([]byte{}, first...), frameOf(tread)...)
		serverCase(r, stream, labels[i], "tread")
		if labels[i] == "tversion" {
			for fi, follow := range [][]byte{topen, tattach, tcreate, tclunk} {
				if (i+fi)%4 == 0 || r.Thorough() {
					serverCase(r, append(append([]byte{}, first...), frameOf(follow)...), labels[i], "other")
				}
			}
		} else if (labels[i] == "not-version" || (labels[i] == "garbage" && len(first) > 4 && first[4] != byte(p9p.Tversion))) && (i%2 == 0 || r.Thorough()) {
			// a refused first frame stays refused even when a well-formed version request follows at once
			serverCase(r, append(append(append([]byte{}, first...), frameOf(goodVersion)...), frameOf(tread)...), labels[i], "tread")
		}
	}

	// ---------------- (b) client side ----------------
	for _, s := range grid {
		for vi, v := range versions {
			if vi > 2 && !r.Thorough() && rng.Chance(1, 2) {
				continue
			}
			b, _ := wiregen.RefEncode(&p9p.Fcall{Type: p9p.Rversion, Tag: p9p.NOTAG, Message: p9p.MessageRversion{MSize: s, Version: v}})
			clientCase(r, frameOf(b), "rversion")
		}
	}
	for i := 0; i < r.N(60, 1500); i++ {
		t := wiregen.AllTypes[rng.Intn(len(wiregen.AllTypes))]
		if t == p9p.Rversion {
			continue
		}
		b, _ := wiregen.RefEncode(wiregen.GenFcall(rng, t, 200))
		clientCase(r, frameOf(b), "not-rversion")
	}
	for i := 0; i < r.N(30, 600); i++ {
		clientCase(r, frameOf(rng.Bytes(rng.Range(0, 30))), "garbage")
	}
}

func serverCase(r *rep.Report, stream []byte, label, follow string) {
	c := sx.L(sx.Sym("shake-server"), sx.I(int64(p9p.DefaultMSize)), sx.B(stream))
	var conn *lconn.Script
	var h *recHandler
	var err error
	for attempt := 0; attempt < 4; attempt++ {
		if label == "tversion" {
			conn = lconn.NewHeld([][]byte{append([]byte{}, stream...)})
		} else {
			conn = lconn.NewScript([][]byte{append([]byte{}, stream...)})
		}
		h = &recHandler{}
		done := make(chan error, 1)
		returned := make(chan struct{})
		go func() { e := p9p.ServeConn(context.Background(), conn, h); close(returned); done <- e }()
		// the peer stays connected until the server has answered (two frames), has returned, or 3 s passed
		go func(cn *lconn.Script) {
			defer cn.Close()
			for i := 0; i < 600; i++ {
				if fr, _ := splitFrames(cn.WrittenCopy()); len(fr) >= 2 {
					return
				}
				select {
				case <-returned:
					return
				case <-time.After(5 * time.Millisecond):
				}
			}
		}(conn)
		select {
		case err = <-done:
		case <-time.After(60 * time.Second):
			r.Case(c, sx.L(sx.Sym("hang")), "server:hang", true)
			r.Fail("version.ServeConn.hang", "ServeConn did not return after the scripted connection reached end of stream", c, nil)
			return
		}
		if err != nil && strings.Contains(err.Error(), "deadline exceeded") {
			continue // the 1 s negotiation window elapsed on a loaded machine: retry
		}
		break
	}
	accepted := !(err != nil && strings.HasPrefix(err.Error(), "error negotiating version"))
	frames, wellFormed := splitFrames(conn.Written)
	var reply []byte
	if len(frames) > 0 {
		reply = frames[0]
	}
	// what the handler saw: the clamped count reveals the adopted msize
	seen := sx.Sym("none")
	h.mu.Lock()
	nseen := len(h.seen)
	if nseen > 0 {
		if m, ok := h.seen[0].(p9p.MessageTread); ok {
			seen = sx.L(sx.Sym("tread"), sx.U(uint64(m.Count)))
		} else {
			seen = sx.Sym("other")
		}
	}
	stops := h.stops
	h.mu.Unlock()
	r.Case(c, sx.L(sx.B(reply), sx.Bool(accepted), seen), "server:"+label+fmt.Sprintf(":%v", accepted), true)

	// ---- direct oracles ----
	key := "version.server."
	if !wellFormed {
		r.Fail(key+"frames", "the server wrote bytes that are not a sequence of frames", c, nil)
	}
	if label != "tversion" {
		if accepted || nseen > 0 {
			r.Fail(key+"accepted-nonversion", fmt.Sprintf("a connection whose first message is %s was served (dispatched %d)", label, nseen), c, nil)
		}
		return
	}
	var first p9p.Fcall
	l := int(binary.LittleEndian.Uint32(stream))
	if e := p9p.NewCodec().Unmarshal(stream[4:l], &first); e != nil {
		return
	}
	prop := first.Message.(p9p.MessageTversion).MSize
	want := prop
	if want > p9p.DefaultMSize {
		want = p9p.DefaultMSize
	}
	if l > p9p.DefaultMSize {
		if accepted {
			r.Fail(key+"oversize-accepted", "a version request longer than the server's msize was accepted", c, nil)
		}
		return
	}
	if want < 19 { // cannot even carry the version reply
		if accepted || nseen > 0 || len(conn.Written) > 0 {
			r.Fail(key+"tiny-msize-accepted", fmt.Sprintf("proposed msize %d cannot carry the 19-byte version reply, yet accepted=%v written=%d dispatched=%d", prop, accepted, len(conn.Written), nseen), c, nil)
		}
		return
	}
	if !accepted {
		r.Fail(key+"refused", fmt.Sprintf("a valid version request (msize %d) was refused: %v", prop, err), c, nil)
		return
	}
	var rv p9p.Fcall
	if len(reply) < 4 || p9p.NewCodec().Unmarshal(reply[4:], &rv) != nil {
		r.Fail(key+"reply", "the version reply does not decode", c, nil)
		return
	}
	m, ok := rv.Message.(p9p.MessageRversion)
	if !ok {
		r.Fail(key+"reply", "the reply to Tversion is not Rversion", c, nil)
		return
	}
	if m.MSize != want {
		r.Fail(key+"msize", fmt.Sprintf("client proposed %d, server (max %d) answered %d; expected the minimum %d", prop, p9p.DefaultMSize, m.MSize, want), c, nil)
	}
	for i, f := range frames {
		if uint32(len(f)) > want {
			r.Fail(key+"frame-exceeds-agreed", fmt.Sprintf("frame %d written by the server is %d bytes, agreed msize %d", i, len(f), want), c, nil)
		}
	}
	if want >= 23 && follow == "tread" { // the 23-byte read request fits: it must be served with the count clamped to msize-11 and answered by a frame of exactly msize
		if nseen != 1 {
			r.Fail(key+"exact-fit", fmt.Sprintf("after agreeing on msize %d the server dispatched %d requests for a 23-byte read request", want, nseen), c, nil)
		} else if tr, ok := h.seen[0].(p9p.MessageTread); !ok || uint64(tr.Count)+11 != uint64(want) {
			r.Fail(key+"clamp", fmt.Sprintf("agreed msize %d but the handler saw %v", want, h.seen[0]), c, nil)
		} else if len(frames) != 2 || uint32(len(frames[1])) != want {
			r.Fail(key+"maximal-reply", fmt.Sprintf("agreed msize %d: expected a maximal read reply of exactly that size, got %d frames", want, len(frames)), c, nil)
		}
	}
	if stops != 1 {
		r.Fail(key+"stop", fmt.Sprintf("Stop ran %d times", stops), c, nil)
	}
}

func clientCase(r *rep.Report, reply []byte, label string) {
	c := sx.L(sx.Sym("shake-client"), sx.I(int64(p9p.DefaultMSize)), sx.B(reply))
	conn := lconn.NewHeld([][]byte{append([]byte{}, reply...)}) // the server stays connected (and silent) after its reply
	defer conn.Close()
	ctx, cancel := context.WithCancel(context.Background())
	type res struct {
		s   p9p.Session
		err error
	}
	done := make(chan res, 1)
	go func() { s, err := p9p.CSession(ctx, conn); done <- res{s, err} }()
	var got res
	select {
	case got = <-done:
	case <-time.After(60 * time.Second):
		cancel()
		r.Case(c, sx.L(sx.Sym("hang")), "client:hang", true)
		r.Fail("version.CSession.hang", "CSession did not return", c, nil)
		return
	}
	ok := got.err == nil
	msize := p9p.DefaultMSize
	if ok {
		msize, _ = got.s.Version()
	}
	// the bytes of the version request: written before anything else
	time.Sleep(time.Millisecond)
	frames, _ := splitFrames(append([]byte{}, conn.Written...))
	var sent []byte
	if len(frames) > 0 {
		sent = frames[0]
	}
	// a maximal write through the session: its frame shows whether the client honours the adopted msize
	wlen := -1
	if ok {
		wctx, wcancel := context.WithCancel(ctx)
		go got.s.Write(wctx, 7, make([]byte, 100000), 0)
		for i := 0; i < 1000; i++ {
			if fr, _ := splitFrames(conn.WrittenCopy()); len(fr) >= 2 {
				wlen = len(fr[1])
				break
			}
			time.Sleep(2 * time.Millisecond)
			if i == 100 && msize < 23 {
				break // nothing can be sent under such an msize
			}
		}
		wcancel()
	}
	r.Case(c, sx.L(sx.B(sent), sx.Bool(ok), sx.I(int64(msize)), sx.I(int64(wlen))), fmt.Sprintf("client:%s:%v", label, ok), true)
	cancel()
	if ok && msize >= 24 && wlen != msize && msize <= 100023 {
		r.Fail("version.client.maximal-write", fmt.Sprintf("after adopting msize %d a 100000-byte write went out as a frame of %d bytes", msize, wlen), c, nil)
	}

	key := "version.client."
	if label != "rversion" {
		if ok {
			var rv p9p.Fcall
			if p9p.NewCodec().Unmarshal(reply[4:], &rv) == nil {
				if _, isV := rv.Message.(p9p.MessageRversion); isV {
					return
				}
			}
			r.Fail(key+"accepted-nonversion", "the client accepted a reply that is not Rversion", c, nil)
		}
		return
	}
	var rv p9p.Fcall
	if p9p.NewCodec().Unmarshal(reply[4:], &rv) != nil {
		return
	}
	m := rv.Message.(p9p.MessageRversion)
	if len(reply) > p9p.DefaultMSize {
		return
	}
	if ok {
		want := int(m.MSize)
		if want > p9p.DefaultMSize {
			want = p9p.DefaultMSize
		}
		if msize > p9p.DefaultMSize {
			r.Fail(key+"msize-above-proposal", fmt.Sprintf("client proposed %d and adopted %d", p9p.DefaultMSize, msize), c, nil)
		}
		if msize != want {
			r.Fail(key+"msize", fmt.Sprintf("server answered %d, client (proposed %d) adopted %d; expected the minimum %d", m.MSize, p9p.DefaultMSize, msize, want), c, nil)
		}
	} else if m.Version == "9P2000" {
		r.Fail(key+"refused", fmt.Sprintf("a valid version reply (msize %d) was refused: %v", m.MSize, got.err), c, nil)
	}
}
