// C02 harness: Channel.WriteFcall on a capture connection for messages of
// every kind x msize values (boundary-dense around the message's own frame
// size) x live/cancelled contexts.  Observed: the bytes emitted and the error
// class; direct oracles parse the bytes as frames, independently of the model.
package main

import (
	"bytes"
	"context"
	"encoding/binary"
	"fmt"
	"io"
	"time"

	p9p "github.com/frobnitzem/go-p9p"

	"verifharness/internal/lconn"
	"verifharness/internal/prng"
	"verifharness/internal/rep"
	"verifharness/internal/sx"
	"verifharness/internal/wiregen"
)

func main() {
	r := rep.Open()
	defer r.Close()
	r.Rule = "messages of all 27 kinds (boundary-dense fields, Twrite data up to 9000 bytes, Tread counts incl. 2^32-11..2^32-1) x msize in {24..64, frame-40..frame+40, 2^k+-1, 2^20} x live/cancelled/deadline-expired context; sweeps: every Tread count in msize-41..msize+1 and every Twrite data length in msize-53..msize-11 for 38 msizes. Non-trivial: every call; distinct by canonical text."
	rng := prng.New(r.Seed)
	// Overflow() reports an overflow for overflow errors only
	for _, e := range []error{nil, context.Canceled, context.DeadlineExceeded, io.EOF, io.ErrUnexpectedEOF, fmt.Errorf("write: broken pipe"), p9p.ErrClosed, p9p.MessageRerror{Ename: "x"}} {
		if k := p9p.Overflow(e); k != 0 {
			r.Fail("channel.Overflow.non-overflow-error", fmt.Sprintf("Overflow(%v) = %d for an error that is not an overflow", e, k), nil, nil)
		}
	}
	sweeps(r, rng)
	per := r.N(10, 250)
	for _, t := range wiregen.AllTypes {
		for i := 0; i < r.N(6, 150); i++ {
			seqCase(r, rng, t)
		}
		for i := 0; i < per; i++ {
			fc := wiregen.GenFcall(rng, t, 9000)
			if m, ok := fc.Message.(p9p.MessageTread); ok && i%3 == 0 {
				m.Count = uint32(rng.PickU64(0xffffffff, 0xfffffff5, 0xfffffff4, 0xfffffff6, 0xffffff00, 13, 0))
				fc.Message = m
			}
			ref, _ := wiregen.RefEncode(fc)
			fsz := len(ref) + 4
			var msizes []int
			for k := 0; k < 4; k++ {
				msizes = append(msizes, rng.Range(24, 64))
			}
			for k := 0; k < 8; k++ {
				m := fsz + rng.Range(-40, 40)
				if m >= 24 {
					msizes = append(msizes, m)
				}
			}
			msizes = append(msizes, fsz, fsz-1, fsz+1, 1<<20, rng.Pick(255, 256, 257, 4095, 4096, 4097, 65535, 65536, 65537), rng.Pick(0, 1, 4, 11, 12, 18, 19, 20, 21, 22, 23), rng.Range(12, 23))
			for _, msize := range msizes {
				if msize < 0 {
					continue
				}
				one(r, rng, fc, msize, !rng.Chance(1, 12))
			}
		}
	}
}

// sweeps: for the two messages the channel rewrites, EVERY count / data length in a window around the
// point where the reply (Tread: msize-11) or the message itself (Twrite: msize-23) just fits, for
// a set of msizes -- a fast path that is off by the 4-byte size header is wrong for four values only
func sweeps(r *rep.Report, rng *prng.R) {
	ms := []int{}
	for m := 24; m <= 48; m++ {
		ms = append(ms, m)
	}
	ms = append(ms, 64, 127, 128, 129, 255, 256, 257, 1024, 4096, 8192, 65535, 65536, 65537)
	for _, msize := range ms {
		for d := -30; d <= 12; d++ {
			if c := msize - 11 + d; c >= 0 {
				fc := &p9p.Fcall{Type: p9p.Tread, Tag: p9p.Tag(d + 100), Message: p9p.MessageTread{Fid: 1, Offset: uint64(c), Count: uint32(c)}}
				one(r, rng, fc, msize, true)
			}
			if n := msize - 23 + d; n >= 0 && (r.Thorough() || msize <= 4096) {
				fc := &p9p.Fcall{Type: p9p.Twrite, Tag: p9p.Tag(d + 200), Message: p9p.MessageTwrite{Fid: 2, Offset: 7, Data: rng.Bytes(n)}}
				one(r, rng, fc, msize, true)
			}
		}
	}
}

// seqCase writes several messages of one kind, of different sizes, on ONE channel: whatever a
// channel remembers from an earlier message must not change what it does with the next one.
func seqCase(r *rep.Report, rng *prng.R, t p9p.FcallType) {
	k := rng.Range(2, 4)
	fcs := make([]*p9p.Fcall, k)
	sizes := make([]int, k)
	for i := range fcs {
		fcs[i] = wiregen.GenFcall(rng, t, 600)
		ref, _ := wiregen.RefEncode(fcs[i])
		sizes[i] = len(ref) + 4
	}
	msize := sizes[rng.Intn(k)] + rng.Range(-3, 3) // between the sizes of the sequence, so some fit and some do not
	if msize < 24 {
		msize = 24 + rng.Intn(8)
	}
	conn := lconn.NewScript(nil)
	ch := p9p.NewChannel(conn, msize)
	items := make([]sx.S, k)
	obs := make([]sx.S, k)
	for i, fc := range fcs {
		items[i] = wiregen.FcallSexp(fc)
		before := len(conn.Written)
		err := ch.WriteFcall(context.Background(), cloneFcall(fc))
		out := append([]byte{}, conn.Written[before:]...)
		var res sx.S
		switch {
		case err == nil:
			res = sx.L(sx.Sym("sent"))
		case p9p.Overflow(err) > 0:
			res = sx.L(sx.Sym("overflow"), sx.I(int64(p9p.Overflow(err))))
		default:
			res = sx.L(sx.Sym("other"))
		}
		obs[i] = sx.L(sx.B(out), res)
		if len(out) > msize {
			r.Fail("channel.WriteFcall."+t.String()+".exceeds-msize", fmt.Sprintf("message %d of a sequence on one channel went out as a frame of %d bytes with msize %d", i, len(out), msize), sx.L(sx.Sym("writeseq"), sx.I(int64(msize)), sx.List(items[:i+1])), nil)
		}
	}
	r.Case(sx.L(sx.Sym("writeseq"), sx.I(int64(msize)), sx.List(items)), sx.List(obs), "writeseq", true)
}

func cloneFcall(fc *p9p.Fcall) *p9p.Fcall {
	c := *fc
	return &c
}

func one(r *rep.Report, rng *prng.R, orig *p9p.Fcall, msize int, live bool) {
	fc := cloneFcall(orig)
	// the caller's buffer, with spare capacity, snapshotted
	var callerBuf []byte
	if m, ok := fc.Message.(p9p.MessageTwrite); ok {
		callerBuf = make([]byte, len(m.Data), len(m.Data)+16)
		copy(callerBuf, m.Data)
		for i := len(m.Data); i < cap(callerBuf); i++ {
			callerBuf[:cap(callerBuf)][i] = 0xAB
		}
		m.Data = callerBuf
		fc.Message = m
	}
	// one message in four (other than the two the channel rewrites by value) is passed in pointer form
	switch fc.Message.(type) {
	case p9p.MessageTread, p9p.MessageTwrite:
	default:
		if rng.Chance(1, 4) {
			fc.Message = wiregen.Pointer(fc.Message)
		}
	}
	snapshot := append([]byte{}, callerBuf[:cap(callerBuf)]...)
	c := sx.L(sx.Sym("write"), sx.I(int64(msize)), sx.Bool(live), wiregen.FcallSexp(fc))

	conn := lconn.NewScript(nil)
	// the msize is reached directly or through SetMSize from a larger / smaller one, as negotiation does
	var ch p9p.Channel
	switch rng.Intn(3) {
	case 0:
		ch = p9p.NewChannel(conn, msize)
	case 1:
		ch = p9p.NewChannel(conn, msize+rng.Pick(1, 4, 100, 65536))
		ch.SetMSize(msize)
	default:
		ch = p9p.NewChannel(conn, msize/2)
		ch.SetMSize(msize)
	}
	ctx, cancel := context.WithCancel(context.Background())
	if !live {
		cancel()
		// half of the ended contexts have ended by their deadline rather than by cancellation
		if rng.Chance(1, 2) {
			ctx, cancel = context.WithDeadline(context.Background(), time.Now().Add(-time.Duration(rng.Pick(1, 1000, 3600000))*time.Millisecond))
		}
	}
	// one call in eight has its context cancelled DURING the call (after the entry check): the call is
	// past the point of no return, so it must behave exactly like a live one, and must not leave
	// anything behind that a later write would flush
	midCancel := live && rng.Chance(1, 8)
	if midCancel {
		conn.OnWriteDeadline = cancel
	}
	var err error
	panicked := func() (p bool) {
		defer func() {
			if recover() != nil {
				p = true
			}
		}()
		err = ch.WriteFcall(ctx, fc)
		return false
	}()
	cancel()
	out := conn.Written
	var res sx.S
	switch {
	case panicked:
		res = sx.L(sx.Sym("panic"))
		r.Fail("channel.WriteFcall.panic", fmt.Sprintf("WriteFcall panicked (%v, msize %d)", orig.Type, msize), c, nil)
	case err == nil:
		res = sx.L(sx.Sym("sent"))
	case err == context.Canceled || err == context.DeadlineExceeded:
		res = sx.L(sx.Sym("ctx"))
	case p9p.Overflow(err) > 0:
		res = sx.L(sx.Sym("overflow"), sx.I(int64(p9p.Overflow(err))))
	default:
		res = sx.L(sx.Sym("other"))
	}
	r.Case(c, sx.L(sx.B(out), res), fmt.Sprintf("write:%s", sx.String(res)[1:4]), true)
	if midCancel && !panicked {
		// a second, small message on the same channel: exactly its own frame must appear
		conn.OnWriteDeadline = nil
		n1 := len(conn.Written)
		second := &p9p.Fcall{Type: p9p.Tclunk, Tag: 77, Message: p9p.MessageTclunk{Fid: 9}}
		e2 := ch.WriteFcall(context.Background(), second)
		ref2, _ := wiregen.RefEncode(second)
		got2 := conn.Written[n1:]
		if msize >= 24 && (e2 != nil || len(got2) != len(ref2)+4 || !bytes.Equal(got2[4:], ref2)) {
			r.Fail("channel.WriteFcall.residue", fmt.Sprintf("after a call whose context ended mid-call (result %v, %d bytes emitted) the next write put %d bytes on the connection instead of its own %d-byte frame", err, n1, len(got2), len(ref2)+4), c, nil)
		}
		r.Hist["write:midcancel"]++
	}

	// ---- direct oracles (property text), for msize >= 24 ----
	if !bytes.Equal(callerBuf[:cap(callerBuf)], snapshot) {
		r.Fail("channel.WriteFcall.caller-buffer", "WriteFcall modified the caller's data buffer", c, nil)
	}
	if msize < 24 {
		return
	}
	ref, _ := wiregen.RefEncode(orig)
	frameLen := len(ref) + 4
	key := "channel.WriteFcall." + orig.Type.String()
	if !live {
		if len(out) != 0 || err == nil {
			r.Fail(key+".cancelled", "a write under a cancelled context emitted bytes or reported success", c, nil)
		}
		return
	}
	if err != nil {
		if len(out) != 0 {
			r.Fail(key+".error-with-output", fmt.Sprintf("WriteFcall returned %v but emitted %d bytes", err, len(out)), c, nil)
		}
		k := p9p.Overflow(err)
		if k <= 0 {
			r.Fail(key+".error-kind", fmt.Sprintf("WriteFcall failed with %v, which does not report an overflow", err), c, nil)
		} else if k != frameLen-msize {
			r.Fail(key+".overflow-size", fmt.Sprintf("overflow reported as %d, message is %d bytes too long", k, frameLen-msize), c, nil)
		}
		switch orig.Message.(type) {
		case p9p.MessageTread:
			r.Fail(key+".refused", "a read request was refused instead of having its count lowered", c, nil)
		case p9p.MessageTwrite:
			if len(orig.Message.(p9p.MessageTwrite).Data) >= frameLen-msize {
				r.Fail(key+".refused", "a write request that could be shortened was refused", c, nil)
			}
		}
		return
	}
	// exactly one complete frame
	if len(out) < 7 || int(binary.LittleEndian.Uint32(out)) != len(out) {
		r.Fail(key+".frame", fmt.Sprintf("emitted %d bytes that are not one frame whose size field equals its length", len(out)), c, nil)
		return
	}
	if len(out) > msize {
		r.Fail(key+".exceeds-msize", fmt.Sprintf("emitted a frame of %d bytes with msize %d", len(out), msize), c, nil)
	}
	switch m := orig.Message.(type) {
	case p9p.MessageTwrite:
		if frameLen <= msize {
			if !bytes.Equal(out[4:], ref) {
				r.Fail(key+".modified", "a write request that fits was modified", c, nil)
			}
		} else {
			if len(out) != msize {
				r.Fail(key+".shortened-size", fmt.Sprintf("shortened write frame is %d bytes, msize %d", len(out), msize), c, nil)
			}
			want := *orig
			keep := len(m.Data) - (frameLen - msize)
			if keep >= 0 {
				want.Message = p9p.MessageTwrite{Fid: m.Fid, Offset: m.Offset, Data: m.Data[:keep]}
				wref, _ := wiregen.RefEncode(&want)
				if !bytes.Equal(out[4:], wref) {
					r.Fail(key+".shortened-content", "shortened write is not the same request with a prefix of the data", c, nil)
				}
			}
		}
	case p9p.MessageTread:
		var got p9p.Fcall
		if e := p9p.NewCodec().Unmarshal(out[4:], &got); e != nil {
			r.Fail(key+".frame", "emitted read request does not decode", c, nil)
			return
		}
		g, ok := got.Message.(p9p.MessageTread)
		if !ok || g.Fid != m.Fid || g.Offset != m.Offset || got.Tag != orig.Tag {
			r.Fail(key+".modified", "read request changed in a field other than count", c, nil)
			return
		}
		if g.Count > m.Count || 11+uint64(g.Count) > uint64(msize) {
			r.Fail(key+".count", fmt.Sprintf("count %d sent for requested %d with msize %d: the largest reply would not fit", g.Count, m.Count, msize), c, nil)
		}
		if 11+uint64(m.Count) <= uint64(msize) && g.Count != m.Count {
			r.Fail(key+".count", fmt.Sprintf("count lowered from %d to %d although the reply fits msize %d", m.Count, g.Count, msize), c, nil)
		}
		if 11+uint64(m.Count) > uint64(msize) && uint64(g.Count) != uint64(msize)-11 {
			r.Fail(key+".count", fmt.Sprintf("count %d for msize %d is lower than necessary", g.Count, msize), c, nil)
		}
	default:
		if !bytes.Equal(out[4:], ref) {
			r.Fail(key+".modified", "message was modified on the way out", c, nil)
		}
	}
}
