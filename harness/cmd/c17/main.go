// C17 harness: directory reads.
//
//	rd   p9p.NewReaddir / NewFixedReaddir over a scripted ReadNext, driven by
//	     sequences of Read(count, offset)
//	cl   the client iterator (CFileSys Dirent.OpenDir) over a session that serves
//	     Read from a real p9p.Readdir, with a chosen iounit
//	e2e  CFileSys -> CSession -> in-memory conn -> ServeConn -> SSession ->
//	     SFileSys(scripted FileSys), over a negotiated msize
//
// Every case is printed with what the implementation did, for comparison with
// the Coq model (coq/theories/Model/Readdir.v), and direct oracles written from
// the property text run on the implementation's answers.
package main

import (
	"bytes"
	"context"
	"errors"
	"fmt"
	"io"
	"log"
	"os"
	"runtime/debug"
	"strings"
	"time"

	p9p "github.com/frobnitzem/go-p9p"

	"verifharness/internal/prng"
	"verifharness/internal/rep"
	"verifharness/internal/sx"
)

var codec = p9p.NewCodec()

func genDir(rng *prng.R, maxStr int) p9p.Dir {
	str := func() string { return string(rng.Bytes(rng.Intn(maxStr + 1))) }
	if rng.Chance(1, 6) { // boundary: all strings at the maximum, or all empty
		if rng.Bool() {
			str = func() string { return string(rng.Bytes(maxStr)) }
		} else {
			str = func() string { return "" }
		}
	}
	return p9p.Dir{
		Type: uint16(rng.U64()), Dev: uint32(rng.U64()),
		Qid:        p9p.Qid{Type: p9p.QType(rng.U64()), Version: uint32(rng.U64()), Path: rng.U64()},
		Mode:       uint32(rng.U64()),
		AccessTime: time.Unix(int64(uint32(rng.U64())), 0).UTC(),
		ModTime:    time.Unix(int64(uint32(rng.U64())), 0).UTC(),
		Length:     rng.U64(),
		Name:       str(), UID: str(), GID: str(), MUID: str(),
	}
}

func dirEq(a, b p9p.Dir) bool {
	return a.Type == b.Type && a.Dev == b.Dev && a.Qid == b.Qid && a.Mode == b.Mode &&
		a.AccessTime.Equal(b.AccessTime) && a.ModTime.Equal(b.ModTime) && a.Length == b.Length &&
		a.Name == b.Name && a.UID == b.UID && a.GID == b.GID && a.MUID == b.MUID
}

// listing: the entries, their encodings, and the script of the underlying iterator.
// a directory is a qid with the QTDIR bit, whatever other type bits it carries
var dirTypes = []p9p.QType{p9p.QTDIR, p9p.QTDIR | p9p.QTTMP, p9p.QTDIR | p9p.QTAPPEND, p9p.QTDIR | p9p.QTEXCL, p9p.QTDIR | p9p.QTMOUNT, p9p.QTDIR | 0x7f}

type listing struct {
	rootType p9p.QType // qid type of the directory being listed
	dirs     []p9p.Dir
	enc      [][]byte
	batches  []int // k >= 0: the next k entries; -1: the iterator fails
	maxEnc   int
	clean    bool // no error batch before the end of the listing
	nlisted  int  // entries before the first empty batch / the end of the script
}

var errScripted = errors.New("scripted iterator failure")

func genListing(rng *prng.R, allowErr bool) *listing {
	var n, maxStr int
	switch c := rng.Intn(100); {
	case c < 8:
		n, maxStr = 0, 0
	case c < 70:
		n, maxStr = rng.Range(1, 12), rng.Pick(0, 1, 8, 20)
	case c < 97:
		n, maxStr = rng.Range(1, 60), rng.Pick(3, 30, 60)
	default:
		n, maxStr = rng.Range(100, 300), rng.Pick(10, 100, 300)
	}
	l := &listing{clean: true, rootType: dirTypes[rng.Intn(len(dirTypes))]}
	for i := 0; i < n; i++ {
		d := genDir(rng, maxStr)
		b, err := codec.Marshal(d)
		if err != nil {
			panic(err)
		}
		l.dirs = append(l.dirs, d)
		l.enc = append(l.enc, b)
		if len(b) > l.maxEnc {
			l.maxEnc = len(b)
		}
	}
	maxBatch := rng.Pick(1, 2, 3, 7, 50)
	errAt := -1
	if allowErr && rng.Chance(1, 8) {
		errAt = rng.Intn(n + 1)
	}
	emptyAt := -1
	if rng.Chance(1, 12) {
		emptyAt = rng.Intn(n + 1)
	}
	left := n
	pos := 0
	ended := false
	for left > 0 {
		if pos >= errAt && errAt >= 0 {
			l.batches = append(l.batches, -1)
			if !ended {
				l.clean = false
			}
			errAt = -1
			continue
		}
		if pos >= emptyAt && emptyAt >= 0 {
			l.batches = append(l.batches, 0)
			if !ended {
				ended = true
				l.nlisted = pos
			}
			emptyAt = -1
			continue
		}
		k := rng.Range(1, maxBatch)
		if k > left {
			k = left
		}
		l.batches = append(l.batches, k)
		pos += k
		left -= k
	}
	if errAt >= 0 {
		l.batches = append(l.batches, -1)
		if !ended {
			l.clean = false
		}
	}
	if !ended {
		l.nlisted = n
	}
	if rng.Bool() {
		l.batches = append(l.batches, 0)
	}
	return l
}

func (l *listing) entriesSexp() sx.S {
	out := make([]sx.S, len(l.enc))
	for i, b := range l.enc {
		out[i] = sx.B(b)
	}
	return sx.List(out)
}
func (l *listing) batchesSexp() sx.S {
	out := make([]sx.S, len(l.batches))
	for i, b := range l.batches {
		out[i] = sx.I(int64(b))
	}
	return sx.List(out)
}

// readNext: the scripted underlying iterator; an exhausted script answers (nil, nil).
func (l *listing) readNext() p9p.ReadNext {
	pos, bi := 0, 0
	return func(ctx context.Context) ([]p9p.Dir, error) {
		if bi >= len(l.batches) {
			return nil, nil
		}
		b := l.batches[bi]
		bi++
		if b < 0 {
			return nil, errScripted
		}
		if pos+b > len(l.dirs) {
			b = len(l.dirs) - pos
		}
		ret := l.dirs[pos : pos+b]
		pos += b
		return ret, nil
	}
}

// ---------------------------------------------------------------- rd cases

func pickCount(rng *prng.R, policy, min int) int {
	switch policy {
	case 0:
		return min
	case 1:
		return min + 1
	case 2:
		return rng.Pick(8192, 65536-11, 1<<17, 4096)
	case 3:
		return min + rng.Intn(3*min+2)
	case 4: // below the premise
		if min == 0 {
			return 0
		}
		return rng.Pick(0, 1, min-1, min/2, rng.Intn(min))
	}
	return min
}

func runRd(r *rep.Report, rng *prng.R) {
	ctx := context.Background()
	l := genListing(rng, true)
	fixed := rng.Chance(1, 5)
	var rd *p9p.Readdir
	kind := "next"
	if fixed {
		kind = "fixed"
		rd = p9p.NewFixedReaddir(codec, l.dirs)
		l.batches = nil
		l.clean = true
		l.nlisted = len(l.dirs)
	} else {
		rd = p9p.NewReaddir(codec, l.readNext())
	}
	policy := rng.Pick(0, 1, 2, 3, 5, 5, 6)
	premise := l.clean
	var ops, obs []sx.S
	var off int64
	idx := 0 // next undelivered entry, according to the oracle's own bookkeeping
	empties, nreads := 0, 0
	sawEmptyAt := -1
	maxReads := len(l.dirs) + 3
	if rng.Chance(1, 10) && maxReads > 3 {
		maxReads = rng.Range(1, maxReads)
	}
	buf := make([]byte, 0)
	panicked := ""  // Read panicked inside the library: the case ends there
	desync := false // the reader's offset no longer equals the Readdir's (after an error that consumed bytes)
	for nreads < maxReads && empties < 2 {
		pol := policy
		if pol == 5 {
			pol = rng.Pick(0, 1, 2, 3)
		} else if pol == 6 {
			pol = rng.Pick(0, 1, 2, 3, 4, 4)
		}
		count := pickCount(rng, pol, l.maxEnc)
		if count < l.maxEnc {
			premise = false
		}
		if cap(buf) < count {
			buf = make([]byte, count)
		}
		if rng.Chance(1, 10) {
			// a read at some other offset must be rejected and must change nothing
			bad := off
			for bad == off {
				switch rng.Intn(5) {
				case 0:
					bad = off + int64(rng.Range(1, 5))
				case 1:
					bad = off - int64(rng.Range(1, 5))
				case 2:
					bad = 0
				case 3:
					bad = -off - 1
				default:
					bad = int64(rng.U64() >> 1)
				}
			}
			var n int
			var err error
			pt := guarded(func() { n, err = rd.Read(ctx, buf[:count], bad) })
			op := sx.L(sx.Sym("x"), sx.I(int64(count)), sx.I(bad))
			ops = append(ops, op)
			if pt != "" {
				panicked = pt
				obs = append(obs, sx.Sym("panic"))
				break
			}
			switch {
			case err == p9p.ErrBadoffset && n == 0:
				obs = append(obs, sx.Sym("bad"))
			case err != nil:
				obs = append(obs, sx.L(sx.Sym("err"), sx.B(buf[:n])))
			default:
				obs = append(obs, sx.L(sx.Sym("ok"), sx.B(buf[:n])))
			}
			if !desync && !(err == p9p.ErrBadoffset && n == 0) {
				r.Fail("Readdir.Read.offset", fmt.Sprintf("read at offset %d while the running offset is %d returned n=%d err=%v, the property demands a rejection", bad, off, n, err),
					sx.L(sx.Sym("rd"), sx.Sym(kind), l.entriesSexp(), l.batchesSexp(), sx.List(ops)), nil)
			}
			continue
		}
		p := buf[:count]
		var n int
		var err error
		pt := guarded(func() { n, err = rd.Read(ctx, p, off) })
		nreads++
		ops = append(ops, sx.L(sx.Sym("r"), sx.I(int64(count))))
		if pt != "" {
			panicked = pt
			obs = append(obs, sx.Sym("panic"))
			break
		}
		chunk := append([]byte{}, p[:n]...)
		switch {
		case err == p9p.ErrBadoffset && n == 0:
			obs = append(obs, sx.Sym("bad"))
		case err != nil:
			obs = append(obs, sx.L(sx.Sym("err"), sx.B(chunk)))
			if n > 0 {
				desync = true
			}
		default:
			obs = append(obs, sx.L(sx.Sym("ok"), sx.B(chunk)))
			off += int64(n)
		}
		if n == 0 && err == nil {
			empties++
			if sawEmptyAt < 0 {
				sawEmptyAt = nreads - 1
			}
		}
		if premise {
			c := sx.L(sx.Sym("rd"), sx.Sym(kind), l.entriesSexp(), l.batchesSexp(), sx.List(ops))
			if err != nil {
				r.Fail("Readdir.Read.error", fmt.Sprintf("read %d (count %d) at the running offset %d failed: %v", nreads, count, off, err), c, nil)
				premise = false
				continue
			}
			if n > count {
				r.Fail("Readdir.Read.toolong", fmt.Sprintf("read %d returned %d bytes for count %d", nreads, n, count), c, nil)
			}
			// whole entries, in listing order, continuing where the previous reply stopped
			rest := chunk
			for len(rest) > 0 && idx < l.nlisted && bytes.HasPrefix(rest, l.enc[idx]) {
				rest = rest[len(l.enc[idx]):]
				idx++
			}
			if len(rest) > 0 {
				r.Fail("Readdir.Read.whole", fmt.Sprintf("read %d (count %d): reply of %d bytes is not a run of whole entries continuing at entry %d (%d bytes unexplained)", nreads, count, n, idx, len(rest)), c, nil)
				premise = false
				continue
			}
			if n == 0 && idx < l.nlisted {
				r.Fail("Readdir.Read.progress", fmt.Sprintf("read %d (count %d >= largest entry %d) returned nothing although %d of %d entries are undelivered", nreads, count, l.maxEnc, l.nlisted-idx, l.nlisted), c, nil)
				premise = false
			}
		}
	}
	c := sx.L(sx.Sym("rd"), sx.Sym(kind), l.entriesSexp(), l.batchesSexp(), sx.List(ops))
	if panicked != "" {
		nPanics++
		r.Fail("Readdir.Read.panic", fmt.Sprintf("read %d of the sequence panicked inside the library: %s", len(ops), strings.SplitN(panicked, "\n", 2)[0]), c, map[string]interface{}{"stack": panicked})
		r.Case(c, sx.List(obs), "rd:"+kind+":panic", true)
		return
	}
	if premise {
		if (sawEmptyAt >= 0 || nreads > l.nlisted) && idx != l.nlisted {
			r.Fail("Readdir.Read.stream", fmt.Sprintf("after %d reads (first empty reply at read %d) only %d of %d entries were delivered", nreads, sawEmptyAt, idx, l.nlisted), c, nil)
		}
		if nreads > l.nlisted && sawEmptyAt < 0 {
			r.Fail("Readdir.Read.end", fmt.Sprintf("%d reads of a %d-entry listing and no empty reply", nreads, l.nlisted), c, nil)
		}
	}
	br := "rd:" + kind
	if !l.clean {
		br += ":iter-error"
	} else if !premise {
		br += ":small-count"
	}
	r.Case(c, sx.List(obs), br, len(l.dirs) > 0 && nreads > 0)
}

// ---------------------------------------------------------------- cl cases

// fakeSess serves exactly what the client directory iterator needs.
type fakeSess struct {
	rd       *p9p.Readdir
	qtype    p9p.QType
	iounit   uint32
	msize    int
	eofStyle bool
	readFids []p9p.Fid
	openFid  p9p.Fid
}

var errNo = errors.New("not scripted")

func (s *fakeSess) Auth(ctx context.Context, afid p9p.Fid, uname, aname string) (p9p.Qid, error) {
	return p9p.Qid{}, errNo
}
func (s *fakeSess) Attach(ctx context.Context, fid, afid p9p.Fid, uname, aname string) (p9p.Qid, error) {
	return p9p.Qid{Type: s.qtype, Path: 1}, nil
}
func (s *fakeSess) Clunk(ctx context.Context, fid p9p.Fid) error  { return nil }
func (s *fakeSess) Remove(ctx context.Context, fid p9p.Fid) error { return nil }
func (s *fakeSess) Walk(ctx context.Context, fid, newfid p9p.Fid, names ...string) ([]p9p.Qid, error) {
	return nil, errNo
}
func (s *fakeSess) Read(ctx context.Context, fid p9p.Fid, p []byte, offset int64) (int, error) {
	s.readFids = append(s.readFids, fid)
	n, err := s.rd.Read(ctx, p, offset)
	if err != nil {
		return 0, err
	}
	if n == 0 && s.eofStyle {
		return 0, io.EOF
	}
	return n, nil
}
func (s *fakeSess) Write(ctx context.Context, fid p9p.Fid, p []byte, offset int64) (int, error) {
	return 0, errNo
}
func (s *fakeSess) Open(ctx context.Context, fid p9p.Fid, mode p9p.Flag) (p9p.Qid, uint32, error) {
	s.openFid = fid
	return p9p.Qid{Type: s.qtype, Path: 1}, s.iounit, nil
}
func (s *fakeSess) Create(ctx context.Context, parent p9p.Fid, name string, perm uint32, mode p9p.Flag) (p9p.Qid, uint32, error) {
	return p9p.Qid{}, 0, errNo
}
func (s *fakeSess) Stat(ctx context.Context, fid p9p.Fid) (p9p.Dir, error) { return p9p.Dir{}, errNo }
func (s *fakeSess) WStat(ctx context.Context, fid p9p.Fid, dir p9p.Dir) error {
	return errNo
}
func (s *fakeSess) Version() (int, string) { return s.msize, "9P2000" }
func (s *fakeSess) Stop(err error) error   { return err }

// drain calls the iterator until it returns no entries or an error.
func drain(ctx context.Context, next p9p.ReadNext, maxCalls int) ([]p9p.Dir, error, bool) {
	var got []p9p.Dir
	for i := 0; i < maxCalls; i++ {
		ds, err := next(ctx)
		if err != nil {
			return got, err, true
		}
		if len(ds) == 0 {
			return got, nil, true
		}
		got = append(got, ds...)
	}
	return got, nil, false
}

func obsList(got []p9p.Dir, err error, ended bool) sx.S {
	if !ended {
		return sx.L(sx.Sym("hang"))
	}
	if err != nil {
		return sx.L(sx.Sym("err"))
	}
	out := []sx.S{sx.Sym("ok")}
	for _, d := range got {
		b, _ := codec.Marshal(d)
		out = append(out, sx.B(b))
	}
	return sx.List(out)
}

func checkListing(r *rep.Report, key string, l *listing, got []p9p.Dir, err error, ended bool, c sx.S, what string) {
	if !ended {
		r.Fail(key+".noend", what+": the iterator did not end", c, nil)
		return
	}
	if err != nil {
		r.Fail(key+".error", fmt.Sprintf("%s: listing failed: %v", what, err), c, nil)
		return
	}
	if len(got) != l.nlisted {
		r.Fail(key+".count", fmt.Sprintf("%s: client obtained %d entries, the server listed %d", what, len(got), l.nlisted), c, nil)
		return
	}
	for i := range got {
		if !dirEq(got[i], l.dirs[i]) {
			r.Fail(key+".entry", fmt.Sprintf("%s: entry %d differs: got %v want %v", what, i, got[i], l.dirs[i]), c, nil)
			return
		}
	}
}

func pickIounit(rng *prng.R, min int) int {
	switch rng.Intn(10) {
	case 0:
		return min
	case 1:
		return min + 1
	case 2, 3:
		return rng.Pick(8192-11, 65536-11, 4096-11, 1024-11, 1<<17)
	case 4: // below the premise
		if min <= 1 {
			return min
		}
		return rng.Pick(min-1, min/2, 1+rng.Intn(min-1))
	default:
		return min + rng.Intn(3*min+2)
	}
}

func runCl(r *rep.Report, rng *prng.R) {
	ctx := context.Background()
	l := genListing(rng, true)
	iounit := pickIounit(rng, l.maxEnc)
	if iounit == 0 {
		iounit = 1
	}
	s := &fakeSess{rd: p9p.NewReaddir(codec, l.readNext()), eofStyle: rng.Bool(), qtype: l.rootType}
	if rng.Bool() {
		s.iounit, s.msize = uint32(iounit), 65536
	} else {
		s.iounit, s.msize = 0, iounit+11
	}
	c := sx.L(sx.Sym("cl"), sx.I(int64(iounit)), l.entriesSexp(), l.batchesSexp())
	fs := p9p.CFileSys(s)
	var got []p9p.Dir
	var lerr error
	var ended bool
	setup, pt := "", ""
	fin := make(chan struct{})
	go func() {
		defer close(fin)
		pt = guarded(func() {
			root, err := fs.Attach(ctx, "u", "", nil)
			if err != nil || isNilEnt(root) {
				setup = fmt.Sprintf("Attach: entry %v, error %v", root, err)
				return
			}
			next, err := root.OpenDir(ctx)
			if err != nil || next == nil {
				setup = fmt.Sprintf("OpenDir on the attached directory: iterator nil=%v, error %v", next == nil, err)
				return
			}
			got, lerr, ended = drain(ctx, next, len(l.dirs)+2)
		})
	}()
	if w := watch(fin, 200*time.Second); w != "" {
		// the iterator neither returns nor fails (200 s for milliseconds of work), or allocates without
		// end: nothing more can be run in this process
		r.Fail("client.OpenDir."+w, fmt.Sprintf("iounit %d: listing a %d-entry directory did not come back (%s)", iounit, l.nlisted, w), c, nil)
		r.Case(c, sx.L(sx.Sym("hang")), "cl:"+w, true)
		r.Extra["stopped_by"] = "client.OpenDir." + w
		r.Close()
		os.Exit(0)
	}
	if pt != "" {
		nPanics++
		r.Fail("client.OpenDir.panic", fmt.Sprintf("iounit %d: listing panicked inside the library: %s", iounit, strings.SplitN(pt, "\n", 2)[0]), c, map[string]interface{}{"stack": pt})
		r.Case(c, sx.L(sx.Sym("panic")), "cl:panic", true)
		return
	}
	if setup != "" {
		r.Fail("client.OpenDir.setup", setup, c, nil)
		r.Case(c, sx.L(sx.Sym("setup-failed")), "cl:setup-failed", true)
		return
	}
	br := "cl"
	if !l.clean {
		br += ":iter-error"
	} else if iounit < l.maxEnc {
		br += ":small-iounit"
	} else {
		checkListing(r, "client.OpenDir", l, got, lerr, ended, c, fmt.Sprintf("iounit %d (largest entry %d)", iounit, l.maxEnc))
	}
	for _, f := range s.readFids {
		if f != s.openFid {
			r.Fail("client.OpenDir.fid", fmt.Sprintf("directory read issued on fid %d, opened fid %d", f, s.openFid), c, nil)
			break
		}
	}
	r.Case(c, obsList(got, lerr, ended), br, len(l.dirs) > 0)
}

// ---------------------------------------------------------------- e2e cases

type scriptFS struct{ l *listing }
type scriptRoot struct{ l *listing }

func (f *scriptFS) RequireAuth(ctx context.Context) bool { return false }
func (f *scriptFS) Auth(ctx context.Context, uname, aname string) (p9p.AuthFile, error) {
	return nil, errNo
}
func (f *scriptFS) Attach(ctx context.Context, uname, aname string, af p9p.AuthFile) (p9p.Dirent, error) {
	return scriptRoot{f.l}, nil
}
func (e scriptRoot) Qid() p9p.Qid { return p9p.Qid{Type: e.l.rootType, Path: 1} }
func (e scriptRoot) OpenDir(ctx context.Context) (p9p.ReadNext, error) {
	return e.l.readNext(), nil
}
func (e scriptRoot) Walk(ctx context.Context, name ...string) ([]p9p.Qid, p9p.Dirent, error) {
	return nil, nil, errNo
}
func (e scriptRoot) Create(ctx context.Context, name string, perm uint32, mode p9p.Flag) (p9p.Dirent, p9p.File, error) {
	return nil, nil, errNo
}
func (e scriptRoot) Open(ctx context.Context, mode p9p.Flag) (p9p.File, error) { return nil, errNo }
func (e scriptRoot) Remove(ctx context.Context) error                          { return nil }
func (e scriptRoot) Clunk(ctx context.Context) error                           { return nil }
func (e scriptRoot) Stat(ctx context.Context) (p9p.Dir, error)                 { return p9p.Dir{}, errNo }
func (e scriptRoot) WStat(ctx context.Context, stat p9p.Dir) error             { return errNo }

func runE2E(r *rep.Report, rng *prng.R) {
	l := genListing(rng, true)
	min := l.maxEnc + 11
	if min < 64 {
		min = 64
	}
	var msize int
	switch rng.Intn(8) {
	case 0:
		msize = min
	case 1:
		msize = min + 1
	case 2:
		msize = 65536
	case 3:
		msize = rng.Pick(1024, 4096, 8192, 65535)
	case 4: // too small for the largest entry: the listing is cut short (noted, not an alarm)
		msize = 64 + rng.Intn(min-64+1)
	default:
		msize = min + rng.Intn(3*min)
	}
	if msize < min && l.maxEnc+11 <= msize {
		msize = min
	}
	if msize > 65536 {
		msize = 65536
	}
	c := sx.L(sx.Sym("e2e"), sx.I(int64(msize)), l.entriesSexp(), l.batchesSexp())

	type outcome struct {
		stage string
		err   error
		msize int
		got   []p9p.Dir
		lerr  error
		ended bool
	}
	// attempt runs the listing once.  ServeConn gives version negotiation one second of
	// wall-clock; on a loaded machine that can expire before the exchange has happened, which
	// says nothing about the property: such an attempt is repeated, not reported.
	attempt := func() (o outcome, hung bool, retry bool) {
		ctx, cancel := context.WithTimeout(context.Background(), 300*time.Second)
		defer cancel()
		cc, sc := newMemPair(uint32(msize))
		served := make(chan error, 1)
		go func() { served <- p9p.ServeConn(ctx, sc, p9p.SSession(p9p.SFileSys(&scriptFS{l}))) }()
		done := make(chan outcome, 1)
		go func() {
			defer func() {
				if x := recover(); x != nil {
					st := string(debug.Stack())
					if !implPanic(st) {
						panic(x)
					}
					done <- outcome{stage: "panic", err: fmt.Errorf("%v", x)}
				}
			}()
			sess, err := p9p.CSession(ctx, cc)
			if err != nil {
				done <- outcome{stage: "version", err: err}
				return
			}
			m, _ := sess.Version()
			fs := p9p.CFileSys(sess)
			root, err := fs.Attach(ctx, "u", "", nil)
			if err != nil {
				done <- outcome{stage: "attach", err: err, msize: m}
				return
			}
			next, err := root.OpenDir(ctx)
			if err != nil || next == nil {
				done <- outcome{stage: "opendir", err: fmt.Errorf("iterator nil=%v, error %v", next == nil, err), msize: m}
				return
			}
			got, lerr, ended := drain(ctx, next, len(l.dirs)+2)
			done <- outcome{msize: m, got: got, lerr: lerr, ended: ended}
		}()
		select {
		case o = <-done:
			cc.Close()
			select {
			case <-served:
			case <-time.After(30 * time.Second):
			}
			return o, false, false
		case serr := <-served:
			// the server left while the client was still at work
			cc.Close()
			select {
			case o = <-done:
			case <-time.After(30 * time.Second):
			}
			if serr != nil && strings.Contains(serr.Error(), "negotiating version") {
				return o, false, true
			}
			if o.stage == "" && !o.ended && o.err == nil {
				o = outcome{stage: "server-exit", err: serr}
			}
			return o, false, false
		case <-time.After(200 * time.Second):
			// generous: a listing takes milliseconds; only a genuine hang gets here
			cc.Close()
			return o, true, false
		}
	}
	var o outcome
	for try := 0; ; try++ {
		var hung, retry bool
		o, hung, retry = attempt()
		if retry && try < 10 {
			r.Extra["e2e_negotiation_retries"] = try + 1
			continue
		}
		if hung {
			r.Fail("e2e.hang", fmt.Sprintf("listing over msize %d did not finish within 200 s", msize), c, nil)
			r.Case(c, sx.L(sx.Sym("hang")), "e2e:hang", false)
			return
		}
		break
	}
	if o.stage != "" {
		r.Fail("e2e.setup."+o.stage, fmt.Sprintf("%s over msize %d: %v", o.stage, msize, o.err), c, nil)
		r.Case(c, sx.L(sx.Sym("setup-failed")), "e2e:setup-failed", false)
		return
	}
	if o.msize != msize {
		r.Fail("e2e.setup.msize", fmt.Sprintf("negotiated msize %d, wanted %d", o.msize, msize), c, nil)
	}
	got, lerr, ended := o.got, o.lerr, o.ended
	br := "e2e"
	if !l.clean {
		br += ":iter-error"
	} else if msize-11 < l.maxEnc {
		br += ":small-msize"
	} else {
		checkListing(r, "e2e.listing", l, got, lerr, ended, c, fmt.Sprintf("msize %d (largest entry %d)", msize, l.maxEnc))
	}
	r.Case(c, obsList(got, lerr, ended), br, len(l.dirs) > 0)
}

var nPanics = 0

func main() {
	r := rep.Open()
	defer r.Close()
	log.SetOutput(io.Discard)
	r.Rule = "rd: random listings (0..300 entries, string fields 0..300 bytes, batches of 1..50, optional iterator error / early empty batch) on NewReaddir/NewFixedReaddir, read with count sequences mixing the largest entry size, +1, large, random, and below-premise counts, with reads at wrong offsets interleaved; cl: the CFileSys directory iterator over a session serving a real Readdir with a chosen iounit; e2e: CFileSys->CSession->conn->ServeConn->SFileSys(scripted FS) over a negotiated msize; the listed directory's qid type is drawn from {QTDIR, QTDIR|QTTMP, QTDIR|QTAPPEND, QTDIR|QTEXCL, QTDIR|QTMOUNT, QTDIR|0x7f}. Non-trivial: a non-empty listing with at least one read; distinct by canonical case text."
	rng := prng.New(r.Seed)
	nrd, ncl, ne2e := r.N(800, 20000), r.N(300, 4000), r.N(100, 2000)
	for i := 0; i < nrd; i++ {
		runRd(r, rng.Fork())
	}
	for i := 0; i < ncl; i++ {
		runCl(r, rng.Fork())
	}
	if nPanics > 0 {
		// the library panicked in-process above (recorded with the cases); the same fault on the server's
		// handler goroutine of the end-to-end family could not be recovered and would take these records along
		r.Extra["e2e_skipped_after_panics"] = nPanics
		ne2e = 0
	}
	for i := 0; i < ne2e; i++ {
		runE2E(r, rng.Fork())
	}
	r.Extra["implementation_panics"] = nPanics
}
