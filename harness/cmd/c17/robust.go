package main

import (
	"fmt"
	"os"
	"reflect"
	"runtime"
	"runtime/debug"
	"strings"
	"time"

	p9p "github.com/frobnitzem/go-p9p"
)

// isNilEnt: the implementation handed back no entry at all (nil interface, nil
// pointer) -- to be reported as a failure of the operation, never dereferenced.
func isNilEnt(d p9p.Dirent) bool {
	if d == nil {
		return true
	}
	v := reflect.ValueOf(d)
	return !v.IsValid() || (v.Kind() == reflect.Ptr && v.IsNil())
}

// implPanic: is the function that panicked (the first frame below the run-time's own) part of
// the library under test?  Decided by the frame's source file (closures of the library that got
// inlined carry the caller's package in their symbol name) as well as by its symbol.  A panic of
// the harness's own code must stay a dead harness.
func implPanic(stack string) bool {
	repo := os.Getenv("VERIF_REPO")
	if repo == "" {
		repo = "/repo"
	}
	lines := strings.Split(stack, "\n")
	start := 0
	for i, l := range lines {
		if strings.HasPrefix(l, "panic(") {
			start = i + 1
		}
	}
	for i := start; i < len(lines); i++ {
		l := lines[i]
		if l == "" || strings.HasPrefix(l, "\t") || strings.HasPrefix(l, "goroutine ") {
			continue
		}
		if strings.HasPrefix(l, "runtime.") || strings.HasPrefix(l, "runtime/") || strings.HasPrefix(l, "panic(") {
			continue
		}
		if strings.HasPrefix(l, "github.com/frobnitzem/go-p9p") {
			return true
		}
		return i+1 < len(lines) && strings.HasPrefix(strings.TrimSpace(lines[i+1]), repo+"/")
	}
	return false
}

// guarded runs one piece of the implementation; a panic inside the library comes back as text
// (value + stack), a panic of the harness's own code is passed on.
func guarded(f func()) (panicText string) {
	defer func() {
		if x := recover(); x != nil {
			st := string(debug.Stack())
			if !implPanic(st) {
				panic(x)
			}
			panicText = fmtPanic(x, st)
		}
	}()
	f()
	return ""
}

func fmtPanic(x interface{}, st string) string {
	return strings.TrimSpace(strings.SplitN(strings.TrimSpace(fmt.Sprint(x)), "\n", 2)[0]) + "\n" + st
}

// watch waits for done.  "timeout": nothing happened for the (generous) time allowed;
// "runaway": the heap grew by more than 3 GiB meanwhile (a loop that allocates for ever would
// otherwise take the machine down long before any time-out).  Neither can be caused by load:
// the work watched takes milliseconds and megabytes.
func watch(done <-chan struct{}, timeout time.Duration) string {
	var m0, m runtime.MemStats
	runtime.ReadMemStats(&m0)
	deadline := time.After(timeout)
	tick := time.NewTicker(100 * time.Millisecond)
	defer tick.Stop()
	for {
		select {
		case <-done:
			return ""
		case <-deadline:
			return "timeout"
		case <-tick.C:
			runtime.ReadMemStats(&m)
			if m.HeapAlloc > m0.HeapAlloc+(3<<30) {
				return "runaway"
			}
		}
	}
}
