package main

import (
	"fmt"
	"go/ast"
	"go/constant"
	"go/token"
	"go/types"
	"sort"
	"strings"
)

// GenReplyTypes.v (used by C05/C12, Model/Tags.v):
//
//   - reply_types: for every method of *client in csession.go that calls
//     c.transport.send: the method name, the FcallType of the request message
//     it builds (composite literal MessageTxxx{…}, directly or through a local
//     variable), the FcallType of the reply it asserts (resp.(MessageRxxx)),
//     and whether the failed assertion returns ErrUnexpectedMsg;
//   - facts about transport.go read off the AST: the value send() compares
//     resp.Type with before converting the reply into an error (Rerror), the
//     capacity of the per-request reply/error channels, whether the owner
//     loop's "tag not outstanding" branch panics, and whether send()'s two
//     selects each have a `<-t.closed` and a `<-ctx.Done()` case.
//
// Any shape this generator does not recognise is an error: the tie to the
// source is then broken, which bin/check reports.
func init() { register("GenReplyTypes.v", genReplyTypes) }

// msgType returns the FcallType constant returned by (T).Type() for a named
// message type T of package p9p.
func (c *Ctx) msgType(name string) (uint64, string, error) {
	fd := c.FuncDecl(name, "Type")
	if fd == nil || fd.Body == nil || len(fd.Body.List) != 1 {
		return 0, "", fmt.Errorf("no single-statement method (%s).Type()", name)
	}
	ret, ok := fd.Body.List[0].(*ast.ReturnStmt)
	if !ok || len(ret.Results) != 1 {
		return 0, "", fmt.Errorf("(%s).Type(): not a single return", name)
	}
	id, ok := ret.Results[0].(*ast.Ident)
	if !ok {
		return 0, "", fmt.Errorf("(%s).Type(): does not return a named constant", name)
	}
	k, ok := c.Pkg.Scope().Lookup(id.Name).(*types.Const)
	if !ok {
		return 0, "", fmt.Errorf("(%s).Type(): %s is not a package constant", name, id.Name)
	}
	v, ok := constant.Uint64Val(k.Val())
	if !ok {
		return 0, "", fmt.Errorf("(%s).Type(): %s has no uint64 value", name, id.Name)
	}
	return v, id.Name, nil
}

func compositeTypeName(e ast.Expr) (string, bool) {
	cl, ok := e.(*ast.CompositeLit)
	if !ok {
		return "", false
	}
	id, ok := cl.Type.(*ast.Ident)
	if !ok {
		return "", false
	}
	return id.Name, true
}

func isSelector(e ast.Expr, parts ...string) bool {
	for i := len(parts) - 1; i > 0; i-- {
		s, ok := e.(*ast.SelectorExpr)
		if !ok || s.Sel.Name != parts[i] {
			return false
		}
		e = s.X
	}
	id, ok := e.(*ast.Ident)
	return ok && id.Name == parts[0]
}

type replyRow struct {
	method       string
	reqName      string
	reqType      uint64
	repName      string
	repType      uint64
	unexpectedOK bool
}

func clientMethod(c *Ctx, fd *ast.FuncDecl) (*replyRow, error) {
	name := fd.Name.Name
	locals := map[string]string{} // local variable -> composite literal type
	var row *replyRow
	var sends, asserts int
	var failure error
	fail := func(format string, a ...interface{}) {
		if failure == nil {
			failure = fmt.Errorf("client.%s: "+format, append([]interface{}{name}, a...)...)
		}
	}
	stmts := fd.Body.List
	for i, st := range stmts {
		as, ok := st.(*ast.AssignStmt)
		if !ok || len(as.Rhs) != 1 {
			continue
		}
		if tn, ok := compositeTypeName(as.Rhs[0]); ok && len(as.Lhs) == 1 {
			if id, ok := as.Lhs[0].(*ast.Ident); ok {
				locals[id.Name] = tn
			}
			continue
		}
		if call, ok := as.Rhs[0].(*ast.CallExpr); ok && isSelector(call.Fun, "c", "transport", "send") {
			sends++
			if len(call.Args) != 2 || len(as.Lhs) != 2 {
				fail("send call of unexpected arity")
				continue
			}
			if id, ok := as.Lhs[0].(*ast.Ident); !ok || id.Name != "resp" {
				fail("send result is not bound to `resp`")
			}
			if id, ok := call.Args[0].(*ast.Ident); !ok || id.Name != "ctx" {
				fail("send is not called with the method's own ctx")
			}
			tn, ok := compositeTypeName(call.Args[1])
			if !ok {
				if id, isID := call.Args[1].(*ast.Ident); isID {
					tn, ok = locals[id.Name]
				}
			}
			if !ok {
				fail("request argument of send is neither a composite literal nor a local bound to one")
				continue
			}
			v, _, err := c.msgType(tn)
			if err != nil {
				fail("%v", err)
				continue
			}
			row = &replyRow{method: name, reqName: tn, reqType: v}
			// the statement after the send must be `if err != nil { return …, err }`
			if i+1 >= len(stmts) {
				fail("nothing follows the send")
				continue
			}
			ifs, ok := stmts[i+1].(*ast.IfStmt)
			if !ok || !isErrNotNil(ifs.Cond) || !returnsLast(ifs.Body, "err") {
				fail("send is not followed by `if err != nil { return …, err }`")
			}
			continue
		}
		if ta, ok := as.Rhs[0].(*ast.TypeAssertExpr); ok {
			if id, isID := ta.X.(*ast.Ident); !isID || id.Name != "resp" {
				continue
			}
			asserts++
			if row == nil {
				fail("type assertion on resp before the send")
				continue
			}
			tid, ok := ta.Type.(*ast.Ident)
			if !ok || len(as.Lhs) != 2 {
				fail("type assertion on resp of unexpected shape")
				continue
			}
			if okid, isID := as.Lhs[1].(*ast.Ident); !isID || okid.Name != "ok" {
				fail("type assertion on resp is not of the comma-ok form")
				continue
			}
			v, _, err := c.msgType(tid.Name)
			if err != nil {
				fail("%v", err)
				continue
			}
			row.repName, row.repType = tid.Name, v
			if i+1 >= len(stmts) {
				fail("nothing follows the type assertion")
				continue
			}
			ifs, ok := stmts[i+1].(*ast.IfStmt)
			if !ok || !isNotOk(ifs.Cond) || ifs.Else != nil {
				fail("type assertion is not followed by `if !ok { … }`")
				continue
			}
			row.unexpectedOK = returnsLast(ifs.Body, "ErrUnexpectedMsg")
			if !row.unexpectedOK {
				fail("`if !ok` does not return ErrUnexpectedMsg as the error")
			}
		}
	}
	// any other use of c.transport.send (e.g. inside an expression) is unrecognised
	total := 0
	ast.Inspect(fd.Body, func(n ast.Node) bool {
		if call, ok := n.(*ast.CallExpr); ok && isSelector(call.Fun, "c", "transport", "send") {
			total++
		}
		return true
	})
	if total == 0 {
		return nil, nil
	}
	if failure != nil {
		return nil, failure
	}
	if total != 1 || sends != 1 || asserts != 1 || row == nil || row.repName == "" {
		return nil, fmt.Errorf("client.%s: expected exactly one `resp, err := c.transport.send(ctx, MessageT…)` and one `…, ok := resp.(MessageR…)` at statement level (found %d send calls, %d recognised, %d assertions)", name, total, sends, asserts)
	}
	return row, nil
}

func isErrNotNil(e ast.Expr) bool {
	b, ok := e.(*ast.BinaryExpr)
	if !ok || b.Op != token.NEQ {
		return false
	}
	x, ok1 := b.X.(*ast.Ident)
	y, ok2 := b.Y.(*ast.Ident)
	return ok1 && ok2 && x.Name == "err" && y.Name == "nil"
}

func isNotOk(e ast.Expr) bool {
	u, ok := e.(*ast.UnaryExpr)
	if !ok || u.Op != token.NOT {
		return false
	}
	x, ok := u.X.(*ast.Ident)
	return ok && x.Name == "ok"
}

// returnsLast: the block is exactly one return statement whose last result is
// the identifier name.
func returnsLast(b *ast.BlockStmt, name string) bool {
	if b == nil || len(b.List) != 1 {
		return false
	}
	ret, ok := b.List[0].(*ast.ReturnStmt)
	if !ok || len(ret.Results) == 0 {
		return false
	}
	id, ok := ret.Results[len(ret.Results)-1].(*ast.Ident)
	return ok && id.Name == name
}

// ---- facts about transport.go

func containsPanic(n ast.Node) bool {
	found := false
	ast.Inspect(n, func(x ast.Node) bool {
		if call, ok := x.(*ast.CallExpr); ok {
			if id, ok := call.Fun.(*ast.Ident); ok && id.Name == "panic" {
				found = true
			}
			if s, ok := call.Fun.(*ast.SelectorExpr); ok {
				if id, ok := s.X.(*ast.Ident); ok && id.Name == "log" && (strings.HasPrefix(s.Sel.Name, "Fatal") || strings.HasPrefix(s.Sel.Name, "Panic")) {
					found = true
				}
				if id, ok := s.X.(*ast.Ident); ok && id.Name == "os" && s.Sel.Name == "Exit" {
					found = true
				}
			}
		}
		return true
	})
	return found
}

// unknownTagPanics looks in transport.handle for
//
//	case b := <-responses:
//	    req, ok := outstanding[b.Tag]
//	    if !ok { BODY }
//
// and reports whether BODY can panic / exit the process.
func unknownTagPanics(c *Ctx) (bool, error) {
	fd := c.FuncDecl("transport", "handle")
	if fd == nil {
		return false, fmt.Errorf("transport.handle not found")
	}
	var res *bool
	var err error
	ast.Inspect(fd.Body, func(n ast.Node) bool {
		cc, ok := n.(*ast.CommClause)
		if !ok || cc.Comm == nil {
			return true
		}
		as, ok := cc.Comm.(*ast.AssignStmt)
		if !ok || len(as.Rhs) != 1 {
			return true
		}
		u, ok := as.Rhs[0].(*ast.UnaryExpr)
		if !ok || u.Op != token.ARROW {
			return true
		}
		if id, ok := u.X.(*ast.Ident); !ok || id.Name != "responses" {
			return true
		}
		// found the clause
		if len(cc.Body) < 2 {
			err = fmt.Errorf("transport.handle: `case b := <-responses` has an unexpected body")
			return false
		}
		look, ok := cc.Body[0].(*ast.AssignStmt)
		if !ok || len(look.Lhs) != 2 || len(look.Rhs) != 1 {
			err = fmt.Errorf("transport.handle: first statement of the responses case is not `req, ok := outstanding[b.Tag]`")
			return false
		}
		ix, ok := look.Rhs[0].(*ast.IndexExpr)
		if !ok || !isSelector(ix.Index, "b", "Tag") {
			err = fmt.Errorf("transport.handle: the responses case does not look the reply up by b.Tag")
			return false
		}
		if id, ok := ix.X.(*ast.Ident); !ok || id.Name != "outstanding" {
			err = fmt.Errorf("transport.handle: the responses case does not index `outstanding`")
			return false
		}
		ifs, ok := cc.Body[1].(*ast.IfStmt)
		if !ok || !isNotOk(ifs.Cond) || ifs.Else != nil {
			err = fmt.Errorf("transport.handle: lookup is not followed by `if !ok { … }`")
			return false
		}
		p := containsPanic(ifs.Body)
		if !p {
			// the non-panicking branch must leave the case without touching the map or a request
			if len(ifs.Body.List) == 0 {
				err = fmt.Errorf("transport.handle: `if !ok {}` falls through to the delivery with a nil request")
				return false
			}
			last := ifs.Body.List[len(ifs.Body.List)-1]
			br, ok := last.(*ast.BranchStmt)
			if !ok || br.Tok != token.CONTINUE {
				err = fmt.Errorf("transport.handle: the unknown-tag branch neither panics nor ends in `continue`")
				return false
			}
			bad := false
			ast.Inspect(ifs.Body, func(x ast.Node) bool {
				switch y := x.(type) {
				case *ast.SendStmt:
					bad = true
				case *ast.CallExpr:
					if id, ok := y.Fun.(*ast.Ident); ok && (id.Name == "delete" || id.Name == "close") {
						bad = true
					}
				case *ast.ReturnStmt:
					bad = true
				case *ast.AssignStmt:
					for _, l := range y.Lhs {
						if _, ok := l.(*ast.IndexExpr); ok {
							bad = true
						}
					}
				}
				return true
			})
			if bad {
				err = fmt.Errorf("transport.handle: the unknown-tag branch does more than log and continue (shape not modelled)")
				return false
			}
		}
		res = &p
		return false
	})
	if err != nil {
		return false, err
	}
	if res == nil {
		return false, fmt.Errorf("transport.handle: no `case b := <-responses` clause found")
	}
	return *res, nil
}

// readerRetry looks at the reader goroutine in transport.handle:
//
//	if err.Timeout() || err.Temporary() { [select {case <-t.ctx.Done(): return … default:}] continue loop }
//
// and reports whether the retry branch first stops when the session context
// is done.
func readerRetry(c *Ctx) (bool, error) {
	fd := c.FuncDecl("transport", "handle")
	if fd == nil {
		return false, fmt.Errorf("transport.handle not found")
	}
	var found *ast.IfStmt
	n := 0
	ast.Inspect(fd.Body, func(x ast.Node) bool {
		ifs, ok := x.(*ast.IfStmt)
		if !ok {
			return true
		}
		be, ok := ifs.Cond.(*ast.BinaryExpr)
		if !ok || be.Op != token.LOR {
			return true
		}
		isCall := func(e ast.Expr, name string) bool {
			call, ok := e.(*ast.CallExpr)
			return ok && isSelector(call.Fun, "err", name)
		}
		if isCall(be.X, "Timeout") && isCall(be.Y, "Temporary") {
			found = ifs
			n++
		}
		return true
	})
	if n != 1 {
		return false, fmt.Errorf("transport.handle: expected exactly one `if err.Timeout() || err.Temporary()` in the reader goroutine, found %d", n)
	}
	body := found.Body.List
	if len(body) == 0 {
		return false, fmt.Errorf("transport.handle: the read-timeout branch is empty (falls through to the fatal path?)")
	}
	br, ok := body[len(body)-1].(*ast.BranchStmt)
	if !ok || br.Tok != token.CONTINUE {
		return false, fmt.Errorf("transport.handle: the read-timeout branch does not end in `continue`")
	}
	if len(body) == 1 {
		return false, nil
	}
	if len(body) != 2 {
		return false, fmt.Errorf("transport.handle: the read-timeout branch has an unrecognised shape")
	}
	sel, ok := body[0].(*ast.SelectStmt)
	if !ok {
		return false, fmt.Errorf("transport.handle: the read-timeout branch does something other than select+continue")
	}
	ctxCase, def := false, false
	for _, cl := range sel.Body.List {
		cc := cl.(*ast.CommClause)
		if cc.Comm == nil {
			def = len(cc.Body) == 0
			continue
		}
		es, ok := cc.Comm.(*ast.ExprStmt)
		if !ok {
			return false, fmt.Errorf("transport.handle: unrecognised case in the read-timeout select")
		}
		u, ok := es.X.(*ast.UnaryExpr)
		if !ok || u.Op != token.ARROW {
			return false, fmt.Errorf("transport.handle: unrecognised case in the read-timeout select")
		}
		returns := len(cc.Body) == 1
		if returns {
			_, returns = cc.Body[0].(*ast.ReturnStmt)
		}
		if !returns {
			return false, fmt.Errorf("transport.handle: a case of the read-timeout select does not return")
		}
		if call, ok := u.X.(*ast.CallExpr); ok && isSelector(call.Fun, "t", "ctx", "Done") {
			ctxCase = true
		} else if !isSelector(u.X, "t", "closed") {
			return false, fmt.Errorf("transport.handle: the read-timeout select receives from an unexpected channel")
		}
	}
	if !def {
		return false, fmt.Errorf("transport.handle: the read-timeout select has no empty default case (it would block)")
	}
	return ctxCase, nil
}

// ownerArms inspects the owner loop's select in transport.handle:
//   - does the `case req := <-t.requests` arm call WriteFcall itself (old
//     shape), or only queue the frame (`pending = append(pending, …)`)?
//   - the `case w := <-failed` arm: `if outstanding[w.fcall.Tag] == w.req {
//     delete(outstanding, w.fcall.Tag) }; w.req.err <- w.err`
//   - the `case out <- next` arm pops the head of pending
//   - a goroutine of handle receives from `writes`, calls WriteFcall and sends
//     the frame back on `failed` only when the write failed.
func ownerArms(c *Ctx) (inline, guarded bool, err error) {
	fd := c.FuncDecl("transport", "handle")
	if fd == nil {
		return false, false, fmt.Errorf("transport.handle not found")
	}
	callsWrite := func(n ast.Node) bool {
		found := false
		ast.Inspect(n, func(x ast.Node) bool {
			if call, ok := x.(*ast.CallExpr); ok {
				if s, ok := call.Fun.(*ast.SelectorExpr); ok && s.Sel.Name == "WriteFcall" {
					found = true
				}
			}
			return true
		})
		return found
	}
	var reqArm, failedArm, handArm *ast.CommClause
	ast.Inspect(fd.Body, func(x ast.Node) bool {
		cc, ok := x.(*ast.CommClause)
		if !ok || cc.Comm == nil {
			return true
		}
		switch st := cc.Comm.(type) {
		case *ast.AssignStmt:
			if len(st.Rhs) == 1 {
				if u, ok := st.Rhs[0].(*ast.UnaryExpr); ok && u.Op == token.ARROW {
					if isSelector(u.X, "t", "requests") {
						reqArm = cc
					}
					if id, ok := u.X.(*ast.Ident); ok && id.Name == "failed" {
						failedArm = cc
					}
				}
			}
		case *ast.SendStmt:
			if id, ok := st.Chan.(*ast.Ident); ok && id.Name == "out" {
				handArm = cc
			}
		}
		return true
	})
	if reqArm == nil {
		return false, false, fmt.Errorf("transport.handle: no `case req := <-t.requests` arm")
	}
	inline = callsWrite(&ast.BlockStmt{List: reqArm.Body})
	if inline {
		if failedArm != nil || handArm != nil {
			return false, false, fmt.Errorf("transport.handle: the requests arm writes the frame itself AND a failed/hand-over arm exists (shape not modelled)")
		}
		return true, false, nil
	}
	if failedArm == nil || handArm == nil {
		return false, false, fmt.Errorf("transport.handle: the requests arm does not write the frame, but there is no `case out <- next` / `case w := <-failed` arm")
	}
	// requests arm: must append to pending
	appends := false
	ast.Inspect(&ast.BlockStmt{List: reqArm.Body}, func(x ast.Node) bool {
		if as, ok := x.(*ast.AssignStmt); ok && len(as.Lhs) == 1 && len(as.Rhs) == 1 {
			if id, ok := as.Lhs[0].(*ast.Ident); ok && id.Name == "pending" {
				if call, ok := as.Rhs[0].(*ast.CallExpr); ok {
					if f, ok := call.Fun.(*ast.Ident); ok && f.Name == "append" && len(call.Args) == 2 {
						if a0, ok := call.Args[0].(*ast.Ident); ok && a0.Name == "pending" {
							appends = true
						}
					}
				}
			}
		}
		return true
	})
	if !appends {
		return false, false, fmt.Errorf("transport.handle: the requests arm neither writes the frame nor appends it to `pending`")
	}
	// hand-over arm: pending = pending[1:]
	pops := false
	for _, st := range handArm.Body {
		if as, ok := st.(*ast.AssignStmt); ok && len(as.Lhs) == 1 && len(as.Rhs) == 1 {
			if id, ok := as.Lhs[0].(*ast.Ident); ok && id.Name == "pending" {
				if sl, ok := as.Rhs[0].(*ast.SliceExpr); ok && sl.High == nil {
					if lo, ok := sl.Low.(*ast.BasicLit); ok && lo.Value == "1" {
						pops = true
					}
				}
			}
		}
	}
	if !pops {
		return false, false, fmt.Errorf("transport.handle: the `case out <- next` arm does not pop the head of pending")
	}
	// failed arm
	if len(failedArm.Body) != 2 {
		return false, false, fmt.Errorf("transport.handle: the failed arm is not `[if guard] delete…; w.req.err <- w.err`")
	}
	snd, ok := failedArm.Body[1].(*ast.SendStmt)
	if !ok || !isSelector(snd.Chan, "w", "req", "err") || !isSelector(snd.Value, "w", "err") {
		return false, false, fmt.Errorf("transport.handle: the failed arm does not end in `w.req.err <- w.err`")
	}
	isDelete := func(st ast.Stmt) bool {
		if es, ok := st.(*ast.ExprStmt); ok {
			if call, ok := es.X.(*ast.CallExpr); ok {
				if f, ok := call.Fun.(*ast.Ident); ok && f.Name == "delete" && len(call.Args) == 2 && isSelector(call.Args[1], "w", "fcall", "Tag") {
					if m, ok := call.Args[0].(*ast.Ident); ok && m.Name == "outstanding" {
						return true
					}
				}
			}
		}
		return false
	}
	switch first := failedArm.Body[0].(type) {
	case *ast.IfStmt:
		be, ok := first.Cond.(*ast.BinaryExpr)
		if !ok || be.Op != token.EQL || !isSelector(be.Y, "w", "req") || first.Else != nil {
			return false, false, fmt.Errorf("transport.handle: the failed arm's guard is not `outstanding[w.fcall.Tag] == w.req`")
		}
		ix, ok := be.X.(*ast.IndexExpr)
		if !ok || !isSelector(ix.Index, "w", "fcall", "Tag") {
			return false, false, fmt.Errorf("transport.handle: the failed arm's guard does not index by w.fcall.Tag")
		}
		if len(first.Body.List) != 1 || !isDelete(first.Body.List[0]) {
			return false, false, fmt.Errorf("transport.handle: the failed arm's guard does not delete(outstanding, w.fcall.Tag)")
		}
		guarded = true
	default:
		if !isDelete(first) {
			return false, false, fmt.Errorf("transport.handle: the failed arm does not release the tag")
		}
	}
	// the writer goroutine
	writer := false
	ast.Inspect(fd.Body, func(x ast.Node) bool {
		gs, ok := x.(*ast.GoStmt)
		if !ok {
			return true
		}
		recvWrites, sendsFailed := false, false
		ast.Inspect(gs.Call, func(y ast.Node) bool {
			switch z := y.(type) {
			case *ast.UnaryExpr:
				if id, ok := z.X.(*ast.Ident); ok && z.Op == token.ARROW && id.Name == "writes" {
					recvWrites = true
				}
			case *ast.SendStmt:
				if id, ok := z.Chan.(*ast.Ident); ok && id.Name == "failed" {
					sendsFailed = true
				}
			}
			return true
		})
		if recvWrites && sendsFailed && callsWrite(gs.Call) {
			writer = true
		}
		return true
	})
	if !writer {
		return false, false, fmt.Errorf("transport.handle: no goroutine receives from `writes`, calls WriteFcall and reports on `failed`")
	}
	return false, guarded, nil
}

// sendSelects checks that transport.send consists of two select statements,
// each with a `<-t.closed` and a `<-ctx.Done()` case, the first sending on
// t.requests, the second receiving from req.err and req.response; and returns
// the constant resp.Type is compared with before the error conversion.
func sendSelects(c *Ctx) (first, second map[string]bool, rerr uint64, err error) {
	fd := c.FuncDecl("transport", "send")
	if fd == nil {
		return nil, nil, 0, fmt.Errorf("transport.send not found")
	}
	var sels []*ast.SelectStmt
	for _, st := range fd.Body.List {
		if s, ok := st.(*ast.SelectStmt); ok {
			sels = append(sels, s)
		}
	}
	if len(sels) != 2 {
		return nil, nil, 0, fmt.Errorf("transport.send: expected two top-level select statements, found %d", len(sels))
	}
	classify := func(s *ast.SelectStmt) (map[string]bool, *ast.CommClause, error) {
		m := map[string]bool{}
		var respClause *ast.CommClause
		for _, cl := range s.Body.List {
			cc := cl.(*ast.CommClause)
			if cc.Comm == nil {
				return nil, nil, fmt.Errorf("transport.send: select has a default case (shape not modelled)")
			}
			var recv ast.Expr
			switch x := cc.Comm.(type) {
			case *ast.ExprStmt:
				if u, ok := x.X.(*ast.UnaryExpr); ok && u.Op == token.ARROW {
					recv = u.X
				}
			case *ast.AssignStmt:
				if len(x.Rhs) == 1 {
					if u, ok := x.Rhs[0].(*ast.UnaryExpr); ok && u.Op == token.ARROW {
						recv = u.X
					}
				}
			case *ast.SendStmt:
				if isSelector(x.Chan, "t", "requests") {
					m["requests"] = true
					continue
				}
				return nil, nil, fmt.Errorf("transport.send: send on an unexpected channel")
			}
			switch {
			case recv == nil:
				return nil, nil, fmt.Errorf("transport.send: unrecognised select case")
			case isSelector(recv, "t", "closed"):
				m["closed"] = true
				if !returnsLast(&ast.BlockStmt{List: cc.Body}, "ErrClosed") {
					return nil, nil, fmt.Errorf("transport.send: `case <-t.closed` does not return ErrClosed")
				}
			case isSelector(recv, "req", "err"):
				m["err"] = true
				if !returnsLast(&ast.BlockStmt{List: cc.Body}, "err") {
					return nil, nil, fmt.Errorf("transport.send: `case err := <-req.err` does not return err")
				}
			case isSelector(recv, "req", "response"):
				m["response"] = true
				respClause = cc
			default:
				if call, ok := recv.(*ast.CallExpr); ok && isSelector(call.Fun, "ctx", "Done") {
					m["ctx"] = true
					ok2 := false
					if len(cc.Body) == 1 {
						if ret, ok := cc.Body[0].(*ast.ReturnStmt); ok && len(ret.Results) == 2 {
							if call, ok := ret.Results[1].(*ast.CallExpr); ok && isSelector(call.Fun, "ctx", "Err") {
								ok2 = true
							}
						}
					}
					if !ok2 {
						return nil, nil, fmt.Errorf("transport.send: `case <-ctx.Done()` does not return ctx.Err()")
					}
					continue
				}
				return nil, nil, fmt.Errorf("transport.send: receive from an unexpected channel")
			}
		}
		return m, respClause, nil
	}
	first, _, err = classify(sels[0])
	if err != nil {
		return
	}
	var rc *ast.CommClause
	second, rc, err = classify(sels[1])
	if err != nil {
		return
	}
	if rc == nil || len(rc.Body) != 2 {
		return nil, nil, 0, fmt.Errorf("transport.send: the response case is not `if resp.Type == X {…}; return resp.Message, nil`")
	}
	ifs, ok := rc.Body[0].(*ast.IfStmt)
	if !ok {
		return nil, nil, 0, fmt.Errorf("transport.send: the response case does not start with an if")
	}
	be, ok := ifs.Cond.(*ast.BinaryExpr)
	if !ok || be.Op != token.EQL || !isSelector(be.X, "resp", "Type") {
		return nil, nil, 0, fmt.Errorf("transport.send: the response case does not test resp.Type == …")
	}
	id, ok := be.Y.(*ast.Ident)
	if !ok {
		return nil, nil, 0, fmt.Errorf("transport.send: resp.Type is not compared with a named constant")
	}
	k, ok := c.Pkg.Scope().Lookup(id.Name).(*types.Const)
	if !ok {
		return nil, nil, 0, fmt.Errorf("transport.send: %s is not a constant", id.Name)
	}
	rerr, _ = constant.Uint64Val(k.Val())
	// inside: the error conversion must return the asserted MessageRerror as the error
	convOK := false
	if n := len(ifs.Body.List); n >= 1 {
		if ret, ok := ifs.Body.List[n-1].(*ast.ReturnStmt); ok && len(ret.Results) == 2 {
			if x, ok := ret.Results[0].(*ast.Ident); ok && x.Name == "nil" {
				if y, ok := ret.Results[1].(*ast.Ident); ok && y.Name != "nil" {
					convOK = true
				}
			}
		}
	}
	if !convOK {
		return nil, nil, 0, fmt.Errorf("transport.send: the resp.Type == %s branch does not end in `return nil, <the reply as error>`", id.Name)
	}
	ret, ok := rc.Body[1].(*ast.ReturnStmt)
	if !ok || len(ret.Results) != 2 || !isSelector(ret.Results[0], "resp", "Message") {
		return nil, nil, 0, fmt.Errorf("transport.send: the response case does not end in `return resp.Message, nil`")
	}
	return
}

// chanCaps returns the buffer capacities of fcallRequest.response and .err as
// built by newFcallRequest.
func chanCaps(c *Ctx) (resp, errc uint64, err error) {
	fd := c.FuncDecl("", "newFcallRequest")
	if fd == nil {
		return 0, 0, fmt.Errorf("newFcallRequest not found")
	}
	found := map[string]uint64{}
	ast.Inspect(fd.Body, func(n ast.Node) bool {
		kv, ok := n.(*ast.KeyValueExpr)
		if !ok {
			return true
		}
		key, ok := kv.Key.(*ast.Ident)
		if !ok {
			return true
		}
		call, ok := kv.Value.(*ast.CallExpr)
		if !ok {
			return true
		}
		if id, ok := call.Fun.(*ast.Ident); !ok || id.Name != "make" {
			return true
		}
		if len(call.Args) == 1 {
			found[key.Name] = 0
		} else if len(call.Args) == 2 {
			if tv, ok := c.Info.Types[call.Args[1]]; ok && tv.Value != nil {
				v, _ := constant.Uint64Val(tv.Value)
				found[key.Name] = v
			} else {
				err = fmt.Errorf("newFcallRequest: capacity of %s is not a constant", key.Name)
			}
		}
		return true
	})
	if err != nil {
		return
	}
	r, ok1 := found["response"]
	e, ok2 := found["err"]
	if !ok1 || !ok2 {
		return 0, 0, fmt.Errorf("newFcallRequest: response/err channels not found in the composite literal")
	}
	return r, e, nil
}

func bset(m map[string]bool, keys ...string) string {
	var out []string
	for _, k := range keys {
		if m[k] {
			out = append(out, "true")
		} else {
			out = append(out, "false")
		}
	}
	return strings.Join(out, ", ")
}

func genReplyTypes(c *Ctx) (string, error) {
	var rows []*replyRow
	for _, f := range c.Files {
		for _, d := range f.Decls {
			fd, ok := d.(*ast.FuncDecl)
			if !ok || fd.Recv == nil || fd.Body == nil || len(fd.Recv.List) != 1 {
				continue
			}
			t := fd.Recv.List[0].Type
			if s, ok := t.(*ast.StarExpr); ok {
				t = s.X
			}
			if id, ok := t.(*ast.Ident); !ok || id.Name != "client" {
				continue
			}
			row, err := clientMethod(c, fd)
			if err != nil {
				return "", err
			}
			if row != nil {
				rows = append(rows, row)
			}
		}
	}
	if len(rows) == 0 {
		return "", fmt.Errorf("no client method calling c.transport.send found")
	}
	sort.Slice(rows, func(i, j int) bool { return rows[i].reqType < rows[j].reqType })
	panics, err := unknownTagPanics(c)
	if err != nil {
		return "", err
	}
	first, second, rerr, err := sendSelects(c)
	if err != nil {
		return "", err
	}
	rc, ec, err := chanCaps(c)
	if err != nil {
		return "", err
	}
	retryStops, err := readerRetry(c)
	if err != nil {
		return "", err
	}
	inline, guarded, err := ownerArms(c)
	if err != nil {
		return "", err
	}
	var b strings.Builder
	b.WriteString("From Coq Require Import List NArith Bool.\nImport ListNotations.\nOpen Scope N_scope.\n\n")
	b.WriteString("(* csession.go: (method name, request FcallType built, reply FcallType asserted) *)\n")
	b.WriteString("Definition reply_types : list (list N * N * N) :=\n  [ ")
	for i, r := range rows {
		if i > 0 {
			b.WriteString(";\n    ")
		}
		fmt.Fprintf(&b, "(%s, %d, %d) (* %s: %s -> %s *)", coqString(r.method), r.reqType, r.repType, r.method, r.reqName, r.repName)
	}
	b.WriteString(" ].\n\n")
	fmt.Fprintf(&b, "(* transport.send: the reply type converted into the call's error *)\nDefinition send_error_type : N := %d.\n\n", rerr)
	fmt.Fprintf(&b, "(* transport.send, first select: has case <-t.closed, <-ctx.Done(), t.requests <- req *)\nDefinition send_first_cases : bool * bool * bool := (%s).\n", bset(first, "closed", "ctx", "requests"))
	fmt.Fprintf(&b, "(* transport.send, second select: has case <-t.closed, <-ctx.Done(), <-req.err, <-req.response *)\nDefinition send_second_cases : bool * bool * bool * bool := (%s).\n\n", bset(second, "closed", "ctx", "err", "response"))
	fmt.Fprintf(&b, "(* newFcallRequest: buffer capacities of the response and err channels *)\nDefinition response_chan_cap : N := %d.\nDefinition err_chan_cap : N := %d.\n\n", rc, ec)
	fmt.Fprintf(&b, "(* transport.handle: does the branch for a reply whose tag is not outstanding panic? *)\nDefinition unknown_tag_panics : bool := %v.\n", panics)
	fmt.Fprintf(&b, "\n(* transport.handle, reader goroutine: does the retry-on-timeout branch stop once t.ctx is done? *)\nDefinition reader_retry_stops_when_done : bool := %v.\n", retryStops)
	fmt.Fprintf(&b, "\n(* transport.handle: does the `case req := <-t.requests` arm call WriteFcall itself (true), or queue the\n   frame for the writer goroutine (false)?  In the latter case: does the `case w := <-failed` arm delete the\n   tag only if it still belongs to the failed request? *)\nDefinition owner_writes_inline : bool := %v.\nDefinition failed_arm_guarded : bool := %v.\n", inline, guarded)
	return b.String(), nil
}
