package main

import (
	"fmt"
	"go/ast"
	"go/constant"
	"go/token"
	"go/types"
	"sort"
	"strings"
)

// GenReplyTypes.v (used by C05/C12, Model/Tags.v):
//
//   - reply_types: for every method of the client session type that calls the
//     round tripper's send: the method name, the FcallType of the request
//     message it builds, the FcallType of the reply it asserts, and that the
//     failed assertion returns ErrUnexpectedMsg;
//   - facts about the client transport read off the AST: which cases the two
//     selects of send have and what they return, the value resp.Type is
//     compared with before the reply becomes the call's error, the capacities
//     of the per-request reply/error channels, whether the owner loop's "tag
//     not outstanding" branch panics, whether the requests arm writes the frame
//     itself or queues it, the guard of the failed-write arm, whether the
//     reader's retry-on-timeout branch stops once the session is over.
//
// The generator recognises things by what they ARE, not by what they are
// called: identifiers are resolved to go/types objects, struct fields are
// found by their type and role (the channel of *request the loop receives
// from, the `chan struct{}` that handle closes on return, ...), locals by
// their defining statement, constants by value.  Control flow is read through
// a small path walker (which statements run under "the lookup hit / missed",
// "resp.Type == K / != K", "ok / !ok"), so if/else, early return with the
// inverted condition, switch forms and independent statement order are all
// the same to it.  Exported names (Fcall, Message, Tag, Channel, FcallType,
// ErrClosed, ErrUnexpectedMsg, WriteFcall/ReadFcall, MessageT*/R*) are API
// and are used as such.  What cannot be recovered is an error: the tie to the
// source is then broken, which bin/check reports.
func init() { register("GenReplyTypes.v", genReplyTypes) }

// ---------------------------------------------------------------- resolution helpers

type an struct {
	c *Ctx
	// defs: object of a local -> the expression it was defined from (x := e,
	// var x = e), when it is assigned exactly once
	defs map[types.Object]ast.Expr

	fcallT, messageT, tagT, fcallTypeT types.Type
	channelT                           types.Type
	reqT, jobT, transT                 *types.Named // fcallRequest-like, fcallWrite-like, transport-like

	reqResp, reqErr, reqCtx  *types.Var // fields of reqT by role
	jobReq, jobFcall, jobErr *types.Var
	trRequests, trCtx        *types.Var
	trClosed, trShutdown     *types.Var

	sendFD, handleFD *ast.FuncDecl

	// tsAtom classifies a clause of a type switch for the walker (+1: the atom holds in it)
	tsAtom func(ts *ast.TypeSwitchStmt, cc *ast.CaseClause) int
}

func unparen(e ast.Expr) ast.Expr {
	for {
		p, ok := e.(*ast.ParenExpr)
		if !ok {
			return e
		}
		e = p.X
	}
}

// obj: the object an identifier or the selected name of a selector denotes.
func (a *an) obj(e ast.Expr) types.Object {
	switch x := unparen(e).(type) {
	case *ast.Ident:
		if o := a.c.Info.Uses[x]; o != nil {
			return o
		}
		return a.c.Info.Defs[x]
	case *ast.SelectorExpr:
		return a.c.Info.Uses[x.Sel]
	}
	return nil
}

func (a *an) typeOf(e ast.Expr) types.Type {
	if tv, ok := a.c.Info.Types[e]; ok && tv.Type != nil {
		return tv.Type
	}
	if o := a.obj(e); o != nil {
		return o.Type()
	}
	return nil
}

// through follows a local back to the expression it was defined from.
func (a *an) through(e ast.Expr) ast.Expr {
	for i := 0; i < 8; i++ {
		e = unparen(e)
		id, ok := e.(*ast.Ident)
		if !ok {
			return e
		}
		d, ok := a.defs[a.obj(id)]
		if !ok {
			return e
		}
		e = d
	}
	return e
}

func (a *an) collectDefs() {
	a.defs = map[types.Object]ast.Expr{}
	count := map[types.Object]int{}
	for _, f := range a.c.Files {
		ast.Inspect(f, func(n ast.Node) bool {
			switch s := n.(type) {
			case *ast.AssignStmt:
				for i, l := range s.Lhs {
					id, ok := l.(*ast.Ident)
					if !ok {
						continue
					}
					o := a.obj(id)
					if o == nil {
						continue
					}
					count[o]++
					if len(s.Lhs) == len(s.Rhs) {
						a.defs[o] = s.Rhs[i]
					} else {
						count[o] += 2 // multi-value: not an alias
					}
				}
			case *ast.ValueSpec:
				for i, id := range s.Names {
					o := a.c.Info.Defs[id]
					if o == nil {
						continue
					}
					if len(s.Values) == len(s.Names) {
						count[o]++
						a.defs[o] = s.Values[i]
					}
				}
			case *ast.IncDecStmt:
				if o := a.obj(s.X); o != nil {
					count[o] += 2
				}
			case *ast.RangeStmt:
				for _, e := range []ast.Expr{s.Key, s.Value} {
					if e != nil {
						if o := a.obj(e); o != nil {
							count[o] += 2
						}
					}
				}
			}
			return true
		})
	}
	for o, n := range count {
		if n != 1 {
			delete(a.defs, o)
		}
	}
}

func isContext(t types.Type) bool { return t != nil && types.TypeString(t, nil) == "context.Context" }
func isErrorT(t types.Type) bool  { return t != nil && types.TypeString(t, nil) == "error" }

func chanElem(t types.Type) types.Type {
	if t == nil {
		return nil
	}
	if ch, ok := t.Underlying().(*types.Chan); ok {
		return ch.Elem()
	}
	return nil
}

func ptrTo(t types.Type, n types.Type) bool {
	p, ok := t.(*types.Pointer)
	return ok && n != nil && types.Identical(p.Elem(), n)
}

func isEmptyStruct(t types.Type) bool {
	s, ok := t.Underlying().(*types.Struct)
	return ok && s.NumFields() == 0
}

// fieldWhere: the unique field of the named struct satisfying pred.
func fieldWhere(n *types.Named, pred func(types.Type) bool) (*types.Var, int) {
	s, ok := n.Underlying().(*types.Struct)
	if !ok {
		return nil, 0
	}
	var f *types.Var
	k := 0
	for i := 0; i < s.NumFields(); i++ {
		if pred(s.Field(i).Type()) {
			f = s.Field(i)
			k++
		}
	}
	return f, k
}

func (a *an) scopeType(name string) (types.Type, error) {
	o := a.c.Pkg.Scope().Lookup(name)
	tn, ok := o.(*types.TypeName)
	if !ok {
		return nil, fmt.Errorf("exported type %s not found", name)
	}
	return tn.Type(), nil
}

// namedStructs: every named struct type declared in the package.
func (a *an) namedStructs() []*types.Named {
	var out []*types.Named
	sc := a.c.Pkg.Scope()
	for _, n := range sc.Names() {
		if tn, ok := sc.Lookup(n).(*types.TypeName); ok {
			if nt, ok := tn.Type().(*types.Named); ok {
				if _, ok := nt.Underlying().(*types.Struct); ok {
					out = append(out, nt)
				}
			}
		}
	}
	return out
}

func (a *an) setup() error {
	var err error
	if a.fcallT, err = a.scopeType("Fcall"); err != nil {
		return err
	}
	if a.messageT, err = a.scopeType("Message"); err != nil {
		return err
	}
	if a.tagT, err = a.scopeType("Tag"); err != nil {
		return err
	}
	if a.fcallTypeT, err = a.scopeType("FcallType"); err != nil {
		return err
	}
	if a.channelT, err = a.scopeType("Channel"); err != nil {
		return err
	}
	isChanPtrFcall := func(t types.Type) bool { e := chanElem(t); return e != nil && ptrTo(e, a.fcallT) }
	isChanErr := func(t types.Type) bool { e := chanElem(t); return e != nil && isErrorT(e) }
	// the request: the struct with one `chan *Fcall` and one `chan error` field
	for _, n := range a.namedStructs() {
		f1, k1 := fieldWhere(n, isChanPtrFcall)
		f2, k2 := fieldWhere(n, isChanErr)
		if k1 == 1 && k2 == 1 {
			if a.reqT != nil {
				return fmt.Errorf("two struct types look like the per-call request (a `chan *Fcall` and a `chan error` field): %s and %s", a.reqT.Obj().Name(), n.Obj().Name())
			}
			a.reqT, a.reqResp, a.reqErr = n, f1, f2
		}
	}
	if a.reqT == nil {
		return fmt.Errorf("no struct type with one `chan *Fcall` and one `chan error` field (the per-call request) found")
	}
	a.reqCtx, _ = fieldWhere(a.reqT, isContext)
	isPtrReq := func(t types.Type) bool { return ptrTo(t, a.reqT) }
	// the queued frame: the struct with a *request, a *Fcall and an error
	for _, n := range a.namedStructs() {
		f1, k1 := fieldWhere(n, isPtrReq)
		f2, k2 := fieldWhere(n, func(t types.Type) bool { return ptrTo(t, a.fcallT) })
		f3, k3 := fieldWhere(n, isErrorT)
		if k1 == 1 && k2 == 1 && k3 == 1 {
			if a.jobT != nil {
				return fmt.Errorf("two struct types look like the queued frame (*request, *Fcall, error)")
			}
			a.jobT, a.jobReq, a.jobFcall, a.jobErr = n, f1, f2, f3
		}
	}
	// the transport: the struct with a `chan *request` field
	for _, n := range a.namedStructs() {
		f, k := fieldWhere(n, func(t types.Type) bool { e := chanElem(t); return e != nil && isPtrReq(e) })
		if k == 1 {
			if a.transT != nil {
				return fmt.Errorf("two struct types have a `chan *%s` field", a.reqT.Obj().Name())
			}
			a.transT, a.trRequests = n, f
		}
	}
	if a.transT == nil {
		return fmt.Errorf("no struct type with a `chan *%s` field (the client transport) found", a.reqT.Obj().Name())
	}
	a.trCtx, _ = fieldWhere(a.transT, isContext)
	// its methods: send by signature, handle as the method started with `go`
	recvIs := func(fd *ast.FuncDecl, n *types.Named) bool {
		if fd.Recv == nil || len(fd.Recv.List) != 1 {
			return false
		}
		t := a.typeOf(fd.Recv.List[0].Type)
		if p, ok := t.(*types.Pointer); ok {
			t = p.Elem()
		}
		return t != nil && types.Identical(t, n)
	}
	started := map[types.Object]bool{}
	for _, f := range a.c.Files {
		ast.Inspect(f, func(n ast.Node) bool {
			if g, ok := n.(*ast.GoStmt); ok {
				if o := a.obj(g.Call.Fun); o != nil {
					started[o] = true
				}
			}
			return true
		})
	}
	for _, f := range a.c.Files {
		for _, d := range f.Decls {
			fd, ok := d.(*ast.FuncDecl)
			if !ok || fd.Body == nil || !recvIs(fd, a.transT) {
				continue
			}
			o, _ := a.c.Info.Defs[fd.Name].(*types.Func)
			if o == nil {
				continue
			}
			if a.isSendSig(o.Type().(*types.Signature)) {
				if a.sendFD != nil {
					return fmt.Errorf("two methods of %s have the signature of send", a.transT.Obj().Name())
				}
				a.sendFD = fd
			}
			if started[o] {
				if a.handleFD != nil {
					return fmt.Errorf("two methods of %s are started as goroutines", a.transT.Obj().Name())
				}
				a.handleFD = fd
			}
		}
	}
	if a.sendFD == nil {
		return fmt.Errorf("%s has no method (context.Context, Message) (Message, error)", a.transT.Obj().Name())
	}
	if a.handleFD == nil {
		return fmt.Errorf("no method of %s is started with `go`", a.transT.Obj().Name())
	}
	// closed = the `chan struct{}` field handle closes; shutdown = the other one
	var cs []*types.Var
	st := a.transT.Underlying().(*types.Struct)
	for i := 0; i < st.NumFields(); i++ {
		if e := chanElem(st.Field(i).Type()); e != nil && isEmptyStruct(e) {
			cs = append(cs, st.Field(i))
		}
	}
	if len(cs) != 2 {
		return fmt.Errorf("%s: expected two `chan struct{}` fields (closed, shutdown), found %d", a.transT.Obj().Name(), len(cs))
	}
	closedIn := map[*types.Var]bool{}
	ast.Inspect(a.handleFD.Body, func(n ast.Node) bool {
		if call, ok := n.(*ast.CallExpr); ok && len(call.Args) == 1 {
			if id, ok := unparen(call.Fun).(*ast.Ident); ok {
				if _, isB := a.obj(id).(*types.Builtin); isB && id.Name == "close" {
					if v, ok := a.obj(call.Args[0]).(*types.Var); ok {
						closedIn[v] = true
					}
				}
			}
		}
		return true
	})
	switch {
	case closedIn[cs[0]] && !closedIn[cs[1]]:
		a.trClosed, a.trShutdown = cs[0], cs[1]
	case closedIn[cs[1]] && !closedIn[cs[0]]:
		a.trClosed, a.trShutdown = cs[1], cs[0]
	default:
		return fmt.Errorf("%s.%s: cannot tell which `chan struct{}` field is closed when the loop returns", a.transT.Obj().Name(), a.handleFD.Name.Name)
	}
	return nil
}

func (a *an) isSendSig(s *types.Signature) bool {
	return s.Params().Len() == 2 && s.Results().Len() == 2 &&
		isContext(s.Params().At(0).Type()) && types.Identical(s.Params().At(1).Type(), a.messageT) &&
		types.Identical(s.Results().At(0).Type(), a.messageT) && isErrorT(s.Results().At(1).Type())
}

func (a *an) isNil(e ast.Expr) bool {
	_, ok := a.obj(e).(*types.Nil)
	return ok
}

func (a *an) isBuiltinCall(e ast.Expr, name string) (*ast.CallExpr, bool) {
	call, ok := unparen(e).(*ast.CallExpr)
	if !ok {
		return nil, false
	}
	id, ok := unparen(call.Fun).(*ast.Ident)
	if !ok || id.Name != name {
		return nil, false
	}
	_, isB := a.obj(id).(*types.Builtin)
	return call, isB
}

// recvOf: `<-ch` (as expression statement, or the rhs of an assignment) -> ch and the bound variable
func (a *an) commRecv(s ast.Stmt) (ch ast.Expr, bound types.Object, ok bool) {
	var e ast.Expr
	switch x := s.(type) {
	case *ast.ExprStmt:
		e = x.X
	case *ast.AssignStmt:
		if len(x.Rhs) != 1 {
			return nil, nil, false
		}
		e = x.Rhs[0]
		if len(x.Lhs) >= 1 {
			bound = a.obj(x.Lhs[0])
		}
	default:
		return nil, nil, false
	}
	u, isU := unparen(e).(*ast.UnaryExpr)
	if !isU || u.Op != token.ARROW {
		return nil, nil, false
	}
	return unparen(u.X), bound, true
}

// isDoneOf: e is X.Done() with X of type context.Context; returns X
func (a *an) doneOf(e ast.Expr) (ast.Expr, bool) {
	call, ok := unparen(e).(*ast.CallExpr)
	if !ok || len(call.Args) != 0 {
		return nil, false
	}
	sel, ok := unparen(call.Fun).(*ast.SelectorExpr)
	if !ok || sel.Sel.Name != "Done" || !isContext(a.typeOf(sel.X)) {
		return nil, false
	}
	return sel.X, true
}

// isField: e is a selector denoting exactly this struct field
func (a *an) isField(e ast.Expr, f *types.Var) bool {
	sel, ok := unparen(e).(*ast.SelectorExpr)
	return ok && f != nil && a.c.Info.Uses[sel.Sel] == f
}

// fieldOf: e (through local aliases) is X.f for field f; returns X
func (a *an) fieldOf(e ast.Expr, f *types.Var) (ast.Expr, bool) {
	e = a.through(e)
	if !a.isField(e, f) {
		return nil, false
	}
	return e.(*ast.SelectorExpr).X, true
}

// isVar: e denotes the variable o, directly or through single-assignment local aliases
func (a *an) isVar(e ast.Expr, o types.Object) bool {
	if o == nil {
		return false
	}
	for i := 0; i < 8; i++ {
		e = unparen(e)
		if a.obj(e) == o {
			return true
		}
		id, ok := e.(*ast.Ident)
		if !ok {
			return false
		}
		d, ok := a.defs[a.obj(id)]
		if !ok {
			return false
		}
		e = d
	}
	return false
}

// ---------------------------------------------------------------- path walker

// A condition atom: +1 the atom holds, -1 it does not, 0 unrelated.
type atomFn func(e ast.Expr) int

const dead = 2

func combine(cond, c int) int {
	switch {
	case cond == dead:
		return dead
	case c == 0:
		return cond
	case cond == 0 || cond == c:
		return c
	}
	return dead
}

// negatable wraps an atom so that !e, e && true-ish forms are understood.
func withNot(f atomFn) atomFn {
	var g atomFn
	g = func(e ast.Expr) int {
		e = unparen(e)
		if u, ok := e.(*ast.UnaryExpr); ok && u.Op == token.NOT {
			return -g(u.X)
		}
		return f(e)
	}
	return g
}

type visitFn func(s ast.Stmt, cond int)

// walk visits every simple statement of the list together with what is known
// about the atom on the path reaching it; it returns whether control can fall
// off the end and what is known then.  return/continue/break/goto/panic(...)
// end a path.
func (a *an) walk(stmts []ast.Stmt, cond int, atom atomFn, visit visitFn) (falls bool, after int) {
	for _, s := range stmts {
		if cond == dead {
			return false, dead
		}
		switch x := s.(type) {
		case *ast.ReturnStmt, *ast.BranchStmt:
			visit(s, cond)
			return false, cond
		case *ast.BlockStmt:
			f, c := a.walk(x.List, cond, atom, visit)
			if !f {
				return false, c
			}
			cond = c
		case *ast.LabeledStmt:
			f, c := a.walk([]ast.Stmt{x.Stmt}, cond, atom, visit)
			if !f {
				return false, c
			}
			cond = c
		case *ast.IfStmt:
			if x.Init != nil {
				visit(x.Init, cond)
			}
			c := atom(x.Cond)
			tf, tc := a.walk(x.Body.List, combine(cond, c), atom, visit)
			ef, ec := true, combine(cond, -c)
			if x.Else != nil {
				ef, ec = a.walk([]ast.Stmt{x.Else}, combine(cond, -c), atom, visit)
			}
			if tc == dead {
				tf = false
			}
			if ec == dead {
				ef = false
			}
			switch {
			case tf && ef:
				if tc != ec {
					tc = cond
				}
				cond = tc
			case tf:
				cond = tc
			case ef:
				cond = ec
			default:
				return false, cond
			}
		case *ast.SwitchStmt:
			if x.Init != nil {
				visit(x.Init, cond)
			}
			rest := cond // what is known when no earlier case matched
			anyFalls, fallCond, first := false, 0, true
			hasDefault := false
			merge := func(f bool, c int) {
				if !f || c == dead {
					return
				}
				if first {
					fallCond, first = c, false
				} else if fallCond != c {
					fallCond = cond
				}
				anyFalls = true
			}
			var deflt *ast.CaseClause
			for _, cl := range x.Body.List {
				cc := cl.(*ast.CaseClause)
				if cc.List == nil {
					hasDefault, deflt = true, cc
					continue
				}
				c := 0
				if len(cc.List) == 1 {
					if x.Tag == nil {
						c = atom(cc.List[0])
					} else {
						c = atom(&ast.BinaryExpr{X: x.Tag, Op: token.EQL, Y: cc.List[0]})
					}
				}
				f, fc := a.walk(cc.Body, combine(rest, c), atom, visit)
				merge(f, fc)
				rest = combine(rest, -c)
			}
			if hasDefault {
				f, fc := a.walk(deflt.Body, rest, atom, visit)
				merge(f, fc)
			} else {
				merge(true, rest)
			}
			if !anyFalls {
				return false, cond
			}
			cond = fallCond
		case *ast.TypeSwitchStmt:
			visit(s, cond)
			rest := cond
			anyFalls, fallCond, first := false, 0, true
			merge := func(f bool, c int) {
				if !f || c == dead {
					return
				}
				if first {
					fallCond, first = c, false
				} else if fallCond != c {
					fallCond = cond
				}
				anyFalls = true
			}
			var deflt *ast.CaseClause
			for _, cl := range x.Body.List {
				cc := cl.(*ast.CaseClause)
				if cc.List == nil {
					deflt = cc
					continue
				}
				c := 0
				if a.tsAtom != nil {
					c = a.tsAtom(x, cc)
				}
				f, fc := a.walk(cc.Body, combine(rest, c), atom, visit)
				merge(f, fc)
				rest = combine(rest, -c)
			}
			if deflt != nil {
				f, fc := a.walk(deflt.Body, rest, atom, visit)
				merge(f, fc)
			} else {
				merge(true, rest)
			}
			if !anyFalls {
				return false, cond
			}
			cond = fallCond
		case *ast.ExprStmt:
			visit(s, cond)
			if a.containsPanic([]ast.Stmt{s}) { // panic(…), log.Fatal*/Panic*, os.Exit: the path ends here
				return false, cond
			}
		default:
			visit(s, cond)
		}
	}
	return true, cond
}

// ---------------------------------------------------------------- csession.go

type replyRow struct {
	method       string
	reqName      string
	reqType      uint64
	repName      string
	repType      uint64
	unexpectedOK bool
}

// msgTypeOf: the FcallType value returned by (T).Type() for message type T.
func (a *an) msgTypeOf(t types.Type) (uint64, string, error) {
	n, ok := t.(*types.Named)
	if !ok {
		return 0, "", fmt.Errorf("%v is not a named message type", t)
	}
	for _, f := range a.c.Files {
		for _, d := range f.Decls {
			fd, ok := d.(*ast.FuncDecl)
			if !ok || fd.Recv == nil || fd.Body == nil || len(fd.Recv.List) != 1 {
				continue
			}
			o, _ := a.c.Info.Defs[fd.Name].(*types.Func)
			if o == nil {
				continue
			}
			sig := o.Type().(*types.Signature)
			if sig.Params().Len() != 0 || sig.Results().Len() != 1 || !types.Identical(sig.Results().At(0).Type(), a.fcallTypeT) {
				continue
			}
			rt := sig.Recv().Type()
			if p, ok := rt.(*types.Pointer); ok {
				rt = p.Elem()
			}
			if !types.Identical(rt, n) {
				continue
			}
			if len(fd.Body.List) != 1 {
				return 0, "", fmt.Errorf("(%s).%s(): not a single return", n.Obj().Name(), fd.Name.Name)
			}
			ret, ok := fd.Body.List[0].(*ast.ReturnStmt)
			if !ok || len(ret.Results) != 1 {
				return 0, "", fmt.Errorf("(%s).%s(): not a single return", n.Obj().Name(), fd.Name.Name)
			}
			tv := a.c.Info.Types[ret.Results[0]]
			if tv.Value == nil {
				return 0, "", fmt.Errorf("(%s).%s(): does not return a constant", n.Obj().Name(), fd.Name.Name)
			}
			v, ok := constant.Uint64Val(tv.Value)
			if !ok {
				return 0, "", fmt.Errorf("(%s).%s(): constant has no uint64 value", n.Obj().Name(), fd.Name.Name)
			}
			return v, n.Obj().Name(), nil
		}
	}
	return 0, "", fmt.Errorf("message type %s has no method returning FcallType", n.Obj().Name())
}

// isSendCall: a call of a method/func with send's signature (the round tripper's send)
func (a *an) isSendCall(call *ast.CallExpr) bool {
	f, ok := a.obj(call.Fun).(*types.Func)
	if !ok || !a.isSendSig(f.Type().(*types.Signature)) {
		return false
	}
	// ... invoked on the transport itself or on an interface the transport implements
	sel, ok := unparen(call.Fun).(*ast.SelectorExpr)
	if !ok {
		return false
	}
	rt := a.typeOf(sel.X)
	if rt == nil {
		return false
	}
	pt := types.NewPointer(a.transT)
	if types.Identical(rt, pt) || types.Identical(rt, a.transT) {
		return true
	}
	if it, ok := rt.Underlying().(*types.Interface); ok {
		return types.Implements(pt, it)
	}
	return false
}

func (a *an) clientMethod(fd *ast.FuncDecl) (*replyRow, error) {
	name := fd.Name.Name
	fail := func(format string, args ...interface{}) (*replyRow, error) {
		return nil, fmt.Errorf("client method %s: "+format, append([]interface{}{name}, args...)...)
	}
	total := 0
	ast.Inspect(fd.Body, func(n ast.Node) bool {
		if call, ok := n.(*ast.CallExpr); ok && a.isSendCall(call) {
			total++
		}
		return true
	})
	if total == 0 {
		return nil, nil
	}
	if total != 1 {
		return fail("%d calls of send (shape not modelled)", total)
	}
	mo, _ := a.c.Info.Defs[fd.Name].(*types.Func)
	sig := mo.Type().(*types.Signature)
	if sig.Params().Len() == 0 || !isContext(sig.Params().At(0).Type()) {
		return fail("first parameter is not a context.Context")
	}
	ctxParam := sig.Params().At(0)
	errUnexpected := a.c.Pkg.Scope().Lookup("ErrUnexpectedMsg")
	if errUnexpected == nil {
		return fail("ErrUnexpectedMsg not found")
	}

	// the send statement, at statement level of the body
	var sendIdx = -1
	var respObj, errObj types.Object
	var sendCall *ast.CallExpr
	stmts := fd.Body.List
	for i, st := range stmts {
		var as *ast.AssignStmt
		switch x := st.(type) {
		case *ast.AssignStmt:
			as = x
		case *ast.IfStmt: // if resp, err := send(...); err != nil {...}  is not accepted: resp would be out of scope
		}
		if as == nil || len(as.Rhs) != 1 || len(as.Lhs) != 2 {
			continue
		}
		if call, ok := unparen(as.Rhs[0]).(*ast.CallExpr); ok && a.isSendCall(call) {
			sendIdx, sendCall = i, call
			respObj, errObj = a.obj(as.Lhs[0]), a.obj(as.Lhs[1])
		}
	}
	if sendIdx < 0 || respObj == nil || errObj == nil {
		return fail("the call of send is not a statement `resp, err := …send(ctx, msg)`")
	}
	if len(sendCall.Args) != 2 || a.obj(sendCall.Args[0]) != types.Object(ctxParam) {
		return fail("send is not called with the method's own context")
	}
	reqExpr := a.through(sendCall.Args[1])
	cl, ok := reqExpr.(*ast.CompositeLit)
	if !ok {
		return fail("the request passed to send is neither a composite literal nor a local bound to one")
	}
	reqV, reqName, err := a.msgTypeOf(a.typeOf(cl))
	if err != nil {
		return fail("%v", err)
	}
	row := &replyRow{method: name, reqName: reqName, reqType: reqV}

	// after the send: under err != nil every return hands back err
	errNonNil := withNot(func(e ast.Expr) int {
		b, ok := e.(*ast.BinaryExpr)
		if !ok || (b.Op != token.NEQ && b.Op != token.EQL) {
			return 0
		}
		x, y := b.X, b.Y
		if a.isNil(x) {
			x, y = y, x
		}
		if !a.isNil(y) || a.obj(x) != errObj {
			return 0
		}
		if b.Op == token.NEQ {
			return 1
		}
		return -1
	})
	lastIs := func(ret *ast.ReturnStmt, o types.Object) bool {
		return len(ret.Results) > 0 && a.obj(ret.Results[len(ret.Results)-1]) == o
	}
	rest := stmts[sendIdx+1:]
	nErrRet, badErrRet := 0, false
	var assertStmt ast.Stmt
	var assertCond int
	var okObj types.Object
	var typeSwitch *ast.TypeSwitchStmt
	a.walk(rest, 0, errNonNil, func(s ast.Stmt, cond int) {
		if ret, ok := s.(*ast.ReturnStmt); ok && cond == 1 {
			nErrRet++
			if !lastIs(ret, errObj) {
				badErrRet = true
			}
		}
		// the type assertion on resp
		switch x := s.(type) {
		case *ast.AssignStmt:
			if len(x.Rhs) == 1 {
				if ta, ok := unparen(x.Rhs[0]).(*ast.TypeAssertExpr); ok && ta.Type != nil && a.obj(ta.X) == respObj {
					if assertStmt != nil {
						badErrRet = true
					}
					assertStmt, assertCond = s, cond
					if len(x.Lhs) == 2 {
						okObj = a.obj(x.Lhs[1])
					}
					if v, nme, err := a.msgTypeOf(a.typeOf(ta.Type)); err == nil {
						row.repType, row.repName = v, nme
					}
				}
			}
		case *ast.TypeSwitchStmt:
			var tx ast.Expr
			switch as := x.Assign.(type) {
			case *ast.AssignStmt:
				tx = as.Rhs[0]
			case *ast.ExprStmt:
				tx = as.X
			}
			if ta, ok := unparen(tx).(*ast.TypeAssertExpr); ok && a.obj(ta.X) == respObj {
				if assertStmt != nil {
					badErrRet = true
				}
				assertStmt, assertCond, typeSwitch = s, cond, x
			}
		}
	})
	if nErrRet == 0 || badErrRet {
		return fail("after the send there is no `if err != nil { return …, err }` (or a return on that path does not hand back err)")
	}
	if typeSwitch != nil {
		// exactly one clause names (one) message type: being in it is "the assertion held"
		n := 0
		for _, cl := range typeSwitch.Body.List {
			cc := cl.(*ast.CaseClause)
			for _, t := range cc.List {
				v, nme, err := a.msgTypeOf(a.typeOf(t))
				if err != nil || len(cc.List) != 1 {
					return fail("the type switch on the reply has a clause that is not a single message type")
				}
				row.repType, row.repName = v, nme
				n++
			}
		}
		if n != 1 {
			return fail("the type switch on the reply names %d message types (shape not modelled)", n)
		}
		a.tsAtom = func(ts *ast.TypeSwitchStmt, cc *ast.CaseClause) int {
			if ts == typeSwitch && cc.List != nil {
				return 1
			}
			return 0
		}
		defer func() { a.tsAtom = nil }()
	}
	if assertStmt == nil || (okObj == nil && typeSwitch == nil) || row.repName == "" {
		return fail("no comma-ok type assertion (or type switch) of the reply to a message type found")
	}
	if assertCond == 1 {
		return fail("the reply is asserted on the path where send failed")
	}
	// under !ok every return hands back ErrUnexpectedMsg; there is one
	okAtom := withNot(func(e ast.Expr) int {
		if okObj != nil && a.obj(e) == okObj {
			return 1
		}
		return 0
	})
	nMiss, badMiss, nHit := 0, false, 0
	seen := false
	a.walk(rest, 0, func(e ast.Expr) int {
		if c := okAtom(e); c != 0 {
			return c
		}
		return 0
	}, func(s ast.Stmt, cond int) {
		if s == assertStmt {
			seen = true
			return
		}
		if !seen {
			return
		}
		if ret, ok := s.(*ast.ReturnStmt); ok {
			switch cond {
			case -1:
				nMiss++
				if !lastIs(ret, errUnexpected) {
					badMiss = true
				}
			case 1:
				nHit++
			case 0:
				// a return reached whether or not the assertion held: it must not claim success for a wrong type
				if !lastIs(ret, errUnexpected) {
					nHit++
				} else {
					nMiss++
				}
			}
		}
	})
	if nMiss == 0 || badMiss {
		return fail("a failed type assertion of the reply does not return ErrUnexpectedMsg as the error")
	}
	// if the assertion was in an if-init (`if x, ok := resp.(T); ok {…}`) the walker saw it through visit(Init)
	row.unexpectedOK = true
	return row, nil
}

// ---------------------------------------------------------------- transport.send

func (a *an) sendSelects() (first, second map[string]bool, rerr uint64, err error) {
	fd := a.sendFD
	fn := a.transT.Obj().Name() + "." + fd.Name.Name
	mo := a.c.Info.Defs[fd.Name].(*types.Func)
	ctxParam := types.Object(mo.Type().(*types.Signature).Params().At(0))
	errClosed := a.c.Pkg.Scope().Lookup("ErrClosed")
	var sels []*ast.SelectStmt
	for _, st := range fd.Body.List {
		if s, ok := st.(*ast.SelectStmt); ok {
			sels = append(sels, s)
		}
	}
	if len(sels) != 2 {
		return nil, nil, 0, fmt.Errorf("%s: expected two top-level select statements, found %d", fn, len(sels))
	}
	// every path of a clause body returns; results checked by `good`
	allReturn := func(body []ast.Stmt, good func(*ast.ReturnStmt) bool) bool {
		okAll, n := true, 0
		falls, _ := a.walk(body, 0, func(ast.Expr) int { return 0 }, func(s ast.Stmt, _ int) {
			if r, ok := s.(*ast.ReturnStmt); ok {
				n++
				if !good(r) {
					okAll = false
				}
			}
		})
		return okAll && n > 0 && !falls
	}
	var respClause *ast.CommClause
	var respVar types.Object
	classify := func(s *ast.SelectStmt) (map[string]bool, error) {
		m := map[string]bool{}
		for _, cl := range s.Body.List {
			cc := cl.(*ast.CommClause)
			if cc.Comm == nil {
				return nil, fmt.Errorf("%s: a select has a default case (shape not modelled)", fn)
			}
			if snd, ok := cc.Comm.(*ast.SendStmt); ok {
				if a.isField(snd.Chan, a.trRequests) && ptrTo(a.typeOf(snd.Value), a.reqT) {
					m["requests"] = true
					if err := a.freshRequest(snd.Value); err != nil {
						return nil, fmt.Errorf("%s: %v", fn, err)
					}
					continue
				}
				return nil, fmt.Errorf("%s: send on a channel that is not the transport's request channel", fn)
			}
			ch, bound, ok := a.commRecv(cc.Comm)
			if !ok {
				return nil, fmt.Errorf("%s: unrecognised select case", fn)
			}
			switch {
			case a.isField(ch, a.trClosed):
				m["closed"] = true
				if !allReturn(cc.Body, func(r *ast.ReturnStmt) bool {
					return len(r.Results) == 2 && a.isNil(r.Results[0]) && a.obj(r.Results[1]) == errClosed
				}) {
					return nil, fmt.Errorf("%s: the case receiving from the closed channel does not return nil, ErrClosed", fn)
				}
			case a.isField(ch, a.reqErr):
				m["err"] = true
				if bound == nil || !allReturn(cc.Body, func(r *ast.ReturnStmt) bool {
					return len(r.Results) == 2 && a.isNil(r.Results[0]) && a.obj(r.Results[1]) == bound
				}) {
					return nil, fmt.Errorf("%s: the case receiving from the request's error channel does not return nil and the error received", fn)
				}
			case a.isField(ch, a.reqResp):
				m["response"] = true
				respClause, respVar = cc, bound
			default:
				if x, ok := a.doneOf(ch); ok && a.obj(x) == ctxParam {
					m["ctx"] = true
					if !allReturn(cc.Body, func(r *ast.ReturnStmt) bool {
						if len(r.Results) != 2 || !a.isNil(r.Results[0]) {
							return false
						}
						call, ok := unparen(r.Results[1]).(*ast.CallExpr)
						if !ok {
							return false
						}
						sel, ok := unparen(call.Fun).(*ast.SelectorExpr)
						return ok && sel.Sel.Name == "Err" && a.obj(sel.X) == ctxParam
					}) {
						return nil, fmt.Errorf("%s: the case `<-ctx.Done()` does not return nil, ctx.Err()", fn)
					}
					continue
				}
				return nil, fmt.Errorf("%s: receive from an unexpected channel in a select", fn)
			}
		}
		return m, nil
	}
	if first, err = classify(sels[0]); err != nil {
		return
	}
	respClause = nil
	if second, err = classify(sels[1]); err != nil {
		return
	}
	if respClause == nil || respVar == nil {
		return nil, nil, 0, fmt.Errorf("%s: the second select has no case binding the reply received from the request's response channel", fn)
	}
	// the response case: under resp.Type == K return nil, <error>; otherwise return resp.Message, nil
	var kVal constant.Value
	typeIs := withNot(func(e ast.Expr) int {
		b, ok := e.(*ast.BinaryExpr)
		if !ok || (b.Op != token.EQL && b.Op != token.NEQ) {
			return 0
		}
		x, y := unparen(b.X), unparen(b.Y)
		isRespType := func(e ast.Expr) bool {
			sel, ok := a.through(e).(*ast.SelectorExpr)
			if !ok || a.obj(sel.X) != respVar {
				return false
			}
			f, ok := a.c.Info.Uses[sel.Sel].(*types.Var)
			return ok && f.IsField() && types.Identical(f.Type(), a.fcallTypeT)
		}
		if isRespType(y) {
			x, y = y, x
		}
		if !isRespType(x) {
			return 0
		}
		tv := a.c.Info.Types[y]
		if tv.Value == nil {
			return 0
		}
		if kVal != nil && !constant.Compare(kVal, token.EQL, tv.Value) {
			return 0
		}
		kVal = tv.Value
		if b.Op == token.EQL {
			return 1
		}
		return -1
	})
	nErr, nMsg, bad := 0, 0, ""
	falls, _ := a.walk(respClause.Body, 0, typeIs, func(s ast.Stmt, cond int) {
		r, ok := s.(*ast.ReturnStmt)
		if !ok {
			return
		}
		if len(r.Results) != 2 {
			bad = "a return with other than two results"
			return
		}
		isMsg := func() bool {
			sel, ok := a.through(r.Results[0]).(*ast.SelectorExpr)
			if !ok || a.obj(sel.X) != respVar {
				return false
			}
			f, ok := a.c.Info.Uses[sel.Sel].(*types.Var)
			return ok && f.IsField() && types.Identical(f.Type(), a.messageT) && a.isNil(r.Results[1])
		}
		switch cond {
		case 1:
			nErr++
			if !a.isNil(r.Results[0]) || a.isNil(r.Results[1]) {
				bad = "on the error-reply path a return that is not `nil, <error>`"
			}
		case -1:
			nMsg++
			if !isMsg() {
				bad = "on the ordinary path a return that is not `resp.Message, nil`"
			}
		default:
			bad = "a return reached without the reply's type having been tested"
		}
	})
	switch {
	case bad != "":
		return nil, nil, 0, fmt.Errorf("%s: the response case has %s", fn, bad)
	case falls:
		return nil, nil, 0, fmt.Errorf("%s: the response case can fall out of the select", fn)
	case kVal == nil || nErr == 0 || nMsg == 0:
		return nil, nil, 0, fmt.Errorf("%s: the response case is not `resp.Type == K -> return nil, <error>; otherwise return resp.Message, nil` in any form", fn)
	}
	rerr, _ = constant.Uint64Val(kVal)
	return
}

// freshRequest: the request handed to the owner loop is built for this call
// (`&request{…}` directly, or the result of a function all of whose returns are
// such a literal).  The model identifies a call with its request: a request that
// is reused - pooled, cached - is outside it.
func (a *an) freshRequest(e ast.Expr) error {
	isFreshLit := func(x ast.Expr) bool {
		x = a.through(x)
		if u, ok := x.(*ast.UnaryExpr); ok && u.Op == token.AND {
			x = unparen(u.X)
		}
		cl, ok := x.(*ast.CompositeLit)
		return ok && types.Identical(a.typeOf(cl), a.reqT)
	}
	x := a.through(e)
	if isFreshLit(x) {
		return nil
	}
	call, ok := x.(*ast.CallExpr)
	if !ok {
		return fmt.Errorf("cannot tell where the request sent to the owner loop comes from")
	}
	fo, ok := a.obj(call.Fun).(*types.Func)
	if !ok {
		return fmt.Errorf("the request sent to the owner loop is the result of an unknown call")
	}
	for _, f := range a.c.Files {
		for _, d := range f.Decls {
			fd, ok := d.(*ast.FuncDecl)
			if !ok || fd.Body == nil || a.c.Info.Defs[fd.Name] != types.Object(fo) {
				continue
			}
			n, bad := 0, false
			ast.Inspect(fd.Body, func(y ast.Node) bool {
				if _, isLit := y.(*ast.FuncLit); isLit {
					return false
				}
				if r, ok := y.(*ast.ReturnStmt); ok {
					n++
					if len(r.Results) != 1 || !isFreshLit(r.Results[0]) {
						bad = true
					}
				}
				return true
			})
			if n == 0 || bad {
				return fmt.Errorf("%s does not simply return a newly built %s: a request that may be shared between calls is not modelled", fd.Name.Name, a.reqT.Obj().Name())
			}
			return nil
		}
	}
	return fmt.Errorf("the function building the request was not found")
}

// chanCaps: the capacities given to the request's response and err channels
// where a request is built.
func (a *an) chanCaps() (resp, errc uint64, err error) {
	found := map[*types.Var]uint64{}
	n := 0
	for _, f := range a.c.Files {
		ast.Inspect(f, func(x ast.Node) bool {
			cl, ok := x.(*ast.CompositeLit)
			if !ok || !types.Identical(a.typeOf(cl), a.reqT) {
				return true
			}
			n++
			for _, el := range cl.Elts {
				kv, ok := el.(*ast.KeyValueExpr)
				if !ok {
					err = fmt.Errorf("the request is built with a positional literal (shape not modelled)")
					return false
				}
				fv, _ := a.obj(kv.Key).(*types.Var)
				if fv != a.reqResp && fv != a.reqErr {
					continue
				}
				call, ok := a.isBuiltinCall(kv.Value, "make")
				if !ok {
					err = fmt.Errorf("a channel of the request is not built with make")
					return false
				}
				switch len(call.Args) {
				case 1:
					found[fv] = 0
				case 2:
					tv := a.c.Info.Types[call.Args[1]]
					if tv.Value == nil {
						err = fmt.Errorf("the capacity of a channel of the request is not a constant")
						return false
					}
					found[fv], _ = constant.Uint64Val(tv.Value)
				}
			}
			return true
		})
	}
	if err != nil {
		return
	}
	r, ok1 := found[a.reqResp]
	e, ok2 := found[a.reqErr]
	if n != 1 || !ok1 || !ok2 {
		return 0, 0, fmt.Errorf("expected exactly one place that builds a %s with both channels made (found %d literals)", a.reqT.Obj().Name(), n)
	}
	return r, e, nil
}

// ---------------------------------------------------------------- transport.handle

func (a *an) containsPanic(stmts []ast.Stmt) bool {
	found := false
	for _, st := range stmts {
		ast.Inspect(st, func(x ast.Node) bool {
			call, ok := x.(*ast.CallExpr)
			if !ok {
				return true
			}
			if _, isP := a.isBuiltinCall(call, "panic"); isP {
				found = true
			}
			if f, ok := a.obj(call.Fun).(*types.Func); ok && f.Pkg() != nil {
				switch f.Pkg().Path() {
				case "log":
					if strings.HasPrefix(f.Name(), "Fatal") || strings.HasPrefix(f.Name(), "Panic") {
						found = true
					}
				case "os":
					if f.Name() == "Exit" {
						found = true
					}
				case "runtime":
					if f.Name() == "Goexit" {
						found = true
					}
				}
			}
			return true
		})
	}
	return found
}

// mentionsAny: does the expression contain a Timeout()/Temporary() call?
func mentionsAny(e ast.Expr, isCall func(ast.Expr, string) bool) bool {
	found := false
	ast.Inspect(e, func(x ast.Node) bool {
		if ex, ok := x.(ast.Expr); ok && (isCall(ex, "Timeout") || isCall(ex, "Temporary")) {
			found = true
		}
		return true
	})
	return found
}

type handleFacts struct {
	panics, inline, guarded, retryStops bool
}

func (a *an) handleAnalysis() (hf handleFacts, err error) {
	fd := a.handleFD
	fn := a.transT.Obj().Name() + "." + fd.Name.Name
	bad := func(format string, args ...interface{}) (handleFacts, error) {
		return hf, fmt.Errorf(fn+": "+format, args...)
	}
	isJobChan := func(t types.Type) bool { e := chanElem(t); return e != nil && a.jobT != nil && ptrTo(e, a.jobT) }
	isFcallChan := func(t types.Type) bool { e := chanElem(t); return e != nil && ptrTo(e, a.fcallT) }
	isWriteCall := func(call *ast.CallExpr) bool {
		f, ok := a.obj(call.Fun).(*types.Func)
		return ok && f.Name() == "WriteFcall"
	}
	isReadCall := func(call *ast.CallExpr) bool {
		f, ok := a.obj(call.Fun).(*types.Func)
		return ok && f.Name() == "ReadFcall"
	}
	calls := func(n ast.Node, pred func(*ast.CallExpr) bool) bool {
		found := false
		ast.Inspect(n, func(x ast.Node) bool {
			if call, ok := x.(*ast.CallExpr); ok && pred(call) {
				found = true
			}
			return true
		})
		return found
	}

	// the owner loop: the for statement at the top level of the body whose body has a select
	var loop *ast.ForStmt
	for _, st := range fd.Body.List {
		s := st
		if l, ok := s.(*ast.LabeledStmt); ok {
			s = l.Stmt
		}
		if f, ok := s.(*ast.ForStmt); ok {
			loop = f
		}
	}
	if loop == nil {
		return bad("no top-level for loop")
	}
	var sel *ast.SelectStmt
	for _, st := range loop.Body.List {
		if s, ok := st.(*ast.SelectStmt); ok {
			sel = s
		}
	}
	if sel == nil {
		return bad("the owner loop has no select at its top level")
	}

	// the tag map: the local of type map[Tag]*request
	var outstanding types.Object
	ast.Inspect(fd.Body, func(x ast.Node) bool {
		id, ok := x.(*ast.Ident)
		if !ok {
			return true
		}
		if o, ok := a.c.Info.Defs[id].(*types.Var); ok && !o.IsField() {
			if m, ok := o.Type().Underlying().(*types.Map); ok && types.Identical(m.Key(), a.tagT) && ptrTo(m.Elem(), a.reqT) {
				outstanding = o
			}
		}
		return true
	})
	if outstanding == nil {
		return bad("no local of type map[Tag]*%s", a.reqT.Obj().Name())
	}
	// X[T] with X the tag map; returns T
	indexOut := func(e ast.Expr) (ast.Expr, bool) {
		ix, ok := a.through(e).(*ast.IndexExpr)
		if !ok || !a.isVar(ix.X, outstanding) {
			return nil, false
		}
		return ix.Index, true
	}
	// delete(outstanding, T); returns T
	deleteOut := func(s ast.Stmt) (ast.Expr, bool) {
		es, ok := s.(*ast.ExprStmt)
		if !ok {
			return nil, false
		}
		call, ok := a.isBuiltinCall(es.X, "delete")
		if !ok || len(call.Args) != 2 || !a.isVar(call.Args[0], outstanding) {
			return nil, false
		}
		return call.Args[1], true
	}
	// e is V.Tag for the *Fcall variable V (field found by type Tag)
	tagOfVar := func(e ast.Expr, v types.Object) bool {
		s, ok := a.through(e).(*ast.SelectorExpr)
		if !ok || !a.isVar(s.X, v) {
			return false
		}
		f, ok := a.c.Info.Uses[s.Sel].(*types.Var)
		return ok && f.IsField() && types.Identical(f.Type(), a.tagT)
	}
	// e is W.fcall.Tag for the job variable W
	tagOfJob := func(e ast.Expr, w types.Object) bool {
		s, ok := a.through(e).(*ast.SelectorExpr)
		if !ok {
			return false
		}
		f, ok := a.c.Info.Uses[s.Sel].(*types.Var)
		if !ok || !f.IsField() || !types.Identical(f.Type(), a.tagT) {
			return false
		}
		x, ok := a.fieldOf(s.X, a.jobFcall)
		return ok && a.isVar(x, w)
	}
	reqOfJob := func(e ast.Expr, w types.Object) bool {
		x, ok := a.fieldOf(e, a.jobReq)
		return ok && a.isVar(x, w)
	}

	var reqArm, handArm, failedArm, respArm *ast.CommClause
	var reqVar, failedVar, respVar types.Object
	var failedChan types.Object
	for _, cl := range sel.Body.List {
		cc := cl.(*ast.CommClause)
		if cc.Comm == nil {
			return bad("the owner loop's select has a default case (it would spin)")
		}
		if snd, ok := cc.Comm.(*ast.SendStmt); ok {
			if isJobChan(a.typeOf(snd.Chan)) {
				if handArm != nil {
					return bad("two arms of the owner loop send a queued frame")
				}
				handArm = cc
				continue
			}
			return bad("the owner loop's select sends on an unexpected channel")
		}
		ch, bound, ok := a.commRecv(cc.Comm)
		if !ok {
			return bad("unrecognised arm in the owner loop's select")
		}
		switch {
		case a.isField(ch, a.trRequests):
			reqArm, reqVar = cc, bound
		case isJobChan(a.typeOf(ch)):
			failedArm, failedVar, failedChan = cc, bound, a.obj(ch)
		case isFcallChan(a.typeOf(ch)):
			respArm, respVar = cc, bound
		case a.isField(ch, a.trShutdown), a.isField(ch, a.trClosed):
		default:
			if _, ok := a.doneOf(ch); ok {
				continue
			}
			return bad("the owner loop's select receives from an unexpected channel")
		}
	}
	if reqArm == nil || reqVar == nil {
		return bad("no arm of the owner loop receives a request from the transport's request channel")
	}
	if respArm == nil || respVar == nil {
		return bad("no arm of the owner loop receives a decoded reply (chan *Fcall)")
	}

	// ---- the responses arm: lookup by the reply's tag; miss -> drop or panic; hit -> delete + hand over
	var lookupStmt ast.Stmt
	var foundReq, okObj types.Object
	findLookup := func(s ast.Stmt) {
		as, ok := s.(*ast.AssignStmt)
		if !ok || (len(as.Lhs) != 2 && len(as.Lhs) != 1) || len(as.Rhs) != 1 {
			return
		}
		ix, ok := unparen(as.Rhs[0]).(*ast.IndexExpr)
		if !ok || !a.isVar(ix.X, outstanding) || !tagOfVar(ix.Index, respVar) {
			return
		}
		lookupStmt, foundReq = s, a.obj(as.Lhs[0])
		if len(as.Lhs) == 2 {
			okObj = a.obj(as.Lhs[1]) // otherwise the hit/miss test is `req != nil`
		}
	}
	a.walk(respArm.Body, 0, func(ast.Expr) int { return 0 }, func(s ast.Stmt, _ int) {
		if lookupStmt == nil {
			findLookup(s)
		}
	})
	if lookupStmt == nil || foundReq == nil {
		return bad("the responses arm does not look the reply up in the tag map by the reply's tag")
	}
	okAtom := withNot(func(e ast.Expr) int {
		if okObj != nil && a.obj(e) == okObj {
			return 1
		}
		// req != nil / req == nil on the looked-up request is the same test
		if b, ok := e.(*ast.BinaryExpr); ok && (b.Op == token.NEQ || b.Op == token.EQL) {
			x, y := b.X, b.Y
			if a.isNil(x) {
				x, y = y, x
			}
			if a.isNil(y) && a.obj(x) == foundReq {
				if b.Op == token.NEQ {
					return 1
				}
				return -1
			}
		}
		return 0
	})
	var miss, hit, unknown []ast.Stmt
	missLeaves := true
	seen := false
	falls, after := a.walk(respArm.Body, 0, okAtom, func(s ast.Stmt, cond int) {
		if s == lookupStmt {
			seen = true
			return
		}
		if !seen {
			return
		}
		switch cond {
		case -1:
			miss = append(miss, s)
		case 1:
			hit = append(hit, s)
		default:
			unknown = append(unknown, s)
		}
	})
	_ = falls
	_ = after
	hf.panics = a.containsPanic(miss)
	effect := func(s ast.Stmt) bool { // does the statement touch the map, a channel, or leave the function?
		eff := false
		ast.Inspect(s, func(x ast.Node) bool {
			switch y := x.(type) {
			case *ast.SendStmt, *ast.ReturnStmt, *ast.GoStmt:
				eff = true
			case *ast.CallExpr:
				if _, ok := a.isBuiltinCall(y, "delete"); ok {
					eff = true
				}
				if _, ok := a.isBuiltinCall(y, "close"); ok {
					eff = true
				}
			case *ast.AssignStmt:
				for _, l := range y.Lhs {
					if _, ok := unparen(l).(*ast.IndexExpr); ok {
						eff = true
					}
					if a.isVar(l, outstanding) {
						eff = true
					}
				}
			}
			return true
		})
		return eff
	}
	var deleted, delivered bool
	for _, s := range hit {
		if t, ok := deleteOut(s); ok && tagOfVar(t, respVar) {
			deleted = true
		}
		if snd, ok := s.(*ast.SendStmt); ok {
			if x, ok := a.fieldOf(snd.Chan, a.reqResp); ok && a.isVar(x, foundReq) && a.isVar(snd.Value, respVar) {
				delivered = true
			}
		}
	}
	for _, s := range unknown {
		if effect(s) {
			return bad("the responses arm does something to the tag map or a channel whether or not the reply's tag was found (a miss falls through to the delivery?)")
		}
	}
	if !hf.panics {
		for _, s := range miss {
			if effect(s) {
				missLeaves = false
			}
		}
		if !missLeaves {
			return bad("the unknown-tag branch does more than log and leave the arm (shape not modelled)")
		}
	}
	if !deleted || !delivered {
		return bad("on a hit the responses arm does not both delete the reply's tag from the tag map and hand the reply to the request's response channel")
	}

	// ---- the requests arm: writes the frame itself, or enters the tag and queues the frame
	hf.inline = calls(&ast.BlockStmt{List: reqArm.Body}, isWriteCall)
	if hf.inline {
		if failedArm != nil || handArm != nil {
			return bad("the requests arm writes the frame itself AND a failed/hand-over arm exists (shape not modelled)")
		}
	} else {
		if a.jobT == nil || failedArm == nil || handArm == nil || failedVar == nil {
			return bad("the requests arm does not write the frame, but there is no hand-over arm and failed-write arm")
		}
		var pending types.Object
		entered, queued := false, false
		ast.Inspect(&ast.BlockStmt{List: reqArm.Body}, func(x ast.Node) bool {
			as, ok := x.(*ast.AssignStmt)
			if !ok || len(as.Lhs) != 1 || len(as.Rhs) != 1 {
				return true
			}
			if _, ok := indexOut(as.Lhs[0]); ok && a.isVar(as.Rhs[0], reqVar) {
				entered = true
			}
			if call, ok := a.isBuiltinCall(as.Rhs[0], "append"); ok && len(call.Args) == 2 {
				lo := a.obj(as.Lhs[0])
				if sl, ok := a.typeOf(as.Lhs[0]).Underlying().(*types.Slice); ok && ptrTo(sl.Elem(), a.jobT) && lo != nil && a.obj(call.Args[0]) == lo {
					queued, pending = true, lo
				}
			}
			return true
		})
		if !entered || !queued {
			return bad("the requests arm neither writes the frame nor (enters the request in the tag map and appends the frame to the queue)")
		}
		// hand-over arm pops the head of the queue
		pops := false
		for _, st := range handArm.Body {
			if as, ok := st.(*ast.AssignStmt); ok && len(as.Lhs) == 1 && len(as.Rhs) == 1 && a.obj(as.Lhs[0]) == pending {
				if sl, ok := unparen(as.Rhs[0]).(*ast.SliceExpr); ok && sl.High == nil && sl.Low != nil && a.obj(sl.X) == pending {
					if tv := a.c.Info.Types[sl.Low]; tv.Value != nil {
						if v, ok := constant.Int64Val(tv.Value); ok && v == 1 {
							pops = true
						}
					}
				}
			}
		}
		if !pops {
			return bad("the hand-over arm does not pop the head of the queue")
		}
		// failed-write arm: [guarded] delete of the frame's tag, and the frame's error to the request's err channel
		errSent, delPlain, delGuarded := false, false, false
		guardAtom := withNot(func(e ast.Expr) int {
			b, ok := e.(*ast.BinaryExpr)
			if !ok || (b.Op != token.EQL && b.Op != token.NEQ) {
				return 0
			}
			x, y := b.X, b.Y
			if reqOfJob(x, failedVar) {
				x, y = y, x
			}
			t, ok := indexOut(x)
			if !ok || !tagOfJob(t, failedVar) || !reqOfJob(y, failedVar) {
				return 0
			}
			if b.Op == token.EQL {
				return 1
			}
			return -1
		})
		otherEffect := false
		a.walk(failedArm.Body, 0, guardAtom, func(s ast.Stmt, cond int) {
			if t, ok := deleteOut(s); ok {
				if !tagOfJob(t, failedVar) {
					otherEffect = true
				} else if cond == 1 {
					delGuarded = true
				} else if cond == 0 {
					delPlain = true
				} else {
					otherEffect = true
				}
				return
			}
			if snd, ok := s.(*ast.SendStmt); ok {
				x, ok1 := a.fieldOf(snd.Chan, a.reqErr)
				y, ok2 := a.fieldOf(snd.Value, a.jobErr)
				if ok1 && ok2 && reqOfJob(x, failedVar) && a.isVar(y, failedVar) && cond != dead {
					if cond == 0 {
						errSent = true
					} else {
						otherEffect = true // the error must reach the call whether or not the tag is still its own
					}
					return
				}
				otherEffect = true
				return
			}
			if effect(s) {
				otherEffect = true
			}
		})
		if otherEffect || !errSent || delPlain == delGuarded {
			return bad("the failed-write arm is not `[if tagmap[frame.tag] == frame.req] delete(tagmap, frame.tag)` plus `frame.req.err <- frame.err`")
		}
		hf.guarded = delGuarded
		// the writer goroutine: receives a queued frame, calls WriteFcall, reports on the failed channel
		writer := false
		ast.Inspect(fd.Body, func(x ast.Node) bool {
			gs, ok := x.(*ast.GoStmt)
			if !ok {
				return true
			}
			recvJob, sendsFailed := false, false
			ast.Inspect(gs.Call, func(y ast.Node) bool {
				switch z := y.(type) {
				case *ast.UnaryExpr:
					if z.Op == token.ARROW && isJobChan(a.typeOf(z.X)) && a.obj(z.X) != failedChan {
						recvJob = true
					}
				case *ast.SendStmt:
					if a.obj(z.Chan) == failedChan {
						sendsFailed = true
					}
				}
				return true
			})
			if recvJob && sendsFailed && calls(gs.Call, isWriteCall) {
				writer = true
			}
			return true
		})
		if !writer {
			return bad("no goroutine receives queued frames, calls WriteFcall and reports failures on the channel the failed-write arm receives from")
		}
	}

	// ---- the reader goroutine's retry branch
	var reader *ast.GoStmt
	ast.Inspect(fd.Body, func(x ast.Node) bool {
		if gs, ok := x.(*ast.GoStmt); ok && calls(gs.Call, isReadCall) {
			reader = gs
		}
		return true
	})
	if reader == nil {
		return bad("no goroutine calls ReadFcall")
	}
	isNetErrCall := func(e ast.Expr, name string) bool {
		call, ok := unparen(e).(*ast.CallExpr)
		if !ok {
			return false
		}
		s, ok := unparen(call.Fun).(*ast.SelectorExpr)
		return ok && s.Sel.Name == name && len(call.Args) == 0
	}
	mentionsBoth := func(e ast.Expr) bool {
		t1, t2 := false, false
		ast.Inspect(e, func(x ast.Node) bool {
			if ex, ok := x.(ast.Expr); ok {
				if isNetErrCall(ex, "Timeout") {
					t1 = true
				}
				if isNetErrCall(ex, "Temporary") {
					t2 = true
				}
			}
			return true
		})
		return t1 && t2
	}
	var retryIf *ast.IfStmt
	nRetry := 0
	ast.Inspect(reader.Call, func(x ast.Node) bool {
		if ifs, ok := x.(*ast.IfStmt); ok && mentionsBoth(ifs.Cond) {
			retryIf = ifs
			nRetry++
			return false
		}
		return true
	})
	if nRetry != 1 {
		return bad("expected exactly one `if err.Timeout() || err.Temporary()` in the reader goroutine, found %d", nRetry)
	}
	// the class of read errors that is retried: as a function of (Timeout(), Temporary()) the
	// condition must be the disjunction (anything else in it - `ok &&` of a type assertion - taken as true)
	var evalCond func(e ast.Expr, to, te bool) bool
	evalCond = func(e ast.Expr, to, te bool) bool {
		e = unparen(e)
		switch {
		case isNetErrCall(e, "Timeout"):
			return to
		case isNetErrCall(e, "Temporary"):
			return te
		}
		switch x := e.(type) {
		case *ast.BinaryExpr:
			switch x.Op {
			case token.LOR:
				return evalCond(x.X, to, te) || evalCond(x.Y, to, te)
			case token.LAND:
				return evalCond(x.X, to, te) && evalCond(x.Y, to, te)
			}
		case *ast.UnaryExpr:
			if x.Op == token.NOT && mentionsAny(x.X, isNetErrCall) {
				return !evalCond(x.X, to, te)
			}
		}
		return true
	}
	for _, v := range [][2]bool{{false, false}, {false, true}, {true, false}, {true, true}} {
		if evalCond(retryIf.Cond, v[0], v[1]) != (v[0] || v[1]) {
			return bad("the reader retries a read error under a condition that is not `Timeout() || Temporary()` (it differs for Timeout=%v, Temporary=%v)", v[0], v[1])
		}
	}
	// every path through the branch ends in continue or return; returns only inside a select that
	// receives from t.ctx.Done() (and possibly the closed channel) and has a default that goes on
	stops, continues, other := false, false, ""
	var inspectRetry func(stmts []ast.Stmt) (falls bool)
	inspectRetry = func(stmts []ast.Stmt) bool {
		for _, st := range stmts {
			switch s := st.(type) {
			case *ast.BranchStmt:
				if s.Tok == token.CONTINUE {
					continues = true
					return false
				}
				other = "a break/goto"
				return false
			case *ast.SelectStmt:
				ctxCase, def, defFalls := false, false, false
				for _, cl := range s.Body.List {
					cc := cl.(*ast.CommClause)
					if cc.Comm == nil {
						def = true
						defFalls = inspectRetry(cc.Body)
						continue
					}
					ch, _, ok := a.commRecv(cc.Comm)
					if !ok {
						other = "a select case that is not a receive"
						continue
					}
					ret := len(cc.Body) == 1
					if ret {
						_, ret = cc.Body[0].(*ast.ReturnStmt)
					}
					if !ret {
						other = "a select case that does not return"
					}
					if x, ok := a.doneOf(ch); ok && a.isField(x, a.trCtx) {
						ctxCase = true
					} else if !a.isField(ch, a.trClosed) && !a.isField(ch, a.trShutdown) {
						other = "a select case receiving from an unexpected channel"
					}
				}
				if !def {
					other = "a select without default (it would block)"
				}
				if ctxCase {
					stops = true
				}
				if !defFalls {
					return false
				}
			case *ast.ExprStmt, *ast.AssignStmt, *ast.EmptyStmt:
				// logging and the like
				if effect(st) {
					other = "a statement with an effect on channels or the tag map"
				}
			default:
				other = fmt.Sprintf("a %T", st)
			}
		}
		return true
	}
	if inspectRetry(retryIf.Body.List) {
		return bad("the read-timeout branch falls through to the fatal path")
	}
	if other != "" || !continues {
		return bad("the read-timeout branch has an unrecognised shape (%s)", other)
	}
	hf.retryStops = stops
	return hf, nil
}

// ---------------------------------------------------------------- output

func bset(m map[string]bool, keys ...string) string {
	var out []string
	for _, k := range keys {
		if m[k] {
			out = append(out, "true")
		} else {
			out = append(out, "false")
		}
	}
	return strings.Join(out, ", ")
}

func genReplyTypes(c *Ctx) (string, error) {
	a := &an{c: c}
	a.collectDefs()
	if err := a.setup(); err != nil {
		return "", err
	}
	// the client session type: the struct with a field of an interface type that has a send-like method
	var rows []*replyRow
	for _, f := range c.Files {
		for _, d := range f.Decls {
			fd, ok := d.(*ast.FuncDecl)
			if !ok || fd.Recv == nil || fd.Body == nil || len(fd.Recv.List) != 1 || fd == a.sendFD {
				continue
			}
			row, err := a.clientMethod(fd)
			if err != nil {
				return "", err
			}
			if row != nil {
				rows = append(rows, row)
			}
		}
	}
	if len(rows) == 0 {
		return "", fmt.Errorf("no method calling the round tripper's send found")
	}
	sort.Slice(rows, func(i, j int) bool { return rows[i].reqType < rows[j].reqType })
	first, second, rerr, err := a.sendSelects()
	if err != nil {
		return "", err
	}
	rc, ec, err := a.chanCaps()
	if err != nil {
		return "", err
	}
	hf, err := a.handleAnalysis()
	if err != nil {
		return "", err
	}
	var b strings.Builder
	b.WriteString("From Coq Require Import List NArith Bool.\nImport ListNotations.\nOpen Scope N_scope.\n\n")
	b.WriteString("(* csession.go: (method name, request FcallType built, reply FcallType asserted) *)\n")
	b.WriteString("Definition reply_types : list (list N * N * N) :=\n  [ ")
	for i, r := range rows {
		if i > 0 {
			b.WriteString(";\n    ")
		}
		fmt.Fprintf(&b, "(%s, %d, %d) (* %s: %s -> %s *)", coqString(r.method), r.reqType, r.repType, r.method, r.reqName, r.repName)
	}
	b.WriteString(" ].\n\n")
	fmt.Fprintf(&b, "(* transport.send: the reply type converted into the call's error *)\nDefinition send_error_type : N := %d.\n\n", rerr)
	fmt.Fprintf(&b, "(* transport.send, first select: has case <-t.closed, <-ctx.Done(), t.requests <- req *)\nDefinition send_first_cases : bool * bool * bool := (%s).\n", bset(first, "closed", "ctx", "requests"))
	fmt.Fprintf(&b, "(* transport.send, second select: has case <-t.closed, <-ctx.Done(), <-req.err, <-req.response *)\nDefinition send_second_cases : bool * bool * bool * bool := (%s).\n\n", bset(second, "closed", "ctx", "err", "response"))
	fmt.Fprintf(&b, "(* newFcallRequest: buffer capacities of the response and err channels *)\nDefinition response_chan_cap : N := %d.\nDefinition err_chan_cap : N := %d.\n\n", rc, ec)
	fmt.Fprintf(&b, "(* transport.handle: does the branch for a reply whose tag is not outstanding panic? *)\nDefinition unknown_tag_panics : bool := %v.\n", hf.panics)
	fmt.Fprintf(&b, "\n(* transport.handle, reader goroutine: does the retry-on-timeout branch stop once t.ctx is done? *)\nDefinition reader_retry_stops_when_done : bool := %v.\n", hf.retryStops)
	fmt.Fprintf(&b, "\n(* transport.handle: does the `case req := <-t.requests` arm call WriteFcall itself (true), or queue the\n   frame for the writer goroutine (false)?  In the latter case: does the `case w := <-failed` arm delete the\n   tag only if it still belongs to the failed request? *)\nDefinition owner_writes_inline : bool := %v.\nDefinition failed_arm_guarded : bool := %v.\n", hf.inline, hf.guarded)
	return b.String(), nil
}
