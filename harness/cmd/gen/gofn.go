package main

// gofn.go: the FUNCTION translator.  Where the other generators extract tables,
// this one translates the body of a Go function of a small imperative subset
// into a Gallina definition over the combinators of Base/GoRt.v, so that the
// hand-written model of that function can be PROVED equal to what the source
// says now (Proofs/Gen*Eq.v), instead of only being compared with it on cases.
//
// Subset: locals and parameters of integer, bool, string, []string, []byte and
// error type; := = op= ++ --; parallel and tuple assignment; a[i] = v; var
// declarations; if/else chains (with init); switch on a value with constant
// cases (break; no fallthrough); for-range over a slice with continue and
// return; return (also bare, with named results); calls of len, make, of the
// listed functions of strings/path, of other translated functions of the same
// package, conversions between integer types; slicing and indexing with their
// bounds checks (a failed check is the Pan outcome); composite literals of
// error types with one string field.  Anything else is a loud failure.
//
// Semantics fixed by the translation (the trusted part): a statement list is a
// term of type ctl R V in continuation-passing style; variables are Gallina
// variables named after the go/types OBJECT (so shadowing cannot confuse two
// variables); the code after an if/switch is a local join function applied to
// the variables the branches assign; a range loop is go_range over a body
// definition that receives the loop-carried variables as a tuple; an operation
// that can panic is evaluated before the statement that contains it (the
// translator refuses one under the right operand of && or ||, where Go might
// skip it).

import (
	"fmt"
	"go/ast"
	"go/constant"
	"go/token"
	"go/types"
	"sort"
	"strings"
)

type preBind struct {
	pat, expr, kind string // kind: "opt" (option) or "ctl"
}

type fnEnv struct {
	k      string // continuation: what falling out of the current list means
	loopK  string // continue ("" = not in a loop)
	breakK string // break ("" = not allowed here)
}

type fnTr struct {
	info   *types.Info
	pkg    *types.Package
	prefix string                  // "gen_"
	funcs  map[types.Object]string // translated functions of the same package
	lib    func(t *fnTr, f *types.Func, call *ast.CallExpr) (string, bool, error)

	fn      *ast.FuncDecl
	fname   string
	retT    string
	results []types.Type
	named   []types.Object // named results
	names   map[types.Object]string
	used    map[string]int
	defs    []string
	nloop   int
	njoin   int
	ntmp    int
	pre     []preBind
	// xs[i] inside `for i := range xs` whose body assigns neither xs (nor an element of it) nor i IS the
	// element: it is translated as the loop's element variable, not as an indexing that could panic
	alias   map[[2]types.Object]string
	aliasX  map[*ast.Ident]bool // the xs identifiers of such expressions (not free variables of the body)
}

func (t *fnTr) errf(n ast.Node, f string, a ...interface{}) error {
	return fmt.Errorf("%s: %s", t.fname, fmt.Sprintf(f, a...))
}

// ---------------------------------------------------------------- types

func (t *fnTr) gtype(T types.Type) (string, error) {
	switch u := T.Underlying().(type) {
	case *types.Basic:
		switch {
		case u.Info()&types.IsInteger != 0:
			return "Z", nil
		case u.Info()&types.IsBoolean != 0:
			return "bool", nil
		case u.Info()&types.IsString != 0:
			return "(list N)", nil
		}
	case *types.Slice:
		e, err := t.gtype(u.Elem())
		if err != nil {
			return "", err
		}
		if b, ok := u.Elem().Underlying().(*types.Basic); ok && b.Kind() == types.Uint8 {
			return "(list N)", nil
		}
		return "(list " + e + ")", nil
	case *types.Map:
		// a map with integer keys whose VALUES the function never looks at: the list of its keys
		if _, _, ok := intBits(u.Key()); ok {
			return "(list Z)", nil
		}
	case *types.Interface:
		if types.Identical(T, types.Universe.Lookup("error").Type()) {
			return "(option (list N))", nil
		}
	}
	return "", fmt.Errorf("type %s is outside the translated subset", T)
}

func (t *fnTr) zero(T types.Type) (string, error) {
	switch u := T.Underlying().(type) {
	case *types.Basic:
		switch {
		case u.Info()&types.IsInteger != 0:
			return "0%Z", nil
		case u.Info()&types.IsBoolean != 0:
			return "false", nil
		case u.Info()&types.IsString != 0:
			return "(@nil N)", nil
		}
	case *types.Slice:
		g, err := t.gtype(u.Elem())
		if err != nil {
			return "", err
		}
		if b, ok := u.Elem().Underlying().(*types.Basic); ok && b.Kind() == types.Uint8 {
			return "(@nil N)", nil
		}
		return "(@nil " + g + ")", nil
	case *types.Interface:
		if types.Identical(T, types.Universe.Lookup("error").Type()) {
			return "(@None (list N))", nil
		}
	}
	return "", fmt.Errorf("no zero value for %s in the translated subset", T)
}

func intBits(T types.Type) (bits int, signed bool, ok bool) {
	b, isb := T.Underlying().(*types.Basic)
	if !isb || b.Info()&types.IsInteger == 0 {
		return 0, false, false
	}
	switch b.Kind() {
	case types.Int, types.Int64:
		return 64, true, true
	case types.Int32:
		return 32, true, true
	case types.Int16:
		return 16, true, true
	case types.Int8:
		return 8, true, true
	case types.Uint, types.Uint64, types.Uintptr:
		return 64, false, true
	case types.Uint32:
		return 32, false, true
	case types.Uint16:
		return 16, false, true
	case types.Uint8:
		return 8, false, true
	case types.UntypedInt:
		return 64, true, true
	}
	return 0, false, false
}

// ---------------------------------------------------------------- names

func (t *fnTr) nameOf(o types.Object) string {
	if n, ok := t.names[o]; ok {
		return n
	}
	base := "v_" + o.Name()
	t.used[base]++
	n := base
	if t.used[base] > 1 {
		n = fmt.Sprintf("%s_%d", base, t.used[base])
	}
	t.names[o] = n
	return n
}

func (t *fnTr) isLocal(o types.Object) bool {
	v, ok := o.(*types.Var)
	if !ok || v.IsField() {
		return false
	}
	return o.Pos() >= t.fn.Pos() && o.Pos() <= t.fn.End()
}

func tuple(xs []string) string {
	switch len(xs) {
	case 0:
		return "tt"
	case 1:
		return xs[0]
	}
	return "(" + strings.Join(xs, ", ") + ")"
}

func funPat(xs []string) string {
	switch len(xs) {
	case 0:
		return "(_ : unit)"
	case 1:
		return xs[0]
	}
	return "'(" + strings.Join(xs, ", ") + ")"
}

func (t *fnTr) tupleType(objs []types.Object) (string, error) {
	if len(objs) == 0 {
		return "unit", nil
	}
	var ts []string
	for _, o := range objs {
		g, err := t.gtype(o.Type())
		if err != nil {
			return "", err
		}
		ts = append(ts, g)
	}
	if len(ts) == 1 {
		return ts[0], nil
	}
	return "(" + strings.Join(ts, " * ") + ")%type", nil
}

// variables declared outside n (but inside the function) that n assigns
func (t *fnTr) assignedOuter(n ast.Node) []types.Object {
	seen := map[types.Object]bool{}
	var out []types.Object
	add := func(e ast.Expr) {
		for {
			switch x := e.(type) {
			case *ast.ParenExpr:
				e = x.X
				continue
			case *ast.IndexExpr:
				e = x.X
				continue
			}
			break
		}
		id, ok := e.(*ast.Ident)
		if !ok || id.Name == "_" {
			return
		}
		o := t.info.Uses[id]
		if o == nil {
			return // a definition: declared inside n
		}
		if !t.isLocal(o) || seen[o] {
			return
		}
		if o.Pos() >= n.Pos() && o.Pos() < n.End() {
			return
		}
		seen[o] = true
		out = append(out, o)
	}
	ast.Inspect(n, func(x ast.Node) bool {
		switch s := x.(type) {
		case *ast.AssignStmt:
			for _, l := range s.Lhs {
				add(l)
			}
		case *ast.IncDecStmt:
			add(s.X)
		case *ast.RangeStmt:
			if s.Tok == token.ASSIGN {
				if s.Key != nil {
					add(s.Key)
				}
				if s.Value != nil {
					add(s.Value)
				}
			}
		}
		return true
	})
	// a canonical order that does not depend on where the variables happen to be declared: by type, then
	// by position (so that moving a declaration does not permute a loop's state tuple)
	sort.Slice(out, func(i, j int) bool {
		ti, tj := out[i].Type().String(), out[j].Type().String()
		if ti != tj {
			return ti < tj
		}
		return out[i].Pos() < out[j].Pos()
	})
	return out
}

// local variables declared outside n that n reads (for the parameters of a loop body)
func (t *fnTr) readOuter(n ast.Node, except []types.Object) []types.Object {
	ex := map[types.Object]bool{}
	for _, o := range except {
		ex[o] = true
	}
	seen := map[types.Object]bool{}
	var out []types.Object
	ast.Inspect(n, func(x ast.Node) bool {
		id, ok := x.(*ast.Ident)
		if !ok || t.aliasX[id] {
			return true
		}
		o := t.info.Uses[id]
		if o == nil || !t.isLocal(o) || seen[o] || ex[o] {
			return true
		}
		if o.Pos() >= n.Pos() && o.Pos() < n.End() {
			return true
		}
		seen[o] = true
		out = append(out, o)
		return true
	})
	sort.Slice(out, func(i, j int) bool { return out[i].Pos() < out[j].Pos() })
	return out
}

func (t *fnTr) objNames(objs []types.Object) []string {
	var xs []string
	for _, o := range objs {
		xs = append(xs, t.nameOf(o))
	}
	return xs
}

// ---------------------------------------------------------------- prelude (operations that can panic)

func (t *fnTr) fresh(p string) string {
	t.ntmp++
	return fmt.Sprintf("%s%d", p, t.ntmp)
}

func (t *fnTr) hoist(expr, kind string) string {
	n := t.fresh("t")
	t.pre = append(t.pre, preBind{n, expr, kind})
	return n
}

// run f with an empty prelude; wrap what it returns in the prelude's matches
func (t *fnTr) withPre(f func() (string, error)) (string, error) {
	saved := t.pre
	t.pre = nil
	body, err := f()
	pre := t.pre
	t.pre = saved
	if err != nil {
		return "", err
	}
	for i := len(pre) - 1; i >= 0; i-- {
		p := pre[i]
		if p.kind == "opt" {
			body = fmt.Sprintf("match %s with\n| Some %s => %s\n| None => Pan\nend", p.expr, p.pat, body)
		} else {
			body = fmt.Sprintf("match %s with\n| Ret %s => %s\n| _ => Pan\nend", p.expr, p.pat, body)
		}
	}
	return body, nil
}

// ---------------------------------------------------------------- expressions

func coqBytes(s string) string {
	if len(s) == 0 {
		return "(@nil N)"
	}
	var b strings.Builder
	b.WriteString("[")
	for i := 0; i < len(s); i++ {
		if i > 0 {
			b.WriteString("; ")
		}
		fmt.Fprintf(&b, "%d%%N", s[i])
	}
	b.WriteString("]")
	return b.String()
}

func (t *fnTr) constant(tv types.TypeAndValue) (string, bool) {
	if tv.Value == nil {
		return "", false
	}
	switch tv.Value.Kind() {
	case constant.Bool:
		if constant.BoolVal(tv.Value) {
			return "true", true
		}
		return "false", true
	case constant.Int:
		return fmt.Sprintf("(%s)%%Z", tv.Value.ExactString()), true
	case constant.String:
		return coqBytes(constant.StringVal(tv.Value)), true
	}
	return "", false
}

// exprAs translates e where a value of type T is expected (needed for nil)
func (t *fnTr) exprAs(e ast.Expr, T types.Type) (string, error) {
	if tv, ok := t.info.Types[e]; ok && tv.IsNil() {
		return t.zero(T)
	}
	return t.expr(e)
}

func (t *fnTr) isString(e ast.Expr) bool {
	b, ok := t.info.TypeOf(e).Underlying().(*types.Basic)
	return ok && b.Info()&types.IsString != 0
}

func (t *fnTr) arith(op string, T types.Type, x, y string) (string, error) {
	bits, signed, ok := intBits(T)
	if !ok {
		return "", fmt.Errorf("arithmetic on %s", T)
	}
	var r string
	switch op {
	case "+":
		r = fmt.Sprintf("(%s + %s)%%Z", x, y)
	case "-":
		r = fmt.Sprintf("(%s - %s)%%Z", x, y)
	case "*":
		r = fmt.Sprintf("(%s * %s)%%Z", x, y)
	case "&":
		return fmt.Sprintf("(Z.land %s %s)", x, y), nil
	case "|":
		return fmt.Sprintf("(Z.lor %s %s)", x, y), nil
	default:
		return "", fmt.Errorf("operator %s is outside the translated subset", op)
	}
	if !signed {
		return fmt.Sprintf("(go_wrap %d %s)", bits, r), nil
	}
	if bits != 64 {
		return "", fmt.Errorf("signed %d-bit arithmetic is outside the translated subset", bits)
	}
	return r, nil // Go int: 64-bit overflow not modelled (see Base/GoRt.v)
}

func (t *fnTr) expr(e ast.Expr) (string, error) {
	if tv, ok := t.info.Types[e]; ok {
		if s, ok := t.constant(tv); ok {
			return s, nil
		}
	}
	switch x := e.(type) {
	case *ast.ParenExpr:
		return t.expr(x.X)
	case *ast.Ident:
		o := t.info.Uses[x]
		if o == nil {
			o = t.info.Defs[x]
		}
		if o != nil && t.isLocal(o) {
			return t.nameOf(o), nil
		}
		return "", t.errf(x, "identifier %s is not a local variable or constant", x.Name)
	case *ast.UnaryExpr:
		a, err := t.expr(x.X)
		if err != nil {
			return "", err
		}
		switch x.Op {
		case token.NOT:
			return "(negb " + a + ")", nil
		case token.SUB:
			return t.arith("-", t.info.TypeOf(x), "0%Z", a)
		}
		return "", t.errf(x, "unary %s", x.Op)
	case *ast.BinaryExpr:
		a, err := t.expr(x.X)
		if err != nil {
			return "", err
		}
		n0 := len(t.pre)
		b, err := t.expr(x.Y)
		if err != nil {
			return "", err
		}
		switch x.Op {
		case token.LAND, token.LOR:
			if len(t.pre) != n0 {
				return "", t.errf(x, "an operation that can panic under the right operand of %s", x.Op)
			}
			if x.Op == token.LAND {
				return fmt.Sprintf("(%s && %s)%%bool", a, b), nil
			}
			return fmt.Sprintf("(%s || %s)%%bool", a, b), nil
		case token.EQL, token.NEQ:
			var r string
			switch {
			case t.isString(x.X):
				r = fmt.Sprintf("(go_str_eqb %s %s)", a, b)
			default:
				if _, _, ok := intBits(t.info.TypeOf(x.X)); ok {
					r = fmt.Sprintf("(Z.eqb %s %s)", a, b)
				} else if bb, ok := t.info.TypeOf(x.X).Underlying().(*types.Basic); ok && bb.Info()&types.IsBoolean != 0 {
					r = fmt.Sprintf("(Bool.eqb %s %s)", a, b)
				} else {
					return "", t.errf(x, "comparison of %s", t.info.TypeOf(x.X))
				}
			}
			if x.Op == token.NEQ {
				r = "(negb " + r + ")"
			}
			return r, nil
		case token.LSS, token.LEQ, token.GTR, token.GEQ:
			if _, _, ok := intBits(t.info.TypeOf(x.X)); !ok {
				return "", t.errf(x, "ordering of %s", t.info.TypeOf(x.X))
			}
			switch x.Op {
			case token.LSS:
				return fmt.Sprintf("(Z.ltb %s %s)", a, b), nil
			case token.LEQ:
				return fmt.Sprintf("(Z.leb %s %s)", a, b), nil
			case token.GTR:
				return fmt.Sprintf("(Z.ltb %s %s)", b, a), nil
			default:
				return fmt.Sprintf("(Z.leb %s %s)", b, a), nil
			}
		case token.ADD:
			if t.isString(x) {
				return fmt.Sprintf("(%s ++ %s)", a, b), nil
			}
			return t.arith("+", t.info.TypeOf(x), a, b)
		case token.SUB:
			return t.arith("-", t.info.TypeOf(x), a, b)
		case token.MUL:
			return t.arith("*", t.info.TypeOf(x), a, b)
		case token.AND:
			return t.arith("&", t.info.TypeOf(x), a, b)
		case token.OR:
			return t.arith("|", t.info.TypeOf(x), a, b)
		}
		return "", t.errf(x, "binary %s", x.Op)
	case *ast.SliceExpr:
		if x.Slice3 {
			return "", t.errf(x, "3-index slice")
		}
		a, err := t.expr(x.X)
		if err != nil {
			return "", err
		}
		lo, hi := "0%Z", "(go_len "+a+")"
		if x.Low != nil {
			if lo, err = t.expr(x.Low); err != nil {
				return "", err
			}
		}
		if x.High != nil {
			if hi, err = t.expr(x.High); err != nil {
				return "", err
			}
		}
		return t.hoist(fmt.Sprintf("go_slice %s %s %s", a, lo, hi), "opt"), nil
	case *ast.IndexExpr:
		if xi, ok := x.X.(*ast.Ident); ok {
			if ii, ok := x.Index.(*ast.Ident); ok {
				if n, ok := t.alias[[2]types.Object{t.info.Uses[xi], t.info.Uses[ii]}]; ok {
					return n, nil
				}
			}
		}
		a, err := t.expr(x.X)
		if err != nil {
			return "", err
		}
		i, err := t.expr(x.Index)
		if err != nil {
			return "", err
		}
		if _, ok := t.info.TypeOf(x.X).Underlying().(*types.Slice); !ok && !t.isString(x.X) {
			return "", t.errf(x, "indexing a %s", t.info.TypeOf(x.X))
		}
		return t.hoist(fmt.Sprintf("go_index %s %s", a, i), "opt"), nil
	case *ast.CompositeLit:
		T := t.info.TypeOf(x)
		st, ok := T.Underlying().(*types.Struct)
		errT := types.Universe.Lookup("error").Type().Underlying().(*types.Interface)
		if ok && st.NumFields() == 1 && len(x.Elts) == 1 && (types.Implements(T, errT) || types.Implements(types.NewPointer(T), errT)) {
			v := x.Elts[0]
			if kv, ok := v.(*ast.KeyValueExpr); ok {
				v = kv.Value
			}
			if b, ok := st.Field(0).Type().Underlying().(*types.Basic); ok && b.Info()&types.IsString != 0 {
				s, err := t.expr(v)
				if err != nil {
					return "", err
				}
				return "(Some " + s + ")", nil
			}
		}
		return "", t.errf(x, "composite literal of %s", T)
	case *ast.CallExpr:
		return t.call(x)
	}
	return "", t.errf(e, "expression %T is outside the translated subset", e)
}

func (t *fnTr) args(call *ast.CallExpr) ([]string, error) {
	var as []string
	for _, a := range call.Args {
		s, err := t.expr(a)
		if err != nil {
			return nil, err
		}
		as = append(as, s)
	}
	return as, nil
}

func (t *fnTr) call(x *ast.CallExpr) (string, error) {
	// conversion
	if tv, ok := t.info.Types[x.Fun]; ok && tv.IsType() {
		if len(x.Args) != 1 {
			return "", t.errf(x, "conversion with %d arguments", len(x.Args))
		}
		a, err := t.expr(x.Args[0])
		if err != nil {
			return "", err
		}
		tb, ts, ok1 := intBits(tv.Type)
		_, _, ok2 := intBits(t.info.TypeOf(x.Args[0]))
		if ok1 && ok2 {
			if !ts {
				return fmt.Sprintf("(go_wrap %d %s)", tb, a), nil
			}
			if tb == 64 {
				// from a narrower or equal signed type, or from an unsigned type narrower than 64 bits: identity
				fb, _, _ := intBits(t.info.TypeOf(x.Args[0]))
				_, fs, _ := intBits(t.info.TypeOf(x.Args[0]))
				if fs || fb < 64 {
					return a, nil
				}
			}
			return "", t.errf(x, "conversion %s -> %s is outside the translated subset", t.info.TypeOf(x.Args[0]), tv.Type)
		}
		if t.isString(x.Args[0]) && (func() bool { g, e := t.gtype(tv.Type); return e == nil && g == "(list N)" })() {
			return a, nil // string <-> []byte
		}
		return "", t.errf(x, "conversion to %s", tv.Type)
	}
	var callee types.Object
	switch f := x.Fun.(type) {
	case *ast.Ident:
		callee = t.info.Uses[f]
	case *ast.SelectorExpr:
		callee = t.info.Uses[f.Sel]
	}
	if b, ok := callee.(*types.Builtin); ok {
		switch b.Name() {
		case "len":
			a, err := t.expr(x.Args[0])
			if err != nil {
				return "", err
			}
			return "(go_len " + a + ")", nil
		case "make":
			T := t.info.TypeOf(x.Args[0])
			sl, ok := T.Underlying().(*types.Slice)
			if !ok || len(x.Args) != 2 {
				return "", t.errf(x, "make of %s with %d arguments", T, len(x.Args))
			}
			z, err := t.zero(sl.Elem())
			if err != nil {
				return "", err
			}
			n, err := t.expr(x.Args[1])
			if err != nil {
				return "", err
			}
			return t.hoist(fmt.Sprintf("go_make %s %s", z, n), "opt"), nil
		}
		return "", t.errf(x, "builtin %s", b.Name())
	}
	f, ok := callee.(*types.Func)
	if !ok {
		return "", t.errf(x, "call of something that is not a function")
	}
	if g, ok := t.funcs[f]; ok {
		if x.Ellipsis != token.NoPos && len(x.Args) != f.Type().(*types.Signature).Params().Len() {
			return "", t.errf(x, "spread call shape")
		}
		as, err := t.args(x)
		if err != nil {
			return "", err
		}
		sig := f.Type().(*types.Signature)
		if sig.Variadic() && x.Ellipsis == token.NoPos {
			// pack the variadic tail into a list
			n := sig.Params().Len() - 1
			tail := "[" + strings.Join(as[n:], "; ") + "]"
			as = append(as[:n:n], tail)
		}
		return t.hoist(g+" "+strings.Join(as, " "), "ctl"), nil
	}
	if t.lib != nil {
		s, ok, err := t.lib(t, f, x)
		if err != nil {
			return "", err
		}
		if ok {
			return s, nil
		}
	}
	return "", t.errf(x, "call of %s is outside the translated subset", f.FullName())
}

// the functions of strings and path the translated code uses, as modelled in Model/Path.v and Base/GoRt.v
func stdLib(t *fnTr, f *types.Func, x *ast.CallExpr) (string, bool, error) {
	if f.Pkg() == nil {
		return "", false, nil
	}
	constArg := func(i int) (string, bool) {
		tv := t.info.Types[x.Args[i]]
		if tv.Value != nil && tv.Value.Kind() == constant.String {
			return constant.StringVal(tv.Value), true
		}
		return "", false
	}
	key := f.Pkg().Path() + "." + f.Name()
	switch key {
	case "strings.ContainsAny":
		as, err := t.args(x)
		if err != nil {
			return "", false, err
		}
		return fmt.Sprintf("(go_contains_any %s %s)", as[0], as[1]), true, nil
	case "strings.Count":
		s, ok := constArg(1)
		if !ok || len(s) != 1 {
			return "", false, t.errf(x, "strings.Count with a separator that is not a one-byte constant")
		}
		a, err := t.expr(x.Args[0])
		if err != nil {
			return "", false, err
		}
		return fmt.Sprintf("(go_count_byte %s %d%%N)", a, s[0]), true, nil
	case "strings.Split":
		if s, ok := constArg(1); !ok || s != "/" {
			return "", false, t.errf(x, "strings.Split by something other than \"/\"")
		}
		a, err := t.expr(x.Args[0])
		if err != nil {
			return "", false, err
		}
		return "(split_slash " + a + ")", true, nil
	case "strings.Trim":
		if s, ok := constArg(1); !ok || s != "/" {
			return "", false, t.errf(x, "strings.Trim of something other than \"/\"")
		}
		a, err := t.expr(x.Args[0])
		if err != nil {
			return "", false, err
		}
		return "(trim_slash " + a + ")", true, nil
	case "errors.New":
		a, err := t.expr(x.Args[0])
		if err != nil {
			return "", false, err
		}
		return "(Some " + a + ")", true, nil
	case "path.IsAbs":
		a, err := t.expr(x.Args[0])
		if err != nil {
			return "", false, err
		}
		return "(path_is_abs " + a + ")", true, nil
	case "path.Clean":
		a, err := t.expr(x.Args[0])
		if err != nil {
			return "", false, err
		}
		return "(path_clean " + a + ")", true, nil
	case "path.Join":
		as, err := t.args(x)
		if err != nil {
			return "", false, err
		}
		if x.Ellipsis != token.NoPos {
			if len(as) != 1 {
				return "", false, t.errf(x, "path.Join with a spread argument among others")
			}
			return "(path_join " + as[0] + ")", true, nil
		}
		return "(path_join [" + strings.Join(as, "; ") + "])", true, nil
	}
	return "", false, nil
}

// ---------------------------------------------------------------- statements

func (t *fnTr) lhsName(e ast.Expr) (types.Object, string, error) {
	id, ok := e.(*ast.Ident)
	if !ok {
		return nil, "", t.errf(e, "assignment target %T", e)
	}
	if id.Name == "_" {
		return nil, "_", nil
	}
	o := t.info.Defs[id]
	if o == nil {
		o = t.info.Uses[id]
	}
	if o == nil || !t.isLocal(o) {
		return nil, "", t.errf(e, "assignment to %s, which is not a local variable", id.Name)
	}
	return o, t.nameOf(o), nil
}

func (t *fnTr) stmts(list []ast.Stmt, env fnEnv) (string, error) {
	if len(list) == 0 {
		return env.k, nil
	}
	s, rest := list[0], list[1:]
	next := func() (string, error) { return t.stmts(rest, env) }
	switch x := s.(type) {
	case *ast.EmptyStmt:
		return next()
	case *ast.BlockStmt:
		// a nested block: its declarations are distinct objects, so splicing is sound
		return t.stmts(append(append([]ast.Stmt{}, x.List...), rest...), env)
	case *ast.ReturnStmt:
		return t.withPre(func() (string, error) {
			if len(x.Results) == 0 {
				if len(t.results) == 0 {
					return "Ret tt", nil
				}
				if len(t.named) != len(t.results) {
					return "", t.errf(x, "bare return without named results")
				}
				return "Ret " + tuple(t.objNames(t.named)), nil
			}
			if len(x.Results) != len(t.results) {
				return "", t.errf(x, "return of a multi-valued call")
			}
			var vs []string
			for i, r := range x.Results {
				v, err := t.exprAs(r, t.results[i])
				if err != nil {
					return "", err
				}
				vs = append(vs, v)
			}
			return "Ret " + tuple(vs), nil
		})
	case *ast.BranchStmt:
		if x.Label != nil {
			return "", t.errf(x, "labelled %s", x.Tok)
		}
		switch x.Tok {
		case token.CONTINUE:
			if env.loopK == "" {
				return "", t.errf(x, "continue outside a translated loop")
			}
			return env.loopK, nil
		case token.BREAK:
			if env.breakK == "" {
				return "", t.errf(x, "break is translated inside switch only")
			}
			return env.breakK, nil
		}
		return "", t.errf(x, "%s", x.Tok)
	case *ast.IncDecStmt:
		o, n, err := t.lhsName(x.X)
		if err != nil || o == nil {
			return "", t.errf(x, "++/-- target")
		}
		op := "+"
		if x.Tok == token.DEC {
			op = "-"
		}
		v, err := t.arith(op, o.Type(), n, "1%Z")
		if err != nil {
			return "", err
		}
		r, err := next()
		if err != nil {
			return "", err
		}
		return fmt.Sprintf("let %s := %s in\n%s", n, v, r), nil
	case *ast.DeclStmt:
		gd, ok := x.Decl.(*ast.GenDecl)
		if ok && gd.Tok == token.CONST {
			return next() // every use of a constant is folded to its value by go/types
		}
		if !ok || gd.Tok != token.VAR {
			return "", t.errf(x, "declaration statement")
		}
		return t.withPre(func() (string, error) {
			var lets []string
			for _, sp := range gd.Specs {
				vs := sp.(*ast.ValueSpec)
				for i, id := range vs.Names {
					o := t.info.Defs[id]
					var v string
					var err error
					if i < len(vs.Values) {
						v, err = t.exprAs(vs.Values[i], o.Type())
					} else {
						v, err = t.zero(o.Type())
					}
					if err != nil {
						return "", err
					}
					lets = append(lets, fmt.Sprintf("let %s := %s in\n", t.nameOf(o), v))
				}
			}
			r, err := next()
			if err != nil {
				return "", err
			}
			return strings.Join(lets, "") + r, nil
		})
	case *ast.AssignStmt:
		return t.assign(x, next)
	case *ast.IfStmt:
		return t.ifStmt(x, rest, env)
	case *ast.SwitchStmt:
		return t.switchStmt(x, rest, env)
	case *ast.RangeStmt:
		return t.rangeStmt(x, rest, env)
	case *ast.ForStmt:
		return t.forStmt(x, rest, env)
	}
	return "", t.errf(s, "statement %T is outside the translated subset", s)
}

func (t *fnTr) assign(x *ast.AssignStmt, next func() (string, error)) (string, error) {
	return t.withPre(func() (string, error) {
		// op=
		if x.Tok != token.ASSIGN && x.Tok != token.DEFINE {
			if len(x.Lhs) != 1 {
				return "", t.errf(x, "op= shape")
			}
			o, n, err := t.lhsName(x.Lhs[0])
			if err != nil || o == nil {
				return "", t.errf(x, "op= target")
			}
			b, err := t.expr(x.Rhs[0])
			if err != nil {
				return "", err
			}
			op := strings.TrimSuffix(x.Tok.String(), "=")
			var v string
			if op == "+" && t.isString(x.Lhs[0]) {
				v = fmt.Sprintf("(%s ++ %s)", n, b)
			} else if v, err = t.arith(op, o.Type(), n, b); err != nil {
				return "", err
			}
			r, err := next()
			if err != nil {
				return "", err
			}
			return fmt.Sprintf("let %s := %s in\n%s", n, v, r), nil
		}
		// a[i] = v
		if len(x.Lhs) == 1 {
			if ix, ok := x.Lhs[0].(*ast.IndexExpr); ok {
				o, n, err := t.lhsName(ix.X)
				if err != nil || o == nil {
					return "", t.errf(x, "indexed store into something that is not a local slice")
				}
				if _, ok := o.Type().Underlying().(*types.Slice); !ok {
					return "", t.errf(x, "indexed store into %s", o.Type())
				}
				i, err := t.expr(ix.Index)
				if err != nil {
					return "", err
				}
				v, err := t.expr(x.Rhs[0])
				if err != nil {
					return "", err
				}
				tmp := t.hoist(fmt.Sprintf("go_store %s %s %s", n, i, v), "opt")
				r, err := next()
				if err != nil {
					return "", err
				}
				return fmt.Sprintf("let %s := %s in\n%s", n, tmp, r), nil
			}
		}
		// _, ok := m[k]
		if len(x.Lhs) == 2 && len(x.Rhs) == 1 {
			if ix, ok := x.Rhs[0].(*ast.IndexExpr); ok {
				if _, ok := t.info.TypeOf(ix.X).Underlying().(*types.Map); ok {
					if id, ok := x.Lhs[0].(*ast.Ident); !ok || id.Name != "_" {
						return "", t.errf(x, "a map lookup whose value is used")
					}
					_, okn, err := t.lhsName(x.Lhs[1])
					if err != nil {
						return "", err
					}
					m, err := t.expr(ix.X)
					if err != nil {
						return "", err
					}
					k, err := t.expr(ix.Index)
					if err != nil {
						return "", err
					}
					r, err := next()
					if err != nil {
						return "", err
					}
					return fmt.Sprintf("let %s := (go_map_has %s %s) in\n%s", okn, m, k, r), nil
				}
			}
		}
		// tuple := call
		if len(x.Lhs) > 1 && len(x.Rhs) == 1 {
			v, err := t.expr(x.Rhs[0])
			if err != nil {
				return "", err
			}
			var ns []string
			for _, l := range x.Lhs {
				_, n, err := t.lhsName(l)
				if err != nil {
					return "", err
				}
				ns = append(ns, n)
			}
			r, err := next()
			if err != nil {
				return "", err
			}
			return fmt.Sprintf("let '(%s) := %s in\n%s", strings.Join(ns, ", "), v, r), nil
		}
		if len(x.Lhs) != len(x.Rhs) {
			return "", t.errf(x, "assignment shape")
		}
		var ns, vs []string
		for i, l := range x.Lhs {
			o, n, err := t.lhsName(l)
			if err != nil {
				return "", err
			}
			var v string
			if o != nil {
				v, err = t.exprAs(x.Rhs[i], o.Type())
			} else {
				v, err = t.expr(x.Rhs[i])
			}
			if err != nil {
				return "", err
			}
			ns = append(ns, n)
			vs = append(vs, v)
		}
		r, err := next()
		if err != nil {
			return "", err
		}
		if len(ns) == 1 {
			return fmt.Sprintf("let %s := %s in\n%s", ns[0], vs[0], r), nil
		}
		return fmt.Sprintf("let '(%s) := (%s) in\n%s", strings.Join(ns, ", "), strings.Join(vs, ", "), r), nil
	})
}

// the code after a compound statement becomes a local function of the variables the statement assigns
func (t *fnTr) join(n ast.Node, rest []ast.Stmt, env fnEnv) (def string, callK string, err error) {
	objs := t.assignedOuter(n)
	vars := t.objNames(objs)
	if len(rest) == 0 {
		return "", env.k, nil
	}
	t.njoin++
	j := fmt.Sprintf("j%d", t.njoin)
	r, err := t.stmts(rest, env)
	if err != nil {
		return "", "", err
	}
	pat := funPat(vars)
	if len(objs) > 0 {
		ty, err := t.tupleType(objs)
		if err != nil {
			return "", "", err
		}
		if len(objs) == 1 {
			pat = fmt.Sprintf("(%s : %s)", vars[0], ty)
		} else {
			pat = fmt.Sprintf("(st : %s)", ty)
			r = fmt.Sprintf("let '(%s) := st in\n%s", strings.Join(vars, ", "), r)
		}
	}
	return fmt.Sprintf("let %s := fun %s =>\n%s in\n", j, pat, r), j + " " + tuple(vars), nil
}

func (t *fnTr) ifStmt(x *ast.IfStmt, rest []ast.Stmt, env fnEnv) (string, error) {
	if x.Init != nil {
		// the init statement's variables are distinct objects: hoisting it in front is sound
		y := *x
		y.Init = nil
		return t.stmts(append([]ast.Stmt{x.Init, &y}, rest...), env)
	}
	def, k, err := t.join(x, rest, env)
	if err != nil {
		return "", err
	}
	inner := env
	inner.k = k
	var chain func(x *ast.IfStmt) (string, error)
	chain = func(x *ast.IfStmt) (string, error) {
		if x.Init != nil {
			return "", t.errf(x, "else-if with an init statement")
		}
		return t.withPre(func() (string, error) {
			c, err := t.expr(x.Cond)
			if err != nil {
				return "", err
			}
			a, err := t.stmts(x.Body.List, inner)
			if err != nil {
				return "", err
			}
			b := k
			switch e := x.Else.(type) {
			case nil:
			case *ast.BlockStmt:
				if b, err = t.stmts(e.List, inner); err != nil {
					return "", err
				}
			case *ast.IfStmt:
				if b, err = chain(e); err != nil {
					return "", err
				}
			default:
				return "", t.errf(x, "else shape")
			}
			return fmt.Sprintf("if %s then\n%s\nelse\n%s", c, a, b), nil
		})
	}
	body, err := chain(x)
	if err != nil {
		return "", err
	}
	return def + body, nil
}

func (t *fnTr) switchStmt(x *ast.SwitchStmt, rest []ast.Stmt, env fnEnv) (string, error) {
	if x.Init != nil {
		y := *x
		y.Init = nil
		return t.stmts(append([]ast.Stmt{x.Init, &y}, rest...), env)
	}
	def, k, err := t.join(x, rest, env)
	if err != nil {
		return "", err
	}
	inner := env
	inner.k = k
	inner.breakK = k
	return t.withPre(func() (string, error) {
		// a tagless switch is an if-chain over boolean cases; with a tag the cases are compared with it
		// (the tag is evaluated once; case expressions of the translated subset have no effects)
		sw, head, eq := "", "", ""
		if x.Tag != nil {
			tag, err := t.expr(x.Tag)
			if err != nil {
				return "", err
			}
			switch {
			case t.isString(x.Tag):
				eq = "go_str_eqb"
			default:
				if _, _, ok := intBits(t.info.TypeOf(x.Tag)); !ok {
					return "", t.errf(x, "switch on %s", t.info.TypeOf(x.Tag))
				}
				eq = "Z.eqb"
			}
			sw = t.fresh("sw")
			head = fmt.Sprintf("let %s := %s in\n", sw, tag)
		}
		dflt := k
		type arm struct{ cond, body string }
		var arms []arm
		for _, cs := range x.Body.List {
			cc := cs.(*ast.CaseClause)
			for _, st := range cc.Body {
				if b, ok := st.(*ast.BranchStmt); ok && b.Tok == token.FALLTHROUGH {
					return "", t.errf(b, "fallthrough")
				}
			}
			body, err := t.stmts(cc.Body, inner)
			if err != nil {
				return "", err
			}
			if cc.List == nil {
				dflt = body
				continue
			}
			var cs []string
			n0 := len(t.pre)
			for _, e := range cc.List {
				c, err := t.expr(e)
				if err != nil {
					return "", err
				}
				if len(t.pre) != n0 {
					return "", t.errf(e, "an operation that can panic in a case expression")
				}
				if x.Tag != nil {
					c = fmt.Sprintf("(%s %s %s)", eq, sw, c)
				}
				cs = append(cs, c)
			}
			cond := cs[0]
			for _, c := range cs[1:] {
				cond = fmt.Sprintf("(%s || %s)%%bool", cond, c)
			}
			arms = append(arms, arm{cond, body})
		}
		out := dflt
		for i := len(arms) - 1; i >= 0; i-- {
			out = fmt.Sprintf("if %s then\n%s\nelse\n%s", arms[i].cond, arms[i].body, out)
		}
		return def + head + out, nil
	})
}

func (t *fnTr) rangeStmt(x *ast.RangeStmt, rest []ast.Stmt, env fnEnv) (string, error) {
	if x.Tok != token.DEFINE && !(x.Key == nil && x.Value == nil) {
		return "", t.errf(x, "range assigning to existing variables")
	}
	sl, ok := t.info.TypeOf(x.X).Underlying().(*types.Slice)
	if !ok {
		return "", t.errf(x, "range over %s", t.info.TypeOf(x.X))
	}
	elemT, err := t.gtype(sl.Elem())
	if err != nil {
		return "", err
	}
	carried := t.assignedOuter(x.Body)
	carriedT, err := t.tupleType(carried)
	if err != nil {
		return "", err
	}
	cn := t.objNames(carried)
	except := append([]types.Object{}, carried...)
	for _, e := range []ast.Expr{x.Key, x.Value} {
		if id, ok := e.(*ast.Ident); ok && t.info.Defs[id] != nil {
			except = append(except, t.info.Defs[id])
		}
	}
	var params, fargs []string
	kv := func(e ast.Expr, dflt string) string {
		id, ok := e.(*ast.Ident)
		if !ok || id.Name == "_" {
			return dflt
		}
		return t.nameOf(t.info.Defs[id])
	}
	ki, vi := "_i", "_x"
	if x.Key != nil {
		ki = kv(x.Key, "_i")
	}
	if x.Value != nil {
		vi = kv(x.Value, "_x")
	}
	if xsID, ok := x.X.(*ast.Ident); ok && vi == "_x" && ki != "_i" {
		xsO, iO := t.info.Uses[xsID], t.info.Defs[x.Key.(*ast.Ident)]
		stable := xsO != nil && t.isLocal(xsO)
		for _, o := range t.assignedOuter(x.Body) {
			if o == xsO {
				stable = false
			}
		}
		ast.Inspect(x.Body, func(n ast.Node) bool { // the key is never assigned in the body
			switch st := n.(type) {
			case *ast.AssignStmt:
				for _, l := range st.Lhs {
					if id, ok := l.(*ast.Ident); ok && t.info.Uses[id] == iO {
						stable = false
					}
				}
			case *ast.IncDecStmt:
				if id, ok := st.X.(*ast.Ident); ok && t.info.Uses[id] == iO {
					stable = false
				}
			}
			return true
		})
		if stable {
			vi = t.fresh("v_elem")
			if t.alias == nil {
				t.alias = map[[2]types.Object]string{}
				t.aliasX = map[*ast.Ident]bool{}
			}
			t.alias[[2]types.Object{xsO, iO}] = vi
			ast.Inspect(x.Body, func(n ast.Node) bool {
				if ie, ok := n.(*ast.IndexExpr); ok {
					if a, ok := ie.X.(*ast.Ident); ok && t.info.Uses[a] == xsO {
						if b, ok := ie.Index.(*ast.Ident); ok && t.info.Uses[b] == iO {
							t.aliasX[a] = true
						}
					}
				}
				return true
			})
		}
	}
	for _, o := range t.readOuter(x.Body, except) {
		g, err := t.gtype(o.Type())
		if err != nil {
			return "", err
		}
		params = append(params, fmt.Sprintf("(%s : %s)", t.nameOf(o), g))
		fargs = append(fargs, t.nameOf(o))
	}
	t.nloop++
	name := fmt.Sprintf("%s%s_loop%d", t.prefix, t.fname, t.nloop)
	// the body: falling off its end and `continue` both go on with the carried variables
	savedPre := t.pre
	t.pre = nil
	body, err := t.stmts(x.Body.List, fnEnv{k: "Nxt " + tuple(cn), loopK: "Nxt " + tuple(cn)})
	t.pre = savedPre
	if err != nil {
		return "", err
	}
	unpack := ""
	if len(cn) > 1 {
		unpack = fmt.Sprintf("let '(%s) := st in\n", strings.Join(cn, ", "))
	} else if len(cn) == 1 {
		unpack = fmt.Sprintf("let %s := st in\n", cn[0])
	}
	t.defs = append(t.defs, fmt.Sprintf("Definition %s %s (%s : Z) (%s : %s) (st : %s) : ctl %s %s :=\n%s%s.\n",
		name, strings.Join(params, " "), ki, vi, elemT, carriedT, t.retT, carriedT, unpack, body))
	after, err := t.stmts(rest, env)
	if err != nil {
		return "", err
	}
	return t.withPre(func() (string, error) {
		xs, err := t.expr(x.X)
		if err != nil {
			return "", err
		}
		pat := tuple(cn)
		if len(cn) == 0 {
			pat = "_"
		} else if len(cn) > 1 {
			pat = "(" + strings.Join(cn, ", ") + ")"
		}
		call := name
		if len(fargs) > 0 {
			call = "(" + name + " " + strings.Join(fargs, " ") + ")"
		}
		return fmt.Sprintf("match go_range %s %s %s with\n| Ret r => Ret r\n| Pan => Pan\n| Nxt %s =>\n%s\nend", xs, call, tuple(cn), pat, after), nil
	})
}

// ---------------------------------------------------------------- functions

// translate one function declaration; returns the Gallina text (auxiliary definitions first)
func (t *fnTr) function(fd *ast.FuncDecl) (string, error) {
	t.fn = fd
	t.fname = fd.Name.Name
	t.names = map[types.Object]string{}
	t.used = map[string]int{}
	t.defs = nil
	t.nloop, t.njoin, t.ntmp = 0, 0, 0
	t.pre = nil
	t.alias, t.aliasX = nil, nil
	obj := t.info.Defs[fd.Name].(*types.Func)
	sig := obj.Type().(*types.Signature)
	if fd.Recv != nil {
		return "", fmt.Errorf("%s: methods are outside the translated subset", t.fname)
	}
	// results
	t.results, t.named = nil, nil
	var rts []string
	for i := 0; i < sig.Results().Len(); i++ {
		r := sig.Results().At(i)
		g, err := t.gtype(r.Type())
		if err != nil {
			return "", fmt.Errorf("%s: result %d: %v", t.fname, i, err)
		}
		rts = append(rts, g)
		t.results = append(t.results, r.Type())
		if r.Name() != "" && r.Name() != "_" {
			t.named = append(t.named, r)
		}
	}
	switch len(rts) {
	case 0:
		t.retT = "unit"
	case 1:
		t.retT = rts[0]
	default:
		t.retT = "(" + strings.Join(rts, " * ") + ")%type"
	}
	// parameters; one whose type is outside the subset is dropped when the body never mentions it
	var params []string
	var skipped []string
	for i := 0; i < sig.Params().Len(); i++ {
		p := sig.Params().At(i)
		g, err := t.gtype(p.Type())
		if err != nil {
			usedIn := false
			ast.Inspect(fd.Body, func(n ast.Node) bool {
				if id, ok := n.(*ast.Ident); ok && t.info.Uses[id] == p {
					usedIn = true
				}
				return true
			})
			if usedIn {
				return "", fmt.Errorf("%s: parameter %s: %v", t.fname, p.Name(), err)
			}
			skipped = append(skipped, p.Name())
			continue
		}
		params = append(params, fmt.Sprintf("(%s : %s)", t.nameOf(p), g))
	}
	var init []string
	for _, r := range t.named {
		z, err := t.zero(r.Type())
		if err != nil {
			return "", err
		}
		init = append(init, fmt.Sprintf("let %s := %s in\n", t.nameOf(r), z))
	}
	end := "Pan" // falling off the end of a function with results does not compile in Go
	if len(t.results) == 0 {
		end = "Ret tt"
	}
	body, err := t.stmts(fd.Body.List, fnEnv{k: end})
	if err != nil {
		return "", err
	}
	name := t.prefix + t.fname
	var b strings.Builder
	for _, d := range t.defs {
		b.WriteString(d + "\n")
	}
	if len(skipped) > 0 {
		fmt.Fprintf(&b, "(* parameters never mentioned in the body and outside the subset, dropped: %s *)\n", strings.Join(skipped, ", "))
	}
	fmt.Fprintf(&b, "Definition %s %s : ctl %s unit :=\n%s%s.\n", name, strings.Join(params, " "), t.retT, strings.Join(init, ""), body)
	t.funcs[obj] = name
	return b.String(), nil
}

// for i := 0; i < K; i++ { body } with a constant K and a body that does not assign i
func (t *fnTr) forStmt(x *ast.ForStmt, rest []ast.Stmt, env fnEnv) (string, error) {
	bad := func() (string, error) {
		return "", t.errf(x, "a for loop that is not `for i := 0; i < CONST; i++`")
	}
	init, ok := x.Init.(*ast.AssignStmt)
	if !ok || init.Tok != token.DEFINE || len(init.Lhs) != 1 || len(init.Rhs) != 1 {
		return bad()
	}
	iv, ok := init.Lhs[0].(*ast.Ident)
	if !ok {
		return bad()
	}
	io := t.info.Defs[iv]
	if tv := t.info.Types[init.Rhs[0]]; tv.Value == nil || tv.Value.ExactString() != "0" {
		return bad()
	}
	cond, ok := x.Cond.(*ast.BinaryExpr)
	if !ok || cond.Op != token.LSS {
		return bad()
	}
	if id, ok := cond.X.(*ast.Ident); !ok || t.info.Uses[id] != io {
		return bad()
	}
	// the post statement: i++ or i += 1
	switch post := x.Post.(type) {
	case *ast.IncDecStmt:
		if id, ok := post.X.(*ast.Ident); !ok || t.info.Uses[id] != io || post.Tok != token.INC {
			return bad()
		}
	case *ast.AssignStmt:
		if post.Tok != token.ADD_ASSIGN || len(post.Lhs) != 1 || len(post.Rhs) != 1 {
			return bad()
		}
		if id, ok := post.Lhs[0].(*ast.Ident); !ok || t.info.Uses[id] != io {
			return bad()
		}
		if tv := t.info.Types[post.Rhs[0]]; tv.Value == nil || tv.Value.ExactString() != "1" {
			return bad()
		}
	default:
		return bad()
	}
	for _, o := range t.assignedOuter(x.Body) {
		if o == io {
			return bad()
		}
	}
	// `for i := 0; i < len(xs); i++` over a local slice the body does not assign IS `for i := range xs`
	if call, ok := cond.Y.(*ast.CallExpr); ok && len(call.Args) == 1 {
		if f, ok := call.Fun.(*ast.Ident); ok {
			if b, ok := t.info.Uses[f].(*types.Builtin); ok && b.Name() == "len" {
				if xs, ok := call.Args[0].(*ast.Ident); ok {
					xo := t.info.Uses[xs]
					if _, isSlice := t.info.TypeOf(xs).Underlying().(*types.Slice); isSlice && xo != nil && t.isLocal(xo) {
						for _, o := range t.assignedOuter(x.Body) {
							if o == xo {
								return bad()
							}
						}
						return t.rangeStmt(&ast.RangeStmt{For: x.For, Key: iv, Tok: token.DEFINE, X: xs, Body: x.Body}, rest, env)
					}
				}
			}
		}
	}
	ktv := t.info.Types[cond.Y]
	if ktv.Value == nil || ktv.Value.Kind() != constant.Int {
		return bad()
	}
	// the counter is declared by the loop, so assignedOuter(x.Body) may list it only if assigned (excluded above)
	var carried []types.Object
	for _, o := range t.assignedOuter(x.Body) {
		carried = append(carried, o)
	}
	carriedT, err := t.tupleType(carried)
	if err != nil {
		return "", err
	}
	cn := t.objNames(carried)
	free := t.readOuter(x.Body, append(append([]types.Object{}, carried...), io))
	var params, fargs []string
	for _, o := range free {
		g, err := t.gtype(o.Type())
		if err != nil {
			return "", err
		}
		params = append(params, fmt.Sprintf("(%s : %s)", t.nameOf(o), g))
		fargs = append(fargs, t.nameOf(o))
	}
	t.nloop++
	name := fmt.Sprintf("%s%s_loop%d", t.prefix, t.fname, t.nloop)
	savedPre := t.pre
	t.pre = nil
	body, err := t.stmts(x.Body.List, fnEnv{k: "Nxt " + tuple(cn), loopK: "Nxt " + tuple(cn)})
	t.pre = savedPre
	if err != nil {
		return "", err
	}
	unpack := ""
	if len(cn) > 1 {
		unpack = fmt.Sprintf("let '(%s) := st in\n", strings.Join(cn, ", "))
	} else if len(cn) == 1 {
		unpack = fmt.Sprintf("let %s := st in\n", cn[0])
	}
	t.defs = append(t.defs, fmt.Sprintf("Definition %s %s (%s : Z) (st : %s) : ctl %s %s :=\n%s%s.\n",
		name, strings.Join(params, " "), t.nameOf(io), carriedT, t.retT, carriedT, unpack, body))
	after, err := t.stmts(rest, env)
	if err != nil {
		return "", err
	}
	pat := tuple(cn)
	if len(cn) == 0 {
		pat = "_"
	} else if len(cn) > 1 {
		pat = "(" + strings.Join(cn, ", ") + ")"
	}
	call := name
	if len(fargs) > 0 {
		call = "(" + name + " " + strings.Join(fargs, " ") + ")"
	}
	return fmt.Sprintf("match go_count_from (Z.to_nat (%s)%%Z) 0%%Z %s %s with\n| Ret r => Ret r\n| Pan => Pan\n| Nxt %s =>\n%s\nend",
		ktv.Value.ExactString(), call, tuple(cn), pat, after), nil
}
