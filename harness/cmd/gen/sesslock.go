package main

// GenSessLock.v (property C14): the lock-protocol TRACE SETS of the session created by
// SFileSys, re-extracted from the current source before every `make`.
//
// For every exported method of the concrete session type (the type of the value SFileSys
// returns; found through go/types, not by name) the generator enumerates every syntactic
// path through the method - if/else, switch, for/range (zero or one iteration), early
// returns, deferred calls run at the return in LIFO order - with every same-package
// function, method or local closure it calls INLINED (parameters, receivers and returned
// variables are identified with the caller's), and records along each path the events
//
//	map:M             a call of sync.Map method M
//	lock:v unlock:v   (trylock, rlock, ...) a call of a sync.Mutex/RWMutex method, on variable v
//	get:v.F set:v.F   read / write of field F of a struct that contains a mutex (SFid)
//	iface:T.M         a call through an exported interface type of the package (FileSys, Dirent, File, AuthFile)
//	ret               the method returns
//
// Conditions are followed the way Go evaluates them (&&, ||, ! short-circuit; a tagless switch is its
// if-chain; if-with-init is the statement plus the if), and a repeated read of the same field with no write
// of it and no Lock/Unlock of its variable in between is recorded once.
//
// Variables are numbered v0, v1, ... by first appearance in the path; exported field names are
// kept (they are API), unexported ones become their index.  Everything is resolved through
// go/types objects: what a thing is called - local variables, unexported helpers, unexported
// types - does not matter; helper functions that take no lock and touch nothing protected
// contribute nothing; declaration order and declaration style do not matter; extracting or
// inlining a helper does not change the set of paths.
//
// The skeleton of a method is the SET of its traces (sorted, duplicates removed), published as
// their number and the SHA-256 of their text (the traces themselves are in a comment for the
// reader, and in design/C14-skeleton.txt as transcribed).  Proofs/SessLockProofsTie.v holds the
// values the model was transcribed from and proves them equal by reflexivity: an added early
// return between a Lock and its defer, a moved or dropped Unlock, a new table or FileSys action,
// a field access moved out of the lock - anything that changes some path's event sequence -
// breaks that proof obligation until the model has been re-transcribed.
// Constructs whose control flow the enumeration does not understand (go, select, goto, labels,
// break/continue, recursion) become an UNRECOGNISED event when they occur in code that is on a
// lock-relevant path: the obligation breaks rather than guesses.

import (
	"crypto/sha256"
	"fmt"
	"go/ast"
	"go/types"
	"sort"
	"strings"
)

func init() { register("GenSessLock.v", genSessLock) }

// ---- events and paths

type slEv struct {
	kind string       // "map:Load", "lock", "get", "iface:Dirent.Stat", "ret", "UNRECOGNISED ..."
	obj  types.Object // the variable, for lock/get/set events
	fld  string       // ".Ent" for get/set
}

type slPath struct {
	evs  []slEv
	done bool         // a return was executed
	rets []ast.Expr   // its result expressions
	defs [][]*slPath  // deferred path sets registered so far (innermost function only)
}

func (p *slPath) clone() *slPath {
	q := &slPath{done: p.done, rets: p.rets}
	q.evs = append([]slEv(nil), p.evs...)
	q.defs = append([][]*slPath(nil), p.defs...)
	return q
}

const slMaxPaths = 200000

type slGen struct {
	c        *Ctx
	decls    map[types.Object]*ast.FuncDecl
	lits     map[types.Object]*ast.FuncLit // local variables holding a function literal
	relevant map[*ast.FuncDecl]int         // 0 unknown, 1 in progress, 2 no, 3 yes
	memo     map[ast.Node][]*slPath        // finished path sets of function bodies
	stack    map[ast.Node]bool
	err      error
}

// ---- type helpers

func slNamed(t types.Type) *types.Named {
	if t == nil {
		return nil
	}
	if p, ok := t.(*types.Pointer); ok {
		t = p.Elem()
	}
	n, _ := t.(*types.Named)
	return n
}

func slIsSync(n *types.Named, names ...string) bool {
	if n == nil || n.Obj().Pkg() == nil || n.Obj().Pkg().Path() != "sync" {
		return false
	}
	for _, x := range names {
		if n.Obj().Name() == x {
			return true
		}
	}
	return false
}

// a struct type that contains a sync.Mutex/RWMutex (embedded or as a field): its other fields are "protected"
func slHasMutex(n *types.Named) bool {
	if n == nil {
		return false
	}
	st, ok := n.Underlying().(*types.Struct)
	if !ok {
		return false
	}
	for i := 0; i < st.NumFields(); i++ {
		if slIsSync(slNamed(st.Field(i).Type()), "Mutex", "RWMutex") {
			return true
		}
	}
	return false
}

func (g *slGen) typeOf(e ast.Expr) types.Type {
	if tv, ok := g.c.Info.Types[e]; ok {
		return tv.Type
	}
	if id, ok := e.(*ast.Ident); ok {
		if o := g.c.Info.Uses[id]; o != nil {
			return o.Type()
		}
		if o := g.c.Info.Defs[id]; o != nil {
			return o.Type()
		}
	}
	return nil
}

// the variable an expression is rooted in: ref, ref.Ent, &next, (*p).x ...
func (g *slGen) root(e ast.Expr) types.Object {
	switch x := e.(type) {
	case *ast.Ident:
		if o := g.c.Info.Uses[x]; o != nil {
			return o
		}
		return g.c.Info.Defs[x]
	case *ast.SelectorExpr:
		return g.root(x.X)
	case *ast.UnaryExpr:
		return g.root(x.X)
	case *ast.StarExpr:
		return g.root(x.X)
	case *ast.ParenExpr:
		return g.root(x.X)
	case *ast.TypeAssertExpr:
		return g.root(x.X)
	case *ast.IndexExpr:
		return g.root(x.X)
	}
	return nil
}

// ---- is a function lock-relevant at all?  (syntactic pre-scan, transitive over same-package calls)

func (g *slGen) calleeDecl(call *ast.CallExpr) *ast.FuncDecl {
	var obj types.Object
	switch f := call.Fun.(type) {
	case *ast.Ident:
		obj = g.c.Info.Uses[f]
	case *ast.SelectorExpr:
		obj = g.c.Info.Uses[f.Sel]
	}
	if obj == nil {
		return nil
	}
	return g.decls[obj]
}

func (g *slGen) nodeRelevant(n ast.Node) bool {
	rel := false
	ast.Inspect(n, func(x ast.Node) bool {
		if rel {
			return false
		}
		switch e := x.(type) {
		case *ast.CallExpr:
			if g.callEvent(e) != "" {
				rel = true
			} else if fd := g.calleeDecl(e); fd != nil && g.funcRelevant(fd) {
				rel = true
			}
		case *ast.SelectorExpr:
			if g.fieldEvent(e) != "" {
				rel = true
			}
		}
		return !rel
	})
	return rel
}

func (g *slGen) funcRelevant(fd *ast.FuncDecl) bool {
	switch g.relevant[fd] {
	case 1:
		return false // recursion: decided by the outer call
	case 2:
		return false
	case 3:
		return true
	}
	g.relevant[fd] = 1
	r := fd.Body != nil && g.nodeRelevant(fd.Body)
	if r {
		g.relevant[fd] = 3
	} else {
		g.relevant[fd] = 2
	}
	return r
}

// the event a call is by itself ("" if none): sync.Map / mutex methods, interface calls
func (g *slGen) callEvent(call *ast.CallExpr) string {
	f, ok := call.Fun.(*ast.SelectorExpr)
	if !ok {
		return ""
	}
	fn, ok := g.c.Info.Uses[f.Sel].(*types.Func)
	if !ok {
		return ""
	}
	sig := fn.Type().(*types.Signature)
	if sig.Recv() == nil {
		return ""
	}
	rn := slNamed(sig.Recv().Type())
	switch {
	case slIsSync(rn, "Map"):
		return "map:" + fn.Name()
	case slIsSync(rn, "Mutex", "RWMutex"):
		return strings.ToLower(fn.Name())
	}
	// a call through an interface type declared in this package
	if recvN := slNamed(g.typeOf(f.X)); recvN != nil {
		if _, isIface := recvN.Underlying().(*types.Interface); isIface && recvN.Obj().Pkg() == g.c.Pkg {
			name := recvN.Obj().Name()
			if !recvN.Obj().Exported() {
				name = "#unexported"
			}
			return "iface:" + name + "." + fn.Name()
		}
	}
	return ""
}

// ".F" if sel reads/writes a protected field
func (g *slGen) fieldEvent(sel *ast.SelectorExpr) string {
	fv, ok := g.c.Info.Uses[sel.Sel].(*types.Var)
	if !ok || !fv.IsField() {
		return ""
	}
	owner := slNamed(g.typeOf(sel.X))
	if !slHasMutex(owner) {
		return ""
	}
	if slIsSync(slNamed(fv.Type()), "Mutex", "RWMutex") {
		return ""
	}
	if fv.Exported() {
		return "." + fv.Name()
	}
	st := owner.Underlying().(*types.Struct)
	for i := 0; i < st.NumFields(); i++ {
		if st.Field(i) == fv {
			return fmt.Sprintf(".#%d", i)
		}
	}
	return ".#?"
}

// ---- path enumeration

func (g *slGen) add(paths []*slPath, ev slEv) []*slPath {
	for _, p := range paths {
		if !p.done {
			p.evs = append(p.evs, ev)
		}
	}
	return paths
}

func (g *slGen) unrec(paths []*slPath, n ast.Node, what string) []*slPath {
	return g.add(paths, slEv{kind: fmt.Sprintf("UNRECOGNISED(%s)@line%d", what, g.c.Fset.Position(n.Pos()).Line)})
}

// splice the (finished) paths of an inlined body into every live path; subst renames the body's objects
func (g *slGen) splice(paths []*slPath, body []*slPath, subst func(q *slPath) map[types.Object]types.Object) []*slPath {
	var out []*slPath
	for _, p := range paths {
		if p.done {
			out = append(out, p)
			continue
		}
		for _, q := range body {
			m := subst(q)
			n := p.clone()
			for _, e := range q.evs {
				if e.obj != nil {
					if o, ok := m[e.obj]; ok {
						e.obj = o
					}
				}
				n.evs = append(n.evs, e)
			}
			out = append(out, n)
		}
		if len(out) > slMaxPaths {
			g.err = fmt.Errorf("more than %d paths", slMaxPaths)
			return out[:1]
		}
	}
	return out
}

// the complete path set of a function body (returns and defers resolved), memoised
func (g *slGen) bodyPaths(key ast.Node, body *ast.BlockStmt) []*slPath {
	if ps, ok := g.memo[key]; ok {
		return ps
	}
	if g.stack[key] {
		return []*slPath{{evs: []slEv{{kind: "UNRECOGNISED(recursion)"}}}}
	}
	g.stack[key] = true
	paths := g.block([]*slPath{{}}, body)
	// run the deferred calls, last registered first
	var fin []*slPath
	for _, p := range paths {
		cur := []*slPath{{evs: p.evs, rets: p.rets}}
		for i := len(p.defs) - 1; i >= 0; i-- {
			cur = g.splice(cur, p.defs[i], func(*slPath) map[types.Object]types.Object { return nil })
		}
		for _, q := range cur {
			q.rets = p.rets
			q.done = false
			q.defs = nil
		}
		fin = append(fin, cur...)
	}
	fin = slDedupe(fin)
	delete(g.stack, key)
	g.memo[key] = fin
	return fin
}

func slKey(p *slPath) string {
	var b strings.Builder
	for _, e := range p.evs {
		fmt.Fprintf(&b, "%s|%p|%s;", e.kind, e.obj, e.fld)
	}
	b.WriteString("=>")
	for _, r := range p.rets {
		if id, ok := r.(*ast.Ident); ok {
			fmt.Fprintf(&b, "%s,", id.Name)
		} else {
			b.WriteString("_,")
		}
	}
	return b.String()
}

func slDedupe(ps []*slPath) []*slPath {
	seen := map[string]bool{}
	var out []*slPath
	for _, p := range ps {
		k := slKey(p)
		if !seen[k] {
			seen[k] = true
			out = append(out, p)
		}
	}
	return out
}

func (g *slGen) block(paths []*slPath, b *ast.BlockStmt) []*slPath {
	if b == nil {
		return paths
	}
	for _, st := range b.List {
		paths = g.stmt(paths, st)
	}
	return paths
}

func (g *slGen) exprs(paths []*slPath, es []ast.Expr) []*slPath {
	for _, e := range es {
		paths = g.expr(paths, e, false)
	}
	return paths
}

// fork: run f on a copy of the live paths
func slCopy(paths []*slPath) []*slPath {
	out := make([]*slPath, len(paths))
	for i, p := range paths {
		out[i] = p.clone()
	}
	return out
}

func (g *slGen) stmt(paths []*slPath, st ast.Stmt) []*slPath {
	switch x := st.(type) {
	case nil, *ast.EmptyStmt:
	case *ast.ExprStmt:
		paths = g.expr(paths, x.X, false)
	case *ast.AssignStmt:
		// remember closures bound to local variables
		if len(x.Lhs) == len(x.Rhs) {
			for i, r := range x.Rhs {
				if fl, ok := r.(*ast.FuncLit); ok {
					if o := g.root(x.Lhs[i]); o != nil {
						g.lits[o] = fl
					}
				}
			}
		}
		if len(x.Rhs) == 1 {
			if call, ok := x.Rhs[0].(*ast.CallExpr); ok {
				paths = g.call(paths, call, x.Lhs)
				for _, l := range x.Lhs {
					paths = g.expr(paths, l, true)
				}
				return paths
			}
		}
		paths = g.exprs(paths, x.Rhs)
		for _, l := range x.Lhs {
			paths = g.expr(paths, l, true)
		}
	case *ast.DeclStmt:
		if gd, ok := x.Decl.(*ast.GenDecl); ok {
			for _, sp := range gd.Specs {
				if vs, ok := sp.(*ast.ValueSpec); ok {
					paths = g.exprs(paths, vs.Values)
				}
			}
		}
	case *ast.IncDecStmt:
		paths = g.expr(paths, x.X, false)
		paths = g.expr(paths, x.X, true)
	case *ast.ReturnStmt:
		paths = g.exprs(paths, x.Results)
		for _, p := range paths {
			if !p.done {
				p.done = true
				p.rets = x.Results
			}
		}
	case *ast.BlockStmt:
		paths = g.block(paths, x)
	case *ast.IfStmt:
		paths = g.stmt(paths, x.Init)
		t, f := g.cond(paths, x.Cond)
		thenP := g.block(t, x.Body)
		elseP := f
		if x.Else != nil {
			elseP = g.stmt(f, x.Else)
		}
		paths = append(thenP, elseP...)
	case *ast.SwitchStmt:
		// a switch is the if-chain it abbreviates: the cases' conditions are evaluated in order, each only
		// when the earlier ones were false; default (wherever written) comes last
		paths = g.stmt(paths, x.Init)
		paths = g.expr(paths, x.Tag, false)
		var out []*slPath
		var def *ast.CaseClause
		rest := paths
		for _, cc := range x.Body.List {
			c := cc.(*ast.CaseClause)
			if c.List == nil {
				def = c
				continue
			}
			var hit []*slPath
			for _, e := range c.List {
				var t []*slPath
				if x.Tag == nil {
					t, rest = g.cond(rest, e)
				} else {
					rest = g.expr(rest, e, false)
					t = slCopy(rest)
				}
				hit = append(hit, t...)
			}
			for _, st := range c.Body {
				hit = g.stmt(hit, st)
			}
			out = append(out, hit...)
		}
		if def != nil {
			for _, st := range def.Body {
				rest = g.stmt(rest, st)
			}
		}
		paths = append(out, rest...)
	case *ast.ForStmt:
		paths = g.stmt(paths, x.Init)
		t, f := g.cond(paths, x.Cond)
		once := g.block(t, x.Body)
		once = g.stmt(once, x.Post)
		t2, f2 := g.cond(once, x.Cond)
		paths = append(append(f, f2...), t2...) // t2: would go round again; followed as leaving the loop
	case *ast.RangeStmt:
		paths = g.expr(paths, x.X, false)
		once := g.block(slCopy(paths), x.Body)
		paths = append(paths, once...)
	case *ast.DeferStmt:
		// the deferred call's own paths, computed now, run at the return
		d := g.call([]*slPath{{}}, x.Call, nil)
		for _, q := range d {
			q.done, q.rets = false, nil
		}
		d = slDedupe(d)
		for _, p := range paths {
			if !p.done {
				p.defs = append(p.defs, d)
			}
		}
	default:
		// go, select, goto/break/continue, labels, type switches, sends: control flow this enumeration does not
		// follow.  We only ever walk lock-relevant functions, so say so.
		paths = g.unrec(paths, st, fmt.Sprintf("%T", st))
	}
	if len(paths) > slMaxPaths && g.err == nil {
		g.err = fmt.Errorf("more than %d paths at line %d", slMaxPaths, g.c.Fset.Position(st.Pos()).Line)
		paths = paths[:1]
	}
	return paths
}

// a condition: the paths on which it is true and those on which it is false.  && || ! are evaluated the way
// Go does (the right operand only when the left one does not decide), so `if a || b {X}` and
// `if a {X} else if b {X}` have the same paths; anything else is evaluated once and may go either way.
func (g *slGen) cond(paths []*slPath, e ast.Expr) (t, f []*slPath) {
	switch x := e.(type) {
	case nil:
		return paths, nil // `for {` : always true
	case *ast.ParenExpr:
		return g.cond(paths, x.X)
	case *ast.UnaryExpr:
		if x.Op.String() == "!" {
			t, f = g.cond(paths, x.X)
			return f, t
		}
	case *ast.BinaryExpr:
		switch x.Op.String() {
		case "||":
			at, af := g.cond(paths, x.X)
			bt, bf := g.cond(af, x.Y)
			return append(at, bt...), bf
		case "&&":
			at, af := g.cond(paths, x.X)
			bt, bf := g.cond(at, x.Y)
			return bt, append(af, bf...)
		}
	}
	paths = g.expr(paths, e, false)
	return slCopy(paths), paths
}

func slIsLogic(e ast.Expr) bool {
	switch x := e.(type) {
	case *ast.ParenExpr:
		return slIsLogic(x.X)
	case *ast.UnaryExpr:
		return x.Op.String() == "!"
	case *ast.BinaryExpr:
		return x.Op.String() == "||" || x.Op.String() == "&&"
	}
	return false
}

func (g *slGen) expr(paths []*slPath, e ast.Expr, lhs bool) []*slPath {
	if slIsLogic(e) { // a boolean computed for its value: same evaluation order, both outcomes go on
		t, f := g.cond(paths, e)
		return append(t, f...)
	}
	switch x := e.(type) {
	case nil, *ast.Ident, *ast.BasicLit:
	case *ast.CallExpr:
		paths = g.call(paths, x, nil)
	case *ast.SelectorExpr:
		paths = g.expr(paths, x.X, false)
		if f := g.fieldEvent(x); f != "" {
			k := "get"
			if lhs {
				k = "set"
			}
			paths = g.add(paths, slEv{kind: k, obj: g.root(x.X), fld: f})
		}
	case *ast.FuncLit:
		// a closure that is only created here; its body runs where it is called
	case *ast.BinaryExpr:
		paths = g.expr(paths, x.X, false)
		paths = g.expr(paths, x.Y, false)
	case *ast.UnaryExpr:
		paths = g.expr(paths, x.X, false)
	case *ast.ParenExpr:
		paths = g.expr(paths, x.X, lhs)
	case *ast.StarExpr:
		paths = g.expr(paths, x.X, false)
	case *ast.TypeAssertExpr:
		paths = g.expr(paths, x.X, false)
	case *ast.IndexExpr:
		paths = g.expr(paths, x.X, false)
		paths = g.expr(paths, x.Index, false)
	case *ast.SliceExpr:
		paths = g.expr(paths, x.X, false)
	case *ast.KeyValueExpr:
		paths = g.expr(paths, x.Value, false)
	case *ast.CompositeLit:
		// building a new, still private value: its field initialisers are evaluated, no field of a
		// shared struct is written
		for _, el := range x.Elts {
			if kv, ok := el.(*ast.KeyValueExpr); ok {
				paths = g.expr(paths, kv.Value, false)
			} else {
				paths = g.expr(paths, el, false)
			}
		}
	default:
		if g.nodeRelevant(e) {
			paths = g.unrec(paths, e, fmt.Sprintf("%T", e))
		}
	}
	return paths
}

// a call: receiver and arguments, then the call's own event or the inlined body of the callee.
// lhs: the variables the results are assigned to (to identify returned locals with them).
func (g *slGen) call(paths []*slPath, call *ast.CallExpr, lhs []ast.Expr) []*slPath {
	var recv ast.Expr
	var lit *ast.FuncLit
	switch f := call.Fun.(type) {
	case *ast.SelectorExpr:
		recv = f.X
		paths = g.expr(paths, f.X, false)
	case *ast.FuncLit:
		lit = f
	case *ast.Ident:
		if o := g.c.Info.Uses[f]; o != nil {
			if _, isVar := o.(*types.Var); isVar {
				lit = g.lits[o]
			}
		}
	case *ast.ParenExpr:
		paths = g.expr(paths, f.X, false)
	}
	// arguments; a function literal passed as an argument is called back by the callee: zero or one time,
	// after the call's own event (sync.Map.Range)
	var callbacks []*ast.FuncLit
	for _, a := range call.Args {
		if fl, ok := a.(*ast.FuncLit); ok {
			callbacks = append(callbacks, fl)
			continue
		}
		paths = g.expr(paths, a, false)
	}
	if ev := g.callEvent(call); ev != "" {
		e := slEv{kind: ev}
		if !strings.Contains(ev, ":") { // a mutex method
			e.obj = g.root(recv)
		}
		paths = g.add(paths, e)
	} else if fd := g.calleeDecl(call); fd != nil && fd.Body != nil && g.funcRelevant(fd) {
		body := g.bodyPaths(fd, fd.Body)
		// parameters and receiver are the caller's variables
		base := map[types.Object]types.Object{}
		if fd.Recv != nil && len(fd.Recv.List) == 1 && len(fd.Recv.List[0].Names) == 1 && recv != nil {
			if o := g.root(recv); o != nil {
				base[g.c.Info.Defs[fd.Recv.List[0].Names[0]]] = o
			}
		}
		i := 0
		for _, fld := range fd.Type.Params.List {
			for _, nm := range fld.Names {
				if i < len(call.Args) {
					if o := g.root(call.Args[i]); o != nil {
						base[g.c.Info.Defs[nm]] = o
					}
				}
				i++
			}
		}
		paths = g.splice(paths, body, func(q *slPath) map[types.Object]types.Object {
			m := map[types.Object]types.Object{}
			for k, v := range base {
				m[k] = v
			}
			// a returned local variable is the variable the caller assigns it to
			if len(lhs) == len(q.rets) {
				for j, r := range q.rets {
					if id, ok := r.(*ast.Ident); ok {
						if ro, lo := g.root(id), g.root(lhs[j]); ro != nil && lo != nil {
							if _, isVar := ro.(*types.Var); isVar {
								m[ro] = lo
							}
						}
					}
				}
			}
			return m
		})
	} else if lit != nil && g.nodeRelevant(lit.Body) {
		body := g.bodyPaths(lit, lit.Body)
		paths = g.splice(paths, body, func(*slPath) map[types.Object]types.Object { return nil })
	}
	for _, fl := range callbacks {
		if g.nodeRelevant(fl.Body) {
			body := g.bodyPaths(fl, fl.Body)
			once := g.splice(slCopy(paths), body, func(*slPath) map[types.Object]types.Object { return nil })
			paths = append(paths, once...)
		}
	}
	return paths
}

// ---- canonical text of a trace

// Reads are idempotent: a read of v.F is recorded once per epoch - until v.F is written or a mutex method is
// called on v - so `if x.F == nil {..}; y := x.F` and `y := x.F; if y == nil {..}` have the same trace, while a
// read that moves across a Lock/Unlock of v or across a write of the field still shows.
func slTrace(p *slPath) string {
	num := map[types.Object]int{}
	type rd struct {
		o types.Object
		f string
	}
	seen := map[rd]bool{}
	var parts []string
	for _, e := range p.evs {
		switch {
		case e.kind == "get":
			if seen[rd{e.obj, e.fld}] {
				continue
			}
			seen[rd{e.obj, e.fld}] = true
		case e.kind == "set":
			delete(seen, rd{e.obj, e.fld})
		case e.obj != nil: // a mutex method on e.obj
			for k := range seen {
				if k.o == e.obj {
					delete(seen, k)
				}
			}
		}
		t := e.kind
		if e.obj != nil {
			n, ok := num[e.obj]
			if !ok {
				n = len(num)
				num[e.obj] = n
			}
			t += fmt.Sprintf(":v%d", n)
		} else if e.kind == "get" || e.kind == "set" {
			t += ":?"
		}
		parts = append(parts, t+e.fld)
	}
	parts = append(parts, "ret")
	return strings.Join(parts, " ")
}

func genSessLock(c *Ctx) (string, error) {
	g := &slGen{c: c, decls: map[types.Object]*ast.FuncDecl{}, lits: map[types.Object]*ast.FuncLit{},
		relevant: map[*ast.FuncDecl]int{}, memo: map[ast.Node][]*slPath{}, stack: map[ast.Node]bool{}}
	for _, f := range c.Files {
		for _, d := range f.Decls {
			if fd, ok := d.(*ast.FuncDecl); ok {
				if o := c.Info.Defs[fd.Name]; o != nil {
					g.decls[o] = fd
				}
			}
		}
	}
	// the session type: what SFileSys returns
	ctor := c.FuncDecl("", "SFileSys")
	if ctor == nil || ctor.Body == nil {
		return "", fmt.Errorf("exported constructor SFileSys not found")
	}
	var sessT *types.Named
	ast.Inspect(ctor.Body, func(n ast.Node) bool {
		if r, ok := n.(*ast.ReturnStmt); ok && len(r.Results) == 1 && sessT == nil {
			sessT = slNamed(g.typeOf(r.Results[0]))
		}
		return true
	})
	if sessT == nil {
		return "", fmt.Errorf("cannot determine the concrete type SFileSys returns")
	}
	type entry struct {
		name   string
		traces []string
	}
	var entries []entry
	for _, fd := range g.decls {
		if fd.Recv == nil || len(fd.Recv.List) != 1 || !fd.Name.IsExported() || fd.Body == nil {
			continue
		}
		if slNamed(g.typeOf(fd.Recv.List[0].Type)) != sessT {
			continue
		}
		set := map[string]bool{}
		for _, p := range g.bodyPaths(fd, fd.Body) {
			set[slTrace(p)] = true
		}
		var ts []string
		for t := range set {
			ts = append(ts, t)
		}
		sort.Strings(ts)
		entries = append(entries, entry{fd.Name.Name, ts})
	}
	if g.err != nil {
		return "", g.err
	}
	if len(entries) == 0 {
		return "", fmt.Errorf("the session type %s has no exported methods", sessT.Obj().Name())
	}
	sort.Slice(entries, func(i, j int) bool { return entries[i].name < entries[j].name })
	var b strings.Builder
	b.WriteString("From Coq Require Import List String.\nImport ListNotations.\nOpen Scope string_scope.\n\n")
	b.WriteString("(* method, number of distinct traces, SHA-256 of the sorted traces (one per line) *)\n")
	b.WriteString("Definition sesslock_skeleton : list (string * nat * string) :=\n  [ ")
	for i, e := range entries {
		if i > 0 {
			b.WriteString(";\n    ")
		}
		sum := sha256.Sum256([]byte(strings.Join(e.traces, "\n")))
		fmt.Fprintf(&b, "(%q, %d%%nat, \"%x\")", e.name, len(e.traces), sum)
	}
	b.WriteString(" ].\n\n(* the traces:\n")
	for _, e := range entries {
		fmt.Fprintf(&b, "== %s\n", e.name)
		for _, t := range e.traces {
			b.WriteString("   " + strings.ReplaceAll(t, "*)", "* )") + "\n")
		}
	}
	b.WriteString("*)\n")
	return b.String(), nil
}
