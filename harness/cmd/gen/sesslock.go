package main

// GenSessLock.v (property C14): the lock-protocol SKELETON of every function of
// sfilesys.go that Model/SessLock.v transcribes by hand.  For each function, in
// source order, the tokens
//
//	if{ … }  else{ … }  for{ … } branch / loop structure (condition tokens come first)
//	return                      a return statement
//	defer-unlock:X              defer X.Unlock()
//	defer{ … }                  defer func() { … }()
//	func{ … }                   any other function literal (Create's `fail`)
//	lock:X  unlock:X            X.Lock() / X.Unlock()
//	refs:M                      sess.refs.M(…)           (the sync.Map)
//	call:F                      getRef / newRef / delRef / delRefAction / openLocked / link / IsDir / EnsureNonNil / combine_errors / NewReaddir
//	iface:T.M                   a method call on a FileSys / Dirent / File / AuthFile value
//	set:F  get:F                write / read of SFid field F (Ent, File, Mode, path)
//
// Proofs/SessLockProofsTie.v holds the skeleton the model was transcribed from and
// proves the two equal by reflexivity: ANY edit that adds a return, moves a defer,
// adds or reorders a table/lock/FileSys action or an SFid field access changes this
// file and breaks that proof obligation until the model has been re-transcribed.
// Statement kinds that do not occur in these functions today (range, switch, select,
// go, goto, labels) are not guessed at: they become an UNRECOGNISED token, which breaks the equality.

import (
	"fmt"
	"go/ast"
	"go/types"
	"strings"
)

func init() { register("GenSessLock.v", genSessLock) }

var sessLockFuncs = []struct{ recv, name string }{
	{"session", "Stop"}, {"session", "getRef"}, {"SFid", "link"}, {"session", "newRef"}, {"session", "delRef"}, {"", "delRefAction"},
	{"session", "Auth"}, {"session", "Attach"}, {"session", "Clunk"}, {"session", "Remove"}, {"session", "Walk"},
	{"session", "Read"}, {"session", "Write"}, {"session", "Open"}, {"", "openLocked"}, {"session", "Create"},
	{"session", "Stat"}, {"session", "WStat"},
}

var sessLockHelpers = map[string]bool{"getRef": true, "newRef": true, "delRef": true, "delRefAction": true, "openLocked": true,
	"link": true, "IsDir": true, "EnsureNonNil": true, "combine_errors": true, "NewReaddir": true}

var sessLockIfaces = map[string]bool{"FileSys": true, "Dirent": true, "File": true, "AuthFile": true}

var sfidFields = map[string]bool{"Ent": true, "File": true, "Mode": true, "path": true}

type skel struct {
	c    *Ctx
	toks []string
	err  error
}

func (s *skel) emit(t string) { s.toks = append(s.toks, t) }

// An unrecognised shape is loud but local: it becomes a token that cannot be in the transcribed
// skeleton, so C14's proof obligation breaks (and names the place) while the generated files of the
// other properties are still written.  Only a function that has vanished is a translator error.
func (s *skel) fail(n ast.Node, what string) {
	pos := s.c.Fset.Position(n.Pos())
	s.emit(fmt.Sprintf("UNRECOGNISED@line%d: %s", pos.Line, what))
}

func exprName(e ast.Expr) string {
	switch x := e.(type) {
	case *ast.Ident:
		return x.Name
	case *ast.SelectorExpr:
		return exprName(x.X) + "." + x.Sel.Name
	case *ast.UnaryExpr:
		return x.Op.String() + exprName(x.X)
	case *ast.StarExpr:
		return "*" + exprName(x.X)
	case *ast.ParenExpr:
		return exprName(x.X)
	}
	return "?"
}

func (s *skel) namedOf(e ast.Expr) string {
	tv, ok := s.c.Info.Types[e]
	if !ok || tv.Type == nil {
		return ""
	}
	t := tv.Type
	if p, ok := t.(*types.Pointer); ok {
		t = p.Elem()
	}
	if n, ok := t.(*types.Named); ok {
		return n.Obj().Name()
	}
	return ""
}

func (s *skel) call(x *ast.CallExpr) {
	// arguments and the receiver expression first (source order of evaluation)
	switch f := x.Fun.(type) {
	case *ast.SelectorExpr:
		s.expr(f.X, false)
		for _, a := range x.Args {
			s.expr(a, false)
		}
		recvT := s.namedOf(f.X)
		m := f.Sel.Name
		switch {
		case m == "Lock" && recvT == "SFid":
			s.emit("lock:" + exprName(f.X))
		case m == "Unlock" && recvT == "SFid":
			s.emit("unlock:" + exprName(f.X))
		case recvT == "SFid" && !sessLockHelpers[m]:
			s.emit("sfid:" + m + ":" + exprName(f.X)) // any other method of the embedded mutex (TryLock, ...)
		case recvT == "Map":
			s.emit("refs:" + m)
		case sessLockIfaces[recvT]:
			s.emit("iface:" + recvT + "." + m)
		case sessLockHelpers[m]:
			s.emit("call:" + m)
		}
	case *ast.Ident:
		for _, a := range x.Args {
			s.expr(a, false)
		}
		if sessLockHelpers[f.Name] {
			s.emit("call:" + f.Name)
		} else if obj, ok := s.c.Info.Uses[f]; ok {
			if _, isVar := obj.(*types.Var); isVar {
				s.emit("callvar:" + f.Name) // a local function value (Create's fail)
			}
		}
	case *ast.FuncLit:
		s.emit("func{")
		s.block(f.Body)
		s.emit("}")
	default:
		s.expr(x.Fun, false)
		for _, a := range x.Args {
			s.expr(a, false)
		}
	}
}

func (s *skel) expr(e ast.Expr, lhs bool) {
	switch x := e.(type) {
	case nil:
	case *ast.CallExpr:
		s.call(x)
	case *ast.SelectorExpr:
		s.expr(x.X, false)
		if sfidFields[x.Sel.Name] && s.namedOf(x.X) == "SFid" {
			if lhs {
				s.emit("set:" + x.Sel.Name)
			} else {
				s.emit("get:" + x.Sel.Name)
			}
		}
	case *ast.FuncLit:
		s.emit("func{")
		s.block(x.Body)
		s.emit("}")
	case *ast.BinaryExpr:
		s.expr(x.X, false)
		s.expr(x.Y, false)
	case *ast.UnaryExpr:
		s.expr(x.X, false)
	case *ast.ParenExpr:
		s.expr(x.X, false)
	case *ast.StarExpr:
		s.expr(x.X, false)
	case *ast.TypeAssertExpr:
		s.expr(x.X, false)
	case *ast.IndexExpr:
		s.expr(x.X, false)
		s.expr(x.Index, false)
	case *ast.CompositeLit:
		for _, el := range x.Elts {
			if kv, ok := el.(*ast.KeyValueExpr); ok {
				s.expr(kv.Value, false)
			} else {
				s.expr(el, false)
			}
		}
	case *ast.Ident, *ast.BasicLit:
	default:
		s.fail(e, fmt.Sprintf("expression kind %T not handled by the C14 skeleton extractor", e))
	}
}

func (s *skel) block(b *ast.BlockStmt) {
	for _, st := range b.List {
		s.stmt(st)
	}
}

func (s *skel) stmt(st ast.Stmt) {
	switch x := st.(type) {
	case *ast.ExprStmt:
		s.expr(x.X, false)
	case *ast.AssignStmt:
		for _, r := range x.Rhs {
			s.expr(r, false)
		}
		for _, l := range x.Lhs {
			s.expr(l, true)
		}
	case *ast.DeclStmt:
		if gd, ok := x.Decl.(*ast.GenDecl); ok {
			for _, sp := range gd.Specs {
				if vs, ok := sp.(*ast.ValueSpec); ok {
					for _, v := range vs.Values {
						s.expr(v, false)
					}
				}
			}
		}
	case *ast.ReturnStmt:
		for _, r := range x.Results {
			s.expr(r, false)
		}
		s.emit("return")
	case *ast.IfStmt:
		if x.Init != nil {
			s.stmt(x.Init)
		}
		s.expr(x.Cond, false)
		s.emit("if{")
		s.block(x.Body)
		s.emit("}")
		switch e := x.Else.(type) {
		case nil:
		case *ast.BlockStmt:
			s.emit("else{")
			s.block(e)
			s.emit("}")
		case *ast.IfStmt:
			s.emit("else{")
			s.stmt(e)
			s.emit("}")
		}
	case *ast.BlockStmt:
		s.block(x)
	case *ast.DeferStmt:
		if sel, ok := x.Call.Fun.(*ast.SelectorExpr); ok && sel.Sel.Name == "Unlock" && len(x.Call.Args) == 0 {
			s.emit("defer-unlock:" + exprName(sel.X))
		} else if fl, ok := x.Call.Fun.(*ast.FuncLit); ok {
			s.emit("defer{")
			s.block(fl.Body)
			s.emit("}")
		} else {
			s.fail(x, "defer of something other than X.Unlock() or a function literal")
		}
	case *ast.ForStmt:
		if x.Init != nil {
			s.stmt(x.Init)
		}
		s.expr(x.Cond, false)
		s.emit("for{")
		s.block(x.Body)
		if x.Post != nil {
			s.stmt(x.Post)
		}
		s.emit("}")
	case *ast.IncDecStmt:
		s.expr(x.X, true)
	case *ast.EmptyStmt:
	default:
		s.fail(st, fmt.Sprintf("statement kind %T does not occur in the transcribed functions; re-transcribe Model/SessLock.v and extend the extractor", st))
	}
}

func genSessLock(c *Ctx) (string, error) {
	var b strings.Builder
	b.WriteString("From Coq Require Import List String.\nImport ListNotations.\nOpen Scope string_scope.\n\n")
	b.WriteString("Definition sesslock_skeleton : list (string * list string) :=\n  [ ")
	for i, f := range sessLockFuncs {
		fd := c.FuncDecl(f.recv, f.name)
		if fd == nil || fd.Body == nil {
			return "", fmt.Errorf("function %s.%s not found in the source", f.recv, f.name)
		}
		if !strings.HasSuffix(c.Fset.Position(fd.Pos()).Filename, "sfilesys.go") {
			return "", fmt.Errorf("function %s.%s moved out of sfilesys.go", f.recv, f.name)
		}
		s := &skel{c: c}
		s.block(fd.Body)
		if s.err != nil {
			return "", s.err
		}
		if i > 0 {
			b.WriteString(";\n    ")
		}
		fmt.Fprintf(&b, "(%q, [", f.name)
		for j, t := range s.toks {
			if j > 0 {
				b.WriteString("; ")
			}
			fmt.Fprintf(&b, "%q", t)
		}
		b.WriteString("])")
	}
	b.WriteString(" ].\n")
	return b.String(), nil
}
